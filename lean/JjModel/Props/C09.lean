import JjModel.Model.Rewrite
import JjModel.Props.C08
/-!
  C09 — Moving changes down a stack never alters the snapshots above it.

  Statements about `Model/Rewrite.lean` (the tree-level model of squash-into-parent / absorb /
  sequential split followed by `rebase_descendants`):
  * `rebase_keeps_tree` — a commit whose rewritten parents carry the same trees is not merged at all;
  * `squash_destination_tree` — `merge [P, P, C] = C` (with the debug assertion of `resolve` passing);
  * `walk_keeps` — induction over the walk: every commit of a set closed downwards to the top
    (`AboveClosed`) ends up represented by a commit with its old tree;
  * `absorb_keeps`, `split_keeps`, `squash_keeps` — the three operations.
-/
namespace JjModel.C09
open JjModel.Merge JjModel.Trees JjModel.Rebase JjModel.Rewrite JjModel.C07 JjModel.C08
set_option linter.unusedSimpArgs false

/-- **No merge is run for a commit whose rewritten parents carry the same trees**: it keeps its tree. -/
theorem rebase_keeps_tree (sc : SameChange) (cm : ContentMerge) (hOld hNew : History) (oldPs newPs : List Nat)
    (t : List Tree) (h : newPs.map (treeOf hNew) = oldPs.map (treeOf hOld)) :
    rebaseChecked sc cm hOld hNew oldPs newPs t = some t := by
  simp [rebaseChecked, h]

theorem resolveDebugAssert_single (sc : SameChange) (cm : ContentMerge) (t : Tree) :
    resolveDebugAssert sc cm [t] = true := by
  simp [resolveDebugAssert, resolve, mergeTrees]

/-- **Squashing a whole (unconflicted) commit into its parent gives the parent exactly the squashed
commit's tree**: `merge [P, P, C] = C`. -/
theorem squash_destination_tree (sc : SameChange) (cm : ContentMerge) (P C : Tree) :
    mergeChecked sc cm [[P], [P], [C]] = some [C] := by
  have : mergeNoResolve [[P], [P], [C]] = [C] := by
    rw [mergeNoResolve_three, simplify_side_base_right]
  simp [mergeChecked, this, resolveDebugAssert_single, resolve, mergeTrees]

/-! ### the walk -/

/-- old commit `i` is represented, as a parent, by the single commit `r`, which carries `i`'s old tree -/
structure Kept (h : History) (st : RW) (i r : Nat) : Prop where
  repl : replOf st i = [r]
  tree : treeOf st.hist r = treeOf h i
  valid : r < st.hist.length
  pos : r ≤ i ∨ h.length ≤ r

/-- step `k` touches only entry `k` of the history and of the replacement table (and may append) -/
structure Frame (st st' : RW) (k : Nat) : Prop where
  len : st.hist.length ≤ st'.hist.length
  hist : ∀ j, j ≠ k → j < st.hist.length → st'.hist[j]? = st.hist[j]?
  repl : ∀ j, j ≠ k → replOf st' j = replOf st j

theorem Frame.refl (st : RW) (k : Nat) : Frame st st k := ⟨Nat.le_refl _, fun _ _ _ => rfl, fun _ _ => rfl⟩

theorem Frame.trans {a b c : RW} {k : Nat} (h1 : Frame a b k) (h2 : Frame b c k) : Frame a c k :=
  ⟨Nat.le_trans h1.len h2.len,
   fun j hj hl => by rw [h2.hist j hj (Nat.lt_of_lt_of_le hl h1.len), h1.hist j hj hl],
   fun j hj => by rw [h2.repl j hj, h1.repl j hj]⟩

theorem frame_setHist (st : RW) (k : Nat) (c : Commit) : Frame st { st with hist := st.hist.set k c } k :=
  ⟨by simp, fun j hj _ => by simp [List.getElem?_set_ne (Ne.symm hj)], fun _ _ => rfl⟩

theorem replOf_setRepl (st : RW) (k : Nat) (l : List Nat) (j : Nat) (hj : j ≠ k) :
    replOf { st with repl := st.repl.set k l } j = replOf st j := by
  simp [replOf, List.getElem?_set_ne (Ne.symm hj)]

theorem frame_rebaseStep {sc : SameChange} {cm : ContentMerge} {h : History} {st st' : RW} {k : Nat}
    (hs : rebaseStep sc cm h st k = some st') : Frame st st' k := by
  unfold rebaseStep at hs
  simp only [Option.bind_eq_bind] at hs
  cases hr : rebaseChecked sc cm h st.hist (parentsOf h k) (newParents st (parentsOf h k)) (treeOf h k) with
  | none => simp [hr] at hs
  | some t => simp [hr] at hs; subst hs; exact frame_setHist st k _

theorem Kept.frame {h : History} {st st' : RW} {i r k : Nat} (hk : Kept h st i r) (hf : Frame st st' k)
    (hik : i < k) (hkn : k < h.length) : Kept h st' i r := by
  have hrk : r ≠ k := by rcases hk.pos with h1 | h1 <;> omega
  refine ⟨by rw [hf.repl i (by omega)]; exact hk.repl, ?_, Nat.lt_of_lt_of_le hk.valid hf.len, hk.pos⟩
  rw [← hk.tree]; unfold treeOf; rw [hf.hist r hrk hk.valid]

theorem dedupKeepFirst_of_nodup (l : List Nat) (h : l.Nodup) : dedupKeepFirst l = l := by
  have gen : ∀ (l acc : List Nat), (acc ++ l).Nodup →
      l.foldl (fun acc a => if acc.contains a then acc else acc ++ [a]) acc = acc ++ l := by
    intro l
    induction l with
    | nil => intro acc _; simp
    | cons a l ih =>
      intro acc hnd
      have ha : a ∉ acc := by
        intro hmem
        have := (List.nodup_append.mp hnd).2.2 a hmem a (by simp)
        exact this rfl
      have hc : acc.contains a = false := by simpa using ha
      rw [List.foldl_cons]
      simp only [hc, Bool.false_eq_true, if_false]
      rw [ih (acc ++ [a]) (by simpa [List.append_assoc] using hnd)]
      simp
  simpa [dedupKeepFirst] using gen l [] (by simpa using h)

/-- state invariant of the walk before step `k` -/
structure Inv (h : History) (good : Nat → Prop) (top rTop : Nat) (k : Nat) (st : RW) : Prop where
  lenge : h.length ≤ st.hist.length
  ident : ∀ j, k ≤ j → replOf st j = [j]
  kept : ∀ i, good i → i < k → Kept h st i (if i = top then rTop else i)
  fresh : ∀ j, k ≤ j → j < h.length → st.hist[j]? = h[j]?

theorem replOf_init (h : History) (j : Nat) : replOf (RW.init h) j = [j] := by
  unfold replOf RW.init
  by_cases hj : j < h.length
  · simp [hj]
  · simp [hj, Nat.not_lt.mp hj]

/-- the default step keeps the tree of a commit all of whose parents are kept -/
theorem kept_of_rebaseStep {sc : SameChange} {cm : ContentMerge} {h : History} {good : Nat → Prop}
    {top rTop k : Nat} {st st' : RW} (hinv : Inv h good top rTop k st) (hkn : k < h.length)
    (hpar : ∀ p ∈ parentsOf h k, p < k ∧ good p)
    (hnd : ((parentsOf h k).map (fun p => if p = top then rTop else p)).Nodup)
    (hs : rebaseStep sc cm h st k = some st') : Kept h st' k k := by
  -- every parent is represented by one commit carrying its old tree
  have hrepl : ∀ (ps : List Nat), (∀ p ∈ ps, p < k ∧ good p) →
      ps.flatMap (replOf st) = ps.map (fun p => if p = top then rTop else p) := by
    intro ps
    induction ps with
    | nil => intro _; rfl
    | cons p ps ih =>
      intro hp
      have h1 := hp p (by simp)
      rw [List.flatMap_cons, List.map_cons, ih (fun q hq => hp q (by simp [hq])),
        (hinv.kept p h1.2 h1.1).repl]
      rfl
  have htrees : ∀ (ps : List Nat), (∀ p ∈ ps, p < k ∧ good p) →
      (ps.map (fun p => if p = top then rTop else p)).map (treeOf st.hist) = ps.map (treeOf h) := by
    intro ps
    induction ps with
    | nil => intro _; rfl
    | cons p ps ih =>
      intro hp
      have h1 := hp p (by simp)
      simp only [List.map_cons]
      rw [(hinv.kept p h1.2 h1.1).tree]
      congr 1
      exact ih (fun q hq => hp q (by simp [hq]))
  have hnp : newParents st (parentsOf h k) = (parentsOf h k).map (fun p => if p = top then rTop else p) := by
    rw [newParents, hrepl _ hpar, dedupKeepFirst_of_nodup _ hnd]
  unfold rebaseStep at hs
  rw [hnp] at hs
  simp only [rebase_keeps_tree _ _ _ _ _ _ _ (htrees _ hpar), Option.bind_eq_bind, Option.bind_some,
    Option.some.injEq] at hs
  subst hs
  have hlen : k < st.hist.length := Nat.lt_of_lt_of_le hkn hinv.lenge
  refine ⟨?_, ?_, by simpa using hlen, Or.inl (Nat.le_refl _)⟩
  · exact hinv.ident k (Nat.le_refl _)
  · simp [treeOf, hlen]

theorem runList_range_inv (step : RW → Nat → Option RW) (I : Nat → RW → Prop) (n : Nat)
    (hstep : ∀ k st st', k < n → I k st → step st k = some st' → I (k + 1) st') :
    ∀ (m k : Nat) (st final : RW), k + m = n → I k st →
      runList step (List.range' k m) st = some final → I n final := by
  intro m
  induction m with
  | zero =>
    intro k st final hk hI hr
    simp [List.range', runList] at hr
    subst hr
    have : k = n := by omega
    subst this; exact hI
  | succ m ih =>
    intro k st final hk hI hr
    simp only [List.range', runList] at hr
    cases hs : step st k with
    | none => simp [hs] at hr
    | some st' =>
      simp only [hs, Option.bind_some] at hr
      exact ih (k + 1) st' final (by omega) (hstep k st st' (by omega) hI hs) hr

theorem frame_stepWith {sc : SameChange} {cm : ContentMerge} {h : History}
    {special : RW → Nat → Option (Option RW)}
    (hspecial : ∀ st k st', special st k = some (some st') → Frame st st' k)
    {st st' : RW} {k : Nat} (hs : stepWith sc cm h special st k = some st') : Frame st st' k := by
  unfold stepWith at hs
  split at hs
  · injection hs with hs; subst hs; exact Frame.refl _ _
  · split at hs
    · next r hr => subst hs; exact hspecial _ _ _ hr
    · exact frame_rebaseStep hs

/-- **Descendants keep their trees.**  `good` is any set of commits closed downwards to the top: every
good commit other than the top is handled by the default rebase and all its parents are good (this
covers the commits purely above the top, and everything the operation does not reach).  After the
walk every good commit is represented by a commit carrying its old tree. -/
theorem walk_keeps (sc : SameChange) (cm : ContentMerge) (h : History)
    (special : RW → Nat → Option (Option RW)) (good : Nat → Prop) (top rTop : Nat) (J : Nat → RW → Prop)
    (hspecial : ∀ st k st', special st k = some (some st') → Frame st st' k)
    (hJ0 : J 0 (RW.init h))
    (hJ : ∀ k st st', k < h.length → Inv h good top rTop k st → J k st →
      stepWith sc cm h special st k = some st' → J (k + 1) st')
    (htop : ∀ st st', top < h.length → Inv h good top rTop top st → J top st →
      stepWith sc cm h special st top = some st' → Kept h st' top rTop)
    (htop0 : top ≠ 0)
    (hgood : ∀ i, good i → i ≠ top → 0 < i → i < h.length →
      (∀ st, special st i = none) ∧ (∀ p ∈ parentsOf h i, p < i ∧ good p) ∧
      ((parentsOf h i).map (fun p => if p = top then rTop else p)).Nodup)
    (final : RW) (hrun : run sc cm h special = some final) :
    ∀ i, good i → i < h.length → Kept h final i (if i = top then rTop else i) := by
  have hfin := runList_range_inv (stepWith sc cm h special)
    (fun k st => Inv h good top rTop k st ∧ J k st) h.length ?_ h.length 0 (RW.init h) final (by omega)
    ⟨⟨Nat.le_refl _, fun j _ => replOf_init h j, fun _ _ hi => absurd hi (Nat.not_lt_zero _), fun _ _ _ => rfl⟩, hJ0⟩
    (by simpa [run, List.range_eq_range'] using hrun)
  · intro i hg hi; exact hfin.1.kept i hg hi
  · intro k st st' hk ⟨hinv, hj⟩ hs
    have hf := frame_stepWith hspecial hs
    refine ⟨⟨Nat.le_trans hinv.lenge hf.len, ?_, ?_, ?_⟩, hJ k st st' hk hinv hj hs⟩
    · intro j hjk
      rw [hf.repl j (by omega)]; exact hinv.ident j (by omega)
    · intro i hg hi
      by_cases hik : i < k
      · exact (hinv.kept i hg hik).frame hf hik hk
      · have hik : i = k := by omega
        subst hik
        by_cases ht : i = top
        · subst ht; simp only [if_true]; exact htop st st' hk hinv hj hs
        · simp only [ht, if_false]
          by_cases h0 : i = 0
          · subst h0
            have : st' = st := by simp [stepWith] at hs; exact hs.symm
            subst this
            refine ⟨hinv.ident 0 (Nat.le_refl _), ?_, Nat.lt_of_lt_of_le hk hinv.lenge, Or.inl (Nat.le_refl _)⟩
            unfold treeOf; rw [hinv.fresh 0 (Nat.le_refl _) hk]
          · obtain ⟨hsp, hpar, hnd⟩ := hgood i hg ht (by omega) hk
            have hs' : rebaseStep sc cm h st i = some st' := by
              simpa [stepWith, h0, hsp st] using hs
            exact kept_of_rebaseStep hinv hk hpar hnd hs'
    · intro j hjk hjn
      rw [hf.hist j (by omega) (Nat.lt_of_lt_of_le hjn hinv.lenge)]
      exact hinv.fresh j (by omega) hjn

/-- `good` is closed downwards to the top: a good commit other than the top is not a receiver, all its
parents are good (and older), and they stay pairwise distinct when the top is replaced by its
representative `rTop`. -/
def AboveClosed (h : History) (good : Nat → Prop) (top rTop : Nat) (receivers : List Nat) : Prop :=
  ∀ i, good i → i ≠ top → 0 < i → i < h.length →
    i ∉ receivers ∧ (∀ p ∈ parentsOf h i, p < i ∧ good p) ∧
    ((parentsOf h i).map (fun p => if p = top then rTop else p)).Nodup

theorem treeOf_set_self (l : History) (k : Nat) (c : Commit) (hk : k < l.length) : treeOf (l.set k c) k = c.tree := by
  simp [treeOf, hk]

/-! #### absorb -/

theorem frame_absorbSpecial (sc : SameChange) (cm : ContentMerge) (h : History) (c : Nat) (sel : List (Nat × List Tree))
    (st : RW) (k : Nat) (st' : RW) (hs : absorbSpecial sc cm h c sel st k = some (some st')) : Frame st st' k := by
  unfold absorbSpecial at hs
  split at hs
  · next hk => subst hk; simp at hs; subst hs; exact frame_setHist st _ _
  · split at hs
    · injection hs with hs
      simp only [Option.bind_eq_bind, Option.bind_eq_some_iff] at hs
      obtain ⟨st1, h1, pt, _, t, _, hs⟩ := hs
      injection hs with hs
      subst hs
      exact (frame_rebaseStep h1).trans (frame_setHist st1 k _)
    · cases hs

theorem lookup_eq_none_of_not_mem {β : Type} (sel : List (Nat × β)) (i : Nat) (h : i ∉ sel.map Prod.fst) :
    sel.lookup i = none := by
  induction sel with
  | nil => rfl
  | cons e sel ih =>
    obtain ⟨d, t⟩ := e
    simp only [List.map_cons, List.mem_cons, not_or] at h
    have : (i == d) = false := by simpa using h.1
    simp [List.lookup, this, ih h.2]

/-- **Absorb: the source and everything purely above it keep their trees.** -/
theorem absorb_keeps (sc : SameChange) (cm : ContentMerge) (h : History) (c : Nat) (sel : List (Nat × List Tree))
    (good : Nat → Prop) (hc0 : c ≠ 0)
    (hclosed : AboveClosed h good c c (sel.map Prod.fst))
    (final : RW) (hrun : absorb sc cm h c sel = some final) :
    ∀ i, good i → i < h.length → treeOf final.hist i = treeOf h i := by
  intro i hg hi
  have := walk_keeps sc cm h (absorbSpecial sc cm h c sel) good c c (fun _ _ => True)
    (frame_absorbSpecial sc cm h c sel) trivial (fun _ _ _ _ _ _ _ => trivial) ?_ hc0 ?_ final hrun i hg hi
  · have h2 := this.tree
    by_cases hic : i = c
    · subst hic; simpa using h2
    · simpa [hic] using h2
  · intro st st' hcn hinv _ hs
    have : st' = { st with hist := st.hist.set c { parents := newParents st (parentsOf h c), tree := treeOf h c } } := by
      simp [stepWith, hc0, absorbSpecial] at hs; exact hs.symm
    subst this
    have hlen : c < st.hist.length := Nat.lt_of_lt_of_le hcn hinv.lenge
    exact ⟨hinv.ident c (Nat.le_refl _), treeOf_set_self _ _ _ hlen, by simpa using hlen, Or.inl (Nat.le_refl _)⟩
  · intro i hg hne hpos hlt
    obtain ⟨hnr, hpar, hnd⟩ := hclosed i hg hne hpos hlt
    refine ⟨fun st => ?_, hpar, hnd⟩
    simp [absorbSpecial, hne, lookup_eq_none_of_not_mem sel i hnr]

/-! #### split -/

theorem frame_splitSpecial (h : History) (c : Nat) (selected : List Tree)
    (st : RW) (k : Nat) (st' : RW) (hs : splitSpecial h c selected st k = some (some st')) : Frame st st' k := by
  unfold splitSpecial at hs
  split at hs
  · next hk =>
    subst hk
    simp only [Option.some.injEq] at hs
    subst hs
    refine ⟨by simp, fun j hj hl => ?_, fun j hj => replOf_setRepl st _ _ j hj⟩
    simp only
    rw [List.getElem?_append_left (by simpa using hl), List.getElem?_set_ne (Ne.symm hj)]
  · cases hs

theorem repl_length_stepWith_split {sc : SameChange} {cm : ContentMerge} {h : History} {c : Nat} {selected : List Tree}
    {st st' : RW} {k : Nat} (hs : stepWith sc cm h (splitSpecial h c selected) st k = some st') :
    st'.repl.length = st.repl.length ∧ (k ≠ c → st'.hist.length = st.hist.length) := by
  unfold stepWith at hs
  split at hs
  · injection hs with hs; subst hs; exact ⟨rfl, fun _ => rfl⟩
  · split at hs
    · next r hr =>
      subst hs
      unfold splitSpecial at hr
      split at hr
      · next hk => simp only [Option.some.injEq] at hr; subst hr; exact ⟨by simp, fun hne => absurd hk hne⟩
      · cases hr
    · unfold rebaseStep at hs
      simp only [Option.bind_eq_bind, Option.bind_eq_some_iff] at hs
      obtain ⟨t, _, hs⟩ := hs
      injection hs with hs; subst hs
      exact ⟨rfl, fun _ => by simp⟩

/-- **Split: the second commit carries the original tree and everything purely above it keeps its
tree** (the children of the split commit are moved onto the second commit, numbered `h.length`). -/
theorem split_keeps (sc : SameChange) (cm : ContentMerge) (h : History) (c : Nat) (selected : List Tree)
    (good : Nat → Prop) (hc0 : c ≠ 0)
    (hclosed : AboveClosed h good c h.length [])
    (final : RW) (hrun : split sc cm h c selected = some final) :
    ∀ i, good i → i < h.length → treeOf final.hist (if i = c then h.length else i) = treeOf h i := by
  intro i hg hi
  have := walk_keeps sc cm h (splitSpecial h c selected) good c h.length
    (fun k st => st.repl.length = h.length ∧ (k ≤ c → st.hist.length = h.length))
    (frame_splitSpecial h c selected) ⟨by simp [RW.init], fun _ => rfl⟩ ?_ ?_ hc0 ?_ final hrun i hg hi
  · exact this.tree
  · intro k st st' _ _ hj hs
    obtain ⟨h1, h2⟩ := repl_length_stepWith_split hs
    exact ⟨by rw [h1]; exact hj.1, fun hk => by rw [h2 (by omega)]; exact hj.2 (by omega)⟩
  · intro st st' hcn hinv hj hs
    have hlen : st.hist.length = h.length := hj.2 (Nat.le_refl _)
    have : st' = { st with
        hist := (st.hist.set c { parents := newParents st (parentsOf h c), tree := selected })
                  ++ [{ parents := [c], tree := treeOf h c }],
        repl := st.repl.set c [st.hist.length] } := by
      simp [stepWith, hc0, splitSpecial] at hs; exact hs.symm
    subst this
    refine ⟨?_, ?_, by simp [hlen], Or.inr (Nat.le_refl _)⟩
    · simp [replOf, hj.1, hcn, hlen]
    · simp [treeOf, ← hlen]
  · intro i hg hne hpos hlt
    obtain ⟨_, hpar, hnd⟩ := hclosed i hg hne hpos hlt
    exact ⟨fun st => by simp [splitSpecial, hne], hpar, hnd⟩

/-! #### squash -/

theorem frame_squashSpecial (sc : SameChange) (cm : ContentMerge) (h : History) (c p : Nat)
    (st : RW) (k : Nat) (st' : RW) (hs : squashSpecial sc cm h c p st k = some (some st')) : Frame st st' k := by
  unfold squashSpecial at hs
  split at hs
  · next hk =>
    subst hk
    injection hs with hs
    simp only [Option.bind_eq_bind, Option.bind_eq_some_iff] at hs
    obtain ⟨st1, h1, pt, _, t, _, hs⟩ := hs
    injection hs with hs
    subst hs
    exact (frame_rebaseStep h1).trans (frame_setHist st1 k _)
  · split at hs
    · next hk =>
      subst hk
      simp only [Option.some.injEq] at hs
      subst hs
      exact ⟨Nat.le_refl _, fun _ _ _ => rfl, fun j hj => replOf_setRepl st _ _ j hj⟩
    · cases hs

theorem rebaseStep_repl {sc : SameChange} {cm : ContentMerge} {h : History} {st st' : RW} {k : Nat}
    (hs : rebaseStep sc cm h st k = some st') : st'.repl = st.repl ∧ st'.hist.length = st.hist.length := by
  unfold rebaseStep at hs
  simp only [Option.bind_eq_bind, Option.bind_eq_some_iff] at hs
  obtain ⟨t, _, hs⟩ := hs
  injection hs with hs; subst hs
  exact ⟨rfl, by simp⟩

/-- **Squash of a whole unconflicted commit `c` into its parent `p`: the rewritten parent carries
`c`'s tree, and everything purely above `c` keeps its tree** (children of `c` move onto the new `p`). -/
theorem squash_keeps (sc : SameChange) (cm : ContentMerge) (h : History) (c p : Nat) (P C : Tree)
    (good : Nat → Prop) (hpar : parentsOf h c = [p]) (hp0 : p ≠ 0) (hpc : p < c)
    (hP : treeOf h p = [P]) (hC : treeOf h c = [C])
    (hclosed : AboveClosed h good c p [p])
    (final : RW) (hrun : squashWhole sc cm h c = some final) :
    ∀ i, good i → i < h.length → treeOf final.hist (if i = c then p else i) = treeOf h i := by
  intro i hg hi
  have hc0 : c ≠ 0 := by omega
  have hcp : c ≠ p := by omega
  simp only [squashWhole, hpar] at hrun
  have := walk_keeps sc cm h (squashSpecial sc cm h c p) good c p
    (fun k st => st.repl.length = h.length ∧
      (p < k → replOf st p = [p] ∧ treeOf st.hist p = treeOf h c ∧ p < st.hist.length))
    (frame_squashSpecial sc cm h c p) ⟨by simp [RW.init], fun hk => absurd hk (Nat.not_lt_zero _)⟩
    ?_ ?_ hc0 ?_ final hrun i hg hi
  · exact this.tree
  · -- the side invariant: after step `p` the destination carries `c`'s tree
    intro k st st' hk hinv hj hs
    have hf := frame_stepWith (frame_squashSpecial sc cm h c p) hs
    by_cases hkp : k = p
    · subst hkp
      have hs' : squashSpecial sc cm h c k st k = some (some st') := by
        simp only [stepWith, hp0, if_false] at hs
        simp only [squashSpecial, if_true] at hs ⊢
        rw [hs]
      simp only [squashSpecial, if_true, Option.some.injEq] at hs'
      simp only [Option.bind_eq_bind, Option.bind_eq_some_iff] at hs'
      obtain ⟨st1, h1, pt, hpt, t, ht, hs'⟩ := hs'
      injection hs' with hs'
      obtain ⟨hr1, hl1⟩ := rebaseStep_repl h1
      have hpt' : pt = [P] := by
        rw [hpar] at hpt; simp [mctChecked, hP] at hpt; exact hpt.symm
      have ht' : t = [C] := by
        rw [hpt', hP, hC, squash_destination_tree] at ht; injection ht with ht; exact ht.symm
      have hlen : k < st1.hist.length := by rw [hl1]; exact Nat.lt_of_lt_of_le hk hinv.lenge
      subst hs'
      refine ⟨by simp only [hr1]; exact hj.1, fun _ => ⟨?_, ?_, by simpa using hlen⟩⟩
      · have := hinv.ident k (Nat.le_refl _)
        simpa [replOf, hr1] using this
      · rw [treeOf_set_self _ _ _ hlen, ht', hC]
    · -- other steps leave entry `p` alone
      have hrl : st'.repl.length = st.repl.length := by
        unfold stepWith at hs
        split at hs
        · injection hs with hs; subst hs; rfl
        · split at hs
          · next r hr =>
            subst hs
            unfold squashSpecial at hr
            simp only [hkp, if_false] at hr
            split at hr
            · simp only [Option.some.injEq] at hr; subst hr; simp
            · cases hr
          · rw [(rebaseStep_repl hs).1]
      refine ⟨by rw [hrl]; exact hj.1, fun hlt => ?_⟩
      obtain ⟨h1, h2, h3⟩ := hj.2 (by omega)
      refine ⟨by rw [hf.repl p (Ne.symm hkp)]; exact h1, ?_, Nat.lt_of_lt_of_le h3 hf.len⟩
      rw [← h2]; unfold treeOf; rw [hf.hist p (Ne.symm hkp) h3]
  · -- step `c`: the abandoned commit is represented by the rewritten parent
    intro st st' hcn hinv hj hs
    obtain ⟨h1, h2, h3⟩ := hj.2 hpc
    have hnp : newParents st (parentsOf h c) = [p] := by
      simp [newParents, hpar, h1, dedupKeepFirst]
    have : st' = { st with repl := st.repl.set c [p], abandoned := c :: st.abandoned } := by
      simp [stepWith, hc0, squashSpecial, hcp, hnp] at hs; exact hs.symm
    subst this
    refine ⟨?_, h2, h3, Or.inl (Nat.le_of_lt hpc)⟩
    simp [replOf, hj.1, hcn]
  · intro i hg hne hpos hlt
    obtain ⟨hnr, hpar', hnd⟩ := hclosed i hg hne hpos hlt
    have hip : i ≠ p := by simpa using hnr
    exact ⟨fun st => by simp [squashSpecial, hne, hip], hpar', hnd⟩

/-! ### non-vacuity -/

def exStack : History :=
  [ ⟨[], [.nil]⟩, ⟨[0], [.file 0 0 false .nil]⟩, ⟨[1], [.file 0 0 false (.file 1 1 false .nil)]⟩,
    ⟨[2], [.file 0 0 false (.file 1 1 false (.file 2 2 false .nil))]⟩ ]

/-- squash commit `2` into `1`: commit `3` sits purely above the top -/
example : AboveClosed exStack (fun i => i = 2 ∨ i = 3) 2 1 [1] := by
  intro i hg hne hpos hlt
  rcases hg with rfl | rfl
  · exact absurd rfl hne
  · refine ⟨by decide, ?_, by decide⟩
    intro p hp
    have : p = 2 := by simpa [parentsOf, exStack] using hp
    subst this; exact ⟨by omega, Or.inl rfl⟩

example : (squashWhole .accept (slotMerge .accept) exStack 2).map (fun st => (treeOf st.hist 1, treeOf st.hist 3))
    = some (treeOf exStack 2, treeOf exStack 3) := by decide

example : (split .accept (slotMerge .accept) exStack 2 [.file 0 0 false .nil]).map
    (fun st => (treeOf st.hist 2, treeOf st.hist 4, treeOf st.hist 3))
    = some ([.file 0 0 false .nil], treeOf exStack 2, treeOf exStack 3) := by decide

example : (absorb .accept (slotMerge .accept) exStack 3 [(1, [.file 0 3 false .nil])]).map
    (fun st => (treeOf st.hist 1, treeOf st.hist 3))
    = some ([.file 0 3 false .nil], treeOf exStack 3) := by decide

end JjModel.C09
