import JjModel.Model.Tree
/-!
  C07 — Tree merges are the path-wise merge of their inputs.
-/
namespace JjModel.C07
open JjModel.Merge JjModel.Trees

/-- **Finding.** The `debug_assert_eq!(re_merged, simplified)` of `MergedTree::resolve` does not
hold: for the flattened terms of
`merge [(2:f0), [(1:(0:f0;1:f1)), (1:(0:f0)), (1:f2;2:f0)], (1:f2)]` the basename `1` is kept as a
file/directory clash (its terms are two directories, an absent term and a cancelling pair of
files); simplifying the five result trees cancels the pair, and merging once more recurses into
the directories and resolves everything (no content merge is involved). -/
theorem resolve_debug_assert_can_fire :
    resolveDebugAssert .accept (slotMerge .accept)
      [ .file 2 0 false .nil,
        .file 1 2 false (.file 2 0 false .nil),
        .dir 1 (.file 0 0 false .nil) .nil,
        .dir 1 (.file 0 0 false (.file 1 1 false .nil)) .nil,
        .file 1 2 false .nil ] = false := by
  decide

end JjModel.C07
