import JjModel.Lemmas.TreeMerge
/-!
  C07 — Tree merges are the path-wise merge of their inputs.

  All statements are about the definitions of `Model/Tree.lean` that the driver runs
  (`mergeTrees`, `mergedTreeMerge`, `pathValue`), for every arity, every tree, both same-change
  settings and **every** content-merge function `cm`.

  * `path_value_merge` — at every path with `NoClashAbove`, the merged trees' `path_value` is the
    per-entry merge (`mergeValue`: trivial resolution, else recursive merge for directories, else file
    merge) of the inputs' values at that path.  No sortedness hypothesis is needed.
  * `clash_keeps_terms` — at a conflict that cannot be resolved the merged value is exactly the list of
    the inputs' entries (nothing merged below, nothing dropped).
  * `merge_of_trivial`, `merge_side_eq_base_left/right`, `merge_same_change` — identity laws.
  * `conflict_free_iff` — the result is a single tree iff no path is a leaf conflict.
  * `resolve_debug_assert_can_fire` — the finding: `MergedTree::resolve` is not idempotent.
-/
namespace JjModel.C07
open JjModel.Merge JjModel.Trees
set_option linter.unusedSimpArgs false

/-- `NoClashAbove`: no proper (non-empty) prefix `q` of `p` is a file/directory clash, i.e. an
unresolved merge some of whose terms are trees and some are not.  `MergedTree::path_value` reports
*absent* for every path below such a prefix. -/
def NoClashAbove (sc : SameChange) (ts : List Tree) (p : List Nat) : Prop :=
  ∀ q r, p = q ++ r → q ≠ [] → r ≠ [] →
    trivialMerge (ts.map (·.get q)) sc ≠ none ∨ (ts.map (·.get q)).all isTreeOrNone = true

theorem map_get_cons (ts : List Tree) (n : Nat) (p : List Nat) :
    ts.map (·.get (n :: p)) = (ts.map (·.lookup n)).map (fun v => getFrom v p) := by
  simp [List.map_map, Function.comp_def, get_cons]

theorem map_get_subtrees (vals : MVal) (hall : vals.all isTreeOrNone = true) (m : Nat) (q : List Nat) :
    (vals.map treeOrEmpty).map (·.get (m :: q)) = vals.map (fun v => getFrom v (m :: q)) := by
  rw [List.map_map]
  apply List.map_congr_left
  intro v hv
  exact get_treeOrEmpty v (List.all_eq_true.mp hall v hv) m q

theorem noClashAbove_subtrees {sc : SameChange} {ts : List Tree} {n m : Nat} {q : List Nat}
    (h : NoClashAbove sc ts (n :: m :: q)) (hall : (ts.map (·.lookup n)).all isTreeOrNone = true) :
    NoClashAbove sc ((ts.map (·.lookup n)).map treeOrEmpty) (m :: q) := by
  intro q' r' hqr hq' hr'
  cases q' with
  | nil => exact absurd rfl hq'
  | cons a q'' =>
    have := h (n :: a :: q'') r' (by simp [hqr]) (by simp) hr'
    rw [map_get_cons, ← map_get_subtrees _ hall] at this
    exact this

/-- The per-path law for any sufficient fuel. -/
theorem pathValue_mergeTreesF (sc : SameChange) (cm : ContentMerge) (p : List Nat) :
    ∀ (f : Nat) (ts : List Tree), ts.length % 2 = 1 → 1 < ts.length → maxHeight ts ≤ f + 1 → p ≠ [] →
      NoClashAbove sc ts p →
      pathValue sc (mergeTreesF sc cm (f + 1) ts) p = mergeValue sc cm (ts.map (·.get p)) := by
  induction p with
  | nil => intro _ _ _ _ _ hp; exact absurd rfl hp
  | cons n p ih =>
    intro f ts hodd hlen hfuel _ hclash
    -- the recursive merge of the subtrees below `n`, with the fuel of the model and with its own fuel
    have hsub : mergeTreesF sc cm f ((ts.map (·.lookup n)).map treeOrEmpty)
        = mergeTrees sc cm ((ts.map (·.lookup n)).map treeOrEmpty) := by
      rw [mergeTrees_eq _ _ _ (by simpa using hlen)]
      have := maxHeight_subtrees ts n
      exact mergeTreesF_fuel _ _ _ _ _ (by omega) (Nat.le_refl _)
    have hentry : mergeEntry sc cm (mergeTreesF sc cm f) (ts.map (·.lookup n))
        = mergeEntry sc cm (mergeTrees sc cm) (ts.map (·.lookup n)) := mergeEntry_congr _ _ _ _ _ hsub
    cases p with
    | nil =>
      show valueAt sc _ n = _
      rw [valueAt_mergeTreesF sc cm f ts hodd hlen n, hentry]
      rfl
    | cons m q =>
      have hv := valueAt_mergeTreesF sc cm f ts hodd hlen n
      rw [map_get_cons]
      cases htm : trivialMerge (ts.map (·.lookup n)) sc with
      | some v =>
        -- the directory entry (or whatever is there) resolves trivially: so does everything below it
        have hproj := trivialMerge_map (fun v => getFrom v (m :: q)) _ (by simpa using hodd) sc v htm
        rw [mergeEntry_of_trivial _ _ _ _ _ htm] at hv
        simp only [mergeValue, mergeEntry_of_trivial _ _ _ _ _ hproj, Merged.toMVal]
        simp only [pathValue, subTree, hv, Merged.toMVal]
        match v with
        | some (.tree t) => exact pathValue_single sc t (m :: q) (by simp)
        | none => simp
        | some (.file _ _) => simp only []; rw [getFrom_nontree _ (by simp)]
        | some (.symlink _) => simp only []; rw [getFrom_nontree _ (by simp)]
      | none =>
        have hall : (ts.map (·.lookup n)).all isTreeOrNone = true := by
          rcases hclash [n] (m :: q) rfl (by simp) (by simp) with h | h
          · exact absurd htm h
          · exact h
        -- below `n` the merged trees are the merge of the subtrees
        have hdown : pathValue sc (mergeTreesF sc cm (f + 1) ts) (n :: m :: q)
            = pathValue sc (mergeTreesF sc cm f ((ts.map (·.lookup n)).map treeOrEmpty)) (m :: q) := by
          have hE : mergeEntry sc cm (mergeTreesF sc cm f) (ts.map (·.lookup n))
              = markCompleted sc ((mergeTreesF sc cm f ((ts.map (·.lookup n)).map treeOrEmpty)).map treeToVal) := by
            simp [mergeEntry, htm, hall]
          rw [hE] at hv
          generalize hS : mergeTreesF sc cm f ((ts.map (·.lookup n)).map treeOrEmpty) = sub at hv
          rcases length_mergeTreesF sc cm f ((ts.map (·.lookup n)).map treeOrEmpty) with h1 | h1
          · rw [hS] at h1
            match sub, h1 with
            | [s], _ =>
              simp only [List.map_cons, List.map_nil, markCompleted, trivialMerge_single, Merged.toMVal] at hv
              simp only [pathValue, subTree, hv]
              by_cases hs : s = .nil
              · subst hs; simp [treeToVal, pathValue_single, get_cons]
              · simp [treeToVal, hs]
          · rw [hS] at h1
            have hne : sub.length ≠ 1 := by simp at h1; omega
            have hnt : trivialMerge (sub.map treeToVal) sc = none := by
              have hfuel' : mergeTreesF sc cm f ((ts.map (·.lookup n)).map treeOrEmpty)
                  = mergeTreesF sc cm (f + 1) ((ts.map (·.lookup n)).map treeOrEmpty) := by
                have := maxHeight_subtrees ts n
                exact mergeTreesF_fuel _ _ _ _ _ (by omega) (by omega)
              rw [← hS, hfuel']
              apply mergeTreesF_conflict_not_trivial _ _ _ _ (by simpa using hodd) (by simpa using hlen)
              rw [← hfuel', hS]; exact hne
            simp only [markCompleted, hnt, Merged.toMVal] at hv
            simp only [pathValue, subTree, hv]
            have hallS : (sub.map treeToVal).all isTreeOrNone = true := by
              simp [List.all_map, Function.comp_def, isTreeOrNone_treeToVal]
            match hsm : sub.map treeToVal, hallS with
            | [], _ => simp at hsm; subst hsm; simp at h1; omega
            | [x], _ => have := congrArg List.length hsm; simp at this; omega
            | x :: y :: rest, hallS =>
              simp only [hallS, if_true]
              rw [← hsm]
              simp [List.map_map, Function.comp_def, treeOrEmpty_treeToVal]
        rw [hdown]
        have hfuel' : mergeTreesF sc cm f ((ts.map (·.lookup n)).map treeOrEmpty)
            = mergeTreesF sc cm (f + 1) ((ts.map (·.lookup n)).map treeOrEmpty) := by
          have := maxHeight_subtrees ts n
          exact mergeTreesF_fuel _ _ _ _ _ (by omega) (by omega)
        rw [hfuel', ih f _ (by simpa using hodd) (by simpa using hlen)
          (by have := maxHeight_subtrees ts n; omega) (by simp) (noClashAbove_subtrees hclash hall),
          map_get_subtrees _ hall]

/-- If every basename trivially resolves to the entry of one input `a`, the merge is `a`. -/
theorem mergeTreesF_of_all_trivial (sc : SameChange) (cm : ContentMerge) (f : Nat) (ts : List Tree) (a : Tree)
    (ha : a.NamesSorted) (hmem : a ∈ ts)
    (h : ∀ n, trivialMerge (ts.map (·.lookup n)) sc = some (a.lookup n)) :
    mergeTreesF sc cm (f + 1) ts = [a] := by
  have hes : (allNames ts).map (fun n => (n, mergeEntry sc cm (mergeTreesF sc cm f) (ts.map (·.lookup n))))
      = (allNames ts).map (fun n => (n, Merged.resolved (a.lookup n))) := by
    apply List.map_congr_left; intro n _; rw [mergeEntry_of_trivial _ _ _ _ _ (h n)]
  simp only [mergeTreesF, hes, assemble]
  rw [if_pos (by simp [List.all_map, Merged.isConflict])]
  congr 1
  apply entries_injective
  simp only [buildTree, entries_ofEntries, List.filterMap_map, Function.comp_def, Merged.term]
  exact filterMap_lookupE a.entries ha (allNames ts) (pairwise_allNames ts)
    (fun k hk => (mem_allNames ts k).mpr ⟨a, hmem, hk⟩)

theorem simplify_side_base_left {α : Type} [DecidableEq α] (a b : α) : simplify [a, b, b] = [a] := by
  by_cases h : a = b
  · subst h
    simp [simplify, simplifiedMapping, mappingLoop, findRemove, swapIdx, applyMapping, List.range, List.range.loop]
  · have h' : ¬ b = a := fun e => h e.symm
    have e1 : findRemove [a, b, b] a [0, 1, 2] 0 = none := by simp [findRemove, h']
    have e2 : findRemove [a, b, b] b [0, 1, 2] 0 = some 1 := by simp [findRemove]
    simp [simplify, simplifiedMapping, mappingLoop, e1, e2, swapIdx, applyMapping, List.range, List.range.loop]

theorem simplify_side_base_right {α : Type} [DecidableEq α] (a b : α) : simplify [b, b, a] = [a] := by
  by_cases h : a = b
  · subst h
    simp [simplify, simplifiedMapping, mappingLoop, findRemove, swapIdx, applyMapping, List.range, List.range.loop]
  · have e1 : findRemove [b, b, a] b [0, 1, 2] 0 = some 1 := by simp [findRemove]
    have e2 : findRemove [b, b, a] a [2] 0 = none := by simp [findRemove]
    simp [simplify, simplifiedMapping, mappingLoop, e1, e2, swapIdx, applyMapping, List.range, List.range.loop]

/-- **C07, per-path law.**  For every odd number of input trees, every non-root path `p` with no
file/directory clash above it: `MergedTree::path_value` of the merged trees at `p` is the per-entry
merge of the inputs' values at `p`. -/
theorem path_value_merge (sc : SameChange) (cm : ContentMerge) (ts : List Tree) (p : List Nat)
    (hodd : ts.length % 2 = 1) (hp : p ≠ []) (hclash : NoClashAbove sc ts p) :
    pathValue sc (mergeTrees sc cm ts) p = mergeValue sc cm (ts.map (·.get p)) := by
  by_cases hlen : 1 < ts.length
  · rw [mergeTrees_eq _ _ _ hlen,
      mergeTreesF_fuel sc cm (maxHeight ts) (maxHeight ts + 1) ts (Nat.le_refl _) (by omega)]
    exact pathValue_mergeTreesF sc cm p _ ts hodd hlen (by omega) hp hclash
  · match ts, hodd, hlen with
    | [t], _, _ =>
      simp only [mergeTrees, List.map_cons, List.map_nil, mergeValue,
        mergeEntry_of_trivial _ _ _ _ _ (trivialMerge_single _ sc), Merged.toMVal]
      exact pathValue_single sc t p hp
    | [], h, _ => simp at h
    | _ :: _ :: _, _, h => simp at h

/-- a conflict the merger cannot resolve: not trivially, not all directories, not by file merge -/
def LeafConflict (sc : SameChange) (cm : ContentMerge) (vals : MVal) : Prop :=
  trivialMerge vals sc = none ∧ vals.all isTreeOrNone = false ∧ tryResolveFileValues sc cm vals = none

theorem mergeEntry_of_leafConflict {sc : SameChange} {cm : ContentMerge} (recur : List Tree → List Tree)
    {vals : MVal} (h : LeafConflict sc cm vals) : mergeEntry sc cm recur vals = .conflict vals := by
  obtain ⟨h1, h2, h3⟩ := h
  simp [mergeEntry, h1, h2, h3, markCompleted]

/-- **At the conflict itself** (file conflict or file/directory clash) the merged value is the list of
the inputs' entries at that path: nothing below it is merged and no term is dropped. -/
theorem clash_keeps_terms (sc : SameChange) (cm : ContentMerge) (ts : List Tree) (p : List Nat)
    (hodd : ts.length % 2 = 1) (hp : p ≠ []) (hclash : NoClashAbove sc ts p)
    (hleaf : LeafConflict sc cm (ts.map (·.get p))) :
    pathValue sc (mergeTrees sc cm ts) p = ts.map (·.get p) := by
  rw [path_value_merge sc cm ts p hodd hp hclash, mergeValue, mergeEntry_of_leafConflict _ hleaf]
  rfl

/-! ### identity laws -/

theorem mem_of_count_ne_zero {α : Type} [DecidableEq α] : ∀ (vs : List α) (v : α), count vs v ≠ 0 → v ∈ vs
  | [], v, h => by simp [count] at h
  | [a], v, h => by by_cases e : a = v <;> simp_all [count, ind]
  | a :: r :: rest, v, h => by
    by_cases e1 : a = v
    · simp [e1]
    · by_cases e2 : r = v
      · simp [e2]
      · simp only [count, ind, e1, e2, if_false] at h
        have := mem_of_count_ne_zero rest v (by omega); simp [this]

open JjModel.C02 in
theorem mem_of_trivialMerge {α : Type} [DecidableEq α] (vs : List α) (hodd : vs.length % 2 = 1) (sc : SameChange) (v : α)
    (h : trivialMerge vs sc = some v) : v ∈ vs := by
  rw [trivial_merge_spec _ hodd] at h
  rcases h with ⟨h, _⟩ | ⟨_, h, _⟩
  · exact mem_of_count_ne_zero vs v h
  · exact mem_of_count_ne_zero vs v (by omega)

/-- **Whenever the tree terms themselves cancel down to `a`, the merge is `a`** (every arity; this is
the cancellation rule of C02 lifted from values to whole trees). -/
theorem merge_of_trivial (sc : SameChange) (cm : ContentMerge) (ts : List Tree) (a : Tree)
    (hodd : ts.length % 2 = 1) (ha : a.NamesSorted) (h : trivialMerge ts sc = some a) :
    mergeTrees sc cm ts = [a] := by
  by_cases hlen : 1 < ts.length
  · rw [mergeTrees_eq _ _ _ hlen,
      mergeTreesF_fuel sc cm (maxHeight ts) (maxHeight ts + 1) ts (Nat.le_refl _) (by omega)]
    exact mergeTreesF_of_all_trivial sc cm _ ts a ha (mem_of_trivialMerge ts hodd sc a h)
      (fun n => trivialMerge_map (fun t => t.lookup n) ts hodd sc a h)
  · match ts, hodd, hlen with
    | [t], _, _ => simp [trivialMerge] at h; subst h; rfl
    | [], h, _ => simp at h
    | _ :: _ :: _, _, h => simp at h

/-- one side equals the base: the other side's tree -/
theorem merge_side_eq_base_left (sc : SameChange) (cm : ContentMerge) (a b : Tree) (ha : a.NamesSorted) :
    mergeTrees sc cm [a, b, b] = [a] :=
  merge_of_trivial sc cm _ a (by simp) ha (by by_cases h : a = b <;> cases sc <;> simp [trivialMerge, h])

theorem merge_side_eq_base_right (sc : SameChange) (cm : ContentMerge) (a b : Tree) (ha : a.NamesSorted) :
    mergeTrees sc cm [b, b, a] = [a] :=
  merge_of_trivial sc cm _ a (by simp) ha (by by_cases h : b = a <;> cases sc <;> simp [trivialMerge, h])

/-- both sides make the same change (setting `accept`) -/
theorem merge_same_change (cm : ContentMerge) (a b : Tree) (ha : a.NamesSorted) :
    mergeTrees .accept cm [a, b, a] = [a] :=
  merge_of_trivial .accept cm _ a (by simp) ha (by simp [trivialMerge])

/-- the same laws for `MergedTree::merge` (flatten, simplify, resolve, simplify) -/
theorem merged_tree_side_eq_base_left (sc : SameChange) (cm : ContentMerge) (a b : Tree) :
    mergedTreeMerge sc cm [[a], [b], [b]] = [a] := by
  have : mergeNoResolve [[a], [b], [b]] = [a] := by
    simp [mergeNoResolve, flatten, flattenFrom, negateTerm, swapPairs, simplify_side_base_left]
  simp [mergedTreeMerge, this, resolve, mergeTrees]

theorem merged_tree_side_eq_base_right (sc : SameChange) (cm : ContentMerge) (a b : Tree) :
    mergedTreeMerge sc cm [[b], [b], [a]] = [a] := by
  have : mergeNoResolve [[b], [b], [a]] = [a] := by
    simp [mergeNoResolve, flatten, flattenFrom, negateTerm, swapPairs, simplify_side_base_right]
  simp [mergedTreeMerge, this, resolve, mergeTrees]

theorem eq_nil_of_height_zero {t : Tree} (h : t.height = 0) : t = .nil := by
  cases t <;> simp [Tree.height] at h ⊢ <;> omega

theorem mergeEntry_conflict_cases {sc : SameChange} {cm : ContentMerge} {recur : List Tree → List Tree} {vals c : MVal}
    (h : mergeEntry sc cm recur vals = .conflict c) :
    trivialMerge vals sc = none ∧
      ((LeafConflict sc cm vals ∧ c = vals) ∨
       (vals.all isTreeOrNone = true ∧ c = (recur (vals.map treeOrEmpty)).map treeToVal ∧ trivialMerge c sc = none)) := by
  unfold mergeEntry at h
  split at h
  · cases h
  · next hv =>
    refine ⟨hv, ?_⟩
    split at h
    · next hall =>
      obtain ⟨rfl, hn⟩ := markCompleted_conflict h
      exact Or.inr ⟨hall, rfl, hn⟩
    · next hall =>
      split at h
      · obtain ⟨rfl, hn⟩ := markCompleted_conflict h
        simp [trivialMerge] at hn
      · next hres =>
        obtain ⟨rfl, hn⟩ := markCompleted_conflict h
        exact Or.inl ⟨⟨hv, by simpa using hall, hres⟩, rfl⟩

theorem length_ne_one_iff_exists_conflict (sc : SameChange) (cm : ContentMerge) (f : Nat) (ts : List Tree)
    (hlen : 1 < ts.length) :
    (mergeTreesF sc cm (f + 1) ts).length ≠ 1 ↔
      ∃ n ∈ allNames ts, ∃ c, mergeEntry sc cm (mergeTreesF sc cm f) (ts.map (·.lookup n)) = .conflict c := by
  simp only [mergeTreesF, assemble]
  constructor
  · intro h
    apply Classical.byContradiction
    intro hno
    apply h
    have hall : (((allNames ts).map fun n => (n, mergeEntry sc cm (mergeTreesF sc cm f) (ts.map (·.lookup n)))).all
        (fun e => !e.2.isConflict)) = true := by
      simp only [List.all_map, List.all_eq_true, Function.comp]
      intro n hn
      cases hE : mergeEntry sc cm (mergeTreesF sc cm f) (ts.map (·.lookup n)) with
      | resolved v => rfl
      | conflict c => exact absurd ⟨n, hn, c, hE⟩ hno
    simp [hall]
  · rintro ⟨n, hn, c, hE⟩
    have hall : ¬ (((allNames ts).map fun n => (n, mergeEntry sc cm (mergeTreesF sc cm f) (ts.map (·.lookup n)))).all
        (fun e => !e.2.isConflict)) = true := by
      simp only [List.all_map, List.all_eq_true, Function.comp]
      intro h
      have := h n hn
      simp [hE, Merged.isConflict] at this
    simp [hall]; omega

/-- a basename with a non-trivial merge occurs in some input -/
theorem mem_allNames_of_not_trivial {sc : SameChange} {ts : List Tree} (hodd : ts.length % 2 = 1) {n : Nat}
    (h : trivialMerge (ts.map (·.lookup n)) sc = none) : n ∈ allNames ts := by
  apply Classical.byContradiction
  intro hn
  have : ts.map (·.lookup n) = ts.map (fun _ => (none : Option Value)) :=
    List.map_congr_left (fun t ht => lookup_none_of_not_mem_allNames hn ht)
  rw [this, trivialMerge_const ts none hodd sc] at h
  cases h

theorem conflict_iff_F (sc : SameChange) (cm : ContentMerge) : ∀ (F : Nat) (ts : List Tree),
    ts.length % 2 = 1 → 1 < ts.length → maxHeight ts ≤ F →
    ((mergeTreesF sc cm F ts).length ≠ 1 ↔
      ∃ p, p ≠ [] ∧ NoClashAbove sc ts p ∧ LeafConflict sc cm (ts.map (·.get p))) := by
  intro F
  induction F with
  | zero =>
    intro ts hodd hlen hh
    constructor
    · intro h; exact absurd rfl h
    · rintro ⟨p, hp, _, hleaf, _⟩
      exfalso
      have : ts.map (·.get p) = ts.map (fun _ => (none : Option Value)) := by
        apply List.map_congr_left
        intro t ht
        have := le_maxHeight ht
        rw [eq_nil_of_height_zero (t := t) (by omega)]
        cases p with
        | nil => exact absurd rfl hp
        | cons n q => simp [get_cons]
      rw [this, trivialMerge_const ts none hodd sc] at hleaf
      cases hleaf
  | succ f ih =>
    intro ts hodd hlen hh
    rw [length_ne_one_iff_exists_conflict sc cm f ts hlen]
    have hsubH : ∀ n, maxHeight ((ts.map (·.lookup n)).map treeOrEmpty) ≤ f := by
      intro n; have := maxHeight_subtrees ts n; omega
    constructor
    · rintro ⟨n, _, c, hE⟩
      obtain ⟨htm, ⟨hleaf, _⟩ | ⟨hall, rfl, hnt⟩⟩ := mergeEntry_conflict_cases hE
      · refine ⟨[n], by simp, ?_, hleaf⟩
        intro q r hqr hq hr
        cases q with
        | nil => exact absurd rfl hq
        | cons a q => cases q <;> cases r <;> simp at hqr hr
      · -- the conflict is inside the directory `n`
        have hne : (mergeTreesF sc cm f ((ts.map (·.lookup n)).map treeOrEmpty)).length ≠ 1 := by
          intro h1
          generalize mergeTreesF sc cm f ((ts.map (·.lookup n)).map treeOrEmpty) = sub at h1 hnt
          match sub, h1 with
          | [t], _ => simp [trivialMerge] at hnt
        obtain ⟨p', hp', hclash', hleaf'⟩ :=
          (ih _ (by simpa using hodd) (by simpa using hlen) (hsubH n)).mp hne
        cases p' with
        | nil => exact absurd rfl hp'
        | cons m q =>
          refine ⟨n :: m :: q, by simp, ?_, ?_⟩
          · intro q' r' hqr hq' hr'
            cases q' with
            | nil => exact absurd rfl hq'
            | cons a q'' =>
              simp only [List.cons_append, List.cons.injEq] at hqr
              obtain ⟨rfl, hqr⟩ := hqr
              cases q'' with
              | nil => right; exact hall
              | cons b q3 =>
                have := hclash' (b :: q3) r' hqr (by simp) hr'
                rw [map_get_subtrees _ hall] at this
                rw [map_get_cons]; exact this
          · rw [map_get_cons, ← map_get_subtrees _ hall]; exact hleaf'
    · rintro ⟨p, hp, hclash, hleaf⟩
      cases p with
      | nil => exact absurd rfl hp
      | cons n p' =>
        cases p' with
        | nil =>
          have hleaf' : LeafConflict sc cm (ts.map (·.lookup n)) := hleaf
          exact ⟨n, mem_allNames_of_not_trivial hodd hleaf'.1, _, mergeEntry_of_leafConflict _ hleaf'⟩
        | cons m q =>
          rw [map_get_cons] at hleaf
          cases htm : trivialMerge (ts.map (·.lookup n)) sc with
          | some v =>
            have := trivialMerge_map (fun v => getFrom v (m :: q)) _ (by simpa using hodd) sc v htm
            rw [hleaf.1] at this; cases this
          | none =>
            have hall : (ts.map (·.lookup n)).all isTreeOrNone = true := by
              rcases hclash [n] (m :: q) rfl (by simp) (by simp) with h | h
              · exact absurd htm h
              · exact h
            have hne : (mergeTreesF sc cm f ((ts.map (·.lookup n)).map treeOrEmpty)).length ≠ 1 := by
              apply (ih _ (by simpa using hodd) (by simpa using hlen) (hsubH n)).mpr
              exact ⟨m :: q, by simp, noClashAbove_subtrees hclash hall, by rw [map_get_subtrees _ hall]; exact hleaf⟩
            have hnt : trivialMerge ((mergeTreesF sc cm f ((ts.map (·.lookup n)).map treeOrEmpty)).map treeToVal) sc = none := by
              cases f with
              | zero => exact absurd rfl hne
              | succ f' =>
                exact mergeTreesF_conflict_not_trivial _ _ _ _ (by simpa using hodd) (by simpa using hlen) hne
            refine ⟨n, mem_allNames_of_not_trivial hodd htm,
              (mergeTreesF sc cm f ((ts.map (·.lookup n)).map treeOrEmpty)).map treeToVal, ?_⟩
            simp only [mergeEntry, htm, hall, if_true, markCompleted, hnt]

/-- **C07, conflict-freeness.**  The merge is a single tree exactly when no path is a conflict the
merger cannot resolve (paths below a file/directory clash do not count: the clash itself does). -/
theorem conflict_free_iff (sc : SameChange) (cm : ContentMerge) (ts : List Tree) (hodd : ts.length % 2 = 1) :
    (mergeTrees sc cm ts).length = 1 ↔
      ¬ ∃ p, p ≠ [] ∧ NoClashAbove sc ts p ∧ LeafConflict sc cm (ts.map (·.get p)) := by
  by_cases hlen : 1 < ts.length
  · rw [mergeTrees_eq _ _ _ hlen, ← conflict_iff_F sc cm (maxHeight ts) ts hodd hlen (Nat.le_refl _)]
    simp
  · match ts, hodd, hlen with
    | [t], _, _ =>
      simp only [mergeTrees, List.length_singleton, true_iff]
      rintro ⟨p, _, _, h, _⟩
      simp [trivialMerge] at h
    | [], h, _ => simp at h
    | _ :: _ :: _, _, h => simp at h

/-- `MergedTree::merge` (flatten → simplify → merge → simplify), **partial**: stated for merges whose
result is conflict-free.  Gap: when conflicts remain, `resolve` simplifies the result trees once more;
the per-path values of the simplified trees have the same signed counts as those of
`mergeTrees`, but the term *order* may differ, so the statement would have to be "up to
`count`-equivalence" (C01 vocabulary); not proved here. -/
theorem merged_tree_path_value_partial (sc : SameChange) (cm : ContentMerge) (inputs : List (List Tree)) (t : Tree)
    (p : List Nat) (hres : mergeTrees sc cm (mergeNoResolve inputs) = [t])
    (hodd : (mergeNoResolve inputs).length % 2 = 1) (hp : p ≠ [])
    (hclash : NoClashAbove sc (mergeNoResolve inputs) p) :
    pathValue sc (mergedTreeMerge sc cm inputs) p
      = mergeValue sc cm ((mergeNoResolve inputs).map (·.get p)) := by
  have : mergedTreeMerge sc cm inputs = mergeTrees sc cm (mergeNoResolve inputs) := by
    simp [mergedTreeMerge, resolve, hres]
  rw [this]
  exact path_value_merge sc cm _ p hodd hp hclash

/-- **Finding.** The `debug_assert_eq!(re_merged, simplified)` of `MergedTree::resolve` does not
hold: for the flattened terms of
`merge [(2:f0), [(1:(0:f0;1:f1)), (1:(0:f0)), (1:f2;2:f0)], (1:f2)]` the basename `1` is kept as a
file/directory clash (its terms are two directories, an absent term and a cancelling pair of
files); simplifying the five result trees cancels the pair, and merging once more recurses into
the directories and resolves everything (no content merge is involved). -/
theorem resolve_debug_assert_can_fire :
    resolveDebugAssert .accept (slotMerge .accept)
      [ .file 2 0 false .nil,
        .file 1 2 false (.file 2 0 false .nil),
        .dir 1 (.file 0 0 false .nil) .nil,
        .dir 1 (.file 0 0 false (.file 1 1 false .nil)) .nil,
        .file 1 2 false .nil ] = false := by
  decide

/-! ### non-vacuity: concrete instances of the hypotheses -/

/-- three sides editing `1/0`: a directory merge followed by a content merge (`f1,f0,f3 ↦ f4`) -/
def exTrees : List Tree :=
  [ .file 0 1 false (.dir 1 (.file 0 1 false .nil) .nil),
    .file 0 0 false (.dir 1 (.file 0 0 false .nil) .nil),
    .file 0 0 false (.dir 1 (.file 0 3 false .nil) .nil) ]

example : NoClashAbove .accept exTrees [1, 0] := by
  intro q r h hq hr
  match q, r, h, hq, hr with
  | [a], [b], h, _, _ =>
    simp only [List.cons_append, List.nil_append, List.cons.injEq, and_true] at h
    obtain ⟨rfl, rfl⟩ := h
    right; decide
  | [], _, _, hq, _ => exact absurd rfl hq
  | _, [], _, _, hr => exact absurd rfl hr
  | [_], _ :: _ :: _, h, _, _ => simp at h
  | _ :: _ :: _, _ :: _, h, _, _ => simp at h

example : pathValue .accept (mergeTrees .accept (slotMerge .accept) exTrees) [1, 0] = [some (.file 4 false)] := by decide
example : mergeValue .accept (slotMerge .accept) (exTrees.map (·.get [1, 0])) = [some (.file 4 false)] := by decide

/-- a file/directory clash at `0` -/
def exClash : List Tree :=
  [ .file 0 1 false .nil, .file 0 0 false .nil, .dir 0 (.file 0 0 false .nil) .nil ]

example : LeafConflict .keep (slotMerge .keep) (exClash.map (·.get [0])) := by
  unfold LeafConflict; decide
example : (mergeTrees .keep (slotMerge .keep) exClash).length = 3 := by decide
example : pathValue .keep (mergeTrees .keep (slotMerge .keep) exClash) [0] = exClash.map (·.get [0]) := by decide

example : (Tree.file 0 1 false (.dir 1 (.file 0 1 false .nil) .nil)).NamesSorted := namesSorted_of_sorted (by decide)
example : trivialMerge [exTrees[0]!, exTrees[1]!, exTrees[0]!, exTrees[1]!, exTrees[0]!] .accept = some exTrees[0]! := by decide
example : mergedTreeMerge .accept (slotMerge .accept) [[exTrees[0]!], [exTrees[1]!], [exTrees[2]!]]
    = [.file 0 1 false (.dir 1 (.file 0 4 false .nil) .nil)] := by decide

end JjModel.C07
