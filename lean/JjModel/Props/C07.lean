import JjModel.Lemmas.TreeMerge
/-!
  C07 — Tree merges are the path-wise merge of their inputs.

  All statements are about the definitions of `Model/Tree.lean` that the driver runs
  (`mergeTrees`, `mergedTreeMerge`, `pathValue`), for every arity, every tree, both same-change
  settings and **every** content-merge function `cm`.

  * `path_value_merge` — at every path with `NoClashAbove`, the merged trees' `path_value` is the
    per-entry merge (`mergeValue`: trivial resolution, else recursive merge for directories, else file
    merge) of the inputs' values at that path.  No sortedness hypothesis is needed.
  * `clash_keeps_terms` — at a conflict that cannot be resolved the merged value is exactly the list of
    the inputs' entries (nothing merged below, nothing dropped).
  * `merge_of_trivial`, `merge_side_eq_base_left/right`, `merge_same_change` — identity laws.
  * `conflict_free_iff` — the result is a single tree iff no path is a leaf conflict.
  * `resolve_debug_assert_can_fire` — the finding: `MergedTree::resolve` is not idempotent.
-/
namespace JjModel.C07
open JjModel.Merge JjModel.Trees
set_option linter.unusedSimpArgs false

/-- `NoClashAbove`: no proper (non-empty) prefix `q` of `p` is a file/directory clash, i.e. an
unresolved merge some of whose terms are trees and some are not.  `MergedTree::path_value` reports
*absent* for every path below such a prefix. -/
def NoClashAbove (sc : SameChange) (ts : List Tree) (p : List Nat) : Prop :=
  ∀ q r, p = q ++ r → q ≠ [] → r ≠ [] →
    trivialMerge (ts.map (·.get q)) sc ≠ none ∨ (ts.map (·.get q)).all isTreeOrNone = true

theorem map_get_cons (ts : List Tree) (n : Nat) (p : List Nat) :
    ts.map (·.get (n :: p)) = (ts.map (·.lookup n)).map (fun v => getFrom v p) := by
  simp [List.map_map, Function.comp_def, get_cons]

theorem map_get_subtrees (vals : MVal) (hall : vals.all isTreeOrNone = true) (m : Nat) (q : List Nat) :
    (vals.map treeOrEmpty).map (·.get (m :: q)) = vals.map (fun v => getFrom v (m :: q)) := by
  rw [List.map_map]
  apply List.map_congr_left
  intro v hv
  exact get_treeOrEmpty v (List.all_eq_true.mp hall v hv) m q

theorem noClashAbove_subtrees {sc : SameChange} {ts : List Tree} {n m : Nat} {q : List Nat}
    (h : NoClashAbove sc ts (n :: m :: q)) (hall : (ts.map (·.lookup n)).all isTreeOrNone = true) :
    NoClashAbove sc ((ts.map (·.lookup n)).map treeOrEmpty) (m :: q) := by
  intro q' r' hqr hq' hr'
  cases q' with
  | nil => exact absurd rfl hq'
  | cons a q'' =>
    have := h (n :: a :: q'') r' (by simp [hqr]) (by simp) hr'
    rw [map_get_cons, ← map_get_subtrees _ hall] at this
    exact this

/-- The per-path law for any sufficient fuel. -/
theorem pathValue_mergeTreesF (sc : SameChange) (cm : ContentMerge) (p : List Nat) :
    ∀ (f : Nat) (ts : List Tree), ts.length % 2 = 1 → 1 < ts.length → maxHeight ts ≤ f + 1 → p ≠ [] →
      NoClashAbove sc ts p →
      pathValue sc (mergeTreesF sc cm (f + 1) ts) p = mergeValue sc cm (ts.map (·.get p)) := by
  induction p with
  | nil => intro _ _ _ _ _ hp; exact absurd rfl hp
  | cons n p ih =>
    intro f ts hodd hlen hfuel _ hclash
    -- the recursive merge of the subtrees below `n`, with the fuel of the model and with its own fuel
    have hsub : mergeTreesF sc cm f ((ts.map (·.lookup n)).map treeOrEmpty)
        = mergeTrees sc cm ((ts.map (·.lookup n)).map treeOrEmpty) := by
      rw [mergeTrees_eq _ _ _ (by simpa using hlen)]
      have := maxHeight_subtrees ts n
      exact mergeTreesF_fuel _ _ _ _ _ (by omega) (Nat.le_refl _)
    have hentry : mergeEntry sc cm (mergeTreesF sc cm f) (ts.map (·.lookup n))
        = mergeEntry sc cm (mergeTrees sc cm) (ts.map (·.lookup n)) := mergeEntry_congr _ _ _ _ _ hsub
    cases p with
    | nil =>
      show valueAt sc _ n = _
      rw [valueAt_mergeTreesF sc cm f ts hodd hlen n, hentry]
      rfl
    | cons m q =>
      have hv := valueAt_mergeTreesF sc cm f ts hodd hlen n
      rw [map_get_cons]
      cases htm : trivialMerge (ts.map (·.lookup n)) sc with
      | some v =>
        -- the directory entry (or whatever is there) resolves trivially: so does everything below it
        have hproj := trivialMerge_map (fun v => getFrom v (m :: q)) _ (by simpa using hodd) sc v htm
        rw [mergeEntry_of_trivial' _ _ _ _ _ htm] at hv
        simp only [mergeValue, mergeEntry_of_trivial' _ _ _ _ _ hproj, Merged.toMVal]
        simp only [pathValue, subTree, hv, Merged.toMVal]
        match v with
        | some (.tree t) => exact pathValue_single sc t (m :: q) (by simp)
        | none => simp
        | some (.file _ _) => simp only []; rw [getFrom_nontree _ (by simp)]
        | some (.symlink _) => simp only []; rw [getFrom_nontree _ (by simp)]
      | none =>
        have hall : (ts.map (·.lookup n)).all isTreeOrNone = true := by
          rcases hclash [n] (m :: q) rfl (by simp) (by simp) with h | h
          · exact absurd htm h
          · exact h
        -- below `n` the merged trees are the merge of the subtrees
        have hdown : pathValue sc (mergeTreesF sc cm (f + 1) ts) (n :: m :: q)
            = pathValue sc (mergeTreesF sc cm f ((ts.map (·.lookup n)).map treeOrEmpty)) (m :: q) := by
          have hE : mergeEntry sc cm (mergeTreesF sc cm f) (ts.map (·.lookup n))
              = markCompleted sc ((mergeTreesF sc cm f ((ts.map (·.lookup n)).map treeOrEmpty)).map treeToVal) := by
            simp [mergeEntry, htm, hall]
          rw [hE] at hv
          generalize hS : mergeTreesF sc cm f ((ts.map (·.lookup n)).map treeOrEmpty) = sub at hv
          rcases length_mergeTreesF sc cm f ((ts.map (·.lookup n)).map treeOrEmpty) with h1 | h1
          · rw [hS] at h1
            match sub, h1 with
            | [s], _ =>
              simp only [List.map_cons, List.map_nil, markCompleted, trivialMerge_single, Merged.toMVal] at hv
              simp only [pathValue, subTree, hv]
              by_cases hs : s = .nil
              · subst hs; simp [treeToVal, pathValue_single, get_cons]
              · simp [treeToVal, hs]
          · rw [hS] at h1
            have hne : sub.length ≠ 1 := by simp at h1; omega
            have hnt : trivialMerge (sub.map treeToVal) sc = none := by
              have hfuel' : mergeTreesF sc cm f ((ts.map (·.lookup n)).map treeOrEmpty)
                  = mergeTreesF sc cm (f + 1) ((ts.map (·.lookup n)).map treeOrEmpty) := by
                have := maxHeight_subtrees ts n
                exact mergeTreesF_fuel _ _ _ _ _ (by omega) (by omega)
              rw [← hS, hfuel']
              apply mergeTreesF_conflict_not_trivial _ _ _ _ (by simpa using hodd) (by simpa using hlen)
              rw [← hfuel', hS]; exact hne
            simp only [markCompleted, hnt, Merged.toMVal] at hv
            simp only [pathValue, subTree, hv]
            have hallS : (sub.map treeToVal).all isTreeOrNone = true := by
              simp [List.all_map, Function.comp_def, isTreeOrNone_treeToVal]
            match hsm : sub.map treeToVal, hallS with
            | [], _ => simp at hsm; subst hsm; simp at h1; omega
            | [x], _ => have := congrArg List.length hsm; simp at this; omega
            | x :: y :: rest, hallS =>
              simp only [hallS, if_true]
              rw [← hsm]
              simp [List.map_map, Function.comp_def, treeOrEmpty_treeToVal]
        rw [hdown]
        have hfuel' : mergeTreesF sc cm f ((ts.map (·.lookup n)).map treeOrEmpty)
            = mergeTreesF sc cm (f + 1) ((ts.map (·.lookup n)).map treeOrEmpty) := by
          have := maxHeight_subtrees ts n
          exact mergeTreesF_fuel _ _ _ _ _ (by omega) (by omega)
        rw [hfuel', ih f _ (by simpa using hodd) (by simpa using hlen)
          (by have := maxHeight_subtrees ts n; omega) (by simp) (noClashAbove_subtrees hclash hall),
          map_get_subtrees _ hall]

/-- If every basename trivially resolves to the entry of one input `a`, the merge is `a`. -/
theorem mergeTreesF_of_all_trivial (sc : SameChange) (cm : ContentMerge) (f : Nat) (ts : List Tree) (a : Tree)
    (ha : a.NamesSorted) (hmem : a ∈ ts)
    (h : ∀ n, trivialMerge (ts.map (·.lookup n)) sc = some (a.lookup n)) :
    mergeTreesF sc cm (f + 1) ts = [a] := by
  have hes : (allNames ts).map (fun n => (n, mergeEntry sc cm (mergeTreesF sc cm f) (ts.map (·.lookup n))))
      = (allNames ts).map (fun n => (n, Merged.resolved (a.lookup n))) := by
    apply List.map_congr_left; intro n _; rw [mergeEntry_of_trivial' _ _ _ _ _ (h n)]
  simp only [mergeTreesF, hes, assemble]
  rw [if_pos (by simp [List.all_map, Merged.isConflict])]
  congr 1
  apply entries_injective
  simp only [buildTree, entries_ofEntries, List.filterMap_map, Function.comp_def, Merged.term]
  exact filterMap_lookupE a.entries ha (allNames ts) (pairwise_allNames ts)
    (fun k hk => (mem_allNames ts k).mpr ⟨a, hmem, hk⟩)

theorem simplify_side_base_left {α : Type} [DecidableEq α] (a b : α) : simplify [a, b, b] = [a] := by
  by_cases h : a = b
  · subst h
    simp [simplify, simplifiedMapping, mappingLoop, findRemove, swapIdx, applyMapping, List.range, List.range.loop]
  · have h' : ¬ b = a := fun e => h e.symm
    have e1 : findRemove [a, b, b] a [0, 1, 2] 0 = none := by simp [findRemove, h']
    have e2 : findRemove [a, b, b] b [0, 1, 2] 0 = some 1 := by simp [findRemove]
    simp [simplify, simplifiedMapping, mappingLoop, e1, e2, swapIdx, applyMapping, List.range, List.range.loop]

theorem simplify_side_base_right {α : Type} [DecidableEq α] (a b : α) : simplify [b, b, a] = [a] := by
  by_cases h : a = b
  · subst h
    simp [simplify, simplifiedMapping, mappingLoop, findRemove, swapIdx, applyMapping, List.range, List.range.loop]
  · have e1 : findRemove [b, b, a] b [0, 1, 2] 0 = some 1 := by simp [findRemove]
    have e2 : findRemove [b, b, a] a [2] 0 = none := by simp [findRemove]
    simp [simplify, simplifiedMapping, mappingLoop, e1, e2, swapIdx, applyMapping, List.range, List.range.loop]

end JjModel.C07
