import JjModel.Lemmas.MergeCounts
/-!
  C02 — Automatic conflict resolution is exactly the cancellation rule.

  Property theorems only.  `count vs v` is the number of times `v` appears as a side minus the
  number of times it appears as a base.  `Resolves f sc v` is the cancellation rule written from
  the property text alone (it mentions nothing but the signed count function).
-/
namespace JjModel.C02
open JjModel.Merge
set_option linter.unusedSectionVars false
variable {α : Type} [DecidableEq α]

/-- The cancellation rule: after cancelling equal side/base pairs, the only value left is `v`;
or (same-change rule enabled) the sides left all equal `v` and the bases left all equal one other
value `b`. -/
def Resolves (f : α → Int) (sc : SameChange) (v : α) : Prop :=
  (f v ≠ 0 ∧ ∀ w, f w ≠ 0 → w = v) ∨
  (sc = .accept ∧ 0 < f v ∧ ∃ b, b ≠ v ∧ f b ≠ 0 ∧ ∀ w, f w ≠ 0 → w = v ∨ w = b)

/-- the decision made on the list of non-zero entries, in *whatever order* the map yields them -/
def pick (l : List (α × Int)) (sc : SameChange) : Option α :=
  match l with
  | [(v, _)] => some v
  | [(v1, c1), (v2, _)] => if sc = .accept then (if c1 > 0 then some v1 else some v2) else none
  | _ => none

/-- `l` lists exactly the non-zero entries of `f`, each once (any order). -/
structure Repr (l : List (α × Int)) (f : α → Int) : Prop where
  nodup : (l.map Prod.fst).Nodup
  mem : ∀ v c, (v, c) ∈ l ↔ (c = f v ∧ f v ≠ 0)
  sum : (l.map Prod.snd).sum = 1

theorem pick_spec (l : List (α × Int)) (f : α → Int) (h : Repr l f) (sc : SameChange) (v : α) :
    pick l sc = some v ↔ Resolves f sc v := by
  obtain ⟨hnd, hmem, hsum⟩ := h
  match l, hnd, hmem, hsum with
  | [], _, hmem, hsum => simp at hsum
  | [(a, c)], _, hmem, hsum =>
    have hc : c = f a ∧ f a ≠ 0 := (hmem a c).mp (by simp)
    have hall : ∀ w, f w ≠ 0 → w = a := fun w hw => by
      have := (hmem w (f w)).mpr ⟨rfl, hw⟩; simp at this; exact this.1
    simp only [pick, Option.some.injEq, Resolves]
    constructor
    · rintro rfl; exact Or.inl ⟨hc.2, hall⟩
    · rintro (⟨h1, _⟩ | ⟨_, _, b, hb, hfb, _⟩)
      · exact (hall v h1).symm
      · have := hall b hfb; have := hall v (by omega); grind
  | [(a, c), (b, d)], hnd, hmem, hsum =>
    have hab : a ≠ b := by simpa using hnd
    have hc : c = f a ∧ f a ≠ 0 := (hmem a c).mp (by simp)
    have hd : d = f b ∧ f b ≠ 0 := (hmem b d).mp (by simp)
    have hall : ∀ w, f w ≠ 0 → w = a ∨ w = b := fun w hw => by
      have := (hmem w (f w)).mpr ⟨rfl, hw⟩; simp at this; grind
    have hs : f a + f b = 1 := by simp at hsum; omega
    simp only [pick, Resolves]
    constructor
    · intro hp
      by_cases hsc : sc = .accept
      · simp only [hsc, if_true] at hp
        by_cases hpos : c > 0
        · simp only [hpos, if_true, Option.some.injEq] at hp; subst hp
          exact Or.inr ⟨hsc, by omega, b, Ne.symm hab, hd.2, hall⟩
        · simp only [hpos, if_false, Option.some.injEq] at hp; subst hp
          exact Or.inr ⟨hsc, by omega, a, hab, hc.2, fun w hw => (hall w hw).symm⟩
      · simp [hsc] at hp
    · rintro (⟨_, h2⟩ | ⟨hsc, hpos, e, hev, hfe, hall2⟩)
      · have := h2 a hc.2; have := h2 b hd.2; grind
      · simp only [hsc, if_true]
        rcases hall v (by omega) with rfl | rfl
        · have : c > 0 := by omega
          simp [this]
        · have : ¬ c > 0 := by omega
          simp [this]
  | (a, c) :: (b, d) :: (e, g) :: rest, hnd, hmem, _ =>
    have ha : f a ≠ 0 := ((hmem a c).mp (by simp)).2
    have hb : f b ≠ 0 := ((hmem b d).mp (by simp)).2
    have he : f e ≠ 0 := ((hmem e g).mp (by simp)).2
    simp only [List.map_cons, List.nodup_cons, List.mem_cons, not_or] at hnd
    simp only [pick, Resolves]
    constructor
    · intro hp; simp at hp
    · rintro (⟨_, h2⟩ | ⟨_, _, x, _, _, h3⟩)
      · have := h2 a ha; have := h2 b hb; grind
      · have := h3 a ha; have := h3 b hb; have := h3 e he; grind

theorem perm_sum (l₁ l₂ : List Int) (h : l₁.Perm l₂) : l₁.sum = l₂.sum := by
  induction h with
  | nil => rfl
  | cons x _ ih => simp [ih]
  | swap x y l => simp; omega
  | trans _ _ ih1 ih2 => omega

/-- the non-zero entries of the counting map represent `count vs` -/
theorem repr_counts (vs : List α) (hodd : vs.length % 2 = 1) :
    Repr ((counts vs).filter (fun e => e.2 != 0)) (count vs) := by
  refine ⟨?_, ?_, ?_⟩
  · exact (List.Sublist.map _ List.filter_sublist).nodup (nodup_counts vs)
  · intro v c
    rw [List.mem_filter, mem_iff_look _ (nodup_counts vs), look_counts]
    constructor
    · rintro ⟨⟨_, h2⟩, h3⟩; subst h2; simpa using h3
    · rintro ⟨rfl, h2⟩
      refine ⟨⟨?_, rfl⟩, by simpa using h2⟩
      by_cases hn : v ∈ (counts vs).map Prod.fst
      · exact hn
      · exact absurd (by rw [← look_counts]; exact look_eq_zero_of_not_mem _ _ hn) h2
  · have hfilter : ∀ l : List (α × Int), ((l.filter (fun e => e.2 != 0)).map Prod.snd).sum = (l.map Prod.snd).sum := by
      intro l; induction l with
      | nil => rfl
      | cons e l ih => by_cases h : e.2 = 0 <;> simp [h, ih]
    rw [hfilter]
    have hsum : ∀ (xs : List α) (s : Int) (acc : List (α × Int)),
        ((countsFrom xs s acc).map Prod.snd).sum = (acc.map Prod.snd).sum + (if xs.length % 2 = 1 then s else 0) := by
      intro xs s acc
      fun_induction countsFrom xs s acc with
      | case1 => simp
      | case2 x xs s acc ih => rw [ih, sum_bump]; simp only [List.length_cons]; split <;> split <;> omega
    simp [counts, hsum, hodd]

/-- **C02, main statement.** For every odd arity, every value type, both settings: the general
(counting) path of `trivial_merge` resolves to `v` exactly when the cancellation rule says so. -/
theorem trivial_merge_general_spec (vs : List α) (hodd : vs.length % 2 = 1) (sc : SameChange) (v : α) :
    trivialMergeGeneral vs sc = some v ↔ Resolves (count vs) sc v := by
  have : trivialMergeGeneral vs sc = pick ((counts vs).filter (fun e => e.2 != 0)) sc := by
    unfold trivialMergeGeneral pick; split <;> simp_all
  rw [this]; exact pick_spec _ _ (repr_counts vs hodd) sc v

/-- **HashMap order cannot matter**: any list holding the same non-zero entries in any order
gives the same decision (the `counts.into_iter()` order of the Rust `HashMap` is arbitrary). -/
theorem entry_order_irrelevant (vs : List α) (hodd : vs.length % 2 = 1) (sc : SameChange)
    (l : List (α × Int)) (hl : l.Perm ((counts vs).filter (fun e => e.2 != 0))) :
    pick l sc = trivialMergeGeneral vs sc := by
  have hr := repr_counts vs hodd
  have hl' : Repr l (count vs) :=
    ⟨(hl.map _).nodup_iff.mpr hr.nodup, fun v c => by rw [hl.mem_iff]; exact hr.mem v c,
     by rw [perm_sum _ _ (hl.map _)]; exact hr.sum⟩
  apply Option.ext; intro v
  rw [pick_spec l _ hl' sc v, trivial_merge_general_spec vs hodd sc v]

/-- The 1-term fast path agrees with the counting path. -/
theorem fast_path_one (a : α) (sc : SameChange) : trivialMerge [a] sc = trivialMergeGeneral [a] sc := by
  simp [trivialMerge, trivialMergeGeneral, counts, countsFrom, bump]

/-- The 3-term `if` ladder agrees with the counting path on **every** 3-term input under both
settings (the unit-test table samples this claim). -/
theorem fast_path_three (a0 r a1 : α) (sc : SameChange) :
    trivialMerge [a0, r, a1] sc = trivialMergeGeneral [a0, r, a1] sc := by
  by_cases h1 : a0 = r <;> by_cases h2 : a1 = r <;> by_cases h3 : a0 = a1 <;> cases sc <;>
    simp_all [trivialMerge, trivialMergeGeneral, counts, countsFrom, bump] <;> grind

theorem trivialMerge_eq_general (vs : List α) (sc : SameChange) :
    trivialMerge vs sc = trivialMergeGeneral vs sc := by
  match vs with
  | [a] => exact fast_path_one a sc
  | [a0, r, a1] => exact fast_path_three a0 r a1 sc
  | [] => rfl
  | [_, _] => rfl
  | _ :: _ :: _ :: _ :: _ => rfl

/-- **C02 for the function as shipped** (fast paths included). -/
theorem trivial_merge_spec (vs : List α) (hodd : vs.length % 2 = 1) (sc : SameChange) (v : α) :
    trivialMerge vs sc = some v ↔ Resolves (count vs) sc v := by
  rw [trivialMerge_eq_general]; exact trivial_merge_general_spec vs hodd sc v

/-- "Any other conflict stays unresolved". -/
theorem unresolved_otherwise (vs : List α) (hodd : vs.length % 2 = 1) (sc : SameChange) :
    trivialMerge vs sc = none ↔ ∀ v, ¬ Resolves (count vs) sc v := by
  rw [Option.eq_none_iff_forall_ne_some]
  exact forall_congr' fun v => not_congr (trivial_merge_spec vs hodd sc v)

/-- When it resolves under `keep`, the value has signed count exactly one and everything else
has cancelled ("cancel down to a single remaining side"); the `assert_eq!(count, 1)` cannot fire. -/
theorem keep_resolves_single (vs : List α) (hodd : vs.length % 2 = 1) (v : α)
    (h : trivialMerge vs .keep = some v) : count vs v = 1 ∧ ∀ w, w ≠ v → count vs w = 0 := by
  have hs := (trivial_merge_spec vs hodd .keep v).mp h
  have hr := repr_counts vs hodd
  rcases hs with ⟨h1, h2⟩ | ⟨h, _⟩
  · refine ⟨?_, fun w hw => by by_cases hc : count vs w = 0; exact hc; exact absurd (h2 w hc) hw⟩
    -- the entry list is exactly [(v, count v)] and sums to 1
    have hall : ∀ e ∈ (counts vs).filter (fun e => e.2 != 0), e = (v, count vs v) := by
      rintro ⟨w, c⟩ he
      have := (hr.mem w c).mp he
      have hw := h2 w this.2; subst hw; rw [this.1]
    have hin : (v, count vs v) ∈ (counts vs).filter (fun e => e.2 != 0) := (hr.mem _ _).mpr ⟨rfl, h1⟩
    have hnd := hr.nodup
    have hsum := hr.sum
    generalize (counts vs).filter (fun e => e.2 != 0) = L at hall hin hnd hsum
    match L, hall, hin, hnd, hsum with
    | [], _, hin, _, _ => simp at hin
    | [e], hall, _, _, hsum => have := hall e (by simp); subst this; simpa using hsum
    | e1 :: e2 :: rest, hall, _, hnd, _ =>
      have := hall e1 (by simp); have := hall e2 (by simp); subst_vars; simp at hnd
  · cases h

/-- Resolution does not depend on term order: permuting sides among sides and bases among bases
leaves the count function, hence the result, unchanged. -/
theorem perm_invariant (vs ws : List α) (hv : vs.length % 2 = 1) (hw : ws.length % 2 = 1)
    (h : ∀ v, count vs v = count ws v) (sc : SameChange) : trivialMerge vs sc = trivialMerge ws sc := by
  apply Option.ext; intro v
  rw [trivial_merge_spec vs hv, trivial_merge_spec ws hw]
  have : count vs = count ws := funext h
  rw [this]

/-! ### non-vacuity: concrete merges meeting the hypotheses -/
example : trivialMerge [1, 1, 2, 2, 3] .keep = some 3 := by decide
example : trivialMerge [1, 2, 1, 2, 1] .accept = some 1 ∧ trivialMerge [1, 2, 1, 2, 1] .keep = none := by decide
example : Resolves (count [1, 2, 1]) .accept 1 := by
  refine Or.inr ⟨rfl, by decide, 2, by decide, by decide, fun w hw => ?_⟩
  by_cases h1 : 1 = w <;> by_cases h2 : 2 = w <;> simp_all [count, ind]

end JjModel.C02
