import JjModel.Lemmas.Cli
/-!
  C40 — Working-copy changes are never lost by commands.

  Theorems about the command protocol `Model/Cli.lean` (the definitions `Drv/C40.lean` runs).
  They hold for **every** state (no reachability assumption), every command input (the effect of
  the transaction on the view is an arbitrary input) and hence for every sequence of commands and
  file edits in any number of workspaces:

  * `snapshot_before_mutation` — whenever a command writes files of a workspace, an operation that
    records exactly the files that were on that workspace's disk when the command started is
    already in the operation log (old, or published earlier in the same command);
  * `no_write_without_wc` — with `--at-op` / `--ignore-working-copy` no file is touched;
  * `refused_touches_nothing` — a command refused as stale (or failing to load) touches no file;
  * `disk_changes_only_by_write` — a disk changes only through a write event of a command run in that
    very workspace (other workspaces are never touched);
  * `log_append_only`, `recorded_is_recoverable` — recorded states stay in the log;
  * `script_never_loses_state` — the invariant over whole scripts of commands and edits.
-/
namespace JjModel.C40
open JjModel.Cli

/-- What the property demands of one command run: every file write is preceded by the
publication (or prior existence) of an operation recording the disk state at command start. -/
def WritesRecorded (s : State) (c : CmdIn) (r : Result) : Prop :=
  ∀ pre post w d', r.events = pre ++ .write w d' :: post →
    w = c.ws ∧ ∃ d id, diskOf s w = some d ∧ Known s pre id ∧ id < r.state.ops.length ∧
      lookup (viewAt r.state id) w = some d

theorem diskOf_of_lookup {s : State} {ws : Ws} {w : WsState} (h : lookup s.wss ws = some w) :
    diskOf s ws = some w.disk := by simp [diskOf, h]

/-- The checkout phase: given an operation of the log so far that records the start disk state,
whatever is written is covered. -/
theorem finishFull_spec (s : State) (c : CmdIn) (s3 : State) (evs : List Event) (w2 : WsState) (cur3 : OpId)
    (hx : Extends s s3) (hp : PublishOnly evs) (d : T) (id : Nat) (hd : diskOf s c.ws = some d)
    (hk : Known s evs id) (hid : id < s3.ops.length) (hrec : lookup (viewAt s3 id) c.ws = some d) :
    Extends s (finishFull c s3 evs w2 cur3).state ∧ WritesRecorded s c (finishFull c s3 evs w2 cur3) := by
  unfold finishFull
  split
  · exact ⟨hx.trans (setWs_extends _ _ _), fun pre post w' d' h => (no_write_of_publishOnly hp h).elim⟩
  · rename_i newTree _
    have hev := checkout_events c.ws w2 newTree cur3
    have hws := checkout_write_ws c.ws w2 newTree cur3
    generalize checkout c.ws w2 newTree cur3 = co at hev hws
    refine ⟨hx.trans (setWs_extends _ _ _), ?_⟩
    intro pre post w' d' h
    obtain ⟨hpre, hB, _⟩ := split_write hp hev h
    have hw' : w' = c.ws := hws w' d' hB
    subst hw'
    exact ⟨rfl, d, id, hd, hpre ▸ hk, hid, hrec⟩

theorem finishAdd_spec (s : State) (c : CmdIn) (nw : Ws) (s3 : State) (evs : List Event) (w2 : WsState)
    (cur3 : OpId) (hx : Extends s s3) (hp : PublishOnly evs) :
    Extends s (finishAdd c nw s3 evs w2 cur3).state ∧ WritesRecorded s c (finishAdd c nw s3 evs w2 cur3) := by
  unfold finishAdd
  refine ⟨?_, fun pre post w' d' h => (no_write_of_publishOnly hp h).elim⟩
  dsimp only
  split
  · exact hx.trans ((setWs_extends _ _ _).trans (setWs_extends _ _ _))
  · exact hx.trans (setWs_extends _ _ _)

theorem afterFresh_spec (s : State) (c : CmdIn) (s1 : State) (ev1 : List Event) (w : WsState) (cur : OpId)
    (hw : lookup s.wss c.ws = some w) (hx1 : Extends s s1) (hp1 : PublishOnly ev1)
    (hk1 : ∀ id, id < s1.ops.length → Known s ev1 id) :
    Extends s (afterFresh c s1 ev1 w cur).state ∧ WritesRecorded s c (afterFresh c s1 ev1 w cur) := by
  unfold afterFresh
  dsimp only
  have hsn := snapshotAt_spec s1 c.ws w cur
  generalize snapshotAt s1 c.ws w cur = sn at hsn ⊢
  obtain ⟨hx2, _, hp2, _, _, id, hid2, hknown, hrec⟩ := hsn
  have htx := runTx_spec sn.1.state sn.1.cur c.txView
  generalize runTx sn.1.state sn.1.cur c.txView = tx at htx ⊢
  obtain ⟨hx3, _, hp3⟩ := htx
  split
  · exact finishAdd_spec s c _ tx.state _ sn.2 tx.cur (hx1.trans (hx2.trans hx3)) ((hp1.append hp2).append hp3)
  · apply finishFull_spec s c tx.state _ sn.2 tx.cur (hx1.trans (hx2.trans hx3))
      ((hp1.append hp2).append hp3) w.disk id (diskOf_of_lookup hw)
    · rcases hknown with h | h
      · exact (hk1 id h).mono (fun e he => by simp [he])
      · exact Or.inr ⟨.snapshot, by simp [h]⟩
    · have := hx3.len; omega
    · rw [hx3.viewAt id hid2]; exact hrec

/-- the workspace has a working-copy commit in the view of the operation the command loads -/
def InView (s : State) (c : CmdIn) : Prop :=
  ∀ ld, loadHead s c.mergeView = some ld → lookup (viewAt ld.state ld.cur) c.ws ≠ none

theorem afterAbsent_extends (s : State) (c : CmdIn) (s1 : State) (ev1 : List Event) (w : WsState) (cur : OpId)
    (hx1 : Extends s s1) : Extends s (afterAbsent c s1 ev1 w cur).state := by
  unfold afterAbsent
  dsimp only
  have htx := runTx_spec s1 cur c.txView
  generalize runTx s1 cur c.txView = tx at htx ⊢
  have hx := hx1.trans htx.1
  split
  · unfold finishAdd; dsimp only
    split
    · exact hx.trans ((setWs_extends _ _ _).trans (setWs_extends _ _ _))
    · exact hx.trans (setWs_extends _ _ _)
  · unfold finishFull
    split
    · exact hx.trans (setWs_extends _ _ _)
    · exact hx.trans (setWs_extends _ _ _)

theorem execFull_extends (s : State) (c : CmdIn) : Extends s (execFull s c).state := by
  unfold execFull
  split
  · rename_i w ld hw hl
    obtain ⟨hx1, _, hp1, hk1⟩ := loadHead_spec s c.mergeView ld hl
    split
    · exact afterAbsent_extends s c ld.state ld.events w ld.cur hx1
    · split
      · exact hx1
      · exact hx1
      · exact (afterFresh_spec s c ld.state ld.events w w.op hw hx1 hp1 hk1).1
      · exact (afterFresh_spec s c ld.state ld.events w ld.cur hw hx1 hp1 hk1).1
  · exact Extends.refl _

theorem execFull_spec (s : State) (c : CmdIn) (hin : InView s c) : WritesRecorded s c (execFull s c) := by
  unfold execFull
  split
  · rename_i w ld hw hl
    obtain ⟨hx1, _, hp1, hk1⟩ := loadHead_spec s c.mergeView ld hl
    split
    · rename_i hnone
      exact absurd hnone (hin ld hl)
    · split
      · exact fun pre post w' d' h => (no_write_of_publishOnly hp1 h).elim
      · exact fun pre post w' d' h => (no_write_of_publishOnly hp1 h).elim
      · exact (afterFresh_spec s c ld.state ld.events w w.op hw hx1 hp1 hk1).2
      · exact (afterFresh_spec s c ld.state ld.events w ld.cur hw hx1 hp1 hk1).2
  · exact fun pre post w' d' h => by simp at h

theorem execNoWc_spec (s : State) (c : CmdIn) :
    Extends s (execNoWc s c).state ∧ PublishOnly (execNoWc s c).events ∧
      (execNoWc s c).state.wss = s.wss := by
  unfold execNoWc
  split
  · split
    · rename_i o _ _
      have htx := runTx_spec s o c.txView
      exact ⟨htx.1, htx.2.2, htx.2.1⟩
    · exact ⟨Extends.refl _, PublishOnly.nil, rfl⟩
  · split
    · exact ⟨Extends.refl _, PublishOnly.nil, rfl⟩
    · rename_i ld hl
      obtain ⟨hx1, hw1, hp1, _⟩ := loadHead_spec s c.mergeView ld hl
      have htx := runTx_spec ld.state ld.cur c.txView
      exact ⟨hx1.trans htx.1, hp1.append htx.2.2, by rw [htx.2.1, hw1]⟩

theorem execUpdateStale_spec (s : State) (c : CmdIn) :
    Extends s (execUpdateStale s c).state ∧ WritesRecorded s c (execUpdateStale s c) := by
  unfold execUpdateStale
  split
  · exact ⟨Extends.refl _, fun pre post w' d' h => by simp at h⟩
  · rename_i w hw
    split
    · have hsn := snapshotAt_spec s c.ws w w.op
      generalize snapshotAt s c.ws w w.op = sn at hsn
      obtain ⟨hx1, _, hp1, _, _, id, hid1, hknown, hrec⟩ := hsn
      simp only
      split
      · exact ⟨hx1.trans (setWs_extends _ _ _), fun pre post w' d' h => (no_write_of_publishOnly hp1 h).elim⟩
      · rename_i ld hl
        obtain ⟨hx2, _, hp2, _⟩ := loadHead_spec sn.1.state c.mergeView ld hl
        have hp12 : PublishOnly (sn.1.events ++ ld.events) := hp1.append hp2
        split
        · exact ⟨hx1.trans (hx2.trans (setWs_extends _ _ _)), fun pre post w' d' h => (no_write_of_publishOnly hp12 h).elim⟩
        · rename_i desired _
          split
          · exact ⟨hx1.trans (hx2.trans (setWs_extends _ _ _)), fun pre post w' d' h => (no_write_of_publishOnly hp12 h).elim⟩
          · exact ⟨hx1.trans (hx2.trans (setWs_extends _ _ _)), fun pre post w' d' h => (no_write_of_publishOnly hp12 h).elim⟩
          · have hev := checkout_events c.ws sn.2 desired ld.cur
            have hws := checkout_write_ws c.ws sn.2 desired ld.cur
            generalize checkout c.ws sn.2 desired ld.cur = co at hev hws
            simp only
            refine ⟨hx1.trans (hx2.trans (setWs_extends _ _ _)), ?_⟩
            intro pre post w' d' h
            obtain ⟨hpre, hB, _⟩ := split_write hp12 hev h
            have hw' : w' = c.ws := hws w' d' hB
            subst hw'
            have hidk : Known s (sn.1.events ++ ld.events) id := by
              rcases hknown with h | h
              · exact Or.inl h
              · exact Or.inr ⟨.snapshot, by simp [h]⟩
            refine ⟨rfl, w.disk, id, diskOf_of_lookup hw, hpre ▸ hidk, ?_, ?_⟩
            · have := hx2.len
              show id < ld.state.ops.length
              omega
            · have hv : viewAt (setWs ld.state c.ws co.1) id = viewAt sn.1.state id :=
                (hx2.trans (setWs_extends _ _ _)).viewAt id hid1
              rw [hv]; exact hrec
    · exact ⟨Extends.refl _, fun pre post w' d' h => by simp at h⟩

/-- **C40, core.**  In every command run, from every state: when files of a workspace are
written, an operation recording that workspace's files as they were at command start is already
in the operation log (it existed before the command or was published earlier in the command).
Only the command's own workspace is ever written. -/
theorem snapshot_before_mutation (s : State) (c : CmdIn) (hin : InView s c) :
    WritesRecorded s c (exec s c) := by
  unfold exec
  split
  · intro pre post w d' h
    exact (no_write_of_publishOnly (execNoWc_spec s c).2.1 h).elim
  · split
    · exact (execUpdateStale_spec s c).2
    · exact execFull_spec s c hin

/-- The operation log only grows. -/
theorem log_append_only (s : State) (c : CmdIn) : ∃ l, (exec s c).state.ops = s.ops ++ l := by
  unfold exec
  split
  · exact (execNoWc_spec s c).1
  · split
    · exact (execUpdateStale_spec s c).1
    · exact execFull_extends s c

/-- What an operation records is never changed by later commands: it stays recoverable. -/
theorem recorded_is_recoverable (s : State) (c : CmdIn) (id : Nat) (ws : Ws) (t : T)
    (hid : id < s.ops.length) (h : records s id ws t = true) : records (exec s c).state id ws t = true := by
  have hx : Extends s (exec s c).state := log_append_only s c
  simpa [records, hx.viewAt id hid] using h

/-- `--at-op` / `--ignore-working-copy`: no file of any workspace is touched. -/
theorem no_write_without_wc (s : State) (c : CmdIn) (h : c.atOp.isSome = true ∨ c.ignoreWc = true) :
    PublishOnly (exec s c).events ∧ ∀ ws, diskOf (exec s c).state ws = diskOf s ws := by
  have hc : (c.atOp.isSome || c.ignoreWc) = true := by
    rcases h with h | h <;> simp [h]
  unfold exec
  rw [if_pos hc]
  exact ⟨(execNoWc_spec s c).2.1, fun ws => by simp [diskOf, (execNoWc_spec s c).2.2]⟩

/-! ### nothing else touches the disk -/

theorem diskOf_setWs (s : State) (ws : Ws) (w : WsState) (ws' : Ws) :
    diskOf (setWs s ws w) ws' = if ws' = ws then some w.disk else diskOf s ws' := by
  unfold diskOf setWs
  by_cases h : ws' = ws
  · subst h; simp [lookup_update_same]
  · simp [h, lookup_update_other _ _ _ _ h]

theorem diskOf_congr {s1 s2 : State} (h : s1.wss = s2.wss) (ws : Ws) : diskOf s1 ws = diskOf s2 ws := by
  simp [diskOf, h]

/-- How a result may differ from the start state on disk: not at all, or — for the command's own
workspace — by a write event carrying the new state, or it is the workspace being added. -/
def DiskDiscipline (s : State) (c : CmdIn) (r : Result) : Prop :=
  ∀ ws, diskOf r.state ws = diskOf s ws ∨
    (ws = c.ws ∧ ∃ d, Event.write ws d ∈ r.events ∧ diskOf r.state ws = some d) ∨
    c.kind = .wsAdd ws

theorem finishFull_disk (s : State) (c : CmdIn) (s3 : State) (evs : List Event) (w w2 : WsState) (cur3 : OpId)
    (hw : lookup s.wss c.ws = some w) (hwss : s3.wss = s.wss) (hd : w2.disk = w.disk) :
    DiskDiscipline s c (finishFull c s3 evs w2 cur3) := by
  have hown : diskOf s c.ws = some w.disk := diskOf_of_lookup hw
  unfold finishFull
  split
  · intro ws
    left
    show diskOf (setWs s3 c.ws w2) ws = diskOf s ws
    rw [diskOf_setWs]
    split
    · rename_i h; subst h; rw [hd, hown]
    · exact diskOf_congr hwss ws
  · rename_i newTree _
    have hco := checkout_spec c.ws w2 newTree cur3
    generalize checkout c.ws w2 newTree cur3 = co at hco
    intro ws
    show diskOf (setWs s3 c.ws co.1) ws = diskOf s ws ∨ _
    rw [diskOf_setWs]
    split
    · rename_i h; subst h
      rcases hco with ⟨_, h2⟩ | ⟨h1, h2⟩
      · left; rw [h2, hd, hown]
      · right; left; exact ⟨rfl, newTree, by simp [h1], by rw [h2]⟩
    · left; exact diskOf_congr hwss ws

theorem finishAdd_disk (s : State) (c : CmdIn) (nw : Ws) (s3 : State) (evs : List Event) (w w2 : WsState)
    (cur3 : OpId) (hk : c.kind = .wsAdd nw)
    (hw : lookup s.wss c.ws = some w) (hwss : s3.wss = s.wss) (hd : w2.disk = w.disk) :
    DiskDiscipline s c (finishAdd c nw s3 evs w2 cur3) := by
  have hown : diskOf s c.ws = some w.disk := diskOf_of_lookup hw
  have h4 : ∀ ws, diskOf (setWs s3 c.ws w2) ws = diskOf s ws := by
    intro ws
    rw [diskOf_setWs]
    split
    · rename_i h; subst h; rw [hd, hown]
    · exact diskOf_congr hwss ws
  unfold finishAdd
  dsimp only
  split
  · rename_i t _
    intro ws
    by_cases hnw : ws = nw
    · right; right; rw [hnw]; exact hk
    · left
      show diskOf (setWs (setWs s3 c.ws w2) nw _) ws = diskOf s ws
      rw [diskOf_setWs, if_neg hnw]; exact h4 ws
  · intro ws; left; exact h4 ws

theorem afterFresh_disk (s : State) (c : CmdIn) (s1 : State) (ev1 : List Event) (w : WsState) (cur : OpId)
    (hw : lookup s.wss c.ws = some w) (hwss : s1.wss = s.wss) :
    DiskDiscipline s c (afterFresh c s1 ev1 w cur) := by
  unfold afterFresh
  dsimp only
  have hsn := snapshotAt_spec s1 c.ws w cur
  generalize snapshotAt s1 c.ws w cur = sn at hsn ⊢
  obtain ⟨_, hw2, _, hd2, _, _⟩ := hsn
  have htx := runTx_spec sn.1.state sn.1.cur c.txView
  generalize runTx sn.1.state sn.1.cur c.txView = tx at htx ⊢
  split
  · rename_i nw hk
    exact finishAdd_disk s c nw tx.state _ w sn.2 tx.cur hk hw (by rw [htx.2.1, hw2, hwss]) hd2
  · exact finishFull_disk s c tx.state _ w sn.2 tx.cur hw (by rw [htx.2.1, hw2, hwss]) hd2

theorem afterAbsent_disk (s : State) (c : CmdIn) (s1 : State) (ev1 : List Event) (w : WsState) (cur : OpId)
    (hw : lookup s.wss c.ws = some w) (hwss : s1.wss = s.wss) :
    DiskDiscipline s c (afterAbsent c s1 ev1 w cur) := by
  unfold afterAbsent
  dsimp only
  have htx := runTx_spec s1 cur c.txView
  generalize runTx s1 cur c.txView = tx at htx ⊢
  split
  · rename_i nw hk
    exact finishAdd_disk s c nw tx.state _ w w tx.cur hk hw (by rw [htx.2.1, hwss]) rfl
  · exact finishFull_disk s c tx.state _ w w tx.cur hw (by rw [htx.2.1, hwss]) rfl

theorem same_disk (s : State) (c : CmdIn) (r : Result) (h : r.state.wss = s.wss) : DiskDiscipline s c r :=
  fun ws => Or.inl (diskOf_congr h ws)

/-- **Only a checkout of the command's own workspace changes files.**  After any command, each
workspace's disk is what it was, unless it is the command's workspace and the trace contains the
write event that produced the new state (or it is the workspace just created by `workspace add`). -/
theorem disk_changes_only_by_write (s : State) (c : CmdIn) : DiskDiscipline s c (exec s c) := by
  unfold exec
  split
  · exact same_disk s c _ (execNoWc_spec s c).2.2
  · split
    · -- workspace update-stale
      unfold execUpdateStale
      split
      · exact same_disk s c _ rfl
      · rename_i w hw
        have hown : diskOf s c.ws = some w.disk := diskOf_of_lookup hw
        split
        · have hsn := snapshotAt_spec s c.ws w w.op
          generalize snapshotAt s c.ws w w.op = sn at hsn ⊢
          obtain ⟨_, hw1, _, hd1, _, _⟩ := hsn
          have keep : ∀ (st : State) (evs : List Event) (status : Status) (w' : WsState), w'.disk = sn.2.disk →
              st.wss = s.wss →
              DiskDiscipline s c { state := setWs st c.ws w', events := evs, status := status } := by
            intro st evs status w' hw' hst ws
            left
            show diskOf (setWs st c.ws w') ws = diskOf s ws
            rw [diskOf_setWs]
            split
            · rename_i h; subst h; rw [hw', hd1, hown]
            · exact diskOf_congr hst ws
          dsimp only
          split
          · exact keep _ _ _ _ rfl hw1
          · rename_i ld hl
            obtain ⟨_, hw2, _, _⟩ := loadHead_spec sn.1.state c.mergeView ld hl
            have hwl : ld.state.wss = s.wss := by rw [hw2, hw1]
            split
            · exact keep _ _ _ _ rfl hwl
            · rename_i desired _
              split
              · exact keep _ _ _ _ rfl hwl
              · exact keep _ _ _ _ rfl hwl
              · have hco := checkout_spec c.ws sn.2 desired ld.cur
                generalize checkout c.ws sn.2 desired ld.cur = co at hco ⊢
                intro ws
                show diskOf (setWs ld.state c.ws co.1) ws = diskOf s ws ∨ _
                rw [diskOf_setWs]
                split
                · rename_i h; subst h
                  rcases hco with ⟨_, h2⟩ | ⟨h1, h2⟩
                  · left; rw [h2, hd1, hown]
                  · right; left
                    refine ⟨rfl, desired, by simp [h1], ?_⟩
                    rw [h2]
                · left; exact diskOf_congr hwl ws
        · exact same_disk s c _ rfl
    · unfold execFull
      split
      · rename_i w ld hw hl
        obtain ⟨_, hw1, _, _⟩ := loadHead_spec s c.mergeView ld hl
        split
        · exact afterAbsent_disk s c ld.state ld.events w ld.cur hw hw1
        · split
          · exact same_disk s c _ hw1
          · exact same_disk s c _ hw1
          · exact afterFresh_disk s c ld.state ld.events w w.op hw hw1
          · exact afterFresh_disk s c ld.state ld.events w ld.cur hw hw1
      · exact same_disk s c _ rfl

/-- A command that is refused (stale working copy, sibling operation, unknown workspace) touches
no file. -/
theorem refused_touches_nothing (s : State) (c : CmdIn) (h : (exec s c).status ≠ .ok) :
    PublishOnly (exec s c).events := by
  revert h
  unfold exec
  split
  · intro _; exact (execNoWc_spec s c).2.1
  · split
    · unfold execUpdateStale
      split
      · intro _; exact PublishOnly.nil
      · rename_i w _
        split
        · have hsn := snapshotAt_spec s c.ws w w.op
          obtain ⟨_, _, hp1, _⟩ := hsn
          dsimp only
          split
          · intro _; exact hp1
          · rename_i ld hl
            obtain ⟨_, _, hp2, _⟩ := loadHead_spec _ c.mergeView ld hl
            split
            · intro _; exact hp1.append hp2
            · split
              · intro h; exact absurd rfl h
              · intro h; exact absurd rfl h
              · intro h; exact absurd rfl h
        · intro _; exact PublishOnly.nil
    · unfold execFull
      split
      · rename_i w ld hw hl
        obtain ⟨_, _, hp1, _⟩ := loadHead_spec s c.mergeView ld hl
        split
        · intro h
          exfalso; apply h
          unfold afterAbsent finishFull finishAdd; dsimp only; split <;> (try split) <;> rfl
        · split
          · intro _; exact hp1
          · intro _; exact hp1
          · intro h
            exfalso; apply h
            unfold afterFresh finishFull finishAdd; dsimp only; split <;> (try split) <;> rfl
          · intro h
            exfalso; apply h
            unfold afterFresh finishFull finishAdd; dsimp only; split <;> (try split) <;> rfl
      · intro _; exact PublishOnly.nil

/-! ### scripts -/

inductive Step where
  | edit (ws : Ws) (d : T)
  | cmd (c : CmdIn)
deriving Repr, DecidableEq

def stepState (s : State) : Step → State
  | .edit ws d => editDisk s ws d
  | .cmd c => (exec s c).state

def runScript (s : State) : List Step → State
  | [] => s
  | st :: rest => runScript (stepState s st) rest

theorem editDisk_ops (s : State) (ws : Ws) (d : T) : (editDisk s ws d).ops = s.ops := by
  unfold editDisk; split <;> rfl

theorem records_preserved (s1 : State) (after : List Step) (id : Nat) (ws : Ws) (d : T)
    (hid : id < s1.ops.length) (hrec : lookup (viewAt s1 id) ws = some d) :
    records (runScript s1 after) id ws d = true := by
  induction after generalizing s1 with
  | nil => simpa [runScript, records] using hrec
  | cons st rest ih =>
    simp only [runScript]
    cases st with
    | edit ws2 d2 =>
      apply ih
      · simp only [stepState, editDisk_ops]; exact hid
      · simpa [stepState, viewAt, opAt, editDisk_ops] using hrec
    | cmd c2 =>
      have hx : Extends s1 (exec s1 c2).state := log_append_only s1 c2
      apply ih
      · have h1 := hx.len
        show id < (exec s1 c2).state.ops.length
        omega
      · show lookup (viewAt (exec s1 c2).state id) ws = some d
        rw [hx.viewAt id hid]; exact hrec

/-- **C40 over whole histories.**  For every start state, every script of file edits and commands
(any workspaces, stale or not, with or without `--at-op`) and every command `c` of the script: if
`c` writes files, the disk state it found is recorded by an operation that is still in the log at
the end of the script. -/
theorem script_never_loses_state (s0 : State) (before : List Step) (c : CmdIn) (after : List Step)
    (pre post : List Event) (w : Ws) (d' : T) (hin : InView (runScript s0 before) c)
    (h : (exec (runScript s0 before) c).events = pre ++ .write w d' :: post) :
    ∃ d id, diskOf (runScript s0 before) w = some d ∧
      records (runScript (exec (runScript s0 before) c).state after) id w d = true := by
  obtain ⟨_, d, id, hd, _, hid, hrec⟩ := snapshot_before_mutation (runScript s0 before) c hin pre post w d' h
  exact ⟨d, id, hd, records_preserved _ after id w d hid hrec⟩

/-! ### the code violates the property when the workspace is absent from the view -/

/-- Operation 1 is the head and its view has no working-copy commit for workspace 0 (the
workspace was forgotten, or its creation undone); the user has edited the files (disk 7, while
`tree_state` still says 5).  A command whose transaction brings the workspace back (`jj undo`,
`jj redo`, `jj op restore`) with a different tree writes the files — and no operation, old or new,
records state 7: the edit is lost.  Mirrors `handle_stale_working_copy` returning `None` (snapshot
skipped) followed by `update_working_copy(None, new)`; confirmed on the binary (known finding
`lost-disk-state:workspace-absent-from-view`). -/
def absentState : State :=
  { ops := [{ parents := [], view := [] }, { parents := [0], view := [] }],
    heads := [1],
    wss := [(0, { disk := 7, tree := 5, op := 0 })] }

theorem absent_workspace_loses_edits :
    let r := exec absentState { ws := 0, txView := some [(0, 9)] }
    r.events = [.publish 2 .tx, .write 0 9] ∧ diskOf r.state 0 = some 9 ∧
      ∀ id, id < r.state.ops.length → records r.state id 0 7 = false := by
  refine ⟨by decide, by decide, ?_⟩
  intro id hid
  have h3 : (exec absentState { ws := 0, txView := some [(0, 9)] }).state.ops.length = 3 := by decide
  rw [h3] at hid
  have : id = 0 ∨ id = 1 ∨ id = 2 := by omega
  rcases this with rfl | rfl | rfl <;> decide

/-- … so the hypothesis `InView` of `snapshot_before_mutation` cannot be dropped. -/
theorem inView_needed : ¬ WritesRecorded absentState { ws := 0, txView := some [(0, 9)] }
    (exec absentState { ws := 0, txView := some [(0, 9)] }) := by
  intro h
  obtain ⟨_, d, id, hd, _, hid, hrec⟩ := h [.publish 2 .tx] [] 0 9 (by decide)
  have hd7 : d = 7 := by
    have : diskOf absentState 0 = some 7 := by decide
    rw [this] at hd; injection hd with hd; exact hd.symm
  subst hd7
  have := (absent_workspace_loses_edits).2.2 id hid
  simp [records, hrec] at this

/-! ### non-vacuity -/

/-- two operations; workspace 0 holds tree 5 at op 1 but the user has edited the disk to 7 -/
def exState : State :=
  { ops := [{ parents := [], view := [] }, { parents := [0], view := [(0, 5)] }],
    heads := [1],
    wss := [(0, { disk := 7, tree := 5, op := 1 })] }

-- `jj new <other>`: snapshot (op 2 records tree 7), transaction (op 3), then the checkout writes
example : (exec exState { ws := 0, txView := some [(0, 9)] }).events =
    [.publish 2 .snapshot, .publish 3 .tx, .write 0 9] := by decide
example : records (exec exState { ws := 0, txView := some [(0, 9)] }).state 2 0 7 = true := by decide
-- `--ignore-working-copy`: no snapshot, no write
example : (exec exState { ws := 0, ignoreWc := true, txView := some [(0, 9)] }).events = [.publish 2 .tx] := by
  decide
-- a stale workspace is refused
example : (exec { exState with ops := exState.ops ++ [{ parents := [1], view := [(0, 6)] }], heads := [2] }
    { ws := 0, txView := some [(0, 9)] }).status = .stale := by decide
-- … and `workspace update-stale` snapshots on top of the old operation before checking out
example : (exec { exState with ops := exState.ops ++ [{ parents := [1], view := [(0, 6)] }], heads := [2] }
    { ws := 0, kind := .updateStale, mergeView := [(0, 6)] }).events =
    [.publish 3 .snapshot, .publish 4 .merge, .write 0 6] := by decide

example : InView exState { ws := 0, txView := some [(0, 9)] } := by
  intro ld h
  have : ld = { state := exState, events := [], cur := 1 } := by
    have h' : loadHead exState [] = some { state := exState, events := [], cur := 1 } := by decide
    rw [show ({ ws := 0, txView := some [(0, 9)] } : CmdIn).mergeView = [] from rfl] at h
    rw [h'] at h; injection h with h; exact h.symm
  subst this
  decide

end JjModel.C40
