import JjModel.Model.Dsl
/-!
  C35 — Quoted symbols and strings survive the expression languages.

  `XID_CONTINUE` is an abstract predicate `xid`; the theorems only assume that it contains none of
  `"`, `@` and the grammar's whitespace characters (`XidOk`).
-/
namespace JjModel.C35
open JjModel.Dsl

/-- what the proofs need to know about `XID_CONTINUE` -/
def XidOk (xid : Char → Bool) : Prop :=
  ∀ c, xid c = true → c ≠ '"' ∧ c ≠ '@' ∧ isWhitespace c = false

/-! ### escape / literal round trip -/

theorem hexVal_hexDigitLower : ∀ n, n < 16 → hexVal (hexDigitLower n) = some n := by decide

/-- parsing the escaped form of one character pushes that character -/
theorem parseLiteralBody_escapeChar (c : Char) (tail acc : Str) :
    parseLiteralBody (escapeChar c ++ tail) acc = parseLiteralBody tail (c :: acc) := by
  unfold escapeChar
  split
  · rename_i h; subst h; simp only [List.cons_append, List.nil_append]; rw [parseLiteralBody.eq_def]; simp
  split
  · rename_i h; subst h; simp only [List.cons_append, List.nil_append]; rw [parseLiteralBody.eq_def]; simp
  split
  · rename_i h; subst h; simp only [List.cons_append, List.nil_append]; rw [parseLiteralBody.eq_def]; simp
  split
  · rename_i h; subst h; simp only [List.cons_append, List.nil_append]; rw [parseLiteralBody.eq_def]; simp
  split
  · rename_i h; subst h; simp only [List.cons_append, List.nil_append]; rw [parseLiteralBody.eq_def]; simp
  split
  · rename_i h; subst h; simp only [List.cons_append, List.nil_append]; rw [parseLiteralBody.eq_def]; simp
  split
  · rename_i h1 h2 _ _ _ _ hctl
    have hlt : c.toNat < 128 := by
      simp only [isAsciiControl, Bool.or_eq_true, decide_eq_true_eq] at hctl
      omega
    have ha := hexVal_hexDigitLower (c.toNat / 16) (by omega)
    have hb := hexVal_hexDigitLower (c.toNat % 16) (by omega)
    have hc : Char.ofNat (c.toNat / 16 * 16 + c.toNat % 16) = c := by
      rw [Nat.div_add_mod']; exact Char.ofNat_toNat c
    simp only [List.cons_append, List.nil_append]; rw [parseLiteralBody.eq_def]; simp [ha, hb, hc]
  · rename_i h1 h2 _ _ _ _ _
    simp only [List.cons_append, List.nil_append]; rw [parseLiteralBody.eq_def]; simp [h1, h2]

theorem parseLiteralBody_escapeString (s rest acc : Str) :
    parseLiteralBody (escapeString s ++ '"' :: rest) acc = some (acc.reverse ++ s, rest) := by
  induction s generalizing acc with
  | nil => simp only [escapeString, List.flatMap_nil, List.nil_append]; rw [parseLiteralBody.eq_def]; simp
  | cons c s ih =>
    have : escapeString (c :: s) = escapeChar c ++ escapeString s := by simp [escapeString]
    rw [this, List.append_assoc, parseLiteralBody_escapeChar, ih]
    simp

/-- a formatted string followed by anything parses (as a literal prefix) to the string -/
theorem parsePrefix_formatString (s rest : Str) :
    parseStringLiteralPrefix (formatString s ++ rest) = some (s, rest) := by
  have : formatString s ++ rest = '"' :: (escapeString s ++ '"' :: rest) := by simp [formatString]
  rw [this]
  simp [parseStringLiteralPrefix, parseLiteralBody_escapeString]

/-- **Any string escaped by jj parses back to the same string** — in the revset, fileset and
template grammars alike (they share the literal rules verbatim). -/
theorem escape_roundtrip (s : Str) : parseStringLiteral (formatString s) = some s := by
  have := parsePrefix_formatString s []
  rw [List.append_nil] at this
  simp [parseStringLiteral, this]

/-! ### identifiers followed by `@` -/

theorem identGo_at (xid : Char → Bool) (hat : isPartChar xid '@' = false) (t : Str) :
    ∀ (s : Str) (st : IdState) (good good' : Str), (st ≠ .part → good ≠ []) →
      identGo xid st good s = [] → identGo xid st good' (s ++ '@' :: t) = '@' :: t := by
  intro s
  induction s with
  | nil =>
    intro st good good' hg h
    cases st with
    | part => simp [identGo, hat]
    | sep => simp [identGo] at h; exact absurd h (hg (by simp))
    | dashes => simp [identGo] at h; exact absurd h (hg (by simp))
  | cons c s ih =>
    intro st good good' hg h
    cases st with
    | part =>
      simp only [identGo, List.cons_append] at h ⊢
      by_cases hp : isPartChar xid c = true
      · simp only [hp, if_true] at h ⊢
        exact ih .part s _ (by simp) h
      · simp only [hp] at h ⊢
        by_cases hs : c = '.' ∨ c = '+'
        · simp only [hs, if_true] at h ⊢
          exact ih .sep (c :: s) _ (by simp) h
        · simp only [hs, if_false] at h ⊢
          by_cases hd : c = '-'
          · simp only [hd, if_true] at h ⊢
            exact ih .dashes _ _ (by simp) h
          · simp [hd] at h
    | sep =>
      simp only [identGo, List.cons_append] at h ⊢
      by_cases hp : isPartChar xid c = true
      · simp only [hp, if_true] at h ⊢
        exact ih .part s _ (by simp) h
      · simp only [hp] at h
        exact absurd h (hg (by simp))
    | dashes =>
      simp only [identGo, List.cons_append] at h ⊢
      by_cases hp : isPartChar xid c = true
      · simp only [hp, if_true] at h ⊢
        exact ih .part s _ (by simp) h
      · simp only [hp] at h ⊢
        by_cases hd : c = '-'
        · simp only [hd, if_true] at h ⊢
          exact ih .dashes good _ hg h
        · simp only [hd, if_false] at h
          exact absurd h (hg (by simp))

theorem isPartChar_false (xid : Char → Bool) (hx : XidOk xid) (c : Char)
    (h : c = '"' ∨ c = '@' ∨ isWhitespace c = true) : isPartChar xid c = false := by
  have hxc : xid c = false := by
    cases hv : xid c with
    | false => rfl
    | true =>
      obtain ⟨h1, h2, h3⟩ := hx c hv
      rcases h with h | h | h
      · exact absurd h h1
      · exact absurd h h2
      · rw [h3] at h; simp at h
  unfold isPartChar
  rw [hxc]
  rcases h with rfl | rfl | h
  · decide
  · decide
  · have h1 : c ≠ '_' := by intro e; subst e; revert h; decide
    have h2 : c ≠ '*' := by intro e; subst e; revert h; decide
    have h3 : c ≠ '/' := by intro e; subst e; revert h; decide
    simp [h1, h2, h3]

theorem identRest_append_at (xid : Char → Bool) (hx : XidOk xid) (n t : Str)
    (h : isIdentifier xid n = true) : identRest xid (n ++ '@' :: t) = some ('@' :: t) := by
  have hat := isPartChar_false xid hx '@' (Or.inr (Or.inl rfl))
  cases n with
  | nil => simp [isIdentifier, identRest] at h
  | cons c n =>
    simp only [isIdentifier, identRest] at h
    simp only [List.cons_append, identRest]
    by_cases hp : isPartChar xid c = true
    · simp only [hp, if_true] at h ⊢
      have hgo : identGo xid .part n n = [] := by
        cases hg : identGo xid .part n n with
        | nil => rfl
        | cons a b => simp [hg] at h
      rw [identGo_at xid hat t n .part n _ (by simp) hgo]
    · simp [hp] at h

theorem isIdentifier_identRest (xid : Char → Bool) (n : Str) (h : isIdentifier xid n = true) :
    identRest xid n = some [] := by
  unfold isIdentifier at h
  split at h
  · assumption
  · simp at h

/-- a formatted symbol followed by `rest` (empty, or starting with `@`) parses as that symbol -/
theorem parseSymbolPrefix_formatSymbol (xid : Char → Bool) (hx : XidOk xid) (s rest : Str)
    (hr : rest = [] ∨ ∃ t, rest = '@' :: t) :
    parseSymbolPrefix xid (formatSymbol xid s ++ rest) = some (s, rest) := by
  unfold formatSymbol
  by_cases hi : isIdentifier xid s = true
  · simp only [hi, if_true]
    have hrest : identRest xid (s ++ rest) = some rest := by
      rcases hr with rfl | ⟨t, rfl⟩
      · rw [List.append_nil]; exact isIdentifier_identRest xid s hi
      · exact identRest_append_at xid hx s t hi
    simp only [parseSymbolPrefix, hrest]
    have : (s ++ rest).length - rest.length = s.length := by simp
    rw [this, List.take_left']
    rfl
  · simp only [hi]
    have hq := isPartChar_false xid hx '"' (Or.inl rfl)
    have hnone : identRest xid (formatString s ++ rest) = none := by
      simp [formatString, identRest, hq]
    simp only [Bool.false_eq_true, if_false, parseSymbolPrefix, hnone, parsePrefix_formatString]

/-- **Any non-empty name formatted as a revset symbol parses back to the same name.** -/
theorem format_symbol_roundtrip (xid : Char → Bool) (hx : XidOk xid) (s : Str) (hs : s ≠ []) :
    parseSymbol xid (formatSymbol xid s) = some s := by
  have := parseSymbolPrefix_formatSymbol xid hx s [] (Or.inl rfl)
  rw [List.append_nil] at this
  simp [parseSymbol, this, hs]

/-- the empty name is the one exception: it is formatted as `""`, which `parse_symbol` rejects -/
theorem format_symbol_empty (xid : Char → Bool) (hx : XidOk xid) :
    formatSymbol xid [] = ['"', '"'] ∧ parseSymbol xid (formatSymbol xid []) = none := by
  have h1 : formatSymbol xid [] = ['"', '"'] := by
    simp [formatSymbol, isIdentifier, identRest, formatString, escapeString]
  refine ⟨h1, ?_⟩
  have h2 := parseSymbolPrefix_formatSymbol xid hx [] [] (Or.inl rfl)
  rw [List.append_nil] at h2
  simp [parseSymbol, h2]

/-- **`name@remote` formatted by jj parses back to that name and that remote.** -/
theorem format_remote_symbol_roundtrip (xid : Char → Bool) (hx : XidOk xid) (n r : Str) :
    parseRemoteSymbol xid (formatRemoteSymbol xid n r) = some (n, r) := by
  unfold parseRemoteSymbol formatRemoteSymbol
  -- no leading whitespace to drop
  have hfirst : (formatSymbol xid n ++ '@' :: formatSymbol xid r).dropWhile isWhitespace =
      formatSymbol xid n ++ '@' :: formatSymbol xid r := by
    unfold formatSymbol
    by_cases hi : isIdentifier xid n = true
    · simp only [hi, if_true]
      cases n with
      | nil => simp [isIdentifier, identRest] at hi
      | cons c n =>
        have hp : isPartChar xid c = true := by
          simp only [isIdentifier, identRest] at hi
          by_cases hp : isPartChar xid c = true
          · exact hp
          · simp [hp] at hi
        have hw : isWhitespace c = false := by
          cases hw : isWhitespace c with
          | false => rfl
          | true => rw [isPartChar_false xid hx c (Or.inr (Or.inr hw))] at hp; simp at hp
        simp [List.dropWhile, hw]
    · simp only [hi]
      have : isWhitespace '"' = false := by decide
      simp [formatString, List.dropWhile, this]
  simp only [hfirst]
  rw [parseSymbolPrefix_formatSymbol xid hx n _ (Or.inr ⟨_, rfl⟩)]
  have h2 := parseSymbolPrefix_formatSymbol xid hx r [] (Or.inl rfl)
  rw [List.append_nil] at h2
  simp [h2]

/-! ### the driver's `XID_CONTINUE` approximation satisfies the assumption; non-vacuity -/

theorem xidApprox_ok : XidOk xidApprox := by
  intro c hc
  refine ⟨?_, ?_, ?_⟩
  · intro e; subst e; revert hc; decide
  · intro e; subst e; revert hc; decide
  · cases hw : isWhitespace c with
    | false => rfl
    | true =>
      exfalso
      simp only [isWhitespace, Bool.or_eq_true, decide_eq_true_eq] at hw
      rcases hw with (((rfl | rfl) | rfl) | rfl) | rfl <;> revert hc <;> decide

example : formatSymbol xidApprox ['a', '-', 'b'] = ['a', '-', 'b'] ∧
    formatSymbol xidApprox ['a', ' ', '"'] = ['"', 'a', ' ', '\\', '"', '"'] ∧
    formatRemoteSymbol xidApprox ['a', '@'] ['o'] = ['"', 'a', '@', '"', '@', 'o'] ∧
    parseRemoteSymbol xidApprox ['"', 'a', '@', '"', '@', 'o'] = some (['a', '@'], ['o']) := by
  decide

end JjModel.C35
