import JjModel.Lemmas.BisectLinear
import JjModel.Lemmas.BisectSkip
/-!
  C37 — Bisection finds the first bad commit.

  Property theorems about `JjModel.Bisect.run` (model of `Bisector` driven to completion).
  `G` is any commit DAG by index position (`wfB G`: parents have smaller positions), `R` any set
  of commits (the evaluated input range), `B` the bad commits.

  Hypotheses, from the property text and the documentation of `Bisector::new`:
  * `Mono G B`      — the outcome is consistent with history (children of bad commits are bad);
  * `HeadsBad G R B` — "The range's heads are assumed to be bad".

  What holds and what does not:
  * `no_repeat`, `terminates`                 — for every `R`, `B` and skip set;
  * `reported_are_first_bad` (soundness)      — every reported commit is an earliest bad commit;
  * `complete_unique`                         — exact when the earliest bad commit is unique;
  * `linear_log_steps`                        — on linear history at most `⌈log₂ n⌉` evaluations;
  * `found_with_skips_is_first_bad`, `found_despite_skips_spec` — with untestable commits, on a
    convex range: no false result (`possibly_bad` lists every bad commit below a reported one);
  * `not_complete_in_general`                 — the full statement ("reports exactly the earliest
    bad commits") is FALSE for the model (and, by the correspondence check, for the code):
    counter-example decided by evaluation.  This is finding F2 (known finding
    `bisect:reported-proper-subset-of-minimal-bad`).
-/
namespace JjModel.C37
open JjModel.Dag JjModel.Bisect

variable {G : Graph} {R B Sk : List Nat}

/-- No commit is asked about twice (any range, any outcome, any skip set). -/
theorem no_repeat (hwf : wfB G = true) : (run G R B Sk).evals.Nodup :=
  runFrom_evals_nodup (wfB_iff.1 hwf) _ _ _ (inv_init R)

/-- The bisection ends: the model's fuel (`|G| + 1` steps) never runs out. -/
theorem terminates (hwf : wfB G = true) : (run G R B Sk).result ≠ none :=
  runFrom_terminates (wfB_iff.1 hwf) _ _ _ (inv_init R) (by simp)

/-- Every evaluated commit belongs to the range. -/
theorem evals_in_range (hwf : wfB G = true) : ∀ c ∈ (run G R B Sk).evals, c ∈ R := by
  have key : ∀ (f : Nat) (st : State) (acc : List Nat), (∀ c ∈ acc, c ∈ R) →
      ∀ c ∈ (runFrom G (ancTable G) G.length R B Sk f st acc).evals, c ∈ R := by
    intro f
    induction f with
    | zero => intro st acc h c hc; simp only [runFrom, List.mem_reverse] at hc; exact h c hc
    | succ f ih =>
      intro st acc h c hc
      unfold runFrom at hc
      split at hc
      · simp only [List.mem_reverse] at hc; exact h c hc
      · rename_i c' hc'
        refine ih _ (c' :: acc) ?_ c hc
        intro x hx
        rcases List.mem_cons.1 hx with hx | hx
        · subst hx; exact (mem_candidates.1 (nextStep_evaluate hc')).2.1
        · exact h x hx
  have _ := hwf
  exact key _ _ [] (by simp)

/-- Without skips the result is `Found` (or `Indeterminate`, only for an empty range). -/
theorem result_shape (hwf : wfB G = true) (hm : Mono G B) (hh : HeadsBad G R B) :
    (∃ rep, (run G R B []).result = some (.found rep) ∧ rep ≠ []) ∨
    ((run G R B []).result = some .indeterminate ∧ ∀ x ∈ R, G.length ≤ x) := by
  have hwf' := wfB_iff.1 hwf
  have _ := hm
  cases hres : (run G R B []).result with
  | none => exact absurd hres (terminates hwf)
  | some res =>
    obtain ⟨st', ht, hsub, _, hr⟩ := runFrom_sound _ _ _ (truth_init hwf' hh) hres
    rw [result_noskip ht.noskip] at hr
    by_cases hemp : (rootsOf (ancTable G) G.length st'.bad).isEmpty
    · right
      rw [if_pos hemp] at hr
      refine ⟨by rw [hr], ?_⟩
      intro x hx
      apply Classical.byContradiction
      intro hlt
      have hX : ∀ y ∈ descFilter G.length (fun y => R.contains y), y < G.length :=
        fun y hy => (mem_descFilter.1 hy).1
      -- a head of R exists above x, it is in st'.bad, hence a root exists
      have hR' : ∀ y ∈ R.filter (fun y => decide (y < G.length)), y < G.length := by
        intro y hy; simpa using (List.mem_filter.1 hy).2
      obtain ⟨h, hh', _⟩ := exists_head_above hwf' hR' x
        (List.mem_filter.2 ⟨hx, by simpa using (Nat.lt_of_not_le hlt)⟩)
      have hh'' := (mem_headsOf hwf').1 hh'
      have hhead : h ∈ headsOf (ancTable G) G.length R := by
        refine (mem_headsOf hwf').2 ⟨hh''.1, (List.mem_filter.1 hh''.2.1).1, ?_⟩
        intro y hy ha
        by_cases hyl : y < G.length
        · exact hh''.2.2 y (List.mem_filter.2 ⟨hy, by simpa using hyl⟩) ha
        · -- y outside the graph has no parents, so `Anc h y` forces y = h
          rcases anc_iff.1 ha with h1 | ⟨p, hp, _⟩
          · exact h1.symm
          · rw [parents_of_ge (by omega)] at hp; cases hp
      have hbad : h ∈ st'.bad := hsub h hhead
      obtain ⟨r, hr', _⟩ := exists_root_below hwf' (fun b hb => (ht.bad b hb).2.2) h hbad
      have : rootsOf (ancTable G) G.length st'.bad ≠ [] := List.ne_nil_of_mem hr'
      simp only [List.isEmpty_iff] at hemp
      exact this hemp
    · left
      rw [if_neg hemp] at hr
      refine ⟨_, by rw [hr], ?_⟩
      simpa [List.isEmpty_iff] using hemp

/-- **Soundness**: every reported commit is in the range, bad, and every other commit of the
range that is one of its ancestors is good — it is an earliest bad commit. -/
theorem reported_are_first_bad (hwf : wfB G = true) (hm : Mono G B) (hh : HeadsBad G R B)
    {rep : List Nat} (hres : (run G R B []).result = some (.found rep)) :
    ∀ r ∈ rep, FirstBad G R B r := by
  have hwf' := wfB_iff.1 hwf
  obtain ⟨st', ht, _, hc, hr⟩ := runFrom_sound _ _ _ (truth_init hwf' hh) hres
  rw [result_noskip ht.noskip] at hr
  split at hr
  · cases hr
  · cases hr
    exact roots_firstBad hwf' hm ht hc

theorem mem_minimalBad (hwf : wfB G = true) {c : Nat} :
    c ∈ minimalBad G R B ↔ c < G.length ∧ FirstBad G R B c := by
  have hwf' := wfB_iff.1 hwf
  unfold minimalBad FirstBad
  simp only [mem_descFilter, Bool.and_eq_true, List.contains_iff_mem, Bool.not_eq_true',
    List.any_eq_false, bne_iff_ne, ne_eq, isAnc_iff hwf', not_and]
  constructor
  · rintro ⟨h1, ⟨h2, h3⟩, h4⟩
    exact ⟨h1, h2, h3, fun a ha hne hanc hB => h4 a ha ⟨hne, hB⟩ hanc⟩
  · rintro ⟨h1, h2, h3, h4⟩
    exact ⟨h1, ⟨h2, h3⟩, fun a ha hne hanc => h4 a ha hne.1 hanc hne.2⟩

theorem eq_singleton {l : List Nat} {m : Nat} (hne : l ≠ []) (hn : l.Nodup) (h : ∀ x ∈ l, x = m) :
    l = [m] := by
  match l, hne, hn, h with
  | [x], _, _, h => rw [h x (by simp)]
  | x :: y :: rest, _, hn, h =>
    have h1 := h x (by simp)
    have h2 := h y (by simp)
    rw [List.nodup_cons] at hn
    exact absurd (by simp [h1, h2]) hn.1

/-- **Completeness when the earliest bad commit is unique**: the result is exactly that commit. -/
theorem complete_unique (hwf : wfB G = true) (hm : Mono G B) (hh : HeadsBad G R B) {m : Nat}
    (hmin : minimalBad G R B = [m]) : (run G R B []).result = some (.found [m]) := by
  have hwf' := wfB_iff.1 hwf
  have hm' : m ∈ minimalBad G R B := by rw [hmin]; simp
  obtain ⟨hmlt, hmR, _⟩ := (mem_minimalBad hwf).1 hm'
  rcases result_shape hwf hm hh with ⟨rep, hres, hne⟩ | ⟨_, hall⟩
  · have hfirst := reported_are_first_bad hwf hm hh hres
    obtain ⟨st', ht, _, _, hr⟩ := runFrom_sound _ _ _ (truth_init hwf' hh) hres
    rw [result_noskip ht.noskip] at hr
    have hrep : rep = rootsOf (ancTable G) G.length st'.bad := by
      split at hr
      · cases hr
      · cases hr; rfl
    have hall : ∀ r ∈ rep, r = m := by
      intro r hr'
      have hlt : r < G.length := by rw [hrep] at hr'; exact ((mem_rootsOf hwf').1 hr').1
      have : r ∈ minimalBad G R B := (mem_minimalBad hwf).2 ⟨hlt, hfirst r hr'⟩
      rw [hmin] at this
      simpa using this
    have hnd : rep.Nodup := by rw [hrep]; exact descFilter_nodup _ _
    rw [hres, eq_singleton hne hnd hall]
  · have := hall m hmR
    omega

/-- **Linear ranges**: on linear history, a range of at most `2^e` commits needs at most `e`
evaluations (i.e. `⌈log₂ n⌉`, within the property's "about log₂ of the range size"). -/
theorem linear_log_steps (hwf : wfB G = true) (hlin : Linear G) (e : Nat)
    (hn : (descFilter G.length fun c => R.contains c).length ≤ 2 ^ e) :
    (run G R B []).evals.length ≤ e := by
  have hwf' := wfB_iff.1 hwf
  have hk : (candidates (ancTable G) G.length R (init (ancTable G) G.length R)).length < 2 ^ e := by
    -- the candidates are range commits that are not heads; a non-empty range has a head
    by_cases hemp : (descFilter G.length fun c => R.contains c) = []
    · have : candidates (ancTable G) G.length R (init (ancTable G) G.length R) = [] := by
        apply List.eq_nil_iff_forall_not_mem.2
        intro x hx
        obtain ⟨h1, h2, _⟩ := mem_candidates.1 hx
        have : x ∈ descFilter G.length fun c => R.contains c :=
          mem_descFilter.2 ⟨h1, by simpa using h2⟩
        rw [hemp] at this; cases this
      rw [this]
      simpa using Nat.pow_pos (n := e) (by omega : 0 < 2)
    · obtain ⟨x, hx⟩ := List.exists_mem_of_ne_nil _ hemp
      obtain ⟨hxl, hxR⟩ := mem_descFilter.1 hx
      have hR' : ∀ y ∈ R.filter (fun y => decide (y < G.length)), y < G.length := by
        intro y hy; simpa using (List.mem_filter.1 hy).2
      obtain ⟨h, hh', _⟩ := exists_head_above hwf' hR' x
        (List.mem_filter.2 ⟨by simpa using hxR, by simpa using hxl⟩)
      have hh'' := (mem_headsOf hwf').1 hh'
      have hhead : h ∈ headsOf (ancTable G) G.length R := by
        refine (mem_headsOf hwf').2 ⟨hh''.1, (List.mem_filter.1 hh''.2.1).1, ?_⟩
        intro y hy ha
        by_cases hyl : y < G.length
        · exact hh''.2.2 y (List.mem_filter.2 ⟨hy, by simpa using hyl⟩) ha
        · rcases anc_iff.1 ha with h1 | ⟨p, hp, _⟩
          · exact h1.symm
          · rw [parents_of_ge (by omega)] at hp; cases hp
      have hsub : ∀ y ∈ candidates (ancTable G) G.length R (init (ancTable G) G.length R),
          y ∈ (descFilter G.length fun c => R.contains c).erase h := by
        intro y hy
        obtain ⟨h1, h2, _, _, h5, _⟩ := mem_candidates.1 hy
        have hne : y ≠ h := fun heq => h5 (by simpa [init, heq] using hhead)
        exact (List.mem_erase_of_ne hne).2 (mem_descFilter.2 ⟨h1, by simpa using h2⟩)
      have hlen := length_le_of_nodup_subset (candidates_nodup _) hsub
      have hhm : h ∈ descFilter G.length fun c => R.contains c :=
        mem_descFilter.2 ⟨hh''.1, by simpa using (List.mem_filter.1 hh''.2.1).1⟩
      rw [List.length_erase_of_mem hhm] at hlen
      have := List.length_pos_of_mem hhm
      omega
  have := runFrom_linear_steps (R := R) (B := B) hwf' hlin (G.length + 1) _ [] (inv_init R) e hk
  simpa [run] using this

/-- the same bound with `Nat.log2`: at most `⌊log₂ n⌋ + 1 ≤ ⌈log₂ n⌉ + 1` evaluations -/
theorem linear_log_steps_log2 (hwf : wfB G = true) (hlin : Linear G) :
    (run G R B []).evals.length ≤ Nat.log2 (descFilter G.length fun c => R.contains c).length + 1 :=
  linear_log_steps hwf hlin _ (Nat.le_of_lt (Nat.lt_log2_self))

/-! ### with untestable commits: no false result -/

/-- what the final state yields, with skips: the roots of the marked-bad set are bad range commits
and every bad range commit strictly below one of them is listed by the `todo` walk -/
theorem final_state_spec (hwf : wfB G = true) (hm : Mono G B) (hh : HeadsBad G R B)
    (hcv : Convex G R) {res : Result} (hres : (run G R B Sk).result = some res) :
    ∃ rb pb, (res = .indeterminate ∧ rb = []) ∨
      ((res = .found rb ∧ pb = [] ∨ res = .foundDespiteSkips rb pb ∧ pb ≠ []) ∧
        (∀ r ∈ rb, r ∈ R ∧ r ∈ B ∧ ∀ a ∈ R, a ≠ r → Anc G a r → a ∈ B → a ∈ pb) ∧
        ∀ p ∈ pb, p ∈ Sk) := by
  have hwf' := wfB_iff.1 hwf
  obtain ⟨st', ht, hc, hr⟩ := runFrom_sound2 _ _ _ (truth2_init (Sk := Sk) hwf' hh) hres
  refine ⟨rootsOf (ancTable G) G.length st'.bad,
    possiblyBad G st'.skipped G.length (rootsOf (ancTable G) G.length st'.bad) [], ?_⟩
  unfold result at hr
  simp only at hr
  by_cases hemp : (rootsOf (ancTable G) G.length st'.bad).isEmpty = true
  · left
    rw [if_pos hemp] at hr
    exact ⟨hr, by simpa [List.isEmpty_iff] using hemp⟩
  · right
    rw [if_neg hemp] at hr
    refine ⟨?_, ?_, ?_⟩
    · by_cases hpb : (possiblyBad G st'.skipped G.length (rootsOf (ancTable G) G.length st'.bad) []).isEmpty = true
      · rw [if_pos hpb] at hr
        exact Or.inl ⟨hr, by simpa [List.isEmpty_iff] using hpb⟩
      · rw [if_neg hpb] at hr
        exact Or.inr ⟨hr, by simpa [List.isEmpty_iff] using hpb⟩
    · intro r hr'
      have hr'' := (mem_rootsOf hwf').1 hr'
      obtain ⟨hrB, hrR, _⟩ := ht.bad r hr''.2.1
      refine ⟨hrR, hrB, ?_⟩
      intro a haR hne haAnc haB
      obtain ⟨m, hm', hch⟩ := bad_ancestor_chain hwf' hm hcv ht hc hr' a haR hne haAnc haB
      exact possiblyBad_chain hch _ _ _ (by omega) hr'
    · intro p hp
      rcases possiblyBad_sub _ _ _ p hp with h | h
      · cases h
      · exact ht.skipped p h

/-- **No false result with skips, `Found`**: on a convex range (`x..y`), if the bisection ends with
`Found rep` although some commits could not be tested, every reported commit is still an earliest
bad commit. -/
theorem found_with_skips_is_first_bad (hwf : wfB G = true) (hm : Mono G B) (hh : HeadsBad G R B)
    (hcv : Convex G R) {rep : List Nat} (hres : (run G R B Sk).result = some (.found rep)) :
    ∀ r ∈ rep, FirstBad G R B r := by
  obtain ⟨rb, pb, h⟩ := final_state_spec hwf hm hh hcv hres
  rcases h with ⟨h, _⟩ | ⟨h1, h2, _⟩
  · cases h
  · rcases h1 with ⟨h, hpb⟩ | ⟨h, _⟩
    · cases h
      intro r hr
      obtain ⟨k1, k2, k3⟩ := h2 r hr
      refine ⟨k1, k2, ?_⟩
      intro a haR hne haAnc haB
      have := k3 a haR hne haAnc haB
      rw [hpb] at this; cases this
    · cases h

/-- **No false result with skips, `FoundDespiteSkips`**: the reported commits are bad range
commits; every bad range commit below one of them is listed in `possibly_bad`; and `possibly_bad`
only lists commits that could not be tested. -/
theorem found_despite_skips_spec (hwf : wfB G = true) (hm : Mono G B) (hh : HeadsBad G R B)
    (hcv : Convex G R) {rep pb : List Nat}
    (hres : (run G R B Sk).result = some (.foundDespiteSkips rep pb)) :
    (∀ r ∈ rep, r ∈ R ∧ r ∈ B ∧ ∀ a ∈ R, a ≠ r → Anc G a r → a ∈ B → a ∈ pb) ∧ ∀ p ∈ pb, p ∈ Sk := by
  obtain ⟨rb, pb', h⟩ := final_state_spec hwf hm hh hcv hres
  rcases h with ⟨h, _⟩ | ⟨h1, h2, h3⟩
  · cases h
  · rcases h1 with ⟨h, _⟩ | ⟨h, _⟩
    · cases h
    · cases h; exact ⟨h2, h3⟩

/-! ### the full statement is false: finding F2 -/

/-- root `0`; branch `1 → 2`; branch `3 → 4`; merge `5` of `2` and `4` -/
def diamond : Graph := [[], [0], [1], [0], [3], [2, 4]]
def diamondRange : List Nat := [1, 2, 3, 4, 5]
def diamondBad : List Nat := [2, 4, 5]

theorem diamond_run :
    run diamond diamondRange diamondBad [] = { evals := [2, 1], result := some (.found [2]) } := by
  decide

theorem diamond_minimal : minimalBad diamond diamondRange diamondBad = [4, 2] := by decide

theorem diamond_mono : Mono diamond diamondBad := by
  intro c p hp hb
  have hc : c < 6 ∨ 6 ≤ c := by omega
  rcases hc with hc | hc
  · have : c = 0 ∨ c = 1 ∨ c = 2 ∨ c = 3 ∨ c = 4 ∨ c = 5 := by omega
    rcases this with h | h | h | h | h | h <;> subst h <;>
      simp [parents, diamond, diamondBad] at hp hb ⊢ <;> omega
  · rw [parents_of_ge (by simpa [diamond] using hc)] at hp; cases hp

theorem diamond_headsBad : HeadsBad diamond diamondRange diamondBad := by
  intro h hh
  have : headsOf (ancTable diamond) diamond.length diamondRange = [5] := by decide
  rw [this] at hh
  simp at hh; subst hh; decide

/-- **The full statement fails**: it is not true that for every well-formed graph, range and
history-consistent outcome (with bad heads) the reported commits are exactly the earliest bad
commits.  Counter-example: two branches that each introduce the defect; only one is reported. -/
theorem not_complete_in_general :
    ¬ ∀ (G : Graph) (R B : List Nat), wfB G = true → Mono G B → HeadsBad G R B →
        (run G R B []).result = some (.found (minimalBad G R B)) := by
  intro h
  have := h diamond diamondRange diamondBad (by decide) diamond_mono diamond_headsBad
  rw [diamond_run, diamond_minimal] at this
  exact absurd this (by decide)

/-- … while the reported commit of the counter-example *is* an earliest bad commit and nothing is
asked twice (this is what the known-finding signature requires). -/
example : (run diamond diamondRange diamondBad []).evals.Nodup ∧
    ∀ r ∈ [2], r ∈ minimalBad diamond diamondRange diamondBad := by decide

/-! ### non-vacuity -/

/-- linear history of 8 commits, range `::7`, first bad commit 5 (as in `test_bisect_linear`) -/
def chain8 : Graph := [[], [0], [1], [2], [3], [4], [5], [6]]

theorem chain8_linear : Linear chain8 := by
  intro a d had hd
  have hd' : d < 8 := by simpa [chain8] using hd
  -- every step down the chain is a parent step
  have step : ∀ k, k + 1 < 8 → Anc chain8 k (k + 1) := by
    intro k hk
    apply Anc.parent
    have : k = 0 ∨ k = 1 ∨ k = 2 ∨ k = 3 ∨ k = 4 ∨ k = 5 ∨ k = 6 := by omega
    rcases this with h | h | h | h | h | h | h <;> subst h <;> simp [parents, chain8]
  induction d with
  | zero => have : a = 0 := by omega
            subst this; exact Anc.refl _
  | succ d ih =>
    by_cases h : a = d + 1
    · subst h; exact Anc.refl _
    · exact (ih (by omega) (by omega) (by omega)).trans (step d hd')

example : run chain8 [0, 1, 2, 3, 4, 5, 6, 7] [5, 6, 7] [] =
    { evals := [3, 5, 4], result := some (.found [5]) } := by decide

example : wfB chain8 = true ∧ minimalBad chain8 [0, 1, 2, 3, 4, 5, 6, 7] [5, 6, 7] = [5] := by decide

/-- instance of `linear_log_steps`: 8 commits, at most 3 evaluations -/
example : (run chain8 [0, 1, 2, 3, 4, 5, 6, 7] [5, 6, 7] []).evals.length ≤ 3 :=
  linear_log_steps (by decide) chain8_linear 3 (by decide)

/-- instance of `complete_unique` / `reported_are_first_bad` on a merge: the only earliest bad
commit is the merge-base side commit 1 -/
example : run diamond diamondRange [1, 2, 5] [] = { evals := [2, 1], result := some (.found [1]) } ∧
    minimalBad diamond diamondRange [1, 2, 5] = [1] := by decide

/-- instance: the diamond with the untestable commit `1` (the range `{1,…,5}` is convex) -/
example : run diamond diamondRange [1, 2, 5] [1] =
    { evals := [2, 1], result := some (.foundDespiteSkips [2] [1]) } := by decide

end JjModel.C37
