import JjModel.Lemmas.ConflictUpdate
import JjModel.Props.C05
/-!
  C06 — An unedited conflicted file is snapshotted as the same conflict; edits to resolved
  regions are applied to every side.

  `updateFromContent` is the model of `conflicts::update_from_content` over a content-addressed
  store (`Model/ConflictUpdate.lean`).  `old` is `files::merge_hunks` of the simplified old
  contents (C04's subject, an input here).  The round trip of the text itself is C05.
-/
namespace JjModel.C06
open JjModel.Conflicts JjModel.Merge JjModel.C05

/-- number of sides of the simplified conflict (the arity `parse_conflict` is asked for) -/
def simplifiedSides (ids : List FileId) : Nat := (simplify ids).length / 2 + 1

/-- text without marker lines is not a conflict -/
theorem parseConflict_plain (c : Bytes) (n len : Nat) (hc : ContentOK len c) :
    parseConflict c n len = none := by
  unfold parseConflict
  split
  · rfl
  · rw [parseLoop_plain n len _ hc]; simp

/-! ### unedited files -/

/-- The `unchanged` branch: whenever the text parses (with the simplified arity) to the hunks the
old contents merge to, the ids are returned *as they were* — including cancelled term pairs that
`simplify` removed and absent sides. -/
theorem unedited_of_parse (ids : List FileId) (text : Bytes) (len : Nat) (hs : List (List Bytes))
    (hp : parseConflict text (simplifiedSides ids) len = some hs) :
    updateFromContent (.conflict hs) ids text len = some ids := by
  unfold simplifiedSides at hp
  simp [updateFromContent, hp]

/-- **unedited_roundtrip** (conflict case), relative to C05: a conflicted file materialized in any
style from well-formed hunks and read back unchanged is recorded as the identical conflict. -/
theorem unedited_roundtrip (diffFn : DiffFn) (hdf : DiffFnOK diffFn) (style : Style)
    (ids : List FileId) (len : Nat) (hs : List (List Bytes)) (labels : List Bytes) (eol : Bytes)
    (hwf : HunksWF (simplifiedSides ids) len hs) (hdw : DiffWF len hs) (hl : LabelsOK labels)
    (he : IsEol eol) :
    updateFromContent (.conflict hs) ids (materializeHunks diffFn hs style len labels eol) len
      = some ids :=
  unedited_of_parse ids _ len hs
    (parse_materialize diffFn hdf style _ len hs labels eol hwf hdw hl he)

/-- **unedited_roundtrip** (the old contents merge cleanly): the file on disk is the merged text;
read back unchanged (and free of marker lines) the ids are kept as they were. -/
theorem unedited_roundtrip_resolved (ids : List FileId) (c : Bytes) (len : Nat)
    (hc : ContentOK len c) : updateFromContent (.resolved c) ids c len = some ids := by
  simp [updateFromContent, parseConflict_plain c _ len hc]

/-! ### all markers removed -/

/-- **resolved_when_no_markers**: content without (valid) markers that differs from the old state
becomes a normal file with exactly that content. -/
theorem resolved_when_no_markers (old : MergeResult) (ids : List FileId) (content : Bytes)
    (len : Nat) (hc : ContentOK len content) (hne : old ≠ .resolved content) :
    updateFromContent old ids content len = some [some content] := by
  unfold updateFromContent
  simp only [parseConflict_plain content _ len hc]
  cases old with
  | resolved o =>
    have : o ≠ content := fun h => hne (by rw [h])
    simp [this]
  | conflict o => simp

/-! ### edits confined to resolved regions -/

/-- the id recorded for simplified side `k` after the edit: its new content, except that an absent
side stays absent iff its new content is empty -/
def newSide (hunks : List (List Bytes)) (k : Nat) (old : FileId) : FileId :=
  if old.isSome || !(sideContent hunks k).isEmpty then some (sideContent hunks k) else none

theorem newIdsFrom_length (hunks : List (List Bytes)) (i : Nat) (l : List FileId) :
    (newIdsFrom hunks i l).length = l.length := by
  induction l generalizing i with
  | nil => rfl
  | cons a l ih => simp [newIdsFrom, ih]

theorem newIdsFrom_get (hunks : List (List Bytes)) (i : Nat) (l : List FileId) (k : Nat) :
    (newIdsFrom hunks i l)[k]? = l[k]?.map (newSide hunks (i + k)) := by
  induction l generalizing i k with
  | nil => simp [newIdsFrom]
  | cons a l ih =>
    cases k with
    | zero => simp [newIdsFrom, newSide]
    | succ k => simp only [newIdsFrom, List.getElem?_cons_succ, ih]; congr 2; omega

/-- a resolved hunk contributes its text to *every* side, an unresolved one its `i`-th term -/
theorem sideContent_cons_resolved (c : Bytes) (rest : List (List Bytes)) (i : Nat) :
    sideContent ([c] :: rest) i = c ++ sideContent rest i := by
  simp [sideContent]

theorem sideContent_append (A B : List (List Bytes)) (i : Nat) :
    sideContent (A ++ B) i = sideContent A i ++ sideContent B i := by
  simp [sideContent]

/-- **the edit is applied to every side**: replacing the text of one resolved hunk `c` by `c'`
replaces exactly that text in the rebuilt content of every side `i`, all conflict terms kept -/
theorem sideContent_edit (A B : List (List Bytes)) (c c' : Bytes) (i : Nat) :
    sideContent (A ++ [c] :: B) i = sideContent A i ++ c ++ sideContent B i ∧
    sideContent (A ++ [c'] :: B) i = sideContent A i ++ c' ++ sideContent B i := by
  simp [sideContent_append, sideContent_cons_resolved]

/-- **edit_resolved_regions**: if the edited file parses (with the simplified arity) to a hunk list
`hs'` different from the old one, the recorded conflict
* has the same (unsimplified) arity as `ids`,
* is untouched at every position outside the simplified mapping (the cancelled pairs), and
* holds at the position of the `k`-th surviving term the side rebuilt from `hs'`
  (`newSide`: resolved hunks to every side, its own terms of the conflict hunks; absent iff empty).
`update_from_simplified`'s assertion cannot fire.  For `hs'` = `hs` with resolved hunks replaced,
`sideContent_edit` says what the rebuilt sides are; that the text of such an `hs'` parses to `hs'`
is C05 (`parse_materialize`). -/
theorem edit_resolved_regions (ids : List FileId) (text : Bytes) (len : Nat)
    (hs hs' : List (List Bytes))
    (hp : parseConflict text (simplifiedSides ids) len = some hs') (hne : hs' ≠ hs) :
    ∃ r, updateFromContent (.conflict hs) ids text len = some r ∧ r.length = ids.length ∧
      (∀ i, i ∉ simplifiedMapping ids → r[i]? = ids[i]?) ∧
      (∀ k, k < (simplify ids).length → ∃ p, (simplifiedMapping ids)[k]? = some p ∧
        r[p]? = (simplify ids)[k]?.map (newSide hs' k)) := by
  have hlenNew := newIdsFrom_length hs' 0 (simplify ids)
  have hgetNew : ∀ k, (newIdsFrom hs' 0 (simplify ids))[k]? = (simplify ids)[k]?.map (newSide hs' k) := by
    intro k; simpa using newIdsFrom_get hs' 0 (simplify ids) k
  unfold simplifiedSides at hp
  have hne' : ¬ (hs = hs') := fun h => hne h.symm
  unfold updateFromContent
  simp only [hp, hne', decide_false, Bool.false_eq_true, if_false]
  by_cases hl : (newIdsFrom hs' 0 (simplify ids)).length ≠ ids.length
  · simp only [hl, ne_eq, not_false_eq_true, if_true]
    obtain ⟨r, hr, hrl, hunt⟩ := updateFromSimplified_spec ids _ hlenNew
    refine ⟨r, hr, hrl, hunt, ?_⟩
    intro k hk
    obtain ⟨p, hp1, hp2⟩ := updateFromSimplified_replaced ids _ r hlenNew hr k (by omega)
    exact ⟨p, hp1, by rw [hp2, hgetNew]⟩
  · have hl' : (newIdsFrom hs' 0 (simplify ids)).length = ids.length := by simpa using hl
    simp only [hl', ne_eq, not_true_eq_false, if_false]
    have hid := simplifiedMapping_id ids (by omega)
    refine ⟨_, rfl, hl', ?_, ?_⟩
    · intro i hi
      have hge : ids.length ≤ i := by
        rw [hid] at hi; simpa using hi
      rw [List.getElem?_eq_none (by omega), List.getElem?_eq_none hge]
    · intro k hk
      refine ⟨k, ?_, hgetNew k⟩
      rw [hid, List.getElem?_range (by omega)]

theorem exists_ite {β : Type} (c : Prop) [Decidable c] (x y : Option β) (hx : ∃ r, x = some r)
    (hy : ∃ r, y = some r) : ∃ r, (if c then x else y) = some r := by
  split <;> assumption

/-- `update_from_content` never runs into the length assertion of `update_from_simplified` -/
theorem update_never_panics (old : MergeResult) (ids : List FileId) (text : Bytes) (len : Nat) :
    ∃ r, updateFromContent old ids text len = some r := by
  unfold updateFromContent
  simp only
  refine exists_ite _ _ _ ⟨_, rfl⟩ ?_
  split
  · exact ⟨_, rfl⟩
  · rename_i hunks _
    refine exists_ite _ _ _ ?_ ⟨_, rfl⟩
    obtain ⟨r, hr, _⟩ := updateFromSimplified_spec ids _ (newIdsFrom_length hunks 0 (simplify ids))
    exact ⟨r, hr⟩

/-- non-vacuity of `edit_resolved_regions`/`unedited_of_parse`: `[x, x, a, b, c]` simplifies to
`[a, b, c]`; the snapshot text of `a`/`b`/`c` parses back -/
example : parseConflict (materializeHunks (fun _ _ => []) [[[97, 10], [98, 10], [99, 10]]] .snapshot 7 [[]] eolLF)
    (simplifiedSides [some [120], some [120], some [97, 10], some [98, 10], some [99, 10]]) 7
    = some [[[97, 10], [98, 10], [99, 10]]] := by decide

end JjModel.C06
