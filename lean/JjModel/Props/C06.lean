import JjModel.Model.ConflictUpdate
namespace JjModel.C06
end JjModel.C06
