import JjModel.Model.Fileset
import JjModel.Lemmas.Fileset
import JjModel.Props.C30
/-!
  C31 — fileset expressions select the paths their definition says.

  `denote e p` (Model/Fileset.lean) is the set semantics of a resolved `FilesetExpression`:
  `FilePath q` = `{q}`, `PrefixPath q` = paths with prefix `q`, `FileGlob dir g` = paths strictly
  below `dir` whose tail satisfies `g`, `PrefixGlob dir g` = the same with `prefixOf g` (some
  non-empty component-aligned prefix of the tail satisfies `g`), `none`/`all`, union, intersection,
  difference (`~x` is parsed to `all() ~ x`).

  `to_matcher_denotes`: the matcher built by `to_matcher` (bucketed leaves, real trees built by
  `add`/`set_value`, balanced union tree) matches exactly `denote e`.  `to_matcher_sound`: it also
  prunes soundly (C30).  Not modelled (text level, exercised by the harness against an independent
  reference evaluator): `fileset::parse`, `FilePattern::from_str_kind`, the literal-prefix split of
  glob patterns, cwd/root path resolution, glob/regex semantics (A5).
-/
namespace JjModel.C31
open JjModel.Matchers JjModel.Fileset

/-! ### the leaf matchers built by the constructors -/

theorem belowMatch_iff (dir : Path) (g : Glob) (p : Path) :
    belowMatch dir g p = true ↔ ∃ tl, p = dir ++ tl ∧ tl ≠ [] ∧ g tl = true := by
  simp only [belowMatch, Bool.and_eq_true, decide_eq_true_eq, List.isPrefixOf_iff_prefix]
  constructor
  · rintro ⟨⟨⟨tl, rfl⟩, hlen⟩, hg⟩
    refine ⟨tl, rfl, ?_, by simpa using hg⟩
    intro h; subst h; simp at hlen
  · rintro ⟨tl, rfl, htl, hg⟩
    refine ⟨⟨⟨tl, rfl⟩, ?_⟩, by simpa using hg⟩
    cases tl with
    | nil => exact absurd rfl htl
    | cons a tl => simp

/-- `FilesMatcher::new(ps).matches(p)` ⇔ `p ∈ ps` -/
theorem files_mat (ps : List Path) (p : Path) : (Matcher.files ps).mat p = ps.contains p := by
  have h := Tree.valueAt_foldl (V := FilesKind) .dir (fun (q : Path) => q) (fun _ => FilesKind.file) ps
    (Tree.empty .dir) p
  simp only [Matcher.files, Matcher.mat, filesMatches_eq, filesNew]
  rw [h, Tree.valueAt_empty]
  by_cases hp : p ∈ ps <;> simp [hp]

/-- `PrefixMatcher::new(ps).matches(p)` ⇔ some `q ∈ ps` is a prefix of `p` -/
theorem prefixes_mat (ps : List Path) (p : Path) :
    (Matcher.prefixes ps).mat p = ps.any (fun q => q.isPrefixOf p) := by
  have h := fun q => Tree.valueAt_foldl (V := PrefixKind) .dir (fun (q : Path) => q)
    (fun _ => PrefixKind.pfx) ps (Tree.empty .dir) q
  simp only [Matcher.prefixes, Matcher.mat, prefixMatches_eq, prefixNew]
  rw [Bool.eq_iff_iff, anyInit_iff]
  simp only [h, Tree.valueAt_empty, List.map_id', List.any_eq_true, List.isPrefixOf_iff_prefix]
  constructor
  · rintro ⟨q, hq, hv⟩
    by_cases hm : q ∈ ps
    · exact ⟨q, hm, hq⟩
    · simp [hm] at hv
  · rintro ⟨q, hm, hq⟩
    exact ⟨q, hq, by simp [hm]⟩

/-- the tree built by `GlobsMatcherBuilder::build` matches `p` ⇔ for some registered `(dir, g)`,
`p` is strictly below `dir` and `g` accepts the tail -/
theorem globsNew_mat (pats : List (Path × Glob)) (p : Path) :
    globsMatches (globsNew pats) p = pats.any (fun x => belowMatch x.1 x.2 p) := by
  have h := fun d => Tree.valueAt_foldl (V := Option Glob) none (fun (x : Path × Glob) => x.1)
    (fun d => some (groupGlob pats d)) pats (Tree.empty none) d
  rw [globsMatches_eq, Bool.eq_iff_iff, anySplit_iff]
  simp only [globsNew, h, Tree.valueAt_empty, List.any_eq_true, belowMatch_iff]
  constructor
  · rintro ⟨d, tl, hp, htl, hv⟩
    by_cases hm : d ∈ pats.map (fun x => x.1)
    · simp only [hm, if_true, groupGlob, List.any_eq_true, List.mem_filter] at hv
      obtain ⟨x, ⟨hx, hd⟩, hg⟩ := hv
      have : x.1 = d := by simpa using hd
      exact ⟨x, hx, tl, by rw [this]; exact hp, htl, hg⟩
    · simp [hm] at hv
  · rintro ⟨x, hx, tl, hp, htl, hg⟩
    refine ⟨x.1, tl, hp, htl, ?_⟩
    have hm : x.1 ∈ pats.map (fun x => x.1) := List.mem_map.mpr ⟨x, hx, rfl⟩
    simp only [hm, if_true, groupGlob, List.any_eq_true, List.mem_filter]
    exact ⟨x, ⟨hx, by simp⟩, hg⟩

theorem globs_mat (pfx : Bool) (pats : List (Path × Glob)) (p : Path) :
    (Matcher.globs pfx pats).mat p =
      pats.any (fun x => belowMatch x.1 (if pfx then prefixOf x.2 else x.2) p) := by
  cases pfx <;> simp [Matcher.globs, Matcher.mat, globsBuild, globsNew_mat, List.any_map, Function.comp_def]

/-! ### the union tree -/

/-- `union_all_matchers` matches what some input matches, whatever the tree shape -/
theorem unionAll_mat (ms : List Matcher) (p : Path) :
    (unionAllMatchers ms).mat p = ms.any (fun m => m.mat p) := by
  fun_induction unionAllMatchers ms with
  | case1 => simp [Matcher.mat]
  | case2 m => simp
  | case3 m1 m2 rest n ih1 ih2 =>
    simp only [Matcher.mat, ih1, ih2, ← List.any_append, List.take_append_drop]

theorem foldl_union_mat (ms : List Matcher) (acc : Matcher) (p : Path) :
    (ms.foldl Matcher.unionM acc).mat p = (acc.mat p || ms.any (fun m => m.mat p)) := by
  induction ms generalizing acc with
  | nil => simp
  | cons m ms ih => simp [ih, Matcher.mat, Bool.or_assoc]

/-- the balanced union tree and the left-nested union chain match the same paths -/
theorem union_tree_shape_irrelevant (ms : List Matcher) (p : Path) :
    (unionAllMatchers ms).mat p = (ms.foldl Matcher.unionM .nothingM).mat p := by
  rw [unionAll_mat, foldl_union_mat]; simp [Matcher.mat]

/-! ### buckets -/

/-- what the four buckets denote together -/
def bucketsDenote (ps : List FilePattern) (p : Path) : Bool :=
  (filePaths ps).contains p || (prefixPaths ps).any (fun (q : Path) => q.isPrefixOf p) ||
  (fileGlobs ps).any (fun x => belowMatch x.1 x.2 p) ||
  (prefixGlobs ps).any (fun x => belowMatch x.1 (prefixOf x.2) p)

theorem bucketsDenote_eq (ps : List FilePattern) (p : Path) :
    bucketsDenote ps p = ps.any (fun x => x.denote p) := by
  induction ps with
  | nil => simp [bucketsDenote, filePaths, prefixPaths, fileGlobs, prefixGlobs]
  | cons x ps ih =>
    rw [List.any_cons, ← ih]
    cases x with
    | filePath q =>
      have e1 : filePaths (.filePath q :: ps) = q :: filePaths ps := rfl
      have e2 : prefixPaths (.filePath q :: ps) = prefixPaths ps := rfl
      have e3 : fileGlobs (.filePath q :: ps) = fileGlobs ps := rfl
      have e4 : prefixGlobs (.filePath q :: ps) = prefixGlobs ps := rfl
      simp only [bucketsDenote, e1, e2, e3, e4, List.contains_cons, FilePattern.denote]
      ac_rfl
    | prefixPath q =>
      have e1 : filePaths (.prefixPath q :: ps) = filePaths ps := rfl
      have e2 : prefixPaths (.prefixPath q :: ps) = q :: prefixPaths ps := rfl
      have e3 : fileGlobs (.prefixPath q :: ps) = fileGlobs ps := rfl
      have e4 : prefixGlobs (.prefixPath q :: ps) = prefixGlobs ps := rfl
      simp only [bucketsDenote, e1, e2, e3, e4, List.any_cons, FilePattern.denote]
      ac_rfl
    | fileGlob d g =>
      have e1 : filePaths (.fileGlob d g :: ps) = filePaths ps := rfl
      have e2 : prefixPaths (.fileGlob d g :: ps) = prefixPaths ps := rfl
      have e3 : fileGlobs (.fileGlob d g :: ps) = (d, g) :: fileGlobs ps := rfl
      have e4 : prefixGlobs (.fileGlob d g :: ps) = prefixGlobs ps := rfl
      simp only [bucketsDenote, e1, e2, e3, e4, List.any_cons, FilePattern.denote]
      ac_rfl
    | prefixGlob d g =>
      have e1 : filePaths (.prefixGlob d g :: ps) = filePaths ps := rfl
      have e2 : prefixPaths (.prefixGlob d g :: ps) = prefixPaths ps := rfl
      have e3 : fileGlobs (.prefixGlob d g :: ps) = fileGlobs ps := rfl
      have e4 : prefixGlobs (.prefixGlob d g :: ps) = (d, g) :: prefixGlobs ps := rfl
      simp only [bucketsDenote, e1, e2, e3, e4, List.any_cons, FilePattern.denote]
      ac_rfl

/-- the matchers pushed for the non-empty buckets match what the bucketed patterns denote -/
theorem bucket_mat (ps : List FilePattern) (p : Path) :
    (bucketMatchers ps).any (fun m => m.mat p) = ps.any (fun x => x.denote p) := by
  rw [← bucketsDenote_eq]
  simp only [bucketMatchers, List.any_append, bucketsDenote]
  congr 1
  · congr 1
    · congr 1
      · cases h : filePaths ps with
        | nil => simp
        | cons a l => simp [files_mat]
      · cases h : prefixPaths ps with
        | nil => simp
        | cons a l => simp [prefixes_mat]
    · cases h : fileGlobs ps with
      | nil => simp
      | cons a l => simp [globs_mat]
  · cases h : prefixGlobs ps with
    | nil => simp
    | cons a l => simp [globs_mat]

theorem finish_mat (ms : List Matcher) (ps : List FilePattern) (p : Path) :
    (finish ms ps).mat p = (ms.any (fun m => m.mat p) || ps.any (fun x => x.denote p)) := by
  simp [finish, unionAll_mat, List.any_append, bucket_mat]

/-! ### the theorem -/

mutual
/-- **C31.** `to_matcher()` matches exactly the paths the expression denotes. -/
theorem to_matcher_denotes : ∀ (e : FExpr) (p : Path), (toMatcher e).mat p = denote e p
  | .none, p => by simp [toMatcher, finish_mat, denote]
  | .all, p => by simp [toMatcher, finish_mat, denote, Matcher.mat]
  | .pattern x, p => by simp [toMatcher, finish_mat, denote]
  | .unionAll es, p => by simp [toMatcher, finish_mat, denote, elems_denote es p]
  | .inter a b, p => by
    simp [toMatcher, finish_mat, denote, Matcher.mat, to_matcher_denotes a p, to_matcher_denotes b p]
  | .diff a b, p => by
    simp [toMatcher, finish_mat, denote, Matcher.mat, to_matcher_denotes a p, to_matcher_denotes b p]
/-- the loop of `build_union_matcher`: pushed matchers and bucketed patterns together denote the union -/
theorem elems_denote : ∀ (es : FExprs) (p : Path),
    ((elemMatchers es).any (fun m => m.mat p) || (patternsOf es).any (fun x => x.denote p)) = denoteAny es p
  | .nil, p => by simp [elemMatchers, patternsOf, denoteAny]
  | .cons .none es, p => by
    simp [elemMatchers, patternsOf, denoteAny, denote, Matcher.mat, ← elems_denote es p]
  | .cons .all es, p => by
    simp [elemMatchers, patternsOf, denoteAny, denote, Matcher.mat, ← elems_denote es p]
  | .cons (.pattern x) es, p => by
    simp only [elemMatchers, patternsOf, denoteAny, denote, List.any_cons, ← elems_denote es p]
    generalize (elemMatchers es).any _ = a
    generalize (patternsOf es).any _ = b
    cases a <;> cases b <;> simp
  | .cons (.unionAll es') es, p => by
    simp only [elemMatchers, patternsOf, denoteAny, denote, List.any_cons, finish_mat,
      ← elems_denote es p, ← elems_denote es' p, Bool.or_assoc]
  | .cons (.inter a b) es, p => by
    simp only [elemMatchers, patternsOf, denoteAny, denote, List.any_cons, Matcher.mat,
      to_matcher_denotes a p, to_matcher_denotes b p, ← elems_denote es p, Bool.or_assoc]
  | .cons (.diff a b) es, p => by
    simp only [elemMatchers, patternsOf, denoteAny, denote, List.any_cons, Matcher.mat,
      to_matcher_denotes a p, to_matcher_denotes b p, ← elems_denote es p, Bool.or_assoc]
end

/-! ### soundness of the produced matcher (corollary of C30) -/

theorem unionAll_wf (ms : List Matcher) (h : ∀ m ∈ ms, m.WF) : (unionAllMatchers ms).WF := by
  fun_induction unionAllMatchers ms with
  | case1 => trivial
  | case2 m => exact h m (by simp)
  | case3 m1 m2 rest n ih1 ih2 =>
    exact ⟨ih1 (fun m hm => h m (List.mem_of_mem_take hm)), ih2 (fun m hm => h m (List.mem_of_mem_drop hm))⟩

theorem bucket_wf (ps : List FilePattern) (h : ∀ x ∈ ps, x.EmptyOk) : ∀ m ∈ bucketMatchers ps, m.WF := by
  intro m hm
  simp only [bucketMatchers, List.mem_append] at hm
  rcases hm with ((hm | hm) | hm) | hm
  · split at hm <;> simp at hm; subst hm; trivial
  · split at hm <;> simp at hm; subst hm; trivial
  · split at hm <;> simp at hm; subst hm; trivial
  · split at hm <;> simp at hm
    subst hm
    apply C30.globs_wf
    intro x hx
    simp only [prefixGlobs, List.mem_filterMap] at hx
    obtain ⟨y, hy, hyx⟩ := hx
    cases y <;> simp at hyx
    subst hyx
    exact h _ hy

theorem finish_wf (ms : List Matcher) (ps : List FilePattern) (h1 : ∀ m ∈ ms, m.WF)
    (h2 : ∀ x ∈ ps, x.EmptyOk) : (finish ms ps).WF := by
  apply unionAll_wf
  intro m hm
  rcases List.mem_append.mp hm with hm | hm
  · exact h1 m hm
  · exact bucket_wf ps h2 m hm

mutual
theorem toMatcher_wf : ∀ (e : FExpr), e.EmptyOk → (toMatcher e).WF
  | .none, _ => by simp [toMatcher]; exact finish_wf _ _ (by simp) (by simp)
  | .all, _ => by
    simp only [toMatcher]; exact finish_wf _ _ (by intro m hm; simp at hm; subst hm; trivial) (by simp)
  | .pattern x, h => by
    simp only [toMatcher]
    exact finish_wf _ _ (by simp) (by intro y hy; simp at hy; subst hy; exact h)
  | .unionAll es, h => by
    simp only [toMatcher]
    exact finish_wf _ _ (elems_wf es h).1 (elems_wf es h).2
  | .inter a b, h => by
    simp only [toMatcher]
    exact finish_wf _ _ (by intro m hm; simp at hm; subst hm; exact ⟨toMatcher_wf a h.1, toMatcher_wf b h.2⟩) (by simp)
  | .diff a b, h => by
    simp only [toMatcher]
    exact finish_wf _ _ (by intro m hm; simp at hm; subst hm; exact ⟨toMatcher_wf a h.1, toMatcher_wf b h.2⟩) (by simp)
theorem elems_wf : ∀ (es : FExprs), es.EmptyOk →
    (∀ m ∈ elemMatchers es, m.WF) ∧ (∀ x ∈ patternsOf es, x.EmptyOk)
  | .nil, _ => by simp [elemMatchers, patternsOf]
  | .cons .none es, h => by
    have ih := elems_wf es h.2
    refine ⟨?_, by simpa [patternsOf] using ih.2⟩
    intro m hm; simp only [elemMatchers, List.mem_cons] at hm
    rcases hm with rfl | hm
    · trivial
    · exact ih.1 m hm
  | .cons .all es, h => by
    have ih := elems_wf es h.2
    refine ⟨?_, by simpa [patternsOf] using ih.2⟩
    intro m hm; simp only [elemMatchers, List.mem_cons] at hm
    rcases hm with rfl | hm
    · trivial
    · exact ih.1 m hm
  | .cons (.pattern x) es, h => by
    have ih := elems_wf es h.2
    refine ⟨by simpa [elemMatchers] using ih.1, ?_⟩
    intro y hy; simp only [patternsOf, List.mem_cons] at hy
    rcases hy with rfl | hy
    · exact h.1
    · exact ih.2 y hy
  | .cons (.unionAll es') es, h => by
    have ih := elems_wf es h.2
    have ih' := elems_wf es' h.1
    refine ⟨?_, by simpa [patternsOf] using ih.2⟩
    intro m hm; simp only [elemMatchers, List.mem_cons] at hm
    rcases hm with rfl | hm
    · exact finish_wf _ _ ih'.1 ih'.2
    · exact ih.1 m hm
  | .cons (.inter a b) es, h => by
    have ih := elems_wf es h.2
    refine ⟨?_, by simpa [patternsOf] using ih.2⟩
    intro m hm; simp only [elemMatchers, List.mem_cons] at hm
    rcases hm with rfl | hm
    · exact ⟨toMatcher_wf a h.1.1, toMatcher_wf b h.1.2⟩
    · exact ih.1 m hm
  | .cons (.diff a b) es, h => by
    have ih := elems_wf es h.2
    refine ⟨?_, by simpa [patternsOf] using ih.2⟩
    intro m hm; simp only [elemMatchers, List.mem_cons] at hm
    rcases hm with rfl | hm
    · exact ⟨toMatcher_wf a h.1.1, toMatcher_wf b h.1.2⟩
    · exact ih.1 m hm
end

/-- The matcher produced by `to_matcher` prunes soundly (C30), provided every prefix glob that
accepts the empty string accepts every single component. -/
theorem to_matcher_sound (e : FExpr) (h : e.EmptyOk) : Sound (toMatcher e) :=
  C30.sound_expr _ (toMatcher_wf e h)

/-! ### non-vacuity -/

/-- `a/* | ~root:"b"` style expression: `(fileGlob [0] (len = 1)) ∪ (all − prefix [1])` -/
example :
    let e : FExpr := .unionAll (.cons (.pattern (.fileGlob [0] (fun t => t.length == 1)))
              (.cons (.diff .all (.pattern (.prefixPath [1]))) .nil))
    (denote e [0, 5], denote e [1, 5], denote e [2], denote e [1]) = (true, false, true, false) := by
  decide

end JjModel.C31
