import JjModel.Lemmas.DiffSolid
import JjModel.Lemmas.DiffOrder
/-!
  C03 — Content diffs partition their inputs deterministically.

  The theorems are about the executable definitions of `Model/Diff.lean` that the driver runs
  (`hunkRangesOf`, `ContentDiff.hunks`, `compact`, `build`, …).
-/
namespace JjModel.C03
open JjModel.Diff

/-- **Reconstruction, range form.**  For well-formed regions the byte ranges of side `i` across the
hunk stream concatenate to the whole input `i`. -/
theorem hunk_ranges_reconstruct (inputs : List Bytes) (regions : List Region)
    (h : RegionsWF inputs regions) (i : Nat) (hi : i < inputs.length) :
    (hunkRangesOf regions).flatMap (fun hk => slice (inputs.getD i []) (hk.ranges.getD i ⟨0, 0⟩))
      = inputs.getD i [] :=
  hunkRangesOf_side (inputs.getD i []) i regions (fun r hr => by rw [h.arity r hr]; exact hi) (h.sides i hi)

/-- **Reconstruction (a).**  Concatenating input `i`'s slices across the hunks of a diff whose
unchanged regions are well formed reproduces input `i` byte for byte. -/
theorem hunks_reconstruct (d : ContentDiff) (h : RegionsWF d.inputs d.regions) (i : Nat)
    (hi : i < d.inputs.length) :
    d.hunks.flatMap (fun hk => hk.2.getD i []) = d.inputs.getD i [] := by
  have key := hunk_ranges_reconstruct d.inputs d.regions h i hi
  have har := hunkRangesOf_arity d.inputs.length d.regions h.arity
  rw [← key]
  unfold ContentDiff.hunks ContentDiff.hunkRanges
  rw [List.flatMap_map]
  apply flatMap_congr_mem
  intro hk hmem
  exact getD_zipWith slice d.inputs hk.ranges i [] ⟨0, 0⟩ [] hi (by rw [har hk hmem]; exact hi)

/-- every hunk has one range (one content) per input -/
theorem hunks_arity (d : ContentDiff) (h : RegionsWF d.inputs d.regions) :
    ∀ hk ∈ d.hunkRanges, hk.ranges.length = d.inputs.length :=
  hunkRangesOf_arity d.inputs.length d.regions h.arity

/-- **Alternation (b).**  If no region other than the first and the last is empty on every side,
matching and differing hunks strictly alternate. -/
theorem hunks_alternate (regions : List Region) (h : interiorNonEmptyb regions = true) :
    Alternates (hunkRangesOf regions) :=
  hunkRangesOf_alternates regions h

/-- **No empty hunk (b).**  For well-formed, compacted regions no hunk is empty on every side. -/
theorem hunk_nonempty (inputs : List Bytes) (regions : List Region) (h : RegionsWF inputs regions)
    (hc : compactedb regions = true) :
    ∀ hk ∈ hunkRangesOf regions, isAllEmpty hk.ranges = false := by
  cases regions with
  | nil => simp [hunkRangesOf]
  | cons first rest =>
    have hrest := hunksFrom_nonempty inputs.length (fun i => (inputs.getD i []).length) rest first
      (h.arity first (by simp)) (fun r hr => h.arity r (by simp [hr]))
      (fun i hi => by
        have := h.sides i hi
        simp only [side, List.map_cons, sideOK, Bool.and_eq_true] at this
        exact this.2) hc
    intro hk hmem
    rw [hunkRangesOf] at hmem
    split at hmem
    · exact hrest hk hmem
    · rename_i hne
      simp only [List.mem_cons] at hmem
      rcases hmem with rfl | hmem
      · simpa using hne
      · exact hrest hk hmem

/-! ### (d) the model's own regions are well formed — end-to-end statements -/

/-- **Well-formedness (d).**  Every diff built through the public constructors (`for_tokenizer`
followed by any number of `refine_changed_regions`, any tokenizer, any comparator) has well-formed
unchanged regions: tokens are sorted and disjoint (`tokenizer_ok`), the histogram/LCS positions
increase strictly on both sides (`unchangedWords_ok`, via `findLcs_ok`), intersection keeps
sub-sequences, compaction and refinement preserve the chain. -/
theorem diff_regions_wf (inputs : List Bytes) (steps : List (Tokenizer × Compare)) (d : ContentDiff)
    (h : build inputs steps = some d) : d.inputs = inputs ∧ RegionsWF inputs d.regions :=
  build_wf inputs steps d h

/-- **Reconstruction, end to end.**  For any inputs, tokenizer and comparison, the hunks of the diff
partition every input: concatenating input `i`'s slices reproduces it byte for byte. -/
theorem diff_hunks_reconstruct (inputs : List Bytes) (steps : List (Tokenizer × Compare)) (d : ContentDiff)
    (h : build inputs steps = some d) (i : Nat) (hi : i < inputs.length) :
    d.hunks.flatMap (fun hk => hk.2.getD i []) = inputs.getD i [] := by
  obtain ⟨e, w⟩ := build_wf inputs steps d h
  have := hunks_reconstruct d (by rw [e]; exact w) i (by rw [e]; exact hi)
  rw [e] at this; exact this

/-- **No empty hunk, end to end.** -/
theorem diff_hunk_nonempty (inputs : List Bytes) (steps : List (Tokenizer × Compare)) (d : ContentDiff)
    (h : build inputs steps = some d) : ∀ hk ∈ d.hunkRanges, isAllEmpty hk.ranges = false :=
  hunk_nonempty inputs d.regions (build_wf inputs steps d h).2 (build_compacted inputs steps d h)

/-- a diff exists for every non-empty input list (the `expect("inputs must not be empty")`) -/
theorem build_isSome (inputs : List Bytes) (s : Tokenizer × Compare) (steps : List (Tokenizer × Compare))
    (h : inputs ≠ []) : ∃ d, build inputs (s :: steps) = some d := by
  obtain ⟨d0, hd0⟩ := forTokenizer_isSome inputs s.1 s.2 h
  exact ⟨steps.foldl (fun d s => d.refine s.1 s.2) d0, by simp [build, hd0]⟩

/-! ### (b) alternation, end to end -/

/-- every interior unchanged region of a built diff is non-empty (even on the base side) -/
theorem diff_interior_nonempty (inputs : List Bytes) (steps : List (Tokenizer × Compare)) (d : ContentDiff)
    (h : build inputs steps = some d) : interiorNonEmptyb d.regions = true :=
  interiorSolid_nonEmpty _ (build_interiorSolid inputs steps d h)

/-- **Alternation, end to end.**  For any inputs, tokenizers and comparisons, matching and differing
hunks never appear twice in a row.  (Tokens are non-empty, so interior regions of `for_tokenizer`
have a non-empty base range; the empty first/last regions of every refined sub-diff touch their
neighbours and are merged by `compact_unchanged_regions`: `refineGo_runsGood`, `compactGo_solid`.) -/
theorem diff_hunks_alternate (inputs : List Bytes) (steps : List (Tokenizer × Compare)) (d : ContentDiff)
    (h : build inputs steps = some d) : Alternates d.hunkRanges :=
  hunks_alternate d.regions (diff_interior_nonempty inputs steps d h)

/-! ### (c) matching hunks are equal under the comparison -/

/-- **Matching hunks are equal (c), end to end.**  `c0` is any comparison at least as weak as every
comparison used by the construction steps (`exact ⊆ ignoreWsAmount ⊆ ignoreAllWs`; for the usual
uniform choice `c0` is that comparison).  In every matching hunk all contents are equal under `c0`.
Ingredients: matched token positions join equal words (`unchangedWords_ok`), the comparisons are
congruences for concatenation (`norm_append_congr`, needed because compaction glues adjacent
tokens), refinement works on slices of slices (`slice_slice`). -/
theorem matching_equal (c0 : Compare) (inputs : List Bytes) (steps : List (Tokenizer × Compare))
    (hle : ∀ s ∈ steps, s.2.le c0 = true) (d : ContentDiff) (h : build inputs steps = some d) :
    ∀ hk ∈ d.hunks, hk.1 = .matching → ∀ i j, i < inputs.length → j < inputs.length →
      c0.eq (hk.2.getD i []) (hk.2.getD j []) = true := by
  obtain ⟨e, w⟩ := build_wf inputs steps d h
  have hm := build_match c0 inputs steps hle d h
  intro hk hmem hkind i j hi hj
  simp only [ContentDiff.hunks, List.mem_map] at hmem
  obtain ⟨hr, hrmem, rfl⟩ := hmem
  have hreg : hr.ranges ∈ d.regions := hunkRangesOf_matching_mem d.regions hr hrmem hkind
  have har : hr.ranges.length = inputs.length := w.arity _ hreg
  have hslice : ∀ k, k < inputs.length →
      (List.zipWith slice d.inputs hr.ranges).getD k [] = slice (inputs.getD k []) (hr.ranges.getD k ⟨0, 0⟩) := by
    intro k hk
    rw [e]
    exact getD_zipWith slice inputs hr.ranges k [] ⟨0, 0⟩ [] hk (by rw [har]; exact hk)
  simp only [Compare.eq, decide_eq_true_eq, hslice i hi, hslice j hj]
  rw [hm _ hreg i hi, hm _ hreg j hj]

/-- the comparisons are congruences for concatenation -/
theorem compare_congruence (c : Compare) (a a' b b' : Bytes) (ha : c.eq a a' = true) (hb : c.eq b b' = true) :
    c.eq (a ++ b) (a' ++ b') = true := by
  simp only [Compare.eq, decide_eq_true_eq] at *
  exact norm_append_congr c a a' b b' ha hb

/-! ### (e) determinism -/

/-- **Determinism (e).**  The model is a function, so the hunks are a function of the inputs; what
needs an argument is that the model's *choice* of a hash-table iteration order (first occurrence)
is immaterial.  The iteration order of `Histogram::word_to_positions` reaches the algorithm only
through the order in which the shared occurrences `pairs` are enumerated (the `serial` numbers):
the selected count class and the set of pairs are order-independent.  For any two enumerations of
the same pairs, the sorted position lists, `left_index_by_right_index`, the LCS and the emitted
positions coincide. -/
theorem serial_order_irrelevant {α : Type} [DecidableEq α]
    (rec : List α → List α → Nat → Nat → List (Nat × Nat)) (left right : List α) (lo ro : Nat)
    (pairs pairs' : List (Nat × Nat)) (hp : pairs.Perm pairs')
    (h1 : (pairs.map Prod.fst).Nodup) (h2 : (pairs.map Prod.snd).Nodup) :
    lcsWalk rec left right lo ro (sortByFst (withSerialFrom 0 (pairs.map Prod.fst)))
        (sortByFst (withSerialFrom 0 (pairs.map Prod.snd)))
        (findLcs (leftIndexByRightIndex (sortByFst (withSerialFrom 0 (pairs.map Prod.fst)))
          (sortByFst (withSerialFrom 0 (pairs.map Prod.snd))))) 0 0 =
      lcsWalk rec left right lo ro (sortByFst (withSerialFrom 0 (pairs'.map Prod.fst)))
        (sortByFst (withSerialFrom 0 (pairs'.map Prod.snd)))
        (findLcs (leftIndexByRightIndex (sortByFst (withSerialFrom 0 (pairs'.map Prod.fst)))
          (sortByFst (withSerialFrom 0 (pairs'.map Prod.snd))))) 0 0 :=
  lcs_step_order_irrelevant rec left right lo ro pairs pairs' hp h1 h2

example : leftIndexByRightIndex (sortByFst (withSerialFrom 0 [3, 1, 5])) (sortByFst (withSerialFrom 0 [2, 7, 0]))
    = leftIndexByRightIndex (sortByFst (withSerialFrom 0 [5, 3, 1])) (sortByFst (withSerialFrom 0 [0, 2, 7])) := by
  decide

/-! ### non-vacuity -/

/-- `a\nb\nc\n` vs `a\nx\nc\n` by line: regions `0..0 | 0..2 | 4..6 | 6..6` compacted -/
example : RegionsWF [[97, 10, 98, 10, 99, 10], [97, 10, 120, 10, 99, 10]]
    [[⟨0, 2⟩, ⟨0, 2⟩], [⟨4, 6⟩, ⟨4, 6⟩]] := by decide

example : (build [[97, 10, 98, 10, 99, 10], [97, 10, 120, 10, 99, 10]] [(.line, .exact)]).map (·.regions)
    = some [[⟨0, 2⟩, ⟨0, 2⟩], [⟨4, 6⟩, ⟨4, 6⟩]] := by decide

example : interiorNonEmptyb [[⟨0, 2⟩, ⟨0, 2⟩], [⟨3, 3⟩, ⟨2, 4⟩], [⟨4, 6⟩, ⟨4, 6⟩]] = true ∧
    compactedb [[⟨0, 2⟩, ⟨0, 2⟩], [⟨3, 3⟩, ⟨2, 4⟩], [⟨4, 6⟩, ⟨4, 6⟩]] = true := by decide

end JjModel.C03
