import JjModel.Lemmas.Path
/-!
  C32 — Workspace path conversion is lossless and confined (Unix rules).

  `FsName n`: `n` is a plain file name (non-empty, no `/`, not `.` or `..`).
  `repoComponents p`: the components of a repository path (internal string split at `/`).
-/
namespace JjModel.C32
open JjModel.Path

/-! ### helper facts about the conversion loops -/

theorem collectNormal_ok (cs : List Comp) (names : List Str) (h : collectNormal cs = .ok names) :
    cs = names.map .normal := by
  induction cs generalizing names with
  | nil => simp [collectNormal] at h; subst h; rfl
  | cons c cs ih =>
    cases c with
    | normal s =>
      simp only [collectNormal] at h
      cases hr : collectNormal cs with
      | error e => simp [hr] at h
      | ok ns =>
        simp [hr] at h
        subst h
        rw [ih ns hr]; rfl
    | root => simp [collectNormal] at h
    | cur => simp [collectNormal] at h
    | parent => simp [collectNormal] at h

theorem collectNormal_map (names : List Str) : collectNormal (names.map .normal) = .ok names := by
  induction names with
  | nil => rfl
  | cons n rest ih => simp [collectNormal, ih]

theorem collectNormal_error_of_mem (cs : List Comp) (c : Comp) (hc : c ∈ cs)
    (hn : ∀ s, c ≠ .normal s) : ∃ e, collectNormal cs = .error e := by
  cases hr : collectNormal cs with
  | error e => exact ⟨e, rfl⟩
  | ok names =>
    have := collectNormal_ok cs names hr
    rw [this] at hc
    obtain ⟨s, _, rfl⟩ := List.mem_map.mp hc
    exact absurd rfl (hn s)

theorem repoComponents_joinSlash (names : List Str) (h : ∀ n ∈ names, FsName n) :
    repoComponents (joinSlash names) = names := by
  cases names with
  | nil => rfl
  | cons n rest =>
    have hne : joinSlash (n :: rest) ≠ [] := by
      obtain ⟨c, n', rfl⟩ := List.exists_cons_of_ne_nil (h n (by simp)).1
      cases rest <;> simp [joinSlash]
    simp only [repoComponents, hne, if_false]
    exact splitSlash_joinSlash _ (by simp) (fun x hx => (h x hx).2.1)

theorem joinSlash_repoComponents (p : Str) : joinSlash (repoComponents p) = p := by
  unfold repoComponents
  split
  · rename_i h; subst h; rfl
  · exact joinSlash_splitSlash p

theorem toFsName_fsName {n : Str} (h : FsName n) : toFsName n = some n := by
  have : components n = [.normal n] := by
    have := components_names [n] (by simpa using h)
    simpa [joinSlash] using this
  simp [toFsName, this]

theorem fsName_of_toFsName {c n : Str} (h : toFsName c = some n) : FsName c ∧ n = c := by
  unfold toFsName at h
  split at h
  · rename_i name hc
    split at h
    · rename_i hn
      subst hn
      injection h with h
      refine ⟨?_, h.symm⟩
      apply fsName_of_mem_components name name
      rw [hc]; simp
    · simp at h
  · simp at h

/-- the loop of `to_fs_path`: succeeds iff every component is a plain name, and then it is the
buffer with the names pushed one by one -/
theorem pushNames_ok (buf : Str) (names : List Str) (f : Str) (h : pushNames buf names = .ok f) :
    (∀ n ∈ names, FsName n) ∧ f = names.foldl push buf := by
  induction names generalizing buf with
  | nil => simp [pushNames] at h; subst h; simp
  | cons c rest ih =>
    simp only [pushNames] at h
    cases hc : toFsName c with
    | none => simp [hc] at h
    | some n =>
      simp only [hc] at h
      obtain ⟨hfs, rfl⟩ := fsName_of_toFsName hc
      obtain ⟨h1, h2⟩ := ih _ h
      refine ⟨?_, by simpa using h2⟩
      intro x hx
      rcases List.mem_cons.mp hx with rfl | hx
      · exact hfs
      · exact h1 x hx

theorem pushNames_of_fsNames (buf : Str) (names : List Str) (h : ∀ n ∈ names, FsName n) :
    pushNames buf names = .ok (names.foldl push buf) := by
  induction names generalizing buf with
  | nil => rfl
  | cons c rest ih =>
    simp only [pushNames, toFsName_fsName (h c (by simp)), List.foldl_cons]
    exact ih _ (fun x hx => h x (by simp [hx]))

theorem pushNames_invalid_of_mem (buf : Str) (names : List Str) (c : Str) (hc : c ∈ names)
    (hbad : ¬ FsName c) : ∃ c', pushNames buf names = .invalid c' ∧ ¬ FsName c' := by
  induction names generalizing buf with
  | nil => simp at hc
  | cons d rest ih =>
    simp only [pushNames]
    cases hd : toFsName d with
    | none =>
      refine ⟨d, rfl, ?_⟩
      intro hfs; rw [toFsName_fsName hfs] at hd; simp at hd
    | some n =>
      simp only
      rcases List.mem_cons.mp hc with rfl | hc
      · exact absurd (fsName_of_toFsName hd).1 hbad
      · exact ih _ hc

theorem components_foldl_push (buf : Str) (names : List Str) (h : ∀ n ∈ names, FsName n) :
    components (names.foldl push buf) = components buf ++ names.map .normal := by
  induction names generalizing buf with
  | nil => simp
  | cons n rest ih =>
    rw [List.foldl_cons, ih _ (fun x hx => h x (by simp [hx])),
      components_push_name buf n (h n (by simp))]
    simp

/-! ### `from_relative_path` -/

/-- A successful `from_relative_path` yields a repository path whose components are plain
names: non-empty, without `/`, none of `.` / `..`; and they are exactly the (all `Normal`)
components of the input — or the input is `.` and the result is the root. -/
theorem from_relative_valid (f p : Str) (h : fromRelativePath f = .ok p) :
    ∃ names, (∀ n ∈ names, FsName n) ∧ repoComponents p = names ∧ p = joinSlash names ∧
      (components f = names.map .normal ∨ (components f = [.cur] ∧ names = [])) := by
  unfold fromRelativePath at h
  simp only at h
  split at h
  · rename_i hc
    injection h with h; subst h
    exact ⟨[], by simp, rfl, rfl, Or.inr ⟨hc, rfl⟩⟩
  · cases hr : collectNormal (components f) with
    | error e => simp [hr] at h
    | ok names =>
      simp only [hr] at h
      injection h with h; subst h
      have hcs := collectNormal_ok _ _ hr
      have hfs : ∀ n ∈ names, FsName n := by
        intro n hn
        apply fsName_of_mem_components f n
        rw [hcs]; exact List.mem_map.mpr ⟨n, hn, rfl⟩
      exact ⟨names, hfs, repoComponents_joinSlash names hfs, rfl, Or.inl hcs⟩

/-- Inputs with a root or a `..` component are rejected. -/
theorem from_relative_rejects (f : Str) (c : Comp) (hc : c ∈ components f)
    (h : c = .root ∨ c = .parent) : ∃ e, fromRelativePath f = .invalidComponent e := by
  unfold fromRelativePath
  simp only
  have hne : components f ≠ [.cur] := by
    intro e; rw [e] at hc; simp at hc; rcases h with h | h <;> simp [hc] at h
  obtain ⟨e, he⟩ := collectNormal_error_of_mem _ c hc (by rcases h with rfl | rfl <;> simp)
  simp [hne, he]

/-- A leading `./` is rejected unless the path is exactly `.` (component-wise). -/
theorem from_relative_rejects_cur (f : Str) (rest : List Comp) (hc : components f = .cur :: rest)
    (hr : rest ≠ []) : fromRelativePath f = .invalidComponent dot := by
  unfold fromRelativePath
  simp only
  have hne : components f ≠ [.cur] := by rw [hc]; simpa using hr
  simp [hc, hr, collectNormal, Comp.str]

/-! ### repo → fs → repo -/

/-- `to_fs_path` accepts a repository path iff all its components are plain names; the result
is the base with exactly those names appended (it never contains `..` or leaves `base`). -/
theorem to_fs_path_confined (p base f : Str) (h : toFsPath p base = .ok f) :
    (∀ n ∈ repoComponents p, FsName n) ∧
    ((base = [] ∧ p = [] ∧ f = dot) ∨
     (f = (repoComponents p).foldl push base ∧
      components f = components base ++ (repoComponents p).map .normal)) := by
  unfold toFsPath at h
  cases hp : pushNames base (repoComponents p) with
  | invalid c => simp [hp] at h
  | ok result =>
    simp only [hp] at h
    obtain ⟨hfs, hres⟩ := pushNames_ok _ _ _ hp
    refine ⟨hfs, ?_⟩
    split at h
    · rename_i hempty
      injection h with h
      left
      subst hempty
      have hn : repoComponents p = [] := by
        cases hrc : repoComponents p with
        | nil => rfl
        | cons n rest =>
          exfalso
          have hc := components_foldl_push base (repoComponents p) hfs
          rw [← hres, hrc] at hc
          have : components [] = [] := by decide
          rw [this] at hc
          simp at hc
      have hpe : p = [] := by rw [← joinSlash_repoComponents p, hn]; rfl
      rw [hn] at hres
      exact ⟨by simpa using hres.symm, hpe, h.symm⟩
    · injection h with h
      right
      subst h
      exact ⟨hres, by rw [hres]; exact components_foldl_push base _ hfs⟩

/-- A repository path with a component that is not a plain name (`.`, `..`, empty) is
rejected by `to_fs_path`, whatever the base: no tree entry can address outside the workspace. -/
theorem to_fs_path_rejects (p base c : Str) (hc : c ∈ repoComponents p) (hbad : ¬ FsName c) :
    ∃ c', toFsPath p base = .invalid c' ∧ ¬ FsName c' := by
  obtain ⟨c', h1, h2⟩ := pushNames_invalid_of_mem base _ c hc hbad
  exact ⟨c', by simp [toFsPath, h1], h2⟩

theorem to_fs_path_rejects_dots (p base : Str) (h : dot ∈ repoComponents p ∨ dotdot ∈ repoComponents p) :
    ∃ c', toFsPath p base = .invalid c' := by
  rcases h with h | h
  · obtain ⟨c', h1, _⟩ := to_fs_path_rejects p base dot h (fun hf => hf.2.2.1 rfl)
    exact ⟨c', h1⟩
  · obtain ⟨c', h1, _⟩ := to_fs_path_rejects p base dotdot h (fun hf => hf.2.2.2 rfl)
    exact ⟨c', h1⟩

/-- **Round trip repo → fs → repo**: every repository path made of plain names converts to a
relative file-system path that converts back to the same repository path. -/
theorem roundtrip_repo_fs (p : Str) (h : ∀ n ∈ repoComponents p, FsName n) :
    ∃ f, toFsPath p [] = .ok f ∧ fromRelativePath f = .ok p := by
  have hp : p = joinSlash (repoComponents p) := (joinSlash_repoComponents p).symm
  have hpush : pushNames [] (repoComponents p) = .ok (joinSlash (repoComponents p)) := by
    rw [pushNames_of_fsNames [] _ h, foldl_push_nil _ (fun n hn => (h n hn).slashFree)]
  rw [← hp] at hpush
  by_cases hpe : p = []
  · subst hpe
    exact ⟨dot, by decide, by decide⟩
  · refine ⟨p, by simp [toFsPath, hpush, hpe], ?_⟩
    have hc : components p = (repoComponents p).map .normal := by
      have := components_names (repoComponents p) h
      rwa [← hp] at this
    have hne : components p ≠ [.cur] := by
      rw [hc]
      cases hrc : repoComponents p with
      | nil => simp
      | cons n rest => cases rest <;> simp
    unfold fromRelativePath
    rw [hc] at hne
    simp only [hc, hne, if_false, collectNormal_map, ← hp]

/-- **Round trip fs → repo → fs** for a normalized relative path (plain names joined by `/`). -/
theorem roundtrip_fs_repo (names : List Str) (hne : names ≠ []) (h : ∀ n ∈ names, FsName n) :
    fromRelativePath (joinSlash names) = .ok (joinSlash names) ∧
    toFsPath (joinSlash names) [] = .ok (joinSlash names) := by
  have hrc := repoComponents_joinSlash names h
  obtain ⟨f, h1, h2⟩ := roundtrip_repo_fs (joinSlash names) (by rw [hrc]; exact h)
  have hjn : joinSlash names ≠ [] := by
    obtain ⟨n, rest, rfl⟩ := List.exists_cons_of_ne_nil hne
    obtain ⟨c, n', rfl⟩ := List.exists_cons_of_ne_nil (h n (by simp)).1
    cases rest <;> simp [joinSlash]
  have hpush : pushNames [] (repoComponents (joinSlash names)) = .ok (joinSlash names) := by
    rw [hrc, pushNames_of_fsNames [] _ h, foldl_push_nil _ (fun n hn => (h n hn).slashFree)]
  have hf : toFsPath (joinSlash names) [] = .ok (joinSlash names) := by
    simp [toFsPath, hpush, hjn]
  rw [hf] at h1
  injection h1 with h1
  subst h1
  exact ⟨h2, hf⟩

/-! ### fs → repo → fs (`parse_fs_path`) -/

/-- components of the result of `relative_path` between two absolute paths whose component
lists are `root :: pre ++ fs` and `root :: pre ++ ts` (longest common prefix stripped) -/
theorem components_relativePath (src dst : Str) (hs : src.head? = some '/')
    (hd : dst.head? = some '/') :
    ∃ pre fs ts, components src = .root :: (pre ++ fs) ∧ components dst = .root :: (pre ++ ts) ∧
      (∀ c ∈ ts, Plain c) ∧
      components (relativePath src dst) =
        (if fs = [] ∧ ts = [] then [.cur] else List.replicate fs.length .parent ++ ts) := by
  have hcs := components_abs src hs
  have hcd := components_abs dst hd
  generalize hta : (splitSlash dst).filterMap partToComp = ta at hcd
  generalize htb : (splitSlash src).filterMap partToComp = tb at hcs
  have hplain : ∀ c ∈ ta, Plain c := by
    intro c hc; rw [← hta] at hc; exact plain_of_mem_filterMap dst c hc
  cases hsm : stripMax tb ta with
  | mk fs ts =>
    obtain ⟨pre, h1, h2⟩ := stripMax_spec tb ta fs ts hsm
    have hts : ∀ c ∈ ts, Plain c := fun c hc => hplain c (by rw [h2]; simp [hc])
    refine ⟨pre, fs, ts, by rw [hcs, h1], by rw [hcd, h2], hts, ?_⟩
    have hpar : ∀ c ∈ List.replicate fs.length Comp.parent, Plain c := by
      intro c hc; exact Or.inl (List.eq_of_mem_replicate hc)
    have hrel : relativePath src dst =
        (if render ts ≠ [] then push (render (List.replicate fs.length .parent)) (render ts)
         else if fs.length = 0 then push (render (List.replicate fs.length .parent)) dot
         else render (List.replicate fs.length .parent)) := by
      unfold relativePath
      rw [hcs, hcd]
      simp [stripCommon, hsm]
    rw [hrel]
    by_cases hte : ts = []
    · subst hte
      have : render ([] : List Comp) = [] := rfl
      simp only [this, ne_eq, not_true_eq_false, if_false, and_true, List.append_nil]
      by_cases hfe : fs = []
      · subst hfe
        simp only [List.length_nil, if_true, List.replicate_zero]
        decide
      · have hlen : fs.length ≠ 0 := by simpa using hfe
        simp only [hlen, hfe, if_false]
        exact components_render_plain _ hpar
    · have hne := render_plain_ne_nil ts hte hts
      simp only [ne_eq, hne, not_false_eq_true, if_true, hte, and_false, if_false]
      have hstrs : ∀ s ∈ ts.map Comp.str, SlashFree s ∧ s ≠ dot := by
        intro s hs
        obtain ⟨c, hc, rfl⟩ := List.mem_map.mp hs
        exact ⟨(plain_str (hts c hc)).1, (plain_str (hts c hc)).2.1⟩
      have hsplit : splitSlash (render ts) = ts.map Comp.str := by
        rw [render_plain ts hts]
        exact splitSlash_joinSlash _ (by simpa using hte) (fun n hn => (hstrs n hn).1.2)
      obtain ⟨c0, ts', rfl⟩ := List.exists_cons_of_ne_nil hte
      have hc0 := hstrs c0.str (by simp)
      have hhead : (render (c0 :: ts')).head? ≠ some '/' := by
        rw [render_plain _ hts]
        obtain ⟨ch, n', hn⟩ := List.exists_cons_of_ne_nil hc0.1.1
        have hch : ch ≠ '/' := by
          intro e; apply hc0.1.2; rw [hn, e]; simp
        cases ts' <;> simp [joinSlash, hn, hch]
      rw [components_push _ _ hhead (by rw [hsplit]; simp [hc0.2]), hsplit,
        components_render_plain _ hpar, filterMap_map_str _ hts]

/-- **`parse_fs_path` is confined and lossless** (absolute `cwd` and `base`): if it accepts an
input, the repository path consists of plain names only, the normalized `cwd/input` is exactly
`base` followed by those names, and converting back with `to_fs_path` gives a path with the same
components as the normalized input — it never leaves the workspace. -/
theorem parse_fs_path_confined (cwd base input p : Str) (hc : cwd.head? = some '/')
    (hb : base.head? = some '/') (h : parseFsPath cwd base input = .ok p) :
    ∃ names, (∀ n ∈ names, FsName n) ∧ repoComponents p = names ∧
      components (normalizePath (join cwd input)) = components base ++ names.map .normal ∧
      ∃ f, toFsPath p base = .ok f ∧
        components f = components (normalizePath (join cwd input)) := by
  unfold parseFsPath at h
  simp only at h
  have hA : (normalizePath (join cwd input)).head? = some '/' :=
    normalizePath_abs _ (push_head cwd input hc)
  generalize normalizePath (join cwd input) = A at h hA ⊢
  obtain ⟨pre, fs, ts, hbase, hAc, hts, hrel⟩ := components_relativePath base A hb hA
  obtain ⟨names, hfs, hrc, hp, hcomp⟩ := from_relative_valid _ _ h
  -- `fs` must be empty: otherwise the relative path starts with `..` and is rejected
  have hfe : fs = [] := by
    cases fs with
    | nil => rfl
    | cons c fs' =>
      exfalso
      have hmem : Comp.parent ∈ components (relativePath base A) := by
        rw [hrel]; simp [List.replicate_succ]
      obtain ⟨e, he⟩ := from_relative_rejects _ _ hmem (Or.inr rfl)
      rw [he] at h; simp at h
  subst hfe
  have hts_names : ts = names.map .normal := by
    simp only [List.length_nil, List.replicate_zero, List.nil_append, true_and] at hrel
    by_cases hte : ts = []
    · subst hte
      simp only [if_true] at hrel
      rcases hcomp with hcomp | ⟨_, hn⟩
      · rw [hrel] at hcomp
        cases names with
        | nil => rfl
        | cons n rest => simp at hcomp
      · subst hn; rfl
    · simp only [hte, if_false] at hrel
      rcases hcomp with hcomp | ⟨hcur, _⟩
      · rw [← hcomp, hrel]
      · rw [hrel] at hcur
        have := hts .cur (by rw [hcur]; simp)
        rcases this with h1 | ⟨n, h1, _⟩ <;> simp at h1
  have hAB : components A = components base ++ names.map .normal := by
    rw [hAc, hbase, hts_names]; simp
  refine ⟨names, hfs, hrc, hAB, ?_⟩
  have hpush : pushNames base (repoComponents p) = .ok (names.foldl push base) := by
    rw [hrc]; exact pushNames_of_fsNames base names hfs
  have hhead := foldl_push_head names base hb
  have hne : names.foldl push base ≠ [] := by intro e; simp [e] at hhead
  refine ⟨names.foldl push base, by simp [toFsPath, hpush, hne], ?_⟩
  rw [components_foldl_push base names hfs, hAB]

/-! ### non-vacuity -/

/-- `a/b` ↔ `a/b`, and `/w/a/../b` under `/w` is `b` -/
example : fromRelativePath ['a', '/', 'b'] = .ok ['a', '/', 'b'] ∧
    toFsPath ['a', '/', 'b'] ['/', 'w'] = .ok ['/', 'w', '/', 'a', '/', 'b'] ∧
    parseFsPath ['/', 'w', '/', 'a'] ['/', 'w'] ['.', '.', '/', 'b'] = .ok ['b'] ∧
    parseFsPath ['/', 'w', '/', 'a'] ['/', 'w'] ['.', '.', '/', '.', '.', '/', 'b'] = .invalidComponent dotdot ∧
    toFsPath ['a', '/', '.', '.'] ['/', 'w'] = .invalid dotdot := by decide

example : FsName ['a'] ∧ (∀ n ∈ repoComponents ['a', '/', 'b'], FsName n) := by
  refine ⟨by unfold FsName; decide, ?_⟩
  intro n hn
  have : repoComponents ['a', '/', 'b'] = [['a'], ['b']] := by decide
  rw [this] at hn
  simp at hn
  rcases hn with rfl | rfl <;> (unfold FsName; decide)

end JjModel.C32
