import JjModel.Lemmas.FilesShape
/-!
  C04 — File content merge obeys the merge identity laws.

  Theorems about the executable model `Model/Files.lean` (`mergeHunks`, `merge`, `tryMerge`), which
  the driver runs and the harness compares with `files::merge_hunks / merge / try_merge`.
-/
namespace JjModel.C04
open JjModel.Files JjModel.Merge JjModel.Diff

/-- The three entry points agree: `try_merge` returns `c` exactly when `merge_hunks` is
`Resolved(c)`. -/
theorem try_merge_iff_merge_hunks (terms : List Bytes) (level : HunkLevel) (sc : SameChange) (c : Bytes) :
    tryMerge terms level sc = some c ↔ mergeHunks terms level sc = .resolved c :=
  (collectHunks_resolved_iff _ c).symm

/-- … and exactly when `merge` is the resolved merge of `c`. -/
theorem try_merge_iff_merge (terms : List Bytes) (level : HunkLevel) (sc : SameChange) (c : Bytes) :
    tryMerge terms level sc = some c ↔ merge terms level sc = some [c] :=
  (collectMerged_resolved_iff _ c).symm

/-- `try_merge` fails exactly when `merge_hunks` reports a conflict. -/
theorem try_merge_none_iff_conflict (terms : List Bytes) (level : HunkLevel) (sc : SameChange) :
    tryMerge terms level sc = none ↔ ∃ hs, mergeHunks terms level sc = .conflict hs := by
  constructor
  · intro h
    cases hm : mergeHunks terms level sc with
    | resolved c =>
      rw [← try_merge_iff_merge_hunks] at hm
      rw [h] at hm; cases hm
    | conflict hs => exact ⟨hs, rfl⟩
  · rintro ⟨hs, h⟩
    cases ht : tryMerge terms level sc with
    | none => rfl
    | some c =>
      rw [try_merge_iff_merge_hunks] at ht
      rw [h] at ht; cases ht

/-- **Shape (relative form).**  The result of `merge` is a single term, or has the arity of one of
the unresolved hunks it was collected from. -/
theorem merge_shape_hunks (terms : List Bytes) (level : HunkLevel) (sc : SameChange) (r : List Bytes)
    (h : merge terms level sc = some r) :
    r.length = 1 ∨ ∃ x ∈ mergeInnerHunks terms level sc, asResolved x = none ∧ r.length = x.length := by
  rcases collectMergedGo_length _ _ _ h with h1 | h2
  · left; simpa using h1
  · right; exact h2

/-- **Shape.**  `merge` never panics (the `assert_eq!` of `collect_merged` cannot fire) and its result
is fully resolved or has exactly the arity of the input. -/
theorem merge_shape (terms : List Bytes) (hodd : terms.length % 2 = 1) (level : HunkLevel) (sc : SameChange) :
    ∃ r, merge terms level sc = some r ∧ (r.length = 1 ∨ r.length = terms.length) := by
  have har := mergeInnerHunks_arity terms hodd level sc
  obtain ⟨r, hr⟩ := collectMergedGo_isSome terms.length _ [[]] har (Or.inl rfl)
  refine ⟨r, hr, ?_⟩
  rcases merge_shape_hunks terms level sc r hr with h | ⟨x, hx, hn, hl⟩
  · exact Or.inl h
  · rcases har x hx with h1 | h1
    · exact absurd h1 (asResolved_none_length x hn)
    · exact Or.inr (hl.trans h1)

/-- every hunk of a `Conflict` result of `merge_hunks` … is resolved or has the input arity: stated on
the hunk stream the collectors consume -/
theorem merge_hunks_arity (terms : List Bytes) (hodd : terms.length % 2 = 1) (level : HunkLevel)
    (sc : SameChange) : ∀ h ∈ mergeInnerHunks terms level sc, h.length = 1 ∨ h.length = terms.length :=
  mergeInnerHunks_arity terms hodd level sc

/-- **Order.**  Term `k` of the result of `merge` is the concatenation, in hunk order, of what each
hunk contributes to term `k`: a resolved hunk (a slice of one input chosen by the cancellation rule, or
the common content of a matching hunk) is copied into every term, an unresolved hunk contributes its
own `k`-th term (the slice of input term `k`).  Together with C03 reconstruction this says the result
is obtained from the inputs hunk by hunk, in input order. -/
theorem merge_terms_concat (terms : List Bytes) (level : HunkLevel) (sc : SameChange) (r : List Bytes)
    (h : merge terms level sc = some r) (k : Nat) (hk : k < r.length) :
    r.getD k [] = (mergeInnerHunks terms level sc).flatMap (termOf k) := by
  have := collectMergedGo_term _ _ _ h k hk
  simpa [accTerm] using this

/-! ### identity laws -/

/-- **`SlicesRespectEquality`** for the line diff that `merge_inner` computes: in every hunk, inputs
with equal contents have equal slices.  (Decidable; proved for every merge below —
`slices_respect_equality` — and additionally evaluated by the driver on every request of the
correspondence run.) -/
def SlicesRespectEquality (terms : List Bytes) : Prop := lineDiffSre terms = true

instance (terms : List Bytes) : Decidable (SlicesRespectEquality terms) := by
  unfold SlicesRespectEquality; infer_instance

theorem sreb_spec (d : ContentDiff) (h : sreb d = true) :
    ∀ hk ∈ d.hunks, ∀ i j, i < d.inputs.length → j < d.inputs.length →
      d.inputs.getD i [] = d.inputs.getD j [] → hk.2.getD i [] = hk.2.getD j [] := by
  intro hk hmem i j hi hj he
  simp only [sreb, List.all_eq_true, List.mem_range] at h
  have := h hk hmem i hi j hj
  simp only [he, if_true, decide_eq_true_eq] at this
  exact this

theorem mem_of_count_ne_zero (vs : List Bytes) (v : Bytes) (h : count vs v ≠ 0) : v ∈ vs := by
  by_cases hm : v ∈ vs
  · exact hm
  · rw [count_eq_scount, scount_not_mem vs 1 v hm] at h; exact absurd rfl h

/-- **Identity law (relative to `SlicesRespectEquality`).**  If the sides and bases of a file merge
cancel pairwise — in the precise sense of C02: `trivial_merge` applied to the whole contents
resolves to `v` (every base cancels an equal side and one side `v` is left; or, with the
same-change rule, the remaining sides all equal `v` against one remaining base value) — then the
content merge returns exactly `v`, at both hunk levels.
Proof: every diff hunk's contents are the image of the inputs under one function (by
`SlicesRespectEquality`), `trivial_merge` commutes with functions (`trivialMerge_map`), matching hunks
carry equal contents (C03 `matching_equal`), and the resolved slices concatenate back to `v` (C03
`diff_hunks_reconstruct`). -/
theorem merge_cancels_to_side_partial (terms : List Bytes) (hodd : terms.length % 2 = 1)
    (level : HunkLevel) (sc : SameChange) (v : Bytes) (hv : trivialMerge terms sc = some v)
    (hsre : SlicesRespectEquality terms) : tryMerge terms level sc = some v := by
  obtain ⟨hlen1, hlen⟩ := length_removes_adds terms hodd
  have hne : diffInputs terms ≠ [] := by
    intro h; have := congrArg List.length h; simp only [diffInputs, List.length_nil] at this; omega
  obtain ⟨d, hd⟩ := C03.build_isSome (diffInputs terms) (.line, .exact) [] hne
  have hd' : build (diffInputs terms) byLine = some d := hd
  obtain ⟨e, w⟩ := build_wf _ _ d hd'
  have hs : sreb d = true := by
    have := hsre; unfold SlicesRespectEquality lineDiffSre at this; rw [hd'] at this; exact this
  have hsre' := sreb_spec d hs
  rw [e] at hsre'
  -- the surviving side occurs among the diff inputs
  have hvm : v ∈ diffInputs terms := by
    have := (C02.trivial_merge_spec terms hodd sc v).mp hv
    have hc : count terms v ≠ 0 := by
      rcases this with ⟨h1, _⟩ | ⟨_, h1, _⟩
      · exact h1
      · omega
    exact mem_removes_adds terms v (mem_of_count_ne_zero terms v hc)
  have hq := firstIdx_spec v (diffInputs terms) hvm
  have hqlt : firstIdx v (diffInputs terms) < (diffInputs terms).length := (List.getElem?_eq_some_iff.mp hq).1
  have h0 : 0 < (diffInputs terms).length := by omega
  -- every hunk resolves to the slice of the surviving side
  have hres : resolveDiffHunks d.hunks (removes terms).length sc =
      d.hunks.map fun hk => [hk.2.getD (firstIdx v (diffInputs terms)) []] := by
    unfold resolveDiffHunks
    apply List.map_congr_left
    intro hk hmem
    have hkl : hk.2.length = (diffInputs terms).length := by
      simp only [ContentDiff.hunks, List.mem_map] at hmem
      obtain ⟨hr, hrm, rfl⟩ := hmem
      have := C03.hunks_arity d (by rw [e]; exact w) hr hrm
      simp [List.length_zipWith, this, e]
    cases hkind : hk.1 with
    | matching =>
      simp only
      have := C03.matching_equal .exact (diffInputs terms) byLine (by simp [byLine, Compare.le]) d hd' hk hmem
        hkind 0 (firstIdx v (diffInputs terms)) h0 hqlt
      simp only [Compare.eq, Compare.norm] at this
      rw [of_decide_eq_true this]
    | different =>
      simp only
      rw [resolve_different terms hodd sc v hv hk.2 hkl (hsre' hk hmem)]
  have hline : resolvedHunks byLine terms sc =
      d.hunks.map fun hk => [hk.2.getD (firstIdx v (diffInputs terms)) []] := by
    unfold resolvedHunks; rw [hd']; exact hres
  have hinner : mergeInnerHunks terms level sc =
      d.hunks.map fun hk => [hk.2.getD (firstIdx v (diffInputs terms)) []] := by
    unfold mergeInnerHunks
    cases level with
    | line => exact hline
    | word =>
      simp only [hline, List.map_map]
      apply List.map_congr_left
      intro hk _
      simp [mergeHunkByWord]
  unfold tryMerge
  rw [hinner, collectResolved_singletons]
  have hrec := C03.diff_hunks_reconstruct (diffInputs terms) byLine d hd' (firstIdx v (diffInputs terms)) hqlt
  rw [hrec]
  simp [List.getD, hq]

/-- … and then `merge` is the resolved merge of `v` and `merge_hunks` is `Resolved(v)`. -/
theorem merge_cancels_to_side_all_partial (terms : List Bytes) (hodd : terms.length % 2 = 1)
    (level : HunkLevel) (sc : SameChange) (v : Bytes) (hv : trivialMerge terms sc = some v)
    (hsre : SlicesRespectEquality terms) :
    merge terms level sc = some [v] ∧ mergeHunks terms level sc = .resolved v := by
  have h := merge_cancels_to_side_partial terms hodd level sc v hv hsre
  exact ⟨(try_merge_iff_merge terms level sc v).mp h, (try_merge_iff_merge_hunks terms level sc v).mp h⟩

/-- `merge [a, b, b] = a`: a side equal to the base leaves the other side (rebasing onto an
unchanged base is a no-op). -/
theorem merge_abb_partial (a b : Bytes) (level : HunkLevel) (sc : SameChange)
    (hsre : SlicesRespectEquality [a, b, b]) : tryMerge [a, b, b] level sc = some a := by
  apply merge_cancels_to_side_partial [a, b, b] (by simp) level sc a _ hsre
  simp only [trivialMerge]
  by_cases h1 : a = b ∧ sc = .accept
  · simp [h1]
  · by_cases h2 : a = b
    · simp [h2]
    · simp [h1, h2]

/-- `merge [b, b, a] = a` -/
theorem merge_bba_partial (a b : Bytes) (level : HunkLevel) (sc : SameChange)
    (hsre : SlicesRespectEquality [b, b, a]) : tryMerge [b, b, a] level sc = some a := by
  apply merge_cancels_to_side_partial [b, b, a] (by simp) level sc a _ hsre
  simp only [trivialMerge]
  by_cases h1 : b = a ∧ sc = .accept
  · simp [h1]
  · simp [h1]

/-- identical sides merge to that content under the same-change rule -/
theorem merge_identical_sides_partial (a b : Bytes) (level : HunkLevel)
    (hsre : SlicesRespectEquality [a, b, a]) : tryMerge [a, b, a] level .accept = some a := by
  apply merge_cancels_to_side_partial [a, b, a] (by simp) level .accept a _ hsre
  simp [trivialMerge]

/-! ### identity laws, unconditional -/

/-- **Slices respect equality** holds for every merge: equal non-base inputs are diffed against the
base by the same function and matched positions have a unique partner (`win_partner_unique`); the
base against an equal input is matched only on the diagonal (`unchangedWords_diag`, the weak form of
`diff_self_diagonal`, which is all the identity law needs). -/
theorem slices_respect_equality (terms : List Bytes) (hodd : terms.length % 2 = 1) :
    SlicesRespectEquality terms := by
  obtain ⟨_, hlen⟩ := length_removes_adds terms hodd
  apply lineDiffSre_holds
  intro h
  have := congrArg List.length h
  simp only [diffInputs, List.length_nil] at this
  omega

/-- **Identity law.**  For every odd number of terms, both hunk levels and both same-change settings:
if the sides and bases cancel pairwise in the sense of C02 (`trivial_merge` on the whole contents
resolves to `v`), the content merge returns `v` exactly. -/
theorem merge_cancels_to_side (terms : List Bytes) (hodd : terms.length % 2 = 1)
    (level : HunkLevel) (sc : SameChange) (v : Bytes) (hv : trivialMerge terms sc = some v) :
    tryMerge terms level sc = some v ∧ merge terms level sc = some [v] ∧
      mergeHunks terms level sc = .resolved v :=
  have h := merge_cancels_to_side_partial terms hodd level sc v hv (slices_respect_equality terms hodd)
  ⟨h, (try_merge_iff_merge terms level sc v).mp h, (try_merge_iff_merge_hunks terms level sc v).mp h⟩

/-- `merge [a, b, b] = a` — rebasing onto an unchanged base is a no-op -/
theorem merge_abb (a b : Bytes) (level : HunkLevel) (sc : SameChange) : merge [a, b, b] level sc = some [a] :=
  (try_merge_iff_merge _ level sc a).mp (merge_abb_partial a b level sc (slices_respect_equality _ (by simp)))

/-- `merge [b, b, a] = a` -/
theorem merge_bba (a b : Bytes) (level : HunkLevel) (sc : SameChange) : merge [b, b, a] level sc = some [a] :=
  (try_merge_iff_merge _ level sc a).mp (merge_bba_partial a b level sc (slices_respect_equality _ (by simp)))

/-- identical sides merge to that content (same-change rule) -/
theorem merge_identical_sides (a b : Bytes) (level : HunkLevel) : merge [a, b, a] level .accept = some [a] :=
  (try_merge_iff_merge _ level .accept a).mp
    (merge_identical_sides_partial a b level (slices_respect_equality _ (by simp)))

/-- a resolved merge is returned unchanged -/
theorem merge_resolved (a : Bytes) (level : HunkLevel) (sc : SameChange) : merge [a] level sc = some [a] :=
  (merge_cancels_to_side [a] (by simp) level sc a (by simp [trivialMerge])).2.1

/-! ### non-vacuity -/
example : SlicesRespectEquality [[97, 10, 98, 10], [97, 10], [97, 10]] := by decide
example : trivialMerge [[97, 10, 98, 10], [97, 10], [97, 10]] .keep = some [97, 10, 98, 10] := by decide
example : tryMerge [[97, 10, 98, 10], [97, 10], [97, 10]] .word .keep = some [97, 10, 98, 10] := by decide
example : merge [[97, 10, 98, 10], [97, 10], [97, 10, 99, 10]] .line .keep
    = some [[97, 10, 98, 10], [97, 10], [97, 10, 99, 10]] := by decide
example : tryMerge [[97, 10, 98, 10], [97, 10], [99, 10, 97, 10]] .line .keep
    = some [99, 10, 97, 10, 98, 10] := by decide

end JjModel.C04
