import JjModel.Lemmas.FilesCollect
/-!
  C04 — File content merge obeys the merge identity laws.

  Theorems about the executable model `Model/Files.lean` (`mergeHunks`, `merge`, `tryMerge`), which
  the driver runs and the harness compares with `files::merge_hunks / merge / try_merge`.
-/
namespace JjModel.C04
open JjModel.Files JjModel.Merge JjModel.Diff

/-- The three entry points agree: `try_merge` returns `c` exactly when `merge_hunks` is
`Resolved(c)`. -/
theorem try_merge_iff_merge_hunks (terms : List Bytes) (level : HunkLevel) (sc : SameChange) (c : Bytes) :
    tryMerge terms level sc = some c ↔ mergeHunks terms level sc = .resolved c :=
  (collectHunks_resolved_iff _ c).symm

/-- … and exactly when `merge` is the resolved merge of `c`. -/
theorem try_merge_iff_merge (terms : List Bytes) (level : HunkLevel) (sc : SameChange) (c : Bytes) :
    tryMerge terms level sc = some c ↔ merge terms level sc = some [c] :=
  (collectMerged_resolved_iff _ c).symm

/-- `try_merge` fails exactly when `merge_hunks` reports a conflict. -/
theorem try_merge_none_iff_conflict (terms : List Bytes) (level : HunkLevel) (sc : SameChange) :
    tryMerge terms level sc = none ↔ ∃ hs, mergeHunks terms level sc = .conflict hs := by
  constructor
  · intro h
    cases hm : mergeHunks terms level sc with
    | resolved c =>
      rw [← try_merge_iff_merge_hunks] at hm
      rw [h] at hm; cases hm
    | conflict hs => exact ⟨hs, rfl⟩
  · rintro ⟨hs, h⟩
    cases ht : tryMerge terms level sc with
    | none => rfl
    | some c =>
      rw [try_merge_iff_merge_hunks] at ht
      rw [h] at ht; cases ht

/-- **Shape (relative form).**  The result of `merge` is a single term, or has the arity of one of
the unresolved hunks it was collected from. -/
theorem merge_shape_hunks (terms : List Bytes) (level : HunkLevel) (sc : SameChange) (r : List Bytes)
    (h : merge terms level sc = some r) :
    r.length = 1 ∨ ∃ x ∈ mergeInnerHunks terms level sc, asResolved x = none ∧ r.length = x.length := by
  rcases collectMergedGo_length _ _ _ h with h1 | h2
  · left; simpa using h1
  · right; exact h2

/-! ### non-vacuity -/
example : merge [[97, 10, 98, 10], [97, 10], [97, 10, 99, 10]] .line .keep
    = some [[97, 10, 98, 10], [97, 10], [97, 10, 99, 10]] := by decide
example : tryMerge [[97, 10, 98, 10], [97, 10], [99, 10, 97, 10]] .line .keep
    = some [99, 10, 97, 10, 98, 10] := by decide

end JjModel.C04
