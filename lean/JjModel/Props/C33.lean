import JjModel.Model.GitRef
/-!
  C33 — Git ref names and jj bookmark/tag symbols map one-to-one.

  `toGitRefName` is a function, so "exactly one Git ref name" per exportable symbol is immediate;
  the content is: the name parses back to the symbol (`export_then_parse`), distinct symbols get
  distinct names (`export_injective`), and an imported ref is produced again by exporting the
  symbol it was parsed into (`parse_then_export`).
-/
namespace JjModel.C33
open JjModel.GitRef

/-- the part of `validate_remote_name` the proofs need: no `/` in the remote name -/
def NoSlash (r : Str) : Prop := '/' ∉ r

/-- accepted by `validate_remote_name` (whatever Git's own check `gixValid` says in addition) -/
def ValidRemote (gixValid : Str → Bool) (r : Str) : Prop := validateRemoteName gixValid r = .ok

/-! ### string helpers -/

theorem stripPrefix_append (p s : Str) : stripPrefix p (p ++ s) = some s := by
  induction p with
  | nil => cases s <;> rfl
  | cons c p ih => simp [stripPrefix, ih]

theorem stripPrefix_some (p s t : Str) (h : stripPrefix p s = some t) : s = p ++ t := by
  induction p generalizing s with
  | nil => cases s <;> simp_all [stripPrefix]
  | cons c p ih =>
    cases s with
    | nil => simp [stripPrefix] at h
    | cons d s =>
      by_cases hcd : c = d
      · subst hcd
        simp only [stripPrefix, if_true] at h
        rw [ih s h]; rfl
      · simp [stripPrefix, hcd] at h

theorem splitOnce_append (c : Char) (a b : Str) (h : c ∉ a) :
    splitOnce c (a ++ c :: b) = some (a, b) := by
  induction a with
  | nil => simp [splitOnce]
  | cons x a ih =>
    have hx : x ≠ c := fun e => h (by simp [e])
    have ha : c ∉ a := fun e => h (by simp [e])
    simp [splitOnce, hx, ih ha]

theorem splitOnce_some (c : Char) (s a b : Str) (h : splitOnce c s = some (a, b)) :
    s = a ++ c :: b ∧ c ∉ a := by
  induction s generalizing a with
  | nil => simp [splitOnce] at h
  | cons x s ih =>
    by_cases hx : x = c
    · subst hx
      simp [splitOnce] at h
      obtain ⟨rfl, rfl⟩ := h
      simp
    · simp only [splitOnce, hx, if_false] at h
      cases hs : splitOnce c s with
      | none => simp [hs] at h
      | some ab =>
        obtain ⟨a', b'⟩ := ab
        simp [hs] at h
        obtain ⟨rfl, rfl⟩ := h
        obtain ⟨rfl, hn⟩ := ih a' hs
        refine ⟨rfl, ?_⟩
        simp only [List.mem_cons, not_or]
        exact ⟨fun e => hx e.symm, hn⟩

theorem heads_not_remotes (s : Str) : stripPrefix refsHeads (refsRemotes ++ s) = none := by
  simp [refsHeads, refsRemotes, stripPrefix]

theorem heads_not_tags (s : Str) : stripPrefix refsHeads (refsTags ++ s) = none := by
  simp [refsHeads, refsTags, stripPrefix]

theorem remotes_not_tags (s : Str) : stripPrefix refsRemotes (refsTags ++ s) = none := by
  simp [refsRemotes, refsTags, stripPrefix]

theorem noSlash_git : NoSlash gitRemote := by simp [NoSlash, gitRemote]

theorem validRemote_noSlash (gixValid : Str → Bool) (r : Str) (h : ValidRemote gixValid r) :
    NoSlash r ∧ r ≠ gitRemote := by
  unfold ValidRemote validateRemoteName at h
  unfold NoSlash
  split at h
  · simp at h
  · split at h
    · simp at h
    · split at h
      · simp at h
      · constructor <;> assumption

/-! ### the property -/

/-- Every symbol jj can export parses back from its Git ref name to the same kind and symbol,
provided the remote name has no `/` (true of `git` and of every name `validate_remote_name`
accepts). -/
theorem export_then_parse (k : Kind) (n r g : Str) (hr : NoSlash r)
    (h : toGitRefName k ⟨n, r⟩ = some g) : parseGitRef g = some (k, ⟨n, r⟩) := by
  unfold toGitRefName at h
  simp only at h
  split at h
  · simp at h
  · cases k with
    | bookmark =>
      simp only at h
      split at h
      · simp at h
      · rename_i hhead
        split at h
        · rename_i hgit
          injection h with h; subst h; subst hgit
          simp [parseGitRef, stripPrefix_append, hhead]
        · rename_i hgit
          injection h with h; subst h
          have h2 : splitOnce '/' (r ++ '/' :: n) = some (r, n) := splitOnce_append '/' r n hr
          simp only [parseGitRef, List.append_assoc, heads_not_remotes, stripPrefix_append, h2]
          simp [hgit, hhead]
    | tag =>
      simp only at h
      split at h
      · rename_i hgit
        injection h with h; subst h; subst hgit
        simp [parseGitRef, heads_not_tags, remotes_not_tags, stripPrefix_append]
      · simp at h

/-- … in particular for every remote name accepted by `validate_remote_name`. -/
theorem export_then_parse_valid (gixValid : Str → Bool) (k : Kind) (n r g : Str)
    (hr : r = gitRemote ∨ ValidRemote gixValid r)
    (h : toGitRefName k ⟨n, r⟩ = some g) : parseGitRef g = some (k, ⟨n, r⟩) := by
  refine export_then_parse k n r g ?_ h
  rcases hr with rfl | hr
  · exact noSlash_git
  · exact (validRemote_noSlash gixValid r hr).1

/-- Distinct (kind, symbol) pairs never share a Git ref name (remote names without `/`). -/
theorem export_injective (k₁ k₂ : Kind) (s₁ s₂ : Symbol) (g : Str)
    (h₁ : NoSlash s₁.remote) (h₂ : NoSlash s₂.remote)
    (e₁ : toGitRefName k₁ s₁ = some g) (e₂ : toGitRefName k₂ s₂ = some g) :
    k₁ = k₂ ∧ s₁ = s₂ := by
  have p₁ := export_then_parse k₁ s₁.name s₁.remote g h₁ e₁
  have p₂ := export_then_parse k₂ s₂.name s₂.remote g h₂ e₂
  rw [p₁] at p₂
  injection p₂ with p₂
  injection p₂ with hk hs
  exact ⟨hk, hs⟩

/-- Without the remote-name rule the map is not injective: `c@a/b` and `b/c@a` share
`refs/remotes/a/b/c`. -/
theorem export_not_injective_with_slash :
    toGitRefName .bookmark ⟨['c'], ['a', '/', 'b']⟩ = toGitRefName .bookmark ⟨['b', '/', 'c'], ['a']⟩ ∧
    (toGitRefName .bookmark ⟨['c'], ['a', '/', 'b']⟩).isSome ∧
    (⟨['c'], ['a', '/', 'b']⟩ : Symbol) ≠ ⟨['b', '/', 'c'], ['a']⟩ := by
  decide

/-- Every Git ref jj imports is produced again by exporting the symbol it was parsed into.
Forced side condition: the parsed name and remote are non-empty (see `parse_then_export_git`
for the formulation in terms of Git's own rule). -/
theorem parse_then_export (g : Str) (k : Kind) (s : Symbol) (h : parseGitRef g = some (k, s))
    (hn : s.name ≠ []) (hr : s.remote ≠ []) : toGitRefName k s = some g := by
  unfold parseGitRef at h
  split at h
  · rename_i name hp
    split at h
    · simp at h
    · rename_i hhead
      injection h with h
      injection h with hk hs
      subst hk; subst hs
      have := stripPrefix_some _ _ _ hp
      simp only at hn
      simp [toGitRefName, hn, hhead, gitRemote, this]
  · split at h
    · rename_i rn hp
      split at h
      · simp at h
      · rename_i remote name hsplit
        split at h
        · simp at h
        · rename_i hcond
          injection h with h
          injection h with hk hs
          subst hk; subst hs
          simp only [not_or] at hcond
          obtain ⟨rfl, _⟩ := splitOnce_some _ _ _ _ hsplit
          have := stripPrefix_some _ _ _ hp
          simp only at hn hr
          simp [toGitRefName, hn, hr, hcond.1, hcond.2, this]
    · split at h
      · rename_i name hp
        injection h with h
        injection h with hk hs
        subst hk; subst hs
        have := stripPrefix_some _ _ _ hp
        simp only at hn
        simp [toGitRefName, hn, gitRemote, this]
      · simp at h

/-- Git's rule "no empty path component", as far as needed: the name does not end in `/` and
contains no `//`. -/
def ValidGitRef (g : Str) : Prop := g.getLast? ≠ some '/' ∧ ¬ (['/', '/'] : Str) <:+: g

theorem parse_nonempty_of_valid (g : Str) (k : Kind) (s : Symbol)
    (h : parseGitRef g = some (k, s)) (hv : ValidGitRef g) : s.name ≠ [] ∧ s.remote ≠ [] := by
  have hlast : ∀ (p : Str) (c : Char), (p ++ [c]).getLast? = some c := by intro p c; simp
  unfold parseGitRef at h
  split at h
  · rename_i name hp
    split at h
    · simp at h
    · injection h with h; injection h with hk hs; subst hs
      have hg := stripPrefix_some _ _ _ hp
      refine ⟨?_, by simp [gitRemote]⟩
      rintro rfl
      apply hv.1; rw [hg]; simp [refsHeads]
  · split at h
    · rename_i rn hp
      split at h
      · simp at h
      · rename_i remote name hsplit
        split at h
        · simp at h
        · injection h with h; injection h with hk hs; subst hs
          obtain ⟨rfl, _⟩ := splitOnce_some _ _ _ _ hsplit
          have hg := stripPrefix_some _ _ _ hp
          constructor
          · rintro rfl
            apply hv.1; rw [hg]; simp
          · rintro rfl
            apply hv.2; rw [hg]
            exact ⟨['r', 'e', 'f', 's', '/', 'r', 'e', 'm', 'o', 't', 'e', 's'], name, by simp [refsRemotes]⟩
    · split at h
      · rename_i name hp
        injection h with h; injection h with hk hs; subst hs
        have hg := stripPrefix_some _ _ _ hp
        refine ⟨?_, by simp [gitRemote]⟩
        rintro rfl
        apply hv.1; rw [hg]; simp [refsTags]
      · simp at h

theorem parse_then_export_git (g : Str) (k : Kind) (s : Symbol) (hv : ValidGitRef g)
    (h : parseGitRef g = some (k, s)) : toGitRefName k s = some g :=
  let ⟨hn, hr⟩ := parse_nonempty_of_valid g k s h hv
  parse_then_export g k s h hn hr

/-- The side condition is forced: `refs/heads/` and `refs/remotes//x` parse but do not export
(both are refused by Git itself, so jj never imports them). -/
theorem parse_then_export_needs_valid :
    (∃ k s, parseGitRef refsHeads = some (k, s) ∧ toGitRefName k s = none) ∧
    (∃ k s, parseGitRef (refsRemotes ++ ['/', 'x']) = some (k, s) ∧ toGitRefName k s = none) := by
  constructor
  · exact ⟨.bookmark, ⟨[], gitRemote⟩, by decide, by decide⟩
  · exact ⟨.bookmark, ⟨['x'], []⟩, by decide, by decide⟩

/-! ### non-vacuity -/

example : toGitRefName .bookmark ⟨['a', '/', 'b'], ['o']⟩ = some (refsRemotes ++ ['o', '/', 'a', '/', 'b']) ∧
    NoSlash ['o'] ∧ ValidRemote (fun _ => true) ['o'] := by
  unfold NoSlash ValidRemote; decide

theorem infix2_cons_cons (a b c d : Char) (rest : Str) :
    ([a, b] : Str) <:+: c :: d :: rest ↔ (a = c ∧ b = d) ∨ ([a, b] : Str) <:+: d :: rest := by
  rw [List.infix_cons_iff]
  have : ([a, b] : Str) <+: c :: d :: rest ↔ (a = c ∧ b = d) := by
    constructor
    · rintro ⟨t, ht⟩
      simp at ht
      exact ⟨ht.1, ht.2.1⟩
    · rintro ⟨rfl, rfl⟩; exact ⟨rest, rfl⟩
  rw [this]

theorem infix2_single (a b c : Char) : ¬ ([a, b] : Str) <:+: [c] := by
  intro h; have := h.length_le; simp at this

example : parseGitRef (refsHeads ++ ['m']) = some (.bookmark, ⟨['m'], gitRemote⟩) ∧
    ValidGitRef (refsHeads ++ ['m']) := by
  refine ⟨by decide, by decide, ?_⟩
  simp [refsHeads, infix2_cons_cons, infix2_single]

end JjModel.C33
