import JjModel.Lemmas.RevsetSet
/-!
  C19 — revset evaluation matches set semantics: theorems about the model
  `JjModel.Revset` (`lean/JjModel/Model/Revset.lean`, the definitions the driver runs).
-/
namespace JjModel.C19
open JjModel.Revset

/-! ## sorted-stream set operators -/

/-- `UnionRevWalk`: on strictly descending streams the result is strictly descending and its
members are exactly the members of either input. -/
theorem union_spec (xs ys : List Nat) (hx : Desc xs) (hy : Desc ys) :
    Desc (unionDesc xs ys) ∧ ∀ p, p ∈ unionDesc xs ys ↔ p ∈ xs ∨ p ∈ ys :=
  ⟨desc_unionDesc xs ys hx hy, mem_unionDesc xs ys⟩

/-- `IntersectionRevWalk` -/
theorem intersection_spec (xs ys : List Nat) (hx : Desc xs) (hy : Desc ys) :
    Desc (interDesc xs ys) ∧ ∀ p, p ∈ interDesc xs ys ↔ p ∈ xs ∧ p ∈ ys :=
  ⟨desc_interDesc xs ys hx hy, mem_interDesc xs ys hx hy⟩

/-- `DifferenceRevWalk` -/
theorem difference_spec (xs ys : List Nat) (hx : Desc xs) (hy : Desc ys) :
    Desc (diffDesc xs ys) ∧ ∀ p, p ∈ diffDesc xs ys ↔ p ∈ xs ∧ p ∉ ys :=
  ⟨desc_diffDesc xs ys hx hy, mem_diffDesc xs ys hx hy⟩

/-- `revset_for_commit_ids`: any id list (duplicates, any order) becomes a strictly descending
stream with the same members. -/
theorem commits_spec (l : List Nat) :
    Desc (sortDedupDesc l) ∧ ∀ p, p ∈ sortDedupDesc l ↔ p ∈ l :=
  ⟨desc_sortDedupDesc l, mem_sortDedupDesc l⟩

example : unionDesc [5, 3, 1] [4, 3, 0] = [5, 4, 3, 1, 0] := by simp [unionDesc]
example : interDesc [5, 3, 1] [4, 3, 1, 0] = [3, 1] := by simp [interDesc]
example : diffDesc [5, 3, 1] [4, 3, 0] = [5, 1] := by simp [diffDesc]
example : sortDedupDesc [1, 4, 1, 3] = [4, 3, 1] := by simp [sortDedupDesc, insertDesc]

end JjModel.C19
