import JjModel.Lemmas.RevsetResolve
import JjModel.Lemmas.RevsetOptPasses3
import JjModel.Lemmas.RevsetOptPres
/-!
  C19 — revset evaluation matches set semantics: theorems about the model
  `JjModel.Revset` (`lean/JjModel/Model/Revset.lean`: the definitions the driver runs;
  `lean/JjModel/Model/RevsetSem.lean`: the set-theoretic semantics `denote`).

  A revset result is a list of index positions; `Desc l` (strictly descending) says "newest
  first, no duplicates".  Together with a membership characterisation it determines the list
  (`desc_ext`), so every `…_spec` below pins the model's output completely.
-/
namespace JjModel.C19
open JjModel.Revset

/-! ## sorted-stream set operators -/

/-- `UnionRevWalk`: on strictly descending streams the result is strictly descending and its
members are exactly the members of either input. -/
theorem union_spec (xs ys : List Nat) (hx : Desc xs) (hy : Desc ys) :
    Desc (unionDesc xs ys) ∧ ∀ p, p ∈ unionDesc xs ys ↔ p ∈ xs ∨ p ∈ ys :=
  ⟨desc_unionDesc xs ys hx hy, mem_unionDesc xs ys⟩

/-- `IntersectionRevWalk` -/
theorem intersection_spec (xs ys : List Nat) (hx : Desc xs) (hy : Desc ys) :
    Desc (interDesc xs ys) ∧ ∀ p, p ∈ interDesc xs ys ↔ p ∈ xs ∧ p ∈ ys :=
  ⟨desc_interDesc xs ys hx hy, mem_interDesc xs ys hx hy⟩

/-- `DifferenceRevWalk` -/
theorem difference_spec (xs ys : List Nat) (hx : Desc xs) (hy : Desc ys) :
    Desc (diffDesc xs ys) ∧ ∀ p, p ∈ diffDesc xs ys ↔ p ∈ xs ∧ p ∉ ys :=
  ⟨desc_diffDesc xs ys hx hy, mem_diffDesc xs ys hx hy⟩

/-- `revset_for_commit_ids`: any id list (duplicates, any order) becomes a strictly descending
stream with the same members. -/
theorem commits_spec (l : List Nat) :
    Desc (sortDedupDesc l) ∧ ∀ p, p ∈ sortDedupDesc l ↔ p ∈ l :=
  ⟨desc_sortDedupDesc l, mem_sortDedupDesc l⟩

/-- a strictly descending list is determined by its members: "the set, newest first" is unique -/
theorem result_unique {l₁ l₂ : List Nat} (h₁ : Desc l₁) (h₂ : Desc l₂) (h : ∀ p, p ∈ l₁ ↔ p ∈ l₂) :
    l₁ = l₂ := desc_ext h₁ h₂ h

example : unionDesc [5, 3, 1] [4, 3, 0] = [5, 4, 3, 1, 0] := by simp [unionDesc]
example : interDesc [5, 3, 1] [4, 3, 1, 0] = [3, 1] := by simp [interDesc]
example : diffDesc [5, 3, 1] [4, 3, 0] = [5, 1] := by simp [diffDesc]
example : sortDedupDesc [1, 4, 1, 3] = [4, 3, 1] := by simp [sortDedupDesc, insertDesc]

/-! ## walks -/

/-- `RevWalkImpl` (any queue state, any `min_pos`): the scan emits exactly the positions
`≥ min_pos` reachable from a wanted item along the (first-)parent edges and not reachable from
an unwanted item along all parent edges — in strictly descending order. -/
theorem walk_spec {adj : Nat → List Nat} (ht : Topo adj) (fp : Bool) (m n : Nat) (w u : List Nat) :
    Desc (walkAnc adj fp m n w u) ∧
      ∀ p, p ∈ walkAnc adj fp m n w u ↔
        m ≤ p ∧ p < n ∧ WantedReach adj fp n w p ∧ ¬ UnwantedReach adj n u p :=
  ⟨desc_walkAnc ht fp m n w u, mem_walkAnc ht fp m n w u⟩

/-- `RevWalkGenerationRangeImpl` (any queue state): the scan with *merged* item ranges and
saturating `end + 1` emits exactly the positions that some pending item reaches by a path whose
length passes that item's own range test — merging overlapping ranges (`try_merge_end`) and
saturation never change the answer. -/
theorem walk_generation_spec {adj : Nat → List Nat} (ht : Topo adj) (fp : Bool) {E : Nat}
    (hE : E ≤ U32MAX) (n : Nat) (w : List (Nat × GRange)) (u : List Nat) :
    Desc (walkGen adj fp E n w u) ∧
      ∀ p, p ∈ walkGen adj fp E n w u ↔
        p < n ∧ WantedGen adj fp E n w p ∧ ¬ UnwantedReach adj n u p :=
  ⟨desc_walkGen ht fp hE n w u, mem_walkGen ht fp hE n w u⟩

/-- `try_merge_end` is exact: a merged range passes the shifted test iff one of the two does. -/
theorem merge_exact {a b : GRange} (hs : a.s ≤ b.s) (hm : b.s ≤ a.e) (E t : Nat) :
    (GRange.mk a.s (max a.e b.e)).T E t ↔ a.T E t ∨ b.T E t := merge_T hs hm E t

/-- `Ancestors{heads, generation, parents_range}` and `Range{roots, heads, …}` arms
(`unwanted = []` for `Ancestors`): ancestors of the heads at a generation inside the range
(first-parent only when `fp`), minus every ancestor of the roots. -/
theorem ancestors_spec (g : Graph) (hw : g.WF) (fp : Bool) (lo : Nat) (hi : Option Nat)
    (heads unwanted : List Nat) (hh : ∀ h ∈ heads, h < g.size) (hu : ∀ r ∈ unwanted, r < g.size) :
    Desc (ancestorsWalk g fp lo hi heads unwanted) ∧
      ∀ p, p ∈ ancestorsWalk g fp lo hi heads unwanted ↔
        (∃ h ∈ heads, ∃ k, inGen lo hi k ∧ PathK (g.adj fp) k h p) ∧
          ¬ ∃ r ∈ unwanted, Path g.par r p :=
  ⟨desc_ancestorsWalk g hw fp lo hi heads unwanted,
   mem_ancestorsWalk g hw fp lo hi heads unwanted hh hu⟩

/-- `DagRange` arm, full generation range (`RevWalkDescendantsImpl`) -/
theorem descendants_spec (g : Graph) (hw : g.WF) (heads roots : List Nat)
    (hh : ∀ h ∈ heads, h < g.size) :
    Desc (descendantsOf g heads roots) ∧
      ∀ p, p ∈ descendantsOf g heads roots ↔
        (∃ h ∈ heads, Path g.par h p) ∧ ∃ r ∈ roots, Path g.par p r :=
  ⟨desc_descendantsOf g hw heads roots, mem_descendantsOf g hw heads roots hh⟩

/-- `DagRange` arm, bounded generation range (`descendants_filtered_by_generation`: the
generation walk over the reversed children index) -/
theorem descendants_range_spec (g : Graph) (hw : g.WF) (heads roots : List Nat)
    (hh : ∀ h ∈ heads, h < g.size) (lo : Nat) (hi : Option Nat) :
    Desc (descendantsGen g lo hi heads roots) ∧
      ∀ p, p ∈ descendantsGen g lo hi heads roots ↔
        (∃ h ∈ heads, Path g.par h p) ∧ ∃ r ∈ roots, ∃ k, inGen lo hi k ∧ PathK g.par k p r :=
  ⟨desc_descendantsGen g hw heads roots hh lo hi, mem_descendantsGen g hw heads roots hh lo hi⟩

/-- `heads_pos`, including the pruning by generation number -/
theorem heads_spec (g : Graph) (hw : g.WF) (cands : List Nat) (hd : Desc cands)
    (hc : ∀ c ∈ cands, c < g.size) :
    Desc (headsPos g cands) ∧ ∀ p, p ∈ headsPos g cands ↔ HeadsOf g (· ∈ cands) p :=
  ⟨desc_headsPos g hw.topo cands hd, mem_headsPos g hw.topo cands hc⟩

/-- `Roots` arm -/
theorem roots_spec (g : Graph) (hw : g.WF) (xs : List Nat) (hd : Desc xs)
    (hx : ∀ x ∈ xs, x < g.size) :
    Desc (rootsOf g xs) ∧ ∀ p, p ∈ rootsOf g xs ↔ RootsOf g (· ∈ xs) p :=
  ⟨desc_rootsOf g xs hd, mem_rootsOf g hw xs hx⟩

/-- `ForkPoint` arm: iterated `common_ancestors_pos` = the heads of the commits that are
ancestors of *every* candidate (empty for no candidates) -/
theorem fork_point_spec (g : Graph) (hw : g.WF) (cands : List Nat) (hc : ∀ c ∈ cands, c < g.size) :
    Desc (forkPoint g cands) ∧ ∀ p, p ∈ forkPoint g cands ↔ ForkPointOf g (· ∈ cands) p :=
  forkPoint_spec g hw cands hc

/-- `common_ancestors_pos` -/
theorem common_ancestors_spec (g : Graph) (hw : g.WF) (s1 s2 : List Nat)
    (h1 : ∀ a ∈ s1, a < g.size) (h2 : ∀ a ∈ s2, a < g.size) :
    Desc (commonAncestorsPos g s1 s2) ∧ ∀ p, p ∈ commonAncestorsPos g s1 s2 ↔
      HeadsOf g (fun c => (∃ a ∈ s1, Path g.par a c) ∧ ∃ a ∈ s2, Path g.par a c) p :=
  ⟨desc_commonAncestorsPos g hw s1 s2, mem_commonAncestorsPos g hw s1 s2 h1 h2⟩

/-- `MergePoint` arm: common descendants inside `::visible_heads`, minus those with a parent in
the set = the roots of the visible common descendants -/
theorem merge_point_spec (g : Graph) (hw : g.WF) (vh roots : List Nat) (hvh : ∀ h ∈ vh, h < g.size) :
    Desc (mergePointArm g vh roots) ∧
      ∀ p, p ∈ mergePointArm g vh roots ↔ MergePointOf g (AncAll g (· ∈ vh)) (· ∈ roots) p :=
  mergePoint_spec g hw vh roots hvh

/-- `Forks` arm: the child-count walk emits the visible commits with ≥ 2 visible children -/
theorem forks_arm_spec (g : Graph) (hw : g.WF) (heads : List Nat) (hh : ∀ h ∈ heads, h < g.size) :
    Desc (forksArm g heads) ∧ ∀ p, p ∈ forksArm g heads ↔ ForksOf g (AncAll g (· ∈ heads)) p :=
  forks_spec g hw heads hh

/-- `take_latest_revset`: the bounded min-heap selection keeps exactly the candidates with fewer
than `count` later candidates (committer timestamp, ties by position) -/
theorem latest_spec (g : Graph) (cands : List Nat) (hn : cands.Nodup) (count : Nat) :
    Desc (takeLatest g cands count) ∧
      ∀ p, p ∈ takeLatest g cands count ↔ LatestOf g (· ∈ cands) count p := by
  refine ⟨?_, mem_takeLatest g cands hn count⟩
  unfold takeLatest
  split
  · simp [Desc]
  · exact desc_sortDedupDesc _

/-- `Reachable` arm: the closure computes the members of the domain connected, inside the
domain, to a source that lies in the domain -/
theorem reachable_spec (g : Graph) (srcs dom : List Nat) (hd : Desc dom) :
    Desc (reachableIn g srcs dom) ∧
      ∀ p, p ∈ reachableIn g srcs dom ↔
        p ∈ dom ∧ ∃ x, x ∈ srcs ∧ x ∈ dom ∧ Conn g (· ∈ dom) x p :=
  ⟨hd.sublist (reachableIn_sublist g srcs dom), mem_reachableIn g srcs dom⟩

/-! ## the engine against the plan semantics, the plan against the expression semantics -/

/-- every covered `ResolvedExpression` evaluates to the strictly descending list of the
positions it denotes -/
theorem engine_sound (g : Graph) (hw : g.WF) (r : RExpr) (hok : OkR g r) :
    Desc (eval g r) ∧ ∀ p, p ∈ eval g r ↔ denoteR g r p :=
  ⟨(eval_spec g hw r hok).desc, (eval_spec g hw r hok).mem⟩

/-- `resolve_visibility` preserves the meaning (with `all()` = `::(visible heads ∪ referenced)`) -/
theorem resolve_visibility_sound (g : Graph) (refs : List Nat) (e : Expr) (hok : OkE g e) (p : Nat) :
    denoteR g (resolve g refs e) p ↔ denote g (refs ++ g.heads) e p :=
  resolve_spec g refs e hok p

/-- **Main theorem.**  For every well-formed graph and every covered expression, the model's
evaluation (`evaluate_unoptimized`: collect referenced commits, resolve visibility, run the
engine) yields exactly the set the expression denotes, newest first, without duplicates. -/
theorem eval_sound (g : Graph) (hw : g.WF) (e : Expr) (hok : OkE g e) :
    Desc (evalTop g e) ∧ ∀ p, p ∈ evalTop g e ↔ denoteTop g e p := by
  have hrefs := refsOf_lt g e hok
  have hR := resolve_ok g hw (refsOf e) hrefs e hok
  have hs := eval_spec g hw _ hR
  exact ⟨hs.desc, fun p => (hs.mem p).trans (resolve_spec g _ e hok p)⟩

/-- two covered expressions that denote the same set evaluate to the same list -/
theorem eval_eq_of_denote_eq (g : Graph) (hw : g.WF) (e₁ e₂ : Expr) (h₁ : OkE g e₁) (h₂ : OkE g e₂)
    (h : ∀ p, denoteTop g e₁ p ↔ denoteTop g e₂ p) : evalTop g e₁ = evalTop g e₂ := by
  have s₁ := eval_sound g hw e₁ h₁
  have s₂ := eval_sound g hw e₂ h₂
  exact desc_ext s₁.1 s₂.1 fun p => (s₁.2 p).trans ((h p).trans (s₂.2 p).symm)

/-! ## `optimize()` -/

/-- every commit other than the root has a parent, and there is a visible head (true in every
jj repository); then the root commit is an ancestor of everything visible -/
structure Rooted (g : Graph) : Prop where
  heads_ne : g.heads ≠ []
  has_parent : ∀ p, p < g.size → p ≠ 0 → g.par p ≠ []

theorem path_to_root (g : Graph) (hw : g.WF) (hr : Rooted g) :
    ∀ (n p : Nat), p ≤ n → p < g.size → Path g.par p 0 := by
  intro n
  induction n with
  | zero => intro p hp _; have : p = 0 := by omega
            subst this; exact Path.refl _ _
  | succ n ih =>
    intro p hp hlt
    by_cases h0 : p = 0
    · subst h0; exact Path.refl _ _
    · have hne := hr.has_parent p hlt h0
      cases hpar : g.par p with
      | nil => exact absurd hpar hne
      | cons q rest =>
        have hq : q ∈ g.par p := by rw [hpar]; simp
        have := hw.topo _ _ hq
        exact Path.head hq (ih q (by omega) (by omega))

theorem wf_refsOf_lt (g : Graph) : ∀ (e : Expr), e.WF g → ∀ x ∈ refsOf e, x < g.size := by
  intro e
  induction e with
  | commits l => intro h x hx; exact h x hx
  | ancestors h lo hi fp ih => intro hok; exact ih hok
  | descendants r lo hi ih => intro hok; exact ih hok
  | heads x ih => intro hok; exact ih hok
  | roots x ih => intro hok; exact ih hok
  | forkPoint x ih => intro hok; exact ih hok
  | mergePoint x ih => intro hok; exact ih hok
  | latest x n ih => intro hok; exact ih hok
  | notIn x ih => intro hok; exact ih hok
  | range r h lo hi fp ihr ihh =>
    intro hok x hx
    simp only [refsOf, List.mem_append] at hx
    exact hx.elim (ihr hok.1 x) (ihh hok.2 x)
  | dagRange r h ihr ihh =>
    intro hok x hx
    simp only [refsOf, List.mem_append] at hx
    exact hx.elim (ihr hok.1 x) (ihh hok.2 x)
  | reachable r h ihr ihh =>
    intro hok x hx
    simp only [refsOf, List.mem_append] at hx
    exact hx.elim (ihr hok.1 x) (ihh hok.2 x)
  | coalesce r h ihr ihh =>
    intro hok x hx
    simp only [refsOf, List.mem_append] at hx
    exact hx.elim (ihr hok.1 x) (ihh hok.2 x)
  | union r h ihr ihh =>
    intro hok x hx
    simp only [refsOf, List.mem_append] at hx
    exact hx.elim (ihr hok.1 x) (ihh hok.2 x)
  | inter r h ihr ihh =>
    intro hok x hx
    simp only [refsOf, List.mem_append] at hx
    exact hx.elim (ihr hok.1 x) (ihh hok.2 x)
  | diff r h ihr ihh =>
    intro hok x hx
    simp only [refsOf, List.mem_append] at hx
    exact hx.elim (ihr hok.1 x) (ihh hok.2 x)
  | headsRange r h fp f ihr ihh ihf =>
    intro hok x hx
    simp only [refsOf, List.mem_append] at hx
    rcases hx with (hx | hx) | hx
    · exact ihr hok.1 x hx
    · exact ihh hok.2.1 x hx
    · exact ihf hok.2.2 x hx
  | none => intro _ x hx; simp [refsOf] at hx
  | all => intro _ x hx; simp [refsOf] at hx
  | visibleHeads => intro _ x hx; simp [refsOf] at hx
  | visibleHeadsOrReferenced => intro _ x hx; simp [refsOf] at hx
  | root => intro _ x hx; simp [refsOf] at hx
  | forks => intro _ x hx; simp [refsOf] at hx

/-- the rewrite context of a whole expression: `vh` = its referenced commits ++ the visible heads -/
theorem ctx_of (g : Graph) (hw : g.WF) (hr : Rooted g) (refs : List Nat)
    (hrefs : ∀ x ∈ refs, x < g.size) : Ctx g (refs ++ g.heads) where
  wf := hw
  rootIn := by
    cases hh : g.heads with
    | nil => exact absurd hh hr.heads_ne
    | cons h rest =>
      have hm : h ∈ g.heads := by rw [hh]; simp
      refine ⟨h, by simp, ?_⟩
      exact path_to_root g hw hr h h (Nat.le_refl _) (hw.heads_lt h hm)
  headsIn := fun h hh => by simp [hh]
  lt := by
    intro x hx
    simp only [List.mem_append] at hx
    exact hx.elim (hrefs x) (hw.heads_lt x)

/-- **`optimize` preserves the meaning**: all nine modelled rewrite passes (`unfold_difference`,
`fold_redundant_expression`, `fold_generation`, `flatten_intersections`,
`sort_negations_and_ancestors`, `fold_ancestors_union`, `fold_heads_range`, `fold_difference`,
`fold_not_in_ancestors`), on *every* modelled expression (also `reachable`, `fork_point`,
`latest`, `heads_range`), keep the denoted set — with the visibility context fixed before
rewriting, exactly as `optimize()` collects the referenced commits first. -/
theorem optimize_sound (g : Graph) (hw : g.WF) (hr : Rooted g) (e : Expr) (hwf : e.WF g) :
    denote g (refsOf e ++ g.heads) (optimize e) = denoteTop g e :=
  (optimize_sound_ctx (ctx_of g hw hr (refsOf e) (wf_refsOf_lt g e hwf)) e
    (fun x hx => by simp [hx])).2

/-- each pass separately (for any context `vh` that contains the heads, the root's
visibility and the expression's own commit literals) -/
theorem pass_sound (g : Graph) (vh : List Nat) (ctx : Ctx g vh) :
    Sound g vh (bottomUp unfoldDifferenceF) ∧ Sound g vh (bottomUp foldRedundantF) ∧
    Sound g vh (bottomUp foldGenerationF) ∧ Sound g vh (bottomUp flattenIntersectionsF) ∧
    Sound g vh (bottomUp sortNegationsF) ∧ Sound g vh (bottomUp foldAncestorsUnionF) ∧
    Sound g vh (bottomUp foldHeadsRangeF) ∧ Sound g vh (bottomUp foldDifferenceF) ∧
    Sound g vh (bottomUp foldNotInAncestorsF) :=
  ⟨unfoldDifference_sound ctx, foldRedundant_sound ctx, foldGeneration_sound,
   flattenIntersections_sound, sortNegations_sound, foldAncestorsUnion_sound,
   foldHeadsRange_sound ctx, foldDifference_sound ctx, foldNotInAncestors_sound⟩

/-- `eval_sound` for an arbitrary set of referenced commits (what `evaluate` uses after
`optimize` may have deleted some literals) -/
theorem eval_sound_refs (g : Graph) (hw : g.WF) (refs : List Nat) (hrefs : ∀ x ∈ refs, x < g.size)
    (e : Expr) (hok : OkE g e) :
    Desc (eval g (resolve g refs e)) ∧
      ∀ p, p ∈ eval g (resolve g refs e) ↔ denote g (refs ++ g.heads) e p := by
  have hR := resolve_ok g hw refs hrefs e hok
  have hs := eval_spec g hw _ hR
  exact ⟨hs.desc, fun p => (hs.mem p).trans (resolve_spec g _ e hok p)⟩

/-- **Optimized = unoptimized**, whenever the rewritten expression stays inside the grammar of
`eval_sound` (i.e. the optimizer did not introduce a `HeadsRange` node). -/
theorem optimized_eq_unoptimized (g : Graph) (hw : g.WF) (hr : Rooted g) (e : Expr)
    (hok : OkE g e) (hwf : e.WF g) (hopt : OkE g (optimize e)) : evalTopOpt g e = evalTop g e := by
  have s₁ := eval_sound_refs g hw (refsOf e) (refsOf_lt g e hok) (optimize e) hopt
  have s₂ := eval_sound g hw e hok
  refine desc_ext s₁.1 s₂.1 fun p => ?_
  show p ∈ eval g (resolve g (refsOf e) (optimize e)) ↔ _
  rw [s₁.2 p, optimize_sound g hw hr e hwf]
  exact (s₂.2 p).symm

/-! ## the full grammar (with the optimizer's `HeadsRange`) -/

theorem okEH_wf (g : Graph) : ∀ (e : Expr), OkEH g e → e.WF g := by
  intro e
  induction e with
  | commits l => intro h; exact h
  | ancestors h lo hi fp ih => intro hok; exact ih hok
  | descendants r lo hi ih => intro hok; exact ih hok
  | heads x ih => intro hok; exact ih hok
  | roots x ih => intro hok; exact ih hok
  | forkPoint x ih => intro hok; exact ih hok
  | mergePoint x ih => intro hok; exact ih hok
  | latest x n ih => intro hok; exact ih hok
  | notIn x ih => intro hok; exact ih hok
  | range r h lo hi fp ihr ihh => intro hok; exact ⟨ihr hok.1, ihh hok.2⟩
  | dagRange r h ihr ihh => intro hok; exact ⟨ihr hok.1, ihh hok.2⟩
  | coalesce r h ihr ihh => intro hok; exact ⟨ihr hok.1, ihh hok.2⟩
  | union r h ihr ihh => intro hok; exact ⟨ihr hok.1, ihh hok.2⟩
  | inter r h ihr ihh => intro hok; exact ⟨ihr hok.1, ihh hok.2⟩
  | diff r h ihr ihh => intro hok; exact ⟨ihr hok.1, ihh hok.2⟩
  | headsRange r h fp f ihr ihh ihf => intro hok; exact ⟨ihr hok.1, ihh hok.2.1, ihf hok.2.2⟩
  | reachable s d ihs ihd => intro hok; exact ⟨ihs hok.1, ihd hok.2⟩
  | none => intro _; trivial
  | all => intro _; trivial
  | visibleHeads => intro _; trivial
  | visibleHeadsOrReferenced => intro _; trivial
  | root => intro _; trivial
  | forks => intro _; trivial

/-- `heads_from_range_and_filter` (the `HeadsRange` arm): heads of
`{c ∈ ancestors(H) | c ∉ ::roots, filter c}` -/
theorem heads_range_spec (g : Graph) (hw : g.WF) (fp : Bool) (filter : Nat → Bool)
    (roots H : List Nat) (hH : ∀ h ∈ H, h < g.size) (hr : ∀ r ∈ roots, r < g.size)
    (hdH : Desc H) (hdr : Desc roots) :
    Desc (headsRangeArm g fp filter roots (diffDesc H roots)) ∧
      ∀ p, p ∈ headsRangeArm g fp filter roots (diffDesc H roots) ↔
        HeadsOf g (fun c => (∃ h ∈ H, Path (g.adj fp) h c) ∧ (¬ ∃ r ∈ roots, Path g.par r c) ∧
          filter c = true) p :=
  ⟨desc_headsRangeArm g hw fp filter roots _, mem_headsRangeArm g hw fp filter roots H hH hr hdH hdr⟩

/-- `eval_sound` for every modelled expression (including `reachable` and the
optimizer-internal `HeadsRange` with its predicate filter), for an arbitrary list of referenced
commits that covers the literals of the expression; needs a rooted graph because a `HeadsRange`
filter `all()`/`~x` is only equivalent to its predicate form on visible commits. -/
theorem eval_sound_full_refs (g : Graph) (hw : g.WF) (hr : Rooted g) (refs : List Nat)
    (hrefs : ∀ x ∈ refs, x < g.size) (e : Expr) (hok : OkEH g e) (hin : RefsIn (refs ++ g.heads) e) :
    Desc (eval g (resolve g refs e)) ∧
      ∀ p, p ∈ eval g (resolve g refs e) ↔ denote g (refs ++ g.heads) e p := by
  have hR := (resolveH_ok g hw refs hrefs e hok).1
  have hs := eval_spec g hw _ hR
  have hd := (resolveH_spec g refs (ctx_of g hw hr refs hrefs) e hok hin).1
  exact ⟨hs.desc, fun p => (hs.mem p).trans (hd p)⟩

/-- **Main theorem, full grammar.** -/
theorem eval_sound_full (g : Graph) (hw : g.WF) (hr : Rooted g) (e : Expr) (hok : OkEH g e) :
    Desc (evalTop g e) ∧ ∀ p, p ∈ evalTop g e ↔ denoteTop g e p :=
  eval_sound_full_refs g hw hr (refsOf e) (wf_refsOf_lt g e (okEH_wf g e hok)) e hok
    (fun x hx => by simp [hx])

/-- **Optimized = unoptimized**, unconditionally: for every rooted well-formed graph and every
modelled expression with in-range commit literals, `evaluate` (optimize, then
resolve and run the engine) and `evaluate_unoptimized` return the same list. -/
theorem optimized_eq_unoptimized_full (g : Graph) (hw : g.WF) (hr : Rooted g) (e : Expr)
    (hok : OkEH g e) : evalTopOpt g e = evalTop g e := by
  have hwf := okEH_wf g e hok
  have hrefs := wf_refsOf_lt g e hwf
  have hopt := optimize_sound_ctx (ctx_of g hw hr (refsOf e) hrefs) e (fun x hx => by simp [hx])
  have s₁ := eval_sound_full_refs g hw hr (refsOf e) hrefs (optimize e) (optimize_pres e hok) hopt.1
  have s₂ := eval_sound_full g hw hr e hok
  refine desc_ext s₁.1 s₂.1 fun p => ?_
  show p ∈ eval g (resolve g (refsOf e) (optimize e)) ↔ _
  rw [s₁.2 p, hopt.2]
  exact (s₂.2 p).symm

/-! ## non-vacuity: a concrete graph with a merge and a hidden commit -/

/-- executable check of `Graph.WF` (for the examples) -/
def topoOk : List (List Nat) → Nat → Bool
  | [], _ => true
  | ps :: rest, i => ps.all (· < i) && topoOk rest (i + 1)

theorem topoOk_sound : ∀ (l : List (List Nat)) (i : Nat), topoOk l i = true →
    ∀ j q, q ∈ l.getD j [] → q < i + j := by
  intro l
  induction l with
  | nil => intro i _ j q hq; simp at hq
  | cons ps rest ih =>
    intro i h j q hq
    simp only [topoOk, Bool.and_eq_true, List.all_eq_true, decide_eq_true_eq] at h
    cases j with
    | zero => simp at hq; exact h.1 q hq
    | succ j =>
      simp only [List.getD_cons_succ] at hq
      have := ih (i + 1) h.2 j q hq
      omega

theorem wf_of_check (g : Graph) (h1 : topoOk g.parents 0 = true)
    (h2 : g.heads.all (· < g.size) = true) (h3 : 0 < g.size) (h4 : g.size ≤ U32MAX)
    (h5 : g.parents.all (fun ps => decide ps.Nodup) = true) : g.WF where
  topo := by
    intro p q hq
    have := topoOk_sound g.parents 0 h1 p q hq
    omega
  heads_lt := by
    intro h hh
    simp only [List.all_eq_true, decide_eq_true_eq] at h2
    exact h2 h hh
  size_pos := h3
  size_le := h4
  par_nodup := by
    intro p
    simp only [List.all_eq_true, decide_eq_true_eq] at h5
    by_cases hp : p < g.parents.length
    · have : g.par p ∈ g.parents := by
        simp only [Graph.par, List.getD_eq_getElem?_getD, List.getElem?_eq_getElem hp, Option.getD_some]
        exact List.getElem_mem hp
      exact h5 _ this
    · have : g.par p = [] := by
        simp [Graph.par, List.getD_eq_getElem?_getD, List.getElem?_eq_none (Nat.le_of_not_lt hp)]
      rw [this]; exact List.nodup_nil

/-- root 0; 1,2 on the root; 3 merges 1 and 2; 4 on 3; 5 on 2 is hidden (visible head: 4) -/
def exG : Graph := { parents := [[], [0], [0], [1, 2], [3], [2]], heads := [4], ts := [0, 3, 1, 2, 2, 5] }

theorem exG_wf : exG.WF := wf_of_check exG (by decide) (by decide) (by decide) (by decide) (by decide)

/-- `~(::2)` on `exG`: covered, and the theorem applies -/
example : OkE exG (.notIn (.ancestors (.commits [2]) 0 none false)) := by simp [OkE, exG, Graph.size]

example :
    let e := Expr.notIn (.ancestors (.commits [2]) 0 none false)
    Desc (evalTop exG e) ∧ ∀ p, p ∈ evalTop exG e ↔ denoteTop exG e p :=
  eval_sound exG exG_wf _ (by simp [OkE, exG, Graph.size])

theorem exG_rooted : Rooted exG where
  heads_ne := by decide
  has_parent := by
    intro p hp h0
    have : p < 6 := hp
    match p, this, h0 with
    | 1, _, _ => decide
    | 2, _, _ => decide
    | 3, _, _ => decide
    | 4, _, _ => decide
    | 5, _, _ => decide

/-- `(::4) ~ (::1)` is rewritten to `Range{roots: 1, heads: 4}` — both sides covered -/
example : evalTopOpt exG (.diff (.ancestors (.commits [4]) 0 none false) (.ancestors (.commits [1]) 0 none false))
    = evalTop exG (.diff (.ancestors (.commits [4]) 0 none false) (.ancestors (.commits [1]) 0 none false)) :=
  optimized_eq_unoptimized exG exG_wf exG_rooted _ (by simp [OkE, exG, Graph.size])
    (by simp [Expr.WF, exG, Graph.size])
    (by simp [optimize, bottomUp, unfoldDifferenceF, foldRedundantF, foldGenerationF,
          flattenIntersectionsF, flattenInter, sortNegationsF, sortInterHelper, ancestorsOrder,
          foldAncestorsUnionF, foldHeadsRangeF, toHeadsRange, toFilteredRange, ancestorsToHeadsPr,
          ancestorsToHeads, foldDifferenceF, toDifference, toDifferenceRange, foldNotInAncestorsF,
          OkE, exG, Graph.size])

/-- `heads(~(::1) & ::4)` is rewritten to `HeadsRange{roots: 1, heads: 4, filter: all}` -/
example : evalTopOpt exG (.heads (.inter (.notIn (.ancestors (.commits [1]) 0 none false))
      (.ancestors (.commits [4]) 0 none false)))
    = evalTop exG (.heads (.inter (.notIn (.ancestors (.commits [1]) 0 none false))
      (.ancestors (.commits [4]) 0 none false))) :=
  optimized_eq_unoptimized_full exG exG_wf exG_rooted _ (by simp [OkEH, exG, Graph.size])

end JjModel.C19
