import JjModel.Props.C23
import JjModel.Props.C25
/-!
  C27 — sparse patterns change the disk, never the commit.

  Theorems about `JjModel.WorkingCopy.setSparsePatterns` and `snapshot` (the definitions the driver
  runs), for an arbitrary disk, tree, file-state set and pattern lists.
-/
namespace JjModel.C27
open JjModel.WorkingCopy

/-- the tree paths that enter / leave the patterns -/
def enters (wc : WC) (pats : List Path) (p : Path) : Bool := sparseMatch pats p && !sparseMatch wc.sparse p
def leaves (wc : WC) (pats : List Path) (p : Path) : Bool := sparseMatch wc.sparse p && !sparseMatch pats p

/-- **sparse_keeps_tree**: the working-copy tree is untouched by a pattern change. -/
theorem sparse_keeps_tree (wc : WC) (disk : Disk) (pats : List Path) :
    (setSparsePatterns wc disk pats).1.tree = wc.tree ∧ (setSparsePatterns wc disk pats).1.sparse = pats :=
  ⟨rfl, rfl⟩

theorem get_emptyTree (p : Path) : get ([] : Tree) p = none := rfl

/-- the entries of the first `update` are exactly the tree paths entering the patterns, as additions -/
theorem added_entries (wc : WC) (pats : List Path) (e : DiffEntry) :
    e ∈ diffFs [] wc.tree (enters wc pats) ↔
      ∃ v, get wc.tree e.path = some v ∧ enters wc pats e.path = true ∧ e.before = none ∧ e.after = some v := by
  rw [mem_diffFs]
  simp only [get_emptyTree, List.map_nil, List.not_mem_nil, false_or]
  constructor
  · rintro ⟨_, hm, hne, hb, ha⟩
    cases hv : get wc.tree e.path with
    | none => rw [hv] at hne; exact absurd rfl hne
    | some v => exact ⟨v, rfl, hm, hb, by rw [ha, hv]⟩
  · rintro ⟨v, hv, hm, hb, ha⟩
    exact ⟨List.mem_map.mpr ⟨(e.path, v), get_some_mem hv, rfl⟩, hm, by rw [hv]; simp, hb, by rw [ha, hv]⟩

/-- the entries of the second `update` are exactly the tree paths leaving the patterns, as removals -/
theorem removed_entries (wc : WC) (pats : List Path) (e : DiffEntry) :
    e ∈ diffFs wc.tree [] (leaves wc pats) ↔
      ∃ v, get wc.tree e.path = some v ∧ leaves wc pats e.path = true ∧ e.before = some v ∧ e.after = none := by
  rw [mem_diffFs]
  simp only [get_emptyTree, List.map_nil, List.not_mem_nil, or_false]
  constructor
  · rintro ⟨_, hm, hne, hb, ha⟩
    cases hv : get wc.tree e.path with
    | none => rw [hv] at hne; exact absurd rfl hne
    | some v => exact ⟨v, rfl, hm, by rw [hb, hv], ha⟩
  · rintro ⟨v, hv, hm, hb, ha⟩
    exact ⟨List.mem_map.mpr ⟨(e.path, v), get_some_mem hv, rfl⟩, hm, by rw [hv]; simp, by rw [hb, hv], ha⟩

theorem countUpdated_zero_of_adds {es : List DiffEntry} (h : ∀ e ∈ es, e.before = none) : countUpdated es = 0 := by
  simp only [countUpdated, List.length_eq_zero_iff, List.filter_eq_nil_iff]
  intro e he; simp [h e he]
theorem countRemoved_zero_of_adds {es : List DiffEntry} (h : ∀ e ∈ es, ∃ v, e.after = some v) : countRemoved es = 0 := by
  simp only [countRemoved, List.length_eq_zero_iff, List.filter_eq_nil_iff]
  intro e he; obtain ⟨v, hv⟩ := h e he; simp [hv]
theorem countAdded_all {es : List DiffEntry} (h : ∀ e ∈ es, e.before = none ∧ ∃ v, e.after = some v) : countAdded es = es.length := by
  simp only [countAdded]
  rw [List.filter_eq_self.mpr]
  intro e he; obtain ⟨hb, v, hv⟩ := h e he; simp [hb, hv]
theorem countUpdated_zero_of_removes {es : List DiffEntry} (h : ∀ e ∈ es, e.after = none) : countUpdated es = 0 := by
  simp only [countUpdated, List.length_eq_zero_iff, List.filter_eq_nil_iff]
  intro e he; simp [h e he]
theorem countAdded_zero_of_removes {es : List DiffEntry} (h : ∀ e ∈ es, e.after = none) : countAdded es = 0 := by
  simp only [countAdded, List.length_eq_zero_iff, List.filter_eq_nil_iff]
  intro e he; simp [h e he]
theorem countRemoved_all {es : List DiffEntry} (h : ∀ e ∈ es, e.after = none) : countRemoved es = es.length := by
  simp only [countRemoved]
  rw [List.filter_eq_self.mpr]
  intro e he; simp [h e he]

/-- the four `assert_eq!` of `set_sparse_patterns` that do not depend on the disk hold, and the
reported counters are the numbers of entering / leaving tree paths -/
theorem sparse_counts (wc : WC) (disk : Disk) (pats : List Path) :
    let r := setSparsePatterns wc disk pats
    r.2.1.stats.updated = 0 ∧ r.2.1.stats.removed = 0 ∧ r.2.2.stats.updated = 0 ∧ r.2.2.stats.added = 0 ∧
    r.2.1.stats.added = (diffFs [] wc.tree (enters wc pats)).length ∧
    r.2.2.stats.removed = (diffFs wc.tree [] (leaves wc pats)).length := by
  have ha : ∀ e ∈ diffFs [] wc.tree (enters wc pats), e.before = none ∧ ∃ v, e.after = some v := by
    intro e he; obtain ⟨v, _, _, hb, hv⟩ := (added_entries wc pats e).mp he; exact ⟨hb, v, hv⟩
  have hr : ∀ e ∈ diffFs wc.tree [] (leaves wc pats), e.after = none := by
    intro e he; obtain ⟨v, _, _, _, hv⟩ := (removed_entries wc pats e).mp he; exact hv
  obtain ⟨a1, a2, a3⟩ := steps_stats (diffFs [] wc.tree (enters wc pats))
    { disk := disk, states := wc.states, stats := {}, log := [] }
  let added := update disk wc.states [] wc.tree (enters wc pats)
  obtain ⟨r1, r2, r3⟩ := steps_stats (diffFs wc.tree [] (leaves wc pats))
    { disk := added.disk, states := added.states, stats := {}, log := [] }
  refine ⟨a3.trans ?_, a2.trans ?_, r3.trans ?_, r1.trans ?_, a1.trans ?_, r2.trans ?_⟩
  · rw [countUpdated_zero_of_adds (fun e he => (ha e he).1)]
  · rw [countRemoved_zero_of_adds (fun e he => (ha e he).2)]
  · rw [countUpdated_zero_of_removes hr]
  · rw [countAdded_zero_of_removes hr]
  · rw [countAdded_all ha]; simp
  · rw [countRemoved_all hr]; simp

/-- **sparse_adds_removes_exactly** (the disk): a file or symlink at a path that is not a tree path
crossing the pattern boundary is unchanged by the pattern change, and no file or symlink appears at
such a path.  (Together with `added_entries` / `removed_entries`: only tree paths entering the
patterns are written, only tree paths leaving them are removed.) -/
theorem sparse_touches_only_crossing_paths (wc : WC) (disk : Disk) (pats : List Path) {q : Path} {x : Entry}
    (hx : x ≠ .dir)
    (hq : get wc.tree q = none ∨ (enters wc pats q = false ∧ leaves wc pats q = false)) :
    get (setSparsePatterns wc disk pats).2.2.disk q = some x ↔ get disk q = some x := by
  have h1 : enters wc pats q = false ∨ get ([] : Tree) q = get wc.tree q := by
    rcases hq with h | h
    · right; rw [h]; rfl
    · exact Or.inl h.1
  have h2 : leaves wc pats q = false ∨ get wc.tree q = get ([] : Tree) q := by
    rcases hq with h | h
    · right; rw [h]; rfl
    · exact Or.inl h.2
  constructor
  · intro h
    exact C25.nothing_appears_elsewhere hx h1 (C25.nothing_appears_elsewhere hx h2 h)
  · intro h
    exact C25.untouched_preserved (C25.untouched_preserved h hx h1) hx h2

/-- a tree path entering the patterns is either on disk afterwards with the tree's content, or it
was skipped (and counted) because something stood in its way -/
theorem entering_written_or_skipped (wc : WC) (disk : Disk) (pats : List Path) {p : Path} {v : TreeValue}
    (hv : get wc.tree p = some v) (he : enters wc pats p = true) :
    get (setSparsePatterns wc disk pats).2.2.disk p = some (materialize v) ∨
    (p, Action.skipParent) ∈ (setSparsePatterns wc disk pats).2.1.log ∨
    (p, Action.skipExists) ∈ (setSparsePatterns wc disk pats).2.1.log := by
  have hmem : ({ path := p, before := none, after := some v } : DiffEntry) ∈ diffFs [] wc.tree (enters wc pats) :=
    (added_entries wc pats _).mpr ⟨v, hv, he, rfl, rfl⟩
  rcases steps_entry_outcome (diffFs [] wc.tree (enters wc pats))
    { disk := disk, states := wc.states, stats := {}, log := [] } (nodup_diffFs_paths _ _ _) hmem with
    ⟨v', hv', hg⟩ | ⟨hn, _⟩ | hs | hs
  · left
    simp at hv'; subst hv'
    -- the path does not leave the patterns, so the second update leaves it alone
    have hl : leaves wc pats p = false := by
      simp only [enters, leaves, Bool.and_eq_true, Bool.not_eq_true'] at he ⊢
      simp [he.1, he.2]
    exact C25.untouched_preserved hg (materialize_ne_dir v) (Or.inl hl)
  · simp at hn
  · exact Or.inr (Or.inl hs)
  · exact Or.inr (Or.inr hs)

/-- a tree path leaving the patterns has no file or symlink left on disk afterwards, unless the
removal was skipped (a directory stood at the path, or its parent was no directory — impossible right
after a snapshot, which is when the CLI changes patterns; `set_sparse_patterns` asserts it) -/
theorem leaving_removed_or_skipped (wc : WC) (disk : Disk) (pats : List Path) {p : Path} {v : TreeValue}
    (hv : get wc.tree p = some v) (hl : leaves wc pats p = true) :
    (∀ x, get (setSparsePatterns wc disk pats).2.2.disk p = some x → x = .dir) ∨
    (p, Action.skipParent) ∈ (setSparsePatterns wc disk pats).2.2.log ∨
    (p, Action.skipExists) ∈ (setSparsePatterns wc disk pats).2.2.log := by
  have hmem : ({ path := p, before := some v, after := none } : DiffEntry) ∈ diffFs wc.tree [] (leaves wc pats) :=
    (removed_entries wc pats _).mpr ⟨v, hv, hl, rfl, rfl⟩
  let added := update disk wc.states [] wc.tree (enters wc pats)
  rcases steps_entry_outcome (diffFs wc.tree [] (leaves wc pats))
    { disk := added.disk, states := added.states, stats := {}, log := [] } (nodup_diffFs_paths _ _ _) hmem with
    ⟨v', hv', _⟩ | ⟨_, hg⟩ | hs | hs
  · simp at hv'
  · exact Or.inl hg
  · exact Or.inr (Or.inl hs)
  · exact Or.inr (Or.inr hs)

/-- **snapshot_outside_sparse_not_deleted**: a snapshot keeps the tree value of every path outside
the patterns (side condition: the path was not turned into a directory on disk — a tree cannot hold
a file and entries below it; see notes/C27.md). -/
theorem snapshot_outside_sparse_not_deleted {wc : WC} {disk : Disk} {ign : Path → Bool} {p : Path}
    (hwf : WFDisk disk) (hp : p ≠ []) (hns : sparseMatch wc.sparse p = false)
    (hnd : get disk p ≠ some .dir) :
    get (snapshot wc disk ign).tree p = get wc.tree p ∧
    (p ∈ (snapshot wc disk ign).states ↔ p ∈ wc.states) := by
  have hdec := C23.decide_outside_sparse (wc := wc) (disk := disk) (ign := ign) hns
  constructor
  · simp only [snapshot]
    rw [fold_tree_get wc disk ign p (C23.no_record_below hwf hp hnd)]
    simp [hdec, decTree]
  · simp only [snapshot]
    rw [fold_states_mem]
    simp [hdec, decState]

/-! ### non-vacuity -/

def exWC : WC := { tree := [(["d", "x"], .file "78" false), (["h"], .file "68" true), (["f"], .file "66" false)],
                   states := [["d", "x"], ["f"]], sparse := [["d"], ["f"]] }
def exDisk : Disk := [(["d"], .dir), (["d", "x"], .file "78" false), (["f"], .file "6d" false), (["zz"], .file "7a" false)]

/-- patterns `d;f` → `h;f`: `h` is written, `d/x` removed (and the emptied `d`), the modified `f`
(stays inside) and the untracked `zz` untouched; one added, one removed, none skipped -/
example :
    let r := setSparsePatterns exWC exDisk [["h"], ["f"]]
    get r.2.2.disk ["h"] = some (.file "68" true) ∧ get r.2.2.disk ["d", "x"] = none ∧ get r.2.2.disk ["d"] = none ∧
    get r.2.2.disk ["f"] = some (.file "6d" false) ∧ get r.2.2.disk ["zz"] = some (.file "7a" false) ∧
    r.1.tree = exWC.tree ∧ r.2.1.stats.added = 1 ∧ r.2.2.stats.removed = 1 ∧ r.2.1.stats.skipped = 0 := by decide

/-- a snapshot under patterns `d;f` keeps `h` (outside, absent on disk) in the tree -/
example : get (snapshot exWC exDisk (fun _ => false)).tree ["h"] = some (.file "68" true) := by decide
example : enters exWC [["h"], ["f"]] ["h"] = true ∧ leaves exWC [["h"], ["f"]] ["d", "x"] = true := by decide

end JjModel.C27
