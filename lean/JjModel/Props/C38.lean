import JjModel.Lemmas.Annotate
import JjModel.Lemmas.AnnotateResolved
/-!
  C38 — Annotations blame the commit that introduced each line.

  Theorems about `JjModel.Annotate.annotate G S start texts diffs`, the model of
  `FileAnnotator::from_commit` + `compute` + `to_annotation` (`lib/src/annotate.rs`):
  `G` the commit DAG by index position, `S` the evaluated search set
  `heads | (domain & ::heads & files(path))`, `texts[c]` the lines of the file at commit `c`,
  `diffs` the abstract line diff (matching ranges per (commit, ancestor) pair).

  The only hypothesis about the diff is `diffsSound texts diffs = true`: every matching range pairs
  equal lines, lies inside both files, and the ranges ascend — checked by the driver (and
  independently by the harness against the real texts) on every request. The theorems about the walk
  assume a well-formed DAG (`wfB G`, checked by the driver) and, for `err_origin_not_searched`, that
  the starting commit is a commit of `G` and of `S` (`S = heads | …` by construction).

  * `annotation_text`           — the annotated text is the file at the start commit, with exactly one
                                  origin per line;
  * `origin_is_ancestor`        — every origin (resolved or not) is an ancestor of the start commit;
  * `origin_contains_line`      — the blamed commit's version has the annotated line at the reported
                                  line number (for resolved `Ok` and unresolved `Err` origins alike);
  * `ok_origin_is_searched`     — a resolved origin is a commit of the searched set;
  * `origin_not_from_parents`   — a resolved (`Ok`) line was left unmatched by the diff against
                                  **every edge the search walked from the blamed commit**
                                  (direct, indirect and missing edges of the searched graph).
  * `err_origin_not_searched`   — an unresolved (`Err`) origin is never a commit of the searched set:
                                  when the walk stops (early exit `commit_source_map.len() ==
                                  num_unresolved_roots` included) no searched commit has pending lines.
                                  True since `/repo` a594350 (an omitted parent is counted as an
                                  unresolved root once); with the per-edge count it was false.
  What is *not* provable, because it is false for the code (see notes/C38.md, known findings F10, F11):
  "… against every parent inside the domain" (the walk sees only the graph of the commits that touch
  the file, with transitive edges skipped).
-/
namespace JjModel.C38
open JjModel.Dag JjModel.Graph JjModel.Annotate

variable {G : Graph} {S : List Nat} {start : Nat} {texts : List (List Nat)} {diffs : Diffs}

/-- The annotated text is the file content at the start commit, and there is exactly one origin
per line. -/
theorem annotation_text :
    (annotate G S start texts diffs).2 = texts.getD start [] ∧
    (annotate G S start texts diffs).1.length = (texts.getD start []).length := by
  refine ⟨rfl, ?_⟩
  simp [annotate, processNodes_orig_length, initState]

theorem annotate_inv (hsound : diffsSound texts diffs = true) :
    StInv G S texts diffs start
      (processNodes diffs (graphOf G S true) (initState start (texts.getD start []).length)) :=
  processNodes_inv hsound _ (fun _ h => h) (initState_inv _)

/-- **The blamed commit's version contains the line**: if line `j` of the annotated file is
attributed to `(o.commit, o.line)` then line `o.line` of the file at `o.commit` exists and equals
line `j` of the file at the start commit. -/
theorem origin_contains_line (hsound : diffsSound texts diffs = true) {j : Nat} {o : Origin}
    (h : (annotate G S start texts diffs).1[j]? = some o) :
    ∃ line, (texts.getD o.commit [])[o.line]? = some line ∧ (texts.getD start [])[j]? = some line := by
  have hinv := (annotate_inv (G := G) (S := S) (start := start) hsound).orig j o h
  have hlen := (annotation_text (G := G) (S := S) (start := start) (texts := texts) (diffs := diffs)).2
  have hj : j < (texts.getD start []).length := by
    rw [← hlen]
    exact (List.getElem?_eq_some_iff.1 h).1
  refine ⟨(texts.getD start [])[j], ?_, List.getElem?_eq_getElem hj⟩
  simp only [lineAt] at hinv
  rw [hinv]
  exact List.getElem?_eq_getElem hj

/-- **The blamed commit is an ancestor of the starting commit** (or the starting commit itself),
for resolved and unresolved origins. -/
theorem origin_is_ancestor (hwf : wfB G = true) {j : Nat} {o : Origin}
    (h : (annotate G S start texts diffs).1[j]? = some o) : Anc G o.commit start :=
  (processNodes_anc (S := S) (diffs := diffs) (wfB_iff.1 hwf) _ (fun _ h => h)
    (initState_anc (texts.getD start []).length)).orig j o h

/-- **The line is not carried over along any walked edge**: a resolved origin `Ok(c, k)` means that
for every edge `c → t` of the searched graph (the edges `process_commit` receives for `c`), line `k`
of `c` lies outside every matching range of the diff between `c` and `t`. -/
theorem origin_not_from_parents (hsound : diffsSound texts diffs = true) {j : Nat} {o : Origin}
    (h : (annotate G S start texts diffs).1[j]? = some o) (hok : o.ok = true)
    {es : List Edge} (hnode : (o.commit, es) ∈ graphOf G S true) {e : Edge} (he : e ∈ es) :
    ¬ InHunk (lookupDiff diffs o.commit e.target) o.line :=
  (annotate_inv (G := G) (S := S) (start := start) hsound).okun j o h hok es hnode e he

/-- A resolved origin is a commit of the searched set (so the previous theorem is never vacuous:
the blamed commit is a node of the searched graph). -/
theorem ok_origin_is_searched (hsound : diffsSound texts diffs = true) {j : Nat} {o : Origin}
    (h : (annotate G S start texts diffs).1[j]? = some o) (hok : o.ok = true) :
    o.commit ∈ S ∧ o.commit < G.length ∧ ∃ es, (o.commit, es) ∈ graphOf G S true := by
  obtain ⟨es, hes⟩ := (annotate_inv (G := G) (S := S) (start := start) hsound).oknode j o h hok
  obtain ⟨h1, h2, _⟩ := mem_graphOf.1 hes
  exact ⟨h2, h1, es, hes⟩

/-- **An unresolved origin lies outside the searched set**: if line `j` is reported `Err(c, k)` then
`c ∉ S` (it is the target of a missing edge). In particular no line keeps its initial value
`Err(start, j)`, and a line that the walk can trace to a searched commit is resolved there: the early
exit of `process_commits` never leaves pending lines behind. Hypotheses: the starting commit is a
commit of the graph and belongs to the searched set (`S = heads | …`). -/
theorem err_origin_not_searched (hwf : wfB G = true) (hS : start ∈ S) (hlt : start < G.length)
    {j : Nat} {o : Origin} (h : (annotate G S start texts diffs).1[j]? = some o)
    (herr : o.ok = false) : o.commit ∉ S :=
  processNodes_resolved (wfB_iff.1 hwf) _ (rest_init G S) (initState_pinv hS hlt _) j o h herr

/-- the same, read the other way: an origin at a searched commit is resolved -/
theorem searched_origin_is_resolved (hwf : wfB G = true) (hS : start ∈ S) (hlt : start < G.length)
    {j : Nat} {o : Origin} (h : (annotate G S start texts diffs).1[j]? = some o)
    (hin : o.commit ∈ S) : o.ok = true := by
  cases hok : o.ok with
  | true => rfl
  | false => exact absurd hin (err_origin_not_searched hwf hS hlt h hok)

/-! ### non-vacuity -/

/-- root; `1`: "a b"; `2` (child of 1): "a c b"; `3` (child of 2): "x a c b" -/
def g3 : Graph := [[], [0], [1], [2]]
def t3 : List (List Nat) := [[], [1, 2], [1, 3, 2], [9, 1, 3, 2]]
def d3 : Diffs := [((3, 2), [(1, 0, 3)]), ((2, 1), [(0, 0, 1), (2, 1, 1)]), ((3, 1), [(1, 0, 1), (3, 1, 1)])]

example : diffsSound t3 d3 = true := by decide

example : annotate g3 [1, 2, 3] 3 t3 d3 =
    ([⟨true, 3, 0⟩, ⟨true, 1, 0⟩, ⟨true, 2, 1⟩, ⟨true, 1, 1⟩], [9, 1, 3, 2]) := by decide

/-- the same history searched only down to commit 2 (domain `1..3`): the lines of commit 1 are
left unresolved at commit 1 -/
example : annotate g3 [2, 3] 3 t3 d3 =
    ([⟨true, 3, 0⟩, ⟨false, 1, 0⟩, ⟨true, 2, 1⟩, ⟨false, 1, 1⟩], [9, 1, 3, 2]) := by decide

/-- the history of the repaired defect
`annotate:line-left-unresolved-at-start-after-root-counted-twice` (`num_unresolved_roots` used to
be incremented per missing edge, `/repo` a594350 counts an omitted parent once):
`t = 1` "a d", `x = 2` "b", `c1 = 3 = merge(t, x)` "a b", `c2 = 4` (child of `t`) "a d c",
`h = 5 = merge(c1, c2)` "a b d c", searched set `{2,3,4,5}` (domain `t..h`): both `c1` and `c2` have a
missing edge to `t`, which is one unresolved root; the walk goes on to `x` and line "b" is
`Ok(2, 0)` exactly as with the whole history searched (the per-edge count stopped the walk after
`c1` and left "b" at its initial value `Err(5, 1)`). -/
def gF : Graph := [[], [0], [0], [1, 2], [1], [3, 4]]
def tF : List (List Nat) := [[], [1, 4], [2], [1, 2], [1, 4, 3], [1, 2, 4, 3]]
def dF : Diffs := [((3, 1), [(0, 0, 1)]), ((3, 2), [(1, 0, 1)]), ((4, 1), [(0, 0, 2)]),
  ((5, 1), [(0, 0, 1), (2, 1, 1)]), ((5, 2), [(1, 0, 1)]), ((5, 3), [(0, 0, 2)]),
  ((5, 4), [(0, 0, 1), (2, 1, 2)])]

example : diffsSound tF dF = true := by decide

/-- the hypotheses of `err_origin_not_searched` hold for this history and `Err` origins occur -/
example : wfB gF = true ∧ 5 ∈ [2, 3, 4, 5] ∧ 5 < gF.length := by decide

example : (annotate gF [2, 3, 4, 5] 5 tF dF).1 =
    [⟨false, 1, 0⟩, ⟨true, 2, 0⟩, ⟨false, 1, 1⟩, ⟨true, 4, 2⟩] := by decide

example : (annotate gF [1, 2, 3, 4, 5] 5 tF dF).1 =
    [⟨true, 1, 0⟩, ⟨true, 2, 0⟩, ⟨true, 1, 1⟩, ⟨true, 4, 2⟩] := by decide

end JjModel.C38
