import JjModel.Model.GitIgnore
/-!
# C28 — ignore rules behave like Git's

What is proved here is the part of the property that is logic of jj's own code, for **every**
per-pattern matcher (`pm`), hence for the real wildmatch whatever it does:

* `chain_eq_flat_spec` — `GitIgnoreFile::matches` (walk the linked list nearest file first, strip
  the file's prefix, take the file's last matching pattern, negative ⇒ not ignored) is the
  declarative rule of gitignore(5): put the patterns of all files in one list, lowest precedence
  first (root / global files first, deeper files later, file order inside a file), a pattern of a
  file in directory `D` applies to `D/rel` (`rel` non-empty) when it matches `rel`; the **last**
  applicable pattern decides; none ⇒ not ignored.  `flatDecision_iff` unfolds "last … decides".
* `snapshot_eq_spec` — the answer the snapshot computes for an untracked file is: some proper
  ancestor directory is excluded by the patterns of the files above it, or the file itself is
  excluded by the patterns of the files from the root down to its own directory.
* `parent_excluded_rule` — once a directory is excluded, nothing in `.gitignore` files at or below
  it (in particular no negation) can re-include a file under it.
* wildmatch sanity: a pattern without metacharacters matches exactly itself
  (`wildmatch_literal`, and the fast path of `Pattern::matches` agrees: `matchesValue_literal`);
  `**/x` matches `x` at any depth (`dstar_slash_any_depth`); the `*literal` fast path of
  `Pattern::matches` agrees with wildmatch (`endsWith_fastpath`, `matchesValue_endsWith`).

That Git's C implementation follows the documented rule, and that the model's `wildmatch`/parser
equal gix's, is established differentially only (see notes/C28.md).
-/
namespace JjModel.C28
open JjModel.GitIgnore

section generic
variable {P : Type} (neg : P → Bool) (pm : P → List Str → Bool → Bool)

/-! ### the declarative rule -/

/-- all patterns of a chain, lowest precedence first, each tagged with the directory of its file -/
def flat (chain : List (IgnoreFile P)) : List (List Str × P) :=
  chain.reverse.flatMap fun f => f.pats.map fun q => (f.dir, q)

/-- pattern `e.2` of the ignore file in directory `e.1` applies to `path`: the path is strictly
below that directory and the pattern matches the path relative to it -/
def applies (path : List Str) (isDir : Bool) (e : List Str × P) : Bool :=
  match stripPrefix e.1 path with
  | some rel => !rel.isEmpty && pm e.2 rel isDir
  | none => false

/-- gitignore(5): the last applicable pattern decides; none ⇒ not ignored -/
def flatDecision (l : List (List Str × P)) (path : List Str) (isDir : Bool) : Bool :=
  match l.reverse.find? (applies pm path isDir) with
  | some e => !neg e.2
  | none => false

theorem flat_cons (f : IgnoreFile P) (rest : List (IgnoreFile P)) :
    flat (f :: rest) = flat rest ++ f.pats.map (fun q => (f.dir, q)) := by
  simp [flat, List.flatMap_append]

theorem flat_append (a b : List (IgnoreFile P)) : flat (a ++ b) = flat b ++ flat a := by
  simp [flat, List.flatMap_append]

theorem flatDecision_append (l1 l2 : List (List Str × P)) (path : List Str) (isDir : Bool) :
    flatDecision neg pm (l1 ++ l2) path isDir =
      match l2.reverse.find? (applies pm path isDir) with
      | some e => !neg e.2
      | none => flatDecision neg pm l1 path isDir := by
  unfold flatDecision
  rw [List.reverse_append, List.find?_append]
  cases l2.reverse.find? (applies pm path isDir) <;> simp

theorem chainMatches_cons (f : IgnoreFile P) (rest : List (IgnoreFile P)) (path : List Str) (isDir : Bool) :
    chainMatches neg pm (f :: rest) path isDir =
      match stripPrefix f.dir path with
      | some rel =>
        if rel.isEmpty then chainMatches neg pm rest path isDir
        else match lastMatching pm f.pats rel isDir with
          | some q => !neg q
          | none => chainMatches neg pm rest path isDir
      | none => chainMatches neg pm rest path isDir := by
  rfl

theorem find?_const_false {α : Type} (l : List α) : l.find? (fun _ => false) = none := by
  induction l with
  | nil => rfl
  | cons a as ih => simp [List.find?, ih]

/-- **jj's chain lookup is the documented rule.** -/
theorem chain_eq_flat_spec (chain : List (IgnoreFile P)) (path : List Str) (isDir : Bool) :
    chainMatches neg pm chain path isDir = flatDecision neg pm (flat chain) path isDir := by
  induction chain with
  | nil => simp [chainMatches, flat, flatDecision]
  | cons f rest ih =>
    rw [chainMatches_cons, flat_cons, flatDecision_append, ← ih]
    have hmap : (f.pats.map (fun q => (f.dir, q))).reverse.find? (applies pm path isDir)
        = (f.pats.reverse.find? (fun q => applies pm path isDir (f.dir, q))).map (fun q => (f.dir, q)) := by
      rw [← List.map_reverse, List.find?_map]; rfl
    rw [hmap]
    cases hsp : stripPrefix f.dir path with
    | none =>
      have : (fun q => applies pm path isDir (f.dir, q)) = fun _ => false := by
        funext q; simp [applies, hsp]
      simp [this, find?_const_false]
    | some rel =>
      simp only []
      by_cases hrel : rel.isEmpty = true
      · have : (fun q => applies pm path isDir (f.dir, q)) = fun _ => false := by
          funext q; simp [applies, hsp, hrel]
        simp [this, hrel, find?_const_false]
      · have : (fun q => applies pm path isDir (f.dir, q)) = fun q => pm q rel isDir := by
          funext q; simp [applies, hsp, hrel]
        simp only [this, hrel, lastMatching]
        cases f.pats.reverse.find? (fun q => pm q rel isDir) <;> simp

/-- "the last applicable pattern decides", spelled out -/
theorem flatDecision_iff (l : List (List Str × P)) (path : List Str) (isDir : Bool) :
    flatDecision neg pm l path isDir = true ↔
      ∃ l1 e l2, l = l1 ++ e :: l2 ∧ applies pm path isDir e = true ∧ neg e.2 = false ∧
        ∀ e' ∈ l2, applies pm path isDir e' = false := by
  unfold flatDecision
  constructor
  · intro h
    cases hf : l.reverse.find? (applies pm path isDir) with
    | none => simp [hf] at h
    | some e =>
      simp [hf] at h
      obtain ⟨hp, as, bs, hl, has⟩ := List.find?_eq_some_iff_append.mp hf
      refine ⟨bs.reverse, e, as.reverse, ?_, by simpa using hp, h, ?_⟩
      · have := congrArg List.reverse hl
        simpa using this
      · intro e' he'
        have := has e' (by simpa using he')
        simpa using this
  · rintro ⟨l1, e, l2, rfl, hp, hn, hno⟩
    have hf : (l1 ++ e :: l2).reverse.find? (applies pm path isDir) = some e := by
      apply List.find?_eq_some_iff_append.mpr
      refine ⟨hp, l2.reverse, l1.reverse, by simp, ?_⟩
      intro a ha
      simp [hno a (by simpa using ha)]
    rw [hf]; simp [hn]

/-! ### the snapshot walk -/

/-- the chain in effect inside directory `dir0 ++ d` (its own `.gitignore` included) when
`visit_directory(dir0)` was entered with `chain` -/
def chainAt (files : List (List Str × List P)) : List (IgnoreFile P) → List Str → List Str → List (IgnoreFile P)
  | chain, dir0, [] => chainWithFile files chain dir0
  | chain, dir0, n :: ds => chainAt files (chainWithFile files chain dir0) (dir0 ++ [n]) ds

/-- the walk unfolded: ignored ⇔ some proper ancestor directory is matched as a directory by the
chain in effect in *its* parent, or the leaf is matched by the chain of its own directory -/
theorem walk_iff (files : List (List Str × List P)) (d : List Str) :
    ∀ (chain : List (IgnoreFile P)) (dir0 : List Str) (name : Str) (leaf : Bool),
    walk neg pm files chain dir0 (d ++ [name]) leaf = true ↔
      (∃ k, k < d.length ∧
        chainMatches neg pm (chainAt files chain dir0 (d.take k)) (dir0 ++ d.take (k + 1)) true = true) ∨
      chainMatches neg pm (chainAt files chain dir0 d) (dir0 ++ d ++ [name]) leaf = true := by
  induction d with
  | nil => intro chain dir0 name leaf; simp [walk, chainAt]
  | cons n ds ih =>
    intro chain dir0 name leaf
    obtain ⟨n2, r, hr⟩ : ∃ n2 r, ds ++ [name] = n2 :: r := by
      cases ds with
      | nil => exact ⟨name, [], rfl⟩
      | cons a b => exact ⟨a, b ++ [name], rfl⟩
    have hw : walk neg pm files chain dir0 (n :: ds ++ [name]) leaf =
        (if chainMatches neg pm (chainWithFile files chain dir0) (dir0 ++ [n]) true = true then true
         else walk neg pm files (chainWithFile files chain dir0) (dir0 ++ [n]) (ds ++ [name]) leaf) := by
      show walk neg pm files chain dir0 (n :: (ds ++ [name])) leaf = _
      rw [hr]; simp [walk]
    rw [hw]
    by_cases hc : chainMatches neg pm (chainWithFile files chain dir0) (dir0 ++ [n]) true = true
    · rw [if_pos hc]
      simp only [true_iff]
      exact Or.inl ⟨0, by simp, by simpa [chainAt] using hc⟩
    · rw [if_neg hc, ih]
      constructor
      · rintro (⟨k, hk, hm⟩ | hm)
        · exact Or.inl ⟨k + 1, by simpa using hk, by simpa [chainAt, List.append_assoc] using hm⟩
        · exact Or.inr (by simpa [chainAt, List.append_assoc] using hm)
      · rintro (⟨k, hk, hm⟩ | hm)
        · cases k with
          | zero => exact absurd (by simpa [chainAt] using hm) hc
          | succ k =>
            exact Or.inl ⟨k, by simpa using hk, by simpa [chainAt, List.append_assoc] using hm⟩
        · exact Or.inr (by simpa [chainAt, List.append_assoc] using hm)

/-- the patterns of the `.gitignore` files found at `dir0`, `dir0/d₁`, …, `dir0/d₁/…/dₙ`,
in this order (root first), tagged with their directory -/
def filesDown (files : List (List Str × List P)) : List Str → List Str → List (List Str × P)
  | dir0, [] => ((files.lookup dir0).getD []).map fun q => (dir0, q)
  | dir0, n :: ds => (((files.lookup dir0).getD []).map fun q => (dir0, q)) ++ filesDown files (dir0 ++ [n]) ds

theorem flat_chainWithFile (files : List (List Str × List P)) (chain : List (IgnoreFile P)) (dir : List Str) :
    flat (chainWithFile files chain dir) = flat chain ++ ((files.lookup dir).getD []).map fun q => (dir, q) := by
  unfold chainWithFile
  cases files.lookup dir with
  | none => simp
  | some pats => simp [flat_cons]

/-- the chain the walk carries = the base chain followed by the files met on the way down -/
theorem flat_chainAt (files : List (List Str × List P)) (d : List Str) :
    ∀ (chain : List (IgnoreFile P)) (dir0 : List Str),
      flat (chainAt files chain dir0 d) = flat chain ++ filesDown files dir0 d := by
  induction d with
  | nil => intro chain dir0; simp [chainAt, filesDown, flat_chainWithFile]
  | cons n ds ih => intro chain dir0; simp [chainAt, filesDown, ih, flat_chainWithFile]

/-- **What the snapshot decides for an untracked file, declaratively** (gitignore(5)): the file
`d/name` is ignored iff some ancestor directory `d[..k+1]` is excluded by the last applicable
pattern among base ++ the `.gitignore` files of `d[..0]`, …, `d[..k]`, or the file itself is
excluded by the last applicable pattern among base ++ the files of all directories down to `d`. -/
theorem snapshot_eq_spec (files : List (List Str × List P)) (base : List (IgnoreFile P))
    (d : List Str) (name : Str) :
    walk neg pm files base [] (d ++ [name]) false = true ↔
      (∃ k, k < d.length ∧
        flatDecision neg pm (flat base ++ filesDown files [] (d.take k)) (d.take (k + 1)) true = true) ∨
      flatDecision neg pm (flat base ++ filesDown files [] d) (d ++ [name]) false = true := by
  rw [walk_iff]
  simp only [chain_eq_flat_spec, flat_chainAt, List.nil_append]

/-! ### a parent directory that is excluded cannot be re-included from below -/

theorem parent_excluded_gen (files files' : List (List Str × List P)) (d : List Str) :
    ∀ (chain : List (IgnoreFile P)) (dir0 rest : List Str) (leaf : Bool), rest ≠ [] →
      (∀ k, k < d.length → files.lookup (dir0 ++ d.take k) = files'.lookup (dir0 ++ d.take k)) →
      walk neg pm files chain dir0 d true = true →
      walk neg pm files' chain dir0 (d ++ rest) leaf = true := by
  induction d with
  | nil => intro chain dir0 rest leaf _ _ h; simp [walk] at h
  | cons n ds ih =>
    intro chain dir0 rest leaf hrest hag h
    have h0 : chainWithFile files' chain dir0 = chainWithFile files chain dir0 := by
      have := hag 0 (by simp)
      simp only [List.take_zero, List.append_nil] at this
      simp [chainWithFile, this]
    cases ds with
    | nil =>
      obtain ⟨r, rs, rfl⟩ : ∃ r rs, rest = r :: rs := by
        cases rest with
        | nil => exact absurd rfl hrest
        | cons r rs => exact ⟨r, rs, rfl⟩
      simp only [walk] at h
      simp [walk, h0, h]
    | cons n2 ds' =>
      simp only [walk] at h
      show walk neg pm files' chain dir0 (n :: n2 :: (ds' ++ rest)) leaf = true
      simp only [walk, h0]
      by_cases hc : chainMatches neg pm (chainWithFile files chain dir0) (dir0 ++ [n]) true = true
      · simp [hc]
      · simp only [hc] at h ⊢
        have := ih (chainWithFile files chain dir0) (dir0 ++ [n]) rest leaf hrest (by
          intro k hk
          have := hag (k + 1) (by simpa using hk)
          simpa [List.append_assoc] using this) h
        simpa using this

/-- **Parent-excluded rule.**  If the snapshot finds directory `d` (or one of its ancestors)
excluded, then every file below `d` is ignored — whatever the `.gitignore` files located in `d`
or deeper contain (`files'` may differ from `files` anywhere except strictly above `d`). -/
theorem parent_excluded_rule (files files' : List (List Str × List P)) (base : List (IgnoreFile P))
    (d rest : List Str) (hrest : rest ≠ [])
    (hagree : ∀ k, k < d.length → files.lookup (d.take k) = files'.lookup (d.take k))
    (hdir : walk neg pm files base [] d true = true) :
    walk neg pm files' base [] (d ++ rest) false = true :=
  parent_excluded_gen neg pm files files' d base [] rest false hrest (by simpa using hagree) hdir

end generic

/-! ### instances for the concrete matcher -/

theorem matchesPath_eq_spec (chain : List (IgnoreFile Pattern)) (path : List Str) (isDir : Bool) :
    matchesPath chain path isDir = flatDecision Pattern.negative patMatches (flat chain) path isDir :=
  chain_eq_flat_spec _ _ chain path isDir

theorem snapshotIgnored_eq_spec (files : List (List Str × List Pattern)) (base : List (IgnoreFile Pattern))
    (d : List Str) (name : Str) :
    snapshotIgnored files base (d ++ [name]) = true ↔
      (∃ k, k < d.length ∧
        flatDecision Pattern.negative patMatches (flat base ++ filesDown files [] (d.take k)) (d.take (k + 1)) true = true) ∨
      flatDecision Pattern.negative patMatches (flat base ++ filesDown files [] d) (d ++ [name]) false = true :=
  snapshot_eq_spec _ _ files base d name

theorem snapshotIgnored_parent_excluded (files files' : List (List Str × List Pattern))
    (base : List (IgnoreFile Pattern)) (d rest : List Str) (hrest : rest ≠ [])
    (hagree : ∀ k, k < d.length → files.lookup (d.take k) = files'.lookup (d.take k))
    (hdir : walk Pattern.negative patMatches files base [] d true = true) :
    snapshotIgnored files' base (d ++ rest) = true :=
  parent_excluded_rule _ _ files files' base d rest hrest hagree hdir

/-! ### wildmatch sanity -/

/-- no `*`, `?`, `[`, `\` -/
def NoMeta (s : Str) : Prop := ∀ c ∈ s, isGlobChar c = false

instance (s : Str) : Decidable (NoMeta s) := by unfold NoMeta; exact inferInstance

theorem tokenize_literal (s : Str) :
    ∀ (f : Nat) (prev : Char), NoMeta s → s.length < f → tokenize f prev s = s.map Tok.lit := by
  induction s with
  | nil => intro f prev _ hf; cases f with | zero => simp at hf | succ f => simp [tokenize]
  | cons c cs ih =>
    intro f prev hs hf
    cases f with
    | zero => simp at hf
    | succ f =>
      have hc : isGlobChar c = false := hs c (by simp)
      simp only [isGlobChar, Bool.or_eq_false_iff, decide_eq_false_iff_not] at hc
      obtain ⟨⟨⟨h1, h2⟩, h3⟩, h4⟩ := hc
      have hcs : NoMeta cs := fun x hx => hs x (by simp [hx])
      simp [tokenize, h1, h2, h3, h4, ih f c hcs (by simpa using hf)]

theorem matchToks_literal (s : Str) : ∀ v : Str, matchToks (s.map Tok.lit) v = decide (v = s) := by
  induction s with
  | nil => intro v; cases v <;> simp [matchToks]
  | cons c cs ih =>
    intro v
    cases v with
    | nil => simp [matchToks]
    | cons x xs => by_cases hxc : x = c <;> simp [matchToks, ih xs, hxc]

/-- a pattern without metacharacters matches exactly itself -/
theorem wildmatch_literal (s v : Str) (hs : NoMeta s) : wildmatch s v = decide (v = s) := by
  unfold wildmatch
  rw [tokenize_literal s _ _ hs (by simp), matchToks_literal]

theorem firstWildcardPos_none_iff (s : Str) : firstWildcardPos s = none ↔ NoMeta s := by
  induction s with
  | nil => simp [firstWildcardPos, NoMeta]
  | cons c cs ih =>
    by_cases hc : isGlobChar c = true
    · simp only [firstWildcardPos, hc, if_true]
      constructor
      · intro h; cases h
      · intro h; have := h c (by simp); simp [hc] at this
    · simp only [firstWildcardPos, hc]
      simp only [Bool.not_eq_true] at hc
      constructor
      · intro h x hx
        have hcs : firstWildcardPos cs = none := by
          cases hfw : firstWildcardPos cs with
          | none => rfl
          | some k => simp [hfw] at h
        rcases List.mem_cons.mp hx with rfl | hx
        · exact hc
        · exact (ih.mp hcs) x hx
      · intro h
        have : firstWildcardPos cs = none := ih.mpr (fun x hx => h x (by simp [hx]))
        simp [this]

/-- the literal fast path of `gix_glob::Pattern::matches` (`first_wildcard_pos = None` ⇒ compare
bytes) gives what wildmatch would give -/
theorem matchesValue_literal (p : Pattern) (v : Str) (hfw : p.firstWild = firstWildcardPos p.text)
    (hs : NoMeta p.text) : p.matchesValue v = wildmatch p.text v := by
  have : p.firstWild = none := by rw [hfw]; exact (firstWildcardPos_none_iff _).mpr hs
  rw [wildmatch_literal _ _ hs]
  simp only [Pattern.matchesValue, this]
  by_cases h : v = p.text
  · simp [h]
  · have h' : ¬ p.text = v := fun e => h e.symm
    simp [h, h']

theorem globParse_firstWild (s : Str) (p : Pattern) (h : globParse s = some p) :
    p.firstWild = firstWildcardPos p.text := by
  unfold globParse at h
  by_cases h1 : s = []
  · simp [h1] at h
  · by_cases h2 : (stripBang s).all isAsciiWhitespace = true
    · simp [h1, h2] at h
    · rw [if_neg h1, if_neg h2] at h
      cases h
      rfl

theorem afterSlashK_append (k : Str → Bool) (u v : Str)
    (h : k v = true ∨ afterSlashK k v = true) : afterSlashK k (u ++ '/' :: v) = true := by
  induction u with
  | nil => rcases h with h | h <;> simp [afterSlashK, h]
  | cons c cs ih => simp [afterSlashK, ih]

theorem afterSlashK_join (k : Str → Bool) (x : Str) (hk : k x = true) (d : Str) (ds : List Str) :
    afterSlashK k (joinSlash (d :: ds ++ [x])) = true := by
  induction ds generalizing d with
  | nil => simpa [joinSlash] using afterSlashK_append k d x (Or.inl hk)
  | cons e es ih =>
    have : joinSlash (d :: (e :: es) ++ [x]) = d ++ '/' :: joinSlash (e :: es ++ [x]) := by
      simp [joinSlash]
    rw [this]
    exact afterSlashK_append k d _ (Or.inr (ih e))

/-- `**/x` matches `x` at any depth -/
theorem dstar_slash_any_depth (x : Str) (hx : NoMeta x) (ds : List Str) :
    wildmatch ('*' :: '*' :: '/' :: x) (joinSlash (ds ++ [x])) = true := by
  have htok : tokenize (('*' :: '*' :: '/' :: x).length + 1) '/' ('*' :: '*' :: '/' :: x)
      = Tok.dstarSlash :: x.map Tok.lit := by
    simp [tokenize, isPrefixOf, tokenize_literal x _ '/' hx (by simp : x.length < x.length + 3)]
  unfold wildmatch
  rw [htok]
  have hk : matchToks (x.map Tok.lit) x = true := by simp [matchToks_literal]
  cases ds with
  | nil => simp [matchToks, joinSlash, hk]
  | cons d ds =>
    simp only [matchToks, Bool.or_eq_true]
    exact Or.inr (afterSlashK_join _ x hk d ds)

theorem isPrefixOf_iff (a b : Str) : isPrefixOf a b = true ↔ a <+: b := by
  induction a generalizing b with
  | nil => simp [isPrefixOf]
  | cons x xs ih =>
    cases b with
    | nil => simp [isPrefixOf]
    | cons y ys => simp [isPrefixOf, ih, List.cons_prefix_cons]

theorem isSuffixOf_iff (a b : Str) : isSuffixOf a b = true ↔ a <:+ b := by
  simp [isSuffixOf, isPrefixOf_iff, List.reverse_prefix]

theorem starK_iff (k : Str → Bool) (v : Str) (hv : '/' ∉ v) :
    starK k v = true ↔ ∃ u w, v = u ++ w ∧ k w = true := by
  induction v with
  | nil =>
    simp only [starK]
    constructor
    · intro h; exact ⟨[], [], rfl, h⟩
    · rintro ⟨u, w, huw, hk⟩
      have : w = [] := by
        have h2 := congrArg List.length huw
        simp at h2
        exact List.eq_nil_of_length_eq_zero (by omega)
      rw [← this]; exact hk
  | cons x xs ih =>
    have hx : x ≠ '/' := fun e => hv (by simp [e])
    have hxs : '/' ∉ xs := fun h => hv (by simp [h])
    simp only [starK, Bool.or_eq_true, Bool.and_eq_true, bne_iff_ne, ne_eq, hx, not_false_eq_true, true_and, ih hxs]
    constructor
    · rintro (h | ⟨u, w, rfl, hk⟩)
      · exact ⟨[], x :: xs, rfl, h⟩
      · exact ⟨x :: u, w, rfl, hk⟩
    · rintro ⟨u, w, huw, hk⟩
      cases u with
      | nil => left; simp at huw; rw [huw]; exact hk
      | cons a u' =>
        right
        simp at huw
        exact ⟨u', w, huw.2, hk⟩

/-- the `*literal` fast path of `gix_glob::Pattern::matches` (taken when the value contains no
`/`) gives what wildmatch gives -/
theorem endsWith_fastpath (lit v : Str) (hl : NoMeta lit) (hv : '/' ∉ v) :
    isSuffixOf lit v = wildmatch ('*' :: lit) v := by
  have hhead : lit.head? ≠ some '*' := by
    cases lit with
    | nil => simp
    | cons c cs =>
      have := hl c (by simp)
      intro h; simp at h; subst h; simp [isGlobChar] at this
  have htok : tokenize (('*' :: lit).length + 1) '/' ('*' :: lit) = Tok.star :: lit.map Tok.lit := by
    simp [tokenize, hhead, tokenize_literal lit _ '*' hl (by simp : lit.length < lit.length + 1)]
  unfold wildmatch
  rw [htok]
  simp only [matchToks]
  rw [Bool.eq_iff_iff, isSuffixOf_iff, starK_iff _ _ hv]
  constructor
  · rintro ⟨u, rfl⟩
    exact ⟨u, lit, rfl, by simp [matchToks_literal]⟩
  · rintro ⟨u, w, rfl, hk⟩
    simp [matchToks_literal] at hk
    subst hk
    exact ⟨u, rfl⟩

/-- both branches of `Pattern::matches` for a `*literal` pattern agree with wildmatch on a value
without `/` (whether or not the parser set `ENDS_WITH`) -/
theorem matchesValue_endsWith (p : Pattern) (lit v : Str) (ht : p.text = '*' :: lit)
    (hfw : p.firstWild = some 0) (hl : NoMeta lit) (hv : '/' ∉ v) :
    p.matchesValue v = wildmatch p.text v := by
  have hc : v.contains '/' = false := by simpa using hv
  unfold Pattern.matchesValue
  rw [hfw]
  by_cases he : p.endsWith = true
  · simp only [he, hc, ht, Bool.not_false, and_self, if_true]
    exact endsWith_fastpath lit v hl hv
  · simp [he, isPrefixOf]

/-! ### non-vacuity and worked instances -/

private def pf (s : String) : List Pattern := parseFile s.toList
private def pth (l : List String) : List Str := l.map String.toList

-- line parsing: comment, `\#`, negation, anchoring, directory-only, trailing spaces
example : parseLine "# c".toList = none := by decide +kernel
example : (parseLine "\\#a".toList).map (·.text) = some "#a".toList := by decide +kernel
example : (parseLine "!/a/b/  ".toList) =
    some { text := "a/b".toList, negative := true, absolute := true, mustBeDir := true,
           noSubDir := false, endsWith := false, firstWild := none } := by decide +kernel
example : (parseLine "a\\  ".toList).map (·.text) = some "a\\ ".toList := by decide +kernel

-- the hypotheses of `matchesValue_endsWith` for the line `*.c`
example : (parseLine "*.c".toList).map (fun p => (p.text, p.firstWild, p.endsWith)) =
    some ("*.c".toList, some 0, true) ∧ NoMeta ".c".toList := by decide +kernel

-- wildmatch
example : wildmatch "a/**/b".toList "a/b".toList = true ∧ wildmatch "a/**/b".toList "a/x/y/b".toList = true ∧
    wildmatch "a/*/b".toList "a/x/y/b".toList = false ∧ wildmatch "a**b".toList "a/b".toList = false ∧
    wildmatch "[!a-c]?".toList "dx".toList = true ∧ wildmatch "[[:digit:]]\\*".toList "7*".toList = true := by
  decide +kernel

-- chain_eq_flat_spec / parent_excluded_rule on a concrete working copy:
-- root: `*.c`, `!keep.c`, `build/`;   sub/.gitignore: `!x.c`;   build/.gitignore: `!*`
private def files0 : List (List Str × List Pattern) :=
  [([], pf "*.c\n!keep.c\nbuild/\n"), (pth ["sub"], pf "!x.c\n"), (pth ["build"], pf "!*\n")]

example : snapshotIgnored files0 [] (pth ["a.c"]) = true ∧ snapshotIgnored files0 [] (pth ["keep.c"]) = false ∧
    snapshotIgnored files0 [] (pth ["sub", "x.c"]) = false ∧ snapshotIgnored files0 [] (pth ["sub", "y.c"]) = true ∧
    snapshotIgnored files0 [] (pth ["build", "out"]) = true := by decide +kernel

-- the hypotheses of `parent_excluded_rule` hold for `d = build` (excluded as a directory)
example : walk Pattern.negative patMatches files0 [] [] (pth ["build"]) true = true := by decide +kernel
-- the hypothesis of `wildmatch_literal` / `dstar_slash_any_depth`
example : NoMeta "x.c".toList := by decide +kernel

end JjModel.C28
