import JjModel.Lemmas.GitExport
/-!
  C45 — Pushing never overwrites remote changes jj has not seen.

  Statements about `Model/GitSync.lean`: `classifyPushAction`, `pushTargets` (what the command
  line hands to `push_refs`), `lease` (`RefToPush::to_git_lease`), `pushUpdates` (the `git push
  --force-with-lease` subprocess under assumption A7 = `remoteCas`) and `pushRefs` (`push_refs`).
  `ups` are the updates of one push; their names are distinct (one update per bookmark).
-/
namespace JjModel.C45
open JjModel.GitSync

/-- the position jj last recorded for `n` on `remote`: the tracked remote-tracking target
(`none` = absent or not tracked ⇒ "must not exist") -/
def recorded (v : View) (remote n : Nat) : Option Nat :=
  asNormal (v.remotes (n, remote)).trackedTarget

/-- **lease_is_recorded_position**: every update handed to the push carries, as the value the
remote ref is expected to have, exactly jj's recorded remote-tracking target (absent ⇒ the lease
says "must not exist"), and as new value exactly the local bookmark; the two differ. -/
theorem lease_is_recorded_position (remote : Nat) (v : View) (names : List Nat) (u : PushUpdate)
    (hu : u ∈ pushTargets remote v names) :
    lease u = (u.name, recorded v remote u.name) ∧
    ofOpt u.before = (v.remotes (u.name, remote)).trackedTarget ∧
    ofOpt u.after = v.locals u.name ∧ u.before ≠ u.after ∧ u.name ∈ names := by
  unfold pushTargets at hu
  obtain ⟨n, hn, h⟩ := List.mem_filterMap.mp hu
  generalize hc : classifyPushAction (v.locals n) (v.remotes (n, remote)) = c at h
  cases c with
  | update b a =>
    simp only [Option.some.injEq] at h
    subst h
    unfold classifyPushAction at hc
    simp only at hc
    split at hc
    · cases hc
    · next hne =>
      split at hc
      · cases hc
      · next hlc =>
        split at hc
        · cases hc
        · next hrc =>
          split at hc
          · cases hc
          · simp only [PushAction.update.injEq] at hc
            obtain ⟨rfl, rfl⟩ := hc
            have h1 := ofOpt_asNormal (v.remotes (n, remote)).trackedTarget (by simpa using hrc)
            have h2 := ofOpt_asNormal (v.locals n) (by simpa using hlc)
            refine ⟨rfl, h1, h2, ?_, hn⟩
            intro heq
            have heq' : asNormal (v.remotes (n, remote)).trackedTarget = asNormal (v.locals n) := heq
            apply hne
            rw [← h1, ← h2, heq']
  | alreadyMatches => simp at h
  | localConflicted => simp at h
  | remoteConflicted => simp at h
  | remoteUntracked => simp at h

/-- the decision of the remote for one ref (A7), spelled out -/
theorem remoteCas_spec (cur expected new : Option Nat) :
    ((remoteCas cur expected new).2 ≠ cur → cur = expected ∧ (remoteCas cur expected new) = (.pushed, new)) ∧
    (cur ≠ expected → ¬ (new.isSome ∧ cur = new) → remoteCas cur expected new = (.rejected, cur)) := by
  unfold remoteCas
  constructor
  · intro h
    split at h
    · exact absurd rfl h
    · split at h
      · next h2 => simp [h2]
      · exact absurd rfl h
  · intro h1 h2
    split
    · next h => simp only [Bool.and_eq_true, decide_eq_true_eq] at h; exact absurd h h2
    · simp

theorem nodup_name_inj {ups : List PushUpdate} (hnd : (ups.map (·.name)).Nodup) {u w : PushUpdate}
    (hu : u ∈ ups) (hw : w ∈ ups) (h : u.name = w.name) : u = w := by
  induction ups with
  | nil => cases hu
  | cons x xs ih =>
    simp only [List.map_cons, List.nodup_cons, List.mem_map, not_exists, not_and] at hnd
    rcases List.mem_cons.mp hu with rfl | hu' <;> rcases List.mem_cons.mp hw with rfl | hw'
    · rfl
    · exact absurd h.symm (hnd.1 w hw')
    · exact absurd h (hnd.1 u hu')
    · exact ih hnd.2 hu' hw'

/-- **push_cas**: a branch on the remote changes only if its position before the push equals the
expected value sent for it (then it becomes the pushed value and the ref is reported pushed);
an update whose expected value differs from the remote's position is reported rejected — not
pushed — and the branch keeps its position.  (Exception, by A7: a branch that already is at the
pushed position is "up to date"; nothing changes on the remote either.) -/
theorem push_cas (remote : Nat) (rem : Nat → Option Nat) (git : Git) (ups : List PushUpdate)
    (hnd : (ups.map (·.name)).Nodup) :
    (∀ n, (pushUpdates remote rem git ups).remoteRefs n ≠ rem n →
      ∃ u ∈ ups, u.name = n ∧ rem n = u.before ∧
        (pushUpdates remote rem git ups).remoteRefs n = u.after ∧
        n ∈ (pushUpdates remote rem git ups).pushed) ∧
    (∀ u ∈ ups, rem u.name ≠ u.before → ¬ (u.after.isSome ∧ rem u.name = u.after) →
      u.name ∈ (pushUpdates remote rem git ups).rejected ∧
      u.name ∉ (pushUpdates remote rem git ups).pushed ∧
      (pushUpdates remote rem git ups).remoteRefs u.name = rem u.name) := by
  unfold pushUpdates
  constructor
  · intro n hne
    by_cases hex : ∃ u ∈ ups, u.name = n
    · obtain ⟨u, hu, rfl⟩ := hex
      have h := foldl_pushOne_remoteRefs_mem remote ups ⟨rem, git, [], []⟩ hnd u hu
      simp only at h
      rw [h] at hne
      obtain ⟨h1, h2⟩ := (remoteCas_spec (rem u.name) u.before u.after).1 hne
      refine ⟨u, hu, rfl, h1, ?_, ?_⟩
      · rw [h, h2]
      · exact ((foldl_pushOne_status remote ups ⟨rem, git, [], []⟩ hnd u.name).1).mpr
          (Or.inr ⟨u, hu, rfl, by simp [h2]⟩)
    · exfalso
      apply hne
      exact foldl_pushOne_remoteRefs_other remote ups ⟨rem, git, [], []⟩ n
        (fun u hu heq => hex ⟨u, hu, heq⟩)
  · intro u hu h1 h2
    have hc := (remoteCas_spec (rem u.name) u.before u.after).2 h1 h2
    have hst := foldl_pushOne_status remote ups ⟨rem, git, [], []⟩ hnd u.name
    refine ⟨hst.2.mpr (Or.inr ⟨u, hu, rfl, by simp [hc]⟩), ?_, ?_⟩
    · intro hp
      rcases hst.1.mp hp with h | ⟨w, hw, hwn, hwp⟩
      · simp at h
      · have := nodup_name_inj hnd hw hu hwn
        subst this
        simp only at hwp
        rw [hc] at hwp
        cases hwp
    · have h := foldl_pushOne_remoteRefs_mem remote ups ⟨rem, git, [], []⟩ hnd u hu
      simp only at h
      rw [h, hc]

/-- pushed and rejected are disjoint -/
theorem pushed_rejected_disjoint (remote : Nat) (rem : Nat → Option Nat) (git : Git) (ups : List PushUpdate)
    (hnd : (ups.map (·.name)).Nodup) (n : Nat)
    (hp : n ∈ (pushUpdates remote rem git ups).pushed) (hr : n ∈ (pushUpdates remote rem git ups).rejected) : False := by
  unfold pushUpdates at hp hr
  have hst := foldl_pushOne_status remote ups ⟨rem, git, [], []⟩ hnd n
  rcases hst.1.mp hp with h | ⟨u, hu, hun, hup⟩
  · simp at h
  · rcases hst.2.mp hr with h | ⟨w, hw, hwn, hwr⟩
    · simp at h
    · have := nodup_name_inj hnd hu hw (hun.trans hwn.symm)
      subst this
      simp only at hup hwr
      rw [hup] at hwr
      cases hwr

/-- the bookkeeping fold at the end of `push_refs` only writes the records of the listed names -/
theorem foldl_record_other (remote : Nat) (l : List PushUpdate) (v : View) (k : Key)
    (h : ∀ u ∈ l, (u.name, remote) ≠ k) :
    (l.foldl (fun v u => v.setRemote (u.name, remote) ⟨ofOpt u.after, true⟩) v).remotes k = v.remotes k := by
  induction l generalizing v with
  | nil => rfl
  | cons u l ih =>
    simp only [List.foldl_cons]
    rw [ih _ (fun u' hu' => h u' (List.mem_cons_of_mem _ hu'))]
    exact setRemote_remotes_other v _ k _ (Ne.symm (h u List.mem_cons_self))

theorem foldl_record_locals (remote : Nat) (l : List PushUpdate) (v : View) :
    (l.foldl (fun v u => v.setRemote (u.name, remote) ⟨ofOpt u.after, true⟩) v).locals = v.locals := by
  induction l generalizing v with
  | nil => rfl
  | cons u l ih => simp only [List.foldl_cons]; rw [ih]; simp

/-- **rejected_leaves_state**: a push never changes a local bookmark; it changes jj's
remote-tracking record only for names reported pushed; in particular for every rejected name both
the record and the local bookmark are exactly what they were. -/
theorem rejected_leaves_state (remote : Nat) (v : View) (git : Git) (rem : Nat → Option Nat)
    (ups : List PushUpdate) (hnd : (ups.map (·.name)).Nodup) :
    (∀ n, (pushRefs remote v git rem ups).view.locals n = v.locals n) ∧
    (∀ k, (pushRefs remote v git rem ups).view.remotes k ≠ v.remotes k →
      k.2 = remote ∧ k.1 ∈ (pushRefs remote v git rem ups).pushed) ∧
    (∀ n ∈ (pushRefs remote v git rem ups).rejected,
      (pushRefs remote v git rem ups).view.remotes (n, remote) = v.remotes (n, remote)) := by
  have hview := exportRefsToGit_view v (pushUpdates remote rem git ups).git
    (pushedToExport remote (ups.filter (fun u => (pushUpdates remote rem git ups).pushed.contains u.name)))
  have hchg : ∀ k, (pushRefs remote v git rem ups).view.remotes k ≠ v.remotes k →
      k.2 = remote ∧ k.1 ∈ (pushRefs remote v git rem ups).pushed := by
    intro k hne
    unfold pushRefs at hne ⊢
    simp only at hne ⊢
    by_cases hex : ∃ u ∈ (List.filter (fun u => !isFailed (exportRefsToGit v (pushUpdates remote rem git ups).git
        (pushedToExport remote (List.filter (fun u => (pushUpdates remote rem git ups).pushed.contains u.name) ups))).failed (u.name, remote))
        (List.filter (fun u => (pushUpdates remote rem git ups).pushed.contains u.name) ups)), (u.name, remote) = k
    · obtain ⟨u, hu, rfl⟩ := hex
      have hu2 := (List.mem_filter.mp hu).1
      have hu3 := (List.mem_filter.mp hu2).2
      exact ⟨rfl, by simpa using hu3⟩
    · exfalso
      apply hne
      rw [foldl_record_other remote _ _ k (fun u hu heq => hex ⟨u, hu, heq⟩)]
      rw [hview.2]
  refine ⟨?_, hchg, ?_⟩
  · intro n
    unfold pushRefs
    simp only
    rw [foldl_record_locals, hview.1]
  · intro n hr
    by_cases heq : (pushRefs remote v git rem ups).view.remotes (n, remote) = v.remotes (n, remote)
    · exact heq
    · exfalso
      have hp := (hchg (n, remote) heq).2
      exact pushed_rejected_disjoint remote rem git ups hnd n hp hr

/-- after the bookkeeping fold, a listed name's record holds the pushed position -/
theorem foldl_record_mem (remote : Nat) (l : List PushUpdate) (v : View)
    (hnd : (l.map (·.name)).Nodup) (u : PushUpdate) (hu : u ∈ l) :
    ((l.foldl (fun v u => v.setRemote (u.name, remote) ⟨ofOpt u.after, true⟩) v).remotes (u.name, remote)).target = ofOpt u.after ∧
    (u.after.isSome → ((l.foldl (fun v u => v.setRemote (u.name, remote) ⟨ofOpt u.after, true⟩) v).remotes (u.name, remote)).tracked = true) := by
  induction l generalizing v with
  | nil => cases hu
  | cons w l ih =>
    simp only [List.map_cons, List.nodup_cons, List.mem_map, not_exists, not_and] at hnd
    simp only [List.foldl_cons]
    rcases List.mem_cons.mp hu with rfl | hu'
    · rw [foldl_record_other remote l _ (u.name, remote)
        (fun u' hu' heq => hnd.1 u' hu' (by simpa using congrArg Prod.fst heq))]
      refine ⟨setRemote_target_same _ _ _, ?_⟩
      intro hs
      rw [setRemote_remotes_same]
      obtain ⟨c, hc⟩ := Option.isSome_iff_exists.mp hs
      simp [hc, ofOpt, isPresent, absent]
    · exact ih _ hnd.2 hu'

/-- **pushed_updates_record**: for a name reported pushed (whose local remote-tracking Git ref could
be recorded), jj's record becomes the pushed position, tracked. -/
theorem pushed_updates_record (remote : Nat) (v : View) (git : Git) (rem : Nat → Option Nat)
    (ups : List PushUpdate) (hnd : (ups.map (·.name)).Nodup) (u : PushUpdate) (hu : u ∈ ups)
    (hp : u.name ∈ (pushRefs remote v git rem ups).pushed)
    (hx : isFailed (pushRefs remote v git rem ups).unexported (u.name, remote) = false) :
    ((pushRefs remote v git rem ups).view.remotes (u.name, remote)).target = ofOpt u.after ∧
    (u.after.isSome → ((pushRefs remote v git rem ups).view.remotes (u.name, remote)).tracked = true) := by
  unfold pushRefs at hp hx ⊢
  simp only at hp hx ⊢
  apply foldl_record_mem
  · have h1 : List.Sublist (List.filter (fun u => !isFailed (exportRefsToGit v (pushUpdates remote rem git ups).git
        (pushedToExport remote (List.filter (fun u => (pushUpdates remote rem git ups).pushed.contains u.name) ups))).failed (u.name, remote))
        (List.filter (fun u => (pushUpdates remote rem git ups).pushed.contains u.name) ups)) ups :=
      (List.filter_sublist).trans List.filter_sublist
    exact (h1.map _).nodup hnd
  · apply List.mem_filter.mpr
    refine ⟨List.mem_filter.mpr ⟨hu, by simpa using hp⟩, ?_⟩
    simp only [hx, Bool.not_false]

/-! ### the local bookkeeping after a push never fails (in the model) -/

theorem pushOne_git_other (remote : Nat) (s : PushRun) (u : PushUpdate) (k : Key) (h : k ≠ (u.name, remote)) :
    (pushOne remote s u).git k = s.git k := by
  unfold pushOne
  split <;> simp [setAt, h]

theorem foldl_pushOne_git_other (remote : Nat) (ups : List PushUpdate) (s : PushRun) (k : Key)
    (h : ∀ u ∈ ups, (u.name, remote) ≠ k) : (ups.foldl (pushOne remote) s).git k = s.git k :=
  foldl_pointwise_other (pushOne remote) (fun u => ((u.name, remote) : Key)) (fun s k => s.git k)
    (fun s u k hk => pushOne_git_other remote s u k hk) ups s k h

/-- Git moves the local remote-tracking ref of every ref it reports pushed -/
theorem foldl_pushOne_git_mem (remote : Nat) (ups : List PushUpdate) (s : PushRun)
    (hnd : (ups.map (·.name)).Nodup) (u : PushUpdate) (hu : u ∈ ups)
    (hp : (remoteCas (s.remoteRefs u.name) u.before u.after).1 = .pushed) :
    (ups.foldl (pushOne remote) s).git (u.name, remote) = u.after := by
  induction ups generalizing s with
  | nil => cases hu
  | cons w ups ih =>
    simp only [List.map_cons, List.nodup_cons, List.mem_map, not_exists, not_and] at hnd
    simp only [List.foldl_cons]
    rcases List.mem_cons.mp hu with rfl | hu'
    · rw [foldl_pushOne_git_other remote ups _ (u.name, remote)
        (fun u' hu' heq => hnd.1 u' hu' (by simpa using congrArg Prod.fst heq))]
      unfold pushOne lease
      generalize hc : remoteCas (s.remoteRefs u.name) u.before u.after = c at hp
      obtain ⟨st, pos⟩ := c
      simp only at hp
      subst hp
      simp [setAt]
    · have hne : w.name ≠ u.name := fun heq => hnd.1 u hu' heq.symm
      apply ih _ hnd.2 hu'
      rw [pushOne_remoteRefs_other remote s w u.name hne]
      exact hp

theorem nodup_map_pair (l : List Nat) (r : Nat) (h : l.Nodup) : (l.map (fun n => ((n, r) : Key))).Nodup := by
  induction l with
  | nil => simp
  | cons a l ih =>
    simp only [List.nodup_cons] at h
    simp only [List.map_cons, List.nodup_cons, List.mem_map, not_exists, not_and]
    exact ⟨fun b hb heq => h.1 (by have := congrArg Prod.fst heq; simp only at this; rw [← this]; exact hb), ih h.2⟩

theorem map_filterMap_sublist {α ι κ : Type} (l : List α) (f : α → Option ι) (g : α → κ) (key : ι → κ)
    (hk : ∀ a i, f a = some i → key i = g a) : ((l.filterMap f).map key).Sublist (l.map g) := by
  induction l with
  | nil => simp
  | cons a l ih =>
    simp only [List.filterMap_cons, List.map_cons]
    cases hf : f a with
    | none => exact ih.trans (List.sublist_cons_self _ _)
    | some i =>
      simp only [List.map_cons]
      rw [hk a i hf]
      exact ih.cons_cons _

/-- **unexported_nil**: recording the pushed positions in the local Git repo cannot fail: `git push`
itself has already moved the local remote-tracking refs to the pushed values, and every
compare-and-swap of `export_refs_to_git` accepts "already at the new value". -/
theorem unexported_nil (remote : Nat) (v : View) (git : Git) (rem : Nat → Option Nat)
    (ups : List PushUpdate) (hnd : (ups.map (·.name)).Nodup) :
    (pushRefs remote v git rem ups).unexported = [] := by
  unfold pushRefs
  simp only
  -- abbreviations
  generalize hrun : pushUpdates remote rem git ups = run
  generalize hpu : List.filter (fun u => run.pushed.contains u.name) ups = pu
  have hsub : pu.Sublist ups := by rw [← hpu]; exact List.filter_sublist
  have hndp : (pu.map (·.name)).Nodup := (hsub.map _).nodup hnd
  -- Git has moved the local tracking ref of every pushed update
  have hgit : ∀ u ∈ pu, run.git (u.name, remote) = u.after := by
    intro u hu
    rw [← hpu] at hu
    obtain ⟨hu1, hu2⟩ := List.mem_filter.mp hu
    have hp : u.name ∈ run.pushed := by simpa using hu2
    rw [← hrun] at hp ⊢
    unfold pushUpdates at hp ⊢
    rcases (foldl_pushOne_status remote ups ⟨rem, git, [], []⟩ hnd u.name).1.mp hp with h | ⟨w, hw, hwn, hwp⟩
    · simp at h
    · have := nodup_name_inj hnd hw hu1 hwn
      subst this
      exact foldl_pushOne_git_mem remote ups ⟨rem, git, [], []⟩ hnd w hw hwp
  have hkeys : (pu.map (fun u => ((u.name, remote) : Key))).Nodup := by
    have := nodup_map_pair (pu.map (·.name)) remote hndp
    rw [List.map_map] at this
    exact this
  have hndD : ((pushedToExport remote pu).toDelete.map (·.1)).Nodup := by
    unfold pushedToExport
    apply (map_filterMap_sublist pu _ (fun u => ((u.name, remote) : Key)) _ _).nodup hkeys
    intro u i h
    cases hb : u.before <;> cases ha : u.after <;> simp [hb, ha] at h
    simp [← h]
  have hndU : ((pushedToExport remote pu).toUpdate.map (·.1)).Nodup := by
    unfold pushedToExport
    apply (map_filterMap_sublist pu _ (fun u => ((u.name, remote) : Key)) _ _).nodup hkeys
    intro u i h
    cases ha : u.after <;> simp [ha] at h
    simp [← h]
  -- no failure can be reported
  apply List.eq_nil_iff_forall_not_mem.mpr
  intro x hx
  unfold exportRefsToGit at hx
  simp only at hx
  rw [mem_sortFailed] at hx
  rcases mem_foldl_stepUpdate_failed _ _ hndU x hx with h | ⟨e, he, _, h2⟩
  · rcases mem_foldl_stepDelete_failed _ _ hndD x h with h | ⟨e, he, _, h2⟩
    · simp [pushedToExport] at h
    · -- a delete entry: the local tracking ref is already gone
      unfold pushedToExport at he
      simp only at he
      obtain ⟨u, hu, hf⟩ := List.mem_filterMap.mp he
      cases hb : u.before <;> cases ha : u.after <;> simp [hb, ha] at hf
      subst hf
      simp only at h2
      rw [hgit u hu, ha] at h2
      simp [delRes] at h2
  · -- an update entry: the local tracking ref already has the new value
    have hmemU := he
    unfold pushedToExport at he
    simp only at he
    obtain ⟨u, hu, hf⟩ := List.mem_filterMap.mp he
    cases ha : u.after with
    | none => simp [ha] at hf
    | some c =>
      simp [ha] at hf
      subst hf
      simp only at h2
      have hoth := foldl_stepDelete_obs_other (pushedToExport remote pu).toDelete
        ⟨v, run.git, (pushedToExport remote pu).failed⟩ (u.name, remote) (fun e' he' heq => by
          unfold pushedToExport at he'
          simp only at he'
          obtain ⟨u', hu', hf'⟩ := List.mem_filterMap.mp he'
          cases hb' : u'.before <;> cases ha' : u'.after <;> simp [hb', ha'] at hf'
          subst hf'
          simp only [Prod.mk.injEq] at heq
          have := nodup_name_inj hndp hu' hu heq.1
          subst this
          rw [ha] at ha'
          cases ha')
      have hg : (List.foldl stepDelete ⟨v, run.git, (pushedToExport remote pu).failed⟩
          (pushedToExport remote pu).toDelete).git (u.name, remote) = run.git (u.name, remote) :=
        congrArg Prod.fst hoth
      rw [hg, hgit u hu, ha] at h2
      cases hb : u.before with
      | none => simp [hb, updRes] at h2
      | some o =>
        by_cases hco : c = o <;> simp [hb, updRes, hco] at h2

/-- **pushed_updates_record**, unconditional: for every name reported pushed, jj's record becomes the
pushed position, tracked. -/
theorem pushed_updates_record_total (remote : Nat) (v : View) (git : Git) (rem : Nat → Option Nat)
    (ups : List PushUpdate) (hnd : (ups.map (·.name)).Nodup) (u : PushUpdate) (hu : u ∈ ups)
    (hp : u.name ∈ (pushRefs remote v git rem ups).pushed) :
    ((pushRefs remote v git rem ups).view.remotes (u.name, remote)).target = ofOpt u.after ∧
    (u.after.isSome → ((pushRefs remote v git rem ups).view.remotes (u.name, remote)).tracked = true) :=
  pushed_updates_record remote v git rem ups hnd u hu hp
    (by rw [unexported_nil remote v git rem ups hnd]; rfl)

/-! ### non-vacuity: a concrete push with one fresh and one stale bookmark -/

/-- bookmark 0: local 2, record 1 (tracked), remote still 1 → pushed;
    bookmark 1: local 2, record 1 (tracked), remote moved to 3 by somebody else → rejected -/
def exView : View :=
  { locals := fun _ => normal 2
    remotes := fun k => if k.2 = 1 then ⟨normal 1, true⟩ else RemoteRef.absentRef
    gitRefs := fun k => if k.2 = 1 then normal 1 else absent }
def exRemote : Nat → Option Nat := fun n => if n = 0 then some 1 else some 3

example : pushTargets 1 exView [0, 1] = [⟨0, some 1, some 2⟩, ⟨1, some 1, some 2⟩] := by decide
example : (pushRefs 1 exView (fun _ => none) exRemote (pushTargets 1 exView [0, 1])).pushed = [0] := by decide
example : (pushRefs 1 exView (fun _ => none) exRemote (pushTargets 1 exView [0, 1])).rejected = [1] := by decide
example : (pushRefs 1 exView (fun _ => none) exRemote (pushTargets 1 exView [0, 1])).remoteRefs 0 = some 2 ∧
          (pushRefs 1 exView (fun _ => none) exRemote (pushTargets 1 exView [0, 1])).remoteRefs 1 = some 3 := by decide
example : ((pushRefs 1 exView (fun _ => none) exRemote (pushTargets 1 exView [0, 1])).view.remotes (0, 1)) = ⟨normal 2, true⟩ ∧
          ((pushRefs 1 exView (fun _ => none) exRemote (pushTargets 1 exView [0, 1])).view.remotes (1, 1)) = ⟨normal 1, true⟩ := by decide
example : (pushRefs 1 exView (fun _ => none) exRemote (pushTargets 1 exView [0, 1])).unexported = [] := by decide

-- the hypotheses of the theorems are satisfiable by this push
example : ((pushTargets 1 exView [0, 1]).map (·.name)).Nodup := by decide
example := push_cas 1 exRemote (fun _ => none) (pushTargets 1 exView [0, 1]) (by decide)
example := rejected_leaves_state 1 exView (fun _ => none) exRemote (pushTargets 1 exView [0, 1]) (by decide)
example := pushed_updates_record_total 1 exView (fun _ => none) exRemote (pushTargets 1 exView [0, 1]) (by decide)
  ⟨0, some 1, some 2⟩ (by decide) (by decide)
example := lease_is_recorded_position 1 exView [0, 1] ⟨1, some 1, some 2⟩ (by decide)

end JjModel.C45
