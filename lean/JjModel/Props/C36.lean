import JjModel.Generated.Grammars
import JjModel.Lemmas.Peg
import JjModel.Lemmas.Alias
/-!
  C36 — expression parsers never crash: the parts that are proved.

  * `peg_terminates`: on a grammar accepted by the checker `wellFormed` (no left recursion, no
    repetition of an expression that can succeed on nothing) the PEG interpreter never runs out
    of the fuel `fuelBound g |input|`; `peg_wellformed_*`: the three grammars generated from
    `revset.pest`, `fileset.pest`, `template.pest` are accepted (re-checked by the kernel whenever
    the translator regenerates them); hence `*_recognise_total`.
  * `alias_expansion_terminates`: alias expansion with the recursion-detection stack returns an
    expression or an error for every alias map and expression; `alias_nesting_bound`: every
    nested definition removes one id from the finitely many that can still be entered.
  Not proved (covered only by the no-panic oracle of the harness): that the AST builders'
  `unwrap`/`assert`/`panic!` sites are unreachable on pest parse trees (`builder_total`), and
  anything about the machine stack.
-/
namespace JjModel.C36
open JjModel.Peg JjModel.Generated

/-! ### the PEG interpreter terminates on well-formed grammars -/

/-- **peg_terminates**: on a well-formed grammar, running any rule on any input with the fuel
`fuelBound g |input|` does not run out of fuel. -/
theorem peg_terminates (g : List Expr) (hwf : wellFormed g = true) (total i : Nat) (s : List Char) :
    run g total (fuelBound g s.length) (.ref i) s ≠ .oof := by
  simp only [wellFormed] at hwf
  apply run_no_oof hwf
  · simp [size, bodyBound]
  · rfl
  · have h := weight_lt g (computeNullable g) (computeRank g (computeNullable g)) (.ref i) (by simp [size, bodyBound])
    simp only [need, fuelBound]
    rw [Nat.succ_mul]
    omega

/-- the same for any expression no larger than the rule bodies (not only a rule reference) -/
theorem peg_terminates_expr (g : List Expr) (hwf : wellFormed g = true) (total : Nat) (e : Expr)
    (hs : size e ≤ bodyBound g) (hst : starsOK (computeNullable g) e = true) (s : List Char) :
    run g total (fuelBound g s.length) e s ≠ .oof := by
  simp only [wellFormed] at hwf
  apply run_no_oof hwf _ e s hs hst
  have h := weight_lt g (computeNullable g) (computeRank g (computeNullable g)) e hs
  simp only [need, fuelBound]
  rw [Nat.succ_mul]
  omega

/-- the answer does not depend on the fuel once it is enough -/
theorem peg_fuel_irrelevant (g : List Expr) (hwf : wellFormed g = true) (total i : Nat) (s : List Char)
    (n : Nat) (hn : fuelBound g s.length ≤ n) :
    run g total n (.ref i) s = run g total (fuelBound g s.length) (.ref i) s :=
  run_fuel_mono _ _ _ (peg_terminates g hwf total i s) n hn

/-- in a well-formed grammar every successful iteration of a `*` consumes input -/
theorem star_progress (g : List Expr) (hwf : wellFormed g = true) (total n : Nat) (a : Expr)
    (hst : starsOK (computeNullable g) (.star a) = true) (s t : List Char)
    (h : run g total n a s = .ok t) : t.length < s.length := by
  simp only [wellFormed] at hwf
  have hk := run_ok hwf n a s t h
  simp only [starsOK, Bool.and_eq_true, Bool.not_eq_true'] at hst
  by_cases hlt : t.length < s.length
  · exact hlt
  · have := hk.2 (by omega); rw [hst.1] at this; cases this

/-- a successful match returns a suffix: the parser never "un-consumes" -/
theorem match_shrinks (g : List Expr) (hwf : wellFormed g = true) (total n : Nat) (e : Expr) (s t : List Char)
    (h : run g total n e s = .ok t) : t.length ≤ s.length := by
  simp only [wellFormed] at hwf
  exact (run_ok hwf n e s t h).1

/-- **peg_wellformed**: the generated grammars pass the checker.  These are closed boolean facts
evaluated by the kernel; a grammar edit in /repo regenerates `Grammars.lean` and re-triggers them. -/
theorem peg_wellformed_revset : wellFormed (compile revsetGrammar) = true := by decide +kernel
theorem peg_wellformed_fileset : wellFormed (compile filesetGrammar) = true := by decide +kernel
theorem peg_wellformed_template : wellFormed (compile templateGrammar) = true := by decide +kernel

/-- the recogniser the driver runs answers `ok`/`fail` for every rule and every input of a grammar
whose compiled form is well-formed -/
theorem recognise_total (g : Grammar) (hwf : wellFormed (compile g) = true) (i : Nat) (input : List Char) :
    recognise g i input ≠ .oof := by
  simp only [recognise]
  exact peg_terminates (compile g) hwf input.length (g.start i) input

theorem revset_recognise_total (i : Nat) (input : List Char) : recognise revsetGrammar i input ≠ .oof :=
  recognise_total revsetGrammar peg_wellformed_revset i input
theorem fileset_recognise_total (i : Nat) (input : List Char) : recognise filesetGrammar i input ≠ .oof :=
  recognise_total filesetGrammar peg_wellformed_fileset i input
theorem template_recognise_total (i : Nat) (input : List Char) : recognise templateGrammar i input ≠ .oof :=
  recognise_total templateGrammar peg_wellformed_template i input

/-! non-vacuity: the checker rejects what it must, and what it rejects really diverges -/

/-- `a = { a ~ "x" }` (left recursion) and `a = { ""* }` (nullable repetition) are rejected -/
example : wellFormed [.seq (.ref 0) (.str [120])] = false := by decide
example : wellFormed [.star (.str [])] = false := by decide
example : wellFormed [.star (.alt (.chr (.cls .any)) (.not (.str [120])))] = false := by decide
/-- indirect left recursion through a nullable prefix -/
example : wellFormed [.seq (.alt (.str [97]) (.str [])) (.ref 1), .alt (.ref 0) (.str [98])] = false := by decide
/-- right recursion and recursion behind a consumed character are fine -/
example : wellFormed [.alt (.seq (.str [40]) (.seq (.ref 0) (.str [41]))) (.str [120])] = true := by decide

/-- the left-recursive rule runs out of every fuel: the hypothesis of `peg_terminates` is needed -/
theorem left_recursion_diverges (n total : Nat) (s : List Char) :
    run [.seq (.ref 0) (.str [120])] total n (.ref 0) s = .oof := by
  induction n using Nat.strongRecOn with
  | ind n ih =>
    match n with
    | 0 => rfl
    | 1 => rfl
    | n + 2 =>
      have := ih n (by omega)
      simp only [run, List.getElem?_cons_zero, this]

/-- the nullable repetition runs out of every fuel as well -/
theorem nullable_star_diverges (n total : Nat) (s : List Char) :
    run [] total n (.star (.str [])) s = .oof := by
  induction n with
  | zero => rfl
  | succ n ih =>
    cases n with
    | zero => rfl
    | succ k => simp only [run, stripPrefix] at ih ⊢; exact ih

/-- index of a rule by name (for the examples) -/
def ruleIdx (g : Grammar) (name : String) : Nat := (g.rules.findIdx? (·.name == name)).getD 0

/-- the model accepts / rejects concrete texts -/
example : recognise revsetGrammar (ruleIdx revsetGrammar "program") "a | b".toList = .ok [] := by decide +kernel
example : recognise revsetGrammar (ruleIdx revsetGrammar "program") "a | | b".toList = .fail := by decide +kernel

/-! ### alias expansion terminates -/

open JjModel.Alias

/-- **alias_expansion_terminates** (general form): below any recursion-detection stack, fuel above
`e.size + remaining * (maxDefn + 2)` is enough. -/
theorem alias_expansion_terminates_from (m : Aliases) (n : Nat) (stack : List AliasId) (locals : Locals) (e : Ast)
    (h : fuelFor m stack e ≤ n) : expand m n stack locals e ≠ .oof :=
  (expand_no_oof m n).1 stack locals e (by simp only [fuelFor] at h; omega)

/-- **alias_expansion_terminates**: `expand_aliases` returns an expression or reports an error
(`RecursiveAlias`, invalid arguments, or a definition that does not parse) — for every alias map,
recursive or not, and every expression. -/
theorem alias_expansion_terminates (m : Aliases) (e : Ast) : expandAliases m e ≠ .oof :=
  alias_expansion_terminates_from m _ [] [] e (Nat.le_refl _)

/-- **alias_nesting_bound**: entering a definition (possible only for an id of the map that is
not on the stack) strictly decreases the number of ids that can still be entered, which is at
most the number of aliases: definitions nest at most `m.ids.length` deep. -/
theorem alias_nesting_bound (m : Aliases) (stack : List AliasId) (id : AliasId)
    (hid : id ∈ m.ids) (hs : stack.contains id = false) :
    remaining m (id :: stack) < remaining m stack ∧ remaining m stack ≤ m.ids.length :=
  ⟨remaining_push hid hs, remaining_le m stack⟩

/-- an id already being expanded is reported, not expanded again -/
theorem recursion_detected (m : Aliases) (n : Nat) (stack : List AliasId) (id : AliasId) (defn : Option Ast)
    (locals : Locals) (h : stack.contains id = true) :
    expandDefn m (n + 1) stack id defn locals = .err [] (.recursive id) := by
  have hm : id ∈ stack := by simpa using h
  simp [expandDefn, hm]

/-- non-vacuity: `A = B`, `B = A` is reported as recursion with the expansion trace;
`f(x) = x` applied twice is expanded twice (re-entering `f` in an *argument* is not recursion) -/
example : expandAliases { symbols := [(0, some (.ident 1)), (1, some (.ident 0))], patterns := [], functions := [] } (.ident 0)
    = .err [.symbol 0, .symbol 1] (.recursive (.symbol 0)) := by rfl
example : expandAliases { symbols := [], patterns := [], functions := [(0, [9], some (.ident 9))] } (.call 0 [.call 0 [.ident 5]])
    = .ok (.expanded (.function 0 [9]) (.expanded (.parameter 9)
        (.expanded (.function 0 [9]) (.expanded (.parameter 9) (.ident 5))))) := by rfl

end JjModel.C36
