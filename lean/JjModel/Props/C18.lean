import JjModel.Lemmas.IndexGca
import JjModel.Lemmas.IndexMerge
/-!
  C18 — The commit index answers exactly as the commit graph.

  The commit graph is the parent relation on index positions; `Reach idx a d` ("`a` is an
  ancestor of `d`") is its reflexive–transitive closure, defined inductively and independently of
  every algorithm below.  All theorems are about the executable definitions of
  `Model/Index.lean` that the driver runs (`isAncestorPos`, `headsPos`/`heads`,
  `commonAncestorsPos`, `allHeadsPos`, `genOf ∘ build`, `entryByPos`), under the well-formedness
  invariant `IndexWF` that `add_commit_data` establishes (`add_commit_preserves_wf`).
  Termination: every loop is run with the fuel the entry point hands out; the theorems hold for
  exactly that fuel, i.e. the fuel is proved adequate.
-/
namespace JjModel.C18
open JjModel.Index

/-! ### the invariant -/

/-- `add_commit_data` keeps the index well-formed, provided the parents are already indexed
(the source panics with "parent commit is not indexed" otherwise). -/
theorem add_commit_preserves_wf {idx : Index} (hwf : IndexWF idx) (ps : List Nat)
    (hps : ∀ q ∈ ps, q < idx.length) : IndexWF (addCommit idx ps) :=
  addCommit_wf hwf ps hps

/-- every index the driver builds from a request is well-formed -/
theorem build_wf (pss : List (List Nat)) (h : ParentsBefore pss 0) : IndexWF (build pss) :=
  foldl_addCommit_wf pss [] wf_nil h

/-! ### `is_ancestor` -/

/-- The work-stack / visited-set / generation-cut-off loop of `is_ancestor_pos` decides
reachability in the commit graph (with the fuel `ancFuel` it is given: one unit per stack pop). -/
theorem is_ancestor_iff_reachable {idx : Index} (hwf : IndexWF idx) (a d : Nat) :
    isAncestorPos idx a d = true ↔ Reach idx a d := by
  unfold isAncestorPos
  constructor
  · intro h
    obtain ⟨w, hw, hr⟩ := isAncestorLoop_sound idx a _ _ _ _ h
    simp at hw; subst hw; exact hr
  · intro h
    apply isAncestorLoop_complete hwf a
    · simp
    · rw [pendingEdges_nil]; simp [ancFuel]; omega
    · exact ⟨d, by simp, h⟩

/-- ancestors are at smaller or equal positions, and `Reach` is antisymmetric -/
theorem reach_antisymm {idx : Index} (hwf : IndexWF idx) {a d : Nat} (h1 : Reach idx a d) (h2 : Reach idx d a) :
    a = d := by
  have := reach_le hwf h1; have := reach_le hwf h2; omega

/-! ### `heads` -/

/-- `heads_pos` keeps exactly the candidates that are not proper ancestors of another candidate
(the maximal elements of the candidate set), for strictly descending candidates as the source
requires. -/
theorem heads_pos_eq_maximal {idx : Index} (hwf : IndexWF idx) (cands : List Nat)
    (hsorted : cands.Pairwise (· > ·)) (hvalid : ∀ c ∈ cands, c < idx.length) (z : Nat) :
    z ∈ headsPos idx cands ↔ z ∈ cands ∧ ∀ d ∈ cands, Reach idx z d → d = z := by
  unfold headsPos
  split
  · next hn =>
    have := minGenOf_none hn; subst this; simp
  · next m hm =>
    have hb : ∀ c ∈ cands, c < idx.length := hvalid
    rw [headsOuter_spec hwf m cands [] [] idx.length (minGenOf_le hm) hsorted hvalid hb (by simp)
      (by intro x hx; simp at hx) (by intro y _ _ ⟨d, hd, _⟩; simp at hd) z]
    simp only [List.not_mem_nil, false_or, List.nil_append]
    constructor
    · rintro ⟨hz, hno⟩
      refine ⟨hz, fun d hd hr => ?_⟩
      by_cases he : z = d
      · exact he.symm
      · exact absurd ⟨d, hd, hr, he⟩ hno
    · rintro ⟨hz, hall⟩
      refine ⟨hz, ?_⟩
      rintro ⟨d, hd, hr, hne⟩
      exact hne (hall d hd hr).symm

/-- … and it returns them in the order of the input (descending positions). -/
theorem heads_pos_sublist (idx : Index) (cands : List Nat) : (headsPos idx cands).Sublist cands := by
  unfold headsPos
  split
  · exact List.Sublist.refl _
  · next m _ =>
    obtain ⟨l, hl, he⟩ := headsOuter_sublist idx m cands [] []
    rw [he]; simpa using hl

/-- `Index::heads` on an arbitrary candidate list (unsorted, with duplicates): the maximal
elements of the candidate set, strictly descending. -/
theorem heads_eq_maximal {idx : Index} (hwf : IndexWF idx) (cs : List Nat)
    (hvalid : ∀ c ∈ cs, c < idx.length) (z : Nat) :
    z ∈ heads idx cs ↔ z ∈ cs ∧ ∀ d ∈ cs, Reach idx z d → d = z := by
  unfold heads
  rw [heads_pos_eq_maximal hwf _ (sortDescDedup_pairwise cs)
    (fun c hc => hvalid c (mem_sortDescDedup.mp hc)) z]
  simp only [mem_sortDescDedup]

theorem heads_descending (idx : Index) (cs : List Nat) : (heads idx cs).Pairwise (· > ·) :=
  (sortDescDedup_pairwise cs).sublist (heads_pos_sublist idx _)

/-! ### `common_ancestors` -/

/-- The two-heap walk followed by `heads_pos` returns exactly the greatest common ancestors:
the maximal elements of the intersection of the two ancestor closures. -/
theorem common_ancestors_eq_gca {idx : Index} (hwf : IndexWF idx) (s1 s2 : List Nat)
    (h1 : ∀ x ∈ s1, x < idx.length) (h2 : ∀ x ∈ s2, x < idx.length) (z : Nat) :
    z ∈ commonAncestorsPos idx s1 s2 ↔
      Common idx s1 s2 z ∧ ∀ d, Common idx s1 s2 d → Reach idx z d → d = z := by
  unfold commonAncestorsPos
  have out := gcaLoop_spec hwf s1 s2 (2 * idx.length + 1) s1 s2 [] (gcaInv_init idx s1 s2)
    (fun x hx y hy => by have := h1 x hx; have := h2 y hy; omega)
  generalize gcaLoop idx (2 * idx.length + 1) s1 s2 [] = L at out
  have hvalid : ∀ c ∈ L, c < idx.length := by
    intro c hc
    obtain ⟨⟨d, hd, hr⟩, _⟩ := out.common c hc
    have := reach_le hwf hr
    have := h1 d hd
    omega
  rw [heads_pos_eq_maximal hwf L out.sorted hvalid z]
  constructor
  · rintro ⟨hz, hmax⟩
    refine ⟨out.common z hz, fun d hd hr => ?_⟩
    obtain ⟨r, hrL, hdr⟩ := out.covers d hd
    have hrz : r = z := hmax r hrL (Reach.trans hr hdr)
    subst hrz
    exact (reach_antisymm hwf hr hdr).symm
  · rintro ⟨hc, hmax⟩
    obtain ⟨r, hrL, hzr⟩ := out.covers z hc
    have hrz : r = z := hmax r (out.common r hrL) hzr
    subst hrz
    exact ⟨hrL, fun d hd hr => hmax d (out.common d hd) hr⟩

theorem common_ancestors_descending {idx : Index} (hwf : IndexWF idx) (s1 s2 : List Nat)
    (h1 : ∀ x ∈ s1, x < idx.length) (h2 : ∀ x ∈ s2, x < idx.length) :
    (commonAncestorsPos idx s1 s2).Pairwise (· > ·) := by
  unfold commonAncestorsPos
  have out := gcaLoop_spec hwf s1 s2 (2 * idx.length + 1) s1 s2 [] (gcaInv_init idx s1 s2)
    (fun x hx y hy => by have := h1 x hx; have := h2 y hy; omega)
  exact out.sorted.sublist (heads_pos_sublist idx _)

/-! ### all heads -/

theorem mem_notHead {idx : Index} {q : Nat} : q ∈ notHead idx ↔ ∃ y, q ∈ parentsOf idx y := by
  unfold notHead
  simp only [List.mem_flatMap]
  constructor
  · rintro ⟨e, he, hq⟩
    obtain ⟨i, hi, rfl⟩ := List.mem_iff_getElem.mp he
    refine ⟨i, ?_⟩
    simp [parentsOf, List.getElem?_eq_getElem hi, hq]
  · rintro ⟨y, hy⟩
    unfold parentsOf at hy
    split at hy
    · next e he => exact ⟨e, List.mem_of_getElem? he, hy⟩
    · simp at hy

/-- `all_heads_pos` lists exactly the positions without descendants, in ascending order. -/
theorem all_heads_eq_childless {idx : Index} (hwf : IndexWF idx) (p : Nat) :
    p ∈ allHeadsPos idx ↔ p < idx.length ∧ ∀ d, Reach idx p d → d = p := by
  unfold allHeadsPos
  simp only [List.mem_filter, List.mem_range, Bool.not_eq_eq_eq_not, Bool.not_true]
  have hc : (notHead idx).contains p = false ↔ ¬ p ∈ notHead idx := by
    rw [← List.contains_iff_mem]; cases (notHead idx).contains p <;> simp
  rw [hc, mem_notHead]
  constructor
  · rintro ⟨hp, hno⟩
    refine ⟨hp, fun d hr => ?_⟩
    have key : ∀ {a d}, Reach idx a d → d = a ∨ ∃ y, a ∈ parentsOf idx y := by
      intro a d h
      induction h with
      | refl => exact Or.inl rfl
      | step hq _ ih =>
        rcases ih with rfl | h'
        · exact Or.inr ⟨_, hq⟩
        · exact Or.inr h'
    rcases key hr with h | h
    · exact h
    · exact absurd h hno
  · rintro ⟨hp, hall⟩
    refine ⟨hp, ?_⟩
    rintro ⟨y, hy⟩
    have := hall y (Reach.step hy (Reach.refl _))
    subst this
    have := parentsOf_lt hwf hy
    omega

theorem all_heads_ascending (idx : Index) : (allHeadsPos idx).Pairwise (· < ·) := by
  unfold allHeadsPos
  exact (List.pairwise_lt_range).sublist List.filter_sublist

/-! ### generation numbers -/

/-- a path of `k` parent edges from `d` down to `a` -/
inductive Chain (idx : Index) : Nat → Nat → Nat → Prop
  | nil (a : Nat) : Chain idx a a 0
  | cons {a q d k : Nat} : q ∈ parentsOf idx d → Chain idx a q k → Chain idx a d (k + 1)

/-- The stored generation number of a position is the length of the longest parent chain from it
down to a parentless commit: no chain is longer, and one of exactly that length exists. -/
theorem generation_correct {idx : Index} (hwf : IndexWF idx) (d : Nat) (hd : d < idx.length) :
    (∀ a k, Chain idx a d k → genOf idx a + k ≤ genOf idx d) ∧
    ∃ a, parentsOf idx a = [] ∧ Chain idx a d (genOf idx d) := by
  constructor
  · have key : ∀ {a d k}, Chain idx a d k → genOf idx a + k ≤ genOf idx d := by
      intro a d k hc
      induction hc with
      | nil => omega
      | cons hq _ ih => have := gen_parent_lt hwf hq; omega
    exact fun a k hc => key hc
  · induction d using Nat.strongRecOn with
    | _ d ih =>
      rcases newGen_cases idx (parentsOf idx d) with ⟨hnil, h0⟩ | ⟨q, hq, hg⟩
      · refine ⟨d, hnil, ?_⟩
        rw [genOf_eq_newGen hwf hd, h0]
        exact Chain.nil d
      · have hqd := parentsOf_lt hwf hq
        obtain ⟨a, ha, hc⟩ := ih q hqd (by omega)
        refine ⟨a, ha, ?_⟩
        rw [genOf_eq_newGen hwf hd, hg]
        exact Chain.cons hq hc

/-- the same for the index the driver builds: `gen` of the request `C18 gen` -/
theorem generation_correct_build (pss : List (List Nat)) (h : ParentsBefore pss 0) (d : Nat)
    (hd : d < (build pss).length) :
    (∀ a k, Chain (build pss) a d k → genOf (build pss) a + k ≤ genOf (build pss) d) ∧
    ∃ a, parentsOf (build pss) a = [] ∧ Chain (build pss) a d (genOf (build pss) d) :=
  generation_correct (build_wf pss h) d hd

/-! ### stacked segments -/

/-- a stack of segments (child first) whose `num_parent_commits` are the sizes of what lies below -/
def SegStackWF : List Segment → Prop
  | [] => True
  | s :: rest => s.numParent = (flatten rest).length ∧ SegStackWF rest

/-- `entry_by_pos` over a stack of segments is the lookup in the concatenated entry list. -/
theorem segments_flatten (segs : List Segment) (h : SegStackWF segs) (pos : Nat) :
    entryByPos segs pos = (flatten segs)[pos]? := by
  induction segs with
  | nil => simp [entryByPos, flatten]
  | cons s rest ih =>
    obtain ⟨hn, hrest⟩ := h
    simp only [entryByPos, flatten]
    by_cases hp : s.numParent ≤ pos
    · simp only [hp, if_true]
      rw [List.getElem?_append_right (by omega), hn]
    · simp only [hp, if_false]
      rw [List.getElem?_append_left (by omega)]
      exact ih hrest

theorem segmentsOf_spec (idx : Index) :
    ∀ (ns : List Nat) (start : Nat) (acc : List Segment),
      SegStackWF acc → flatten acc = idx.take start → start + ns.sum ≤ idx.length →
      SegStackWF (segmentsOf idx ns start acc) ∧
        flatten (segmentsOf idx ns start acc) = idx.take (start + ns.sum) := by
  intro ns
  induction ns with
  | nil => intro start acc hwf hfl _; simp [segmentsOf, hwf, hfl]
  | cons n ns ih =>
    intro start acc hwf hfl hle
    simp only [List.sum_cons] at hle
    simp only [segmentsOf, List.sum_cons]
    have := ih (start + n) ({ numParent := start, entries := (idx.drop start).take n } :: acc)
      ⟨by simp [hfl]; omega, hwf⟩ (by simp [flatten, hfl, List.take_add]) (by omega)
    rw [Nat.add_assoc] at this
    exact this

/-- the driver's `seg` request: the entry read through the stack of segments of the given sizes
is the entry of the flat index -/
theorem segments_of_flatten (idx : Index) (sizes : List Nat) (h : sizes.sum = idx.length) (pos : Nat) :
    entryByPos (segmentsOf idx sizes 0 []) pos = idx[pos]? := by
  obtain ⟨hwf, hfl⟩ := segmentsOf_spec idx sizes 0 [] trivial (by simp [flatten]) (by omega)
  rw [segments_flatten _ hwf, hfl]
  simp [h]

/-! ### growth of the index: squash rule, `add_commit_data` with ids, `merge_in` -/

/-- `maybe_squash_with_ancestors` + `save_in` keep every commit: the local sizes of the saved
stack add up to the old stack plus the new commits. -/
theorem squash_preserves_count (new : Nat) (levels : List Nat) :
    (squashSizes new levels).sum = new + levels.sum := by
  have hgen : ∀ (n : Nat) (l : List Nat), (squashLoop n l).1 + (squashLoop n l).2.sum = n + l.sum := by
    intro n l
    induction l generalizing n with
    | nil => simp [squashLoop]
    | cons p rest ih =>
      simp only [squashLoop]
      split
      · rfl
      · rw [ih]; simp only [List.sum_cons]; omega
  have := hgen new levels
  unfold squashSizes
  generalize squashLoop new levels = r at this
  obtain ⟨n, rest⟩ := r
  cases n with
  | zero => simpa using this
  | succ n => simpa using this

/-- … and the saved stack again has every file more than twice as large as its child (so the
number of segment files stays logarithmic). -/
theorem squash_keeps_halving (new : Nat) (levels : List Nat) (hh : Halving levels) :
    Halving (squashSizes new levels) := by
  obtain ⟨_, h2, _, _⟩ := squashLoop_spec new levels hh
  unfold squashSizes
  generalize squashLoop new levels = r at h2
  obtain ⟨n, rest⟩ := r
  cases n with
  | zero => exact h2.tail
  | succ n => exact h2

/-- `add_commit_data` on an index with ids keeps ids unique and the graph part well-formed,
whatever it is given (an already indexed id is ignored). -/
theorem add_commit_data_preserves_wf {idx : IdIndex} (hwf : IdWF idx) (id : Nat) (parentIds : List Nat) :
    IdWF (addCommitData idx id parentIds) := addCommitData_wf hwf id parentIds

/-- the id-level parent relation of an index is the position-level one read through the ids -/
theorem id_edge_iff_parents {idx : IdIndex} (c p : Nat) :
    IdEdge idx c p ↔ ∃ pc pp, idAt idx pc = some c ∧ idAt idx pp = some p ∧ pp ∈ parentsOf (toIndex idx) pc := by
  constructor
  · rintro ⟨e, he, hid, hp⟩
    obtain ⟨i, hi, hget⟩ := List.mem_iff_getElem.mp he
    obtain ⟨q, hq, hidq⟩ := List.mem_filterMap.mp hp
    refine ⟨i, q, by simp [idAt, List.getElem?_eq_getElem hi, hget, hid], hidq, ?_⟩
    simp [parentsOf, toIndex, List.getElem?_eq_getElem hi, hget, hq]
  · rintro ⟨pc, pp, hc, hpp, hmem⟩
    unfold idAt at hc
    cases he : idx[pc]? with
    | none => simp [he] at hc
    | some e =>
      simp [he] at hc
      refine ⟨e, List.mem_of_getElem? he, hc, ?_⟩
      have : parentsOf (toIndex idx) pc = e.parents := by simp [parentsOf, toIndex, he]
      rw [this] at hmem
      exact List.mem_filterMap.mpr ⟨pp, hmem, hpp⟩

/-- `merge_in`: the merged index is well-formed, keeps the positions of `self`, contains exactly
the union of the two id sets, and describes the union of the two commit graphs.
Assumptions: the commits below the common segment file found by the stack walk are in `self`
(equal file ids denote the same file — names are content hashes — and a file determines its whole
ancestor chain), and a commit id determines its parents (ids are content hashes). -/
theorem merge_in_union {self other : IdIndex} (hself : IdWF self) (hother : IdWF other)
    (ownFiles otherFiles : List (Nat × Nat))
    (hbase : ∀ q, q < commonBase (ownFiles.length + otherFiles.length + 1) ownFiles otherFiles →
      ∀ i, idAt other q = some i → i ∈ ids self)
    (hcons : ∀ c p, c ∈ ids self → c ∈ ids other → (IdEdge self c p ↔ IdEdge other c p)) :
    IdWF (mergeIn self ownFiles other otherFiles) ∧
    (∃ ext, mergeIn self ownFiles other otherFiles = self ++ ext) ∧
    (∀ x, x ∈ ids (mergeIn self ownFiles other otherFiles) ↔ x ∈ ids self ∨ x ∈ ids other) ∧
    (∀ c p, IdEdge (mergeIn self ownFiles other otherFiles) c p ↔ IdEdge self c p ∨ IdEdge other c p) := by
  unfold mergeIn
  generalize commonBase (ownFiles.length + otherFiles.length + 1) ownFiles otherFiles = k at hbase
  obtain ⟨hwf, hpre, hids, hedges⟩ := addCommitsFrom_spec hself hother k hbase
  have hsplit : ∀ x, x ∈ ids other ↔ x ∈ ids (other.take k) ∨ x ∈ ids (other.drop k) := by
    intro x
    have : ids other = ids (other.take k) ++ ids (other.drop k) := by
      simp only [ids, ← List.map_append, List.take_append_drop]
    rw [this, List.mem_append]
  have htake : ∀ x, x ∈ ids (other.take k) → x ∈ ids self := by
    intro x hx
    obtain ⟨e, he, rfl⟩ := List.mem_map.mp hx
    obtain ⟨i, hi, hget⟩ := List.mem_iff_getElem.mp he
    have hik : i < k := by simp [List.length_take] at hi; omega
    apply hbase i hik
    have : other[i]? = some e := by
      have h1 : (other.take k)[i]? = some e := by rw [List.getElem?_eq_getElem hi, hget]
      rwa [List.getElem?_take_of_lt hik] at h1
    simp [idAt, this]
  refine ⟨hwf, hpre, ?_, ?_⟩
  · intro x
    rw [hids, hsplit]
    constructor
    · rintro (h | h)
      · exact Or.inl h
      · exact Or.inr (Or.inr h)
    · rintro (h | h | h)
      · exact Or.inl h
      · exact Or.inl (htake x h)
      · exact Or.inr h
  · intro c p
    rw [hedges]
    constructor
    · rintro (h | ⟨_, _, h⟩)
      · exact Or.inl h
      · exact Or.inr h
    · rintro (h | h)
      · exact Or.inl h
      · have hco : c ∈ ids other := by
          obtain ⟨e, he, hid, _⟩ := h
          exact List.mem_map.mpr ⟨e, he, hid⟩
        by_cases hcs : c ∈ ids self
        · exact Or.inl ((hcons c p hcs hco).mpr h)
        · rcases (hsplit c).mp hco with ht | hd
          · exact absurd (htake c ht) hcs
          · exact Or.inr ⟨hcs, hd, h⟩

/-! ### non-vacuity: a concrete well-formed index with an octopus merge, and the answers on it -/

/-- `0 ← 1, 0 ← 2, {1,2} ← 3, 1 ← 4, {3,4,2} ← 5` -/
def sample : Index := build [[], [0], [0], [1, 2], [1], [3, 4, 2]]

example : IndexWF sample := build_wf _ (by simp [ParentsBefore])
example : isAncestorPos sample 1 5 = true := by decide
example : isAncestorPos sample 4 3 = false := by decide
example : Reach sample 1 5 := (is_ancestor_iff_reachable (build_wf _ (by simp [ParentsBefore])) 1 5).mp (by decide)
example : heads sample [1, 3, 3, 2, 4] = [4, 3] := by decide
example : [4, 3, 2, 1].Pairwise (· > ·) ∧ ∀ c ∈ [4, 3, 2, 1], c < sample.length := by decide
example := heads_pos_eq_maximal (idx := sample) (build_wf _ (by simp [ParentsBefore])) [4, 3, 2, 1] (by decide) (by decide) 3
example := common_ancestors_eq_gca (idx := sample) (build_wf _ (by simp [ParentsBefore])) [3] [4, 2] (by decide) (by decide) 2
example : commonAncestorsPos sample [3] [4] = [1] := by decide
example : commonAncestorsPos sample [3] [4, 2] = [2, 1] := by decide
example : allHeadsPos sample = [5] := by decide
example : genOf sample 5 = 3 := by decide
example : squashSizes 2 [3, 8] = [13] ∧ squashSizes 1 [3, 8] = [1, 3, 8] := by decide
example : Halving [3, 8] := by simp [Halving]
example : IdWF [⟨0, [], 0⟩, ⟨1, [0], 1⟩, ⟨2, [1], 2⟩] := ⟨by decide, by
  have : toIndex [⟨0, [], 0⟩, ⟨1, [0], 1⟩, ⟨2, [1], 2⟩] = build [[], [0], [1]] := by decide
  rw [this]; exact build_wf _ (by simp [ParentsBefore])⟩
example : (mergeIn [⟨0, [], 0⟩, ⟨1, [0], 1⟩, ⟨2, [1], 2⟩] [(3, 2), (2, 1)] [⟨0, [], 0⟩, ⟨1, [0], 1⟩, ⟨3, [1], 2⟩, ⟨4, [0, 2], 3⟩]
    [(4, 3), (2, 1)]).map (·.id) = [0, 1, 2, 3, 4] := by decide
/-- a concrete instance of every hypothesis of `merge_in_union`: two indexes sharing the file with 2 commits -/
def selfS : IdIndex := [⟨0, [], 0⟩, ⟨1, [0], 1⟩, ⟨2, [1], 2⟩]
def otherS : IdIndex := [⟨0, [], 0⟩, ⟨1, [0], 1⟩, ⟨3, [1], 2⟩, ⟨4, [0, 2], 3⟩]
theorem idwf_of_build (l : IdIndex) (pss : List (List Nat)) (h1 : (ids l).Nodup) (h2 : toIndex l = build pss) (h3 : ParentsBefore pss 0) : IdWF l :=
  ⟨h1, h2 ▸ build_wf _ h3⟩
example : commonBase 5 [(3, 2), (2, 1)] [(4, 3), (2, 1)] = 2 := by decide
theorem sample_merge_base : ∀ q, q < commonBase ([(3, 2), (2, 1)].length + [(4, 3), (2, 1)].length + 1) [(3, 2), (2, 1)] [(4, 3), (2, 1)] →
      ∀ i, idAt otherS q = some i → i ∈ ids selfS := by
  intro q hq i h
  have hcb : commonBase ([(3, 2), (2, 1)].length + [(4, 3), (2, 1)].length + 1) [(3, 2), (2, 1)] [(4, 3), (2, 1)] = 2 := by decide
  have hq2 : q < 2 := by rw [hcb] at hq; exact hq
  match q, hq2 with
  | 0, _ => simp [idAt, otherS] at h; subst h; decide
  | 1, _ => simp [idAt, otherS] at h; subst h; decide
theorem sample_merge_consistent : ∀ c p, c ∈ ids selfS → c ∈ ids otherS → (IdEdge selfS c p ↔ IdEdge otherS c p) := by
  intro c p h1 h2
  simp [ids, selfS, otherS] at h1 h2
  rcases h1 with rfl | rfl | rfl
  · simp [IdEdge, selfS, otherS, parentIdsAt, idAt]
  · simp [IdEdge, selfS, otherS, parentIdsAt, idAt]
  · simp at h2
example := merge_in_union (self := selfS) (other := otherS) (idwf_of_build _ [[], [0], [1]] (by decide) (by decide) (by simp [ParentsBefore]))
  (idwf_of_build _ [[], [0], [1], [0, 2]] (by decide) (by decide) (by simp [ParentsBefore])) [(3, 2), (2, 1)] [(4, 3), (2, 1)] sample_merge_base sample_merge_consistent

example : entryByPos (segmentsOf sample [3, 2, 1] 0 []) 4 = some { parents := [1], gen := 2 } := by decide

end JjModel.C18
