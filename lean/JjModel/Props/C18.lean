import JjModel.Model.Index
/-! C18 — work in progress -/
namespace JjModel.C18
open JjModel.Index
end JjModel.C18
