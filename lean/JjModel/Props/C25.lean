import JjModel.Lemmas.WorkingCopyUpdate
/-!
  C25 — checkout never destroys files it does not own.

  Theorems about `JjModel.WorkingCopy.update` / `checkOut` / `step` (the definitions the driver
  runs) for an arbitrary disk, arbitrary old/new trees and any matcher.  A "file" below is a disk
  entry that is not a directory (regular file or symlink), whoever owns it: untracked, ignored or a
  tracked file modified since the last snapshot.
  Not modelled (assumptions in props/C25.json): TOCTOU between the check and the write, real
  `create_new` / `rename` semantics, reserved `.jj`/`.git` names, path component validity (C32).
-/
namespace JjModel.C25
open JjModel.WorkingCopy

/-- the diff only contains paths accepted by the matcher at which the two trees differ -/
theorem diff_paths {old new : Tree} {m : Path → Bool} {e : DiffEntry} (h : e ∈ diffFs old new m) :
    m e.path = true ∧ get old e.path ≠ get new e.path ∧ e.before = get old e.path ∧ e.after = get new e.path := by
  have := mem_diffFs.mp h
  exact ⟨this.2.1, this.2.2.1, this.2.2.2.1, this.2.2.2.2⟩

/-- **untouched_preserved**: a file or symlink at a path the update does not touch — outside the
matcher (sparse patterns) or where old and new tree agree — is still there, unchanged, afterwards. -/
theorem untouched_preserved {disk : Disk} {states : List Path} {old new : Tree} {m : Path → Bool}
    {q : Path} {x : Entry} (hq : get disk q = some x) (hx : x ≠ .dir)
    (hun : m q = false ∨ get old q = get new q) :
    get (update disk states old new m).disk q = some x := by
  apply steps_leaf_preserved hx _ _ hq
  intro e he heq
  obtain ⟨h1, h2, _⟩ := diff_paths he
  rw [heq] at h1 h2
  rcases hun with h | h
  · rw [h] at h1; simp at h1
  · exact h2 h

/-- … and no file or symlink appears at such a path. -/
theorem nothing_appears_elsewhere {disk : Disk} {states : List Path} {old new : Tree} {m : Path → Bool}
    {q : Path} {x : Entry} (hx : x ≠ .dir) (hun : m q = false ∨ get old q = get new q)
    (h : get (update disk states old new m).disk q = some x) : get disk q = some x := by
  apply steps_no_new_leaf hx _ _ _ h
  intro e he heq
  obtain ⟨h1, h2, _⟩ := diff_paths he
  rw [heq] at h1 h2
  rcases hun with h | h
  · rw [h] at h1; simp at h1
  · exact h2 h

theorem checkout_untouched_preserved {wc : WC} {disk : Disk} {new : Tree} {q : Path} {x : Entry}
    (hq : get disk q = some x) (hx : x ≠ .dir)
    (hun : sparseMatch wc.sparse q = false ∨ get wc.tree q = get new q) :
    get (checkOut wc disk new).2.disk q = some x :=
  untouched_preserved hq hx hun

/-! ### untracked files in the way -/

/-- a file or symlink standing at `q` survives any sequence of entries that do not claim to have
tracked `q` before (every entry at `q` has `before = none`), and every such entry is skipped -/
theorem steps_untracked_kept {q : Path} {x : Entry} (hx : x ≠ .dir) :
    ∀ (es : List DiffEntry) (u : UState), get u.disk q = some x →
      (∀ e ∈ es, e.path = q → e.before = none) →
      get (steps u es).disk q = some x ∧
      ((∃ e ∈ es, e.path = q) →
        (q, Action.skipParent) ∈ (steps u es).log ∨ (q, Action.skipExists) ∈ (steps u es).log) := by
  intro es
  induction es with
  | nil => intro u h _; exact ⟨h, by simp⟩
  | cons e es ih =>
    intro u h hb
    simp only [steps]
    by_cases heq : e.path = q
    · have hbe := hb e (List.mem_cons_self ..) heq
      subst heq
      obtain ⟨hk, _, _, hlog⟩ := step_occupied_skipped h (Or.inl hbe)
      obtain ⟨h1, _⟩ := ih (step u e) hk (fun e' he' => hb e' (List.mem_cons_of_mem _ he'))
      refine ⟨h1, fun _ => ?_⟩
      rcases hlog with hl | hl
      · exact Or.inl (log_mono es _ (by rw [hl]; exact List.mem_cons_self ..))
      · exact Or.inr (log_mono es _ (by rw [hl]; exact List.mem_cons_self ..))
    · have hk := step_leaf_preserved (e := e) h hx (fun e' => heq e'.symm)
      obtain ⟨h1, h2⟩ := ih (step u e) hk (fun e' he' => hb e' (List.mem_cons_of_mem _ he'))
      refine ⟨h1, fun hex => h2 ?_⟩
      obtain ⟨e', he', hp⟩ := hex
      rcases List.mem_cons.mp he' with h | h
      · subst h; exact absurd hp heq
      · exact ⟨e', h, hp⟩

/-- **untracked_never_overwritten**: a file or symlink standing where the new tree wants a path
that the old tree did not have (within the matcher) is still there, unchanged, after the update; the
path is skipped, and the skip is in the trace. -/
theorem untracked_never_overwritten {disk : Disk} {states : List Path} {old new : Tree} {m : Path → Bool}
    {q : Path} {x : Entry} (hq : get disk q = some x) (hx : x ≠ .dir) (hold : get old q = none) :
    get (update disk states old new m).disk q = some x ∧
    (m q = true → get new q ≠ none →
      (q, Action.skipParent) ∈ (update disk states old new m).log ∨
      (q, Action.skipExists) ∈ (update disk states old new m).log) := by
  have hb : ∀ e ∈ diffFs old new m, e.path = q → e.before = none := by
    intro e he heq
    have := (diff_paths he).2.2.1
    rw [this, heq, hold]
  obtain ⟨h1, h2⟩ := steps_untracked_kept hx (diffFs old new m)
    { disk := disk, states := states, stats := {}, log := [] } hq hb
  refine ⟨h1, fun hm hn => h2 ?_⟩
  cases hv : get new q with
  | none => exact absurd hv hn
  | some v =>
    refine ⟨{ path := q, before := none, after := some v }, mem_diffFs.mpr ⟨?_, hm, ?_, ?_, ?_⟩, rfl⟩
    · right
      exact List.mem_map.mpr ⟨(q, v), get_some_mem hv, rfl⟩
    · simp [hold, hv]
    · simp [hold]
    · simp [hv]

/-- **skip accounting**: `skipped_files` is exactly the number of skipped entries of the trace -/
theorem skipped_counts_skips (disk : Disk) (states : List Path) (old new : Tree) (m : Path → Bool) :
    (update disk states old new m).stats.skipped = skipCount (update disk states old new m).log := by
  have := steps_skipCount (diffFs old new m) { disk := disk, states := states, stats := {}, log := [] }
  simpa [update, skipCount] using this

/-- one step, restated: whatever stands at an added path (file, symlink, directory) stays and the
entry is counted as skipped; a directory is never removed even where a tracked file is expected -/
theorem occupied_path_skipped {u : UState} {e : DiffEntry} {x : Entry}
    (hx : get u.disk e.path = some x) (hb : e.before = none ∨ x = .dir) :
    get (step u e).disk e.path = some x ∧ (step u e).stats.skipped = u.stats.skipped + 1 :=
  ⟨(step_occupied_skipped hx hb).1, (step_occupied_skipped hx hb).2.1⟩

/-! ### symlinks are not followed -/

/-- **no_symlink_escape** (one entry): a path is written or removed only if at that moment no
proper ancestor component is a symlink or file (`create_parent_dirs`); after a write every proper
ancestor is a real directory.  Paths are lists of components, so every written path is the
workspace root followed by normal components only. -/
theorem no_symlink_escape_step {u : UState} {e : DiffEntry} {act : Action}
    (hl : (step u e).log = (e.path, act) :: u.log) (hact : act = .removed ∨ ∃ x, act = .written x) :
    (∀ a t, Between [] e.path a → get u.disk a ≠ some (.symlink t)) ∧
    (∀ x, act = .written x → ∀ a, Between [] e.path a → get (step u e).disk a = some .dir) := by
  obtain ⟨h1, h2, _⟩ := step_acts_only_below_dirs hl hact
  refine ⟨?_, fun x hx a ha => (h2 x hx).2.2 a ha⟩
  intro a t ha hs
  have := h1 a _ ha hs
  simp at this

/-- a symlink (or file) that the update does not replace blocks everything below it -/
theorem steps_below_leaf_skipped {a : Path} {x : Entry} (hx : x ≠ .dir) :
    ∀ (es : List DiffEntry) (u : UState), get u.disk a = some x → (∀ e ∈ es, e.path ≠ a) →
      ∀ p act, (p, act) ∈ (steps u es).log → (p, act) ∈ u.log ∨ (Between [] p a → act = .skipParent) := by
  intro es
  induction es with
  | nil => intro u _ _ p act h; exact Or.inl h
  | cons e es ih =>
    intro u h hne p act hp
    simp only [steps] at hp
    have hk := step_leaf_preserved (e := e) h hx (hne e (List.mem_cons_self ..)).symm
    rcases ih (step u e) hk (fun e' he' => hne e' (List.mem_cons_of_mem _ he')) p act hp with h1 | h1
    · obtain ⟨act', hl⟩ := step_log u e
      rw [hl] at h1
      rcases List.mem_cons.mp h1 with h2 | h2
      · right
        intro hb
        have hpe : p = e.path := (Prod.mk.inj h2).1
        have hae : act = act' := (Prod.mk.inj h2).2
        subst hpe
        have := (step_blocked_parent hb h hx).2.1
        rw [hl] at this
        simp at this
        rw [hae, this]
      · exact Or.inl h2
    · exact Or.inr h1

/-- **no_symlink_escape** (whole update): below a symlink (or file) that stands on disk and is not
itself a diff path nothing is ever written or removed — every diff path below it is skipped by
`create_parent_dirs`; in particular nothing is written through the link. -/
theorem no_symlink_escape {disk : Disk} {states : List Path} {old new : Tree} {m : Path → Bool}
    {a : Path} {t : String} (ha : get disk a = some (.symlink t))
    (hna : m a = false ∨ get old a = get new a) :
    ∀ p act, (p, act) ∈ (update disk states old new m).log → Between [] p a → act = .skipParent := by
  intro p act hp hb
  have hne : ∀ e ∈ diffFs old new m, e.path ≠ a := by
    intro e he heq
    obtain ⟨h1, h2, _⟩ := diff_paths he
    rw [heq] at h1 h2
    rcases hna with h | h
    · rw [h] at h1; simp at h1
    · exact h2 h
  rcases steps_below_leaf_skipped (x := .symlink t) (by simp) (diffFs old new m)
    { disk := disk, states := states, stats := {}, log := [] } ha hne p act hp with h | h
  · simp at h
  · exact h hb

/-! ### non-vacuity -/

def exDisk : Disk :=
  [(["u"], .file "55" false), (["d"], .symlink "2e2e2f63616e617279"), (["k"], .file "4b" false), (["t"], .file "6d6f64" false)]
def exOld : Tree := [(["t"], .file "74" false), (["d", "x"], .file "78" false)]
def exNew : Tree := [(["u"], .file "6e6577" false), (["d", "x"], .file "79" false), (["t"], .file "74" false)]

/-- untracked `u` in the way: kept and skipped; `d` is a symlink where a directory is expected:
`d/x` skipped, nothing written through the link; the modified tracked file `t` (not in the diff)
and the unrelated `k` are untouched; two skips counted. -/
example :
    let r := update exDisk [["t"], ["d", "x"]] exOld exNew (fun _ => true)
    get r.disk ["u"] = some (.file "55" false) ∧ get r.disk ["d"] = some (.symlink "2e2e2f63616e617279") ∧
    get r.disk ["d", "x"] = none ∧ get r.disk ["t"] = some (.file "6d6f64" false) ∧
    get r.disk ["k"] = some (.file "4b" false) ∧ r.stats.skipped = 2 ∧
    r.log = [(["u"], .skipExists), (["d", "x"], .skipParent)] := by decide

end JjModel.C25
