import JjModel.Model.IdPrefix
/-! C20 — work in progress -/
namespace JjModel.C20
end JjModel.C20
