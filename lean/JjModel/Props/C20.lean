import JjModel.Lemmas.IdPrefixChange
/-!
  C20 — Shortest unique id prefixes are unique, minimal and resolvable.

  Ids are digit lists of one common (even) length; `tables` are the sorted id tables of the index
  segments (child first); `S = tables.flatten` is the set of all indexed ids.  The theorems are
  about the executable definitions the driver runs (`shortestLen`, `resolvePrefix`,
  `resolveNeighbors`, `resolveChangeTargets`, `resolveCommitWithin`, `shortestWithin`,
  `resolveChangeWithin`, `disambiguateWithRefs`).
-/
namespace JjModel.C20
open JjModel.Index JjModel.IdPrefix

/-! ### neighbours across segments -/

/-- Neighbours computed per segment and combined with `max`/`min` are the neighbours in the union
of all segments: the previous id is the greatest indexed id below `key`, the next id the least
indexed id above it (or there is none). -/
theorem segments_neighbors (tables : List (List Id)) (hs : ∀ t ∈ tables, Sorted t) (key : Id) :
    PrevSpec tables.flatten key (resolveNeighbors tables key).1 ∧
    NextSpec tables.flatten key (resolveNeighbors tables key).2 :=
  resolveNeighbors_spec tables hs key

/-! ### the shortest prefix: unique and minimal -/

/-- The prefix of the reported length matches no other indexed id. -/
theorem shortest_unique (tables : List (List Id)) (hs : ∀ t ∈ tables, Sorted t) (key : Id)
    (hlen : ∀ x ∈ tables.flatten, x.length = key.length) :
    matchesPrefix (key.take (shortestLen tables key)) key = true ∧
    ∀ x ∈ tables.flatten, matchesPrefix (key.take (shortestLen tables key)) x = true → x = key := by
  refine ⟨matchesPrefix_self_take _ _, fun x hx hm => ?_⟩
  have hL := shortestLen_le_length tables hs key hlen
  rw [matches_take_iff hL] at hm
  by_cases he : x = key
  · exact he
  · have := shortestLen_gt_commonLen tables hs key hx he
    omega

/-- Every shorter prefix also matches another indexed id. -/
theorem shortest_minimal (tables : List (List Id)) (hs : ∀ t ∈ tables, Sorted t) (key : Id)
    (l : Nat) (hl : l < shortestLen tables key) :
    ∃ x ∈ tables.flatten, x ≠ key ∧ matchesPrefix (key.take l) x = true := by
  obtain ⟨x, hx, hne, he⟩ := shortestLen_attained tables hs key (by omega)
  refine ⟨x, hx, hne, ?_⟩
  have hle := commonLen_le_left key x
  rw [matches_take_iff (by omega)]
  omega

/-- For an id that is not indexed the reported length never matches (the documented contract of
`shortest_unique_commit_id_prefix_len` for unknown ids). -/
theorem shortest_absent (tables : List (List Id)) (hs : ∀ t ∈ tables, Sorted t) (key : Id)
    (hlen : ∀ x ∈ tables.flatten, x.length = key.length) (habs : ¬ key ∈ tables.flatten) :
    ∀ x ∈ tables.flatten, matchesPrefix (key.take (shortestLen tables key)) x = false := by
  intro x hx
  have hL := shortestLen_le_length tables hs key hlen
  have hne : x ≠ key := fun h => habs (h ▸ hx)
  have := shortestLen_gt_commonLen tables hs key hx hne
  cases hm : matchesPrefix (key.take (shortestLen tables key)) x with
  | false => rfl
  | true => rw [matches_take_iff hL] at hm; omega

/-! ### resolvable -/

theorem padEven_take_le {key : Id} {l : Nat} (hl : l ≤ key.length) (heven : key.length % 2 = 0) :
    (padEven (key.take l)).length ≤ key.length := by
  unfold padEven
  have : (key.take l).length = l := by simp [List.length_take]; omega
  split
  · next hodd => rw [this] at hodd; simp [this]; omega
  · omega

/-- `resolve_commit_id_prefix` decides by the number of indexed ids the prefix matches. -/
theorem resolve_prefix_by_matches (tables : List (List Id)) (hs : ∀ t ∈ tables, Sorted t) (p : Id)
    (hlen : ∀ x ∈ tables.flatten, (padEven p).length ≤ x.length) :
    resolvePrefix tables p = classify (tables.flatten.filter (matchesPrefix p)) :=
  resolvePrefix_spec tables p hs hlen

/-- The shortest prefix resolves back to exactly the id; every shorter prefix is ambiguous. -/
theorem shortest_resolves (tables : List (List Id)) (hs : ∀ t ∈ tables, Sorted t) (key : Id)
    (hlen : ∀ x ∈ tables.flatten, x.length = key.length) (heven : key.length % 2 = 0)
    (hnd : tables.flatten.Nodup) (hk : key ∈ tables.flatten) :
    resolvePrefix tables (key.take (shortestLen tables key)) = .single key ∧
    ∀ l < shortestLen tables key, resolvePrefix tables (key.take l) = .ambiguous := by
  have hL := shortestLen_le_length tables hs key hlen
  constructor
  · rw [resolvePrefix_spec tables _ hs (fun x hx => by rw [hlen x hx]; exact padEven_take_le hL heven)]
    obtain ⟨hself, honly⟩ := shortest_unique tables hs key hlen
    rw [filter_eq_singleton _ hnd hk hself honly]
    rfl
  · intro l hl
    rw [resolvePrefix_spec tables _ hs (fun x hx => by rw [hlen x hx]; exact padEven_take_le (by omega) heven)]
    obtain ⟨x, hx, hne, hm⟩ := shortest_minimal tables hs key l hl
    exact classify_ambiguous_of_two (a := key) (b := x)
      (List.mem_filter.mpr ⟨hk, matchesPrefix_self_take _ _⟩) (List.mem_filter.mpr ⟨hx, hm⟩) (fun h => hne h.symm)

/-! ### change ids: all and only the visible commits of the change -/

/-- If a change-id prefix resolves, it resolves to the one change id `c` it matches; the targets are
*all* indexed positions carrying `c` (descending), and a target is flagged visible exactly when it
is an ancestor of a head of the view.  So the visible targets are all and only the visible commits
of that change. -/
theorem change_prefix_all_visible {idx : Index} (hwf : IndexWF idx) (heads : List Nat)
    (hh : ∀ h ∈ heads, h < idx.length) (segs : List Seg) (hstack : ChangeStackWF segs) (p : Id)
    (hlen : ∀ s ∈ segs, ∀ x ∈ s.changes, (padEven p).length ≤ x.length)
    (targets : List (Nat × Bool)) (hres : resolveChangeTargets idx heads segs p = .single targets) :
    ∃ c, matchesPrefix p c = true ∧ c ∈ allChanges segs ∧
      (∀ x ∈ allChanges segs, matchesPrefix p x = true → x = c) ∧
      targets.map Prod.fst = (localPositions (allChanges segs) c).reverse ∧
      (∀ q, q ∈ targets.map Prod.fst ↔ (allChanges segs)[q]? = some c) ∧
      ∀ q v, (q, v) ∈ targets → (v = true ↔ ∃ h ∈ heads, Reach idx q h) := by
  unfold resolveChangeTargets at hres
  have hspec := resolveChangePrefix_spec segs p hlen
  generalize resolveChangePrefix segs p = r at hres hspec
  cases hspec with
  | none => simp at hres
  | amb => simp at hres
  | one c hm hex honly =>
    simp only [Resolution.single.injEq] at hres
    subst hres
    have hpos := posDesc_eq hstack c
    refine ⟨c, hm, mem_allChanges.mpr hex, ?_, ?_, ?_, ?_⟩
    · intro x hx hmx
      obtain ⟨s, hs, hxs⟩ := mem_allChanges.mp hx
      exact honly s hs x hxs hmx
    · simp [List.map_map, Function.comp_def, hpos]
    · intro q
      simp only [List.map_map, Function.comp_def, List.map_id', hpos, List.mem_reverse, mem_localPositions]
    · intro q v hqv
      obtain ⟨q', _, he⟩ := List.mem_map.mp hqv
      simp only [Prod.mk.injEq] at he
      obtain ⟨rfl, rfl⟩ := he
      rw [List.contains_iff_mem, reachableSet_spec hwf heads hh]
      rfl

/-- Conversely a prefix matched by exactly one change id does resolve. -/
theorem change_prefix_resolves (idx : Index) (heads : List Nat) (segs : List Seg) (p c : Id)
    (hlen : ∀ s ∈ segs, ∀ x ∈ s.changes, (padEven p).length ≤ x.length)
    (hc : c ∈ allChanges segs) (hm : matchesPrefix p c = true)
    (honly : ∀ x ∈ allChanges segs, matchesPrefix p x = true → x = c) :
    ∃ targets, resolveChangeTargets idx heads segs p = .single targets := by
  unfold resolveChangeTargets
  rw [resolveChangePrefix_unique segs p c hlen hc hm honly]
  exact ⟨_, rfl⟩

/-- The shortest change-id prefix resolves to the same targets as the full change id, and every
shorter prefix is ambiguous. -/
theorem change_shortest_resolves (idx : Index) (heads : List Nat) (segs : List Seg) (key : Id)
    (hlen : ∀ x ∈ allChanges segs, x.length = key.length) (heven : key.length % 2 = 0)
    (hk : key ∈ allChanges segs) :
    resolveChangeTargets idx heads segs (key.take (shortestLen (changeTables segs) key))
      = resolveChangeTargets idx heads segs key ∧
    (∃ targets, resolveChangeTargets idx heads segs key = .single targets) ∧
    ∀ l < shortestLen (changeTables segs) key, resolveChangeTargets idx heads segs (key.take l) = .ambiguous := by
  have hs : ∀ t ∈ changeTables segs, Sorted t := by
    intro t ht
    obtain ⟨s, _, rfl⟩ := List.mem_map.mp ht
    exact sortIds_sorted _
  have hflat : ∀ x, x ∈ (changeTables segs).flatten ↔ x ∈ allChanges segs := by
    intro x
    simp only [changeTables, List.mem_flatten, List.mem_map, mem_allChanges]
    constructor
    · rintro ⟨t, ⟨s, hs, rfl⟩, hx⟩; exact ⟨s, hs, mem_sortIds.mp hx⟩
    · rintro ⟨s, hs, hx⟩; exact ⟨_, ⟨s, hs, rfl⟩, mem_sortIds.mpr hx⟩
  have hlen' : ∀ x ∈ (changeTables segs).flatten, x.length = key.length := fun x hx => hlen x ((hflat x).mp hx)
  have hL := shortestLen_le_length _ hs key hlen'
  have hlenp : ∀ (l : Nat), l ≤ key.length → ∀ s ∈ segs, ∀ x ∈ s.changes, (padEven (key.take l)).length ≤ x.length := by
    intro l hl s hs x hx
    rw [hlen x (mem_allChanges.mpr ⟨s, hs, hx⟩)]
    exact padEven_take_le hl heven
  obtain ⟨hself, honly⟩ := shortest_unique _ hs key hlen'
  have hfull : key.take key.length = key := List.take_length
  have h1 := resolveChangePrefix_unique segs (key.take (shortestLen (changeTables segs) key)) key
    (hlenp _ hL) hk hself (fun x hx hm => honly x ((hflat x).mpr hx) hm)
  have h2 := resolveChangePrefix_unique segs key key (by have := hlenp key.length (Nat.le_refl _); rwa [hfull] at this) hk
    (by have := matchesPrefix_self_take key key.length; rwa [hfull] at this)
    (fun x hx hm => by
      obtain ⟨r, hr⟩ := matchesPrefix_iff.mp hm
      have := hlen x hx
      rw [hr] at this
      simp at this
      subst this
      simpa using hr)
  refine ⟨?_, ?_, ?_⟩
  · unfold resolveChangeTargets; rw [h1, h2]
  · unfold resolveChangeTargets; rw [h2]; exact ⟨_, rfl⟩
  · intro l hl
    obtain ⟨x, hx, hne, hm⟩ := shortest_minimal _ hs key l hl
    unfold resolveChangeTargets
    rw [resolveChangePrefix_ambiguous segs (key.take l) key x (hlenp l (by omega)) hk ((hflat x).mp hx)
      (fun h => hne h.symm) (matchesPrefix_self_take _ _) hm]

/-! ### with a disambiguation set -/

/-- `IdPrefixIndex` for commit ids.  `dis` is the disambiguation set (a subset of the indexed ids).
The length computed by `shortest_commit_prefix_len_exact` resolves, through the
subset-then-fallback rule of `resolve_commit_prefix`, back to exactly the id; no shorter prefix
resolves to it (it is ambiguous — in the subset or in the whole index — or resolves to another
id). -/
theorem disambiguation_consistent (tables : List (List Id)) (hs : ∀ t ∈ tables, Sorted t) (key : Id)
    (hlen : ∀ x ∈ tables.flatten, x.length = key.length) (heven : key.length % 2 = 0)
    (hnd : tables.flatten.Nodup) (hk : key ∈ tables.flatten)
    (hother : ∃ x ∈ tables.flatten, x ≠ key) (h8 : 8 ≤ key.length)
    (dis : List Id) (hdis : ∀ k ∈ dis, k ∈ tables.flatten) :
    resolveCommitWithin (some dis) tables (key.take (shortestWithin (some dis) tables key)) = .single key ∧
    ∀ l < shortestWithin (some dis) tables key,
      resolveCommitWithin (some dis) tables (key.take l) ≠ .single key := by
  obtain ⟨o, ho, hone⟩ := hother
  have hkne : key ≠ [] := by
    intro h
    have := hlen o ho
    rw [h] at this
    have : o = [] := List.length_eq_zero_iff.mp (by simpa using this)
    exact hone (this.trans h.symm)
  have hklen : 0 < key.length := List.length_pos_iff.mpr hkne
  have take_ne : ∀ l, 0 < l → key.take l ≠ [] := by
    intro l hl h
    rcases List.take_eq_nil_iff.mp h with h0 | h0
    · omega
    · exact hkne h0
  obtain ⟨hres, hamb⟩ := shortest_resolves tables hs key hlen heven hnd hk
  have hLpos : 0 < shortestLen tables key := by
    have := shortestLen_gt_commonLen tables hs key ho hone; omega
  unfold shortestWithin resolveCommitWithin
  have hd8 : ∀ k ∈ dis, 8 ≤ k.length := fun k hk => by rw [hlen k (hdis k hk)]; exact h8
  simp only [idIndexResolve_eq_spec dis hd8, idIndexShortest_eq_spec dis hd8 key h8]
  by_cases hkd : key ∈ dis
  · -- the id is in the disambiguation set: length and resolution both come from the subset
    obtain ⟨L, hLe, hL1, hLall, hLatt⟩ := idIndexShortest_spec hkd
    simp only [hLe]
    have hLle : L ≤ key.length := by
      rcases hLatt with h | ⟨k, hkk, hne, he⟩
      · omega
      · have := commonLen_lt_length (a := key) (b := k) (hlen k (hdis k hkk)).symm (fun h => hne h.symm)
        omega
    constructor
    · rw [idIndexResolve_unique (take_ne L hL1) hkd (matchesPrefix_self_take _ _) (by
        intro k hkk hm
        rw [matches_take_iff hLle] at hm
        by_cases he : k = key
        · exact he
        · have := hLall k hkk he; omega)]
      simp [mem_hasId.mpr hk]
    · intro l hl
      by_cases hl0 : l = 0
      · subst hl0; simp [idIndexResolveSpec]
      · rcases hLatt with h | ⟨k, hkk, hne, he⟩
        · omega
        · have hle := commonLen_le_left key k
          have hm : matchesPrefix (key.take l) k = true := by rw [matches_take_iff (by omega)]; omega
          rw [idIndexResolve_two hkd hkk (fun h => hne h.symm) (matchesPrefix_self_take _ _) hm]
          simp
  · -- the id is outside the set: fall back to the whole index
    simp only [idIndexShortest_none hkd]
    constructor
    · have hno : ∀ k ∈ dis, matchesPrefix (key.take (shortestLen tables key)) k = false := by
        intro k hkk
        cases hm : matchesPrefix (key.take (shortestLen tables key)) k with
        | false => rfl
        | true =>
          have := (shortest_unique tables hs key hlen).2 k (hdis k hkk) hm
          subst this; exact absurd hkk hkd
      rw [idIndexResolve_none (take_ne _ hLpos) hno]
      exact hres
    · intro l hl
      cases hr : idIndexResolveSpec dis (key.take l) with
      | noMatch => simp only; rw [hamb l hl]; simp
      | ambiguous => simp
      | single id =>
        simp only
        have hid := (idIndexResolve_single_mem hr).1
        have hne : id ≠ key := fun h => hkd (h ▸ hid)
        split
        · simp [hne]
        · simp

/-- `IdIndex` (the table of 4-byte short keys, `partition_point`, chunk scan, left/right neighbours
by short key) answers as the key set it was built from, for *every* arrangement of the entries
that is sorted by short key — the order `sort_unstable_by_key` leaves open does not matter. -/
theorem id_index_table_spec (I keys : List Id) (hmem : ∀ x, x ∈ I ↔ x ∈ keys) (hs : SortedS I)
    (hlen : ∀ k ∈ keys, 8 ≤ k.length) :
    (∀ p, idIndexResolveT I p = idIndexResolveSpec keys p) ∧
    (∀ key, 8 ≤ key.length → idIndexShortestT I key = idIndexShortestSpec keys key) :=
  ⟨fun p => idIndexResolveT_spec hmem hs hlen p, fun key hk => idIndexShortestT_spec hmem hs hlen key hk⟩

/-- Without a disambiguation set `IdPrefixIndex` is the repo-wide index. -/
theorem no_disambiguation (tables : List (List Id)) (key p : Id) :
    shortestWithin none tables key = shortestLen tables key ∧
    resolveCommitWithin none tables p = resolvePrefix tables p := ⟨rfl, rfl⟩

/-- `IdPrefixIndex` for change ids: the shortest prefix resolves to the targets of the full change
id; a shorter prefix is ambiguous or resolves (through the disambiguation set) to another change. -/
theorem change_disambiguation_consistent (idx : Index) (heads : List Nat) (segs : List Seg) (key : Id)
    (hlen : ∀ x ∈ allChanges segs, x.length = key.length) (heven : key.length % 2 = 0)
    (hk : key ∈ allChanges segs) (hother : ∃ x ∈ allChanges segs, x ≠ key) (h8 : 8 ≤ key.length)
    (dis : List Id) (hdis : ∀ k ∈ dis, k ∈ allChanges segs) :
    resolveChangeWithin (some dis) idx heads segs (key.take (shortestWithin (some dis) (changeTables segs) key))
      = resolveChangeTargets idx heads segs key ∧
    ∀ l < shortestWithin (some dis) (changeTables segs) key,
      resolveChangeWithin (some dis) idx heads segs (key.take l) = .ambiguous ∨
      ∃ c ∈ dis, c ≠ key ∧ resolveChangeWithin (some dis) idx heads segs (key.take l)
        = resolveChangeTargets idx heads segs c := by
  have hs : ∀ t ∈ changeTables segs, Sorted t := by
    intro t ht
    obtain ⟨s, _, rfl⟩ := List.mem_map.mp ht
    exact sortIds_sorted _
  have hflat : ∀ x, x ∈ (changeTables segs).flatten ↔ x ∈ allChanges segs := by
    intro x
    simp only [changeTables, List.mem_flatten, List.mem_map, mem_allChanges]
    constructor
    · rintro ⟨t, ⟨s, hs, rfl⟩, hx⟩; exact ⟨s, hs, mem_sortIds.mp hx⟩
    · rintro ⟨s, hs, hx⟩; exact ⟨_, ⟨s, hs, rfl⟩, mem_sortIds.mpr hx⟩
  have hlen' : ∀ x ∈ (changeTables segs).flatten, x.length = key.length := fun x hx => hlen x ((hflat x).mp hx)
  obtain ⟨o, ho, hone⟩ := hother
  have hkne : key ≠ [] := by
    intro h
    have := hlen o ho
    rw [h] at this
    have : o = [] := List.length_eq_zero_iff.mp (by simpa using this)
    exact hone (this.trans h.symm)
  have hklen : 0 < key.length := List.length_pos_iff.mpr hkne
  have take_ne : ∀ l, 0 < l → key.take l ≠ [] := by
    intro l hl h
    rcases List.take_eq_nil_iff.mp h with h0 | h0
    · omega
    · exact hkne h0
  obtain ⟨hsame, _, hamb⟩ := change_shortest_resolves idx heads segs key hlen heven hk
  have hLpos : 0 < shortestLen (changeTables segs) key := by
    have := shortestLen_gt_commonLen _ hs key ((hflat o).mpr ho) hone; omega
  unfold shortestWithin resolveChangeWithin
  have hd8 : ∀ k ∈ dis, 8 ≤ k.length := fun k hk => by rw [hlen k (hdis k hk)]; exact h8
  simp only [idIndexResolve_eq_spec dis hd8, idIndexShortest_eq_spec dis hd8 key h8]
  by_cases hkd : key ∈ dis
  · obtain ⟨L, hLe, hL1, hLall, hLatt⟩ := idIndexShortest_spec hkd
    simp only [hLe]
    have hLle : L ≤ key.length := by
      rcases hLatt with h | ⟨k, hkk, hne, he⟩
      · omega
      · have := commonLen_lt_length (a := key) (b := k) (hlen k (hdis k hkk)).symm (fun h => hne h.symm)
        omega
    constructor
    · rw [idIndexResolve_unique (take_ne L hL1) hkd (matchesPrefix_self_take _ _) (by
        intro k hkk hm
        rw [matches_take_iff hLle] at hm
        by_cases he : k = key
        · exact he
        · have := hLall k hkk he; omega)]
    · intro l hl
      left
      by_cases hl0 : l = 0
      · subst hl0; simp [idIndexResolveSpec]
      · rcases hLatt with h | ⟨k, hkk, hne, he⟩
        · omega
        · have hle := commonLen_le_left key k
          have hm : matchesPrefix (key.take l) k = true := by rw [matches_take_iff (by omega)]; omega
          rw [idIndexResolve_two hkd hkk (fun h => hne h.symm) (matchesPrefix_self_take _ _) hm]
  · simp only [idIndexShortest_none hkd]
    constructor
    · have hno : ∀ k ∈ dis, matchesPrefix (key.take (shortestLen (changeTables segs) key)) k = false := by
        intro k hkk
        cases hm : matchesPrefix (key.take (shortestLen (changeTables segs) key)) k with
        | false => rfl
        | true =>
          have := (shortest_unique _ hs key hlen').2 k ((hflat k).mpr (hdis k hkk)) hm
          subst this; exact absurd hkk hkd
      rw [idIndexResolve_none (take_ne _ hLpos) hno]
      exact hsame
    · intro l hl
      cases hr : idIndexResolveSpec dis (key.take l) with
      | noMatch => left; simp only; exact hamb l hl
      | ambiguous => left; rfl
      | single id =>
        right
        have hid := (idIndexResolve_single_mem hr).1
        exact ⟨id, hid, fun h => hkd (h ▸ hid), rfl⟩

/-! ### bookmarks and tags named like a prefix -/

/-- `disambiguate_prefix_with_refs` never shortens the prefix and the prefix it settles on is not
the name of a local bookmark or tag (unless it had to return the full id). -/
theorem disambiguate_with_refs_spec (refs : List Id) (sym : Id) (minLen : Nat) (hmin : minLen ≤ sym.length) :
    minLen ≤ disambiguateWithRefs refs sym minLen ∧ disambiguateWithRefs refs sym minLen ≤ sym.length ∧
    (disambiguateWithRefs refs sym minLen < sym.length →
      ¬ sym.take (disambiguateWithRefs refs sym minLen) ∈ refs) := by
  unfold disambiguateWithRefs
  cases hf : (List.range sym.length).find? (fun n => minLen ≤ n && !refs.contains (sym.take n)) with
  | none => simp [hmin]
  | some n =>
    have h1 := List.find?_some hf
    have h2 := List.mem_of_find?_eq_some hf
    simp only [Bool.and_eq_true, decide_eq_true_eq, Bool.not_eq_eq_eq_not, Bool.not_true] at h1
    have hn : n < sym.length := List.mem_range.mp h2
    refine ⟨h1.1, by simp; omega, fun _ hmem => ?_⟩
    have := List.contains_iff_mem.mpr hmem
    simp only at this
    rw [h1.2] at this
    cases this

/-! ### what the driver builds -/

theorem commitTables_sorted (segs : List Seg) : ∀ t ∈ commitTables segs, Sorted t := by
  intro t ht
  obtain ⟨s, _, rfl⟩ := List.mem_map.mp ht
  exact sortIds_sorted _

theorem mkSegs_changes (sizes : List Nat) :
    ∀ (ids : List Id) (start : Nat) (acc : List Seg),
      ChangeStackWF acc → (allChanges acc).length = start → sizes.sum = ids.length →
      ChangeStackWF (mkSegs false sizes ids start acc) ∧
        allChanges (mkSegs false sizes ids start acc) = allChanges acc ++ ids := by
  induction sizes with
  | nil =>
    intro ids start acc hwf _ hsum
    have : ids = [] := List.length_eq_zero_iff.mp (by simpa using hsum.symm)
    simp [mkSegs, hwf, this]
  | cons n ns ih =>
    intro ids start acc hwf hstart hsum
    simp only [List.sum_cons] at hsum
    simp only [mkSegs]
    have hn : n ≤ ids.length := by omega
    have := ih (ids.drop n) (start + n)
      ({ numParent := start, commits := [], changes := ids.take n } :: acc)
      ⟨hstart.symm, hwf⟩ (by simp [allChanges, hstart, List.length_take]; omega)
      (by simp [List.length_drop]; omega)
    simp only [Bool.false_eq_true, if_false] at this ⊢
    refine ⟨this.1, ?_⟩
    rw [this.2]
    simp [allChanges, List.append_assoc]

/-- the change-id segments the driver builds from a request are a well-formed stack whose ids, in
global position order, are the ids of the request -/
theorem mkSegs_changes_ok (sizes : List Nat) (ids : List Id) (h : sizes.sum = ids.length) :
    ChangeStackWF (mkSegs false sizes ids 0 []) ∧ allChanges (mkSegs false sizes ids 0 []) = ids := by
  have := mkSegs_changes sizes ids 0 [] trivial rfl h
  simpa [allChanges] using this

/-! ### non-vacuity: concrete tables, three segments, ids sharing long prefixes -/

def sampleSegs : List Seg := mkSegs true [2, 2, 1] [[0,0,0,0], [10,11,1,2], [10,11,3,4], [10,11,1,9], [7,7,7,7]] 0 []
def sampleTables : List (List Id) := commitTables sampleSegs

example : shortestLen sampleTables [10,11,1,2] = 4 := by decide
example : shortestLen sampleTables [10,11,3,4] = 3 := by decide
example : shortestLen sampleTables [7,7,7,7] = 1 := by decide
example : resolvePrefix sampleTables [10,11,1] = .ambiguous := by decide
example : resolvePrefix sampleTables [10,11,3] = .single [10,11,3,4] := by decide
example : resolvePrefix sampleTables [10,12] = .noMatch := by decide
example : ∀ t ∈ sampleTables, Sorted t := commitTables_sorted _
example : sampleTables.flatten.Nodup := by decide
example : resolveCommitWithin (some [[10,11,3,4], [7,7,7,7]]) sampleTables [10] = .single [10,11,3,4] := by decide
example : shortestWithin (some [[10,11,3,4], [7,7,7,7]]) sampleTables [10,11,3,4] = 1 := by decide
example : disambiguateWithRefs [[10], [10,11]] [10,11,3,4] 1 = 3 := by decide

example : ∀ x ∈ sampleTables.flatten, x.length = [10,11,1,2].length := by decide

/-- ids of 10 digits in two segments, three of them sharing 9 digits (beyond the 4-byte short key) -/
def longTables : List (List Id) := commitTables (mkSegs true [3, 2]
  [[0,0,0,0,0,0,0,0,0,0], [10,11,1,2,3,4,5,6,7,8], [10,11,1,2,3,4,5,6,7,9], [10,11,1,2,3,4,5,6,9,9], [7,7,7,7,7,7,7,7,7,7]] 0 [])
def longKey : Id := [10,11,1,2,3,4,5,6,7,8]

/-- every hypothesis of `disambiguation_consistent` holds on a concrete instance (key inside the set) -/
example :
    resolveCommitWithin (some [longKey, [10,11,1,2,3,4,5,6,9,9]]) longTables
      (longKey.take (shortestWithin (some [longKey, [10,11,1,2,3,4,5,6,9,9]]) longTables longKey)) = .single longKey ∧
    ∀ l < shortestWithin (some [longKey, [10,11,1,2,3,4,5,6,9,9]]) longTables longKey,
      resolveCommitWithin (some [longKey, [10,11,1,2,3,4,5,6,9,9]]) longTables (longKey.take l) ≠ .single longKey :=
  disambiguation_consistent longTables (commitTables_sorted _) longKey (by decide) (by decide) (by decide) (by decide)
    ⟨[7,7,7,7,7,7,7,7,7,7], by decide, by decide⟩ (by decide) _ (by decide)
example : shortestWithin (some [longKey, [10,11,1,2,3,4,5,6,9,9]]) longTables longKey = 9 := by decide
example : shortestLen longTables longKey = 10 := by decide
/-- … and on one with the key outside the set (fall-back to the whole index) -/
example :
    resolveCommitWithin (some [[7,7,7,7,7,7,7,7,7,7]]) longTables
      (longKey.take (shortestWithin (some [[7,7,7,7,7,7,7,7,7,7]]) longTables longKey)) = .single longKey :=
  (disambiguation_consistent longTables (commitTables_sorted _) longKey (by decide) (by decide) (by decide) (by decide)
    ⟨[7,7,7,7,7,7,7,7,7,7], by decide, by decide⟩ (by decide) _ (by decide)).1
example := shortest_resolves longTables (commitTables_sorted _) longKey (by decide) (by decide) (by decide) (by decide)

/-- change ids: two commits of change `aa11` in different segments, one hidden -/
def sampleChangeSegs : List Seg := mkSegs false [2, 2] [[0,0,0,0], [10,10,1,1], [10,10,1,1], [10,10,2,2]] 0 []
def sampleIdx : Index := build [[], [0], [0], [1]]
example : resolveChangeTargets sampleIdx [3] sampleChangeSegs [10,10,1] = .single [(2, false), (1, true)] := by decide
example : resolveChangeTargets sampleIdx [3] sampleChangeSegs [10,10] = .ambiguous := by decide
example : ChangeStackWF sampleChangeSegs := (mkSegs_changes_ok _ _ (by decide)).1
example : IndexWF sampleIdx := foldl_addCommit_wf [[], [0], [0], [1]] [] wf_nil (by simp [ParentsBefore])
/-- every hypothesis of `change_prefix_all_visible` holds on this instance -/
example := change_prefix_all_visible (idx := sampleIdx)
  (foldl_addCommit_wf [[], [0], [0], [1]] [] wf_nil (by simp [ParentsBefore])) [3] (by decide)
  sampleChangeSegs (mkSegs_changes_ok _ _ (by decide)).1 [10,10,1] (by decide) [(2, false), (1, true)] (by decide)

end JjModel.C20
