import JjModel.Lemmas.OpHeads
/-!
  C14 — the operation-head store never loses a published operation.

  Model: `Model/OpHeads.lean` (`publish`, `resolve_op_heads`, head filtering) as a client of the
  generic head-set machine `Model/HeadProto.lean`; steps = the `opheads.{read,lock,add,remove}` hook
  points.  Locks are ignored by the theorems (every locked execution is one of the executions
  considered; `working` may be `true` or `false`), crashes may happen between any two steps, the
  number of processes is arbitrary.

  **Assumed**: a directory listing is atomic (A3).  `resolve_op_heads`' own comment documents that a
  non-atomic `readdir` can observe no heads; that case is outside the model.
-/
namespace JjModel.C14
open JjModel.OpHeads JjModel.HeadProto

/-- `Inv`: every published operation is an ancestor-or-equal of some head, and every pending
    removal `(old, new)` of a live process has `old` strictly below `new`, `new` published -/
abbrev OpInv (G : Dag) (s : OState) : Prop := Inv (le G) s

/-- one event preserves the invariant (`inv_step` for every step kind, with and without working locks) -/
theorem inv_step {G : Dag} (hw : WF G) {w : Bool} {s t : OState} {e : OEvent} (hv : ValidEvent G e)
    (hs : OpInv G s) (h : apply w (opClient true G) s e = some t) : OpInv G t :=
  inv_apply (lePre hw) hs (clientOk_of_valid hw hv) h

/-- the invariant holds in every reachable state: any number of processes, any schedule, any crash set -/
theorem inv_reach {G : Dag} (hw : WF G) (w : Bool) (np : Nat) (es : List OEvent) (t : OState)
    (hv : ∀ e ∈ es, ValidEvent G e) (h : run w (opClient true G) (s0 np) es = some t) : OpInv G t :=
  inv_run (lePre hw) (inv_init (lePre hw) [0] _)
    (runOk_of_forall (fun _ e he => clientOk_of_valid hw (hv e he)) _) h

/-- readers always find at least one head (atomic listing), and every published operation — the
    root included — is an ancestor-or-equal of some head -/
theorem reader_sees_head {G : Dag} (hw : WF G) (w : Bool) (np : Nat) (es : List OEvent) (t : OState)
    (hv : ∀ e ∈ es, ValidEvent G e) (h : run w (opClient true G) (s0 np) es = some t) :
    t.heads ≠ [] ∧ ∀ p ∈ t.pub, ∃ hd ∈ t.heads, Anc G p hd := by
  have hinv := inv_reach hw w np es t hv h
  have hcov : ∀ p ∈ t.pub, ∃ hd ∈ t.heads, Anc G p hd := by
    intro p hp
    obtain ⟨hd, hh, hl⟩ := hinv.1 p hp
    exact ⟨hd, hh, (isAnc_iff hw).mp hl⟩
  refine ⟨?_, hcov⟩
  have h0 : 0 ∈ t.pub := pub_subset_run h 0 (by simp [s0, init])
  obtain ⟨hd, hh, _⟩ := hcov 0 h0
  intro e; rw [e] at hh; simp at hh

/-- the operation being published is in `pub` as soon as its `add` step has happened -/
theorem add_publishes {w : Bool} {cl : Client Nat OInstr Nat} {s t : OState} {pid : Nat} {arg : List Nat}
    {p : Proc Nat OInstr Nat} {op : Nat} {olds : List (Bool × Nat)} {rest : List (Instr Nat OInstr)}
    (hp : s.procs[pid]? = some p) (hi : p.instrs = .add op olds :: rest)
    (h : stepProc w cl s pid arg = some t) : op ∈ t.pub ∧ op ∈ t.heads := by
  simp only [stepProc, hp, hi, Option.some.injEq] at h
  subst h
  exact ⟨by simp, mem_insertHead.mpr (Or.inl rfl)⟩

/-! ### quiescence -/

/-- outcome of one uninterrupted `resolve_op_heads` on the listing `hs`: (operation returned,
    `heads/` afterwards); `new` = the merge operation it creates when several heads survive the filter -/
def resolveOutcome (G : Dag) (hs : List Nat) (new : Nat) : Option (Nat × List Nat) :=
  match hs with
  | [] => none
  | [h] => some (h, [h])
  | _ =>
    match filterHeads G hs with
    | [h] => some (h, applyUpdate hs h ((ancestorHeads G hs).map fun o => (true, o)))
    | f =>
      if new < G.length && !hs.contains new && sameSet (parents G new) f
      then some (new, applyUpdate hs new ((ancestorHeads G hs ++ parents G new).map fun o => (true, o)))
      else none

theorem mem_pending_true {t o : Nat} {olds : List Nat} :
    o ∈ pending t (olds.map fun x => (true, x)) ↔ o ∈ olds ∧ o ≠ t := by
  rw [mem_pending]
  constructor
  · rintro ⟨g, hm, hn⟩
    simp only [List.mem_map, Prod.mk.injEq] at hm
    obtain ⟨x, hx, rfl, rfl⟩ := hm
    exact ⟨hx, fun e => hn ⟨rfl, e⟩⟩
  · rintro ⟨ho, hne⟩
    exact ⟨true, List.mem_map.mpr ⟨o, ho, rfl⟩, fun h => hne h.2⟩

theorem eq_singleton_of_nodup {l : List Nat} {r : Nat} (hnd : l.Nodup) (h : ∀ x, x ∈ l ↔ x = r) : l = [r] := by
  match l, hnd, h with
  | [], _, h => exact absurd ((h r).mpr rfl) (by simp)
  | [a], _, h => have := (h a).mp (by simp); subst this; rfl
  | a :: b :: t, hnd, h =>
    have ha := (h a).mp (by simp)
    have hb := (h b).mp (by simp)
    subst ha; subst hb
    simp at hnd

theorem nodup_applyUpdate {hs : List Nat} {t : Nat} {olds : List (Bool × Nat)} (hnd : hs.Nodup) :
    (applyUpdate hs t olds).Nodup := by
  unfold applyUpdate
  rw [foldl_removeHead]
  refine List.Nodup.sublist List.filter_sublist ?_
  unfold insertHead
  split
  · exact hnd
  · rename_i hn
    refine List.nodup_append.mpr ⟨hnd, by simp, ?_⟩
    intro a ha b hb
    simp only [List.mem_singleton] at hb
    subst hb
    exact fun e => hn (e ▸ ha)

/-- **quiescent_single_head**: once all processes have finished or crashed, one run of
    `resolve_op_heads` leaves a single head, returns it, and it descends from every published
    operation -/
theorem quiescent_single_head {G : Dag} (hw : WF G) {hs pub : List Nat} {new r : Nat} {hs' : List Nat}
    (hnd : hs.Nodup) (hcov : ∀ p ∈ pub, ∃ hd ∈ hs, Anc G p hd)
    (hr : resolveOutcome G hs new = some (r, hs')) :
    hs' = [r] ∧ ∀ p ∈ pub, Anc G p r := by
  unfold resolveOutcome at hr
  split at hr
  · simp at hr
  · rename_i h
    simp only [Option.some.injEq, Prod.mk.injEq] at hr
    obtain ⟨e1, e2⟩ := hr
    subst e1; subst e2
    refine ⟨rfl, fun p hp => ?_⟩
    obtain ⟨hd, hh, ha⟩ := hcov p hp
    simp only [List.mem_singleton] at hh
    subst hh; exact ha
  · split at hr
    · rename_i h hf
      simp only [Option.some.injEq, Prod.mk.injEq] at hr
      obtain ⟨e1, e2⟩ := hr
      subst e1; subst e2
      have hrf : h ∈ filterHeads G hs := by rw [hf]; simp
      have hmem : ∀ x, x ∈ applyUpdate hs h ((ancestorHeads G hs).map fun o => (true, o)) ↔ x = h := by
        intro x
        rw [mem_applyUpdate, mem_pending_true]
        constructor
        · rintro ⟨hx, hn⟩
          rcases hx with rfl | hx
          · rfl
          · rcases mem_filter_or_ancestor (G := G) hx with h1 | h1
            · rw [hf] at h1; simpa using h1
            · by_cases e : x = h
              · exact e
              · exact absurd ⟨h1, e⟩ hn
        · rintro rfl
          exact ⟨Or.inl rfl, fun hh => hh.2 rfl⟩
      refine ⟨eq_singleton_of_nodup (nodup_applyUpdate hnd) hmem, fun p hp => ?_⟩
      obtain ⟨hd, hh, ha⟩ := hcov p hp
      obtain ⟨f, hfm, hfa⟩ := filtered_above hw hh
      rw [hf] at hfm
      simp only [List.mem_singleton] at hfm
      subst hfm
      exact anc_trans ha hfa
    · split at hr
      · rename_i hc
        simp only [Bool.and_eq_true, Bool.not_eq_true', decide_eq_true_eq] at hc
        obtain ⟨⟨hlt, hnc⟩, hss⟩ := hc
        simp only [Option.some.injEq, Prod.mk.injEq] at hr
        obtain ⟨e1, e2⟩ := hr
        subst e1; subst e2
        have hnh : new ∉ hs := by
          intro hm
          have hc' := List.contains_iff_mem.mpr hm
          simp only [hc'] at hnc
          exact absurd hnc (by simp)
        have hmem : ∀ x, x ∈ applyUpdate hs new ((ancestorHeads G hs ++ parents G new).map fun o => (true, o)) ↔ x = new := by
          intro x
          rw [mem_applyUpdate, mem_pending_true]
          constructor
          · rintro ⟨hx, hn⟩
            rcases hx with rfl | hx
            · rfl
            · by_cases e : x = new
              · exact e
              · exfalso
                apply hn
                refine ⟨?_, e⟩
                rcases mem_filter_or_ancestor (G := G) hx with h1 | h1
                · exact List.mem_append_right _ (mem_of_sameSet_left hss h1)
                · exact List.mem_append_left _ h1
          · rintro rfl
            exact ⟨Or.inl rfl, fun hh => hh.2 rfl⟩
        refine ⟨eq_singleton_of_nodup (nodup_applyUpdate hnd) hmem, fun p hp => ?_⟩
        obtain ⟨hd, hh, ha⟩ := hcov p hp
        obtain ⟨f, hfm, hfa⟩ := filtered_above hw hh
        exact anc_trans ha (Anc.step (mem_of_sameSet_left hss hfm) hfa)
      · simp at hr

/-! ### the order matters: regression sentinel -/

/-- the swapped client (`remove` the parents first, then `add`): publishing one operation on a fresh
    repository empties `heads/` — a reader (or a crash) at that point finds no head.  This is the
    step that `inv_step` cannot prove for the swapped order. -/
theorem swapped_order_violates :
    ∃ t, run true (opClient false [[], [0]]) (s0 1)
        [.start 0 (progPublish false [[], [0]] 1), .step 0 [], .step 0 [0], .crash 0] = some t
      ∧ t.heads = [] ∧ 0 ∈ t.pub := by
  refine ⟨_, rfl, ?_, ?_⟩ <;> decide

/-- …while the real order keeps the invariant's conclusion at the same point -/
example : ∃ t, run true (opClient true [[], [0]]) (s0 1)
    [.start 0 (progPublish true [[], [0]] 1), .step 0 [], .step 0 [], .crash 0] = some t
    ∧ t.heads = [0, 1] := ⟨_, rfl, by decide⟩

/-! ### non-vacuity -/

example : WF [[], [0], [0], [1, 2]] := wf_of_wfDag (by decide)
example : ValidEvent [[], [0]] (.start 0 (progPublish true [[], [0]] 1)) := .publish 0 1
example : resolveOutcome [[], [0], [0], [1, 2]] [1, 2] 3 = some (3, [3]) := by decide
example : resolveOutcome [[], [0], [1]] [0, 2, 1] 9 = some (2, [2]) := by decide

end JjModel.C14
