import JjModel.Lemmas.OpHeads
import JjModel.Lemmas.OpHeadsRun
/-!
  C14 — the operation-head store never loses a published operation.

  Model: `Model/OpHeads.lean` (`publish`, `resolve_op_heads`, head filtering) as a client of the
  generic head-set machine `Model/HeadProto.lean`; steps = the `opheads.{read,lock,add,remove}` hook
  points.  Locks are ignored by the theorems (every locked execution is one of the executions
  considered; `working` may be `true` or `false`), crashes may happen between any two steps, the
  number of processes is arbitrary.

  **Assumed**: a directory listing is atomic (A3).  `resolve_op_heads`' own comment documents that a
  non-atomic `readdir` can observe no heads; that case is outside the model.
-/
namespace JjModel.C14
open JjModel.OpHeads JjModel.HeadProto

/-- `Inv`: every published operation is an ancestor-or-equal of some head, and every pending
    removal `(old, new)` of a live process has `old` strictly below `new`, `new` published -/
abbrev OpInv (G : Dag) (s : OState) : Prop := Inv (le G) s

/-- one event preserves the invariant (`inv_step` for every step kind, with and without working locks) -/
theorem inv_step {G : Dag} (hw : WF G) {w : Bool} {s t : OState} {e : OEvent} (hv : ValidEvent G e)
    (hs : OpInv G s) (h : apply w (opClient true G) s e = some t) : OpInv G t :=
  inv_apply (lePre hw) hs (clientOk_of_valid hw hv) h

/-- the invariant holds in every reachable state: any number of processes, any schedule, any crash set -/
theorem inv_reach {G : Dag} (hw : WF G) (w : Bool) (np : Nat) (es : List OEvent) (t : OState)
    (hv : ∀ e ∈ es, ValidEvent G e) (h : run w (opClient true G) (s0 np) es = some t) : OpInv G t :=
  inv_run (lePre hw) (inv_init (lePre hw) [0] _)
    (runOk_of_forall (fun _ e he => clientOk_of_valid hw (hv e he)) _) h

/-- readers always find at least one head (atomic listing), and every published operation — the
    root included — is an ancestor-or-equal of some head -/
theorem reader_sees_head {G : Dag} (hw : WF G) (w : Bool) (np : Nat) (es : List OEvent) (t : OState)
    (hv : ∀ e ∈ es, ValidEvent G e) (h : run w (opClient true G) (s0 np) es = some t) :
    t.heads ≠ [] ∧ ∀ p ∈ t.pub, ∃ hd ∈ t.heads, Anc G p hd := by
  have hinv := inv_reach hw w np es t hv h
  have hcov : ∀ p ∈ t.pub, ∃ hd ∈ t.heads, Anc G p hd := by
    intro p hp
    obtain ⟨hd, hh, hl⟩ := hinv.1 p hp
    exact ⟨hd, hh, (isAnc_iff hw).mp hl⟩
  refine ⟨?_, hcov⟩
  have h0 : 0 ∈ t.pub := pub_subset_run h 0 (by simp [s0, init])
  obtain ⟨hd, hh, _⟩ := hcov 0 h0
  intro e; rw [e] at hh; simp at hh

/-- the operation being published is in `pub` as soon as its `add` step has happened -/
theorem add_publishes {w : Bool} {cl : Client Nat OInstr Nat} {s t : OState} {pid : Nat} {arg : List Nat}
    {p : Proc Nat OInstr Nat} {op : Nat} {olds : List (Bool × Nat)} {rest : List (Instr Nat OInstr)}
    (hp : s.procs[pid]? = some p) (hi : p.instrs = .add op olds :: rest)
    (h : stepProc w cl s pid arg = some t) : op ∈ t.pub ∧ op ∈ t.heads := by
  simp only [stepProc, hp, hi, Option.some.injEq] at h
  subst h
  exact ⟨by simp, mem_insertHead.mpr (Or.inl rfl)⟩

/-! ### quiescence -/

/-- outcome of one uninterrupted `resolve_op_heads` on the listing `hs`: (operation returned,
    `heads/` afterwards); `new` = the merge operation it creates when several heads survive the filter -/
def resolveOutcome (G : Dag) (hs : List Nat) (new : Nat) : Option (Nat × List Nat) :=
  match hs with
  | [] => none
  | [h] => some (h, [h])
  | _ =>
    match resolvePlan G hs [new] with
    | none => none
    | some (t, olds) => some (t, applyUpdate hs t (olds.map fun o => (true, o)))

theorem mem_pending_true {t o : Nat} {olds : List Nat} :
    o ∈ pending t (olds.map fun x => (true, x)) ↔ o ∈ olds ∧ o ≠ t := by
  rw [mem_pending]
  constructor
  · rintro ⟨g, hm, hn⟩
    simp only [List.mem_map, Prod.mk.injEq] at hm
    obtain ⟨x, hx, rfl, rfl⟩ := hm
    exact ⟨hx, fun e => hn ⟨rfl, e⟩⟩
  · rintro ⟨ho, hne⟩
    exact ⟨true, List.mem_map.mpr ⟨o, ho, rfl⟩, fun h => hne h.2⟩

theorem eq_singleton_of_nodup {l : List Nat} {r : Nat} (hnd : l.Nodup) (h : ∀ x, x ∈ l ↔ x = r) : l = [r] := by
  match l, hnd, h with
  | [], _, h => exact absurd ((h r).mpr rfl) (by simp)
  | [a], _, h => have := (h a).mp (by simp); subst this; rfl
  | a :: b :: t, hnd, h =>
    have ha := (h a).mp (by simp)
    have hb := (h b).mp (by simp)
    subst ha; subst hb
    simp at hnd

theorem nodup_applyUpdate {hs : List Nat} {t : Nat} {olds : List (Bool × Nat)} (hnd : hs.Nodup) :
    (applyUpdate hs t olds).Nodup := by
  unfold applyUpdate
  rw [foldl_removeHead]
  refine List.Nodup.sublist List.filter_sublist ?_
  unfold insertHead
  split
  · exact hnd
  · rename_i hn
    refine List.nodup_append.mpr ⟨hnd, by simp, ?_⟩
    intro a ha b hb
    simp only [List.mem_singleton] at hb
    subst hb
    exact fun e => hn (e ▸ ha)

/-- **quiescent_single_head**: once all processes have finished or crashed, one run of
    `resolve_op_heads` leaves a single head, returns it, and it descends from every published
    operation -/
theorem quiescent_single_head {G : Dag} (hw : WF G) {hs pub : List Nat} {new r : Nat} {hs' : List Nat}
    (hnd : hs.Nodup) (hcov : ∀ p ∈ pub, ∃ hd ∈ hs, Anc G p hd)
    (hr : resolveOutcome G hs new = some (r, hs')) :
    hs' = [r] ∧ ∀ p ∈ pub, Anc G p r := by
  unfold resolveOutcome at hr
  split at hr
  · simp at hr
  · rename_i h
    simp only [Option.some.injEq, Prod.mk.injEq] at hr
    obtain ⟨e1, e2⟩ := hr
    subst e1; subst e2
    refine ⟨rfl, fun p hp => ?_⟩
    obtain ⟨hd, hh, ha⟩ := hcov p hp
    simp only [List.mem_singleton] at hh
    subst hh; exact ha
  · split at hr
    · simp at hr
    · rename_i t olds hpl
      simp only [Option.some.injEq, Prod.mk.injEq] at hr
      obtain ⟨e1, e2⟩ := hr
      subst e1; subst e2
      have hanc := resolvePlan_anc hw hpl
      -- every listed head is `t` or is removed; `t` itself is never removed
      have hall : ∀ x ∈ hs, x = t ∨ x ∈ olds := by
        intro x hx
        rcases resolvePlan_cases hpl with ⟨hf, rfl⟩ | ⟨_, _, _, hss, rfl⟩
        · rcases mem_filter_or_ancestor (G := G) hx with h1 | h1
          · rw [hf] at h1; exact Or.inl (by simpa using h1)
          · exact Or.inr h1
        · right
          rcases mem_filter_or_ancestor (G := G) hx with h1 | h1
          · exact List.mem_append_right _ (mem_of_sameSet_left hss h1)
          · exact List.mem_append_left _ h1
      have hmem : ∀ x, x ∈ applyUpdate hs t (olds.map fun o => (true, o)) ↔ x = t := by
        intro x
        rw [mem_applyUpdate, mem_pending_true]
        constructor
        · rintro ⟨hx, hn⟩
          rcases hx with rfl | hx
          · rfl
          · rcases hall x hx with e | ho
            · exact e
            · by_cases e : x = t
              · exact e
              · exact absurd ⟨ho, e⟩ hn
        · rintro rfl
          exact ⟨Or.inl rfl, fun hh => hh.2 rfl⟩
      refine ⟨eq_singleton_of_nodup (nodup_applyUpdate hnd) hmem, fun p hp => ?_⟩
      obtain ⟨hd, hh, ha⟩ := hcov p hp
      rcases hall hd hh with rfl | ho
      · exact ha
      · exact anc_trans ha (hanc hd ho)

/-- the machine, running `resolve_op_heads` in one process while nobody else moves (all others
    finished or crashed, lock free), performs exactly `resolveOutcome`: the tie between the
    small-step model the driver runs and `quiescent_single_head` -/
theorem resolve_alone {G : Dag} (w : Bool) (s : OState) (pid : Nat) (p : Proc Nat OInstr Nat)
    (new r : Nat) (hs' : List Nat)
    (hp : s.procs[pid]? = some p) (hidle : p.instrs = []) (hlock : s.lock = none)
    (hr : resolveOutcome G s.heads new = some (r, hs')) :
    ∃ es t, run w (opClient true G) s (.start pid progResolve :: es) = some t ∧ t.heads = hs'
      ∧ (∀ x ∈ t.pub, x ∈ s.pub ∨ x = r) ∧ ∃ q, t.procs[pid]? = some q ∧ q.loc = r ∧ q.instrs = [] := by
  have hstart : apply w (opClient true G) s (.start pid progResolve) = some
      { s with procs := s.procs.set pid { loc := p.loc, instrs := [.client (.read false)] } } := by
    simp [apply, hp, hidle, progResolve]
  have hp1 := getElem?_set_self_of_some (a := ({ loc := p.loc, instrs := [.client (.read false)] } : Proc Nat OInstr Nat)) hp
  let s1 : OState := { s with procs := s.procs.set pid { loc := p.loc, instrs := [.client (.read false)] } }
  rcases hheads : s.heads with _ | ⟨a, _ | ⟨b, tl⟩⟩
  · simp [resolveOutcome, hheads] at hr
  · -- one head: the unlocked read returns it
    simp only [resolveOutcome, hheads, Option.some.injEq, Prod.mk.injEq] at hr
    obtain ⟨e1, e2⟩ := hr
    subst e1; subst e2
    let s2 : OState := { s1 with procs := s1.procs.set pid { loc := a, instrs := [] } }
    have h12 : apply w (opClient true G) s1 (.step pid []) = some s2 := by
      simp only [apply, stepProc, s1, hp1, opClient, expand, hheads, mkProc, List.append_nil, s2]
      simp [releaseIfDone, hlock]
    refine ⟨[.step pid []], s2, ?_, hheads, fun x hx => Or.inl hx, ?_⟩
    · rw [run_cons_some _ hstart, run_cons_some _ h12]; rfl
    · exact ⟨_, getElem?_set_self_of_some hp1, rfl, rfl⟩
  · -- several heads: read, lock, read under the lock, update
    simp only [resolveOutcome, hheads] at hr
    split at hr
    · simp at hr
    · rename_i t olds hpl
      simp only [Option.some.injEq, Prod.mk.injEq] at hr
      obtain ⟨e1, e2⟩ := hr
      subst e1; subst e2
      have hexp1 : expand true G (.read false) [] s.heads p.loc = some (p.loc, [.lock, .client (.read true)]) := by
        simp [expand, hheads]
      have hexp2 : expand true G (.read true) [new] s.heads p.loc = some (t, update true t olds) := by
        simp [expand, hheads, hpl]
      let s2 : OState := { s1 with procs := s1.procs.set pid { loc := p.loc, instrs := [.lock, .client (.read true)] } }
      let s3 : OState := { s2 with procs := s2.procs.set pid { loc := p.loc, instrs := [.client (.read true)] },
                                   lock := some pid }
      let s4 : OState := { s3 with procs := s3.procs.set pid { loc := t, instrs := update true t olds } }
      have hp2 := getElem?_set_self_of_some (a := ({ loc := p.loc, instrs := [.lock, .client (.read true)] } : Proc Nat OInstr Nat)) hp1
      have hp3 := getElem?_set_self_of_some (a := ({ loc := p.loc, instrs := [.client (.read true)] } : Proc Nat OInstr Nat)) hp2
      have hp4 := getElem?_set_self_of_some (a := ({ loc := t, instrs := update true t olds } : Proc Nat OInstr Nat)) hp3
      have h12 : apply w (opClient true G) s1 (.step pid []) = some s2 := by
        simp only [apply, stepProc, s1, hp1, opClient, hexp1, mkProc, List.append_nil, s2]
        simp [releaseIfDone, hlock]
      have h23 : apply w (opClient true G) s2 (.step pid []) = some s3 := by
        simp only [apply, stepProc, s2, s1, hp2, hlock, s3, mkProc]
        simp [releaseIfDone]
      have h34 : apply w (opClient true G) s3 (.step pid [new]) = some s4 := by
        simp only [apply, stepProc, s3, s2, s1, hp3, opClient, hexp2, mkProc, List.append_nil, s4]
        simp [releaseIfDone, update]
      obtain ⟨u, hrun, hh, hpub, q, hq, hqi, hql⟩ := run_update (w := w) (a := true) (G := G) (pid := pid) s4
        { loc := t, instrs := update true t olds } t (olds.map fun o => (true, o)) [] hp4
        (by simp [update])
      refine ⟨.step pid [] :: .step pid [] :: .step pid [new] :: .step pid [] ::
        ((pending t (olds.map fun o => (true, o))).map fun o => Event.step pid [o]), u, ?_, ?_, ?_, ?_⟩
      · rw [run_cons_some _ hstart, run_cons_some _ h12, run_cons_some _ h23, run_cons_some _ h34]
        exact hrun
      · rw [hh, ← hheads]
      · intro x hx
        rw [hpub] at hx
        simp only [List.mem_cons] at hx
        rcases hx with rfl | hx
        · exact Or.inr rfl
        · exact Or.inl hx
      · exact ⟨q, hq, hql, hqi⟩

/-- **quiescent_single_head, operationally**: from any reachable state in which process `pid` is
    idle and the lock is free (everybody else has finished or crashed — their remaining
    instructions simply never run), letting `pid` run `resolve_op_heads` alone ends with exactly one
    head `r`, which it returns and which descends from every published operation.  `hr` says the
    resolve can complete: if several heads survive the filter, the merge operation `new` the resolver
    writes has exactly those heads as parents. -/
theorem quiescent_single_head_reachable {G : Dag} (hw : WF G) (w : Bool) (np : Nat) (es0 : List OEvent)
    (s : OState) (hv : ∀ e ∈ es0, ValidEvent G e) (h0 : run w (opClient true G) (s0 np) es0 = some s)
    (pid : Nat) (p : Proc Nat OInstr Nat) (hp : s.procs[pid]? = some p) (hidle : p.instrs = [])
    (hlock : s.lock = none) (new r : Nat) (hs' : List Nat)
    (hr : resolveOutcome G s.heads new = some (r, hs')) :
    ∃ es t, run w (opClient true G) s (.start pid progResolve :: es) = some t ∧ t.heads = [r]
      ∧ (∀ x ∈ t.pub, Anc G x r) ∧ ∃ q, t.procs[pid]? = some q ∧ q.loc = r := by
  have hcov := (reader_sees_head hw w np es0 s hv h0).2
  have hnd : s.heads.Nodup := nodup_heads_run (by simp [s0, init]) h0
  obtain ⟨hsingle, hall⟩ := quiescent_single_head hw hnd hcov hr
  obtain ⟨es, t, hrun, hh, hpub, q, hq, hql, _⟩ := resolve_alone w s pid p new r hs' hp hidle hlock hr
  refine ⟨es, t, hrun, by rw [hh, hsingle], ?_, q, hq, hql⟩
  intro x hx
  rcases hpub x hx with hx | rfl
  · exact hall x hx
  · exact Anc.refl _

/-! ### the order matters: regression sentinel -/

/-- the swapped client (`remove` the parents first, then `add`): publishing one operation on a fresh
    repository empties `heads/` — a reader (or a crash) at that point finds no head.  This is the
    step that `inv_step` cannot prove for the swapped order. -/
theorem swapped_order_violates :
    ∃ t, run true (opClient false [[], [0]]) (s0 1)
        [.start 0 (progPublish false [[], [0]] 1), .step 0 [], .step 0 [0], .crash 0] = some t
      ∧ t.heads = [] ∧ 0 ∈ t.pub := by
  refine ⟨_, rfl, ?_, ?_⟩ <;> decide

/-- …while the real order keeps the invariant's conclusion at the same point -/
example : ∃ t, run true (opClient true [[], [0]]) (s0 1)
    [.start 0 (progPublish true [[], [0]] 1), .step 0 [], .step 0 [], .crash 0] = some t
    ∧ t.heads = [0, 1] := ⟨_, rfl, by decide⟩

/-! ### non-vacuity -/

example : WF [[], [0], [0], [1, 2]] := wf_of_wfDag (by decide)
example : ValidEvent [[], [0]] (.start 0 (progPublish true [[], [0]] 1)) := .publish 0 1
example : resolveOutcome [[], [0], [0], [1, 2]] [1, 2] 3 = some (3, [3]) := by decide
example : resolveOutcome [[], [0], [1]] [0, 2, 1] 9 = some (2, [2]) := by decide

end JjModel.C14
