import JjModel.Props.C23
import JjModel.Props.C25
/-!
  C24 — checkout writes the tree and an immediate snapshot sees no change.

  Theorems about `JjModel.WorkingCopy.update` / `checkOut` / `snapshot` (the definitions the driver
  runs).  `InSync disk tree sparse` says: the files and symlinks on disk are exactly the
  materialisations of the tree paths within the patterns (conflicts as their marker files).

  What is proved in full: one-step and whole-update facts that do not depend on the processing
  order, the snapshot identity on an in-sync working copy, and the checkout theorems *conditional on
  the observable fact that no entry was skipped* (`skipped_files = 0`).  The remaining gap — "from
  an in-sync start nothing is skipped", which rests on the order of `diff_stream_for_file_system`
  (a file that replaces a directory is emitted after the entries below it) — is stated next to the
  `_partial` theorems and is exercised by the correspondence runs.
-/
namespace JjModel.C24
open JjModel.WorkingCopy

/-- the files and symlinks on disk are exactly the tree paths within the patterns, materialised -/
def InSync (disk : Disk) (tree : Tree) (sparse : List Path) : Prop :=
  ∀ p x, x ≠ .dir →
    (get disk p = some x ↔ sparseMatch sparse p = true ∧ ∃ v, get tree p = some v ∧ x = materialize v)

/-- no tree path lies below another one, and the root is not a tree path -/
def PrefixFree (tree : Tree) : Prop :=
  get tree [] = none ∧ ∀ p q v w, get tree p = some v → get tree q = some w → p <+: q → p = q

/-- checkout then snapshot is the identity on values (`write_file`/`write_symlink`/`write_conflict`
followed by `get_updated_tree_value`; for conflicts this is the C06 round trip, assumed) -/
theorem valueOf_materialize (v : TreeValue) : valueOf (some v) (materialize v) = some v := by
  cases v <;> simp [valueOf, materialize]

/-! ### checkout -/

/-- every changed tree path within the patterns is, after the checkout, on disk with the new
tree's content — or it was skipped, which the trace and `skipped_files` record (C25). -/
theorem checkout_written_or_skipped (wc : WC) (disk : Disk) (new : Tree) {p : Path} {v : TreeValue}
    (hv : get new p = some v) (hs : sparseMatch wc.sparse p = true) (hne : get wc.tree p ≠ some v) :
    get (checkOut wc disk new).2.disk p = some (materialize v) ∨
    (p, Action.skipParent) ∈ (checkOut wc disk new).2.log ∨ (p, Action.skipExists) ∈ (checkOut wc disk new).2.log := by
  have hmem : ({ path := p, before := get wc.tree p, after := some v } : DiffEntry) ∈
      diffFs wc.tree new (sparseMatch wc.sparse) := by
    refine mem_diffFs.mpr ⟨Or.inr (List.mem_map.mpr ⟨(p, v), get_some_mem hv, rfl⟩), hs, ?_, rfl, by simp [hv]⟩
    simpa [hv] using hne
  rcases steps_entry_outcome (diffFs wc.tree new (sparseMatch wc.sparse))
    { disk := disk, states := wc.states, stats := {}, log := [] } (nodup_diffFs_paths _ _ _) hmem with
    ⟨v', hv', hg⟩ | ⟨hn, _⟩ | h | h
  · left; simp at hv'; subst hv'; exact hg
  · simp at hn
  · exact Or.inr (Or.inl h)
  · exact Or.inr (Or.inr h)

theorem update_noSkips {disk : Disk} {states : List Path} {old new : Tree} {m : Path → Bool}
    (h : (update disk states old new m).stats.skipped = 0) : NoSkips (update disk states old new m).log :=
  noSkips_of_skipCount_zero (by rw [← C25.skipped_counts_skips]; exact h)

/-- **checkout_disk_eq_tree** (partial: conditional on `skipped_files = 0`).
From an in-sync working copy, a checkout that skipped nothing leaves exactly the new tree's paths
within the patterns on disk, each with the materialised content; every other file is gone.
Gap to the full statement: that an in-sync start implies `skipped_files = 0`; this depends on the
emission order of `diff_stream_for_file_system` (model: `holdBack`) and is not proved here. -/
theorem checkout_disk_eq_tree_partial {wc : WC} {disk : Disk} {new : Tree}
    (hin : InSync disk wc.tree wc.sparse) (hsk : (checkOut wc disk new).2.stats.skipped = 0) :
    InSync (checkOut wc disk new).2.disk new wc.sparse := by
  have hns := update_noSkips (disk := disk) (states := wc.states) (old := wc.tree) (new := new)
    (m := sparseMatch wc.sparse) hsk
  intro p x hx
  -- is `p` a diff path?
  by_cases hd : sparseMatch wc.sparse p = true ∧ get wc.tree p ≠ get new p
  · obtain ⟨hs, hne⟩ := hd
    have hkeys : p ∈ wc.tree.map (·.1) ∨ p ∈ new.map (·.1) := by
      cases h1 : get wc.tree p with
      | some v => exact Or.inl (List.mem_map.mpr ⟨(p, v), get_some_mem h1, rfl⟩)
      | none =>
        cases h2 : get new p with
        | some v => exact Or.inr (List.mem_map.mpr ⟨(p, v), get_some_mem h2, rfl⟩)
        | none => rw [h1, h2] at hne; exact absurd rfl hne
    have hmem : ({ path := p, before := get wc.tree p, after := get new p } : DiffEntry) ∈
        diffFs wc.tree new (sparseMatch wc.sparse) := mem_diffFs.mpr ⟨hkeys, hs, hne, rfl, rfl⟩
    rcases steps_entry_outcome (diffFs wc.tree new (sparseMatch wc.sparse))
      { disk := disk, states := wc.states, stats := {}, log := [] } (nodup_diffFs_paths _ _ _) hmem with
      ⟨v, hv, hg⟩ | ⟨hn, hg⟩ | h | h
    · simp only at hv hg
      constructor
      · intro hp
        have : some x = some (materialize v) := by rw [← hp]; exact hg
        exact ⟨hs, v, hv, Option.some.inj this⟩
      · rintro ⟨_, v', hv', hx'⟩
        rw [hv] at hv'; cases hv'; subst hx'; exact hg
    · simp only at hn hg
      constructor
      · intro hp; exact absurd (hg x hp) hx
      · rintro ⟨_, v', hv', _⟩; rw [hn] at hv'; simp at hv'
    · exact absurd h (hns p).1
    · exact absurd h (hns p).2
  · have hun : sparseMatch wc.sparse p = false ∨ get wc.tree p = get new p := by
      cases hs : sparseMatch wc.sparse p with
      | false => exact Or.inl rfl
      | true =>
        right
        cases hd' : decide (get wc.tree p = get new p) with
        | true => exact of_decide_eq_true hd'
        | false => exact absurd ⟨hs, of_decide_eq_false hd'⟩ hd
    constructor
    · intro hp
      have h0 := C25.nothing_appears_elsewhere hx hun hp
      obtain ⟨hs, v, hv, hxv⟩ := (hin p x hx).mp h0
      rcases hun with h | h
      · rw [h] at hs; simp at hs
      · exact ⟨hs, v, by rw [← h]; exact hv, hxv⟩
    · rintro ⟨hs, v, hv, hxv⟩
      rcases hun with h | h
      · rw [h] at hs; simp at hs
      · exact C25.untouched_preserved ((hin p x hx).mpr ⟨hs, v, by rw [h]; exact hv, hxv⟩) hx (Or.inr h)

/-- the file-state keys after a checkout that skipped nothing: exactly the new tree's paths within
the patterns (given the same for the old tree before) -/
theorem checkout_states_partial {wc : WC} {disk : Disk} {new : Tree}
    (hst : ∀ q, q ∈ wc.states ↔ sparseMatch wc.sparse q = true ∧ get wc.tree q ≠ none)
    (hsk : (checkOut wc disk new).2.stats.skipped = 0) :
    ∀ q, q ∈ (checkOut wc disk new).1.states ↔ sparseMatch wc.sparse q = true ∧ get new q ≠ none := by
  have hns := update_noSkips (disk := disk) (states := wc.states) (old := wc.tree) (new := new)
    (m := sparseMatch wc.sparse) hsk
  intro q
  have := steps_states_noskip (diffFs wc.tree new (sparseMatch wc.sparse))
    { disk := disk, states := wc.states, stats := {}, log := [] } (nodup_diffFs_paths _ _ _) hns q
  simp only [checkOut, update] at this ⊢
  rw [this]
  by_cases hq : ∃ e ∈ diffFs wc.tree new (sparseMatch wc.sparse), e.path = q
  · simp only [hq, if_true]
    obtain ⟨e, he, hp⟩ := hq
    obtain ⟨hm, hne, _, ha⟩ := C25.diff_paths he
    subst hp
    constructor
    · rintro ⟨e', he', hp', ha'⟩
      obtain ⟨hm', _, _, ha''⟩ := C25.diff_paths he'
      rw [ha'', hp'] at ha'
      exact ⟨hm, ha'⟩
    · rintro ⟨_, hn⟩
      exact ⟨e, he, rfl, by rw [ha]; exact hn⟩
  · simp only [hq, if_false]
    rw [hst q]
    constructor
    · rintro ⟨hs, hn⟩
      refine ⟨hs, ?_⟩
      intro hnew
      apply hq
      cases hv : get wc.tree q with
      | none => exact absurd hv hn
      | some v =>
        exact ⟨{ path := q, before := some v, after := none },
          mem_diffFs.mpr ⟨Or.inl (List.mem_map.mpr ⟨(q, v), get_some_mem hv, rfl⟩), hs, by rw [hv, hnew]; simp, by simp [hv], by simp [hnew]⟩, rfl⟩
    · rintro ⟨hs, hn⟩
      refine ⟨hs, ?_⟩
      intro hold
      apply hq
      cases hv : get new q with
      | none => exact absurd hv hn
      | some v =>
        exact ⟨{ path := q, before := none, after := some v },
          mem_diffFs.mpr ⟨Or.inr (List.mem_map.mpr ⟨(q, v), get_some_mem hv, rfl⟩), hs, by rw [hv, hold]; simp, by simp [hold], by simp [hv]⟩, rfl⟩

/-! ### snapshot of an in-sync working copy -/

theorem decide_untracked_nonleaf {wc : WC} {disk : Disk} {ign : Path → Bool} {p : Path}
    (hnt : p ∉ wc.states) (hd : get disk p = none ∨ get disk p = some .dir) :
    decideAt wc disk ign p = .keep := by
  unfold decideAt
  cases hm : descend disk ign wc.sparse [] p
  · rcases hd with hd | hd <;> simp [hd, hnt]
  · simp [hnt]
  · rfl
  · simp [hnt]

/-- **snapshot_in_sync_id**: snapshotting a working copy whose disk is in sync with its tree, and
whose file states are the tree paths within the patterns, returns the identical tree and file
states — whatever the ignore rules say. -/
theorem snapshot_in_sync_id {wc : WC} {disk : Disk} {ign : Path → Bool}
    (hwf : WFDisk disk) (hin : InSync disk wc.tree wc.sparse) (hpf : PrefixFree wc.tree)
    (hst : ∀ q, q ∈ wc.states ↔ sparseMatch wc.sparse q = true ∧ get wc.tree q ≠ none) :
    (∀ p, get (snapshot wc disk ign).tree p = get wc.tree p) ∧
    (∀ p, p ∈ (snapshot wc disk ign).states ↔ p ∈ wc.states) := by
  -- a recorded path is a tracked tree path within the patterns
  have hrec : ∀ p v, decideAt wc disk ign p = .record v →
      sparseMatch wc.sparse p = true ∧ ∃ w, get wc.tree p = some w ∧ get disk p = some (materialize w) := by
    intro p v hr
    obtain ⟨e, he, hne⟩ := C23.record_is_leaf hr
    obtain ⟨hs, w, hw, hx⟩ := (hin p e hne).mp he
    exact ⟨hs, w, hw, by rw [he, hx]⟩
  constructor
  · intro p
    by_cases hp : sparseMatch wc.sparse p = true ∧ ∃ v, get wc.tree p = some v
    · obtain ⟨hs, v, hv⟩ := hp
      have hp0 : p ≠ [] := by intro e; subst e; rw [hpf.1] at hv; simp at hv
      have htr : p ∈ wc.states := (hst p).mpr ⟨hs, by rw [hv]; simp⟩
      have hd : get disk p = some (materialize v) :=
        (hin p _ (materialize_ne_dir v)).mpr ⟨hs, v, hv, rfl⟩
      rw [(C23.snapshot_records_tracked hwf hp0 htr hs hd (materialize_ne_dir v)).1, hv, valueOf_materialize]
    · -- not a tracked tree path within the patterns: never recorded
      have hnr : ∀ v, decideAt wc disk ign p ≠ .record v := by
        intro v hr
        obtain ⟨hs, w, hw, _⟩ := hrec p v hr
        exact hp ⟨hs, w, hw⟩
      cases hv : get wc.tree p with
      | none =>
        simp only [snapshot]
        exact fold_tree_none_norecord wc disk ign p hnr _ _ hv
      | some v =>
        -- then `p` is outside the patterns; nothing below it is recorded (the tree is prefix free)
        have hns : sparseMatch wc.sparse p = false := by
          cases hs : sparseMatch wc.sparse p with
          | false => rfl
          | true => exact absurd ⟨hs, v, hv⟩ hp
        have hH : ∀ p' v', decideAt wc disk ign p' = .record v' → p' ≠ p → ¬ p <+: p' := by
          intro p' v' hr hne hpre
          obtain ⟨_, w, hw, _⟩ := hrec p' v' hr
          exact hne (hpf.2 p p' v w hv hw hpre).symm
        simp only [snapshot]
        rw [fold_tree_get wc disk ign p hH, C23.decide_outside_sparse hns]
        simp [decTree, hv]
  · intro p
    simp only [snapshot]
    rw [fold_states_mem]
    by_cases hc : p ∈ candidates wc disk
    · simp only [hc, if_true]
      cases hdec : decideAt wc disk ign p with
      | keep => simp [decState]
      | record v =>
        simp only [decState, true_iff]
        obtain ⟨hs, w, hw, _⟩ := hrec p v hdec
        exact (hst p).mpr ⟨hs, by rw [hw]; simp⟩
      | delete =>
        simp only [decState, false_iff]
        intro htr
        obtain ⟨hs, hn⟩ := (hst p).mp htr
        cases hv : get wc.tree p with
        | none => exact hn hv
        | some v =>
          have hp0 : p ≠ [] := by intro e; subst e; rw [hpf.1] at hv; simp at hv
          have hd : get disk p = some (materialize v) :=
            (hin p _ (materialize_ne_dir v)).mpr ⟨hs, v, hv, rfl⟩
          obtain ⟨v', _, hr⟩ := C23.decide_tracked_leaf (ign := ign) hwf htr hs hd (materialize_ne_dir v)
          rw [hr] at hdec; simp at hdec
    · simp [hc]

/-- **snapshot_after_checkout_id** (partial: conditional on `skipped_files = 0`).  From an in-sync,
well-formed working copy, check out `new` without skipping anything, snapshot right away: the tree
is `new` again.  (`update_wf`: the update keeps the disk well formed.)
Gap: as for `checkout_disk_eq_tree_partial`. -/
theorem snapshot_after_checkout_id_partial {wc : WC} {disk : Disk} {new : Tree} {ign : Path → Bool}
    (hwf : WFDisk disk) (hin : InSync disk wc.tree wc.sparse)
    (hst : ∀ q, q ∈ wc.states ↔ sparseMatch wc.sparse q = true ∧ get wc.tree q ≠ none)
    (hpf : PrefixFree new)
    (hsk : (checkOut wc disk new).2.stats.skipped = 0) :
    ∀ p, get (snapshot (checkOut wc disk new).1 (checkOut wc disk new).2.disk ign).tree p = get new p := by
  have h1 := checkout_disk_eq_tree_partial hin hsk
  have h2 := checkout_states_partial hst hsk
  have h3 : WFDisk (checkOut wc disk new).2.disk := update_wf _ _ _ _ hwf
  exact (snapshot_in_sync_id (wc := (checkOut wc disk new).1) h3 h1 hpf h2).1

/-- **switch_eq_fresh** (partial: files and symlinks, conditional on nothing being skipped in either
run).  Switching from tree `a` (in sync) to `b` leaves the same files and symlinks on disk as
checking out `b` into an empty directory.  Gap: equality of the *directory* entries (that the
clean-up loop leaves no empty directory behind) is not proved; the correspondence runs compare full
listings including directories. -/
theorem switch_eq_fresh_partial {wc : WC} {disk : Disk} {b : Tree}
    (hin : InSync disk wc.tree wc.sparse)
    (hsk : (checkOut wc disk b).2.stats.skipped = 0)
    (hsk' : (checkOut { tree := [], states := [], sparse := wc.sparse } [] b).2.stats.skipped = 0) :
    ∀ p x, x ≠ .dir →
      (get (checkOut wc disk b).2.disk p = some x ↔
       get (checkOut { tree := [], states := [], sparse := wc.sparse } [] b).2.disk p = some x) := by
  have h0 : InSync [] ([] : Tree) wc.sparse := by
    intro p x _
    constructor
    · intro h; simp [WorkingCopy.get] at h
    · rintro ⟨_, v, hv, _⟩; simp [WorkingCopy.get] at hv
  have h1 := checkout_disk_eq_tree_partial hin hsk
  have h2 := checkout_disk_eq_tree_partial (wc := { tree := [], states := [], sparse := wc.sparse }) h0 hsk'
  intro p x hx
  rw [h1 p x hx, h2 p x hx]


/-! ### full statements when the trees do not exchange files and directories -/

/-- every directory on disk holds a file or symlink somewhere below it (no empty directories
lying around: what a checkout leaves behind) -/
def Tight (disk : Disk) : Prop :=
  ∀ d, get disk d = some .dir → ∃ q x, get disk q = some x ∧ x ≠ .dir ∧ d <+: q ∧ d ≠ q

/-- **nothing is skipped** from an in-sync, tight working copy when old and new tree agree on what
is a file and what is a directory (`NoTypeChange`) — for *any* processing order of the diff. -/
theorem checkout_noskip_of_no_type_change {wc : WC} {disk : Disk} {new : Tree}
    (hin : InSync disk wc.tree wc.sparse) (htight : Tight disk)
    (hnt : NoTypeChange wc.tree new (sparseMatch wc.sparse)) :
    (checkOut wc disk new).2.stats.skipped = 0 := by
  have hsh : Shaped wc.tree new (sparseMatch wc.sparse) disk := by
    constructor
    · intro q x hq hx
      obtain ⟨hs, v, hv, _⟩ := (hin q x hx).mp hq
      exact ⟨hs, Or.inl (by rw [hv]; simp)⟩
    · intro d hd
      obtain ⟨q, x, hq, hx, hpre, hne⟩ := htight d hd
      obtain ⟨hs, v, hv, _⟩ := (hin q x hx).mp hq
      exact ⟨q, ⟨hs, Or.inl (by rw [hv]; simp)⟩, hpre, hne⟩
  have htp : ∀ e ∈ diffFs wc.tree new (sparseMatch wc.sparse), TreePath wc.tree new (sparseMatch wc.sparse) e.path := by
    intro e he
    obtain ⟨hm, hne, _, _⟩ := C25.diff_paths he
    refine ⟨hm, ?_⟩
    cases h1 : get wc.tree e.path with
    | some v => exact Or.inl (by simp)
    | none =>
      right
      intro h2
      rw [h1, h2] at hne
      exact hne rfl
  have hb : ∀ e ∈ diffFs wc.tree new (sparseMatch wc.sparse), ∀ x,
      get disk e.path = some x → x ≠ .dir → e.before ≠ none := by
    intro e he x hx hxd
    obtain ⟨_, _, hbe, _⟩ := C25.diff_paths he
    obtain ⟨_, v, hv, _⟩ := (hin e.path x hxd).mp hx
    rw [hbe, hv]; simp
  exact steps_noskip_of_shaped hnt (diffFs wc.tree new (sparseMatch wc.sparse))
    { disk := disk, states := wc.states, stats := {}, log := [] } (nodup_diffFs_paths _ _ _) hsh htp hb

/-- **checkout_disk_eq_tree** (no file↔directory replacement): after the checkout the files and
symlinks on disk are exactly the new tree's paths within the patterns, materialised. -/
theorem checkout_disk_eq_tree {wc : WC} {disk : Disk} {new : Tree}
    (hin : InSync disk wc.tree wc.sparse) (htight : Tight disk)
    (hnt : NoTypeChange wc.tree new (sparseMatch wc.sparse)) :
    InSync (checkOut wc disk new).2.disk new wc.sparse :=
  checkout_disk_eq_tree_partial hin (checkout_noskip_of_no_type_change hin htight hnt)

/-- **snapshot_after_checkout_id** (no file↔directory replacement): check out, snapshot right
away, get the checked-out tree back. -/
theorem snapshot_after_checkout_id {wc : WC} {disk : Disk} {new : Tree} {ign : Path → Bool}
    (hwf : WFDisk disk) (hin : InSync disk wc.tree wc.sparse) (htight : Tight disk)
    (hst : ∀ q, q ∈ wc.states ↔ sparseMatch wc.sparse q = true ∧ get wc.tree q ≠ none)
    (hpf : PrefixFree new) (hnt : NoTypeChange wc.tree new (sparseMatch wc.sparse)) :
    ∀ p, get (snapshot (checkOut wc disk new).1 (checkOut wc disk new).2.disk ign).tree p = get new p :=
  snapshot_after_checkout_id_partial hwf hin hst hpf (checkout_noskip_of_no_type_change hin htight hnt)

/-- **switch_eq_fresh** (no file↔directory replacement; files and symlinks) -/
theorem switch_eq_fresh {wc : WC} {disk : Disk} {b : Tree}
    (hin : InSync disk wc.tree wc.sparse) (htight : Tight disk)
    (hnt : NoTypeChange wc.tree b (sparseMatch wc.sparse))
    (hnt' : NoTypeChange [] b (sparseMatch wc.sparse)) :
    ∀ p x, x ≠ .dir →
      (get (checkOut wc disk b).2.disk p = some x ↔
       get (checkOut { tree := [], states := [], sparse := wc.sparse } [] b).2.disk p = some x) := by
  have h0 : InSync [] ([] : Tree) wc.sparse := by
    intro p x _
    constructor
    · intro h; simp [WorkingCopy.get] at h
    · rintro ⟨_, v, hv, _⟩; simp [WorkingCopy.get] at hv
  have ht0 : Tight [] := by intro d hd; simp [WorkingCopy.get] at hd
  exact switch_eq_fresh_partial hin (checkout_noskip_of_no_type_change hin htight hnt)
    (checkout_noskip_of_no_type_change (wc := { tree := [], states := [], sparse := wc.sparse }) h0 ht0 hnt')

/-! ### non-vacuity -/

def exWC : WC := { tree := [(["d", "x"], .file "78" false), (["f"], .file "66" false)],
                   states := [["d", "x"], ["f"]], sparse := [[]] }
def exDisk : Disk := [(["d"], .dir), (["d", "x"], .file "78" false), (["f"], .file "66" false)]
/-- directory `d` replaced by a symlink, `f` by a directory holding a conflict marker file -/
def exNew : Tree := [(["d"], .symlink "74"), (["f", "c"], .conflict "k" "6d61726b657273" false)]

/-- a second target without file↔directory replacement, for the unconditional theorems -/
def exNew2 : Tree := [(["d", "x"], .file "79" true), (["g"], .symlink "66")]

example : (checkOut exWC exDisk exNew).2.stats.skipped = 0 := by decide
example : WFDisk (checkOut exWC exDisk exNew).2.disk := wfDisk_of_check (by decide)
example :
    let r := checkOut exWC exDisk exNew
    get r.2.disk ["d"] = some (.symlink "74") ∧ get r.2.disk ["d", "x"] = none ∧
    get r.2.disk ["f"] = some .dir ∧ get r.2.disk ["f", "c"] = some (.file "6d61726b657273" false) ∧
    r.2.stats = { updated := 0, added := 2, removed := 2, skipped := 0 } ∧
    get (snapshot r.1 r.2.disk (fun _ => true)).tree ["f", "c"] = some (.conflict "k" "6d61726b657273" false) ∧
    get (snapshot r.1 r.2.disk (fun _ => true)).tree ["d"] = some (.symlink "74") ∧
    get (snapshot r.1 r.2.disk (fun _ => true)).tree ["f"] = none := by decide



/-! ### decidable forms of the hypotheses (for the concrete instances) -/

def inSyncB (disk : Disk) (tree : Tree) (sparse : List Path) : Bool :=
  (disk.all fun e => e.2 == .dir ||
    (sparseMatch sparse e.1 && match WorkingCopy.get tree e.1 with
      | some v => e.2 == materialize v && WorkingCopy.get disk e.1 == some e.2 | none => false)) &&
  (tree.all fun e => !(sparseMatch sparse e.1) ||
    match WorkingCopy.get tree e.1 with
    | some v => WorkingCopy.get disk e.1 == some (materialize v) | none => true) &&
  (disk.all fun e => WorkingCopy.get disk e.1 == some e.2)

theorem inSync_of_check {disk : Disk} {tree : Tree} {sparse : List Path} (h : inSyncB disk tree sparse = true) :
    InSync disk tree sparse := by
  simp only [inSyncB, Bool.and_eq_true, List.all_eq_true] at h
  obtain ⟨⟨h1, h2⟩, _⟩ := h
  intro p x hx
  constructor
  · intro hp
    have := h1 (p, x) (get_some_mem hp)
    simp only [Bool.or_eq_true, beq_iff_eq, Bool.and_eq_true] at this
    rcases this with h | ⟨hs, hm⟩
    · exact absurd h hx
    · refine ⟨hs, ?_⟩
      cases hv : WorkingCopy.get tree p with
      | none => simp [hv] at hm
      | some v => simp [hv] at hm; exact ⟨v, rfl, hm.1⟩
  · rintro ⟨hs, v, hv, hxv⟩
    have := h2 (p, v) (get_some_mem hv)
    simp only [hs, Bool.not_true, Bool.false_or, hv, beq_iff_eq] at this
    rw [this, hxv]

def tightB (disk : Disk) : Bool :=
  disk.all fun e => e.2 != .dir ||
    disk.any fun f => f.2 != .dir && WorkingCopy.get disk f.1 == some f.2 && e.1.isPrefixOf f.1 && f.1 != e.1

theorem tight_of_check {disk : Disk} (h : tightB disk = true) : Tight disk := by
  simp only [tightB, List.all_eq_true] at h
  intro d hd
  have := h (d, .dir) (get_some_mem hd)
  simp only [bne_self_eq_false, Bool.false_or, List.any_eq_true, Bool.and_eq_true, bne_iff_ne, ne_eq,
    beq_iff_eq] at this
  obtain ⟨f, _, ⟨⟨hx, hg⟩, hpre⟩, hne⟩ := this
  exact ⟨f.1, f.2, hg, hx, isPrefixOf_iff.mp hpre, fun e => hne e.symm⟩

def prefixFreeB (tree : Tree) : Bool :=
  (WorkingCopy.get tree []).isNone &&
  tree.all fun e => tree.all fun f => !(e.1.isPrefixOf f.1) || e.1 == f.1

theorem prefixFree_of_check {tree : Tree} (h : prefixFreeB tree = true) : PrefixFree tree := by
  simp only [prefixFreeB, Bool.and_eq_true, List.all_eq_true] at h
  refine ⟨by simpa using h.1, ?_⟩
  intro p q v w hp hq hpre
  have := h.2 (p, v) (get_some_mem hp) (q, w) (get_some_mem hq)
  simpa [isPrefixOf_iff.mpr hpre] using this

def treePathB (old new : Tree) (m : Path → Bool) (p : Path) : Bool :=
  m p && ((WorkingCopy.get old p).isSome || (WorkingCopy.get new p).isSome)

def noTypeChangeB (old new : Tree) (m : Path → Bool) : Bool :=
  let keys := old.map (·.1) ++ new.map (·.1)
  keys.all fun p => keys.all fun q => !(treePathB old new m p && treePathB old new m q && p.isPrefixOf q) || p == q

theorem treePath_key {old new : Tree} {m : Path → Bool} {p : Path} (h : TreePath old new m p) :
    p ∈ old.map (·.1) ++ new.map (·.1) ∧ treePathB old new m p = true := by
  obtain ⟨hm, ho⟩ := h
  constructor
  · rcases ho with ho | ho
    · cases hv : WorkingCopy.get old p with
      | none => exact absurd hv ho
      | some v => exact List.mem_append_left _ (List.mem_map.mpr ⟨(p, v), get_some_mem hv, rfl⟩)
    · cases hv : WorkingCopy.get new p with
      | none => exact absurd hv ho
      | some v => exact List.mem_append_right _ (List.mem_map.mpr ⟨(p, v), get_some_mem hv, rfl⟩)
  · simp only [treePathB, hm, Bool.true_and, Bool.or_eq_true]
    rcases ho with ho | ho
    · left; cases hv : WorkingCopy.get old p with
      | none => exact absurd hv ho
      | some v => rfl
    · right; cases hv : WorkingCopy.get new p with
      | none => exact absurd hv ho
      | some v => rfl

theorem noTypeChange_of_check {old new : Tree} {m : Path → Bool} (h : noTypeChangeB old new m = true) :
    NoTypeChange old new m := by
  simp only [noTypeChangeB, List.all_eq_true] at h
  intro p q hp hq hpre
  obtain ⟨kp, tp⟩ := treePath_key hp
  obtain ⟨kq, tq⟩ := treePath_key hq
  have := h p kp q kq
  simpa [tp, tq, isPrefixOf_iff.mpr hpre] using this

def statesOkB (wc : WC) : Bool :=
  (wc.states.all fun q => sparseMatch wc.sparse q && (WorkingCopy.get wc.tree q).isSome) &&
  (wc.tree.all fun e => !(sparseMatch wc.sparse e.1) || decide (e.1 ∈ wc.states))

theorem statesOk_of_check {wc : WC} (h : statesOkB wc = true) :
    ∀ q, q ∈ wc.states ↔ sparseMatch wc.sparse q = true ∧ WorkingCopy.get wc.tree q ≠ none := by
  simp only [statesOkB, Bool.and_eq_true, List.all_eq_true] at h
  intro q
  constructor
  · intro hq
    have := h.1 q hq
    refine ⟨this.1, ?_⟩
    intro hn; rw [hn] at this; simp at this
  · rintro ⟨hs, hn⟩
    cases hv : WorkingCopy.get wc.tree q with
    | none => exact absurd hv hn
    | some v =>
      have := h.2 (q, v) (get_some_mem hv)
      simpa [hs] using this

/-! instances -/
example : InSync exDisk exWC.tree exWC.sparse := inSync_of_check (by decide)
example : Tight exDisk := tight_of_check (by decide)
example : WFDisk exDisk := wfDisk_of_check (by decide)
example : PrefixFree exNew ∧ PrefixFree exNew2 := ⟨prefixFree_of_check (by decide), prefixFree_of_check (by decide)⟩
example : NoTypeChange exWC.tree exNew2 (sparseMatch exWC.sparse) := noTypeChange_of_check (by decide)
example : NoTypeChange [] exNew2 (sparseMatch exWC.sparse) := noTypeChange_of_check (by decide)
example : ∀ q, q ∈ exWC.states ↔ sparseMatch exWC.sparse q = true ∧ WorkingCopy.get exWC.tree q ≠ none :=
  statesOk_of_check (by decide)
/-- `exNew` does exchange files and directories (`d`, `f`), `exNew2` does not -/
example : noTypeChangeB exWC.tree exNew (sparseMatch exWC.sparse) = false := by decide


end JjModel.C24
