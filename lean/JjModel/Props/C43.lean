import JjModel.Lemmas.SecureConfig
/-!
  C43 — Per-repo configuration cannot be injected by a copied repository.

  All statements are about `maybeLoad` / `loadConfig` of `Model/SecureConfig.lean` (what the driver
  runs), over *every* abstract file-system state `fs`, in particular every content of the config-id
  file.  `root` is the user's per-repo config directory; `configPath id` is computed with the
  model of `PathBuf::join`, so "inside the root" is a theorem, not a definition.
-/
namespace JjModel.C43
open JjModel.SecureConfig JjModel.Generated.Secure

/-- The file is `root/<id>/config.toml` for a well-formed id: one directory level below the root,
    the id a single normal path component (no separator, not `..`, not absolute). -/
def Confined (p : List Str) : Prop :=
  ∃ id : Str, validId id = true ∧ p = root ++ [id, CONFIG_FILE] ∧
    '/' ∉ id ∧ id ≠ ['.', '.'] ∧ id.length = 2 * CONFIG_ID_BYTES

theorem confined_configPath (id : Str) (h : validId id = true) : Confined (configPath id) :=
  ⟨id, h, configPath_valid id h, validId_no_slash id h, (validId_components id h).2.2, validId_length id h⟩

/-! ### helper: the file each sub-function returns -/

theorem generateInitial_file (fs fs' : Fs) (r : Nat) (id : Str) (w : Warn) (l : Loaded)
    (h : generateInitial fs r id w = (fs', .ok l)) : l.file = some (configPath id) := by
  unfold generateInitial at h
  split at h
  · next fs2 p hg =>
    simp at h; obtain ⟨_, rfl⟩ := h
    simp [(generateConfig_ok _ _ _ _ _ _ _ hg).1]
  · simp at h

theorem handleMetadataPath_file (fs fs' : Fs) (r : Nat) (s : Str) (md : Option Nat) (l : Loaded)
    (h : handleMetadataPath fs r s md = (fs', .ok l)) :
    l.file = some (configPath s) ∨ l.file = some (configPath (genId fs.next)) := by
  unfold handleMetadataPath at h
  split at h
  · simp at h; obtain ⟨_, rfl⟩ := h; exact Or.inl rfl
  · split at h
    · split at h
      · split at h
        · simp only [drawId] at h
          split at h
          · next fs2 p hg =>
            simp at h; obtain ⟨_, rfl⟩ := h
            exact Or.inr (by simp [(generateConfig_ok _ _ _ _ _ _ _ hg).1])
          · simp at h
        · simp at h; obtain ⟨_, rfl⟩ := h; exact Or.inl rfl
      · simp at h; obtain ⟨_, rfl⟩ := h; exact Or.inl rfl
    · simp at h; obtain ⟨_, rfl⟩ := h; exact Or.inl rfl

theorem migrateLegacy_file (fs fs' : Fs) (r : Nat) (l : Loaded)
    (h : migrateLegacy fs r = (fs', .ok l)) :
    l.file = none ∨ l.file = some (configPath (genId fs.next)) := by
  unfold migrateLegacy at h
  split at h
  · simp at h; obtain ⟨_, rfl⟩ := h; exact Or.inl rfl
  · simp only [drawId] at h
    split at h
    · next fs2 p hg =>
      simp at h; obtain ⟨_, rfl⟩ := h
      exact Or.inr (by simp [(generateConfig_ok _ _ _ _ _ _ _ hg).1])
    · simp at h

/-- Which file `maybe_load_config` can return: none, the one named by the (valid) id in the
    config-id file, or one named by a freshly generated id. -/
theorem maybeLoad_file (fs fs' : Fs) (r : Nat) (l : Loaded) (h : maybeLoad fs r = (fs', .ok l)) :
    l.file = none ∨ (∃ s, readId fs r = .text s ∧ validId s = true ∧ l.file = some (configPath s)) ∨
      l.file = some (configPath (genId fs.next)) := by
  unfold maybeLoad at h
  split at h
  · simp at h
  · next s hs =>
    split at h
    · next hv =>
      split at h
      · rcases handleMetadataPath_file _ _ _ _ _ _ h with h1 | h1
        · exact Or.inr (Or.inl ⟨s, hs, hv, h1⟩)
        · exact Or.inr (Or.inr h1)
      · exact Or.inr (Or.inl ⟨s, hs, hv, generateInitial_file _ _ _ _ _ _ h⟩)
    · simp at h
  · rcases migrateLegacy_file _ _ _ _ h with h1 | h1
    · exact Or.inl h1
    · exact Or.inr (Or.inr h1)

/-! ### config_path_confined -/

/-- **config_path_confined** — whatever the file system contains (every content of the config-id
    file, every metadata, every legacy file), a config file returned by `maybe_load_config` is
    `root/<well-formed hex id>/config.toml`. -/
theorem config_path_confined (fs fs' : Fs) (r : Nat) (l : Loaded) (p : List Str)
    (h : maybeLoad fs r = (fs', .ok l)) (hp : l.file = some p) : Confined p := by
  rcases maybeLoad_file fs fs' r l h with h1 | ⟨s, _, hv, h1⟩ | h1
  · rw [h1] at hp; cases hp
  · rw [h1] at hp; cases hp; exact confined_configPath s hv
  · rw [h1] at hp; cases hp; exact confined_configPath _ (genId_valid _)

/-- … and a malformed config-id file (wrong length, any non-hex character: `/`, `.`, newline, …)
    yields `BadConfigIdError` and touches nothing. -/
theorem malformed_id_rejected (fs : Fs) (r : Nat) (s : Str) (hs : readId fs r = .text s)
    (hv : validId s = false) : maybeLoad fs r = (fs, .error .badId) := by
  simp [maybeLoad, hs, hv]

/-- the same two facts for `load_config` -/
theorem config_path_confined_loadConfig (fs fs' : Fs) (r : Nat) (l : Loaded) (p : List Str)
    (h : loadConfig fs r = (fs', .ok l)) (hp : l.file = some p) : Confined p := by
  unfold loadConfig at h
  split at h
  · simp at h
  · next fs1 l1 hm =>
    split at h
    · next q hq =>
      simp at h; obtain ⟨_, rfl⟩ := h
      exact config_path_confined _ _ _ _ _ hm hp
    · simp only [drawId] at h
      split at h
      · next fs3 q hg =>
        simp at h; obtain ⟨_, rfl⟩ := h
        simp at hp; subst hp
        rw [(generateConfig_ok _ _ _ _ _ _ _ hg).1]
        exact confined_configPath _ (genId_valid _)
      · simp at h

theorem malformed_id_rejected_loadConfig (fs : Fs) (r : Nat) (s : Str) (hs : readId fs r = .text s)
    (hv : validId s = false) : loadConfig fs r = (fs, .error .badId) := by
  simp [loadConfig, malformed_id_rejected fs r s hs hv]

/-- `Confined` really excludes the strings an attacker would write (non-vacuity of the predicate). -/
example : validId "../../../../../../..".toList = false ∧ validId "/abs/evil".toList = false ∧
    validId "aaaaaaaaa/aaaaaaaaaa".toList = false ∧ validId "aaaaaaaaaaaaaaaaaaa\n".toList = false ∧
    validId "ABCDEF0123456789abcd".toList = true := by decide

/-- without the validation the model of `join` would leave the root: the planted path is reached -/
example : pjoin (pjoin root "../evil".toList) CONFIG_FILE = [['c','f','g'], ['.','.'], "evil".toList, CONFIG_FILE] ∧
    pjoin (pjoin root "/abs/evil".toList) CONFIG_FILE = ["abs".toList, "evil".toList, CONFIG_FILE] := by decide

/-! ### stability of a load (used by `load_idempotent` and the copy theorem) -/

/-- a repo whose id file names a valid id whose metadata points back at the repo loads that config
    and changes nothing -/
theorem load_stable (fs : Fs) (r : Nat) (id : Str) (c : Option Nat) (hid : readId fs r = .text id)
    (hv : validId id = true) (hc : fs.confs id = some ⟨some (some r), c⟩) :
    maybeLoad fs r = (fs, .ok ⟨some (configPath id), some r, .none⟩) := by
  simp [maybeLoad, hid, hv, hc, handleMetadataPath]

/-! ### copy_gets_own_config -/

/-- **copy_gets_own_config** — `b` is a writable real directory carrying a copy of `a`'s config-id
    file (`s`), `a` is still a directory (and not the same one), the config `s` belongs to `a`
    (metadata path = `a`).  Assumption on the random generator: the id it draws is not `s` and names
    no existing config dir.  Then loading `b`
      * returns a *different* file `root/g/config.toml` with the "copied" warning,
      * leaves the original's config dir `s` exactly as it was,
      * creates `g` with metadata path `b` and a copy of the original's content,
      * and afterwards `a` keeps loading `s` while `b` keeps loading `g`. -/
theorem copy_gets_own_config (fs : Fs) (a b : Nat) (da db : RepoDir) (s : Str) (cd : ConfDir)
    (hab : a ≠ b) (ha : fs.repos a = .dir da) (hb : fs.repos b = .dir db)
    (hida : da.idFile = .text s) (hidb : db.idFile = .text s) (hw : db.writable = true)
    (hv : validId s = true) (hc : fs.confs s = some cd) (hmd : cd.metadata = some (some a))
    (hfresh : genId fs.next ≠ s) (hnew : fs.confs (genId fs.next) = none) :
    ∃ fs', maybeLoad fs b = (fs', .ok ⟨some (configPath (genId fs.next)), some b, .copied⟩) ∧
      fs'.confs s = fs.confs s ∧
      fs'.confs (genId fs.next) = some ⟨some (some b), cd.config⟩ ∧
      maybeLoad fs' a = (fs', .ok ⟨some (configPath s), some a, .none⟩) ∧
      maybeLoad fs' b = (fs', .ok ⟨some (configPath (genId fs.next)), some b, .none⟩) ∧
      configPath (genId fs.next) ≠ configPath s := by
  have hra : resolve fs a = some (a, da) := resolve_of_dir fs a da ha
  have hrb : resolve fs b = some (b, db) := resolve_of_dir fs b db hb
  have hba : b ≠ a := fun e => hab e.symm
  have hmdne : (some a : Option Nat) ≠ some b := by simp [hab]
  -- the state after the load
  let g := genId fs.next
  let fs1 : Fs := { fs with next := fs.next + 1 }
  let fs2 := setConf fs1 g (some ⟨some (some b), keptConfig (fs1.confs g) cd.config⟩)
  let fs3 := setRepo fs2 b (.dir { db with idFile := .text g })
  have hload : maybeLoad fs b = (fs3, .ok ⟨some (configPath g), some b, .copied⟩) := by
    have hr1 : resolve fs2 b = some (b, db) := hrb
    simp [maybeLoad, readId, hrb, hidb, hv, hc, hmd, handleMetadataPath, hmdne, isDir, hra, canWrite, hw, sameDir,
      hba, drawId, generateConfig, writeId, hr1, fs3, fs2, fs1, g]
  have hkept : keptConfig (fs1.confs g) cd.config = cd.config := by
    have : fs1.confs g = none := hnew
    cases hcc : cd.config <;> simp [keptConfig, this]
  refine ⟨fs3, hload, ?_, ?_, ?_, ?_, ?_⟩
  · show fs2.confs s = fs.confs s
    simp [fs2, setConf, fs1, g, Ne.symm hfresh]
  · show fs2.confs g = _
    simp [fs2, setConf, hkept]
  · have hida' : readId fs3 a = .text s := by
      have : resolve fs3 a = some (a, da) := by
        apply resolve_of_dir; show (if a = b then _ else fs.repos a) = _; simp [hab, ha]
      simp [readId, this, hida]
    have hcs : fs3.confs s = some ⟨some (some a), cd.config⟩ := by
      show fs2.confs s = _
      simp [fs2, setConf, fs1, g, Ne.symm hfresh, hc, ← hmd]
    exact load_stable fs3 a s cd.config hida' hv hcs
  · have hidb' : readId fs3 b = .text g := by
      have : resolve fs3 b = some (b, { db with idFile := .text g }) := by
        apply resolve_of_dir; show (if b = b then _ else _) = _; simp
      simp [readId, this]
    have hcg : fs3.confs g = some ⟨some (some b), cd.config⟩ := by
      show fs2.confs g = _
      simp [fs2, setConf, hkept]
    exact load_stable fs3 b g cd.config hidb' (genId_valid _) hcg
  · intro e
    exact hfresh (configPath_inj _ _ (genId_valid _) hv e)

/-- non-vacuity of `copy_gets_own_config`: `mkdir r0; load_config r0; edit; cp -r r0 r1` reaches a
    state satisfying every hypothesis (with `a = 0`, `b = 1`, `s = genId 0`). -/
example :
    let fs := (run Fs.empty [.mk 0, .loadC 0, .edit 0 5, .cp 0 1]).1
    fs.repos 0 = .dir ⟨.text (genId 0), .none, true⟩ ∧ fs.repos 1 = .dir ⟨.text (genId 0), .none, true⟩ ∧
      validId (genId 0) = true ∧ fs.confs (genId 0) = some ⟨some (some 0), some 5⟩ ∧
      genId fs.next ≠ genId 0 ∧ fs.confs (genId fs.next) = none := by decide

/-! ### move_keeps_config, sharing -/

/-- **move_keeps_config** — the metadata names a path that is no longer a directory (the repo was
    moved to `b`): the same config file is returned, no id is drawn, the only change is the
    metadata path of that config dir (every other config dir, every repo dir untouched). -/
theorem move_keeps_config (fs : Fs) (a b : Nat) (db : RepoDir) (s : Str) (cd : ConfDir)
    (hab : a ≠ b) (hb : fs.repos b = .dir db) (hidb : db.idFile = .text s) (hv : validId s = true)
    (hc : fs.confs s = some cd) (hmd : cd.metadata = some (some a)) (hgone : isDir fs a = false) :
    maybeLoad fs b = (setConf fs s (some ⟨some (some b), cd.config⟩),
      .ok ⟨some (configPath s), some b, .none⟩) := by
  have hrb : resolve fs b = some (b, db) := resolve_of_dir fs b db hb
  have hmdne : (some a : Option Nat) ≠ some b := by simp [hab]
  simp [maybeLoad, readId, hrb, hidb, hv, hc, hmd, handleMetadataPath, hmdne, hgone]

/-- non-vacuity: `mkdir r0; load_config r0; edit; mv r0 r1` -/
example :
    let fs := (run Fs.empty [.mk 0, .loadC 0, .edit 0 5, .mv 0 1]).1
    fs.repos 1 = .dir ⟨.text (genId 0), .none, true⟩ ∧ fs.confs (genId 0) = some ⟨some (some 0), some 5⟩ ∧
      isDir fs 0 = false := by decide

/-- **readonly_shares** (stated behaviour, not part of the property): no file can be created in
    the new location ⇒ the original's config is shared and nothing is written. -/
theorem readonly_shares (fs : Fs) (a b : Nat) (s : Str) (cd : ConfDir)
    (hab : a ≠ b) (hidb : readId fs b = .text s) (hv : validId s = true)
    (hc : fs.confs s = some cd) (hmd : cd.metadata = some (some a)) (hdir : isDir fs a = true)
    (hro : canWrite fs b = false) :
    maybeLoad fs b = (fs, .ok ⟨some (configPath s), some a, .none⟩) := by
  have hmdne : (some a : Option Nat) ≠ some b := by simp [hab]
  simp [maybeLoad, hidb, hv, hc, hmd, handleMetadataPath, hmdne, hdir, hro]

/-- **alias_shares** (stated behaviour): the new path is the same directory under another name
    (symlink) ⇒ shared, nothing written. -/
theorem alias_shares (fs : Fs) (a b : Nat) (s : Str) (cd : ConfDir)
    (hab : a ≠ b) (hidb : readId fs b = .text s) (hv : validId s = true)
    (hc : fs.confs s = some cd) (hmd : cd.metadata = some (some a)) (hdir : isDir fs a = true)
    (hsame : sameDir fs b a = true) :
    maybeLoad fs b = (fs, .ok ⟨some (configPath s), some a, .none⟩) := by
  have hmdne : (some a : Option Nat) ≠ some b := by simp [hab]
  simp [maybeLoad, hidb, hv, hc, hmd, handleMetadataPath, hmdne, hdir, hsame]

/-! ### load_idempotent -/

theorem stable_of_post (fs : Fs) (r : Nat) (id : Str) (c : Option Nat) (l : Loaded)
    (hid : readId fs r = .text id) (hv : validId id = true) (hc : fs.confs id = some ⟨some (some r), c⟩)
    (hf : l.file = some (configPath id)) (hm : l.metadata = some r) :
    maybeLoad fs r = (fs, .ok { l with warn := .none }) := by
  rw [load_stable fs r id c hid hv hc]
  cases l; simp_all

theorem readId_setConf (fs : Fs) (id : Str) (c : Option ConfDir) (r : Nat) :
    readId (setConf fs id c) r = readId fs r := rfl

/-- after a successful `generate_config … (some r)` the repo loads that very config, stably -/
theorem stable_after_generate (fs fs' : Fs) (r : Nat) (id : Str) (content : Option Nat) (p : List Str)
    (hv : validId id = true) (h : generateConfig fs r id content (some r) = (fs', .ok p)) (w : Warn) :
    maybeLoad fs' r = (fs', .ok ⟨some p, some r, .none⟩) := by
  obtain ⟨hp, hid, _, hc, _⟩ := generateConfig_ok _ _ _ _ _ _ _ h
  have := stable_of_post fs' r id _ ⟨some p, some r, w⟩ hid hv hc (by simp [hp]) rfl
  simpa using this

theorem handleMetadataPath_idem (fs fs1 : Fs) (r : Nat) (s : Str) (md : Option Nat) (l : Loaded)
    (hid : readId fs r = .text s) (hv : validId s = true) (hmd0 : (fs.confs s).bind (·.metadata) = some md)
    (h : handleMetadataPath fs r s md = (fs1, .ok l)) :
    maybeLoad fs1 r = (fs1, .ok { l with warn := .none }) := by
  have hsame : ∀ l', handleMetadataPath fs r s md = (fs, .ok l') → l'.warn = .none →
      maybeLoad fs r = (fs, .ok { l' with warn := .none }) := by
    intro l' h' hw
    have : maybeLoad fs r = (fs, .ok l') := by simp [maybeLoad, hid, hv, hmd0, h']
    rw [this]; cases l'; simp_all
  have hmoved : maybeLoad (setConf fs s (some ⟨some (some r), (fs.confs s).bind (·.config)⟩)) r =
      (setConf fs s (some ⟨some (some r), (fs.confs s).bind (·.config)⟩),
        .ok ⟨some (configPath s), some r, .none⟩) :=
    load_stable _ r s ((fs.confs s).bind (·.config)) (by rw [readId_setConf]; exact hid) hv (by simp [setConf])
  unfold handleMetadataPath at h
  split at h
  · next he =>
    have h' : handleMetadataPath fs r s md = (fs, .ok ⟨some (configPath s), md, .none⟩) := by
      simp [handleMetadataPath, he]
    simp at h; obtain ⟨rfl, rfl⟩ := h
    exact hsame _ h' rfl
  · next he =>
    split at h
    · next g =>
      split at h
      · next hd =>
        split at h
        · next hcw =>
          simp only [drawId] at h
          split at h
          · next fs2 p hg =>
            simp at h; obtain ⟨rfl, rfl⟩ := h
            exact stable_after_generate _ _ _ _ _ _ (genId_valid _) hg .copied
          · simp at h
        · next hcw =>
          have h' : handleMetadataPath fs r s (some g) = (fs, .ok ⟨some (configPath s), some g, .none⟩) := by
            simp [handleMetadataPath, he, hd, hcw]
          simp at h; obtain ⟨rfl, rfl⟩ := h
          exact hsame _ h' rfl
      · simp at h; obtain ⟨rfl, rfl⟩ := h; exact hmoved
    · simp at h; obtain ⟨rfl, rfl⟩ := h; exact hmoved

/-- **load_idempotent** — loading again right after a successful load returns the same file and
    metadata (without the one-time warning) and changes nothing further. -/
theorem load_idempotent (fs fs1 : Fs) (r : Nat) (l : Loaded) (h : maybeLoad fs r = (fs1, .ok l)) :
    maybeLoad fs1 r = (fs1, .ok { l with warn := .none }) := by
  have h0 := h
  unfold maybeLoad at h
  split at h
  · simp at h
  · next s hs =>
    split at h
    · next hv =>
      split at h
      · next md hmd => exact handleMetadataPath_idem fs fs1 r s md l hs hv hmd h
      · unfold generateInitial at h
        split at h
        · next fs2 p hg =>
          simp at h; obtain ⟨rfl, rfl⟩ := h
          exact stable_after_generate _ _ _ _ _ _ hv hg .notFound
        · simp at h
    · simp at h
  · next hs =>
    unfold migrateLegacy at h
    split at h
    · simp at h; obtain ⟨rfl, rfl⟩ := h
      rw [h0]
    · simp only [drawId] at h
      split at h
      · next fs2 p hg =>
        simp at h; obtain ⟨rfl, rfl⟩ := h
        obtain ⟨hp, hid, _, hc, _⟩ := generateConfig_ok _ _ _ _ _ _ _ hg
        obtain ⟨h1, h2, _⟩ := setLegacy_post fs2 r (.link (genId fs.next))
        have := stable_of_post (setLegacy fs2 r (.link (genId fs.next))) r (genId fs.next) _
          ⟨some p, some r, .migrated⟩ (by rw [h1]; exact hid) (genId_valid _) (by rw [h2]; exact hc)
          (by simp [hp]) rfl
        simpa using this
      · simp at h

/-- the same for `load_config` (which additionally generates a config when there is none) -/
theorem loadConfig_idempotent (fs fs1 : Fs) (r : Nat) (l : Loaded) (h : loadConfig fs r = (fs1, .ok l)) :
    loadConfig fs1 r = (fs1, .ok { l with warn := .none }) := by
  unfold loadConfig at h
  split at h
  · simp at h
  · next fs2 l2 hm =>
    split at h
    · next q hq =>
      simp at h; obtain ⟨rfl, rfl⟩ := h
      have := load_idempotent _ _ _ _ hm
      simp [loadConfig, this, hq]
    · simp only [drawId] at h
      split at h
      · next fs3 p hg =>
        simp at h; obtain ⟨rfl, rfl⟩ := h
        have := stable_after_generate _ _ _ _ _ _ (genId_valid _) hg .none
        simp [loadConfig, this]
      · simp at h

/-- non-vacuity: the migrated, the copied and the not-found cases all load successfully -/
example :
    (∃ fs1 l, maybeLoad (run Fs.empty [.mk 0, .legacy 0 9]).1 0 = (fs1, .ok l) ∧ l.warn = .migrated) ∧
    (∃ fs1 l, maybeLoad (run Fs.empty [.mk 0, .loadC 0, .cp 0 1]).1 1 = (fs1, .ok l) ∧ l.warn = .copied) ∧
    (∃ fs1 l, maybeLoad (run Fs.empty [.mk 0, .loadC 0, .rmConf 0]).1 0 = (fs1, .ok l) ∧ l.warn = .notFound) :=
  ⟨⟨_, _, rfl, rfl⟩, ⟨_, _, rfl, rfl⟩, ⟨_, _, rfl, rfl⟩⟩

end JjModel.C43
