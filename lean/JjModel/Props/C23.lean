import JjModel.Lemmas.WorkingCopy
/-!
  C23 — snapshots record exactly what is on disk.

  Theorems about `JjModel.WorkingCopy.snapshot` (the definitions the driver runs).  The disk is any
  finite map satisfying `WFDisk` (the ancestors of an entry are directories — what a file system
  guarantees); tree, file-state key set, sparse patterns and ignore decisions are arbitrary.
  Not modelled (assumptions in props/C23.json): the stat-based clean test (C26), how ignore
  decisions are computed (C28), real `stat`/`readdir` behaviour, nested `.jj`/`.git` directories.
-/
namespace JjModel.C23
open JjModel.WorkingCopy

theorem between_root {p a : Path} : Between [] p a ↔ Ancestor a p := by
  simp only [Between, Ancestor, List.nil_append, List.nil_prefix, true_and]
  constructor
  · intro ⟨h1, h2, h3⟩; exact ⟨h2, h3, h1⟩
  · intro ⟨h1, h2, h3⟩; exact ⟨h3, h1, h2⟩

/-- a `record` decision is only ever taken for a file or symlink that is on disk -/
theorem record_is_leaf {wc : WC} {disk : Disk} {ign : Path → Bool} {p : Path} {v : TreeValue}
    (h : decideAt wc disk ign p = .record v) : ∃ e, get disk p = some e ∧ e ≠ .dir := by
  unfold decideAt at h
  cases hm : descend disk ign wc.sparse [] p <;> simp only [hm] at h
  · -- full
    cases hd : get disk p with
    | none => simp [hd] at h; split at h <;> simp at h
    | some e =>
      cases e with
      | dir => simp [hd] at h; split at h <;> simp at h
      | file c x => exact ⟨_, rfl, by simp⟩
      | symlink t => exact ⟨_, rfl, by simp⟩
  · -- ignored
    cases hd : get disk p with
    | none => simp [hd] at h; split at h <;> simp at h
    | some e =>
      cases e with
      | dir => simp [hd, valueOf] at h; split at h <;> simp at h
      | file c x => exact ⟨_, rfl, by simp⟩
      | symlink t => exact ⟨_, rfl, by simp⟩
  · simp at h
  · split at h <;> simp at h

/-- on a well-formed disk nothing is recorded strictly below a path that is not a directory -/
theorem no_record_below {wc : WC} {disk : Disk} {ign : Path → Bool} {q : Path}
    (hwf : WFDisk disk) (hq : q ≠ []) (hnd : get disk q ≠ some .dir) :
    ∀ p v, decideAt wc disk ign p = .record v → p ≠ q → ¬ q <+: p := by
  intro p v hr hpq hpre
  obtain ⟨e, he, _⟩ := record_is_leaf hr
  exact hnd (hwf p e q he ⟨hq, fun e => hpq e.symm, hpre⟩)

theorem valueOf_leaf (cur : Option TreeValue) {e : Entry} (h : e ≠ .dir) : ∃ v, valueOf cur e = some v := by
  cases e with
  | dir => exact absurd rfl h
  | symlink t => exact ⟨_, rfl⟩
  | file c x =>
    cases cur with
    | none => exact ⟨_, rfl⟩
    | some w =>
      cases w with
      | file _ _ => exact ⟨_, rfl⟩
      | symlink _ => exact ⟨_, rfl⟩
      | conflict id mat cx =>
        by_cases hc : c = mat
        · exact ⟨.conflict id mat cx, by simp [valueOf, hc]⟩
        · exact ⟨.file c x, by simp [valueOf, hc]⟩

theorem mem_candidates_of_leaf {wc : WC} {disk : Disk} {p : Path} {e : Entry}
    (hd : get disk p = some e) (hne : e ≠ .dir) : p ∈ candidates wc disk := by
  unfold candidates
  apply List.mem_append_left
  refine List.mem_map.mpr ⟨(p, e), ?_, rfl⟩
  exact List.mem_filter.mpr ⟨get_some_mem hd, by simpa using hne⟩

theorem mem_candidates_of_tracked {wc : WC} {disk : Disk} {p : Path} (h : p ∈ wc.states) :
    p ∈ candidates wc disk := List.mem_append_right _ h

/-! ### decisions -/

theorem decide_tracked_leaf {wc : WC} {disk : Disk} {ign : Path → Bool} {p : Path} {e : Entry}
    (hwf : WFDisk disk) (htr : p ∈ wc.states) (hsp : sparseMatch wc.sparse p = true)
    (hd : get disk p = some e) (hne : e ≠ .dir) :
    ∃ v, valueOf (get wc.tree p) e = some v ∧ decideAt wc disk ign p = .record v := by
  obtain ⟨v, hv⟩ := valueOf_leaf (get wc.tree p) hne
  refine ⟨v, hv, ?_⟩
  have hb := descend_not_blocked disk ign wc.sparse [] p
    (fun a ha => hwf p e a hd (between_root.mp ha))
  have hh := descend_not_hidden disk ign wc.sparse [] p (by simpa using hsp)
  unfold decideAt
  cases hm : descend disk ign wc.sparse [] p
  · cases e with
    | dir => exact absurd rfl hne
    | file c x => simp [hd, hsp, htr, hv]
    | symlink t => simp [hd, hsp, htr, hv]
  · simp [hd, hsp, htr, hv]
  · exact absurd hm hh
  · exact absurd hm hb

theorem decide_new_leaf {wc : WC} {disk : Disk} {ign : Path → Bool} {p : Path} {e : Entry}
    (hwf : WFDisk disk) (hsp : sparseMatch wc.sparse p = true)
    (hd : get disk p = some e) (hne : e ≠ .dir)
    (hni : ign p = false) (hnia : ∀ a, Ancestor a p → ign a = false) :
    ∃ v, valueOf (get wc.tree p) e = some v ∧ decideAt wc disk ign p = .record v := by
  obtain ⟨v, hv⟩ := valueOf_leaf (get wc.tree p) hne
  refine ⟨v, hv, ?_⟩
  have hf := descend_full disk ign wc.sparse [] p
    (fun a ha => hwf p e a hd (between_root.mp ha)) (fun a ha => hnia a (between_root.mp ha))
    (by simpa using hsp)
  unfold decideAt
  cases e with
  | dir => exact absurd rfl hne
  | file c x => simp [hf, hd, hsp, hni, hv]
  | symlink t => simp [hf, hd, hsp, hni, hv]

theorem decide_missing {wc : WC} {disk : Disk} {ign : Path → Bool} {p : Path}
    (htr : p ∈ wc.states) (hsp : sparseMatch wc.sparse p = true)
    (hd : get disk p = none ∨ get disk p = some .dir) :
    decideAt wc disk ign p = .delete := by
  have hh := descend_not_hidden disk ign wc.sparse [] p (by simpa using hsp)
  unfold decideAt
  cases hm : descend disk ign wc.sparse [] p
  · rcases hd with hd | hd <;> simp [hd, hsp, htr]
  · rcases hd with hd | hd <;> simp [hd, hsp, htr, valueOf]
  · exact absurd hm hh
  · simp [hsp, htr]

theorem decide_outside_sparse {wc : WC} {disk : Disk} {ign : Path → Bool} {p : Path}
    (hsp : sparseMatch wc.sparse p = false) : decideAt wc disk ign p = .keep := by
  unfold decideAt
  cases hm : descend disk ign wc.sparse [] p
  · cases hd : get disk p with
    | none => simp [hsp]
    | some e => cases e <;> simp [hsp]
  · simp [hsp]
  · rfl
  · simp [hsp]

theorem decide_untracked_ignored {wc : WC} {disk : Disk} {ign : Path → Bool} {p : Path}
    (hnt : p ∉ wc.states)
    (hi : ign p = true ∨ ∃ a, Ancestor a p ∧ ign a = true) :
    decideAt wc disk ign p = .keep := by
  unfold decideAt
  cases hm : descend disk ign wc.sparse [] p
  · rcases hi with hi | ⟨a, ha, hia⟩
    · cases hd : get disk p with
      | none => simp [hnt]
      | some e => cases e <;> simp [hnt, hi]
    · exact absurd hm (descend_ne_full_of_ignored disk ign wc.sparse [] p a (between_root.mpr ha) hia)
  · simp [hnt]
  · rfl
  · simp [hnt]

/-! ### the property -/

/-- **C23, tracked paths**: a path that has a file state, lies within the sparse patterns and is a
file or symlink on disk gets the disk's content / executable bit / link target — whether or not it
is ignored (`visit_tracked_files` covers ignored directories). -/
theorem snapshot_records_tracked {wc : WC} {disk : Disk} {ign : Path → Bool} {p : Path} {e : Entry}
    (hwf : WFDisk disk) (hp : p ≠ []) (htr : p ∈ wc.states) (hsp : sparseMatch wc.sparse p = true)
    (hd : get disk p = some e) (hne : e ≠ .dir) :
    get (snapshot wc disk ign).tree p = valueOf (get wc.tree p) e ∧ p ∈ (snapshot wc disk ign).states := by
  obtain ⟨v, hv, hdec⟩ := decide_tracked_leaf (ign := ign) hwf htr hsp hd hne
  have hnd : get disk p ≠ some .dir := by rw [hd]; simpa using hne
  constructor
  · simp only [snapshot]
    rw [fold_tree_get wc disk ign p (no_record_below hwf hp hnd)]
    simp [mem_candidates_of_leaf hd hne, hdec, decTree, hv]
  · simp only [snapshot]
    rw [fold_states_mem]
    simp [mem_candidates_of_leaf hd hne, hdec, decState]

/-- **C23, new paths**: an untracked file or symlink within the patterns that is not ignored (nor is
any directory above it) is recorded with the disk's content / executable bit / link target. -/
theorem snapshot_records_new {wc : WC} {disk : Disk} {ign : Path → Bool} {p : Path} {e : Entry}
    (hwf : WFDisk disk) (hp : p ≠ []) (hsp : sparseMatch wc.sparse p = true)
    (hd : get disk p = some e) (hne : e ≠ .dir)
    (hni : ign p = false) (hnia : ∀ a, Ancestor a p → ign a = false) :
    get (snapshot wc disk ign).tree p = valueOf (get wc.tree p) e ∧ p ∈ (snapshot wc disk ign).states := by
  obtain ⟨v, hv, hdec⟩ := decide_new_leaf (wc := wc) hwf hsp hd hne hni hnia
  have hnd : get disk p ≠ some .dir := by rw [hd]; simpa using hne
  constructor
  · simp only [snapshot]
    rw [fold_tree_get wc disk ign p (no_record_below hwf hp hnd)]
    simp [mem_candidates_of_leaf hd hne, hdec, decTree, hv]
  · simp only [snapshot]
    rw [fold_states_mem]
    simp [mem_candidates_of_leaf hd hne, hdec, decState]

/-- **C23, removed paths**: a tracked path within the patterns that is no longer a file or symlink
on disk (absent, or replaced by a directory) is removed from the tree and loses its file state. -/
theorem snapshot_removes_missing {wc : WC} {disk : Disk} {ign : Path → Bool} {p : Path}
    (htr : p ∈ wc.states) (hsp : sparseMatch wc.sparse p = true)
    (hd : get disk p = none ∨ get disk p = some .dir) :
    get (snapshot wc disk ign).tree p = none ∧ p ∉ (snapshot wc disk ign).states := by
  have hdec := decide_missing (ign := ign) htr hsp hd
  constructor
  · simp only [snapshot]
    exact fold_tree_delete wc disk ign p hdec _ _ (mem_candidates_of_tracked htr)
  · simp only [snapshot]
    rw [fold_states_mem]
    simp [mem_candidates_of_tracked htr, hdec, decState]

/-- **C23, ignored files**: an untracked file that is ignored, or lies below an ignored directory, is
not recorded: the tree keeps whatever it had at that path and no file state is created. -/
theorem snapshot_skips_untracked_ignored {wc : WC} {disk : Disk} {ign : Path → Bool} {p : Path} {e : Entry}
    (hwf : WFDisk disk) (hp : p ≠ []) (hnt : p ∉ wc.states)
    (hd : get disk p = some e) (hne : e ≠ .dir)
    (hi : ign p = true ∨ ∃ a, Ancestor a p ∧ ign a = true) :
    get (snapshot wc disk ign).tree p = get wc.tree p ∧ p ∉ (snapshot wc disk ign).states := by
  have hdec := decide_untracked_ignored (wc := wc) (disk := disk) hnt hi
  have hnd : get disk p ≠ some .dir := by rw [hd]; simpa using hne
  constructor
  · simp only [snapshot]
    rw [fold_tree_get wc disk ign p (no_record_below hwf hp hnd)]
    simp [hdec, decTree]
  · simp only [snapshot]
    rw [fold_states_mem]
    simp [hdec, decState, hnt]

/-- the four clauses together, in the wording of the property -/
theorem snapshot_records_disk {wc : WC} {disk : Disk} {ign : Path → Bool} (hwf : WFDisk disk)
    {p : Path} (hp : p ≠ []) (hsp : sparseMatch wc.sparse p = true) :
    (∀ e, get disk p = some e → e ≠ .dir →
        (p ∈ wc.states ∨ (ign p = false ∧ ∀ a, Ancestor a p → ign a = false)) →
        get (snapshot wc disk ign).tree p = valueOf (get wc.tree p) e) ∧
    (p ∈ wc.states → (get disk p = none ∨ get disk p = some .dir) →
        get (snapshot wc disk ign).tree p = none) ∧
    (∀ e, get disk p = some e → e ≠ .dir → p ∉ wc.states →
        (ign p = true ∨ ∃ a, Ancestor a p ∧ ign a = true) →
        get (snapshot wc disk ign).tree p = get wc.tree p) := by
  refine ⟨?_, ?_, ?_⟩
  · intro e hd hne h
    rcases h with h | ⟨h1, h2⟩
    · exact (snapshot_records_tracked hwf hp h hsp hd hne).1
    · exact (snapshot_records_new hwf hp hsp hd hne h1 h2).1
  · intro htr hd
    exact (snapshot_removes_missing htr hsp hd).1
  · intro e hd hne hnt hi
    exact (snapshot_skips_untracked_ignored hwf hp hnt hd hne hi).1

/-- **file → directory**: a tracked file replaced by a directory holding a new, not ignored file:
the old entry goes, the new one is added. -/
theorem file_dir_swap_to_dir {wc : WC} {disk : Disk} {ign : Path → Bool} {d : Path} {c : String} {e : Entry}
    (hwf : WFDisk disk) (htr : d ∈ wc.states) (hsp : sparseMatch wc.sparse d = true)
    (hspc : sparseMatch wc.sparse (d ++ [c]) = true)
    (hd : get disk d = some .dir) (hc : get disk (d ++ [c]) = some e) (hne : e ≠ .dir)
    (hni : ign (d ++ [c]) = false) (hnia : ∀ a, Ancestor a (d ++ [c]) → ign a = false) :
    get (snapshot wc disk ign).tree d = none ∧
    get (snapshot wc disk ign).tree (d ++ [c]) = valueOf (get wc.tree (d ++ [c])) e :=
  ⟨(snapshot_removes_missing htr hsp (Or.inr hd)).1,
   (snapshot_records_new hwf (by simp) hspc hc hne hni hnia).1⟩

/-- **directory → file**: a tracked file `d/c` whose directory `d` was replaced by a (not ignored)
file or symlink: `d/c` goes, `d` is added. -/
theorem file_dir_swap_to_file {wc : WC} {disk : Disk} {ign : Path → Bool} {d : Path} {c : String} {e : Entry}
    (hwf : WFDisk disk) (hdne : d ≠ []) (htr : d ++ [c] ∈ wc.states)
    (hsp : sparseMatch wc.sparse d = true) (hspc : sparseMatch wc.sparse (d ++ [c]) = true)
    (hd : get disk d = some e) (hne : e ≠ .dir)
    (hni : ign d = false) (hnia : ∀ a, Ancestor a d → ign a = false) :
    get (snapshot wc disk ign).tree (d ++ [c]) = none ∧
    get (snapshot wc disk ign).tree d = valueOf (get wc.tree d) e := by
  have hnone : get disk (d ++ [c]) = none := by
    cases h : get disk (d ++ [c]) with
    | none => rfl
    | some x =>
      have := hwf (d ++ [c]) x d h ⟨hdne, by simp, List.prefix_append _ _⟩
      rw [hd] at this
      exact absurd (Option.some.inj this) hne
  exact ⟨(snapshot_removes_missing htr hspc (Or.inl hnone)).1,
         (snapshot_records_new hwf hdne hsp hd hne hni hnia).1⟩

/-! ### non-vacuity: concrete instances (also regression values for the driver) -/

def exDisk : Disk :=
  [(["d"], .dir), (["d", "x"], .file "61" false), (["f"], .symlink "66"), (["ig"], .dir), (["ig", "a"], .file "62" true)]
def exWC : WC := { tree := [(["d"], .file "63" false), (["ig", "a"], .file "60" false), (["gone"], .file "64" false)],
                   states := [["d"], ["ig", "a"], ["gone"]], sparse := [[]] }
def exIgn : Path → Bool := fun p => p = ["ig"]

example : WFDisk exDisk := wfDisk_of_check (by decide)
/-- tracked file replaced by a directory, new file inside, tracked file in an ignored directory
updated, missing file removed, new symlink recorded -/
example : let t := (snapshot exWC exDisk exIgn).tree
    get t ["d"] = none ∧ get t ["d", "x"] = some (.file "61" false) ∧ get t ["f"] = some (.symlink "66") ∧
    get t ["ig", "a"] = some (.file "62" true) ∧ get t ["gone"] = none := by decide
/-- an untracked file below an ignored directory is not added -/
example : get (snapshot { exWC with states := [["d"]] , tree := [(["d"], .file "63" false)] } exDisk exIgn).tree ["ig", "a"] = none := by
  decide

end JjModel.C23
