import JjModel.Model.SecureConfig
/-! Helper lemmas for C43: ids, paths, `resolve`, and the post-conditions of the writing helpers. -/
namespace JjModel.SecureConfig
open JjModel.Generated.Secure

/-! ### ids and paths -/

theorem hexChar_isHex (n : Nat) : isHexDigit (hexChar n) = true := by
  have h : ∀ m, m < 16 → isHexDigit (hexDigits.getD m '0') = true := by decide
  exact h _ (Nat.mod_lt _ (by decide))

theorem genId_valid (k : Nat) : validId (genId k) = true := by
  simp [validId, genId, CONFIG_ID_BYTES, hexChar_isHex]
  decide

theorem splitOn_no_sep (sep : Char) (s : Str) (h : sep ∉ s) : splitOn sep s = [s] := by
  induction s with
  | nil => rfl
  | cons c cs ih =>
    have hc : c ≠ sep := fun e => h (by simp [e])
    have hcs : sep ∉ cs := fun m => h (by simp [m])
    simp [splitOn, hc, ih hcs]

theorem slash_not_hex : isHexDigit '/' = false := by decide

theorem validId_no_slash (s : Str) (h : validId s = true) : '/' ∉ s := by
  intro hm
  simp only [validId, Bool.and_eq_true, List.all_eq_true] at h
  have := h.2 _ hm
  simp [slash_not_hex] at this

theorem validId_length (s : Str) (h : validId s = true) : s.length = 20 := by
  simp only [validId, Bool.and_eq_true, beq_iff_eq, CONFIG_ID_BYTES] at h
  exact h.1

/-- a well-formed id is one normal path component: no separator, not empty, not `.`, not `..`,
    not absolute -/
theorem validId_components (s : Str) (h : validId s = true) :
    components s = [s] ∧ isAbsolute s = false ∧ s ≠ ['.', '.'] := by
  have hl := validId_length s h
  have hs := validId_no_slash s h
  refine ⟨?_, ?_, ?_⟩
  · have h1 : s ≠ [] := by intro e; simp [e] at hl
    have h2 : s ≠ ['.'] := by intro e; simp [e] at hl
    simp [components, splitOn_no_sep '/' s hs, h1, h2]
  · cases s with
    | nil => rfl
    | cons c cs =>
      have : c ≠ '/' := fun e => hs (by simp [e])
      simp [isAbsolute, this]
  · intro e; simp [e] at hl

theorem configFile_component : components CONFIG_FILE = [CONFIG_FILE] ∧ isAbsolute CONFIG_FILE = false := by
  decide

/-- for a well-formed id the joined path is exactly `root/<id>/config.toml` -/
theorem configPath_valid (s : Str) (h : validId s = true) : configPath s = root ++ [s, CONFIG_FILE] := by
  obtain ⟨hc, ha, _⟩ := validId_components s h
  simp [configPath, pjoin, hc, ha, configFile_component.1, configFile_component.2]

theorem configPath_inj (s t : Str) (hs : validId s = true) (ht : validId t = true)
    (h : configPath s = configPath t) : s = t := by
  rw [configPath_valid s hs, configPath_valid t ht] at h
  simpa using h

/-! ### resolve -/

theorem resolveAux_target_dir (repos : Nat → Entry) (fuel r t : Nat) (d : RepoDir)
    (h : resolveAux repos fuel r = some (t, d)) : repos t = .dir d := by
  induction fuel generalizing r with
  | zero => simp [resolveAux] at h
  | succ n ih =>
    simp only [resolveAux] at h
    split at h
    · simp at h
    · next d0 hr => simp at h; obtain ⟨rfl, rfl⟩ := h; exact hr
    · next t0 hr => exact ih _ h

theorem resolveAux_setRepo_target (repos : Nat → Entry) (fuel r t : Nat) (d d' : RepoDir)
    (h : resolveAux repos fuel r = some (t, d)) :
    resolveAux (fun k => if k = t then .dir d' else repos k) fuel r = some (t, d') := by
  induction fuel generalizing r with
  | zero => simp [resolveAux] at h
  | succ n ih =>
    have htd := resolveAux_target_dir _ _ _ _ _ h
    simp only [resolveAux] at h ⊢
    split at h
    · simp at h
    · next d0 hr =>
      simp at h; obtain ⟨rfl, rfl⟩ := h
      simp
    · next t0 hr =>
      have hne : r ≠ t := by intro e; rw [e, htd] at hr; cases hr
      simp [hne, hr, ih _ h]

theorem resolve_setRepo_target (fs : Fs) (r t : Nat) (d d' : RepoDir) (h : resolve fs r = some (t, d)) :
    resolve (setRepo fs t (.dir d')) r = some (t, d') :=
  resolveAux_setRepo_target _ _ _ _ _ _ h

theorem resolve_setConf (fs : Fs) (id : Str) (c : Option ConfDir) (r : Nat) :
    resolve (setConf fs id c) r = resolve fs r := rfl

theorem resolve_next (fs : Fs) (n : Nat) (r : Nat) : resolve { fs with next := n } r = resolve fs r := rfl

theorem resolve_of_dir (fs : Fs) (r : Nat) (d : RepoDir) (h : fs.repos r = .dir d) : resolve fs r = some (r, d) := by
  simp [resolve, resolveAux, h]

theorem resolve_of_absent (fs : Fs) (r : Nat) (h : fs.repos r = .absent) : resolve fs r = none := by
  simp [resolve, resolveAux, h]

/-! ### post-conditions -/

theorem writeId_post (fs fs' : Fs) (r : Nat) (id : Str) (h : writeId fs r id = some fs') :
    readId fs' r = .text id ∧ fs'.confs = fs.confs ∧ fs'.next = fs.next ∧ canWrite fs r = true := by
  unfold writeId at h
  split at h
  · next t d hres =>
    split at h
    · next hw =>
      simp at h; subst h
      refine ⟨?_, rfl, rfl, ?_⟩
      · simp [readId, resolve_setRepo_target fs r t d _ hres]
      · simp [canWrite, hres, hw]
    · simp at h
  · simp at h

/-- what a successful `generate_config` leaves behind -/
theorem generateConfig_ok (fs fs' : Fs) (r : Nat) (id : Str) (content md : Option Nat) (p : List Str)
    (h : generateConfig fs r id content md = (fs', .ok p)) :
    p = configPath id ∧ readId fs' r = .text id ∧ fs'.next = fs.next ∧
      fs'.confs id = some ⟨some md, keptConfig (fs.confs id) content⟩ ∧ (∀ k, k ≠ id → fs'.confs k = fs.confs k) := by
  unfold generateConfig at h
  simp only at h
  split at h
  · next fs2 hw =>
    simp at h; obtain ⟨rfl, rfl⟩ := h
    obtain ⟨h1, h2, h3, _⟩ := writeId_post _ _ _ _ hw
    refine ⟨rfl, h1, by simpa [setConf] using h3,
      by rw [h2]; simp [setConf], ?_⟩
    intro k hk; rw [h2]; simp [setConf, hk]
  · simp at h

theorem setLegacy_post (fs : Fs) (r : Nat) (l : Legacy) :
    readId (setLegacy fs r l) r = readId fs r ∧ (setLegacy fs r l).confs = fs.confs ∧
      (setLegacy fs r l).next = fs.next := by
  unfold setLegacy
  split
  · next t d hres =>
    refine ⟨?_, rfl, rfl⟩
    simp [readId, resolve_setRepo_target fs r t d _ hres, hres]
  · exact ⟨rfl, rfl, rfl⟩

end JjModel.SecureConfig
