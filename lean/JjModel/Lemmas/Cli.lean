import JjModel.Model.Cli
/-!
  Lemmas about the command protocol model `Model/Cli.lean` (core Lean only): the operation log is
  append-only, every phase before the checkout publishes operations only, and after the snapshot
  phase some operation that is already published records the disk state.
-/
namespace JjModel.Cli

/-- an event that is not a file write -/
def Event.isPublish : Event → Bool
  | .publish _ _ => true
  | .write _ _ => false

def PublishOnly (l : List Event) : Prop := ∀ e ∈ l, e.isPublish = true

theorem PublishOnly.nil : PublishOnly [] := by intro e he; cases he

theorem PublishOnly.append {a b : List Event} (ha : PublishOnly a) (hb : PublishOnly b) :
    PublishOnly (a ++ b) := by
  intro e he
  rcases List.mem_append.mp he with h | h
  · exact ha e h
  · exact hb e h

theorem PublishOnly.single (id : OpId) (k : OpKind) : PublishOnly [.publish id k] := by
  intro e he; simp at he; subst he; rfl

/-- If publish-only events followed by at most one write contain a write, it is that one. -/
theorem split_write {A B pre post : List Event} {w : Ws} {d : T} (hA : PublishOnly A)
    (hB : B = [] ∨ ∃ w' d', B = [.write w' d'])
    (h : A ++ B = pre ++ .write w d :: post) : pre = A ∧ B = [.write w d] ∧ post = [] := by
  induction A generalizing pre with
  | nil =>
    simp only [List.nil_append] at h
    rcases hB with rfl | ⟨w', d', rfl⟩
    · cases pre <;> simp at h
    · cases pre with
      | nil =>
        simp only [List.nil_append, List.cons.injEq] at h
        obtain ⟨h1, h2⟩ := h
        exact ⟨rfl, by rw [h1], h2.symm⟩
      | cons x xs =>
        simp only [List.cons_append, List.cons.injEq] at h
        obtain ⟨_, h2⟩ := h
        cases xs <;> simp at h2
  | cons a rest ih =>
    cases pre with
    | nil =>
      simp only [List.cons_append, List.nil_append, List.cons.injEq] at h
      have := hA a (by simp)
      rw [h.1] at this
      cases this
    | cons x xs =>
      simp only [List.cons_append, List.cons.injEq] at h
      obtain ⟨h1, h2⟩ := h
      have := ih (fun e he => hA e (by simp [he])) h2
      exact ⟨by rw [h1, this.1], this.2.1, this.2.2⟩

theorem no_write_of_publishOnly {A pre post : List Event} {w : Ws} {d : T} (hA : PublishOnly A)
    (h : A = pre ++ .write w d :: post) : False := by
  have := hA (.write w d) (by rw [h]; simp)
  cases this

/-! ### lookup / update -/

theorem lookup_update_same {α : Type} (l : List (Nat × α)) (k : Nat) (v : α) :
    lookup (update l k v) k = some v := by
  induction l with
  | nil => simp [update, lookup]
  | cons p rest ih =>
    obtain ⟨k', v'⟩ := p
    simp only [update]
    split
    · simp [lookup]
    · rename_i hne
      simp [lookup, hne, ih]

theorem lookup_update_other {α : Type} (l : List (Nat × α)) (k k2 : Nat) (v : α) (h : k2 ≠ k) :
    lookup (update l k v) k2 = lookup l k2 := by
  induction l with
  | nil => simp [update, lookup, Ne.symm h]
  | cons p rest ih =>
    obtain ⟨k', v'⟩ := p
    simp only [update]
    split
    · rename_i he
      subst he
      simp [lookup, Ne.symm h]
    · simp only [lookup, ih]

/-! ### the log is append-only -/

/-- `s'` extends the log of `s` -/
def Extends (s s' : State) : Prop := ∃ l, s'.ops = s.ops ++ l

theorem Extends.refl (s : State) : Extends s s := ⟨[], by simp⟩

theorem Extends.trans {a b c : State} (h1 : Extends a b) (h2 : Extends b c) : Extends a c := by
  obtain ⟨l1, h1⟩ := h1
  obtain ⟨l2, h2⟩ := h2
  exact ⟨l1 ++ l2, by rw [h2, h1, List.append_assoc]⟩

theorem Extends.len {a b : State} (h : Extends a b) : a.ops.length ≤ b.ops.length := by
  obtain ⟨l, h⟩ := h
  rw [h, List.length_append]; omega

theorem Extends.viewAt {a b : State} (h : Extends a b) (id : OpId) (hid : id < a.ops.length) :
    viewAt b id = viewAt a id := by
  obtain ⟨l, h⟩ := h
  simp only [JjModel.Cli.viewAt, opAt, h, List.getElem?_append_left hid]

theorem setWs_extends (s : State) (ws : Ws) (w : WsState) : Extends s (setWs s ws w) := ⟨[], by simp [setWs]⟩

theorem setWs_ops (s : State) (ws : Ws) (w : WsState) : (setWs s ws w).ops = s.ops := rfl

theorem publish_ops (s : State) (ps : List OpId) (v : View) :
    (publish s ps v).1.ops = s.ops ++ [{ parents := ps, view := v }] ∧ (publish s ps v).2 = s.ops.length := by
  simp [publish]

theorem publish_extends (s : State) (ps : List OpId) (v : View) : Extends s (publish s ps v).1 :=
  ⟨_, (publish_ops s ps v).1⟩

theorem publish_wss (s : State) (ps : List OpId) (v : View) : (publish s ps v).1.wss = s.wss := rfl

theorem viewAt_publish_new (s : State) (ps : List OpId) (v : View) :
    viewAt (publish s ps v).1 s.ops.length = v := by
  simp [viewAt, opAt, publish]

/-- a position in the extended log is either old or one of the published ids -/
def Known (s : State) (pre : List Event) (id : OpId) : Prop :=
  id < s.ops.length ∨ ∃ k, Event.publish id k ∈ pre

theorem Known.mono {s : State} {pre pre' : List Event} {id : OpId} (h : Known s pre id)
    (hs : ∀ e ∈ pre, e ∈ pre') : Known s pre' id := by
  rcases h with h | ⟨k, hk⟩
  · exact Or.inl h
  · exact Or.inr ⟨k, hs _ hk⟩

/-! ### phases -/

theorem loadHead_spec (s : State) (mv : View) (ld : Phase) (h : loadHead s mv = some ld) :
    Extends s ld.state ∧ ld.state.wss = s.wss ∧ PublishOnly ld.events ∧
      (∀ id, id < ld.state.ops.length → Known s ld.events id) := by
  unfold loadHead at h
  split at h
  · cases h
  · injection h with h
    subst h
    exact ⟨Extends.refl _, rfl, PublishOnly.nil, fun id hid => Or.inl hid⟩
  · rename_i hs _ _
    injection h with h
    subst h
    refine ⟨publish_extends _ _ _, rfl, PublishOnly.single _ _, ?_⟩
    intro id hid
    simp only [publish, List.length_append, List.length_singleton] at hid
    by_cases hlt : id < s.ops.length
    · exact Or.inl hlt
    · have : id = s.ops.length := by omega
      right
      exact ⟨.merge, by simp [this, publish]⟩

theorem runTx_spec (s : State) (cur : OpId) (tv : Option View) :
    Extends s (runTx s cur tv).state ∧ (runTx s cur tv).state.wss = s.wss ∧
      PublishOnly (runTx s cur tv).events := by
  unfold runTx
  cases tv with
  | none => exact ⟨Extends.refl _, rfl, PublishOnly.nil⟩
  | some v => exact ⟨publish_extends _ _ _, rfl, PublishOnly.single _ _⟩

theorem viewAt_some_lt (s : State) (cur : OpId) (ws : Ws) (t : T)
    (h : lookup (viewAt s cur) ws = some t) : cur < s.ops.length := by
  by_cases hc : cur < s.ops.length
  · exact hc
  · have hn : s.ops[cur]? = none := List.getElem?_eq_none (Nat.le_of_not_lt hc)
    simp [viewAt, opAt, hn, lookup] at h

theorem snapshotAt_eq (s : State) (ws : Ws) (w : WsState) (cur : OpId)
    (h : lookup (viewAt s cur) ws = some w.disk) :
    snapshotAt s ws w cur =
      ({ state := s, events := [], cur := cur }, { w with tree := w.disk, op := cur }) := by
  simp [snapshotAt, h]

theorem snapshotAt_ne (s : State) (ws : Ws) (w : WsState) (cur : OpId)
    (h : lookup (viewAt s cur) ws ≠ some w.disk) :
    snapshotAt s ws w cur =
      ({ state := (publish s [cur] (update (viewAt s cur) ws w.disk)).1,
         events := [.publish s.ops.length .snapshot], cur := s.ops.length },
        { w with tree := w.disk, op := s.ops.length }) := by
  simp [snapshotAt, h, publish]

/-- After the snapshot phase an operation of the (extended) log records the disk state: either
the operation the repo was loaded at, or the freshly published snapshot operation. -/
theorem snapshotAt_spec (s : State) (ws : Ws) (w : WsState) (cur : OpId) :
    Extends s (snapshotAt s ws w cur).1.state ∧ (snapshotAt s ws w cur).1.state.wss = s.wss ∧
      PublishOnly (snapshotAt s ws w cur).1.events ∧
      (snapshotAt s ws w cur).2.disk = w.disk ∧ (snapshotAt s ws w cur).2.tree = w.disk ∧
      ∃ id, id < (snapshotAt s ws w cur).1.state.ops.length ∧
        (id < s.ops.length ∨ Event.publish id .snapshot ∈ (snapshotAt s ws w cur).1.events) ∧
        lookup (viewAt (snapshotAt s ws w cur).1.state id) ws = some w.disk := by
  by_cases h : lookup (viewAt s cur) ws = some w.disk
  · rw [snapshotAt_eq s ws w cur h]
    have hlt := viewAt_some_lt s cur ws w.disk h
    exact ⟨Extends.refl _, rfl, PublishOnly.nil, rfl, rfl, cur, hlt, Or.inl hlt, h⟩
  · rw [snapshotAt_ne s ws w cur h]
    refine ⟨publish_extends _ _ _, rfl, PublishOnly.single _ _, rfl, rfl, s.ops.length, ?_, Or.inr ?_, ?_⟩
    · simp [publish]
    · simp
    · exact (viewAt_publish_new s [cur] _) ▸ lookup_update_same _ _ _

theorem checkout_spec (ws : Ws) (w : WsState) (t : T) (op : OpId) :
    (checkout ws w t op).2 = [] ∧ (checkout ws w t op).1.disk = w.disk ∨
      (checkout ws w t op).2 = [.write ws t] ∧ (checkout ws w t op).1.disk = t := by
  unfold checkout
  split
  · left; exact ⟨rfl, rfl⟩
  · right; exact ⟨rfl, rfl⟩

theorem checkout_events (ws : Ws) (w : WsState) (t : T) (op : OpId) :
    (checkout ws w t op).2 = [] ∨ ∃ w' d', (checkout ws w t op).2 = [.write w' d'] := by
  rcases checkout_spec ws w t op with h | h
  · exact Or.inl h.1
  · exact Or.inr ⟨ws, t, h.1⟩

theorem checkout_write_ws (ws : Ws) (w : WsState) (t : T) (op : OpId) (w' : Ws) (d' : T)
    (h : (checkout ws w t op).2 = [.write w' d']) : w' = ws := by
  rcases checkout_spec ws w t op with h0 | h0
  · rw [h0.1] at h; cases h
  · rw [h0.1] at h; injection h with h; injection h with h; exact h.symm

end JjModel.Cli
