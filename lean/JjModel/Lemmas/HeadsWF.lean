import JjModel.Lemmas.Heads
/-! Well-formedness of the index tables of `Model/Heads.lean` (`WF`) and its preservation by `pushCommit`. -/
namespace JjModel.Heads

theorem getD_append_singleton {α : Type} (l : List α) (x d : α) (i : Nat) :
    (l ++ [x]).getD i d = if i < l.length then l.getD i d else if i = l.length then x else d := by
  simp only [List.getD_eq_getElem?_getD]
  by_cases h : i < l.length
  · simp [h, List.getElem?_append_left h]
  · by_cases h2 : i = l.length
    · subst h2; simp
    · have : l.length + 1 ≤ i := by omega
      simp [h, h2, this]

theorem getD_nil_of_le {α : Type} (l : List α) (d : α) (i : Nat) (h : l.length ≤ i) : l.getD i d = d := by
  simp [List.getD_eq_getElem?_getD, List.getElem?_eq_none h]

/-- the index tables describe the ancestor relation of the commit table -/
structure WF (r : Repo) : Prop where
  size_pos : 0 < r.size
  sizes : r.ancs.length = r.parents.length
  self_mem : ∀ c, c < r.size → c ∈ r.ancs.getD c []
  row_range : ∀ c a, a ∈ r.ancs.getD c [] → a < r.size
  root_mem : ∀ c, c < r.size → 0 ∈ r.ancs.getD c []
  par_range : ∀ c p, p ∈ r.parentsOf c → p < r.size ∧ p ≠ c
  par_nonempty : ∀ c, 0 < c → c < r.size → r.parentsOf c ≠ []
  row_spec : ∀ c, c < r.size → ∀ x, x ∈ r.ancs.getD c [] ↔ x = c ∨ ∃ p ∈ r.parentsOf c, x ∈ r.ancs.getD p []
  row_trans : ∀ a b c, a ∈ r.ancs.getD b [] → b ∈ r.ancs.getD c [] → a ∈ r.ancs.getD c []
  row_antisymm : ∀ a b, a ∈ r.ancs.getD b [] → b ∈ r.ancs.getD a [] → a = b

theorem isAnc_iff (r : Repo) (a b : Nat) : r.isAnc a b = true ↔ a = b ∨ a ∈ r.ancs.getD b [] := by
  simp [Repo.isAnc]

theorem WF.po {r : Repo} (w : WF r) : PO r.isAnc where
  refl a := by simp [Repo.isAnc]
  trans a b c h1 h2 := by
    rw [isAnc_iff] at *
    rcases h1 with rfl | h1
    · exact h2
    · rcases h2 with rfl | h2
      · exact Or.inr h1
      · exact Or.inr (w.row_trans a b c h1 h2)
  antisymm a b h1 h2 := by
    rw [isAnc_iff] at *
    rcases h1 with rfl | h1
    · rfl
    · rcases h2 with rfl | h2
      · rfl
      · exact w.row_antisymm a b h1 h2

theorem WF.root_anc {r : Repo} (w : WF r) (x : Nat) (hx : x < r.size) : r.isAnc 0 x = true :=
  (isAnc_iff r 0 x).mpr (Or.inr (w.root_mem x hx))

theorem WF.anc_range {r : Repo} (w : WF r) (a b : Nat) (h : r.isAnc a b = true) (hb : b < r.size) : a < r.size := by
  rcases (isAnc_iff r a b).mp h with rfl | h
  · exact hb
  · exact w.row_range b a h

theorem WF.anc_parents {r : Repo} (w : WF r) (c : Nat) (hc : c < r.size) (x : Nat) :
    r.isAnc x c = true ↔ x = c ∨ ∃ p ∈ r.parentsOf c, r.isAnc x p = true := by
  rw [isAnc_iff, w.row_spec c hc]
  constructor
  · rintro (rfl | rfl | ⟨p, hp, hxp⟩)
    · exact Or.inl rfl
    · exact Or.inl rfl
    · exact Or.inr ⟨p, hp, (isAnc_iff r x p).mpr (Or.inr hxp)⟩
  · rintro (rfl | ⟨p, hp, hxp⟩)
    · exact Or.inl rfl
    · right; right
      refine ⟨p, hp, ?_⟩
      rcases (isAnc_iff r x p).mp hxp with rfl | h
      · exact w.self_mem x (w.par_range c x hp).1
      · exact h

theorem WF.parent_strict {r : Repo} (w : WF r) (c : Nat) (hc : c < r.size) (p : Nat) (hp : p ∈ r.parentsOf c) :
    r.isAnc c p = false := by
  cases h : r.isAnc c p
  · rfl
  · have hpc : r.isAnc p c = true := (w.anc_parents c hc p).mpr (Or.inr ⟨p, hp, w.po.refl p⟩)
    exact absurd (w.po.antisymm _ _ hpc h) (w.par_range c p hp).2


theorem mem_setUnion (s t : List Nat) (y : Nat) : y ∈ setUnion s t ↔ y ∈ s ∨ y ∈ t := by
  unfold setUnion
  induction t generalizing s with
  | nil => simp
  | cons a t ih => rw [List.foldl_cons, ih, mem_setInsert]; simp only [List.mem_cons]; grind

theorem mem_foldl_setUnion (f : Nat → List Nat) (ps s : List Nat) (y : Nat) :
    y ∈ ps.foldl (fun acc p => setUnion acc (f p)) s ↔ y ∈ s ∨ ∃ p ∈ ps, y ∈ f p := by
  induction ps generalizing s with
  | nil => simp
  | cons a ps ih =>
    rw [List.foldl_cons, ih, mem_setUnion]
    simp only [List.mem_cons, exists_eq_or_imp, or_assoc]

theorem pushCommit_size (r : Repo) (ps : List Nat) (d : Bool) : (pushCommit r ps d).1.size = r.size + 1 := by
  simp [pushCommit, Repo.size]

theorem pushCommit_snd (r : Repo) (ps : List Nat) (d : Bool) : (pushCommit r ps d).2 = r.size := rfl

theorem pushCommit_parentsOf (r : Repo) (ps : List Nat) (d : Bool) (c : Nat) :
    (pushCommit r ps d).1.parentsOf c = if c < r.size then r.parentsOf c else if c = r.size then ps else [] := by
  show (r.parents ++ [ps]).getD c [] = _
  rw [getD_append_singleton]; rfl

theorem pushCommit_row (r : Repo) (w : WF r) (ps : List Nat) (d : Bool) (c : Nat) :
    (pushCommit r ps d).1.ancs.getD c [] =
      if c < r.size then r.ancs.getD c []
      else if c = r.size then ps.foldl (fun acc p => setUnion acc (r.ancs.getD p [])) [r.size] else [] := by
  show (r.ancs ++ [_]).getD c [] = _
  rw [getD_append_singleton, w.sizes]; rfl

theorem row_nil_of_ge (r : Repo) (w : WF r) (c : Nat) (h : r.size ≤ c) : r.ancs.getD c [] = [] :=
  getD_nil_of_le _ _ _ (by rw [w.sizes]; exact h)

theorem pushCommit_wf (r : Repo) (w : WF r) (ps : List Nat) (d : Bool) (hps : ps ≠ [])
    (hrange : ∀ p ∈ ps, p < r.size) : WF (pushCommit r ps d).1 := by
  have hsz := pushCommit_size r ps d
  have hrow := pushCommit_row r w ps d
  have hpar := pushCommit_parentsOf r ps d
  have hnew : ∀ y, y ∈ ps.foldl (fun acc p => setUnion acc (r.ancs.getD p [])) [r.size] ↔
      y = r.size ∨ ∃ p ∈ ps, y ∈ r.ancs.getD p [] := by
    intro y; rw [mem_foldl_setUnion]; simp
  -- membership in a row of the extended table
  have hmem : ∀ c y, y ∈ (pushCommit r ps d).1.ancs.getD c [] ↔
      (c < r.size ∧ y ∈ r.ancs.getD c []) ∨ (c = r.size ∧ (y = r.size ∨ ∃ p ∈ ps, y ∈ r.ancs.getD p [])) := by
    intro c y
    rw [hrow]
    by_cases h1 : c < r.size
    · rw [if_pos h1]
      constructor
      · exact fun h => Or.inl ⟨h1, h⟩
      · rintro (⟨_, h⟩ | ⟨h, _⟩)
        · exact h
        · omega
    · by_cases h2 : c = r.size
      · rw [if_neg h1, if_pos h2, hnew]
        constructor
        · exact fun h => Or.inr ⟨h2, h⟩
        · rintro (⟨h, _⟩ | ⟨_, h⟩)
          · omega
          · exact h
      · rw [if_neg h1, if_neg h2]
        constructor
        · intro h; cases h
        · rintro (⟨h, _⟩ | ⟨h, _⟩) <;> omega
  refine ⟨by omega, by simp [pushCommit, w.sizes], ?_, ?_, ?_, ?_, ?_, ?_, ?_, ?_⟩
  · intro c hc
    rw [hmem]
    by_cases h1 : c < r.size
    · exact Or.inl ⟨h1, w.self_mem c h1⟩
    · exact Or.inr ⟨by omega, Or.inl (by omega)⟩
  · intro c a ha
    rw [hmem] at ha
    rcases ha with ⟨_, h⟩ | ⟨_, rfl | ⟨p, _, h⟩⟩
    · have := w.row_range c a h; omega
    · omega
    · have := w.row_range p a h; omega
  · intro c hc
    rw [hmem]
    by_cases h1 : c < r.size
    · exact Or.inl ⟨h1, w.root_mem c h1⟩
    · obtain ⟨p, hp⟩ := List.exists_mem_of_ne_nil ps hps
      exact Or.inr ⟨by omega, Or.inr ⟨p, hp, w.root_mem p (hrange p hp)⟩⟩
  · intro c p hp
    rw [hpar] at hp
    by_cases h1 : c < r.size
    · rw [if_pos h1] at hp; have := w.par_range c p hp; omega
    · rw [if_neg h1] at hp
      by_cases h2 : c = r.size
      · rw [if_pos h2] at hp; have := hrange p hp; omega
      · rw [if_neg h2] at hp; cases hp
  · intro c hc0 hc
    rw [hpar]
    by_cases h1 : c < r.size
    · rw [if_pos h1]; exact w.par_nonempty c hc0 h1
    · rw [if_neg h1, if_pos (by omega)]; exact hps
  · intro c hc x
    rw [hmem, hpar]
    by_cases h1 : c < r.size
    · rw [if_pos h1]
      constructor
      · rintro (⟨_, h⟩ | ⟨h, _⟩)
        · rcases (w.row_spec c h1 x).mp h with h | ⟨p, hp, hxp⟩
          · exact Or.inl h
          · exact Or.inr ⟨p, hp, (hmem p x).mpr (Or.inl ⟨(w.par_range c p hp).1, hxp⟩)⟩
        · omega
      · intro h
        left; refine ⟨h1, (w.row_spec c h1 x).mpr ?_⟩
        rcases h with h | ⟨p, hp, hxp⟩
        · exact Or.inl h
        · refine Or.inr ⟨p, hp, ?_⟩
          rcases (hmem p x).mp hxp with ⟨_, h⟩ | ⟨h, _⟩
          · exact h
          · have := (w.par_range c p hp).1; omega
    · have h2 : c = r.size := by omega
      rw [if_neg h1, if_pos h2]
      constructor
      · rintro (⟨h, _⟩ | ⟨_, h | ⟨p, hp, hxp⟩⟩)
        · omega
        · exact Or.inl (by omega)
        · exact Or.inr ⟨p, hp, (hmem p x).mpr (Or.inl ⟨hrange p hp, hxp⟩)⟩
      · rintro (h | ⟨p, hp, hxp⟩)
        · exact Or.inr ⟨h2, Or.inl (by omega)⟩
        · refine Or.inr ⟨h2, Or.inr ⟨p, hp, ?_⟩⟩
          rcases (hmem p x).mp hxp with ⟨_, h⟩ | ⟨h, _⟩
          · exact h
          · have := hrange p hp; omega
  · intro a b c hab hbc
    rw [hmem] at hab hbc ⊢
    rcases hbc with ⟨hc, hbc⟩ | ⟨hc, rfl | ⟨p, hp, hbp⟩⟩
    · have hb : b < r.size := w.row_range c b hbc
      rcases hab with ⟨_, hab⟩ | ⟨h, _⟩
      · exact Or.inl ⟨hc, w.row_trans a b c hab hbc⟩
      · omega
    · rcases hab with ⟨h, _⟩ | ⟨_, hab⟩
      · omega
      · exact Or.inr ⟨hc, hab⟩
    · have hb : b < r.size := w.row_range p b hbp
      rcases hab with ⟨_, hab⟩ | ⟨h, _⟩
      · exact Or.inr ⟨hc, Or.inr ⟨p, hp, w.row_trans a b p hab hbp⟩⟩
      · omega
  · intro a b hab hba
    rw [hmem] at hab hba
    rcases hab with ⟨hb, hab⟩ | ⟨hb, rfl | ⟨p, hp, hap⟩⟩
    · have ha : a < r.size := w.row_range b a hab
      rcases hba with ⟨_, hba⟩ | ⟨h, _⟩
      · exact w.row_antisymm a b hab hba
      · omega
    · omega
    · have ha : a < r.size := w.row_range p a hap
      rcases hba with ⟨_, hba⟩ | ⟨h, _⟩
      · have := w.row_range a b hba; omega
      · omega

end JjModel.Heads
