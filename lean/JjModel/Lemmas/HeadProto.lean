import JjModel.Model.HeadProto
/-!
  Invariants of the generic head-set protocol machine (`Model/HeadProto.lean`).

  Two theorems about arbitrary event sequences (any number of processes, any schedule, crashes
  anywhere, locks working or not):

  * `inv_run` (interleaved): if every update `add t; remove olds` only removes heads *strictly*
    below `t` (or `t` itself, guarded), then every head ever added stays covered by some head.
  * `invA_run` (atomic): if removals of different processes never overlap in time (whole operations
    in sequence, or every remover holding a working lock), non-strict coverage `o ≤ t` suffices —
    provided a removal of `t` itself is guarded.
-/
namespace JjModel.HeadProto

variable {α κ σ : Type} [DecidableEq α]

structure IsPreorder (le : α → α → Prop) : Prop where
  refl : ∀ a, le a a
  trans : ∀ {a b c}, le a b → le b c → le a c

/-- every head ever added is below some current head -/
def Covered (le : α → α → Prop) (s : State α κ σ) : Prop := ∀ p ∈ s.pub, ∃ h ∈ s.heads, le p h

theorem mem_insertHead {t x : α} {hs : List α} : x ∈ insertHead t hs ↔ x = t ∨ x ∈ hs := by
  unfold insertHead
  split
  · constructor
    · exact Or.inr
    · rintro (rfl | h)
      · assumption
      · exact h
  · simp [or_comm]

theorem mem_removeHead {o x : α} {hs : List α} : x ∈ removeHead o hs ↔ x ∈ hs ∧ x ≠ o := by
  simp [removeHead]

theorem mem_pending {t o : α} {olds : List (Bool × α)} :
    o ∈ pending t olds ↔ ∃ g, (g, o) ∈ olds ∧ ¬ (g = true ∧ o = t) := by
  simp only [pending, List.mem_map, List.mem_filter]
  constructor
  · rintro ⟨⟨g, o'⟩, ⟨hm, hf⟩, rfl⟩
    refine ⟨g, hm, ?_⟩
    cases g <;> simp_all
  · rintro ⟨g, hm, hn⟩
    exact ⟨(g, o), ⟨hm, by cases g <;> simp_all⟩, rfl⟩

omit [DecidableEq α] in
theorem mem_rmsInstr {new : α} {pend : List α} {i : Instr α κ} :
    i ∈ rmsInstr new pend ↔ pend ≠ [] ∧ i = .rms new pend := by
  unfold rmsInstr
  cases pend <;> simp

theorem getElem?_set_cases {β : Type} {l : List β} {i j : Nat} {a b : β} (h : (l.set i a)[j]? = some b) :
    (j = i ∧ b = a) ∨ (j ≠ i ∧ l[j]? = some b) := by
  by_cases hji : j = i
  · subst hji
    left
    rw [List.getElem?_set_self'] at h
    cases hl : l[j]? with
    | none => simp [hl] at h
    | some x => simp [hl] at h; exact ⟨rfl, h.symm⟩
  · right
    rw [List.getElem?_set_ne (Ne.symm hji)] at h
    exact ⟨hji, h⟩

/-- what one `stepProc` can be -/
inductive StepKind (cl : Client α κ σ) (s t : State α κ σ) (pid : Nat) (arg : List Nat) (p : Proc α κ σ) : Prop
  | lock (rest : List (Instr α κ)) (hi : p.instrs = .lock :: rest)
      (hh : t.heads = s.heads) (hp : t.pub = s.pub)
      (hq : t.procs = s.procs.set pid (mkProc cl p.loc rest))
  | add (tt : α) (olds : List (Bool × α)) (rest : List (Instr α κ)) (hi : p.instrs = .add tt olds :: rest)
      (hh : t.heads = insertHead tt s.heads) (hp : t.pub = tt :: s.pub)
      (hq : t.procs = s.procs.set pid (mkProc cl p.loc (rmsInstr tt (pending tt olds) ++ rest)))
  | rms (new : α) (pend : List α) (rest : List (Instr α κ)) (i : Nat) (o : α)
      (hi : p.instrs = .rms new pend :: rest) (ho : pend[i]? = some o)
      (hh : t.heads = removeHead o s.heads) (hp : t.pub = s.pub)
      (hq : t.procs = s.procs.set pid (mkProc cl p.loc (rmsInstr new (pend.eraseIdx i) ++ rest)))
  | client (c : κ) (rest : List (Instr α κ)) (loc' : σ) (is : List (Instr α κ))
      (hi : p.instrs = .client c :: rest) (he : cl.expand c arg s.heads p.loc = some (loc', is))
      (hh : t.heads = s.heads) (hp : t.pub = s.pub)
      (hq : t.procs = s.procs.set pid (mkProc cl loc' (is ++ rest)))

theorem stepProc_inv {w : Bool} {cl : Client α κ σ} {s t : State α κ σ} {pid : Nat} {arg : List Nat}
    (h : stepProc w cl s pid arg = some t) :
    ∃ p, s.procs[pid]? = some p ∧ StepKind cl s t pid arg p := by
  unfold stepProc at h
  cases hp : s.procs[pid]? with
  | none => simp [hp] at h
  | some p =>
    refine ⟨p, rfl, ?_⟩
    simp only [hp] at h
    cases hi : p.instrs with
    | nil => simp [hi] at h
    | cons i rest =>
      simp only [hi] at h
      cases i with
      | lock =>
        simp only at h
        split at h
        · simp at h
        · simp only [Option.some.injEq] at h
          subst h
          exact .lock rest hi rfl rfl rfl
      | add tt olds =>
        simp only [Option.some.injEq] at h
        subst h
        exact .add tt olds rest hi rfl rfl rfl
      | rms new pend =>
        simp only at h
        cases hk : cl.pick arg pend with
        | none => simp [hk] at h
        | some i =>
          simp only [hk] at h
          cases ho : pend[i]? with
          | none => simp [ho] at h
          | some o =>
            simp only [ho, Option.some.injEq] at h
            subst h
            exact .rms new pend rest i o hi ho rfl rfl rfl
      | client c =>
        simp only at h
        cases he : cl.expand c arg s.heads p.loc with
        | none => simp [he] at h
        | some r =>
          obtain ⟨loc', is⟩ := r
          simp only [he, Option.some.injEq] at h
          subst h
          exact .client c rest loc' is hi he rfl rfl rfl

/-! ### interleaved regime: strict supersession -/

/-- `o` is strictly below `t` -/
def Below (le : α → α → Prop) (o t : α) : Prop := le o t ∧ ¬ le t o

def OkI (le : α → α → Prop) (pub : List α) : Instr α κ → Prop
  | .add t olds => ∀ go ∈ olds, (go.2 = t ∧ go.1 = true) ∨ Below le go.2 t
  | .rms new pend => new ∈ pub ∧ ∀ o ∈ pend, Below le o new
  | _ => True

omit [DecidableEq α] in
theorem OkI.mono {le : α → α → Prop} {pub pub' : List α} (h : ∀ x ∈ pub, x ∈ pub') {i : Instr α κ}
    (hi : OkI le pub i) : OkI le pub' i := by
  cases i with
  | rms new pend => exact ⟨h _ hi.1, hi.2⟩
  | add t olds => exact hi
  | lock => trivial
  | client c => trivial

def Inv (le : α → α → Prop) (s : State α κ σ) : Prop :=
  Covered le s ∧ ∀ q ∈ s.procs, ∀ i ∈ q.instrs, OkI le s.pub i

/-- side condition of one event: what the client pushes is strictly ordered -/
def ClientOk (le : α → α → Prop) (cl : Client α κ σ) (s : State α κ σ) : Event α κ → Prop
  | .step pid arg => ∀ p c rest loc' is, s.procs[pid]? = some p → p.instrs = .client c :: rest →
      cl.expand c arg s.heads p.loc = some (loc', is) → ∀ i ∈ is, OkI le s.pub i
  | .start _ prog => ∀ i ∈ prog, OkI le s.pub i
  | .crash _ => True

omit [DecidableEq α] in
theorem mkProc_instrs (cl : Client α κ σ) (loc : σ) (is : List (Instr α κ)) : (mkProc cl loc is).instrs = is := rfl

theorem inv_step {le : α → α → Prop} (hle : IsPreorder le) {w : Bool} {cl : Client α κ σ}
    {s t : State α κ σ} {pid : Nat} {arg : List Nat}
    (hs : Inv le s) (hc : ClientOk le cl s (.step pid arg)) (h : stepProc w cl s pid arg = some t) :
    Inv le t := by
  obtain ⟨hcov, hproc⟩ := hs
  obtain ⟨p, hp, k⟩ := stepProc_inv h
  have hpm : p ∈ s.procs := List.mem_of_getElem? hp
  have hpok := hproc p hpm
  cases k with
  | lock rest hi hh hpub hq =>
    refine ⟨?_, ?_⟩
    · intro x hx; rw [hpub] at hx; rw [hh]; exact hcov x hx
    · intro q hq' i hi'
      rw [hpub]; rw [hq] at hq'
      rcases List.mem_or_eq_of_mem_set hq' with hq' | rfl
      · exact hproc q hq' i hi'
      · rw [mkProc_instrs] at hi'
        exact hpok i (by rw [hi]; simp [hi'])
  | add tt olds rest hi hh hpub hq =>
    have hadd : OkI le s.pub (Instr.add tt olds : Instr α κ) := hpok _ (by rw [hi]; simp)
    refine ⟨?_, ?_⟩
    · intro x hx; rw [hpub] at hx; rw [hh]
      simp only [List.mem_cons] at hx
      rcases hx with rfl | hx
      · exact ⟨x, mem_insertHead.mpr (Or.inl rfl), hle.refl x⟩
      · obtain ⟨h', hh', hl⟩ := hcov x hx
        exact ⟨h', mem_insertHead.mpr (Or.inr hh'), hl⟩
    · intro q hq' i hi'
      rw [hpub]; rw [hq] at hq'
      have hmono : ∀ x ∈ s.pub, x ∈ tt :: s.pub := fun x hx => by simp [hx]
      rcases List.mem_or_eq_of_mem_set hq' with hq' | rfl
      · exact OkI.mono hmono (hproc q hq' i hi')
      · rw [mkProc_instrs] at hi'
        rcases List.mem_append.mp hi' with hi' | hi'
        · obtain ⟨_, rfl⟩ := mem_rmsInstr.mp hi'
          refine ⟨by simp, ?_⟩
          intro o ho
          obtain ⟨g, hgo, hn⟩ := mem_pending.mp ho
          rcases hadd (g, o) hgo with ⟨h1, h2⟩ | hb
          · exact absurd ⟨h2, h1⟩ hn
          · exact hb
        · exact OkI.mono hmono (hpok i (by rw [hi]; simp [hi']))
  | rms new pend rest idx o hi ho hh hpub hq =>
    have hrms : OkI le s.pub (Instr.rms new pend : Instr α κ) := hpok _ (by rw [hi]; simp)
    obtain ⟨hnew, hbel⟩ := hrms
    have hom : o ∈ pend := List.mem_of_getElem? ho
    have hob := hbel o hom
    refine ⟨?_, ?_⟩
    · intro x hx; rw [hpub] at hx; rw [hh]
      obtain ⟨h', hh', hl⟩ := hcov x hx
      by_cases hho : h' = o
      · subst hho
        obtain ⟨h2, hh2, hl2⟩ := hcov new hnew
        refine ⟨h2, mem_removeHead.mpr ⟨hh2, ?_⟩, hle.trans hl (hle.trans hob.1 hl2)⟩
        intro e; subst e
        exact hob.2 hl2
      · exact ⟨h', mem_removeHead.mpr ⟨hh', hho⟩, hl⟩
    · intro q hq' i hi'
      rw [hpub]; rw [hq] at hq'
      rcases List.mem_or_eq_of_mem_set hq' with hq' | rfl
      · exact hproc q hq' i hi'
      · rw [mkProc_instrs] at hi'
        rcases List.mem_append.mp hi' with hi' | hi'
        · obtain ⟨_, rfl⟩ := mem_rmsInstr.mp hi'
          exact ⟨hnew, fun o' ho' => hbel o' (List.mem_of_mem_eraseIdx ho')⟩
        · exact hpok i (by rw [hi]; simp [hi'])
  | client c rest loc' is hi he hh hpub hq =>
    have hcl := hc p c rest loc' is hp hi he
    refine ⟨?_, ?_⟩
    · intro x hx; rw [hpub] at hx; rw [hh]; exact hcov x hx
    · intro q hq' i hi'
      rw [hpub]; rw [hq] at hq'
      rcases List.mem_or_eq_of_mem_set hq' with hq' | rfl
      · exact hproc q hq' i hi'
      · rw [mkProc_instrs] at hi'
        rcases List.mem_append.mp hi' with hi' | hi'
        · exact hcl i hi'
        · exact hpok i (by rw [hi]; simp [hi'])

theorem inv_apply {le : α → α → Prop} (hle : IsPreorder le) {w : Bool} {cl : Client α κ σ}
    {s t : State α κ σ} {e : Event α κ}
    (hs : Inv le s) (hc : ClientOk le cl s e) (h : apply w cl s e = some t) : Inv le t := by
  cases e with
  | step pid arg => exact inv_step hle hs hc h
  | start pid prog =>
    simp only [apply] at h
    cases hp : s.procs[pid]? with
    | none => simp [hp] at h
    | some p =>
      simp only [hp] at h
      split at h
      · simp only [Option.some.injEq] at h
        subst h
        refine ⟨hs.1, ?_⟩
        intro q hq i hi
        rcases List.mem_or_eq_of_mem_set hq with hq | rfl
        · exact hs.2 q hq i hi
        · exact hc i hi
      · simp at h
  | crash pid =>
    simp only [apply] at h
    cases hp : s.procs[pid]? with
    | none => simp [hp] at h
    | some p =>
      simp only [hp, Option.some.injEq] at h
      subst h
      refine ⟨hs.1, ?_⟩
      intro q hq i hi
      rcases List.mem_or_eq_of_mem_set hq with hq | rfl
      · exact hs.2 q hq i hi
      · simp at hi

/-- the side condition holds before every event of the run -/
def RunOk (C : State α κ σ → Event α κ → Prop) (w : Bool) (cl : Client α κ σ) :
    State α κ σ → List (Event α κ) → Prop
  | _, [] => True
  | s, e :: es => C s e ∧ ∀ t, apply w cl s e = some t → RunOk C w cl t es

theorem inv_run {le : α → α → Prop} (hle : IsPreorder le) {w : Bool} {cl : Client α κ σ}
    {s t : State α κ σ} {es : List (Event α κ)}
    (hs : Inv le s) (hc : RunOk (ClientOk le cl) w cl s es) (h : run w cl s es = some t) : Inv le t := by
  induction es generalizing s with
  | nil => simp only [run, Option.some.injEq] at h; subst h; exact hs
  | cons e es ih =>
    simp only [run] at h
    cases ha : apply w cl s e with
    | none => simp [ha] at h
    | some u =>
      simp only [ha] at h
      exact ih (inv_apply hle hs hc.1 ha) (hc.2 u ha) h

omit [DecidableEq α] in
theorem inv_init {le : α → α → Prop} (hle : IsPreorder le) (heads : List α) (locs : List σ) :
    Inv le (init heads locs : State α κ σ) := by
  refine ⟨fun p hp => ⟨p, hp, hle.refl p⟩, ?_⟩
  intro q hq i hi
  simp only [init, List.mem_map] at hq
  obtain ⟨l, _, rfl⟩ := hq
  simp at hi

theorem runOk_of_forall {C : State α κ σ → Event α κ → Prop} {w : Bool} {cl : Client α κ σ}
    {es : List (Event α κ)} (h : ∀ s e, e ∈ es → C s e) : ∀ s, RunOk C w cl s es := by
  induction es with
  | nil => intro s; trivial
  | cons e es ih =>
    intro s
    exact ⟨h s e (by simp), fun t _ => ih (fun s' e' he' => h s' e' (by simp [he'])) t⟩

theorem pub_subset_apply {w : Bool} {cl : Client α κ σ} {s t : State α κ σ} {e : Event α κ}
    (h : apply w cl s e = some t) : ∀ x ∈ s.pub, x ∈ t.pub := by
  intro x hx
  cases e with
  | step pid arg =>
    obtain ⟨p, _, k⟩ := stepProc_inv h
    cases k with
    | lock _ _ _ hp _ => rw [hp]; exact hx
    | add _ _ _ _ _ hp _ => rw [hp]; simp [hx]
    | rms _ _ _ _ _ _ _ _ hp _ => rw [hp]; exact hx
    | client _ _ _ _ _ _ _ hp _ => rw [hp]; exact hx
  | start pid prog =>
    simp only [apply] at h
    cases hp : s.procs[pid]? with
    | none => simp [hp] at h
    | some p =>
      simp only [hp] at h
      split at h
      · simp only [Option.some.injEq] at h; subst h; exact hx
      · simp at h
  | crash pid =>
    simp only [apply] at h
    cases hp : s.procs[pid]? with
    | none => simp [hp] at h
    | some p => simp only [hp, Option.some.injEq] at h; subst h; exact hx

theorem pub_subset_run {w : Bool} {cl : Client α κ σ} {s t : State α κ σ} {es : List (Event α κ)}
    (h : run w cl s es = some t) : ∀ x ∈ s.pub, x ∈ t.pub := by
  induction es generalizing s with
  | nil => simp only [run, Option.some.injEq] at h; subst h; exact fun _ hx => hx
  | cons e es ih =>
    simp only [run] at h
    cases ha : apply w cl s e with
    | none => simp [ha] at h
    | some u =>
      simp only [ha] at h
      exact fun x hx => ih h x (pub_subset_apply ha x hx)

/-! ### `heads/` never lists a name twice -/

theorem nodup_insertHead {t : α} {hs : List α} (h : hs.Nodup) : (insertHead t hs).Nodup := by
  unfold insertHead
  split
  · exact h
  · rename_i hn
    refine List.nodup_append.mpr ⟨h, by simp, ?_⟩
    intro a ha b hb
    simp only [List.mem_singleton] at hb
    subst hb
    exact fun e => hn (e ▸ ha)

theorem nodup_heads_apply {w : Bool} {cl : Client α κ σ} {s t : State α κ σ} {e : Event α κ}
    (hn : s.heads.Nodup) (h : apply w cl s e = some t) : t.heads.Nodup := by
  cases e with
  | step pid arg =>
    obtain ⟨p, _, k⟩ := stepProc_inv h
    cases k with
    | lock _ _ hh _ _ => rw [hh]; exact hn
    | add _ _ _ _ hh _ _ => rw [hh]; exact nodup_insertHead hn
    | rms _ _ _ _ _ _ _ hh _ _ => rw [hh]; exact List.Nodup.sublist List.filter_sublist hn
    | client _ _ _ _ _ _ hh _ _ => rw [hh]; exact hn
  | start pid prog =>
    simp only [apply] at h
    cases hp : s.procs[pid]? with
    | none => simp [hp] at h
    | some p =>
      simp only [hp] at h
      split at h
      · simp only [Option.some.injEq] at h; subst h; exact hn
      · simp at h
  | crash pid =>
    simp only [apply] at h
    cases hp : s.procs[pid]? with
    | none => simp [hp] at h
    | some p => simp only [hp, Option.some.injEq] at h; subst h; exact hn

theorem nodup_heads_run {w : Bool} {cl : Client α κ σ} {s t : State α κ σ} {es : List (Event α κ)}
    (hn : s.heads.Nodup) (h : run w cl s es = some t) : t.heads.Nodup := by
  induction es generalizing s with
  | nil => simp only [run, Option.some.injEq] at h; subst h; exact hn
  | cons e es ih =>
    simp only [run] at h
    cases ha : apply w cl s e with
    | none => simp [ha] at h
    | some u =>
      simp only [ha] at h
      exact ih (nodup_heads_apply hn ha) h

/-! ### an update executed without interference -/

/-- `heads/` after `add t; remove olds` ran to completion with nobody else moving -/
def applyUpdate (hs : List α) (t : α) (olds : List (Bool × α)) : List α :=
  (pending t olds).foldl (fun h o => removeHead o h) (insertHead t hs)

theorem foldl_removeHead (pend hs : List α) :
    pend.foldl (fun h o => removeHead o h) hs = hs.filter (fun x => decide (x ∉ pend)) := by
  induction pend generalizing hs with
  | nil =>
    simp only [List.foldl_nil, List.not_mem_nil, not_false_eq_true, decide_true]
    exact (List.filter_eq_self.mpr (fun _ _ => rfl)).symm
  | cons o r ih =>
    rw [List.foldl_cons, ih]
    unfold removeHead
    rw [List.filter_filter]
    apply List.filter_congr
    intro x _
    by_cases h1 : x = o <;> by_cases h2 : x ∈ r <;> simp [h1, h2]

theorem mem_applyUpdate {hs : List α} {t : α} {olds : List (Bool × α)} {x : α} :
    x ∈ applyUpdate hs t olds ↔ (x = t ∨ x ∈ hs) ∧ x ∉ pending t olds := by
  unfold applyUpdate
  rw [foldl_removeHead]
  simp [mem_insertHead]

/-! ### atomic regime: removals of different processes never overlap -/

def isRms : Instr α κ → Bool
  | .rms _ _ => true
  | _ => false

def NoRms (l : List (Instr α κ)) : Prop := ∀ i ∈ l, isRms i = false

def OkA (le : α → α → Prop) (heads : List α) : Instr α κ → Prop
  | .add t olds => ∀ go ∈ olds, le go.2 t ∧ (go.2 = t → go.1 = true)
  | .rms new pend => new ∈ heads ∧ ∀ o ∈ pend, le o new ∧ o ≠ new
  | _ => True

omit [DecidableEq α] in
theorem OkA.of_noRms {le : α → α → Prop} {hs hs' : List α} {i : Instr α κ} (h : isRms i = false)
    (hi : OkA le hs i) : OkA le hs' i := by
  cases i with
  | rms new pend => simp [isRms] at h
  | add t olds => exact hi
  | lock => trivial
  | client c => trivial

omit [DecidableEq α] in
theorem OkA.mono {le : α → α → Prop} {hs hs' : List α} (h : ∀ x ∈ hs, x ∈ hs') {i : Instr α κ}
    (hi : OkA le hs i) : OkA le hs' i := by
  cases i with
  | rms new pend => exact ⟨h _ hi.1, hi.2⟩
  | add t olds => exact hi
  | lock => trivial
  | client c => trivial

def ProcOkA (le : α → α → Prop) (heads : List α) (q : Proc α κ σ) : Prop :=
  (∀ i ∈ q.instrs, OkA le heads i) ∧ NoRms q.instrs.tail

def InvA (le : α → α → Prop) (s : State α κ σ) : Prop :=
  Covered le s ∧ ∀ (j : Nat) (q : Proc α κ σ), s.procs[j]? = some q → ProcOkA le s.heads q

/-- side condition of one event in the atomic regime: what the client pushes is covered by the new
    head (a removal of the new head itself being guarded), and a removal step is only taken while
    no *other* process has removals pending -/
def AtomicOk (le : α → α → Prop) (cl : Client α κ σ) (s : State α κ σ) : Event α κ → Prop
  | .step pid arg =>
      (∀ p c rest loc' is, s.procs[pid]? = some p → p.instrs = .client c :: rest →
        cl.expand c arg s.heads p.loc = some (loc', is) → (∀ i ∈ is, OkA le s.heads i) ∧ NoRms is)
      ∧ (∀ p new pend rest, s.procs[pid]? = some p → p.instrs = .rms new pend :: rest →
          ∀ (j : Nat) (q : Proc α κ σ), j ≠ pid → s.procs[j]? = some q → NoRms q.instrs)
  | .start _ prog => (∀ i ∈ prog, OkA le s.heads i) ∧ NoRms prog
  | .crash _ => True

omit [DecidableEq α] in
theorem noRms_tail_rmsInstr {new : α} {pend : List α} {rest : List (Instr α κ)} (h : NoRms rest) :
    NoRms (rmsInstr new pend ++ rest).tail := by
  cases pend with
  | nil => simp only [rmsInstr, List.isEmpty_nil, if_true, List.nil_append]
           exact fun i hi => h i (List.mem_of_mem_tail hi)
  | cons a r => simpa [rmsInstr] using h

theorem invA_step {le : α → α → Prop} (hle : IsPreorder le) {w : Bool} {cl : Client α κ σ}
    {s t : State α κ σ} {pid : Nat} {arg : List Nat}
    (hs : InvA le s) (hc : AtomicOk le cl s (.step pid arg)) (h : stepProc w cl s pid arg = some t) :
    InvA le t := by
  obtain ⟨hcov, hproc⟩ := hs
  obtain ⟨p, hp, k⟩ := stepProc_inv h
  obtain ⟨hpok, hptail⟩ := hproc pid p hp
  cases k with
  | lock rest hi hh hpub hq =>
    rw [hi] at hpok hptail
    refine ⟨?_, ?_⟩
    · intro x hx; rw [hpub] at hx; rw [hh]; exact hcov x hx
    · intro j q hj
      rw [hh]; rw [hq] at hj
      rcases getElem?_set_cases hj with ⟨_, rfl⟩ | ⟨_, hj⟩
      · exact ⟨fun i hi' => hpok i (List.mem_cons_of_mem _ hi'), fun i hi' => hptail i (List.mem_of_mem_tail hi')⟩
      · exact hproc j q hj
  | add tt olds rest hi hh hpub hq =>
    rw [hi] at hpok hptail
    have hadd : OkA le s.heads (Instr.add tt olds : Instr α κ) := hpok _ (by simp)
    have hmono : ∀ x ∈ s.heads, x ∈ insertHead tt s.heads := fun x hx => mem_insertHead.mpr (Or.inr hx)
    refine ⟨?_, ?_⟩
    · intro x hx; rw [hpub] at hx; rw [hh]
      simp only [List.mem_cons] at hx
      rcases hx with rfl | hx
      · exact ⟨x, mem_insertHead.mpr (Or.inl rfl), hle.refl x⟩
      · obtain ⟨h', hh', hl⟩ := hcov x hx
        exact ⟨h', hmono h' hh', hl⟩
    · intro j q hj
      rw [hh]; rw [hq] at hj
      rcases getElem?_set_cases hj with ⟨_, rfl⟩ | ⟨_, hj⟩
      · refine ⟨?_, noRms_tail_rmsInstr hptail⟩
        intro i hi'
        rw [mkProc_instrs] at hi'
        rcases List.mem_append.mp hi' with hi' | hi'
        · obtain ⟨_, rfl⟩ := mem_rmsInstr.mp hi'
          refine ⟨mem_insertHead.mpr (Or.inl rfl), ?_⟩
          intro o ho
          obtain ⟨g, hgo, hn⟩ := mem_pending.mp ho
          obtain ⟨h1, h2⟩ := hadd (g, o) hgo
          exact ⟨h1, fun e => hn ⟨h2 e, e⟩⟩
        · exact OkA.mono hmono (hpok i (by simp [hi']))
      · obtain ⟨h1, h2⟩ := hproc j q hj
        exact ⟨fun i hi' => OkA.mono hmono (h1 i hi'), h2⟩
  | rms new pend rest idx o hi ho hh hpub hq =>
    rw [hi] at hpok hptail
    have hrms : OkA le s.heads (Instr.rms new pend : Instr α κ) := hpok _ (by simp)
    obtain ⟨hnew, hbel⟩ := hrms
    have hom : o ∈ pend := List.mem_of_getElem? ho
    obtain ⟨hole, hone⟩ := hbel o hom
    have hothers := hc.2 p new pend rest hp hi
    refine ⟨?_, ?_⟩
    · intro x hx; rw [hpub] at hx; rw [hh]
      obtain ⟨h', hh', hl⟩ := hcov x hx
      by_cases hho : h' = o
      · subst hho
        exact ⟨new, mem_removeHead.mpr ⟨hnew, fun e => hone e.symm⟩, hle.trans hl hole⟩
      · exact ⟨h', mem_removeHead.mpr ⟨hh', hho⟩, hl⟩
    · intro j q hj
      rw [hh]; rw [hq] at hj
      rcases getElem?_set_cases hj with ⟨_, rfl⟩ | ⟨hne, hj⟩
      · refine ⟨?_, noRms_tail_rmsInstr hptail⟩
        intro i hi'
        rw [mkProc_instrs] at hi'
        rcases List.mem_append.mp hi' with hi' | hi'
        · obtain ⟨_, rfl⟩ := mem_rmsInstr.mp hi'
          exact ⟨mem_removeHead.mpr ⟨hnew, fun e => hone e.symm⟩,
                 fun o' ho' => hbel o' (List.mem_of_mem_eraseIdx ho')⟩
        · exact OkA.of_noRms (hptail i hi') (hpok i (by simp [hi']))
      · obtain ⟨h1, h2⟩ := hproc j q hj
        have hn := hothers j q hne hj
        exact ⟨fun i hi' => OkA.of_noRms (hn i hi') (h1 i hi'), h2⟩
  | client c rest loc' is hi he hh hpub hq =>
    rw [hi] at hpok hptail
    obtain ⟨hcl, hnr⟩ := hc.1 p c rest loc' is hp hi he
    refine ⟨?_, ?_⟩
    · intro x hx; rw [hpub] at hx; rw [hh]; exact hcov x hx
    · intro j q hj
      rw [hh]; rw [hq] at hj
      rcases getElem?_set_cases hj with ⟨_, rfl⟩ | ⟨_, hj⟩
      · refine ⟨?_, ?_⟩
        · intro i hi'
          rw [mkProc_instrs] at hi'
          rcases List.mem_append.mp hi' with hi' | hi'
          · exact hcl i hi'
          · exact hpok i (by simp [hi'])
        · intro i hi'
          rw [mkProc_instrs] at hi'
          rcases List.mem_append.mp (List.mem_of_mem_tail hi') with hi' | hi'
          · exact hnr i hi'
          · exact hptail i hi'
      · exact hproc j q hj

theorem invA_apply {le : α → α → Prop} (hle : IsPreorder le) {w : Bool} {cl : Client α κ σ}
    {s t : State α κ σ} {e : Event α κ}
    (hs : InvA le s) (hc : AtomicOk le cl s e) (h : apply w cl s e = some t) : InvA le t := by
  cases e with
  | step pid arg => exact invA_step hle hs hc h
  | start pid prog =>
    simp only [apply] at h
    cases hp : s.procs[pid]? with
    | none => simp [hp] at h
    | some p =>
      simp only [hp] at h
      split at h
      · simp only [Option.some.injEq] at h
        subst h
        refine ⟨hs.1, ?_⟩
        intro j q hj
        rcases getElem?_set_cases hj with ⟨_, rfl⟩ | ⟨_, hj⟩
        · exact ⟨hc.1, fun i hi => hc.2 i (List.mem_of_mem_tail hi)⟩
        · exact hs.2 j q hj
      · simp at h
  | crash pid =>
    simp only [apply] at h
    cases hp : s.procs[pid]? with
    | none => simp [hp] at h
    | some p =>
      simp only [hp, Option.some.injEq] at h
      subst h
      refine ⟨hs.1, ?_⟩
      intro j q hj
      rcases getElem?_set_cases hj with ⟨_, rfl⟩ | ⟨_, hj⟩
      · exact ⟨by simp, by simp [NoRms]⟩
      · exact hs.2 j q hj

theorem invA_run {le : α → α → Prop} (hle : IsPreorder le) {w : Bool} {cl : Client α κ σ}
    {s t : State α κ σ} {es : List (Event α κ)}
    (hs : InvA le s) (hc : RunOk (AtomicOk le cl) w cl s es) (h : run w cl s es = some t) : InvA le t := by
  induction es generalizing s with
  | nil => simp only [run, Option.some.injEq] at h; subst h; exact hs
  | cons e es ih =>
    simp only [run] at h
    cases ha : apply w cl s e with
    | none => simp [ha] at h
    | some u =>
      simp only [ha] at h
      exact ih (invA_apply hle hs hc.1 ha) (hc.2 u ha) h

omit [DecidableEq α] in
theorem invA_init {le : α → α → Prop} (hle : IsPreorder le) (heads : List α) (locs : List σ) :
    InvA le (init heads locs : State α κ σ) := by
  refine ⟨fun p hp => ⟨p, hp, hle.refl p⟩, ?_⟩
  intro j q hj
  have hq : q ∈ (init heads locs : State α κ σ).procs := List.mem_of_getElem? hj
  simp only [init, List.mem_map] at hq
  obtain ⟨l, _, rfl⟩ := hq
  exact ⟨by simp, by simp [NoRms]⟩

end JjModel.HeadProto
