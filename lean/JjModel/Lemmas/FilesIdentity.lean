import JjModel.Lemmas.FilesCollect
import JjModel.Lemmas.MergeMap
import JjModel.Lemmas.DiffMatch
/-!
  Ingredients of the C04 identity theorem: `from_removes_adds` round trip, hunk-wise resolution
  under `SlicesRespectEquality`.
-/
namespace JjModel.Files
open JjModel.Merge JjModel.Diff

theorem interleave_removes_adds {β : Type} (r : β) (rest : List β) (h : rest.length % 2 = 1) :
    interleave (r :: removes rest) (adds rest) = r :: rest := by
  match rest, h with
  | [a], _ => simp [removes, adds, interleave]
  | a :: r' :: rest', h =>
    have h' : rest'.length % 2 = 1 := by simp at h; omega
    simp only [removes, adds, interleave]
    rw [interleave_removes_adds r' rest' h']

/-- `Merge::from_removes_adds(m.removes(), m.adds()) = m` -/
theorem fromRemovesAdds_roundtrip {β : Type} (t : List β) (h : t.length % 2 = 1) :
    fromRemovesAdds (removes t) (adds t) = t := by
  match t, h with
  | [a], _ => simp [removes, adds, fromRemovesAdds, interleave]
  | a :: r :: rest, h =>
    have h' : rest.length % 2 = 1 := by simp at h; omega
    simp only [removes, adds, fromRemovesAdds]
    rw [interleave_removes_adds r rest h']

theorem interleave_map {β γ : Type} (g : β → γ) (rs as : List β) :
    interleave (rs.map g) (as.map g) = (interleave rs as).map g := by
  induction rs generalizing as with
  | nil => simp [interleave]
  | cons r rs ih =>
    cases as with
    | nil => simp [interleave]
    | cons a as => simp [interleave, ih]

theorem fromRemovesAdds_map {β γ : Type} (g : β → γ) (rs as : List β) :
    fromRemovesAdds (rs.map g) (as.map g) = (fromRemovesAdds rs as).map g := by
  cases as with
  | nil => simp [fromRemovesAdds]
  | cons a as => simp [fromRemovesAdds, interleave_map]

theorem length_removes_adds {β : Type} (t : List β) (h : t.length % 2 = 1) :
    (adds t).length = (removes t).length + 1 ∧ (removes t ++ adds t).length = t.length := by
  match t, h with
  | [a], _ => simp [removes, adds]
  | a :: r :: rest, h =>
    have h' : rest.length % 2 = 1 := by simp at h; omega
    obtain ⟨h1, h2⟩ := length_removes_adds rest h'
    simp only [removes, adds, List.length_cons, List.length_append] at h1 h2 ⊢
    omega

theorem mem_removes_adds {β : Type} (t : List β) (x : β) (hx : x ∈ t) : x ∈ removes t ++ adds t := by
  match t with
  | [] => simp at hx
  | [a] => simpa [removes, adds] using hx
  | a :: r :: rest =>
    simp only [List.mem_cons] at hx
    simp only [removes, adds, List.mem_append, List.mem_cons]
    rcases hx with rfl | rfl | hx
    · exact Or.inr (Or.inl rfl)
    · exact Or.inl (Or.inl rfl)
    · have := mem_removes_adds rest x hx
      simp only [List.mem_append] at this
      rcases this with h | h
      · exact Or.inl (Or.inr h)
      · exact Or.inr (Or.inr h)

/-- index of the first occurrence -/
def firstIdx {β : Type} [DecidableEq β] (x : β) : List β → Nat
  | [] => 0
  | y :: ys => if y = x then 0 else firstIdx x ys + 1

theorem firstIdx_spec {β : Type} [DecidableEq β] (x : β) (l : List β) (h : x ∈ l) :
    l[firstIdx x l]? = some x := by
  induction l with
  | nil => simp at h
  | cons y ys ih =>
    rw [firstIdx]
    split
    · rename_i e; simp [e]
    · rename_i e
      have : x ∈ ys := by
        simp only [List.mem_cons] at h
        rcases h with rfl | h
        · exact absurd rfl e
        · exact h
      simpa using ih this

/-- equal inputs have equal contents ⇒ the contents are the image of the inputs under a function -/
theorem contents_eq_map (inputs contents : List Bytes) (hl : contents.length = inputs.length)
    (hs : ∀ i j, i < inputs.length → j < inputs.length → inputs.getD i [] = inputs.getD j [] →
      contents.getD i [] = contents.getD j []) :
    contents = inputs.map fun x => contents.getD (firstIdx x inputs) [] := by
  apply List.ext_getElem?
  intro i
  by_cases hi : i < inputs.length
  · have hm : inputs[i] ∈ inputs := List.getElem_mem hi
    have hf := firstIdx_spec inputs[i] inputs hm
    have hflt : firstIdx inputs[i] inputs < inputs.length := (List.getElem?_eq_some_iff.mp hf).1
    have := hs (firstIdx inputs[i] inputs) i hflt hi (by simp [List.getD, hf, List.getElem?_eq_getElem hi])
    simp only [List.getElem?_map, List.getElem?_eq_getElem hi, Option.map_some]
    rw [this]
    simp [List.getD, List.getElem?_eq_getElem (show i < contents.length by omega)]
  · rw [List.getElem?_eq_none (by omega), List.getElem?_eq_none (by simp; omega)]

/-- one different hunk resolves to the slice of the surviving side -/
theorem resolve_different (terms : List Bytes) (hodd : terms.length % 2 = 1) (sc : SameChange) (v : Bytes)
    (hv : trivialMerge terms sc = some v) (contents : List Bytes)
    (hl : contents.length = (diffInputs terms).length)
    (hs : ∀ i j, i < (diffInputs terms).length → j < (diffInputs terms).length →
      (diffInputs terms).getD i [] = (diffInputs terms).getD j [] → contents.getD i [] = contents.getD j []) :
    trivialMerge (fromRemovesAdds (contents.take (removes terms).length) (contents.drop (removes terms).length)) sc
      = some (contents.getD (firstIdx v (diffInputs terms)) []) := by
  have hc := contents_eq_map (diffInputs terms) contents hl hs
  generalize hg : (fun x => contents.getD (firstIdx x (diffInputs terms)) []) = g at hc
  have h1 : contents.take (removes terms).length = (removes terms).map g := by
    rw [hc, diffInputs, List.map_append, List.take_left' (by simp)]
  have h2 : contents.drop (removes terms).length = (adds terms).map g := by
    rw [hc, diffInputs, List.map_append, List.drop_left' (by simp)]
  rw [h1, h2, fromRemovesAdds_map, fromRemovesAdds_roundtrip terms hodd,
    trivialMerge_map g terms hodd sc v hv, ← hg]

theorem collectResolved_singletons {γ : Type} (l : List γ) (f : γ → Bytes) :
    collectResolved (l.map fun x => [f x]) = some (l.flatMap f) := by
  induction l with
  | nil => rfl
  | cons x xs ih => simp [collectResolved, asResolved, ih]

end JjModel.Files
