import JjModel.Lemmas.MergeCounts
/-!
  Signed-count lemmas for C01: `scount` over `++`, `set`, and the "erase two adjacent
  positions" operation used by one iteration of `get_simplified_mapping`.
-/
namespace JjModel.Merge
variable {α : Type} [DecidableEq α]

/-- sign reached after walking over `n` positions starting with sign `s` -/
def sgn (s : Int) (n : Nat) : Int := if n % 2 = 0 then s else -s

theorem sgn_succ (s : Int) (n : Nat) : sgn (-s) n = sgn s (n + 1) := by
  unfold sgn; split <;> split <;> omega

theorem scount_append (a b : List α) (s : Int) (v : α) :
    scount (a ++ b) s v = scount a s v + scount b (sgn s a.length) v := by
  induction a generalizing s with
  | nil => simp [scount, sgn]
  | cons x a ih =>
    simp only [List.cons_append, scount, ih, List.length_cons, sgn_succ]
    omega

theorem scount_pair (x : α) (b : List α) (s : Int) (v : α) :
    scount (x :: x :: b) s v = scount b s v := by
  simp only [scount, Int.neg_neg, Int.neg_mul]; omega

/-- erase positions `r` and `r+1` (`drain(r..r+2)`) -/
def erase2 {β : Type} (l : List β) (r : Nat) : List β := (l.eraseIdx r).eraseIdx r

theorem erase2_eq {β : Type} (l : List β) (r : Nat) : erase2 l r = l.take r ++ l.drop (r + 2) := by
  unfold erase2
  induction l generalizing r with
  | nil => simp
  | cons x l ih =>
    cases r with
    | zero => cases l <;> simp
    | succ r => simp [ih]

theorem length_erase2 {β : Type} (l : List β) (r : Nat) (h : r + 1 < l.length) :
    (erase2 l r).length = l.length - 2 := by
  rw [erase2_eq]; simp; omega

theorem getElem?_erase2 {β : Type} (l : List β) (r k : Nat) :
    (erase2 l r)[k]? = if k < r then l[k]? else l[k + 2]? := by
  unfold erase2
  rw [List.getElem?_eraseIdx]
  split
  · rw [List.getElem?_eraseIdx]; simp [*]
  · rw [List.getElem?_eraseIdx]
    have : ¬ k + 1 < r := by omega
    simp [this]

/-- erasing two adjacent equal values does not change the signed count -/
theorem scount_erase2 (l : List α) (r : Nat) (s : Int) (v : α)
    (h : r + 1 < l.length) (heq : l[r]'(by omega) = l[r + 1]) :
    scount (erase2 l r) s v = scount l s v := by
  have hsplit : l = l.take r ++ (l[r]'(by omega) :: l[r + 1] :: l.drop (r + 2)) := by
    rw [← List.drop_eq_getElem_cons, ← List.drop_eq_getElem_cons]; simp
  rw [erase2_eq]
  conv => rhs; rw [hsplit]
  rw [scount_append, scount_append, heq, scount_pair]

/-- replacing position `i`: the count moves by the sign of that position -/
theorem scount_set (l : List α) (i : Nat) (x : α) (s : Int) (v : α) (h : i < l.length) :
    scount (l.set i x) s v = scount l s v + sgn s i * (ind x v - ind l[i] v) := by
  induction l generalizing i s with
  | nil => simp at h
  | cons y l ih =>
    cases i with
    | zero =>
      simp only [List.set_cons_zero, scount, sgn, List.getElem_cons_zero]
      simp [Int.mul_sub]; omega
    | succ i =>
      simp only [List.set_cons_succ, scount, List.getElem_cons_succ]
      rw [ih i (-s) (by simpa using h), sgn_succ]; omega

/-! ### `Vec::swap` on an arbitrary list -/

/-- `swapIdx` for any element type -/
def swapL {β : Type} (l : List β) (i j : Nat) : List β :=
  match l[i]?, l[j]? with
  | some x, some y => (l.set i y).set j x
  | _, _ => l

theorem swapIdx_eq_swapL (l : List Nat) (i j : Nat) : swapIdx l i j = swapL l i j := by
  unfold swapIdx swapL; split <;> simp_all

theorem swapL_eq {β : Type} (l : List β) (i j : Nat) (hi : i < l.length) (hj : j < l.length) :
    swapL l i j = (l.set i l[j]).set j l[i] := by
  simp [swapL, hi, hj]

theorem length_swapL {β : Type} (l : List β) (i j : Nat) : (swapL l i j).length = l.length := by
  unfold swapL; split <;> simp

theorem getElem?_swapL {β : Type} (l : List β) (i j k : Nat) (hi : i < l.length) (hj : j < l.length) :
    (swapL l i j)[k]? = if k = j then l[i]? else if k = i then l[j]? else l[k]? := by
  rw [swapL_eq l i j hi hj]
  simp only [List.getElem?_set, List.length_set]
  grind

theorem map_swapL {β γ : Type} (f : β → γ) (l : List β) (i j : Nat) :
    (swapL l i j).map f = swapL (l.map f) i j := by
  unfold swapL
  simp only [List.getElem?_map]
  cases l[i]? <;> cases l[j]? <;> simp [List.map_set]

theorem map_erase2 {β γ : Type} (f : β → γ) (l : List β) (r : Nat) :
    (erase2 l r).map f = erase2 (l.map f) r := by
  simp [erase2_eq, List.map_take, List.map_drop]

theorem swapL_perm {β : Type} (l : List β) (i j : Nat) : (swapL l i j).Perm l := by
  by_cases hi : i < l.length
  · by_cases hj : j < l.length
    · rw [swapL_eq l i j hi hj]; exact List.set_set_perm hi hj
    · simp [swapL, List.getElem?_eq_none (Nat.le_of_not_lt hj)]
  · simp [swapL, List.getElem?_eq_none (Nat.le_of_not_lt hi)]

/-- swapping two positions of the same parity keeps the signed count -/
theorem scount_swapL (l : List α) (i j : Nat) (s : Int) (v : α)
    (hi : i < l.length) (hj : j < l.length) (hp : i % 2 = j % 2) :
    scount (swapL l i j) s v = scount l s v := by
  rw [swapL_eq l i j hi hj, scount_set _ _ _ _ _ (by simpa using hj), scount_set _ _ _ _ _ hi]
  have hs : sgn s i = sgn s j := by unfold sgn; rw [hp]
  rw [hs]
  by_cases hij : i = j
  · subst hij; simp
  · rw [List.getElem_set_ne hij]
    generalize sgn s j = t
    simp only [Int.mul_sub]; omega

/-! ### one cancelling iteration: `swap(r+1, a)` then `drain(r..r+2)` -/

def stepL {β : Type} (l : List β) (r a : Nat) : List β := erase2 (swapL l (r + 1) a) r

theorem map_stepL {β γ : Type} (f : β → γ) (l : List β) (r a : Nat) :
    (stepL l r a).map f = stepL (l.map f) r a := by
  simp [stepL, map_erase2, map_swapL]

theorem length_stepL {β : Type} (l : List β) (r a : Nat) (h : r + 1 < l.length) :
    (stepL l r a).length = l.length - 2 := by
  unfold stepL; rw [length_erase2 _ _ (by simpa [length_swapL] using h), length_swapL]

theorem getElem?_stepL {β : Type} (l : List β) (r a k : Nat) (hr : r + 1 < l.length) (ha : a < l.length) :
    (stepL l r a)[k]? =
      if k < r then (if k = a then l[r + 1]? else l[k]?)
      else (if k + 2 = a then l[r + 1]? else l[k + 2]?) := by
  unfold stepL
  rw [getElem?_erase2]
  split
  · rw [getElem?_swapL _ _ _ _ hr ha]; grind
  · rw [getElem?_swapL _ _ _ _ hr ha]; grind

/-- the cancelling iteration keeps the signed count: the add at even position `a` equals the
remove at odd position `r`; the add at `r+1` moves into slot `a`. -/
theorem scount_stepL (l : List α) (r a : Nat) (s : Int) (v : α)
    (hr : r + 1 < l.length) (ha : a < l.length) (hro : r % 2 = 1) (hae : a % 2 = 0)
    (heq : l[r]'(by omega) = l[a]) :
    scount (stepL l r a) s v = scount l s v := by
  unfold stepL
  have hlen := length_swapL l (r + 1) a
  rw [scount_erase2 _ _ _ _ (by omega), scount_swapL _ _ _ _ _ hr ha (by omega)]
  have h1 := getElem?_swapL l (r + 1) a r hr ha
  have h2 := getElem?_swapL l (r + 1) a (r + 1) hr ha
  have hra : r ≠ a := by omega
  rw [List.getElem?_eq_getElem (by omega)] at h1 h2
  simp only [hra, if_false, show r ≠ r + 1 by omega] at h1
  rw [List.getElem?_eq_getElem (by omega)] at h1
  by_cases h : r + 1 = a
  · simp only [h, if_true] at h2
    rw [List.getElem?_eq_getElem (by omega)] at h2
    grind
  · simp only [h, if_false, if_true] at h2
    rw [List.getElem?_eq_getElem (by omega)] at h2
    grind

end JjModel.Merge
