import JjModel.Lemmas.MergeSigned
/-!
  `Merge<Merge<T>>::flatten` keeps the signed count: lemmas for C01.
-/
namespace JjModel.Merge
set_option linter.unusedSectionVars false
variable {α : Type} [DecidableEq α]

/-- alternating sum of the signed counts of the terms of a nested merge:
`s·count t₀ − s·count t₁ + s·count t₂ − …` -/
def altSum : List (List α) → Int → α → Int
  | [], _, _ => 0
  | t :: ts, s, v => s * count t v + altSum ts (-s) v

theorem length_swapPairs (l : List α) : (swapPairs l).length = l.length := by
  fun_induction swapPairs l <;> simp_all

theorem length_negateTerm (t : List α) : (negateTerm t).length = t.length := by
  cases t with
  | nil => rfl
  | cons x rest => simp [negateTerm, length_swapPairs]

theorem scount_swapPairs_snoc (x : α) (s : Int) (v : α) :
    (rest : List α) → rest.length % 2 = 0 →
      scount (swapPairs (rest ++ [x])) s v = s * ind x v - scount rest s v
  | [], _ => by simp [swapPairs, scount]
  | [a], h => by simp at h
  | a :: b :: rest, h => by
    have ih := scount_swapPairs_snoc x s v rest (by simp at h; omega)
    simp only [List.cons_append, swapPairs, scount, Int.neg_neg, Int.neg_mul, ih]
    omega

/-- `negateTerm` (rotate left, swap pairs) moves every element to a position of the same parity -/
theorem scount_negateTerm (t : List α) (h : t.length % 2 = 1) (s : Int) (v : α) :
    scount (negateTerm t) s v = scount t s v := by
  cases t with
  | nil => simp at h
  | cons x rest =>
    simp only [negateTerm]
    rw [scount_swapPairs_snoc x s v rest (by simp at h; omega)]
    simp only [scount, scount_neg]; omega

theorem flattenFrom_spec (acc : List α) (rest : List (List α)) (v : α)
    (hacc : acc.length % 2 = 1) (hrest : rest.length % 2 = 0) (hall : ∀ t ∈ rest, t.length % 2 = 1) :
    count (flattenFrom acc rest) v = count acc v + altSum rest (-1) v ∧
      (flattenFrom acc rest).length % 2 = 1 := by
  fun_induction flattenFrom acc rest with
  | case1 acc => simp [altSum, hacc]
  | case2 acc r => simp at hrest
  | case3 acc r a rest ih =>
    have hr : r.length % 2 = 1 := hall r (by simp)
    have ha : a.length % 2 = 1 := hall a (by simp)
    have hlen : (acc ++ negateTerm r ++ a).length % 2 = 1 := by
      simp [length_negateTerm]; omega
    obtain ⟨ih1, ih2⟩ := ih hlen (by simp at hrest; omega) (fun t ht => hall t (by simp [ht]))
    refine ⟨?_, ih2⟩
    rw [ih1]
    simp only [altSum, count_eq_scount, scount_append, Int.neg_neg, List.length_append,
      length_negateTerm]
    have h1 : sgn 1 acc.length = -1 := by simp [sgn, hacc]
    have h2 : sgn 1 (acc.length + r.length) = 1 := by
      have : (acc.length + r.length) % 2 = 0 := by omega
      simp [sgn, this]
    rw [h1, h2, scount_negateTerm r hr, scount_neg]
    omega

end JjModel.Merge
