import JjModel.Lemmas.RevsetHeads
/-!
  C19 lemmas, part 14: `common_ancestors_pos` and the `ForkPoint` arm.
-/
namespace JjModel.Revset

/-- `c` is an ancestor of a pending item below the scan bound -/
def BelowItem (g : Graph) (n : Nat) (s : List Nat) (c : Nat) : Prop :=
  ∃ a ∈ s, a < n ∧ Path g.par a c

theorem belowItem_mono {g : Graph} {n : Nat} {s : List Nat} {c : Nat} (h : BelowItem g n s c) :
    BelowItem g (n + 1) s c := by
  obtain ⟨a, ha, hlt, hp⟩ := h
  exact ⟨a, ha, by omega, hp⟩

theorem belowItem_shift {g : Graph} (ht : Topo g.par) {k : Nat} {s : List Nat} {c : Nat}
    (hk : k ∈ s) (hc : c < k) :
    BelowItem g k (g.par k ++ s) c ↔ BelowItem g (k + 1) s c := by
  constructor
  · rintro ⟨a, ha, hlt, hp⟩
    simp only [List.mem_append] at ha
    rcases ha with ha | ha
    · exact ⟨k, hk, by omega, Path.head ha hp⟩
    · exact ⟨a, ha, by omega, hp⟩
  · rintro ⟨a, ha, hlt, hp⟩
    by_cases e : a = k
    · subst e
      obtain ⟨q, hq, hqp⟩ := hp.cases_ne (by omega)
      exact ⟨q, by simp [hq], ht _ _ hq, hqp⟩
    · exact ⟨a, by simp [ha], by omega, hp⟩

theorem belowItem_skip {g : Graph} {k : Nat} {s : List Nat} {c : Nat} (hk : k ∉ s) :
    BelowItem g k s c ↔ BelowItem g (k + 1) s c := by
  constructor
  · exact belowItem_mono
  · rintro ⟨a, ha, hlt, hp⟩
    have : a ≠ k := by rintro rfl; exact hk ha
    exact ⟨a, ha, by omega, hp⟩

theorem commonScan_sound (g : Graph) (ht : Topo g.par) :
    ∀ (n : Nat) (s1 s2 : List Nat) (p : Nat), p ∈ commonScan g n s1 s2 →
      p < n ∧ BelowItem g n s1 p ∧ BelowItem g n s2 p := by
  intro n
  induction n with
  | zero => intro s1 s2 p h; simp [commonScan] at h
  | succ k ih =>
    intro s1 s2 p h
    rw [commonScan] at h
    by_cases h1 : s1.contains k
    · have hk1 : k ∈ s1 := by simpa using h1
      simp only [h1, if_true] at h
      by_cases h2 : s2.contains k
      · have hk2 : k ∈ s2 := by simpa using h2
        simp only [h2, if_true, List.mem_cons] at h
        rcases h with rfl | h
        · exact ⟨by omega, ⟨p, hk1, by omega, Path.refl _ _⟩, ⟨p, hk2, by omega, Path.refl _ _⟩⟩
        · obtain ⟨a, b, c⟩ := ih _ _ _ h
          exact ⟨by omega, belowItem_mono b, belowItem_mono c⟩
      · simp only [h2, Bool.false_eq_true, if_false] at h
        obtain ⟨a, b, c⟩ := ih _ _ _ h
        exact ⟨by omega, (belowItem_shift ht hk1 a).1 b, belowItem_mono c⟩
    · simp only [h1, Bool.false_eq_true, if_false] at h
      by_cases h2 : s2.contains k
      · have hk2 : k ∈ s2 := by simpa using h2
        simp only [h2, if_true] at h
        obtain ⟨a, b, c⟩ := ih _ _ _ h
        exact ⟨by omega, belowItem_mono b, (belowItem_shift ht hk2 a).1 c⟩
      · simp only [h2, Bool.false_eq_true, if_false] at h
        obtain ⟨a, b, c⟩ := ih _ _ _ h
        exact ⟨by omega, belowItem_mono b, belowItem_mono c⟩

theorem commonScan_complete (g : Graph) (ht : Topo g.par) :
    ∀ (n : Nat) (s1 s2 : List Nat) (c : Nat), BelowItem g n s1 c → BelowItem g n s2 c →
      ∃ r ∈ commonScan g n s1 s2, Path g.par r c := by
  intro n
  induction n with
  | zero => intro s1 s2 c h; obtain ⟨a, _, hlt, _⟩ := h; omega
  | succ k ih =>
    intro s1 s2 c hb1 hb2
    rw [commonScan]
    have hck : c ≤ k := by
      obtain ⟨a, _, hlt, hp⟩ := hb1
      have := hp.le ht; omega
    by_cases h1 : s1.contains k
    · have hk1 : k ∈ s1 := by simpa using h1
      simp only [h1, if_true]
      by_cases h2 : s2.contains k
      · simp only [h2, if_true]
        by_cases hpk : Path g.par k c
        · exact ⟨k, by simp, hpk⟩
        · have hlow : ∀ s, BelowItem g (k + 1) s c → BelowItem g k s c := by
            rintro s ⟨a, ha, hlt, hp⟩
            have : a ≠ k := by rintro rfl; exact hpk hp
            exact ⟨a, ha, by omega, hp⟩
          obtain ⟨r, hr, hrc⟩ := ih s1 s2 c (hlow _ hb1) (hlow _ hb2)
          exact ⟨r, by simp [hr], hrc⟩
      · have hk2 : k ∉ s2 := by simpa using h2
        simp only [h2, Bool.false_eq_true, if_false]
        have hb2' := (belowItem_skip hk2).2 hb2
        have hclt : c < k := by
          obtain ⟨a, _, hlt, hp⟩ := hb2'
          have := hp.le ht; omega
        exact ih _ _ c ((belowItem_shift ht hk1 hclt).2 hb1) hb2'
    · have hk1 : k ∉ s1 := by simpa using h1
      simp only [h1, Bool.false_eq_true, if_false]
      have hb1' := (belowItem_skip hk1).2 hb1
      have hclt : c < k := by
        obtain ⟨a, _, hlt, hp⟩ := hb1'
        have := hp.le ht; omega
      by_cases h2 : s2.contains k
      · have hk2 : k ∈ s2 := by simpa using h2
        simp only [h2, if_true]
        exact ih _ _ c hb1' ((belowItem_shift ht hk2 hclt).2 hb2)
      · have hk2 : k ∉ s2 := by simpa using h2
        simp only [h2, Bool.false_eq_true, if_false]
        exact ih _ _ c hb1' ((belowItem_skip hk2).2 hb2)

theorem desc_commonScan (g : Graph) (ht : Topo g.par) :
    ∀ (n : Nat) (s1 s2 : List Nat), Desc (commonScan g n s1 s2) := by
  intro n
  induction n with
  | zero => intro s1 s2; simp [commonScan, Desc]
  | succ k ih =>
    intro s1 s2
    rw [commonScan]
    split
    · split
      · rw [desc_cons]
        exact ⟨fun b hb => (commonScan_sound g ht _ _ _ _ hb).1, ih _ _⟩
      · exact ih _ _
    · split
      · exact ih _ _
      · exact ih _ _

/-- two sets with the same "upper part" have the same heads -/
theorem headsOf_cover {g : Graph} (ht : Topo g.par) {R X : Nat → Prop} (hsub : ∀ p, R p → X p)
    (hcov : ∀ c, X c → ∃ r, R r ∧ Path g.par r c) (p : Nat) : HeadsOf g R p ↔ HeadsOf g X p := by
  constructor
  · rintro ⟨hp, hno⟩
    refine ⟨hsub p hp, ?_⟩
    rintro ⟨q, hq, hne, hqp⟩
    obtain ⟨r, hr, hrq⟩ := hcov q hq
    by_cases e : r = p
    · subst e
      have := hrq.le ht
      have := hqp.le ht
      omega
    · exact hno ⟨r, hr, e, hrq.trans hqp⟩
  · rintro ⟨hp, hno⟩
    obtain ⟨r, hr, hrp⟩ := hcov p hp
    by_cases e : r = p
    · subst e
      exact ⟨hr, fun ⟨q, hq, hne, hqp⟩ => hno ⟨q, hsub q hq, hne, hqp⟩⟩
    · exact absurd ⟨r, hsub r hr, e, hrp⟩ hno

/-- `common_ancestors_pos(set1, set2)` = heads of the common ancestors -/
theorem mem_commonAncestorsPos (g : Graph) (hw : g.WF) (s1 s2 : List Nat) (h1 : ∀ a ∈ s1, a < g.size)
    (h2 : ∀ a ∈ s2, a < g.size) (p : Nat) :
    p ∈ commonAncestorsPos g s1 s2 ↔
      HeadsOf g (fun c => (∃ a ∈ s1, Path g.par a c) ∧ ∃ a ∈ s2, Path g.par a c) p := by
  have ht : Topo g.par := hw.topo
  unfold commonAncestorsPos
  rw [mem_headsPos g ht _ (fun c hc => (commonScan_sound g ht _ _ _ _ hc).1)]
  apply headsOf_cover ht
  · intro c hc
    obtain ⟨_, ⟨a, ha, _, hpa⟩, ⟨b, hb, _, hpb⟩⟩ := commonScan_sound g ht _ _ _ _ hc
    exact ⟨⟨a, ha, hpa⟩, b, hb, hpb⟩
  · rintro c ⟨⟨a, ha, hpa⟩, b, hb, hpb⟩
    obtain ⟨r, hr, hrc⟩ := commonScan_complete g ht g.size s1 s2 c ⟨a, ha, h1 a ha, hpa⟩ ⟨b, hb, h2 b hb, hpb⟩
    exact ⟨r, hr, hrc⟩

theorem desc_commonAncestorsPos (g : Graph) (hw : g.WF) (s1 s2 : List Nat) :
    Desc (commonAncestorsPos g s1 s2) :=
  desc_headsPos g hw.topo _ (desc_commonScan g hw.topo _ _ _)

/-- common ancestors of all members of a list -/
def CA (g : Graph) (T : List Nat) (c : Nat) : Prop := ∀ t ∈ T, Path g.par t c

/-- invariant of the `ForkPoint` fold -/
structure ForkInv (g : Graph) (T acc : List Nat) : Prop where
  desc : Desc acc
  mem : ∀ x, x ∈ acc ↔ HeadsOf g (CA g T) x

theorem forkInv_lt {g : Graph} (hw : g.WF) {T acc : List Nat} {t : Nat} (ht : t ∈ T) (htl : t < g.size)
    (hi : ForkInv g T acc) : ∀ a ∈ acc, a < g.size := by
  intro a ha
  have := ((hi.mem a).1 ha).1 t ht
  have := this.le hw.topo
  omega

theorem fork_step (g : Graph) (hw : g.WF) {T acc : List Nat} {t q : Nat} (ht : t ∈ T)
    (htl : t < g.size) (hq : q < g.size) (hi : ForkInv g T acc) :
    ForkInv g (T ++ [q]) (commonAncestorsPos g acc [q]) := by
  have htopo : Topo g.par := hw.topo
  refine ⟨desc_commonAncestorsPos g hw _ _, ?_⟩
  intro x
  rw [mem_commonAncestorsPos g hw acc [q] (forkInv_lt hw ht htl hi) (by simpa using hq)]
  have hset : ∀ c, ((∃ a ∈ acc, Path g.par a c) ∧ ∃ a ∈ [q], Path g.par a c) ↔ CA g (T ++ [q]) c := by
    intro c
    constructor
    · rintro ⟨⟨a, ha, hac⟩, b, hb, hbc⟩
      simp only [List.mem_singleton] at hb
      subst hb
      intro t' ht'
      simp only [List.mem_append, List.mem_singleton] at ht'
      rcases ht' with ht' | rfl
      · exact (((hi.mem a).1 ha).1 t' ht').trans hac
      · exact hbc
    · intro hc
      have hcT : CA g T c := fun t' ht' => hc t' (by simp [ht'])
      have hbound : ∀ y, CA g T y → y < g.size := by
        intro y hy
        have := (hy t ht).le htopo
        omega
      obtain ⟨h, hh, hhc⟩ := exists_head_above htopo hbound (g.size - c) c (Nat.le_refl _) hcT
      exact ⟨⟨h, (hi.mem h).2 hh, hhc⟩, q, by simp, hc q (by simp)⟩
  constructor
  · rintro ⟨h1, h2⟩
    refine ⟨(hset x).1 h1, ?_⟩
    rintro ⟨y, hy, hne, hp⟩
    exact h2 ⟨y, (hset y).2 hy, hne, hp⟩
  · rintro ⟨h1, h2⟩
    refine ⟨(hset x).2 h1, ?_⟩
    rintro ⟨y, hy, hne, hp⟩
    exact h2 ⟨y, (hset y).1 hy, hne, hp⟩

theorem fork_fold (g : Graph) (hw : g.WF) : ∀ (rest T acc : List Nat) (t : Nat), t ∈ T → t < g.size →
    (∀ q ∈ rest, q < g.size) → ForkInv g T acc →
      ForkInv g (T ++ rest) (rest.foldl (fun acc q => commonAncestorsPos g acc [q]) acc) := by
  intro rest
  induction rest with
  | nil => intro T acc t _ _ _ hi; simpa using hi
  | cons q rest ih =>
    intro T acc t ht htl hr hi
    simp only [List.foldl_cons]
    have := ih (T ++ [q]) (commonAncestorsPos g acc [q]) t (by simp [ht]) htl
      (fun x hx => hr x (by simp [hx])) (fork_step g hw ht htl (hr q (by simp)) hi)
    simpa using this

/-- `ForkPoint` arm -/
theorem forkPoint_spec (g : Graph) (hw : g.WF) (cands : List Nat) (hc : ∀ c ∈ cands, c < g.size) :
    Desc (forkPoint g cands) ∧ ∀ p, p ∈ forkPoint g cands ↔ ForkPointOf g (· ∈ cands) p := by
  cases cands with
  | nil => simp [forkPoint, Desc, ForkPointOf]
  | cons p0 rest =>
    have hinit : ForkInv g [p0] [p0] := by
      refine ⟨by simp [Desc], ?_⟩
      intro x
      simp only [List.mem_singleton, HeadsOf, CA]
      constructor
      · rintro rfl
        refine ⟨fun t ht => by subst ht; exact Path.refl _ _, ?_⟩
        rintro ⟨q, hq, hne, hqx⟩
        have h1 := (hq x rfl).le hw.topo
        have h2 := hqx.le hw.topo
        omega
      · rintro ⟨h1, h2⟩
        apply Classical.byContradiction
        intro hne
        exact h2 ⟨p0, fun t ht => by subst ht; exact Path.refl _ _, fun e => hne e.symm, h1 p0 rfl⟩
    have hfin := fork_fold g hw rest [p0] [p0] p0 (by simp) (hc p0 (by simp))
      (fun q hq => hc q (by simp [hq])) hinit
    simp only [forkPoint]
    refine ⟨hfin.desc, ?_⟩
    intro p
    rw [hfin.mem]
    simp only [ForkPointOf, List.singleton_append]
    constructor
    · intro h; exact ⟨⟨p0, by simp⟩, h⟩
    · exact fun h => h.2

end JjModel.Revset
