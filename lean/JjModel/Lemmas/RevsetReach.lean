import JjModel.Lemmas.RevsetSet
import JjModel.Model.RevsetSem
/-!
  C19 lemmas, part 18: the `Reachable` arm — the `|domain|`-fold closure computes the union of
  the connected components (inside the domain) that contain a source.
-/
namespace JjModel.Revset

/-- the test of one closure round -/
def stepPred (g : Graph) (dom cur : List Nat) (p : Nat) : Bool :=
  cur.contains p ||
    (g.par p).any (fun q => dom.contains q && cur.contains q) ||
    cur.any (fun c => (g.par c).contains p)

theorem reachStep_eq (g : Graph) (dom cur : List Nat) :
    reachStep g dom cur = dom.filter (stepPred g dom cur) := rfl

theorem filter_length_le {l : List Nat} {P Q : Nat → Bool} (h : ∀ x ∈ l, P x = true → Q x = true) :
    (l.filter P).length ≤ (l.filter Q).length := by
  induction l with
  | nil => simp
  | cons a l ih =>
    have ih' := ih (fun x hx => h x (by simp [hx]))
    have ha := h a (by simp)
    simp only [List.filter_cons]
    cases hP : P a <;> cases hQ : Q a <;> simp_all <;> omega

theorem filter_eq_of_length_eq {l : List Nat} {P Q : Nat → Bool}
    (h : ∀ x ∈ l, P x = true → Q x = true) (hl : (l.filter P).length = (l.filter Q).length) :
    l.filter P = l.filter Q := by
  induction l with
  | nil => simp
  | cons a l ih =>
    have h' : ∀ x ∈ l, P x = true → Q x = true := fun x hx => h x (by simp [hx])
    have hle := filter_length_le h'
    have ha := h a (by simp)
    simp only [List.filter_cons] at hl ⊢
    cases hP : P a <;> cases hQ : Q a <;> simp_all
    · omega

/-- `cur` is the domain filtered by some predicate -/
def IsFilt (dom cur : List Nat) : Prop := ∃ P : Nat → Bool, cur = dom.filter P

theorem isFilt_self_filter {dom cur : List Nat} (h : IsFilt dom cur) :
    cur = dom.filter cur.contains := by
  obtain ⟨P, rfl⟩ := h
  apply List.filter_congr
  intro x hx
  simp [hx]

theorem cur_sub_step (g : Graph) {dom cur : List Nat} :
    ∀ x ∈ dom, cur.contains x = true → stepPred g dom cur x = true := by
  intro x _ h; simp only [stepPred, h, Bool.true_or]

/-- a round either grows the list or has reached a fixpoint -/
theorem step_grows (g : Graph) {dom cur : List Nat} (h : IsFilt dom cur) :
    cur.length ≤ (reachStep g dom cur).length ∧
      (cur.length = (reachStep g dom cur).length → reachStep g dom cur = cur) := by
  have he := isFilt_self_filter h
  rw [reachStep_eq]
  constructor
  · conv => lhs; rw [he]
    exact filter_length_le (cur_sub_step g)
  · intro hl
    have : dom.filter cur.contains = dom.filter (stepPred g dom cur) :=
      filter_eq_of_length_eq (cur_sub_step g) (by rw [← he]; exact hl)
    rw [← this, ← he]

theorem reachIter_fix (g : Graph) (dom : List Nat) {cur : List Nat} (h : reachStep g dom cur = cur) :
    ∀ k, reachIter g dom k cur = cur := by
  intro k
  induction k with
  | zero => rfl
  | succ k ih => simp only [reachIter, h, ih]

theorem isFilt_step (g : Graph) (dom cur : List Nat) : IsFilt dom (reachStep g dom cur) :=
  ⟨_, reachStep_eq g dom cur⟩

theorem isFilt_iter (g : Graph) (dom : List Nat) : ∀ k cur, IsFilt dom cur → IsFilt dom (reachIter g dom k cur) := by
  intro k
  induction k with
  | zero => intro cur h; exact h
  | succ k ih => intro cur _; exact ih _ (isFilt_step g dom cur)

/-- after enough rounds the closure is a fixpoint -/
theorem reachIter_is_fix (g : Graph) (dom : List Nat) :
    ∀ (k : Nat) (cur : List Nat), IsFilt dom cur → dom.length - cur.length ≤ k →
      reachStep g dom (reachIter g dom k cur) = reachIter g dom k cur := by
  intro k
  induction k with
  | zero =>
    intro cur h hk
    simp only [reachIter]
    have hg := step_grows g h
    apply hg.2
    have : (reachStep g dom cur).length ≤ dom.length := by
      rw [reachStep_eq]; exact List.length_filter_le _ _
    omega
  | succ k ih =>
    intro cur h hk
    simp only [reachIter]
    have hg := step_grows g h
    by_cases he : cur.length = (reachStep g dom cur).length
    · have hfix := hg.2 he
      rw [hfix, reachIter_fix g dom hfix k]
      exact hfix
    · exact ih _ (isFilt_step g dom cur) (by omega)

theorem mem_step_iff (g : Graph) (dom cur : List Nat) (p : Nat) :
    p ∈ reachStep g dom cur ↔
      p ∈ dom ∧ (p ∈ cur ∨ (∃ q ∈ g.par p, q ∈ dom ∧ q ∈ cur) ∨ ∃ c ∈ cur, p ∈ g.par c) := by
  rw [reachStep_eq]
  simp only [List.mem_filter, stepPred, Bool.or_eq_true, List.contains_iff_mem, List.any_eq_true,
    Bool.and_eq_true]
  constructor
  · rintro ⟨h1, (h | ⟨q, hq, h2, h3⟩) | ⟨c, hc, h2⟩⟩
    · exact ⟨h1, Or.inl h⟩
    · exact ⟨h1, Or.inr (Or.inl ⟨q, hq, h2, h3⟩)⟩
    · exact ⟨h1, Or.inr (Or.inr ⟨c, hc, h2⟩)⟩
  · rintro ⟨h1, h | ⟨q, hq, h2, h3⟩ | ⟨c, hc, h2⟩⟩
    · exact ⟨h1, Or.inl (Or.inl h)⟩
    · exact ⟨h1, Or.inl (Or.inr ⟨q, hq, h2, h3⟩)⟩
    · exact ⟨h1, Or.inr ⟨c, hc, h2⟩⟩

/-- everything collected is connected to a source inside the domain -/
def ReachSound (g : Graph) (srcs dom cur : List Nat) : Prop :=
  ∀ p ∈ cur, p ∈ dom ∧ ∃ x ∈ srcs, x ∈ dom ∧ Conn g (· ∈ dom) x p

theorem sound_step (g : Graph) {srcs dom cur : List Nat} (h : ReachSound g srcs dom cur) :
    ReachSound g srcs dom (reachStep g dom cur) := by
  intro p hp
  rw [mem_step_iff] at hp
  obtain ⟨hd, hc | ⟨q, hq, _, hqc⟩ | ⟨c, hc, hpc⟩⟩ := hp
  · exact h p hc
  · obtain ⟨_, x, hx, hxd, hconn⟩ := h q hqc
    exact ⟨hd, x, hx, hxd, .step hconn hd (Or.inr hq)⟩
  · obtain ⟨_, x, hx, hxd, hconn⟩ := h c hc
    exact ⟨hd, x, hx, hxd, .step hconn hd (Or.inl hpc)⟩

theorem sound_iter (g : Graph) {srcs dom : List Nat} : ∀ k cur, ReachSound g srcs dom cur →
    ReachSound g srcs dom (reachIter g dom k cur) := by
  intro k
  induction k with
  | zero => intro cur h; exact h
  | succ k ih => intro cur h; exact ih _ (sound_step g h)

theorem mono_iter (g : Graph) (dom : List Nat) : ∀ k cur, (∀ x ∈ cur, x ∈ dom) →
    ∀ x ∈ cur, x ∈ reachIter g dom k cur := by
  intro k
  induction k with
  | zero => intro cur _ x hx; exact hx
  | succ k ih =>
    intro cur hsub x hx
    simp only [reachIter]
    apply ih
    · intro y hy; exact ((mem_step_iff g dom cur y).1 hy).1
    · exact (mem_step_iff g dom cur x).2 ⟨hsub x hx, Or.inl hx⟩

/-- a fixpoint of the closure round is closed under the edges inside the domain -/
theorem closed_of_fix (g : Graph) {dom R : List Nat} (hfix : reachStep g dom R = R) {x p : Nat}
    (hconn : Conn g (· ∈ dom) x p) (hx : x ∈ R) : p ∈ R := by
  induction hconn with
  | refl => exact hx
  | @step y z _ hz hadj ih =>
    have hy := ih
    rw [← hfix, mem_step_iff]
    refine ⟨hz, ?_⟩
    rcases hadj with h | h
    · exact Or.inr (Or.inr ⟨y, hy, h⟩)
    · have hyd : y ∈ dom := by
        rw [← hfix, mem_step_iff] at hy; exact hy.1
      exact Or.inr (Or.inl ⟨y, h, hyd, hy⟩)

/-- `Reachable` arm -/
theorem mem_reachableIn (g : Graph) (srcs dom : List Nat) (p : Nat) :
    p ∈ reachableIn g srcs dom ↔
      p ∈ dom ∧ ∃ x, x ∈ srcs ∧ x ∈ dom ∧ Conn g (· ∈ dom) x p := by
  unfold reachableIn
  have hf0 : IsFilt dom (dom.filter srcs.contains) := ⟨_, rfl⟩
  have hsub0 : ∀ x ∈ dom.filter srcs.contains, x ∈ dom := fun x hx => (List.mem_filter.1 hx).1
  constructor
  · intro hp
    have hs : ReachSound g srcs dom (dom.filter srcs.contains) := by
      intro q hq
      simp only [List.mem_filter, List.contains_iff_mem] at hq
      exact ⟨hq.1, q, hq.2, hq.1, .refl q⟩
    obtain ⟨hd, x, hx, hxd, hc⟩ := sound_iter g dom.length _ hs p hp
    exact ⟨hd, x, hx, hxd, hc⟩
  · rintro ⟨_, x, hx, hxd, hconn⟩
    have hfix := reachIter_is_fix g dom dom.length _ hf0 (by omega)
    have hxR : x ∈ reachIter g dom dom.length (dom.filter srcs.contains) :=
      mono_iter g dom _ _ hsub0 x (by simp [hxd, hx])
    exact closed_of_fix g hfix hconn hxR

theorem reachableIn_sublist (g : Graph) (srcs dom : List Nat) :
    (reachableIn g srcs dom).Sublist dom := by
  unfold reachableIn
  obtain ⟨P, hP⟩ := isFilt_iter g dom dom.length _ (⟨_, rfl⟩ : IsFilt dom (dom.filter srcs.contains))
  rw [hP]
  exact List.filter_sublist

end JjModel.Revset
