import JjModel.Lemmas.Bisect
/-!
  Bisection on linear history: every answer (good or bad) at least halves the candidate list.
-/
namespace JjModel.Bisect
open JjModel.Dag

/-- linear history: positions are totally ordered by ancestry -/
def Linear (G : Graph) : Prop := ∀ a d, a ≤ d → d < G.length → Anc G a d

/-! ### splitting a strictly descending list at an index -/

theorem split_at {cs : List Nat} {i : Nat} (h : i < cs.length) :
    cs = cs.take i ++ cs[i] :: cs.drop (i + 1) := by
  rw [← List.drop_eq_getElem_cons h, List.take_append_drop]

theorem below_in_tail {l1 l2 : List Nat} {c x : Nat} (hp : (l1 ++ c :: l2).Pairwise (· > ·))
    (hx : x ∈ l1 ++ c :: l2) (hlt : x < c) : x ∈ l2 := by
  rw [List.pairwise_append] at hp
  rcases List.mem_append.1 hx with h1 | h1
  · have := hp.2.2 x h1 c (by simp)
    omega
  · rcases List.mem_cons.1 h1 with h2 | h2
    · omega
    · exact h2

theorem above_in_init {l1 l2 : List Nat} {c x : Nat} (hp : (l1 ++ c :: l2).Pairwise (· > ·))
    (hx : x ∈ l1 ++ c :: l2) (hgt : c < x) : x ∈ l1 := by
  rw [List.pairwise_append] at hp
  rcases List.mem_append.1 hx with h1 | h1
  · exact h1
  · rcases List.mem_cons.1 h1 with h2 | h2
    · omega
    · have h3 := (List.pairwise_cons.1 hp.2.1).1 x h2
      omega

theorem below_in_drop {cs : List Nat} (hp : cs.Pairwise (· > ·)) {i : Nat} (h : i < cs.length)
    {x : Nat} (hx : x ∈ cs) (hlt : x < cs[i]) : x ∈ cs.drop (i + 1) := by
  have hs := split_at h
  have hp' : (cs.take i ++ cs[i] :: cs.drop (i + 1)).Pairwise (· > ·) := by rw [← hs]; exact hp
  have hx' : x ∈ cs.take i ++ cs[i] :: cs.drop (i + 1) := by rw [← hs]; exact hx
  exact below_in_tail hp' hx' hlt

theorem above_in_take {cs : List Nat} (hp : cs.Pairwise (· > ·)) {i : Nat} (h : i < cs.length)
    {x : Nat} (hx : x ∈ cs) (hgt : cs[i] < x) : x ∈ cs.take i := by
  have hs := split_at h
  have hp' : (cs.take i ++ cs[i] :: cs.drop (i + 1)).Pairwise (· > ·) := by rw [← hs]; exact hp
  have hx' : x ∈ cs.take i ++ cs[i] :: cs.drop (i + 1) := by rw [← hs]; exact hx
  exact above_in_init hp' hx' hgt

theorem bisectPick_spec {cs : List Nat} {c : Nat} (h : bisectPick cs = some c) :
    ∃ hlt : cs.length / 2 < cs.length, cs[cs.length / 2] = c := by
  unfold bisectPick at h
  obtain ⟨hlt, heq⟩ := List.getElem?_eq_some_iff.1 h
  exact ⟨hlt, heq⟩

/-- elements of a duplicate-free list that all lie strictly below the picked element -/
theorem length_below_pick {cs xs : List Nat} (hp : cs.Pairwise (· > ·)) {c : Nat}
    (hc : bisectPick cs = some c) (hn : xs.Nodup) (hsub : ∀ x ∈ xs, x ∈ cs ∧ x < c) :
    xs.length ≤ cs.length / 2 := by
  obtain ⟨hlt, heq⟩ := bisectPick_spec hc
  have h1 : ∀ x ∈ xs, x ∈ cs.drop (cs.length / 2 + 1) := by
    intro x hx
    obtain ⟨h2, h3⟩ := hsub x hx
    exact below_in_drop hp hlt h2 (by rw [heq]; exact h3)
  have := length_le_of_nodup_subset hn h1
  rw [List.length_drop] at this
  omega

theorem length_above_pick {cs xs : List Nat} (hp : cs.Pairwise (· > ·)) {c : Nat}
    (hc : bisectPick cs = some c) (hn : xs.Nodup) (hsub : ∀ x ∈ xs, x ∈ cs ∧ c < x) :
    xs.length ≤ cs.length / 2 := by
  obtain ⟨hlt, heq⟩ := bisectPick_spec hc
  have h1 : ∀ x ∈ xs, x ∈ cs.take (cs.length / 2) := by
    intro x hx
    obtain ⟨h2, h3⟩ := hsub x hx
    exact above_in_take hp hlt h2 (by rw [heq]; exact h3)
  have := length_le_of_nodup_subset hn h1
  rw [List.length_take] at this
  omega

/-! ### candidates after an answer -/

variable {G : Graph} {R B : List Nat}

theorem candidates_pairwise (st : State) :
    (candidates (ancTable G) G.length R st).Pairwise (· > ·) := descFilter_pairwise _ _

theorem candidates_nodup (st : State) : (candidates (ancTable G) G.length R st).Nodup :=
  descFilter_nodup _ _

/-- general DAG: after a `bad` answer the candidates shrink to a subset, and every remaining
candidate is an ancestor of a root of the new bad set -/
theorem candidates_after_bad (hwf : WF G) {st : State} {c : Nat}
    (hc : c ∈ candidates (ancTable G) G.length R st) {x : Nat}
    (hx : x ∈ candidates (ancTable G) G.length R (mark st c .bad)) :
    x ∈ candidates (ancTable G) G.length R st ∧ x ≠ c := by
  obtain ⟨c1, c2, c3, c4, c5, c6⟩ := mem_candidates.1 hc
  obtain ⟨x1, x2, x3, x4, x5, x6⟩ := mem_candidates.1 hx
  simp only [mark, List.mem_cons, not_or] at x3 x4 x5 x6
  refine ⟨mem_candidates.2 ⟨x1, x2, ?_, x4, x5.2, x6⟩, x5.1⟩
  obtain ⟨r', hr', hxr'⟩ := (isAncOfAny_iff hwf).1 x3
  obtain ⟨r0, hr0, hcr0⟩ := (isAncOfAny_iff hwf).1 c3
  have hr'' := (mem_rootsOf hwf).1 hr'
  rcases List.mem_cons.1 hr''.2.1 with h | h
  · subst h
    exact (isAncOfAny_iff hwf).2 ⟨r0, hr0, hxr'.trans hcr0⟩
  · refine (isAncOfAny_iff hwf).2 ⟨r', (mem_rootsOf hwf).2 ⟨hr''.1, h, ?_⟩, hxr'⟩
    intro y hy hya
    exact hr''.2.2 y (List.mem_cons_of_mem _ hy) hya

/-- linear history: after a `bad` answer only candidates below the tested commit remain -/
theorem candidates_after_bad_linear (hwf : WF G) (hlin : Linear G) {st : State} {c : Nat}
    (hc : c ∈ candidates (ancTable G) G.length R st) {x : Nat}
    (hx : x ∈ candidates (ancTable G) G.length R (mark st c .bad)) : x < c := by
  obtain ⟨c1, c2, c3, c4, c5, c6⟩ := mem_candidates.1 hc
  obtain ⟨x1, x2, x3, x4, x5, x6⟩ := mem_candidates.1 hx
  simp only [mark, List.mem_cons, not_or] at x3 x5
  obtain ⟨r', hr', hxr'⟩ := (isAncOfAny_iff hwf).1 x3
  obtain ⟨r0, hr0, hcr0⟩ := (isAncOfAny_iff hwf).1 c3
  have hr'' := (mem_rootsOf hwf).1 hr'
  have hr0' := (mem_rootsOf hwf).1 hr0
  have hrc : r' = c := by
    rcases List.mem_cons.1 hr''.2.1 with h | h
    · exact h
    · -- r' ∈ bad: compare with c
      by_cases hle : c ≤ r'
      · have := hr''.2.2 c (by simp) (hlin c r' hle hr''.1)
        exact this.symm
      · have h1 : Anc G r' c := hlin r' c (by omega) c1
        have h2 : r' = r0 := hr0'.2.2 r' h (h1.trans hcr0)
        have := hcr0.le hwf
        omega
  subst hrc
  have := hxr'.le hwf
  omega

/-- general DAG: after a `good` answer the candidates shrink to a subset -/
theorem candidates_after_good (hwf : WF G) {st : State} (hg : ∀ g ∈ st.good, g < G.length) {c : Nat}
    (hc : c ∈ candidates (ancTable G) G.length R st) {x : Nat}
    (hx : x ∈ candidates (ancTable G) G.length R (mark st c .good)) :
    x ∈ candidates (ancTable G) G.length R st ∧ ¬ Anc G x c := by
  obtain ⟨c1, _⟩ := mem_candidates.1 hc
  obtain ⟨x1, x2, x3, x4, x5, x6⟩ := mem_candidates.1 hx
  simp only [mark] at x3 x4 x5 x6
  have hg' : ∀ g ∈ c :: st.good, g < G.length := by
    intro g hg'
    rcases List.mem_cons.1 hg' with h | h
    · subst h; exact c1
    · exact hg g h
  have key : ∀ h ∈ c :: st.good, ¬ Anc G x h := by
    intro h hh ha
    obtain ⟨h', hh', hah'⟩ := exists_head_above hwf hg' h hh
    have : isAncOfAny (ancTable G) (headsOf (ancTable G) G.length (c :: st.good)) x = true :=
      (isAncOfAny_iff hwf).2 ⟨h', hh', ha.trans hah'⟩
    rw [this] at x4; cases x4
  refine ⟨mem_candidates.2 ⟨x1, x2, x3, ?_, x5, x6⟩, key c (by simp)⟩
  cases hv : isAncOfAny (ancTable G) (headsOf (ancTable G) G.length st.good) x with
  | false => rfl
  | true =>
    obtain ⟨h, hh, ha⟩ := (isAncOfAny_iff hwf).1 hv
    have := (mem_headsOf hwf).1 hh
    exact absurd ha (key h (List.mem_cons_of_mem _ this.2.1))

/-- linear history: every answer at least halves the candidate list -/
theorem candidates_halve (hwf : WF G) (hlin : Linear G) {st : State}
    (hg : ∀ g ∈ st.good, g < G.length) {c : Nat}
    (hpick : bisectPick (candidates (ancTable G) G.length R st) = some c) (e : Eval) (he : e ≠ .skip) :
    (candidates (ancTable G) G.length R (mark st c e)).length ≤
      (candidates (ancTable G) G.length R st).length / 2 := by
  have hc := bisectPick_mem hpick
  have c1 := (mem_candidates.1 hc).1
  cases e with
  | skip => exact absurd rfl he
  | bad =>
    refine length_below_pick (candidates_pairwise st) hpick (candidates_nodup _) ?_
    intro x hx
    exact ⟨(candidates_after_bad hwf hc hx).1, candidates_after_bad_linear hwf hlin hc hx⟩
  | good =>
    refine length_above_pick (candidates_pairwise st) hpick (candidates_nodup _) ?_
    intro x hx
    obtain ⟨h1, h2⟩ := candidates_after_good hwf hg hc hx
    refine ⟨h1, ?_⟩
    apply Classical.byContradiction
    intro hle
    exact h2 (hlin x c (by omega) c1)

theorem verdict_noskip (B : List Nat) (c : Nat) : verdict B [] c ≠ .skip := by
  unfold verdict
  simp only [List.contains_nil, Bool.false_eq_true, if_false]
  split <;> simp

theorem nextStep_evaluate_pick {st : State} {c : Nat}
    (h : nextStep G (ancTable G) G.length R st = .evaluate c) :
    bisectPick (candidates (ancTable G) G.length R st) = some c := by
  unfold nextStep at h
  split at h
  · rename_i c' hc; cases h; exact hc
  · cases h

/-- linear history: with fewer than `2^e` candidates at most `e` more evaluations happen -/
theorem runFrom_linear_steps (hwf : WF G) (hlin : Linear G) (f : Nat) (st : State) (acc : List Nat)
    (hi : Inv G st acc) (e : Nat) (hk : (candidates (ancTable G) G.length R st).length < 2 ^ e) :
    (runFrom G (ancTable G) G.length R B [] f st acc).evals.length ≤ acc.length + e := by
  induction f generalizing st acc e with
  | zero => simp [runFrom]
  | succ f ih =>
    unfold runFrom
    split
    · simp
    · rename_i c hc
      have hpick := nextStep_evaluate_pick hc
      have hmem := bisectPick_mem hpick
      have hpos : 0 < (candidates (ancTable G) G.length R st).length := List.length_pos_of_mem hmem
      cases e with
      | zero => rw [Nat.pow_zero] at hk; omega
      | succ e' =>
        have hhalf := candidates_halve (R := R) hwf hlin hi.good_lt hpick (verdict B [] c) (verdict_noskip B c)
        have hk' : (candidates (ancTable G) G.length R (mark st c (verdict B [] c))).length < 2 ^ e' := by
          rw [Nat.pow_succ] at hk
          omega
        have := ih _ _ (hi.step hwf hmem _) e' hk'
        simp only [List.length_cons] at this
        omega

end JjModel.Bisect
