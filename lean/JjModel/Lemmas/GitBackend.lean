import JjModel.Model.GitBackend
/-! Helper lemmas for C17. -/
namespace JjModel.GitBackend

/-! ### label header: `split_terminator('\n') ∘ (join("\n") + "\n") = id` -/

theorem splitTerminatorAux_line (l rest acc : Bytes) (h : l.contains 10 = false) :
    splitTerminatorAux (l ++ 10 :: rest) acc = (acc.reverse ++ l) :: splitTerminatorAux rest [] := by
  induction l generalizing acc with
  | nil => simp [splitTerminatorAux]
  | cons c cs ih =>
    have hc : c ≠ 10 := by
      intro e; subst e; simp at h
    have hcs : cs.contains 10 = false := by
      simp only [List.contains_cons, Bool.or_eq_false_iff] at h; exact h.2
    simp only [List.cons_append, splitTerminatorAux, hc, if_false]
    rw [ih _ hcs]; simp

theorem joinNl_cons (l : Bytes) (ls : List Bytes) (h : ls ≠ []) :
    joinNl (l :: ls) = l ++ [10] ++ joinNl ls := by
  cases ls with
  | nil => exact absurd rfl h
  | cons a b => rfl

/-- the label header decodes to the labels (for labels without newline) -/
theorem splitTerminator_labelsHeaderValue (ls : List Bytes) (hne : ls ≠ [])
    (h : ∀ l ∈ ls, l.contains 10 = false) : splitTerminator (labelsHeaderValue ls) = ls := by
  unfold splitTerminator labelsHeaderValue
  induction ls with
  | nil => exact absurd rfl hne
  | cons l rest ih =>
    cases rest with
    | nil =>
      simp only [joinNl]
      rw [show l ++ [10] = l ++ 10 :: [] from rfl, splitTerminatorAux_line l [] [] (h l (by simp))]
      simp [splitTerminatorAux]
    | cons a b =>
      rw [joinNl_cons l (a :: b) (by simp)]
      rw [show l ++ [10] ++ joinNl (a :: b) ++ [10] = l ++ 10 :: (joinNl (a :: b) ++ [10]) by simp]
      rw [splitTerminatorAux_line l _ [] (h l (by simp))]
      rw [ih (by simp) (fun x hx => h x (by simp [hx]))]
      simp

/-! ### signatures -/

theorem trim_placeholder : trim placeholder = placeholder := by decide

/-- name / email survive the Git form: no surrounding whitespace, not the placeholder itself -/
structure TokenCanon (b : Bytes) : Prop where
  trimmed : trim b = b
  notPlaceholder : b ≠ placeholder

theorem token_roundtrip (b : Bytes) (h : TokenCanon b) :
    (let g := if b.isEmpty then placeholder else b
     if trim g = placeholder then [] else trim g) = b := by
  by_cases he : b = []
  · subst he; simp [trim_placeholder]
  · have : b.isEmpty = false := by cases b <;> simp_all
    simp [this, h.trimmed, h.notPlaceholder]

structure SigCanon (s : Signature) : Prop where
  name : TokenCanon s.name
  email : TokenCanon s.email

/-- `signature_from_git ∘ signature_to_git`, with the seconds possibly adjusted by the write loop -/
theorem sig_roundtrip (s : Signature) (h : SigCanon s) (x : Int) :
    signatureFromGit { signatureToGit s with seconds := x } = { s with ms := x * 1000 } := by
  have hn := token_roundtrip s.name h.name
  have he := token_roundtrip s.email h.email
  simp only at hn he
  obtain ⟨n, e, ms, tz⟩ := s
  simp only [signatureFromGit, signatureToGit] at *
  simp only [hn, he]
  congr 1
  omega

theorem sig_roundtrip_whole (s : Signature) (h : SigCanon s) (hw : s.ms % 1000 = 0) :
    signatureFromGit (signatureToGit s) = s := by
  have := sig_roundtrip s h (s.ms / 1000)
  have e : { signatureToGit s with seconds := s.ms / 1000 } = signatureToGit s := rfl
  rw [e] at this; rw [this]
  obtain ⟨n, e, ms, tz⟩ := s
  simp only at hw ⊢
  congr 1; omega

/-! ### parents -/

theorem gitParents_go_noroot (parents ps acc : List Bytes) (h : ∀ p ∈ ps, p ≠ rootCommitId)
    (r : List Bytes) (hr : gitParents.go parents ps acc = .ok r) : r = acc.reverse ++ ps := by
  induction ps generalizing acc with
  | nil => simp [gitParents.go] at hr; simp [hr]
  | cons p rest ih =>
    have hp : p ≠ rootCommitId := h p (by simp)
    simp only [gitParents.go, hp, if_false] at hr
    split at hr
    · have := ih (p :: acc) (fun q hq => h q (by simp [hq])) hr
      simp [this]
    · cases hr

/-- the Git parents plus the re-inserted root parent are the commit's parents -/
theorem gitParents_readback (parents r : List Bytes) (hne : parents ≠ []) (hr : gitParents parents = .ok r) :
    (if r.isEmpty then [rootCommitId] else r) = parents := by
  by_cases hroot : rootCommitId ∈ parents
  · -- root among the parents: only accepted when it is the only parent
    have hlen : ¬ parents.length > 1 := by
      intro hgt
      have : ∀ (ps acc : List Bytes), rootCommitId ∈ ps → ∀ r, gitParents.go parents ps acc ≠ .ok r := by
        intro ps
        induction ps with
        | nil => intro acc h; cases h
        | cons p rest ih =>
          intro acc hmem r
          by_cases hp : p = rootCommitId
          · simp [gitParents.go, hp, hgt]
          · simp only [gitParents.go, hp, if_false]
            split
            · exact ih _ (by simpa [Ne.symm hp] using hmem) r
            · intro c; cases c
      exact this parents [] hroot r hr
    match parents, hne, hroot, hlen, hr with
    | [p], _, hroot, _, hr =>
      have hp : p = rootCommitId := (by simpa using hroot : rootCommitId = p).symm
      subst hp
      simp [gitParents, gitParents.go] at hr
      simp [← hr]
    | _ :: _ :: _, _, _, hlen, _ => simp at hlen
  · have := gitParents_go_noroot parents parents [] (fun p hp e => hroot (e ▸ hp)) r hr
    simp only [List.reverse_nil, List.nil_append] at this
    subst this
    cases r with
    | nil => exact absurd rfl hne
    | cons a b => rfl

/-! ### the adjustment loop only touches the committer seconds -/

theorem adjustLoop_shape (t : Table) (e : Extras) (fuel : Nat) (g : GitCommit) :
    ∃ s, adjustLoop t e fuel g = { g with committer := { g.committer with seconds := s } } := by
  induction fuel generalizing g with
  | zero => exact ⟨g.committer.seconds, rfl⟩
  | succ n ih =>
    simp only [adjustLoop]
    split
    · split
      · obtain ⟨s, hs⟩ := ih { g with committer := { g.committer with seconds := g.committer.seconds - 1 } }
        exact ⟨s, by rw [hs]⟩
      · exact ⟨g.committer.seconds, rfl⟩
    · exact ⟨g.committer.seconds, rfl⟩

theorem Table.get?_head (t : Table) (g : GitCommit) (e : Extras) : Table.get? ((g, e) :: t) g = some e := by
  simp [Table.get?]

/-! ### the fuel of the adjustment loop suffices -/

theorem filter_length_le_of_imp {α} (p q : α → Bool) (l : List α) (h : ∀ x, q x = true → p x = true) :
    (l.filter q).length ≤ (l.filter p).length := by
  induction l with
  | nil => simp
  | cons a r ih =>
    by_cases hq : q a = true
    · simp [hq, h a hq]; exact ih
    · by_cases hp : p a = true
      · simp [hq, hp]; omega
      · simp [hq, hp]; exact ih

theorem filter_length_lt_of_imp {α} (p q : α → Bool) (l : List α) (h : ∀ x, q x = true → p x = true)
    (x : α) (hx : x ∈ l) (hpx : p x = true) (hqx : q x = false) :
    (l.filter q).length < (l.filter p).length := by
  induction l with
  | nil => cases hx
  | cons a r ih =>
    rcases List.mem_cons.mp hx with rfl | hm
    · have := filter_length_le_of_imp p q r h
      simp [hpx, hqx]; omega
    · have := ih hm
      by_cases hq : q a = true
      · simp [hq, h a hq]; exact this
      · by_cases hp : p a = true
        · simp [hq, hp]; omega
        · simp [hq, hp]; exact this

/-- forget the committer second -/
def normSec (g : GitCommit) : GitCommit := { g with committer := { g.committer with seconds := 0 } }

def belowCount (t : Table) (g : GitCommit) : Nat :=
  (t.filter fun x => decide (normSec x.1 = normSec g) && decide (x.1.committer.seconds ≤ g.committer.seconds)).length

theorem Table.get?_some_mem (t : Table) (g : GitCommit) (e : Extras) (h : t.get? g = some e) : (g, e) ∈ t := by
  unfold Table.get? at h
  cases hf : t.find? (fun x => decide (x.1 = g)) with
  | none => simp [hf] at h
  | some x =>
    simp [hf] at h
    have hm := List.mem_of_find?_eq_some hf
    have hp := List.find?_some hf
    simp at hp
    obtain ⟨a, b⟩ := x
    simp at hp h
    subst hp h
    exact hm

/-- the fuel of `adjustLoop` suffices: the loop stops on a record that is either new to the table
or already associated with the very same extras -/
theorem adjustLoop_terminates (t : Table) (e : Extras) (fuel : Nat) (g : GitCommit)
    (hf : belowCount t g < fuel) :
    t.get? (adjustLoop t e fuel g) = none ∨ t.get? (adjustLoop t e fuel g) = some e := by
  induction fuel generalizing g with
  | zero => omega
  | succ n ih =>
    simp only [adjustLoop]
    cases hget : t.get? g with
    | none => simp [hget]
    | some e' =>
      show (t.get? (if e' ≠ e then adjustLoop t e n { g with committer := { g.committer with seconds := g.committer.seconds - 1 } } else g) = none ∨
        t.get? (if e' ≠ e then adjustLoop t e n { g with committer := { g.committer with seconds := g.committer.seconds - 1 } } else g) = some e)
      by_cases hne : e' ≠ e
      · rw [if_pos hne]
        apply ih
        have hm := Table.get?_some_mem t g e' hget
        have : belowCount t { g with committer := { g.committer with seconds := g.committer.seconds - 1 } } < belowCount t g := by
          unfold belowCount
          apply filter_length_lt_of_imp _ _ t _ (g, e') hm
          · simp
          · simp [normSec]; omega
          · intro x hx
            simp only [normSec, Bool.and_eq_true, decide_eq_true_eq] at hx ⊢
            exact ⟨hx.1, by have := hx.2; omega⟩
        omega
      · have he : e' = e := by simpa using hne
        rw [if_neg hne, hget, he]; exact Or.inr rfl

theorem adjustLoop_fuel_suffices (t : Table) (e : Extras) (g : GitCommit) :
    t.get? (adjustLoop t e (t.length + 1) g) = none ∨ t.get? (adjustLoop t e (t.length + 1) g) = some e := by
  apply adjustLoop_terminates
  have : belowCount t g ≤ t.length := List.length_filter_le _ _
  omega

end JjModel.GitBackend
