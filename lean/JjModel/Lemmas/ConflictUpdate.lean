import JjModel.Model.ConflictUpdate
/-!
  Lemmas about `simplifiedMapping` / `updateFromSimplified` (`Model/Merge.lean`) needed by C06:
  the mapping consists of valid positions, so `update_from_simplified` never hits its assertion in
  `update_from_content`, keeps the arity, and leaves every position outside the mapping untouched.
-/
namespace JjModel.Merge
variable {α : Type} [DecidableEq α]
set_option linter.unusedSectionVars false

theorem mem_swapIdx {l : List Nat} {i j x : Nat} (h : x ∈ swapIdx l i j) : x ∈ l := by
  unfold swapIdx at h
  split at h
  · rename_i a b ha hb
    rcases List.mem_or_eq_of_mem_set h with h1 | rfl
    · rcases List.mem_or_eq_of_mem_set h1 with h2 | rfl
      · exact h2
      · exact List.mem_of_getElem? hb
    · exact List.mem_of_getElem? ha
  · exact h

theorem mappingLoop_mem (vals : List α) (fuel : Nat) (idx : List Nat) (a : Nat) {x : Nat}
    (h : x ∈ mappingLoop vals fuel idx a) : x ∈ idx := by
  induction fuel generalizing idx a with
  | zero => simpa [mappingLoop] using h
  | succ fuel ih =>
    simp only [mappingLoop] at h
    split at h
    · split at h
      · exact h
      · split at h
        · have := ih _ _ h
          exact mem_swapIdx (List.mem_of_mem_eraseIdx (List.mem_of_mem_eraseIdx this))
        · exact ih _ _ h
    · exact h

/-- every entry of the simplified mapping is a position of the original conflict -/
theorem simplifiedMapping_valid (vals : List α) {x : Nat} (h : x ∈ simplifiedMapping vals) :
    x < vals.length := by
  have := mappingLoop_mem vals _ _ _ h
  simpa using this

theorem simplify_length (vals : List α) : (simplify vals).length = (simplifiedMapping vals).length := by
  unfold simplify applyMapping
  have : ∀ m : List Nat, (∀ x ∈ m, x < vals.length) → (m.filterMap (vals[·]?)).length = m.length := by
    intro m hm
    induction m with
    | nil => rfl
    | cons a m ih =>
      have ha : a < vals.length := hm a (by simp)
      have : vals[a]? = some vals[a] := List.getElem?_eq_getElem ha
      simp [this, ih (fun x hx => hm x (List.mem_cons_of_mem _ hx))]
  exact this _ (fun x hx => simplifiedMapping_valid vals hx)

theorem foldl_set_length (l : List α) (ps : List (Nat × α)) :
    (ps.foldl (fun acc p => acc.set p.1 p.2) l).length = l.length := by
  induction ps generalizing l with
  | nil => rfl
  | cons p ps ih => simp [List.foldl_cons, ih]

theorem foldl_set_untouched (l : List α) (ps : List (Nat × α)) (i : Nat)
    (h : ∀ p ∈ ps, p.1 ≠ i) : (ps.foldl (fun acc p => acc.set p.1 p.2) l)[i]? = l[i]? := by
  induction ps generalizing l with
  | nil => rfl
  | cons p ps ih =>
    simp only [List.foldl_cons]
    rw [ih _ (fun q hq => h q (List.mem_cons_of_mem _ hq))]
    exact List.getElem?_set_ne (h p (by simp))

/-- `update_from_simplified` given a replacement of the right arity: never asserts, keeps the
arity, and does not touch positions outside the mapping (the cancelled pairs). -/
theorem updateFromSimplified_spec (vals s : List α) (hs : s.length = (simplify vals).length) :
    ∃ r, updateFromSimplified vals s = some r ∧ r.length = vals.length ∧
      ∀ i, i ∉ simplifiedMapping vals → r[i]? = vals[i]? := by
  unfold updateFromSimplified
  rw [simplify_length] at hs
  simp only [hs, if_true]
  refine ⟨_, rfl, foldl_set_length _ _, ?_⟩
  intro i hi
  apply foldl_set_untouched
  intro p hp hpi
  exact hi (hpi ▸ (List.of_mem_zip hp).1)


theorem swapIdx_perm (l : List Nat) (i j : Nat) : List.Perm (swapIdx l i j) l := by
  unfold swapIdx
  split
  · rename_i a b ha hb
    obtain ⟨hi, rfl⟩ := List.getElem?_eq_some_iff.mp ha
    obtain ⟨hj, rfl⟩ := List.getElem?_eq_some_iff.mp hb
    exact List.set_set_perm hi hj
  · exact List.Perm.refl _

theorem mappingLoop_nodup (vals : List α) (fuel : Nat) (idx : List Nat) (a : Nat) (h : idx.Nodup) :
    (mappingLoop vals fuel idx a).Nodup := by
  induction fuel generalizing idx a with
  | zero => simpa [mappingLoop] using h
  | succ fuel ih =>
    simp only [mappingLoop]
    split
    · split
      · exact h
      · split
        · exact ih _ _ (((swapIdx_perm _ _ _).nodup_iff.mpr h).eraseIdx _ |>.eraseIdx _)
        · exact ih _ _ h
    · exact h

theorem simplifiedMapping_nodup (vals : List α) : (simplifiedMapping vals).Nodup :=
  mappingLoop_nodup vals _ _ _ List.nodup_range

theorem foldl_set_get (l : List α) (ps : List (Nat × α)) (hnd : (ps.map Prod.fst).Nodup)
    (i : Nat) (v : α) (hm : (i, v) ∈ ps) (hi : i < l.length) :
    (ps.foldl (fun acc p => acc.set p.1 p.2) l)[i]? = some v := by
  induction ps generalizing l with
  | nil => simp at hm
  | cons p ps ih =>
    simp only [List.map_cons, List.nodup_cons] at hnd
    simp only [List.foldl_cons]
    rcases List.mem_cons.mp hm with rfl | hm'
    · rw [foldl_set_untouched]
      · simp [hi]
      · intro q hq hqi
        have hmem : q.1 ∈ ps.map Prod.fst := List.mem_map_of_mem (f := Prod.fst) hq
        rw [hqi] at hmem
        exact hnd.1 hmem
    · exact ih _ hnd.2 hm' (by simpa using hi)

/-- … and position `m[k]` of the result holds the `k`-th replacement term -/
theorem updateFromSimplified_replaced (vals s r : List α) (hs : s.length = (simplify vals).length)
    (hr : updateFromSimplified vals s = some r) (k : Nat) (hk : k < s.length) :
    ∃ p, (simplifiedMapping vals)[k]? = some p ∧ r[p]? = s[k]? := by
  have hlen := simplify_length vals
  have hkm : k < (simplifiedMapping vals).length := by omega
  refine ⟨(simplifiedMapping vals)[k], List.getElem?_eq_getElem hkm, ?_⟩
  unfold updateFromSimplified at hr
  rw [hlen] at hs
  simp only [hs, if_true, Option.some.injEq] at hr
  subst hr
  rw [List.getElem?_eq_getElem hk]
  apply foldl_set_get
  · rw [List.map_fst_zip (by omega)]; exact simplifiedMapping_nodup vals
  · have : ((simplifiedMapping vals).zip s)[k]'(by simp; omega) = ((simplifiedMapping vals)[k], s[k]) := by
      simp
    rw [← this]; exact List.getElem_mem _
  · exact simplifiedMapping_valid vals (List.getElem_mem hkm)


theorem findRemove_lt (vals : List α) (add : α) (idx : List Nat) (pos : Nat) {r : Nat}
    (h : findRemove vals add idx pos = some r) : r < pos + idx.length := by
  fun_induction findRemove vals add idx pos with
  | case1 => simp at h
  | case2 => simp at h
  | case3 => simp at h; simp; omega
  | case4 _ _ _ _ _ _ _ ih => have := ih h; simp; omega
  | case5 _ _ _ _ _ ih => have := ih h; simp; omega

theorem mappingLoop_length (vals : List α) (fuel : Nat) (idx : List Nat) (a : Nat) :
    (mappingLoop vals fuel idx a).length ≤ idx.length ∧
      ((mappingLoop vals fuel idx a).length = idx.length → mappingLoop vals fuel idx a = idx) := by
  induction fuel generalizing idx a with
  | zero => simp [mappingLoop]
  | succ fuel ih =>
    simp only [mappingLoop]
    split
    · split
      · simp
      · split
        · rename_i r hr
          have hlt := findRemove_lt vals _ idx 0 hr
          have hswap : (swapIdx idx (r + 1) a).length = idx.length := (swapIdx_perm _ _ _).length_eq
          have h1 : ((swapIdx idx (r + 1) a).eraseIdx r).length = idx.length - 1 := by
            rw [List.length_eraseIdx, hswap]; simp at hlt; simp [hlt]
          have h2 : (((swapIdx idx (r + 1) a).eraseIdx r).eraseIdx r).length ≤ idx.length - 1 := by
            rw [← h1]; exact List.length_eraseIdx_le _ _
          have := (ih (((swapIdx idx (r + 1) a).eraseIdx r).eraseIdx r) a).1
          simp at hlt
          constructor
          · omega
          · intro heq; omega
        · exact ih _ _
    · simp

/-- when nothing cancels, the mapping is the identity -/
theorem simplifiedMapping_id (vals : List α) (h : (simplify vals).length = vals.length) :
    simplifiedMapping vals = List.range vals.length := by
  rw [simplify_length] at h
  exact (mappingLoop_length vals _ _ _).2 (by simpa [simplifiedMapping] using h)

end JjModel.Merge
