import JjModel.Model.Bisect
import JjModel.Lemmas.Dag
/-!
  Lemmas about the bisection model: invariants of `runFrom`.
-/
namespace JjModel.Bisect
open JjModel.Dag

/-- the outcome is consistent with history: every child of a bad commit is bad -/
def Mono (G : Graph) (B : List Nat) : Prop := ∀ c p, p ∈ parents G c → p ∈ B → c ∈ B

/-- the heads of the range are bad (assumption documented by `Bisector::new`) -/
def HeadsBad (G : Graph) (R B : List Nat) : Prop := ∀ h ∈ headsOf (ancTable G) G.length R, h ∈ B

/-- `r` is an earliest bad commit of the range: in the range, bad, and every other commit of the
range that is an ancestor of `r` is good -/
def FirstBad (G : Graph) (R B : List Nat) (r : Nat) : Prop :=
  r ∈ R ∧ r ∈ B ∧ ∀ a ∈ R, a ≠ r → Anc G a r → a ∉ B

theorem Mono.anc {G : Graph} {B : List Nat} (hm : Mono G B) {a d : Nat} (h : Anc G a d) :
    a ∈ B → d ∈ B := by
  induction h with
  | refl => exact id
  | step hp _ ih => exact fun ha => hm _ _ hp (ih ha)

/-! ### pigeonhole -/

theorem length_le_of_nodup_subset {l m : List Nat} (hl : l.Nodup) (hs : ∀ x ∈ l, x ∈ m) :
    l.length ≤ m.length := by
  induction l generalizing m with
  | nil => simp
  | cons x xs ih =>
    have hx : x ∈ m := hs x (by simp)
    rw [List.nodup_cons] at hl
    have h1 : ∀ y ∈ xs, y ∈ m.erase x := by
      intro y hy
      have hne : y ≠ x := fun h => hl.1 (h ▸ hy)
      exact (List.mem_erase_of_ne hne).2 (hs y (by simp [hy]))
    have := ih hl.2 h1
    rw [List.length_erase_of_mem hx] at this
    have : 0 < m.length := List.length_pos_of_mem hx
    simp only [List.length_cons]
    omega

theorem length_le_of_nodup_lt {l : List Nat} {n : Nat} (hl : l.Nodup) (hs : ∀ x ∈ l, x < n) :
    l.length ≤ n := by
  have := length_le_of_nodup_subset (m := List.range n) hl (fun x hx => List.mem_range.2 (hs x hx))
  simpa using this

theorem nodup_reverse {l : List Nat} (h : l.Nodup) : l.reverse.Nodup := by
  unfold List.Nodup at *
  rw [List.pairwise_reverse]
  exact h.imp (fun h => Ne.symm h)

/-! ### picking -/

theorem bisectPick_none {cs : List Nat} : bisectPick cs = none ↔ cs = [] := by
  unfold bisectPick
  rw [List.getElem?_eq_none_iff]
  constructor
  · intro h
    cases cs with
    | nil => rfl
    | cons x xs =>
      simp only [List.length_cons] at h
      omega
  · intro h; subst h; simp

theorem bisectPick_mem {cs : List Nat} {c : Nat} (h : bisectPick cs = some c) : c ∈ cs := by
  unfold bisectPick at h
  exact List.mem_of_getElem? h

/-! ### candidates -/

variable {G : Graph} {R B Sk : List Nat}

theorem mem_candidates {st : State} {c : Nat} :
    c ∈ candidates (ancTable G) G.length R st ↔
      c < G.length ∧ c ∈ R ∧
      isAncOfAny (ancTable G) (rootsOf (ancTable G) G.length st.bad) c = true ∧
      isAncOfAny (ancTable G) (headsOf (ancTable G) G.length st.good) c = false ∧
      c ∉ st.bad ∧ c ∉ st.skipped := by
  unfold candidates
  simp only [mem_descFilter, Bool.and_eq_true, Bool.not_eq_true',
    List.contains_eq_mem, decide_eq_false_iff_not, decide_eq_true_eq]
  constructor
  · rintro ⟨h1, ⟨⟨⟨h2, h3⟩, h4⟩, h5⟩, h6⟩; exact ⟨h1, h2, h3, h4, h5, h6⟩
  · rintro ⟨h1, h2, h3, h4, h5, h6⟩; exact ⟨h1, ⟨⟨⟨h2, h3⟩, h4⟩, h5⟩, h6⟩

/-- a candidate has not been marked yet -/
theorem candidate_fresh (hwf : WF G) {st : State} (hg : ∀ g ∈ st.good, g < G.length) {c : Nat}
    (hc : c ∈ candidates (ancTable G) G.length R st) :
    c ∉ st.good ∧ c ∉ st.bad ∧ c ∉ st.skipped := by
  obtain ⟨_, _, _, h4, h5, h6⟩ := mem_candidates.1 hc
  refine ⟨fun hgood => ?_, h5, h6⟩
  obtain ⟨h, hh, ha⟩ := exists_head_above hwf hg c hgood
  have : isAncOfAny (ancTable G) (headsOf (ancTable G) G.length st.good) c = true :=
    (isAncOfAny_iff hwf).2 ⟨h, hh, ha⟩
  rw [this] at h4; cases h4

theorem nextStep_evaluate {st : State} {c : Nat}
    (h : nextStep G (ancTable G) G.length R st = .evaluate c) :
    c ∈ candidates (ancTable G) G.length R st := by
  unfold nextStep at h
  split at h
  · rename_i c' hc
    cases h
    exact bisectPick_mem hc
  · cases h

theorem nextStep_done {st : State} {r : Result}
    (h : nextStep G (ancTable G) G.length R st = .done r) :
    candidates (ancTable G) G.length R st = [] ∧ r = result G (ancTable G) G.length st := by
  unfold nextStep at h
  split at h
  · cases h
  · rename_i hc
    cases h
    exact ⟨bisectPick_none.1 hc, rfl⟩

theorem mem_mark {st : State} {c : Nat} {e : Eval} {x : Nat} :
    (x ∈ (mark st c e).good ∨ x ∈ (mark st c e).bad ∨ x ∈ (mark st c e).skipped) ↔
      x = c ∨ (x ∈ st.good ∨ x ∈ st.bad ∨ x ∈ st.skipped) := by
  cases e <;> simp only [mark, List.mem_cons] <;> grind

/-! ### invariant for `no_repeat` / `terminates` -/

/-- everything evaluated so far is marked, nothing was evaluated twice, marks are positions of `G` -/
structure Inv (G : Graph) (st : State) (acc : List Nat) : Prop where
  marked : ∀ c ∈ acc, c ∈ st.good ∨ c ∈ st.bad ∨ c ∈ st.skipped
  nodup : acc.Nodup
  lt : ∀ c ∈ acc, c < G.length
  good_lt : ∀ g ∈ st.good, g < G.length

theorem Inv.step (hwf : WF G) {st : State} {acc : List Nat} (hi : Inv G st acc) {c : Nat}
    (hc : c ∈ candidates (ancTable G) G.length R st) (e : Eval) : Inv G (mark st c e) (c :: acc) := by
  have hfresh := candidate_fresh hwf hi.good_lt hc
  have hlt := (mem_candidates.1 hc).1
  refine ⟨?_, ?_, ?_, ?_⟩
  · intro x hx
    rw [mem_mark]
    rcases List.mem_cons.1 hx with h | h
    · exact Or.inl h
    · exact Or.inr (hi.marked x h)
  · rw [List.nodup_cons]
    refine ⟨fun hmem => ?_, hi.nodup⟩
    rcases hi.marked c hmem with h | h | h
    · exact hfresh.1 h
    · exact hfresh.2.1 h
    · exact hfresh.2.2 h
  · intro x hx
    rcases List.mem_cons.1 hx with h | h
    · subst h; exact hlt
    · exact hi.lt x h
  · intro g hg
    cases e <;> simp only [mark] at hg
    · rcases List.mem_cons.1 hg with h | h
      · subst h; exact hlt
      · exact hi.good_lt g h
    · exact hi.good_lt g hg
    · exact hi.good_lt g hg

theorem runFrom_evals_nodup (hwf : WF G) (f : Nat) (st : State) (acc : List Nat) (hi : Inv G st acc) :
    (runFrom G (ancTable G) G.length R B Sk f st acc).evals.Nodup := by
  induction f generalizing st acc with
  | zero => simpa [runFrom] using nodup_reverse hi.nodup
  | succ f ih =>
    unfold runFrom
    split
    · simpa using nodup_reverse hi.nodup
    · rename_i c hc
      exact ih _ _ (hi.step hwf (nextStep_evaluate hc) _)

theorem runFrom_terminates (hwf : WF G) (f : Nat) (st : State) (acc : List Nat) (hi : Inv G st acc)
    (hf : G.length < acc.length + f) :
    (runFrom G (ancTable G) G.length R B Sk f st acc).result ≠ none := by
  induction f generalizing st acc with
  | zero =>
    have := length_le_of_nodup_lt hi.nodup hi.lt
    omega
  | succ f ih =>
    unfold runFrom
    split
    · simp
    · rename_i c hc
      refine ih _ _ (hi.step hwf (nextStep_evaluate hc) _) ?_
      simp only [List.length_cons]; omega

theorem inv_init (R : List Nat) : Inv G (init (ancTable G) G.length R) [] :=
  ⟨by simp, by simp, by simp, by simp [init]⟩

/-! ### invariant for soundness (no skips) -/

/-- marks agree with the truth; nothing skipped -/
structure Truth (G : Graph) (R B : List Nat) (st : State) : Prop where
  noskip : st.skipped = []
  bad : ∀ b ∈ st.bad, b ∈ B ∧ b ∈ R ∧ b < G.length
  good : ∀ g ∈ st.good, g ∉ B ∧ g < G.length

theorem Truth.step {st : State} (ht : Truth G R B st) {c : Nat}
    (hc : c ∈ candidates (ancTable G) G.length R st) : Truth G R B (mark st c (verdict B [] c)) := by
  obtain ⟨hlt, hR, _⟩ := mem_candidates.1 hc
  unfold verdict
  simp only [List.contains_nil, Bool.false_eq_true, if_false]
  by_cases hb : c ∈ B
  · simp only [List.contains_iff_mem, hb, if_true, mark]
    refine ⟨ht.noskip, ?_, ht.good⟩
    intro b hb'
    rcases List.mem_cons.1 hb' with h | h
    · subst h; exact ⟨hb, hR, hlt⟩
    · exact ht.bad b h
  · simp only [List.contains_iff_mem, hb, if_false, mark]
    refine ⟨ht.noskip, ht.bad, ?_⟩
    intro g hg
    rcases List.mem_cons.1 hg with h | h
    · subst h; exact ⟨hb, hlt⟩
    · exact ht.good g h

theorem truth_init (hwf : WF G) (hh : HeadsBad G R B) : Truth G R B (init (ancTable G) G.length R) := by
  refine ⟨rfl, ?_, by simp [init]⟩
  intro b hb
  simp only [init] at hb
  have := (mem_headsOf hwf).1 hb
  exact ⟨hh b hb, this.2.1, this.1⟩

theorem skippedParents_nil (G : Graph) (xs : List Nat) : skippedParents G [] xs = [] := by
  simp [skippedParents]

theorem possiblyBad_nil (G : Graph) (f : Nat) (level : List Nat) :
    possiblyBad G [] f level [] = [] := by
  cases f with
  | zero => rfl
  | succ f => simp [possiblyBad, skippedParents_nil]

/-- without skips the result is `found (roots bad)` or `indeterminate` -/
theorem result_noskip {st : State} (hs : st.skipped = []) :
    result G (ancTable G) G.length st =
      if (rootsOf (ancTable G) G.length st.bad).isEmpty then .indeterminate
      else .found (rootsOf (ancTable G) G.length st.bad) := by
  unfold result
  simp only [hs, possiblyBad_nil, List.isEmpty_nil, if_true]

/-- when no candidate is left, every root of the marked-bad set is an earliest bad commit -/
theorem roots_firstBad (hwf : WF G) (hm : Mono G B) {st : State} (ht : Truth G R B st)
    (hc : candidates (ancTable G) G.length R st = []) :
    ∀ r ∈ rootsOf (ancTable G) G.length st.bad, FirstBad G R B r := by
  intro r hr
  have hr' := (mem_rootsOf hwf).1 hr
  obtain ⟨hrB, hrR, _⟩ := ht.bad r hr'.2.1
  refine ⟨hrR, hrB, ?_⟩
  intro a haR hne haAnc haB
  have halt : a < G.length := by have := haAnc.le hwf; omega
  have hnot : a ∉ candidates (ancTable G) G.length R st := by rw [hc]; simp
  rw [mem_candidates] at hnot
  have h3 : isAncOfAny (ancTable G) (rootsOf (ancTable G) G.length st.bad) a = true :=
    (isAncOfAny_iff hwf).2 ⟨r, hr, haAnc⟩
  have h5 : a ∉ st.bad := fun h => hne (hr'.2.2 a h haAnc)
  have h6 : a ∉ st.skipped := by rw [ht.noskip]; simp
  have h4 : isAncOfAny (ancTable G) (headsOf (ancTable G) G.length st.good) a = true := by
    cases hv : isAncOfAny (ancTable G) (headsOf (ancTable G) G.length st.good) a with
    | true => rfl
    | false => exact absurd ⟨halt, haR, h3, hv, h5, h6⟩ hnot
  obtain ⟨h, hh, hah⟩ := (isAncOfAny_iff hwf).1 h4
  have hgood := (mem_headsOf hwf).1 hh
  exact (ht.good h hgood.2.1).1 (hm.anc hah haB)

theorem runFrom_sound (f : Nat) (st : State) (acc : List Nat)
    (ht : Truth G R B st) {res : Result}
    (hres : (runFrom G (ancTable G) G.length R B [] f st acc).result = some res) :
    ∃ st', Truth G R B st' ∧ (∀ b ∈ st.bad, b ∈ st'.bad) ∧
      candidates (ancTable G) G.length R st' = [] ∧ res = result G (ancTable G) G.length st' := by
  induction f generalizing st acc with
  | zero => simp [runFrom] at hres
  | succ f ih =>
    unfold runFrom at hres
    split at hres
    · rename_i r hr
      obtain ⟨h1, h2⟩ := nextStep_done hr
      simp only [Option.some.injEq] at hres
      exact ⟨st, ht, fun b hb => hb, h1, by rw [← hres, h2]⟩
    · rename_i c hc
      obtain ⟨st', h1, h2, h3, h4⟩ := ih _ _ (ht.step (nextStep_evaluate hc)) hres
      refine ⟨st', h1, fun b hb => h2 b ?_, h3, h4⟩
      unfold verdict
      simp only [List.contains_nil, Bool.false_eq_true, if_false]
      by_cases hb' : c ∈ B <;> simp [hb', mark, hb]

end JjModel.Bisect
