import JjModel.Model.Crash
/-!
  C15, part A: the temp-file + rename idiom (`persist_temp_file`,
  `persist_content_addressed_temp_file` in lib/src/file_util.rs) is atomic for readers of the
  final name, whatever the number of `write()` calls and wherever the process dies.
-/
namespace JjModel.Crash

@[simp] theorem LFs.set_same (fs : LFs) (p : Nat) (c : Option Bytes) : (fs.set p c) p = c := by
  simp [LFs.set]

theorem LFs.set_other (fs : LFs) {p q : Nat} (c : Option Bytes) (h : q ≠ p) :
    (fs.set p c) q = fs q := by
  simp [LFs.set, h]

/-- appending to the temp file touches no other path -/
theorem lrun_appends_other (t q : Nat) (h : q ≠ t) (cs : List Bytes) (fs : LFs) :
    lrun fs (cs.map (LStep.append t)) q = fs q := by
  induction cs generalizing fs with
  | nil => rfl
  | cons c cs ih =>
    simp only [List.map_cons, lrun, List.foldl_cons]
    have := ih (LStep.apply fs (.append t c))
    simp only [lrun] at this
    rw [this]
    simp only [LStep.apply]
    cases hft : fs t with
    | none => rfl
    | some old => simp [LFs.set_other _ _ h]

/-- … and accumulates the chunks in the temp file -/
theorem lrun_appends_temp (t : Nat) (cs : List Bytes) (fs : LFs) (c : Bytes) (h : fs t = some c) :
    lrun fs (cs.map (LStep.append t)) t = some (c ++ cs.flatten) := by
  induction cs generalizing fs c with
  | nil => simp [lrun, h]
  | cons d cs ih =>
    simp only [List.map_cons, lrun, List.foldl_cons]
    have h' : (LStep.apply fs (.append t d)) t = some (c ++ d) := by
      simp [LStep.apply, h]
    have := ih (LStep.apply fs (.append t d)) (c ++ d) h'
    simp only [lrun] at this
    rw [this]
    simp [List.append_assoc]

theorem persistCrash_zero (fs : LFs) (t p : Nat) (chunks : List Bytes) :
    persistCrash fs t p chunks 0 = fs := by
  simp [persistCrash, lrun]

/-- killed before the rename (any number `m ≤ chunks.length` of the writes done) -/
theorem persistCrash_before (fs : LFs) (t p : Nat) (chunks : List Bytes) (m : Nat)
    (hm : m ≤ chunks.length) :
    persistCrash fs t p chunks (m + 1)
      = lrun (fs.set t (some [])) ((chunks.take m).map (LStep.append t)) := by
  simp only [persistCrash, persistSteps, List.take_succ_cons, lrun, List.foldl_cons, LStep.apply]
  congr 1
  rw [List.take_append]
  have : m - (List.map (LStep.append t) chunks).length = 0 := by simp; omega
  rw [this]
  simp [List.map_take]

/-- killed after the rename (all system calls done) -/
theorem persistCrash_after (fs : LFs) (t p : Nat) (chunks : List Bytes) (n : Nat)
    (hn : chunks.length + 2 ≤ n) :
    persistCrash fs t p chunks n
      = LStep.apply (lrun (fs.set t (some [])) (chunks.map (LStep.append t))) (.rename t p) := by
  have hlen : (persistSteps t p chunks).length ≤ n := by simp [persistSteps]; omega
  simp only [persistCrash, List.take_of_length_le hlen]
  simp [persistSteps, lrun, List.foldl_append, LStep.apply]

/-- the temp file is complete (all chunks, in order) when the rename is about to happen -/
theorem persist_temp_complete (fs : LFs) (t p : Nat) (chunks : List Bytes) :
    persistCrash fs t p chunks (chunks.length + 1) t = some chunks.flatten := by
  rw [persistCrash_before fs t p chunks chunks.length (Nat.le_refl _)]
  rw [List.take_length]
  have := lrun_appends_temp t chunks (fs.set t (some [])) [] (by simp)
  simpa using this

end JjModel.Crash
