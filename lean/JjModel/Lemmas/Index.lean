import JjModel.Model.Index
/-!
  Lemmas for C18: the graph vocabulary (`IndexWF`, `Reach`) and the loop invariants of
  `isAncestorLoop`, `headsInner`/`headsOuter`, `gcaLoop`.
-/
namespace JjModel.Index

/-- Well-formed index: every parent position is smaller than the entry's own position (what
`add_commit_data` guarantees: parents are looked up in the index before the entry is pushed) and
the stored generation number is the one `add_commit_data` computes. -/
def IndexWF (idx : Index) : Prop :=
  ∀ (p : Nat) (e : Entry), idx[p]? = some e → (∀ q ∈ e.parents, q < p) ∧ e.gen = newGen idx e.parents

/-- `Reach idx a d`: `a` is an ancestor of `d` (reflexive–transitive closure of the parent
relation of the commit graph, written on positions). -/
inductive Reach (idx : Index) : Nat → Nat → Prop
  | refl (a : Nat) : Reach idx a a
  | step {a q d : Nat} : q ∈ parentsOf idx d → Reach idx a q → Reach idx a d

/-! ### basic graph facts -/

theorem parentsOf_lt {idx : Index} (hwf : IndexWF idx) {q d : Nat} (h : q ∈ parentsOf idx d) : q < d := by
  unfold parentsOf at h
  split at h
  · next e he => exact (hwf d e he).1 q h
  · simp at h

theorem parentsOf_lt_length {idx : Index} {q d : Nat} (h : q ∈ parentsOf idx d) : d < idx.length := by
  unfold parentsOf at h
  split at h
  · next e he =>
    have := List.getElem?_eq_some_iff.mp he
    exact this.1
  · simp at h

theorem parentsOf_eq_nil_of_ge {idx : Index} {d : Nat} (h : idx.length ≤ d) : parentsOf idx d = [] := by
  unfold parentsOf
  have : idx[d]? = none := List.getElem?_eq_none h
  simp [this]

theorem le_newGen (idx : Index) (ps : List Nat) {q : Nat} (h : q ∈ ps) : genOf idx q + 1 ≤ newGen idx ps := by
  induction ps with
  | nil => simp at h
  | cons x xs ih =>
    simp only [newGen]
    rcases List.mem_cons.mp h with rfl | h'
    · omega
    · have := ih h'; omega

theorem newGen_cases (idx : Index) (ps : List Nat) :
    (ps = [] ∧ newGen idx ps = 0) ∨ ∃ q ∈ ps, newGen idx ps = genOf idx q + 1 := by
  induction ps with
  | nil => simp [newGen]
  | cons x xs ih =>
    right
    simp only [newGen]
    rcases ih with ⟨rfl, h0⟩ | ⟨q, hq, hg⟩
    · exact ⟨x, by simp, by simp [newGen]⟩
    · by_cases h : genOf idx x + 1 ≥ newGen idx xs
      · exact ⟨x, by simp, by omega⟩
      · exact ⟨q, by simp [hq], by omega⟩

theorem genOf_eq_newGen {idx : Index} (hwf : IndexWF idx) {d : Nat} (hd : d < idx.length) :
    genOf idx d = newGen idx (parentsOf idx d) := by
  have he : idx[d]? = some idx[d] := List.getElem?_eq_getElem hd
  unfold genOf parentsOf
  simp only [he]
  exact (hwf d _ he).2

theorem gen_parent_lt {idx : Index} (hwf : IndexWF idx) {q d : Nat} (h : q ∈ parentsOf idx d) :
    genOf idx q < genOf idx d := by
  have hd := parentsOf_lt_length h
  rw [genOf_eq_newGen hwf hd]
  have := le_newGen idx _ h
  omega

theorem Reach.trans {idx : Index} {a b c : Nat} (h1 : Reach idx a b) (h2 : Reach idx b c) : Reach idx a c := by
  induction h2 with
  | refl => exact h1
  | step hq _ ih => exact Reach.step hq ih

theorem reach_cases {idx : Index} {a d : Nat} (h : Reach idx a d) :
    a = d ∨ ∃ q ∈ parentsOf idx d, Reach idx a q := by
  cases h with
  | refl => exact Or.inl rfl
  | step hq hr => exact Or.inr ⟨_, hq, hr⟩

theorem reach_le {idx : Index} (hwf : IndexWF idx) {a d : Nat} (h : Reach idx a d) : a ≤ d := by
  induction h with
  | refl => exact Nat.le_refl _
  | step hq _ ih => have := parentsOf_lt hwf hq; omega

theorem reach_gen {idx : Index} (hwf : IndexWF idx) {a d : Nat} (h : Reach idx a d) :
    a = d ∨ genOf idx a < genOf idx d := by
  induction h with
  | refl => exact Or.inl rfl
  | step hq _ ih =>
    have := gen_parent_lt hwf hq
    rcases ih with rfl | h'
    · exact Or.inr this
    · exact Or.inr (by omega)

theorem reach_ne_lt {idx : Index} (hwf : IndexWF idx) {a d : Nat} (h : Reach idx a d) (hne : a ≠ d) :
    a < d ∧ d < idx.length := by
  rcases reach_cases h with rfl | ⟨q, hq, hr⟩
  · exact absurd rfl hne
  · have := parentsOf_lt hwf hq
    have := reach_le hwf hr
    exact ⟨by omega, parentsOf_lt_length hq⟩

/-! ### `isAncestorLoop` -/

theorem isAncestorLoop_sound (idx : Index) (a ga : Nat) :
    ∀ (fuel : Nat) (work visited : List Nat),
      isAncestorLoop idx a ga fuel work visited = true → ∃ w ∈ work, Reach idx a w := by
  intro fuel
  induction fuel with
  | zero => intro work visited h; simp [isAncestorLoop] at h
  | succ fuel ih =>
    intro work visited h
    match work with
    | [] => simp [isAncestorLoop] at h
    | d :: work =>
      unfold isAncestorLoop at h
      split at h
      · obtain ⟨w, hw, hr⟩ := ih _ _ h; exact ⟨w, by simp [hw], hr⟩
      · split at h
        · next heq => exact ⟨d, by simp, heq ▸ Reach.refl _⟩
        · split at h
          · obtain ⟨w, hw, hr⟩ := ih _ _ h; exact ⟨w, by simp [hw], hr⟩
          · split at h
            · obtain ⟨w, hw, hr⟩ := ih _ _ h; exact ⟨w, by simp [hw], hr⟩
            · obtain ⟨w, hw, hr⟩ := ih _ _ h
              rcases List.mem_append.mp hw with hp | hw'
              · exact ⟨d, by simp, Reach.step (List.mem_reverse.mp hp) hr⟩
              · exact ⟨w, by simp [hw'], hr⟩

/-- parent edges leaving positions of `l` that are not yet visited: the potential that bounds the
number of remaining stack pops -/
def pendingEdges (idx : Index) (l visited : List Nat) : Nat :=
  ((l.filter fun p => !visited.contains p).map fun p => (parentsOf idx p).length).sum

theorem pendingEdges_visit (idx : Index) (l visited : List Nat) (d : Nat) (hl : l.Nodup)
    (hd : ¬ d ∈ visited) :
    pendingEdges idx l (d :: visited) + (if d ∈ l then (parentsOf idx d).length else 0)
      = pendingEdges idx l visited := by
  induction l with
  | nil => simp [pendingEdges]
  | cons x xs ih =>
    have hx : ¬ x ∈ xs := (List.nodup_cons.mp hl).1
    have ih := ih (List.nodup_cons.mp hl).2
    unfold pendingEdges at ih ⊢
    by_cases hxd : x = d
    · subst hxd
      have hxs : ¬ x ∈ xs := hx
      simp only [hxs, if_false] at ih
      simp [hd] at ih ⊢
      omega
    · have hdx : ¬ d = x := fun h => hxd h.symm
      by_cases hxv : x ∈ visited
      · simp [hxv, hxd, hdx] at ih ⊢
        exact ih
      · simp [hxv, hxd, hdx] at ih ⊢
        omega

theorem pendingEdges_range_visit (idx : Index) (visited : List Nat) (d : Nat) (hd : ¬ d ∈ visited) :
    pendingEdges idx (List.range idx.length) (d :: visited) + (parentsOf idx d).length
      = pendingEdges idx (List.range idx.length) visited := by
  have := pendingEdges_visit idx (List.range idx.length) visited d List.nodup_range hd
  by_cases h : d < idx.length
  · simpa [List.mem_range, h] using this
  · have h0 := parentsOf_eq_nil_of_ge (idx := idx) (d := d) (by omega)
    simp [List.mem_range, h] at this
    simp [h0, this]

theorem isAncestorLoop_complete {idx : Index} (hwf : IndexWF idx) (a : Nat) :
    ∀ (fuel : Nat) (work visited : List Nat),
      (∀ x ∈ visited, Reach idx a x → ∃ w ∈ work, Reach idx a w ∧ w < x) →
      work.length + pendingEdges idx (List.range idx.length) visited ≤ fuel →
      (∃ w ∈ work, Reach idx a w) →
      isAncestorLoop idx a (genOf idx a) fuel work visited = true := by
  intro fuel
  induction fuel with
  | zero =>
    intro work visited _ hf ⟨w, hw, _⟩
    have : work.length = 0 := by omega
    have : work = [] := List.length_eq_zero_iff.mp this
    simp [this] at hw
  | succ fuel ih =>
    intro work visited hI hf ⟨w, hw, hr⟩
    match work, hw with
    | d :: work, hw =>
      simp only [List.length_cons] at hf
      unfold isAncestorLoop
      by_cases hlt : d < a
      · -- `d` cannot reach down to `a`
        simp only [hlt, if_true]
        have hnd : ¬ Reach idx a d := fun h => by have := reach_le hwf h; omega
        apply ih
        · intro x hx hxr
          obtain ⟨w', hw', hr', hlt'⟩ := hI x hx hxr
          rcases List.mem_cons.mp hw' with rfl | hw''
          · exact absurd hr' hnd
          · exact ⟨w', hw'', hr', hlt'⟩
        · omega
        · rcases List.mem_cons.mp hw with rfl | hw'
          · exact absurd hr hnd
          · exact ⟨w, hw', hr⟩
      · simp only [hlt, if_false]
        by_cases heq : d = a
        · simp [heq]
        · simp only [heq, if_false]
          by_cases hvis : d ∈ visited
          · have hc : visited.contains d = true := List.contains_iff_mem.mpr hvis
            simp only [hc, if_true]
            -- a visited `d` that reaches `a` has a smaller witness left in `work`
            have key : ∀ w', w' ∈ d :: work → Reach idx a w' → ∃ w'' ∈ work, Reach idx a w'' ∧ w'' ≤ w' := by
              intro w' hw' hr'
              rcases List.mem_cons.mp hw' with rfl | hw''
              · obtain ⟨w2, hw2, hr2, hlt2⟩ := hI _ hvis hr'
                rcases List.mem_cons.mp hw2 with rfl | hw2'
                · omega
                · exact ⟨w2, hw2', hr2, by omega⟩
              · exact ⟨w', hw'', hr', Nat.le_refl _⟩
            apply ih
            · intro x hx hxr
              obtain ⟨w', hw', hr', hlt'⟩ := hI x hx hxr
              obtain ⟨w'', hw'', hr'', hle⟩ := key w' hw' hr'
              exact ⟨w'', hw'', hr'', by omega⟩
            · omega
            · obtain ⟨w'', hw'', hr'', _⟩ := key w hw hr
              exact ⟨w'', hw'', hr''⟩
          · have hc : visited.contains d = false := by
              cases hcc : visited.contains d with
              | false => rfl
              | true => exact absurd (List.contains_iff_mem.mp hcc) hvis
            simp only [hc, Bool.false_eq_true, if_false]
            have hpe := pendingEdges_range_visit idx visited d hvis
            by_cases hgen : genOf idx d ≤ genOf idx a
            · simp only [hgen, if_true]
              -- generation cut-off: `d ≠ a` with `gen d ≤ gen a` cannot reach `a`
              have hnd : ¬ Reach idx a d := fun h => by
                rcases reach_gen hwf h with rfl | hg
                · exact heq rfl
                · omega
              apply ih
              · intro x hx hxr
                rcases List.mem_cons.mp hx with rfl | hx'
                · exact absurd hxr hnd
                · obtain ⟨w', hw', hr', hlt'⟩ := hI x hx' hxr
                  rcases List.mem_cons.mp hw' with rfl | hw''
                  · exact absurd hr' hnd
                  · exact ⟨w', hw'', hr', hlt'⟩
              · omega
              · rcases List.mem_cons.mp hw with rfl | hw'
                · exact absurd hr hnd
                · exact ⟨w, hw', hr⟩
            · simp only [hgen, if_false]
              -- expansion: a `d` that reaches `a` does so through a parent, now on the stack
              have key : ∀ w', w' ∈ d :: work → Reach idx a w' →
                  ∃ w'' ∈ (parentsOf idx d).reverse ++ work, Reach idx a w'' ∧ w'' ≤ w' := by
                intro w' hw' hr'
                rcases List.mem_cons.mp hw' with rfl | hw''
                · rcases reach_cases hr' with rfl | ⟨q, hq, hrq⟩
                  · exact absurd rfl heq
                  · exact ⟨q, by simp [hq], hrq, Nat.le_of_lt (parentsOf_lt hwf hq)⟩
                · exact ⟨w', by simp [hw''], hr', Nat.le_refl _⟩
              apply ih
              · intro x hx hxr
                rcases List.mem_cons.mp hx with rfl | hx'
                · rcases reach_cases hxr with rfl | ⟨q, hq, hrq⟩
                  · exact absurd rfl heq
                  · exact ⟨q, by simp [hq], hrq, parentsOf_lt hwf hq⟩
                · obtain ⟨w', hw', hr', hlt'⟩ := hI x hx' hxr
                  obtain ⟨w'', hw'', hr'', hle⟩ := key w' hw' hr'
                  exact ⟨w'', hw'', hr'', by omega⟩
              · simp only [List.length_append, List.length_reverse]; omega
              · obtain ⟨w'', hw'', hr'', _⟩ := key w hw hr
                exact ⟨w'', hw'', hr''⟩

theorem pendingEdges_nil (idx : Index) : pendingEdges idx (List.range idx.length) [] = numEdges idx := by
  unfold pendingEdges numEdges
  have : (List.range idx.length).filter (fun p => !([] : List Nat).contains p) = List.range idx.length := by
    apply List.filter_eq_self.mpr; intro a _; simp
  rw [this]


/-! ### `add_commit_data` keeps the index well-formed -/

theorem genOf_append_lt (idx l : Index) {q : Nat} (h : q < idx.length) : genOf (idx ++ l) q = genOf idx q := by
  unfold genOf
  rw [List.getElem?_append_left h]

theorem parentsOf_append_lt (idx l : Index) {q : Nat} (h : q < idx.length) :
    parentsOf (idx ++ l) q = parentsOf idx q := by
  unfold parentsOf
  rw [List.getElem?_append_left h]

theorem newGen_congr (idx idx' : Index) (ps : List Nat) (h : ∀ q ∈ ps, genOf idx q = genOf idx' q) :
    newGen idx ps = newGen idx' ps := by
  induction ps with
  | nil => rfl
  | cons x xs ih =>
    simp only [newGen]
    rw [h x (by simp), ih (fun q hq => h q (by simp [hq]))]

theorem addCommit_wf {idx : Index} (hwf : IndexWF idx) (ps : List Nat) (hps : ∀ q ∈ ps, q < idx.length) :
    IndexWF (addCommit idx ps) := by
  intro p e he
  unfold addCommit at he ⊢
  by_cases hp : p < idx.length
  · rw [List.getElem?_append_left hp] at he
    obtain ⟨h1, h2⟩ := hwf p e he
    refine ⟨h1, ?_⟩
    rw [h2]
    apply newGen_congr
    intro q hq
    exact (genOf_append_lt idx _ (by have := h1 q hq; omega)).symm
  · have hlen : (idx ++ [({ parents := ps, gen := newGen idx ps } : Entry)]).length = idx.length + 1 := by simp
    have hp' : p < idx.length + 1 := by
      have := (List.getElem?_eq_some_iff.mp he).1
      omega
    have hpe : p = idx.length := by omega
    subst hpe
    simp at he
    subst he
    refine ⟨hps, ?_⟩
    apply newGen_congr
    intro q hq
    exact (genOf_append_lt idx _ (hps q hq)).symm

theorem wf_nil : IndexWF [] := by
  intro p e he; simp at he

/-- the input check of the driver: every parent refers to an earlier position -/
def ParentsBefore : List (List Nat) → Nat → Prop
  | [], _ => True
  | ps :: rest, i => (∀ q ∈ ps, q < i) ∧ ParentsBefore rest (i + 1)

theorem foldl_addCommit_wf (pss : List (List Nat)) :
    ∀ (idx : Index), IndexWF idx → ParentsBefore pss idx.length → IndexWF (pss.foldl addCommit idx) := by
  induction pss with
  | nil => intro idx h _; exact h
  | cons ps rest ih =>
    intro idx hwf hpb
    simp only [List.foldl_cons]
    apply ih
    · exact addCommit_wf hwf ps hpb.1
    · have : (addCommit idx ps).length = idx.length + 1 := by simp [addCommit]
      rw [this]; exact hpb.2

/-! ### heap helpers -/

theorem peek_none {h : List Nat} : peek h = none ↔ h = [] := by
  cases h with
  | nil => simp [peek]
  | cons x xs =>
    simp only [peek]
    split <;> simp

theorem peek_some {h : List Nat} {m : Nat} (hp : peek h = some m) : m ∈ h ∧ ∀ x ∈ h, x ≤ m := by
  induction h generalizing m with
  | nil => simp [peek] at hp
  | cons x xs ih =>
    simp only [peek] at hp
    split at hp
    · next hn =>
      have := peek_none.mp hn
      subst this
      simp at hp
      subst hp
      simp
    · next m' hm' =>
      obtain ⟨h1, h2⟩ := ih hm'
      simp at hp
      subst hp
      constructor
      · by_cases hx : x ≥ m'
        · have : max x m' = x := by omega
          simp [this]
        · have : max x m' = m' := by omega
          simp [this, h1]
      · intro y hy
        rcases List.mem_cons.mp hy with rfl | hy'
        · omega
        · have := h2 y hy'; omega

theorem mem_removeAll {x y : Nat} {h : List Nat} : y ∈ removeAll x h ↔ y ∈ h ∧ y ≠ x := by
  simp [removeAll]

theorem mem_shiftToParents {idx : Index} {h : List Nat} {pos y : Nat} :
    y ∈ shiftToParents idx h pos ↔ y ∈ parentsOf idx pos ∨ (y ∈ h ∧ y ≠ pos) := by
  simp [shiftToParents, mem_removeAll]

end JjModel.Index
