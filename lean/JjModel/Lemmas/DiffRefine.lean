import JjModel.Lemmas.DiffRegions
/-!
  `refine_changed_regions` and `build` preserve well-formedness (`refine_wf`, `build_wf`).
-/
namespace JjModel.Diff

theorem side_append (i : Nat) (a b : List Region) : side i (a ++ b) = side i a ++ side i b := by
  simp [side]

theorem side_cons (i : Nat) (r : Region) (b : List Region) : side i (r :: b) = r.getD i ⟨0, 0⟩ :: side i b := by
  simp [side]

theorem side_shift (prev : Region) (regs : List Region) (i n : Nat) (hi : i < n) (hp : prev.length = n)
    (hr : ∀ r ∈ regs, r.length = n) :
    side i (regs.map (shiftRegion prev)) =
      (side i regs).map fun r => ⟨r.lo + (prev.getD i ⟨0, 0⟩).hi, r.hi + (prev.getD i ⟨0, 0⟩).hi⟩ := by
  simp only [side, List.map_map]
  apply List.map_congr_left
  intro r hrm
  simp only [Function.comp]
  exact shiftRegion_at prev r i (by rw [hr r hrm]; exact hi) (by rw [hp]; exact hi)

theorem refineGo_wf (inputs : List Bytes) (tok : Tokenizer) (c : Compare) (rest : List Region) (prev : Region)
    (hp : prev.length = inputs.length) (hr : ∀ r ∈ rest, r.length = inputs.length)
    (hch : ∀ i, i < inputs.length →
      chainOK (inputs.getD i []).length (prev.getD i ⟨0, 0⟩).hi (side i rest) = true) :
    (∀ r ∈ refineGo inputs tok c prev rest, r.length = inputs.length) ∧
    ∀ i, i < inputs.length →
      chainOK (inputs.getD i []).length (prev.getD i ⟨0, 0⟩).hi (side i (refineGo inputs tok c prev rest)) = true := by
  induction rest generalizing prev with
  | nil => exact ⟨by simp [refineGo], by simpa [refineGo] using hch⟩
  | cons cur rest ih =>
    have hc : cur.length = inputs.length := hr cur (by simp)
    have hr' : ∀ r ∈ rest, r.length = inputs.length := fun r h => hr r (by simp [h])
    have hch' : ∀ i, i < inputs.length →
        (prev.getD i ⟨0, 0⟩).hi ≤ (cur.getD i ⟨0, 0⟩).lo ∧ (cur.getD i ⟨0, 0⟩).lo ≤ (cur.getD i ⟨0, 0⟩).hi ∧
        chainOK (inputs.getD i []).length (cur.getD i ⟨0, 0⟩).hi (side i rest) = true := by
      intro i hi
      have := hch i hi
      simp only [side_cons, chainOK, Bool.and_eq_true, decide_eq_true_eq] at this
      exact ⟨this.1.1, this.1.2, this.2⟩
    obtain ⟨ih1, ih2⟩ := ih cur hc hr' (fun i hi => (hch' i hi).2.2)
    rw [refineGo]
    have hbl : (between prev cur).length = inputs.length := length_between _ _ _ hp hc
    have hcl : (List.zipWith slice inputs (between prev cur)).length = inputs.length := by
      simp [List.length_zipWith, hbl]
    -- the refined sub-diff
    cases hd : forTokenizer (List.zipWith slice inputs (between prev cur)) tok c with
    | none =>
      -- only possible without inputs
      have hn : inputs.length = 0 := by
        cases hz : inputs.length with
        | zero => rfl
        | succ k =>
          have hne : List.zipWith slice inputs (between prev cur) ≠ [] := by
            intro h; rw [h] at hcl; simp at hcl; omega
          obtain ⟨d, hd'⟩ := forTokenizer_isSome _ tok c hne
          rw [hd] at hd'; cases hd'
      refine ⟨?_, fun i hi => by omega⟩
      intro r hrm
      simp only [List.map_nil, List.nil_append, List.mem_cons] at hrm
      rcases hrm with rfl | hrm
      · exact hc
      · exact ih1 r hrm
    | some d =>
      obtain ⟨_, hwf⟩ := forTokenizer_wf _ tok c d hd
      have hdar : ∀ r ∈ d.regions, r.length = inputs.length := fun r h => by rw [hwf.arity r h, hcl]
      dsimp only
      refine ⟨?_, ?_⟩
      · intro r hrm
        simp only [List.mem_append, List.mem_map, List.mem_cons] at hrm
        rcases hrm with ⟨r0, hr0, rfl⟩ | rfl | hrm
        · simp [shiftRegion, List.length_zipWith, hdar r0 hr0, hp]
        · exact hc
        · exact ih1 r hrm
      · intro i hi
        obtain ⟨h1, h2, h3⟩ := hch' i hi
        have hle : (cur.getD i ⟨0, 0⟩).hi ≤ (inputs.getD i []).length := chainOK_le _ _ _ h3
        have hside := hwf.sides i (by rw [hcl]; exact hi)
        have hci : (List.zipWith slice inputs (between prev cur)).getD i [] =
            slice (inputs.getD i []) ⟨(prev.getD i ⟨0, 0⟩).hi, (cur.getD i ⟨0, 0⟩).lo⟩ := by
          rw [getD_zipWith slice inputs (between prev cur) i [] ⟨0, 0⟩ [] hi (by rw [hbl]; exact hi),
            between_at prev cur i (by rw [hp]; exact hi) (by rw [hc]; exact hi)]
        rw [hci, length_slice_le _ _ _ h1 (by omega)] at hside
        rw [sideOK_iff] at hside
        have hsh := chainOK_shift _ _ (prev.getD i ⟨0, 0⟩).hi _ hside.2
        have e1 : (cur.getD i ⟨0, 0⟩).lo - (prev.getD i ⟨0, 0⟩).hi + (prev.getD i ⟨0, 0⟩).hi = (cur.getD i ⟨0, 0⟩).lo := by
          omega
        rw [e1, Nat.zero_add] at hsh
        rw [side_append, side_shift prev d.regions i inputs.length hi hp hdar, side_cons]
        apply chainOK_append _ _ _ _ _ hsh
        simp only [chainOK, Bool.and_eq_true, decide_eq_true_eq]
        exact ⟨⟨Nat.le_refl _, h2⟩, ih2 i hi⟩

/-- `refine_changed_regions` preserves well-formedness. -/
theorem refine_wf (d : ContentDiff) (tok : Tokenizer) (c : Compare) (h : RegionsWF d.inputs d.regions) :
    (d.refine tok c).inputs = d.inputs ∧ RegionsWF d.inputs (d.refine tok c).regions := by
  unfold ContentDiff.refine
  cases hreg : d.regions with
  | nil => simp only; rw [hreg] at h; exact ⟨trivial, by rw [hreg]; exact h⟩
  | cons first rest =>
    simp only
    rw [hreg] at h
    refine ⟨trivial, compact_regionsWF _ _ ?_⟩
    have hf : first.length = d.inputs.length := h.arity first (by simp)
    have hr : ∀ r ∈ rest, r.length = d.inputs.length := fun r hr => h.arity r (by simp [hr])
    have hside : ∀ i, i < d.inputs.length → (first.getD i ⟨0, 0⟩).lo = 0 ∧
        (first.getD i ⟨0, 0⟩).lo ≤ (first.getD i ⟨0, 0⟩).hi ∧
        chainOK (d.inputs.getD i []).length (first.getD i ⟨0, 0⟩).hi (side i rest) = true := by
      intro i hi
      have := h.sides i hi
      simp only [side_cons, sideOK, Bool.and_eq_true, decide_eq_true_eq] at this
      exact ⟨this.1.1, this.1.2, this.2⟩
    obtain ⟨g1, g2⟩ := refineGo_wf d.inputs tok c rest first hf hr (fun i hi => (hside i hi).2.2)
    refine ⟨?_, ?_⟩
    · intro r hrm
      simp only [List.mem_cons] at hrm
      rcases hrm with rfl | hrm
      · exact hf
      · exact g1 r hrm
    · intro i hi
      simp only [side_cons, sideOK, Bool.and_eq_true, decide_eq_true_eq]
      exact ⟨⟨(hside i hi).1, (hside i hi).2.1⟩, g2 i hi⟩

/-- **(d)** every diff built through the public constructors has well-formed regions. -/
theorem build_wf (inputs : List Bytes) (steps : List (Tokenizer × Compare)) (d : ContentDiff)
    (h : build inputs steps = some d) : d.inputs = inputs ∧ RegionsWF inputs d.regions := by
  cases steps with
  | nil => simp [build] at h
  | cons s steps =>
    obtain ⟨t, c⟩ := s
    simp only [build, Option.map_eq_some_iff] at h
    obtain ⟨d0, hd0, rfl⟩ := h
    obtain ⟨e0, w0⟩ := forTokenizer_wf inputs t c d0 hd0
    clear hd0
    induction steps generalizing d0 with
    | nil => exact ⟨e0, w0⟩
    | cons s steps ih =>
      simp only [List.foldl_cons]
      have := refine_wf d0 s.1 s.2 (by rw [e0]; exact w0)
      rw [e0] at this
      exact ih _ this.1 this.2

/-! ### the regions of a built diff are compacted -/

theorem forTokenizer_compacted (inputs : List Bytes) (tok : Tokenizer) (c : Compare) (d : ContentDiff)
    (h : forTokenizer inputs tok c = some d) : compactedb d.regions = true := by
  obtain ⟨htext, htok⟩ := tokenize_ok tok inputs
  unfold forTokenizer at h
  cases hs : tokenize tok inputs with
  | nil => rw [hs] at h; cases h
  | cons base others =>
    rw [hs] at h htok
    simp only [Option.some.injEq] at h
    subst h
    exact compact_compacted _ _ (rawRegions_wf c base others (htok base (by simp))
      (fun o ho => htok o (by simp [ho]))).arity

theorem refine_compacted (d : ContentDiff) (tok : Tokenizer) (c : Compare) (h : RegionsWF d.inputs d.regions)
    (hc : compactedb d.regions = true) : compactedb (d.refine tok c).regions = true := by
  unfold ContentDiff.refine
  cases hreg : d.regions with
  | nil => simp only; rw [hreg] at hc; rw [hreg]; exact hc
  | cons first rest =>
    simp only
    rw [hreg] at h
    have hf : first.length = d.inputs.length := h.arity first (by simp)
    have hr : ∀ r ∈ rest, r.length = d.inputs.length := fun r hr => h.arity r (by simp [hr])
    have hside : ∀ i, i < d.inputs.length →
        chainOK (d.inputs.getD i []).length (first.getD i ⟨0, 0⟩).hi (side i rest) = true := by
      intro i hi
      have := h.sides i hi
      simp only [side_cons, sideOK, Bool.and_eq_true, decide_eq_true_eq] at this
      exact this.2
    obtain ⟨g1, _⟩ := refineGo_wf d.inputs tok c rest first hf hr hside
    apply compact_compacted d.inputs.length
    intro r hrm
    simp only [List.mem_cons] at hrm
    rcases hrm with rfl | hrm
    · exact hf
    · exact g1 r hrm

theorem build_compacted (inputs : List Bytes) (steps : List (Tokenizer × Compare)) (d : ContentDiff)
    (h : build inputs steps = some d) : compactedb d.regions = true := by
  cases steps with
  | nil => simp [build] at h
  | cons s steps =>
    obtain ⟨t, c⟩ := s
    simp only [build, Option.map_eq_some_iff] at h
    obtain ⟨d0, hd0, rfl⟩ := h
    obtain ⟨e0, w0⟩ := forTokenizer_wf inputs t c d0 hd0
    have c0 := forTokenizer_compacted inputs t c d0 hd0
    clear hd0
    induction steps generalizing d0 with
    | nil => exact c0
    | cons s steps ih =>
      simp only [List.foldl_cons]
      have hw := refine_wf d0 s.1 s.2 (by rw [e0]; exact w0)
      rw [e0] at hw
      exact ih _ hw.1 hw.2 (refine_compacted d0 s.1 s.2 (by rw [e0]; exact w0) c0)

end JjModel.Diff
