import JjModel.Lemmas.Bisect
/-!
  Bisection with untestable (skipped) commits: the weaker "no false result" guarantee.
-/
namespace JjModel.Bisect
open JjModel.Dag

variable {G : Graph} {R B Sk : List Nat}

/-- the range is convex: a commit between two range commits is in the range -/
def Convex (G : Graph) (R : List Nat) : Prop :=
  ∀ a ∈ R, ∀ c ∈ R, ∀ b, Anc G a b → Anc G b c → b ∈ R

/-- marks agree with the truth (skips allowed) -/
structure Truth2 (G : Graph) (R B Sk : List Nat) (st : State) : Prop where
  bad : ∀ b ∈ st.bad, b ∈ B ∧ b ∈ R ∧ b < G.length
  good : ∀ g ∈ st.good, g ∉ B ∧ g < G.length
  skipped : ∀ s ∈ st.skipped, s ∈ Sk

theorem Truth2.step {st : State} (ht : Truth2 G R B Sk st) {c : Nat}
    (hc : c ∈ candidates (ancTable G) G.length R st) : Truth2 G R B Sk (mark st c (verdict B Sk c)) := by
  obtain ⟨hlt, hR, _⟩ := mem_candidates.1 hc
  unfold verdict
  by_cases hs : Sk.contains c = true
  · simp only [hs, if_true, mark]
    refine ⟨ht.bad, ht.good, ?_⟩
    intro s hs'
    rcases List.mem_cons.1 hs' with h | h
    · subst h; simpa using hs
    · exact ht.skipped s h
  · simp only [hs, Bool.false_eq_true, if_false]
    by_cases hb : c ∈ B
    · simp only [List.contains_iff_mem, hb, if_true, mark]
      refine ⟨?_, ht.good, ht.skipped⟩
      intro b hb'
      rcases List.mem_cons.1 hb' with h | h
      · subst h; exact ⟨hb, hR, hlt⟩
      · exact ht.bad b h
    · simp only [List.contains_iff_mem, hb, if_false, mark]
      refine ⟨ht.bad, ?_, ht.skipped⟩
      intro g hg
      rcases List.mem_cons.1 hg with h | h
      · subst h; exact ⟨hb, hlt⟩
      · exact ht.good g h

theorem truth2_init (hwf : WF G) (hh : HeadsBad G R B) :
    Truth2 G R B Sk (init (ancTable G) G.length R) := by
  refine ⟨?_, by simp [init], by simp [init]⟩
  intro b hb
  simp only [init] at hb
  have := (mem_headsOf hwf).1 hb
  exact ⟨hh b hb, this.2.1, this.1⟩

theorem runFrom_sound2 (f : Nat) (st : State) (acc : List Nat) (ht : Truth2 G R B Sk st)
    {res : Result} (hres : (runFrom G (ancTable G) G.length R B Sk f st acc).result = some res) :
    ∃ st', Truth2 G R B Sk st' ∧ candidates (ancTable G) G.length R st' = [] ∧
      res = result G (ancTable G) G.length st' := by
  induction f generalizing st acc with
  | zero => simp [runFrom] at hres
  | succ f ih =>
    unfold runFrom at hres
    split at hres
    · rename_i r hr
      obtain ⟨h1, h2⟩ := nextStep_done hr
      simp only [Option.some.injEq] at hres
      exact ⟨st, ht, h1, by rw [← hres, h2]⟩
    · rename_i c hc
      exact ih _ _ (ht.step (nextStep_evaluate hc)) hres

/-! ### the `todo` queue -/

theorem mem_skippedParents {sk xs : List Nat} {y : Nat} :
    y ∈ skippedParents G sk xs ↔ ∃ x ∈ xs, y ∈ parents G x ∧ y ∈ sk := by
  simp [skippedParents]

theorem possiblyBad_acc {sk : List Nat} (f : Nat) (level acc : List Nat) :
    ∀ y ∈ acc, y ∈ possiblyBad G sk f level acc := by
  induction f generalizing level acc with
  | zero => intro y hy; exact hy
  | succ f ih =>
    intro y hy
    simp only [possiblyBad]
    split
    · exact hy
    · exact ih _ _ y (List.mem_append_left _ hy)

theorem possiblyBad_sub {sk : List Nat} (f : Nat) (level acc : List Nat) :
    ∀ y ∈ possiblyBad G sk f level acc, y ∈ acc ∨ y ∈ sk := by
  induction f generalizing level acc with
  | zero => intro y hy; exact Or.inl hy
  | succ f ih =>
    intro y hy
    simp only [possiblyBad] at hy
    split at hy
    · exact Or.inl hy
    · rcases ih _ _ y hy with h | h
      · rcases List.mem_append.1 h with h | h
        · exact Or.inl h
        · exact Or.inr (mem_skippedParents.1 h).choose_spec.2.2
      · exact Or.inr h

/-- `SkipChain G sk x y m`: `y` is reached from `x` by `m ≥ 1` parent steps through skipped commits -/
inductive SkipChain (G : Graph) (sk : List Nat) : Nat → Nat → Nat → Prop
  | one {x y : Nat} : y ∈ parents G x → y ∈ sk → SkipChain G sk x y 1
  | more {x y z : Nat} {m : Nat} : y ∈ parents G x → y ∈ sk → SkipChain G sk y z m →
      SkipChain G sk x z (m + 1)

theorem possiblyBad_chain {sk : List Nat} {x y : Nat} {m : Nat} (h : SkipChain G sk x y m) :
    ∀ (f : Nat) (level acc : List Nat), m ≤ f → x ∈ level → y ∈ possiblyBad G sk f level acc := by
  induction h with
  | one hp hs =>
    intro f level acc hf hx
    cases f with
    | zero => omega
    | succ f =>
      simp only [possiblyBad]
      have hmem : _ ∈ skippedParents G sk level := mem_skippedParents.2 ⟨_, hx, hp, hs⟩
      split
      · rename_i hemp
        simp only [List.isEmpty_iff] at hemp
        rw [hemp] at hmem; cases hmem
      · exact possiblyBad_acc _ _ _ _ (List.mem_append_right _ hmem)
  | more hp hs _ ih =>
    intro f level acc hf hx
    cases f with
    | zero => omega
    | succ f =>
      simp only [possiblyBad]
      have hmem : _ ∈ skippedParents G sk level := mem_skippedParents.2 ⟨_, hx, hp, hs⟩
      split
      · rename_i hemp
        simp only [List.isEmpty_iff] at hemp
        rw [hemp] at hmem; cases hmem
      · exact ih f _ _ (by omega) hmem

/-- when no candidate is left: every bad range commit strictly below a root of the marked-bad set
is connected to that root by a chain of skipped commits -/
theorem bad_ancestor_chain (hwf : WF G) (hm : Mono G B) (hcv : Convex G R) {st : State}
    (ht : Truth2 G R B Sk st) (hc : candidates (ancTable G) G.length R st = [])
    {r : Nat} (hr : r ∈ rootsOf (ancTable G) G.length st.bad) :
    ∀ a, a ∈ R → a ≠ r → Anc G a r → a ∈ B → ∃ m, m ≤ r ∧ SkipChain G st.skipped r a m := by
  have hr' := (mem_rootsOf hwf).1 hr
  obtain ⟨_, hrR, _⟩ := ht.bad r hr'.2.1
  -- every bad range commit strictly below `r` is marked skipped
  have hskip : ∀ a, a ∈ R → a ≠ r → Anc G a r → a ∈ B → a ∈ st.skipped := by
    intro a haR hne haAnc haB
    have halt : a < G.length := by have := haAnc.le hwf; omega
    have hnot : a ∉ candidates (ancTable G) G.length R st := by rw [hc]; simp
    rw [mem_candidates] at hnot
    have h3 : isAncOfAny (ancTable G) (rootsOf (ancTable G) G.length st.bad) a = true :=
      (isAncOfAny_iff hwf).2 ⟨r, hr, haAnc⟩
    have h5 : a ∉ st.bad := fun h => hne (hr'.2.2 a h haAnc)
    apply Classical.byContradiction
    intro h6
    have h4 : isAncOfAny (ancTable G) (headsOf (ancTable G) G.length st.good) a = true := by
      cases hv : isAncOfAny (ancTable G) (headsOf (ancTable G) G.length st.good) a with
      | true => rfl
      | false => exact absurd ⟨halt, haR, h3, hv, h5, h6⟩ hnot
    obtain ⟨h, hh, hah⟩ := (isAncOfAny_iff hwf).1 h4
    have hgood := (mem_headsOf hwf).1 hh
    exact (ht.good h hgood.2.1).1 (hm.anc hah haB)
  -- walk down from `r`
  intro a haR hne haAnc haB
  -- generalise over the upper end of the path
  have key : ∀ x, Anc G a x → Anc G x r → a ≠ x → ∃ m, m ≤ x ∧ SkipChain G st.skipped x a m := by
    intro x hax
    induction hax with
    | refl => intro _ h; exact absurd rfl h
    | @step p d hp hap ih =>
      intro hdr _
      have hpR : p ∈ R := hcv a haR r hrR p hap ((Anc.parent hp).trans hdr)
      have hpr : Anc G p r := (Anc.parent hp).trans hdr
      have hplt := hwf _ _ hp
      have hpne : p ≠ r := by have := hdr.le hwf; omega
      have hpB : p ∈ B := hm.anc hap haB
      have hps : p ∈ st.skipped := hskip p hpR hpne hpr hpB
      by_cases hap' : a = p
      · subst hap'; exact ⟨1, by omega, SkipChain.one hp hps⟩
      · obtain ⟨m, hm', hch⟩ := ih hpr hap'
        exact ⟨m + 1, by omega, SkipChain.more hp hps hch⟩
  exact key r haAnc (Anc.refl r) hne

end JjModel.Bisect
