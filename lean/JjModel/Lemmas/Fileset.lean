import JjModel.Model.Fileset
import JjModel.Lemmas.Matchers
/-!
  Helper lemmas for C31: what the trees built by `FilesMatcher::new`, `PrefixMatcher::new` and
  `GlobsMatcherBuilder::build` contain (`valueAt` after `add`/`set_value`), and what the three leaf
  `matches` functions compute from it.  Core Lean only.
-/
namespace JjModel.Matchers

variable {V : Type}

/-- the value stored at `path`, the default if there is no such node -/
def Tree.valueAt (dflt : V) : Tree V → Path → V
  | t, [] => t.value
  | t, c :: rest => match t.child c with
    | none => dflt
    | some s => Tree.valueAt dflt s rest

theorem Tree.valueAt_empty (dflt : V) (p : Path) : (Tree.empty dflt).valueAt dflt p = dflt := by
  cases p <;> simp [Tree.valueAt, Tree.empty, Tree.child, Forest.find]

theorem Forest.find_modify (c c' : Comp) (h : V → Forest V → V × Forest V) (dflt : V) (f : Forest V) :
    (f.modify c h dflt).find c' =
      if c = c' then
        some (match f.find c with
              | some s => ⟨(h s.value s.entries).1, (h s.value s.entries).2⟩
              | none => ⟨(h dflt .nil).1, (h dflt .nil).2⟩)
      else f.find c' := by
  induction f with
  | nil => simp [Forest.modify, Forest.find]
  | cons n v k r _ ih =>
    simp only [Forest.modify]
    by_cases hn : n = c
    · subst hn
      by_cases hc : n = c' <;> simp [Forest.find, hc]
    · by_cases hc : c = c'
      · subst hc
        simp [Forest.find, hn, ih]
      · have hc2 : ¬ c' = c := fun h => hc h.symm
        by_cases hn' : n = c'
        · subst hn'; simp [Forest.find, hc, hc2]
        · simp [Forest.find, hn, hn', hc, ih]

theorem Tree.valueAt_updAt (dflt : V) (g : V → V) (q : Path) (t : Tree V) (p : Path) :
    (t.updAt dflt q g).valueAt dflt p =
      if p = q then g (t.valueAt dflt p) else t.valueAt dflt p := by
  induction q generalizing t p with
  | nil =>
    cases p with
    | nil => simp [Tree.updAt, nodeUpd, Tree.valueAt]
    | cons c rest => simp [Tree.updAt, nodeUpd, Tree.valueAt, Tree.child]
  | cons c qr ih =>
    cases p with
    | nil => simp [Tree.updAt, nodeUpd, Tree.valueAt]
    | cons c' pr =>
      simp only [Tree.updAt, nodeUpd, Tree.valueAt, Tree.child, Forest.find_modify]
      by_cases hc : c = c'
      · subst hc
        simp only [if_true, List.cons.injEq, true_and]
        cases hf : t.entries.find c with
        | some s =>
          have := ih s pr
          simp only [Tree.updAt] at this
          simp only [this]
        | none =>
          have := ih (Tree.empty dflt) pr
          simp only [Tree.updAt, Tree.empty, Tree.valueAt_empty] at this
          have he := Tree.valueAt_empty dflt pr
          simp only [Tree.empty] at he
          simp only [this, he]
      · have : ¬ (c' :: pr = c :: qr) := by
          intro h; injection h with h1 _; exact hc h1.symm
        simp [hc, this]

/-- a fold of `add(key a).set_value(F (key a))` over a list -/
theorem Tree.valueAt_foldl {α : Type} (dflt : V) (key : α → Path) (F : Path → V) (l : List α)
    (t0 : Tree V) (p : Path) :
    (l.foldl (fun t a => t.updAt dflt (key a) (fun _ => F (key a))) t0).valueAt dflt p =
      if p ∈ l.map key then F p else t0.valueAt dflt p := by
  induction l generalizing t0 with
  | nil => simp
  | cons a l ih =>
    simp only [List.foldl_cons, ih, Tree.valueAt_updAt, List.map_cons, List.mem_cons]
    by_cases h1 : p ∈ l.map key
    · simp [h1]
    · by_cases h2 : p = key a
      · subst h2; simp
      · simp [h1, h2]

/-! ### what the three `matches` compute from the stored values -/

/-- `f` holds for some prefix of the path (including `[]` and the path itself) -/
def anyInit (f : Path → Bool) : Path → Bool
  | [] => f []
  | c :: rest => f [] || anyInit (fun q => f (c :: q)) rest

/-- `f dir tail` holds for some split `path = dir ++ tail` with a non-empty tail -/
def anySplit (f : Path → Path → Bool) : Path → Bool
  | [] => false
  | c :: rest => f [] (c :: rest) || anySplit (fun d tl => f (c :: d) tl) rest

theorem anyInit_false (p : Path) : anyInit (fun _ => false) p = false := by
  induction p with
  | nil => rfl
  | cons c rest ih => simp [anyInit, ih]

theorem anySplit_false (p : Path) : anySplit (fun _ _ => false) p = false := by
  induction p with
  | nil => rfl
  | cons c rest ih => simp [anySplit, ih]

theorem anyInit_iff (f : Path → Bool) (p : Path) :
    anyInit f p = true ↔ ∃ q, q <+: p ∧ f q = true := by
  induction p generalizing f with
  | nil =>
    simp only [anyInit]
    constructor
    · intro h; exact ⟨[], List.prefix_refl _, h⟩
    · rintro ⟨q, hq, hf⟩
      have : q = [] := List.prefix_nil.mp hq
      subst this; exact hf
  | cons c rest ih =>
    simp only [anyInit, Bool.or_eq_true, ih]
    constructor
    · rintro (h | ⟨q, hq, hf⟩)
      · exact ⟨[], List.nil_prefix, h⟩
      · exact ⟨c :: q, (List.cons_prefix_cons).mpr ⟨rfl, hq⟩, hf⟩
    · rintro ⟨q, hq, hf⟩
      cases q with
      | nil => exact Or.inl hf
      | cons a q' =>
        obtain ⟨rfl, hq'⟩ := (List.cons_prefix_cons).mp hq
        exact Or.inr ⟨q', hq', hf⟩

theorem anySplit_iff (f : Path → Path → Bool) (p : Path) :
    anySplit f p = true ↔ ∃ d tl, p = d ++ tl ∧ tl ≠ [] ∧ f d tl = true := by
  induction p generalizing f with
  | nil =>
    simp only [anySplit]
    constructor
    · intro h; cases h
    · rintro ⟨d, tl, hp, htl, _⟩
      have := List.append_eq_nil_iff.mp hp.symm
      exact absurd this.2 htl
  | cons c rest ih =>
    simp only [anySplit, Bool.or_eq_true, ih]
    constructor
    · rintro (h | ⟨d, tl, hp, htl, hf⟩)
      · exact ⟨[], c :: rest, rfl, by simp, h⟩
      · exact ⟨c :: d, tl, by simp [hp], htl, hf⟩
    · rintro ⟨d, tl, hp, htl, hf⟩
      cases d with
      | nil =>
        simp only [List.nil_append] at hp
        subst hp; exact Or.inl hf
      | cons a d' =>
        simp only [List.cons_append, List.cons.injEq] at hp
        obtain ⟨rfl, hp'⟩ := hp
        exact Or.inr ⟨d', tl, hp', htl, hf⟩

theorem filesMatches_eq (t : Tree FilesKind) (p : Path) :
    filesMatches t p = (t.valueAt .dir p == .file) := by
  induction p generalizing t with
  | nil => simp [filesMatches, Tree.get, Tree.valueAt]
  | cons c rest ih =>
    have := fun s => ih s
    simp only [filesMatches, Tree.get, Tree.valueAt] at this ⊢
    cases t.child c with
    | none => simp
    | some s => simpa using this s

theorem prefixMatches_eq (t : Tree PrefixKind) (p : Path) :
    prefixMatches t p = anyInit (fun q => t.valueAt .dir q == .pfx) p := by
  induction p generalizing t with
  | nil => simp [prefixMatches, anyInit, Tree.valueAt]
  | cons c rest ih =>
    simp only [prefixMatches, anyInit, Tree.valueAt]
    cases t.child c with
    | none =>
      have : (fun (_ : Path) => (PrefixKind.dir == PrefixKind.pfx)) = fun _ => false := by
        funext _; decide
      simp [this, anyInit_false]
    | some s => simp [ih s]

theorem globsMatches_eq (t : Tree (Option Glob)) (p : Path) :
    globsMatches t p =
      anySplit (fun d tl => match t.valueAt none d with | some g => g tl | none => false) p := by
  induction p generalizing t with
  | nil => simp [globsMatches, anySplit]
  | cons c rest ih =>
    simp only [globsMatches, anySplit, Tree.valueAt]
    cases hv : t.value <;> cases t.child c <;> simp [anySplit_false, ih]

end JjModel.Matchers
