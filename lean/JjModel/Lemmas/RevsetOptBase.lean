import JjModel.Model.RevsetOpt
import JjModel.Lemmas.RevsetResolve
/-!
  C19 lemmas, part 9: framework for the soundness of the `optimize()` passes.

  A pass is sound when it preserves `denote g vh` for the *fixed* visibility context `vh`
  (= referenced commits of the original expression ++ visible heads — `optimize` collects the
  referenced commits before rewriting) and keeps the referenced commits of the rewritten
  expression inside `vh`.
-/
namespace JjModel.Revset

/-- what the rewrite rules may assume about the context -/
structure Ctx (g : Graph) (vh : List Nat) : Prop where
  wf : g.WF
  /-- the root commit is visible (every jj repo: it is an ancestor of every head) -/
  rootIn : AncAll g (· ∈ vh) 0
  headsIn : ∀ h ∈ g.heads, h ∈ vh
  lt : ∀ x ∈ vh, x < g.size

def RefsIn (vh : List Nat) (e : Expr) : Prop := ∀ x ∈ refsOf e, x ∈ vh

abbrev All (g : Graph) (vh : List Nat) : Nat → Prop := AncAll g (· ∈ vh)

theorem all_trans {g : Graph} {vh : List Nat} {x p : Nat} (h : All g vh x) (hp : Path g.par x p) :
    All g vh p := by
  obtain ⟨y, hy, hyx⟩ := h
  exact ⟨y, hy, hyx.trans hp⟩

theorem path_of_pathK_adj {g : Graph} {fp : Bool} {k x p : Nat} (h : PathK (g.adj fp) k x p) :
    Path g.par x p := by
  rw [Graph.adj_eq] at h
  exact Path.mono (adjF_sub g.par fp) ⟨k, h⟩

theorem ancOf_sub {g : Graph} {vh : List Nat} {S : Nat → Prop} (hS : ∀ x, S x → All g vh x)
    {fp : Bool} {lo : Nat} {hi : Option Nat} {p : Nat} (h : AncOf g fp lo hi S p) : All g vh p := by
  obtain ⟨x, hx, k, _, hk⟩ := h
  exact all_trans (hS x hx) (path_of_pathK_adj hk)

theorem ancAll_sub {g : Graph} {vh : List Nat} {S : Nat → Prop} (hS : ∀ x, S x → All g vh x)
    {p : Nat} (h : AncAll g S p) : All g vh p := by
  obtain ⟨x, hx, hp⟩ := h
  exact all_trans (hS x hx) hp

theorem refsIn_append {vh : List Nat} {a b : List Nat} :
    (∀ x ∈ a ++ b, x ∈ vh) ↔ (∀ x ∈ a, x ∈ vh) ∧ (∀ x ∈ b, x ∈ vh) := by
  simp only [List.mem_append]
  constructor
  · intro h; exact ⟨fun x hx => h x (Or.inl hx), fun x hx => h x (Or.inr hx)⟩
  · rintro ⟨h1, h2⟩ x (hx | hx)
    · exact h1 x hx
    · exact h2 x hx

/-- every expression denotes a subset of `all()` -/
theorem denote_sub_all {g : Graph} {vh : List Nat} (ctx : Ctx g vh) :
    ∀ (e : Expr), RefsIn vh e → ∀ p, denote g vh e p → All g vh p := by
  intro e
  induction e with
  | none => intro _ p h; exact absurd h (by simp [denote])
  | all => intro _ p h; exact h
  | visibleHeads => intro _ p h; exact ⟨p, ctx.headsIn p h, Path.refl _ _⟩
  | visibleHeadsOrReferenced => intro _ p h; exact ⟨p, h, Path.refl _ _⟩
  | root => intro _ p h; simp only [denote] at h; subst h; exact ctx.rootIn
  | commits l => intro hr p h; exact ⟨p, hr p h, Path.refl _ _⟩
  | ancestors h lo hi fp ih => intro hr p hp; exact ancOf_sub (ih hr) hp
  | descendants r lo hi ih => intro _ p hp; exact hp.1
  | range r h lo hi fp ihr ihh =>
    intro hr p hp
    exact ancOf_sub (ihh (refsIn_append.1 hr).2) hp.1
  | dagRange r h ihr ihh =>
    intro hr p hp
    exact ancAll_sub (ihh (refsIn_append.1 hr).2) hp.1
  | reachable s d ihs ihd => intro hr p hp; exact ihd (refsIn_append.1 hr).2 p hp.1
  | heads x ih => intro hr p hp; exact ih hr p hp.1
  | headsRange r h fp f ihr ihh ihf =>
    intro hr p hp
    have hr' := refsIn_append.1 hr
    exact ancOf_sub (ihh (refsIn_append.1 hr'.1).2) hp.1.1
  | roots x ih => intro hr p hp; exact ih hr p hp.1
  | forkPoint x ih =>
    intro hr p hp
    obtain ⟨⟨y, hy⟩, hh, _⟩ := hp
    exact all_trans (ih hr y hy) (hh y hy)
  | mergePoint x ih => intro _ p hp; exact hp.2.1.1
  | forks => intro _ p hp; exact hp.1
  | latest x n ih => intro hr p hp; exact ih hr p hp.1
  | coalesce a b iha ihb =>
    intro hr p hp
    rcases hp with ⟨_, h⟩ | ⟨_, h⟩
    · exact iha (refsIn_append.1 hr).1 p h
    · exact ihb (refsIn_append.1 hr).2 p h
  | notIn x ih => intro _ p hp; exact hp.1
  | union a b iha ihb =>
    intro hr p hp
    rcases hp with h | h
    · exact iha (refsIn_append.1 hr).1 p h
    · exact ihb (refsIn_append.1 hr).2 p h
  | inter a b iha ihb => intro hr p hp; exact iha (refsIn_append.1 hr).1 p hp.1
  | diff a b iha ihb => intro hr p hp; exact iha (refsIn_append.1 hr).1 p hp.1

/-- a whole-expression transformer is sound -/
def Sound (g : Graph) (vh : List Nat) (f : Expr → Expr) : Prop :=
  ∀ e, RefsIn vh e → RefsIn vh (f e) ∧ denote g vh (f e) = denote g vh e

/-- a local rewrite rule is sound -/
def Local (g : Graph) (vh : List Nat) (F : Expr → Option Expr) : Prop :=
  ∀ e e', RefsIn vh e → F e = some e' → RefsIn vh e' ∧ denote g vh e' = denote g vh e

theorem Sound.comp {g : Graph} {vh : List Nat} {f₁ f₂ : Expr → Expr} (h₁ : Sound g vh f₁)
    (h₂ : Sound g vh f₂) : Sound g vh (fun e => f₂ (f₁ e)) := by
  intro e hr
  obtain ⟨a, b⟩ := h₁ e hr
  obtain ⟨c, d⟩ := h₂ (f₁ e) a
  exact ⟨c, d.trans b⟩

theorem local_finish {g : Graph} {vh : List Nat} {F : Expr → Option Expr} (hL : Local g vh F)
    {e e1 : Expr} (h : RefsIn vh e1 ∧ denote g vh e1 = denote g vh e) :
    RefsIn vh ((F e1).getD e1) ∧ denote g vh ((F e1).getD e1) = denote g vh e := by
  cases hF : F e1 with
  | none => simpa using h
  | some e' =>
    obtain ⟨a, b⟩ := hL e1 e' h.1 hF
    exact ⟨by simpa using a, by simpa using b.trans h.2⟩

/-- `transform_expression_bottom_up` lifts a sound local rule to a sound pass -/
theorem bottomUp_sound {g : Graph} {vh : List Nat} {F : Expr → Option Expr} (hL : Local g vh F) :
    Sound g vh (bottomUp F) := by
  intro e
  induction e with
  | none => intro hr; rw [bottomUp]; exact local_finish hL ⟨hr, rfl⟩
  | all => intro hr; rw [bottomUp]; exact local_finish hL ⟨hr, rfl⟩
  | visibleHeads => intro hr; rw [bottomUp]; exact local_finish hL ⟨hr, rfl⟩
  | visibleHeadsOrReferenced => intro hr; rw [bottomUp]; exact local_finish hL ⟨hr, rfl⟩
  | root => intro hr; rw [bottomUp]; exact local_finish hL ⟨hr, rfl⟩
  | forks => intro hr; rw [bottomUp]; exact local_finish hL ⟨hr, rfl⟩
  | commits l => intro hr; rw [bottomUp]; exact local_finish hL ⟨hr, rfl⟩
  | ancestors h lo hi fp ih =>
    intro hr
    obtain ⟨a, b⟩ := ih hr
    rw [bottomUp]
    exact local_finish hL ⟨a, by simp only [denote, b]⟩
  | descendants r lo hi ih =>
    intro hr
    obtain ⟨a, b⟩ := ih hr
    rw [bottomUp]
    exact local_finish hL ⟨a, by simp only [denote, b]⟩
  | range r h lo hi fp ihr ihh =>
    intro hr
    obtain ⟨a, b⟩ := ihr (refsIn_append.1 hr).1
    obtain ⟨c, d⟩ := ihh (refsIn_append.1 hr).2
    rw [bottomUp]
    exact local_finish hL ⟨refsIn_append.2 ⟨a, c⟩, by simp only [denote, b, d]⟩
  | dagRange r h ihr ihh =>
    intro hr
    obtain ⟨a, b⟩ := ihr (refsIn_append.1 hr).1
    obtain ⟨c, d⟩ := ihh (refsIn_append.1 hr).2
    rw [bottomUp]
    exact local_finish hL ⟨refsIn_append.2 ⟨a, c⟩, by simp only [denote, b, d]⟩
  | reachable s d ihs ihd =>
    intro hr
    obtain ⟨a, b⟩ := ihs (refsIn_append.1 hr).1
    obtain ⟨c, d'⟩ := ihd (refsIn_append.1 hr).2
    rw [bottomUp]
    exact local_finish hL ⟨refsIn_append.2 ⟨a, c⟩, by simp only [denote, b, d']⟩
  | heads x ih =>
    intro hr
    obtain ⟨a, b⟩ := ih hr
    rw [bottomUp]
    exact local_finish hL ⟨a, by simp only [denote, b]⟩
  | headsRange r h fp f ihr ihh ihf =>
    intro hr
    have hr' := refsIn_append.1 hr
    have hr'' := refsIn_append.1 hr'.1
    obtain ⟨a, b⟩ := ihr hr''.1
    obtain ⟨c, d⟩ := ihh hr''.2
    obtain ⟨e1, e2⟩ := ihf hr'.2
    rw [bottomUp]
    exact local_finish hL ⟨refsIn_append.2 ⟨refsIn_append.2 ⟨a, c⟩, e1⟩, by simp only [denote, b, d, e2]⟩
  | roots x ih =>
    intro hr
    obtain ⟨a, b⟩ := ih hr
    rw [bottomUp]
    exact local_finish hL ⟨a, by simp only [denote, b]⟩
  | forkPoint x ih =>
    intro hr
    obtain ⟨a, b⟩ := ih hr
    rw [bottomUp]
    exact local_finish hL ⟨a, by simp only [denote, b]⟩
  | latest x n ih =>
    intro hr
    obtain ⟨a, b⟩ := ih hr
    rw [bottomUp]
    exact local_finish hL ⟨a, by simp only [denote, b]⟩
  | mergePoint x ih =>
    intro hr
    obtain ⟨a, b⟩ := ih hr
    rw [bottomUp]
    exact local_finish hL ⟨a, by simp only [denote, b]⟩
  | coalesce x y ihx ihy =>
    intro hr
    obtain ⟨a, b⟩ := ihx (refsIn_append.1 hr).1
    obtain ⟨c, d⟩ := ihy (refsIn_append.1 hr).2
    rw [bottomUp]
    exact local_finish hL ⟨refsIn_append.2 ⟨a, c⟩, by simp only [denote, b, d]⟩
  | notIn x ih =>
    intro hr
    obtain ⟨a, b⟩ := ih hr
    rw [bottomUp]
    exact local_finish hL ⟨a, by simp only [denote, b]⟩
  | union x y ihx ihy =>
    intro hr
    obtain ⟨a, b⟩ := ihx (refsIn_append.1 hr).1
    obtain ⟨c, d⟩ := ihy (refsIn_append.1 hr).2
    rw [bottomUp]
    exact local_finish hL ⟨refsIn_append.2 ⟨a, c⟩, by simp only [denote, b, d]⟩
  | inter x y ihx ihy =>
    intro hr
    obtain ⟨a, b⟩ := ihx (refsIn_append.1 hr).1
    obtain ⟨c, d⟩ := ihy (refsIn_append.1 hr).2
    rw [bottomUp]
    exact local_finish hL ⟨refsIn_append.2 ⟨a, c⟩, by simp only [denote, b, d]⟩
  | diff x y ihx ihy =>
    intro hr
    obtain ⟨a, b⟩ := ihx (refsIn_append.1 hr).1
    obtain ⟨c, d⟩ := ihy (refsIn_append.1 hr).2
    rw [bottomUp]
    exact local_finish hL ⟨refsIn_append.2 ⟨a, c⟩, by simp only [denote, b, d]⟩

end JjModel.Revset
