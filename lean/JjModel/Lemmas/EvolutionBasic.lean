import JjModel.Model.Evolution
/-!
  Vocabulary for the C46 proofs: the predecessor edge relation of one operation, reachability,
  paths, and "occurs later in a list".
-/
namespace JjModel.Evolution

/-- `c` was rewritten from `p` according to the map `m` (`p ∈ predecessors_for_commit(c)`). -/
def Edge (m : PMap) (c p : Nat) : Prop := p ∈ m.nbrs c

theorem Edge.isKey {m : PMap} {c p : Nat} (h : Edge m c p) : m.isKey c = true := by
  unfold Edge PMap.nbrs at h
  unfold PMap.isKey
  cases hg : m.get c with
  | none => simp [hg] at h
  | some ps => simp

theorem nbrs_of_get {m : PMap} {c : Nat} {ps : List Nat} (h : m.get c = some ps) : m.nbrs c = ps := by
  simp [PMap.nbrs, h]

theorem nbrs_of_not_key {m : PMap} {c : Nat} (h : m.isKey c = false) : m.nbrs c = [] := by
  unfold PMap.isKey at h
  cases hg : m.get c with
  | none => simp [PMap.nbrs, hg]
  | some ps => simp [hg] at h

theorem isKey_of_get {m : PMap} {c : Nat} {ps : List Nat} (h : m.get c = some ps) : m.isKey c = true := by
  simp [PMap.isKey, h]

theorem not_key_of_get_none {m : PMap} {c : Nat} (h : m.get c = none) : m.isKey c = false := by
  simp [PMap.isKey, h]

/-- commits reachable from the set `S` through edges of `m` (reflexive-transitive) -/
inductive Reach (m : PMap) (S : List Nat) : Nat → Prop
  | base {x} : x ∈ S → Reach m S x
  | step {c p} : Reach m S c → Edge m c p → Reach m S p

theorem Reach.mono {m : PMap} {S T : List Nat} {x : Nat} (h : Reach m S x)
    (hst : ∀ s, s ∈ S → Reach m T s) : Reach m T x := by
  induction h with
  | base hx => exact hst _ hx
  | step _ he ih => exact .step ih he

/-- a path of at least one edge -/
inductive Plus (m : PMap) : Nat → Nat → Prop
  | single {a b} : Edge m a b → Plus m a b
  | tail {a b c} : Plus m a b → Edge m b c → Plus m a c

theorem Plus.trans_edge {m : PMap} {a b c : Nat} (h : Edge m a b) (h2 : Plus m b c) : Plus m a c := by
  induction h2 with
  | single e => exact .tail (.single h) e
  | tail _ e ih => exact .tail ih e

theorem Plus.trans {m : PMap} {a b c : Nat} (h : Plus m a b) (h2 : Plus m b c) : Plus m a c := by
  induction h2 with
  | single e => exact .tail h e
  | tail _ e ih => exact .tail ih e

/-- the predecessor edges inside one operation are acyclic: some rank decreases along every edge
that stays inside the operation -/
def WithinAcyclic (m : PMap) : Prop :=
  ∃ rank : Nat → Nat, ∀ c p, Edge m c p → m.isKey p = true → rank p < rank c

theorem Plus.rank_lt {m : PMap} {rank : Nat → Nat}
    (hr : ∀ c p, Edge m c p → m.isKey p = true → rank p < rank c)
    {a b : Nat} (h : Plus m a b) (hb : m.isKey b = true) : rank b < rank a := by
  induction h with
  | single e => exact hr _ _ e hb
  | tail _ e ih =>
    have := ih e.isKey
    have := hr _ _ e hb
    omega

theorem WithinAcyclic.no_loop {m : PMap} (h : WithinAcyclic m) (n : Nat) : ¬ Plus m n n := by
  obtain ⟨rank, hr⟩ := h
  intro hp
  have hk : m.isKey n = true := by
    cases hp with
    | single e => exact e.isKey
    | tail _ e => exact (by
        rename_i b hb
        -- the path starts with an edge out of `n`
        clear e
        induction hb with
        | single e => exact e.isKey
        | tail _ _ ih => exact ih)
  have := Plus.rank_lt hr hp hk
  omega

/-! ### `Later l a b`: `b` occurs after some occurrence of `a` -/

def Later {α : Type} (l : List α) (a b : α) : Prop := ∃ l1 l2, l = l1 ++ a :: l2 ∧ b ∈ l2

theorem Later.cons_self {α : Type} {l : List α} {a b : α} (h : b ∈ l) : Later (a :: l) a b :=
  ⟨[], l, rfl, h⟩

theorem Later.cons {α : Type} {l : List α} {a b x : α} (h : Later l a b) : Later (x :: l) a b := by
  obtain ⟨l1, l2, rfl, hb⟩ := h
  exact ⟨x :: l1, l2, rfl, hb⟩

theorem Later.append_left {α : Type} {l r : List α} {a b : α} (h : Later l a b) : Later (l ++ r) a b := by
  obtain ⟨l1, l2, rfl, hb⟩ := h
  exact ⟨l1, l2 ++ r, by simp, by simp [hb]⟩

theorem Later.append_right {α : Type} {l r : List α} {a b : α} (h : Later r a b) : Later (l ++ r) a b := by
  obtain ⟨l1, l2, rfl, hb⟩ := h
  exact ⟨l ++ l1, l2, by simp, hb⟩

theorem Later.cross {α : Type} {l r : List α} {a b : α} (ha : a ∈ l) (hb : b ∈ r) : Later (l ++ r) a b := by
  obtain ⟨l1, l2, rfl⟩ := List.append_of_mem ha
  exact ⟨l1, l2 ++ r, by simp, by simp [hb]⟩

theorem Later.mem_left {α : Type} {l : List α} {a b : α} (h : Later l a b) : a ∈ l := by
  obtain ⟨l1, l2, rfl, _⟩ := h; simp

theorem Later.mem_right {α : Type} {l : List α} {a b : α} (h : Later l a b) : b ∈ l := by
  obtain ⟨l1, l2, rfl, hb⟩ := h; simp [hb]

theorem Later.filter {α : Type} {l : List α} {a b : α} (f : α → Bool) (h : Later l a b)
    (ha : f a = true) (hb : f b = true) : Later (l.filter f) a b := by
  obtain ⟨l1, l2, rfl, hb'⟩ := h
  refine ⟨l1.filter f, l2.filter f, by simp [List.filter_cons, ha], ?_⟩
  exact List.mem_filter.mpr ⟨hb', hb⟩

end JjModel.Evolution
