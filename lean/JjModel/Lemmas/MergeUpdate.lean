import JjModel.Lemmas.MergeMapping
/-!
  The write-back loop of `update_from_simplified` (`for (index, value) in mapping.zip(values)
  { self.values[index] = value }`) as a fold of `List.set`: lemmas for C01.
-/
namespace JjModel.Merge
set_option linter.unusedSectionVars false
variable {α : Type}

/-- the write-back loop -/
def writeBack (m : List Nat) (s acc : List α) : List α :=
  (m.zip s).foldl (fun acc p => acc.set p.1 p.2) acc

theorem writeBack_nil (s acc : List α) : writeBack [] s acc = acc := by simp [writeBack]

theorem writeBack_cons (i : Nat) (m : List Nat) (x : α) (s acc : List α) :
    writeBack (i :: m) (x :: s) acc = writeBack m s (acc.set i x) := by simp [writeBack]

theorem length_writeBack (m : List Nat) (s acc : List α) :
    (writeBack m s acc).length = acc.length := by
  induction m generalizing s acc with
  | nil => simp [writeBack]
  | cons i m ih =>
    cases s with
    | nil => simp [writeBack]
    | cons x s => rw [writeBack_cons, ih]; simp

/-- positions not named by the mapping keep their value -/
theorem writeBack_not_mem (m : List Nat) (s acc : List α) (j : Nat) (hj : j ∉ m) :
    (writeBack m s acc)[j]? = acc[j]? := by
  induction m generalizing s acc with
  | nil => simp [writeBack]
  | cons i m ih =>
    cases s with
    | nil => simp [writeBack]
    | cons x s =>
      simp only [List.mem_cons, not_or] at hj
      rw [writeBack_cons, ih _ _ hj.2, List.getElem?_set_ne (Ne.symm hj.1)]

/-- a position named (once) by the mapping receives the corresponding new value -/
theorem writeBack_mem (m : List Nat) (s acc : List α) (hnd : m.Nodup) (hlen : m.length = s.length)
    (k i : Nat) (hk : m[k]? = some i) (hi : i < acc.length) :
    (writeBack m s acc)[i]? = s[k]? := by
  induction m generalizing s acc k with
  | nil => simp at hk
  | cons i0 m ih =>
    cases s with
    | nil => simp at hlen
    | cons x s =>
      rw [writeBack_cons]
      simp only [List.nodup_cons] at hnd
      cases k with
      | zero =>
        simp at hk; subst hk
        rw [writeBack_not_mem _ _ _ _ hnd.1]
        simp [hi]
      | succ k =>
        simp only [List.getElem?_cons_succ] at hk ⊢
        exact ih s (acc.set i0 x) hnd.2 (by simpa using hlen) k hk (by simpa using hi)

/-- signed count after the write-back: the new values come in with the sign of their position
in `s`, the overwritten ones leave with the same sign (parity-preserving mapping). -/
theorem scount_writeBack [DecidableEq α] (d : α) (v : α) (m : List Nat) (s acc : List α) (t : Int)
    (hnd : m.Nodup) (hlen : m.length = s.length) (hr : ∀ i ∈ m, i < acc.length)
    (hp : ∀ (k i : Nat), m[k]? = some i → sgn 1 i = sgn t k) :
    scount (writeBack m s acc) 1 v =
      scount acc 1 v + scount s t v - scount (m.map (val acc d)) t v := by
  induction m generalizing s acc t with
  | nil =>
    cases s with
    | nil => simp [writeBack, scount]
    | cons x s => simp at hlen
  | cons i m ih =>
    cases s with
    | nil => simp at hlen
    | cons x s =>
      simp only [List.nodup_cons] at hnd
      have hi : i < acc.length := hr i (by simp)
      rw [writeBack_cons, ih s (acc.set i x) (-t) hnd.2 (by simpa using hlen)
        (fun j hj => by simpa using hr j (by simp [hj]))
        (fun k j hk => by rw [sgn_succ]; exact hp (k + 1) j (by simpa using hk))]
      rw [scount_set _ _ _ _ _ hi]
      have h0 : sgn 1 i = t := by simpa [sgn] using hp 0 i (by simp)
      have hmap : m.map (val (acc.set i x) d) = m.map (val acc d) := by
        apply List.map_congr_left
        intro j hj
        have : i ≠ j := fun h => hnd.1 (h ▸ hj)
        simp [val, List.getElem?_set_ne this]
      have hval : val acc d i = acc[i] := by simp [val, List.getElem?_eq_getElem hi]
      rw [hmap, h0]
      simp only [List.map_cons, scount, hval, Int.mul_sub]
      omega

end JjModel.Merge
