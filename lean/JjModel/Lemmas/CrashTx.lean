import JjModel.Lemmas.CrashRepo
/-!
  C15: the ideal transaction protocol (`txSteps`, `cmdSteps`, `updateStaleSteps`) obeys the write
  discipline, and what it leaves behind.
-/
namespace JjModel.Crash

theorem run_append (fs : Fs) (l1 l2 : List Step) : run fs (l1 ++ l2) = run (run fs l1) l2 := by
  simp [run, List.foldl_append]

theorem wellOrderedWc_append (l1 l2 : List Step) : ∀ fs : Fs,
    wellOrderedWc fs (l1 ++ l2) = (wellOrderedWc fs l1 && wellOrderedWc (run fs l1) l2) := by
  induction l1 with
  | nil => intro fs; simp [wellOrderedWc, run]
  | cons s l1 ih => intro fs; simp [wellOrderedWc, ih, run_cons, Bool.and_assoc]

theorem wellOrdered_of_wc (steps : List Step) : ∀ fs : Fs,
    wellOrderedWc fs steps = true → wellOrdered fs steps = true := by
  induction steps with
  | nil => intro fs _; rfl
  | cons s rest ih =>
    intro fs h
    simp only [wellOrderedWc, Bool.and_eq_true] at h
    simp only [wellOrdered, Bool.and_eq_true]
    exact ⟨h.1.1, ih _ h.2⟩

theorem headAfter_append (h : Nat) (l1 l2 : List Step) :
    headAfter h (l1 ++ l2) = headAfter (headAfter h l1) l2 := by
  simp [headAfter, List.foldl_append]

/-- steps that publish nothing -/
def noHa : Step → Bool
  | .ha _ => false
  | _ => true

theorem headAfter_noHa (h : Nat) (l : List Step) (hl : l.all noHa = true) : headAfter h l = h := by
  induction l generalizing h with
  | nil => rfl
  | cons s l ih =>
    simp only [List.all_cons, Bool.and_eq_true] at hl
    rw [headAfter_cons]
    cases s <;> simp_all [nextHead, noHa]

theorem all_take {α : Type} (p : α → Bool) (l : List α) (n : Nat) (h : l.all p = true) :
    (l.take n).all p = true := by
  rw [List.all_eq_true] at h ⊢
  intro s hs
  exact h s (List.mem_of_mem_take hs)

theorem run_replicate_wf (n : Nat) : ∀ fs : Fs,
    run fs (List.replicate n .wf) = { fs with wcFiles := fs.wcFiles + n } := by
  induction n with
  | zero => intro fs; rfl
  | succ n ih =>
    intro fs
    rw [List.replicate_succ, run_cons, ih]
    simp [Step.apply, Nat.add_assoc, Nat.add_comm 1 n]

theorem wellOrderedWc_replicate_wf (n : Nat) : ∀ fs : Fs,
    wellOrderedWc fs (List.replicate n .wf) = true := by
  induction n with
  | zero => intro fs; rfl
  | succ n ih => intro fs; simp [List.replicate_succ, wellOrderedWc, okStep, okWc, ih]

/-- What the ids of the next transaction must satisfy in state `fs` with head `h`:
    fresh (hash of content that includes the parent id) and content-addressed. -/
structure FreshTx (fs : Fs) (h : Nat) (tx : Tx) : Prop where
  ne : tx.op ≠ h
  nm : NotMent tx.op fs.ops
  caOp : ∀ r', look tx.op fs.ops = some r' → r' = ⟨[h], tx.view⟩
  caView : ∀ t', look tx.view fs.views = some t' → t' = tx.tree
  /-- `tree_state` is re-saved whenever the working-copy tree changes -/
  treeOk : tx.saveTree = false → tx.tree = fs.wcTree

/-- the part of a transaction before the publish: objects only -/
def txPre (parent : Nat) (tx : Tx) : List Step :=
  [.wv tx.view tx.tree, .wo tx.op ⟨[parent], tx.view⟩] ++ (if tx.seg then [.ws] else []) ++ [.wl tx.op]

/-- publish + working-copy update -/
def txPost (parent : Nat) (tx : Tx) : List Step :=
  [.ha tx.op, .hr parent] ++ (List.replicate tx.files .wf ++
    ((if tx.saveTree then [.st tx.tree] else []) ++ [.sc tx.op]))

theorem txPost_tail_noHa (parent : Nat) (tx : Tx) :
    (([Step.hr parent] : List Step) ++ (List.replicate tx.files Step.wf ++
      ((if tx.saveTree then [Step.st tx.tree] else []) ++ [Step.sc tx.op]))).all noHa = true := by
  rw [List.all_eq_true]
  intro s hs
  simp only [List.cons_append, List.nil_append, List.mem_cons, List.mem_append,
    List.mem_replicate] at hs
  rcases hs with rfl | ⟨_, rfl⟩ | hs | hs
  · rfl
  · rfl
  · cases hst : tx.saveTree <;> simp [hst] at hs
    subst hs; rfl
  · simp at hs; subst hs; rfl

theorem txSteps_split (parent : Nat) (tx : Tx) : txSteps parent tx = txPre parent tx ++ txPost parent tx := by
  simp [txSteps, txPre, txPost, List.append_assoc]

theorem txPre_length (parent : Nat) (tx : Tx) :
    (txPre parent tx).length = 3 + (if tx.seg then 1 else 0) := by
  cases hs : tx.seg <;> simp [txPre, hs]

theorem txPre_noHa (parent : Nat) (tx : Tx) : (txPre parent tx).all noHa = true := by
  cases hs : tx.seg <;> simp [txPre, hs, noHa]

/-- the steps of one transaction before / from the publish point -/
theorem take_txSteps_pre (h : Nat) (tx : Tx) (n : Nat) (hn : n ≤ (txPre h tx).length) :
    (txSteps h tx).take n = (txPre h tx).take n := by
  rw [txSteps_split, List.take_append_of_le_length hn]

theorem take_txSteps_post (h : Nat) (tx : Tx) (n : Nat) (hn : (txPre h tx).length ≤ n) :
    (txSteps h tx).take n = txPre h tx ++ (txPost h tx).take (n - (txPre h tx).length) := by
  rw [txSteps_split, List.take_append]
  rw [List.take_of_length_le hn]

/-- the files after the object writes -/
def afterPre (fs : Fs) (h : Nat) (tx : Tx) : Fs :=
  { fs with ops := (tx.op, ⟨[h], tx.view⟩) :: fs.ops, views := (tx.view, tx.tree) :: fs.views,
            links := tx.op :: fs.links, segs := fs.segs + (if tx.seg then 1 else 0) }

theorem run_txPre (fs : Fs) (h : Nat) (tx : Tx) : run fs (txPre h tx) = afterPre fs h tx := by
  cases hs : tx.seg <;> simp [txPre, hs, run, Step.apply, afterPre]

/-- the files after the whole transaction -/
def afterTx (fs : Fs) (h : Nat) (tx : Tx) : Fs :=
  { ops := (tx.op, ⟨[h], tx.view⟩) :: fs.ops, views := (tx.view, tx.tree) :: fs.views,
    links := tx.op :: fs.links, segs := fs.segs + (if tx.seg then 1 else 0),
    heads := [tx.op], wcOp := tx.op,
    wcTree := (if tx.saveTree then tx.tree else fs.wcTree), wcFiles := fs.wcFiles + tx.files }

theorem run_txPost (fs : Fs) (h : Nat) (tx : Tx) (hh : fs.heads = [h]) (hne : tx.op ≠ h) :
    run (afterPre fs h tx) (txPost h tx) = afterTx fs h tx := by
  have hne' : h ≠ tx.op := fun e => hne e.symm
  unfold txPost
  rw [run_append, run_append, run_replicate_wf]
  cases hs : tx.saveTree <;>
    simp [run, Step.apply, afterPre, afterTx, hh, hne, hne', hs]

theorem run_txSteps (fs : Fs) (h : Nat) (tx : Tx) (hh : fs.heads = [h]) (hne : tx.op ≠ h) :
    run fs (txSteps h tx) = afterTx fs h tx := by
  rw [txSteps_split, run_append, run_txPre, run_txPost fs h tx hh hne]

theorem txPre_wellOrderedWc (fs : Fs) (h : Nat) (tx : Tx) (hh : fs.heads = [h]) (hw : fs.wcOp = h)
    (fr : FreshTx fs h tx) : wellOrderedWc fs (txPre h tx) = true := by
  obtain ⟨hne, hnm, hcaO, hcaV, _⟩ := fr
  have hnm' := (notMentioned_iff _ _).mpr hnm
  cases hlv : look tx.view fs.views with
  | none =>
    cases hlo : look tx.op fs.ops with
    | none =>
      cases hs : tx.seg <;>
        simp [txPre, hs, wellOrderedWc, okStep, okWc, Step.apply, hlv, hlo, hh, hw, hne, hnm']
    | some r' =>
      have e := hcaO r' hlo
      cases hs : tx.seg <;>
        simp [txPre, hs, wellOrderedWc, okStep, okWc, Step.apply, hlv, hlo, hh, hw, hne, hnm', e]
  | some t' =>
    have e1 := hcaV t' hlv
    cases hlo : look tx.op fs.ops with
    | none =>
      cases hs : tx.seg <;>
        simp [txPre, hs, wellOrderedWc, okStep, okWc, Step.apply, hlv, hlo, hh, hw, hne, hnm', e1]
    | some r' =>
      have e := hcaO r' hlo
      cases hs : tx.seg <;>
        simp [txPre, hs, wellOrderedWc, okStep, okWc, Step.apply, hlv, hlo, hh, hw, hne, hnm', e, e1]

theorem txPost_wellOrderedWc (fs : Fs) (h : Nat) (tx : Tx) (hh : fs.heads = [h]) (hw : fs.wcOp = h)
    (fr : FreshTx fs h tx) : wellOrderedWc (afterPre fs h tx) (txPost h tx) = true := by
  obtain ⟨hne, hnm, _, _, htree⟩ := fr
  have hne' : h ≠ tx.op := fun e => hne e.symm
  have hnm2 : notMentioned tx.op ((tx.op, (⟨[h], tx.view⟩ : OpRec)) :: fs.ops) = true :=
    (notMentioned_iff _ _).mpr (NotMent.cons hnm (by simp [hne]))
  unfold txPost
  rw [wellOrderedWc_append, wellOrderedWc_append, wellOrderedWc_replicate_wf, run_replicate_wf]
  cases hs : tx.saveTree
  · have := htree hs
    simp [wellOrderedWc, okStep, okWc, Step.apply, run, afterPre, look_cons, headTree, hh, hw, hne, hne',
      hnm2, this]
  · simp [wellOrderedWc, okStep, okWc, Step.apply, run, afterPre, look_cons, headTree, hh, hw, hne, hne',
      hnm2]

theorem txSteps_wellOrderedWc (fs : Fs) (h : Nat) (tx : Tx) (hh : fs.heads = [h]) (hw : fs.wcOp = h)
    (fr : FreshTx fs h tx) : wellOrderedWc fs (txSteps h tx) = true := by
  rw [txSteps_split, wellOrderedWc_append, run_txPre, txPre_wellOrderedWc fs h tx hh hw fr,
    txPost_wellOrderedWc fs h tx hh hw fr]
  rfl

/-- freshness of every transaction of a command, each in the state its predecessors leave -/
def FreshTxs : Fs → Nat → List Tx → Prop
  | _, _, [] => True
  | fs, h, tx :: rest => FreshTx fs h tx ∧ FreshTxs (afterTx fs h tx) tx.op rest

theorem cmdSteps_wellOrderedWc (txs : List Tx) : ∀ (fs : Fs) (h : Nat), fs.heads = [h] → fs.wcOp = h →
    FreshTxs fs h txs → wellOrderedWc fs (cmdSteps h txs) = true := by
  induction txs with
  | nil => intro fs h _ _ _; rfl
  | cons tx rest ih =>
    intro fs h hh hw fr
    obtain ⟨f1, f2⟩ := fr
    simp only [cmdSteps]
    rw [wellOrderedWc_append, txSteps_wellOrderedWc fs h tx hh hw f1, run_txSteps fs h tx hh f1.ne]
    simp only [Bool.true_and]
    exact ih (afterTx fs h tx) tx.op (by simp [afterTx]) (by simp [afterTx]) f2

/-- `workspace update-stale` (no divergent snapshot): check out, then save both state files -/
theorem updateStale_wellOrderedWc (fs : Fs) (h tree files : Nat) (hh : fs.heads = [h])
    (ht : headTree fs h = some tree) :
    wellOrderedWc fs (updateStaleSteps h tree files) = true := by
  unfold updateStaleSteps
  rw [wellOrderedWc_append, wellOrderedWc_replicate_wf, run_replicate_wf]
  have ht' : headTree { fs with wcFiles := fs.wcFiles + files } h = some tree := ht
  by_cases e : fs.wcOp = h
  · simp [wellOrderedWc, okStep, okWc, Step.apply, hh, e, headTree] at ht ⊢
    simp [ht]
  · have e' : ¬ h = fs.wcOp := fun x => e x.symm
    simp [wellOrderedWc, okStep, okWc, Step.apply, hh, e', headTree] at ht ⊢
    simp [ht]

theorem run_updateStale (fs : Fs) (h tree files : Nat) :
    run fs (updateStaleSteps h tree files)
      = { fs with wcFiles := fs.wcFiles + files, wcTree := tree, wcOp := h } := by
  unfold updateStaleSteps
  rw [run_append, run_replicate_wf]
  simp [run, Step.apply]

end JjModel.Crash
