import JjModel.Lemmas.IdPrefixResolve
/-!
  Lemmas for C20, part 4: `IdIndex` — the sorted table of 4-byte short keys used by
  `IdPrefixIndex` — answers as its set-level specification, whatever the order of entries with
  equal short keys.
-/
namespace JjModel.IdPrefix

/-! ### `collect` depends only on which keys were scanned -/

theorem collect_noMatch {l : List Id} : collect l = .noMatch ↔ l = [] := by
  cases l with
  | nil => simp [collect]
  | cons k r => simp only [collect]; split <;> simp

theorem collect_single {l : List Id} {k : Id} : collect l = .single k ↔ l ≠ [] ∧ ∀ x ∈ l, x = k := by
  cases l with
  | nil => simp [collect]
  | cons a r =>
    simp only [collect]
    by_cases hall : r.all (· == a) = true
    · simp only [hall, if_true, Resolution.single.injEq]
      have hall' := List.all_eq_true.mp hall
      constructor
      · rintro rfl
        refine ⟨by simp, fun x hx => ?_⟩
        rcases List.mem_cons.mp hx with h | h
        · exact h
        · simpa using hall' x h
      · rintro ⟨_, h⟩; exact h a (by simp)
    · simp only [hall]
      constructor
      · intro h; cases h
      · rintro ⟨_, h⟩
        exfalso; apply hall
        apply List.all_eq_true.mpr
        intro x hx
        have h1 := h x (by simp [hx])
        have h2 := h a (by simp)
        simp [h1, h2]

theorem collect_congr {l1 l2 : List Id} (h : ∀ x, x ∈ l1 ↔ x ∈ l2) : collect l1 = collect l2 := by
  cases hc : collect l1 with
  | noMatch =>
    have := collect_noMatch.mp hc
    subst this
    have : l2 = [] := List.eq_nil_iff_forall_not_mem.mpr (fun x hx => by simpa using (h x).mpr hx)
    rw [this]; rfl
  | single k =>
    obtain ⟨hne, hall⟩ := collect_single.mp hc
    symm
    apply collect_single.mpr
    constructor
    · intro h2
      subst h2
      obtain ⟨x, hx⟩ := List.exists_mem_of_ne_nil l1 hne
      simpa using (h x).mp hx
    · intro x hx; exact hall x ((h x).mpr hx)
  | ambiguous =>
    cases hc2 : collect l2 with
    | noMatch =>
      have := collect_noMatch.mp hc2
      subst this
      have : l1 = [] := List.eq_nil_iff_forall_not_mem.mpr (fun x hx => by simpa using (h x).mp hx)
      rw [this] at hc; simp [collect] at hc
    | single k =>
      obtain ⟨hne, hall⟩ := collect_single.mp hc2
      have : collect l1 = .single k := collect_single.mpr ⟨by
        intro h1; subst h1
        obtain ⟨x, hx⟩ := List.exists_mem_of_ne_nil l2 hne
        simpa using (h x).mpr hx, fun x hx => hall x ((h x).mp hx)⟩
      rw [hc] at this; cases this
    | ambiguous => rfl

/-! ### the table is a rearrangement of the keys, sorted by short key -/

/-- sorted by short key (equal short keys allowed, in any order) -/
def SortedS (I : List Id) : Prop := I.Pairwise fun a b => idLt (shortKey b) (shortKey a) = false

theorem mem_insertByShort {k y : Id} {l : List Id} : y ∈ insertByShort k l ↔ y = k ∨ y ∈ l := by
  induction l with
  | nil => simp [insertByShort]
  | cons z zs ih =>
    simp only [insertByShort]
    split
    · simp only [List.mem_cons, ih]
      constructor
      · rintro (h | h | h)
        · exact Or.inr (Or.inl h)
        · exact Or.inl h
        · exact Or.inr (Or.inr h)
      · rintro (h | h | h)
        · exact Or.inr (Or.inl h)
        · exact Or.inl h
        · exact Or.inr (Or.inr h)
    · simp

theorem insertByShort_sorted {k : Id} {l : List Id} (h : SortedS l) : SortedS (insertByShort k l) := by
  induction l with
  | nil => simp [insertByShort, SortedS]
  | cons z zs ih =>
    have hz := List.pairwise_cons.mp h
    simp only [insertByShort]
    split
    · next hlt =>
      refine List.pairwise_cons.mpr ⟨?_, ih hz.2⟩
      intro a ha
      rcases mem_insertByShort.mp ha with rfl | ha'
      · exact idLt_asymm hlt
      · exact hz.1 a ha'
    · next hnlt =>
      have hnlt' : idLt (shortKey z) (shortKey k) = false := by simpa using hnlt
      refine List.pairwise_cons.mpr ⟨?_, h⟩
      intro a ha
      rcases List.mem_cons.mp ha with rfl | ha'
      · exact hnlt'
      · -- k ≤ z ≤ a on short keys
        have hza := hz.1 a ha'
        cases hc : idLt (shortKey a) (shortKey k) with
        | false => rfl
        | true =>
          have := idLt_of_lt_of_le hc (idLe_of_not_lt hnlt')
          rw [hza] at this; cases this

theorem mem_idIndexBuild {y : Id} {keys : List Id} : y ∈ idIndexBuild keys ↔ y ∈ keys := by
  induction keys with
  | nil => simp [idIndexBuild]
  | cons x xs ih =>
    simp only [idIndexBuild, List.foldr_cons] at ih ⊢
    rw [mem_insertByShort, ih]; simp

theorem idIndexBuild_sorted (keys : List Id) : SortedS (idIndexBuild keys) := by
  induction keys with
  | nil => simp [idIndexBuild, SortedS]
  | cons x xs ih =>
    simp only [idIndexBuild, List.foldr_cons] at ih ⊢
    exact insertByShort_sorted ih

/-- the table splits at `partition_point` -/
theorem partitionPoint_split {I : List Id} (hs : SortedS I) (bound : Id) :
    ∃ lo hi, I = lo ++ hi ∧ lo.length = partitionPoint I bound ∧
      (∀ x ∈ lo, idLt (shortKey x) bound = true) ∧ (∀ x ∈ hi, idLt (shortKey x) bound = false) := by
  induction I with
  | nil => exact ⟨[], [], rfl, rfl, by simp, by simp⟩
  | cons x xs ih =>
    have hx := List.pairwise_cons.mp hs
    by_cases hlt : idLt (shortKey x) bound = true
    · obtain ⟨lo, hi, he, hl, h1, h2⟩ := ih hx.2
      refine ⟨x :: lo, hi, by simp [he], by simp [partitionPoint, hlt] at hl ⊢; exact hl, ?_, h2⟩
      intro y hy
      rcases List.mem_cons.mp hy with rfl | hy'
      · exact hlt
      · exact h1 y hy'
    · have hf : idLt (shortKey x) bound = false := by simpa using hlt
      refine ⟨[], x :: xs, rfl, by simp [partitionPoint, hf], by simp, ?_⟩
      intro y hy
      rcases List.mem_cons.mp hy with rfl | hy'
      · exact hf
      · have hxy := hx.1 y hy'
        cases hc : idLt (shortKey y) bound with
        | false => rfl
        | true =>
          -- y < bound ≤ x contradicts x ≤ y
          have := idLt_of_lt_of_le hc (idLe_of_not_lt hf)
          rw [hxy] at this; cases this

theorem sortedS_append {a b : List Id} (h : SortedS (a ++ b)) :
    SortedS a ∧ SortedS b ∧ ∀ x ∈ a, ∀ y ∈ b, idLt (shortKey y) (shortKey x) = false := by
  have := List.pairwise_append.mp h
  exact ⟨this.1, this.2.1, this.2.2⟩

theorem id_eq_of_not_lt {a b : Id} (h1 : idLt a b = false) (h2 : idLt b a = false) : a = b := by
  rcases idLt_total a b with h | h | h
  · exact h
  · rw [h1] at h; cases h
  · rw [h2] at h; cases h

/-- in the part of the table not below `sb`, the entries with short key `sb` come first -/
theorem takeWhile_short_eq_filter {hi : List Id} (hs : SortedS hi) (sb : Id)
    (hge : ∀ x ∈ hi, idLt (shortKey x) sb = false) :
    hi.takeWhile (fun k => shortKey k = sb) = hi.filter (fun k => shortKey k = sb) := by
  induction hi with
  | nil => rfl
  | cons x xs ih =>
    have hx := List.pairwise_cons.mp hs
    have ih := ih hx.2 (fun y hy => hge y (by simp [hy]))
    by_cases he : shortKey x = sb
    · simp [he, ih]
    · have : xs.filter (fun k => shortKey k = sb) = [] := by
        apply List.filter_eq_nil_iff.mpr
        intro y hy hys
        simp only [decide_eq_true_eq] at hys
        apply he
        have h1 := hge x (by simp)
        have h2 := hx.1 y hy
        rw [hys] at h2
        exact id_eq_of_not_lt h1 h2
      simp [he, this]

theorem take_eq_of_prefix {p x : Id} {n : Nat} (hn : n ≤ p.length) (hm : matchesPrefix p x = true) :
    x.take n = p.take n := by
  obtain ⟨r, rfl⟩ := matchesPrefix_iff.mp hm
  rw [List.take_append_of_le_length hn]

theorem padEven_prefix (p : Id) : ∃ r, padEven p = p ++ r := matchesPrefix_iff.mp (matchesPrefix_padEven p)

theorem padEven_length (p : Id) : (padEven p).length = p.length ∨ (padEven p).length = p.length + 1 := by
  unfold padEven; split <;> simp

theorem matches_short_iff {p x : Id} (hp : p.length ≤ 8) (hx : 8 ≤ x.length) :
    matchesPrefix p (shortKey x) = true ↔ matchesPrefix p x = true := by
  unfold shortKey
  constructor
  · intro h
    obtain ⟨r, hr⟩ := matchesPrefix_iff.mp h
    exact matchesPrefix_iff.mpr ⟨r ++ x.drop 8, by rw [← List.append_assoc, ← hr, List.take_append_drop]⟩
  · intro h
    obtain ⟨r, rfl⟩ := matchesPrefix_iff.mp h
    exact matchesPrefix_iff.mpr ⟨r.take (8 - p.length), by rw [List.take_append, List.take_of_length_le hp]⟩

/-- in the part of the table not below `min_prefix_bytes`, the matching entries come first -/
theorem takeWhile_matches_eq_filter {p : Id} (hp8 : p.length ≤ 8) {hi : List Id} (hs : SortedS hi)
    (hlen : ∀ y ∈ hi, 8 ≤ y.length) (hge : ∀ y ∈ hi, idLt (shortKey y) (padEven p) = false) :
    hi.takeWhile (matchesPrefix p) = hi.filter (matchesPrefix p) := by
  induction hi with
  | nil => rfl
  | cons y ys ih =>
    have hy := List.pairwise_cons.mp hs
    have ih := ih hy.2 (fun z hz => hlen z (by simp [hz])) (fun z hz => hge z (by simp [hz]))
    by_cases hm : matchesPrefix p y = true
    · simp [hm, ih]
    · have hm' : matchesPrefix p y = false := by simpa using hm
      have : ys.filter (matchesPrefix p) = [] := by
        apply List.filter_eq_nil_iff.mpr
        intro z hz hmz
        have h3 := matches_sandwich (idLe_of_not_lt (hge y (by simp))) (idLe_of_not_lt (hy.1 z hz))
          (matchesPrefix_padEven p) ((matches_short_iff hp8 (hlen z (by simp [hz]))).mpr hmz)
        rw [(matches_short_iff hp8 (hlen y (by simp))).mp h3] at hm'; cases hm'
      simp [hm', this]

/-! ### `resolve_prefix_to_key` on the table = on the key set -/

theorem idIndexResolveT_spec {I keys : List Id} (hmem : ∀ x, x ∈ I ↔ x ∈ keys) (hs : SortedS I)
    (hlen : ∀ k ∈ keys, 8 ≤ k.length) (p : Id) :
    idIndexResolveT I p = idIndexResolveSpec keys p := by
  unfold idIndexResolveT idIndexResolveSpec
  have hpe : padEven p = [] ↔ p = [] := by
    constructor
    · intro h
      obtain ⟨r, hr⟩ := padEven_prefix p
      rw [h] at hr
      exact (List.append_eq_nil_iff.mp hr.symm).1
    · intro h; subst h; simp [padEven]
  by_cases hp : p = []
  · subst hp; simp [padEven]
  · have hpe' : ¬ padEven p = [] := fun h => hp (hpe.mp h)
    simp only [hpe', hp, if_false]
    by_cases hlong : (padEven p).length > 8
    · simp only [hlong, if_true]
      apply collect_congr
      intro x
      have hp9 : 8 ≤ p.length := by
        unfold padEven at hlong
        split at hlong
        · simp at hlong; omega
        · omega
      obtain ⟨r, hr⟩ := padEven_prefix p
      have hsb : (padEven p).take 8 = p.take 8 := by rw [hr, List.take_append_of_le_length hp9]
      obtain ⟨lo, hi, he, hl, h1, h2⟩ := partitionPoint_split hs ((padEven p).take 8)
      obtain ⟨_, hshi, _⟩ := sortedS_append (he ▸ hs)
      have hdrop : I.drop (partitionPoint I ((padEven p).take 8)) = hi := by rw [← hl, he]; simp
      rw [hdrop, takeWhile_short_eq_filter hshi _ h2]
      simp only [List.mem_filter, decide_eq_true_eq]
      constructor
      · rintro ⟨⟨hxh, _⟩, hm⟩
        exact ⟨(hmem x).mp (by rw [he]; simp [hxh]), hm⟩
      · rintro ⟨hxk, hm⟩
        have hxI := (hmem x).mpr hxk
        have hsk : shortKey x = (padEven p).take 8 := by
          unfold shortKey; rw [hsb]; exact take_eq_of_prefix hp9 hm
        refine ⟨⟨?_, hsk⟩, hm⟩
        rw [he] at hxI
        rcases List.mem_append.mp hxI with hlo | hhi
        · have := h1 x hlo
          rw [hsk, idLt_irrefl] at this; cases this
        · exact hhi
    · simp only [hlong, if_false]
      apply collect_congr
      intro x
      have hp8 : p.length ≤ 8 := by rcases padEven_length p with h | h <;> omega
      obtain ⟨lo, hi, he, hl, h1, h2⟩ := partitionPoint_split hs (padEven p)
      obtain ⟨_, hshi, _⟩ := sortedS_append (he ▸ hs)
      have hdrop : I.drop (partitionPoint I (padEven p)) = hi := by rw [← hl, he]; simp
      rw [hdrop]
      have hlenI : ∀ y ∈ I, 8 ≤ y.length := fun y hy => hlen y ((hmem y).mp hy)
      have hsklen : ∀ y ∈ I, (shortKey y).length = 8 := by
        intro y hy; unfold shortKey; rw [List.length_take]; exact Nat.min_eq_left (hlenI y hy)
      -- nothing below the bound matches
      have hlo : ∀ y ∈ lo, matchesPrefix p y = false := by
        intro y hy
        have hyI : y ∈ I := by rw [he]; simp [hy]
        cases hm : matchesPrefix p y with
        | false => rfl
        | true =>
          have := not_matches_of_lt_pad (h1 y hy) (by rw [hsklen y hyI]; omega)
          rw [(matches_short_iff hp8 (hlenI y hyI)).mpr hm] at this; cases this
      have htw := takeWhile_matches_eq_filter hp8 hshi (fun y hy => hlenI y (by rw [he]; simp [hy])) h2
      rw [htw]
      simp only [List.mem_filter]
      constructor
      · rintro ⟨hxh, hm⟩
        exact ⟨(hmem x).mp (by rw [he]; simp [hxh]), hm⟩
      · rintro ⟨hxk, hm⟩
        have hxI := (hmem x).mpr hxk
        rw [he] at hxI
        rcases List.mem_append.mp hxI with hlo' | hhi
        · rw [hlo x hlo'] at hm; cases hm
        · exact ⟨hhi, hm⟩

theorem idIndexResolve_eq_spec (keys : List Id) (hlen : ∀ k ∈ keys, 8 ≤ k.length) (p : Id) :
    idIndexResolve keys p = idIndexResolveSpec keys p :=
  idIndexResolveT_spec (fun _ => mem_idIndexBuild) (idIndexBuild_sorted keys) hlen p


/-! ### the shortest length on the table = on the key set -/

theorem foldl_max_spec (l : List Nat) (init : Nat) :
    init ≤ l.foldl max init ∧ (∀ x ∈ l, x ≤ l.foldl max init) ∧ (l.foldl max init = init ∨ l.foldl max init ∈ l) := by
  induction l generalizing init with
  | nil => simp
  | cons a l ih =>
    simp only [List.foldl_cons]
    obtain ⟨h1, h2, h3⟩ := ih (max init a)
    refine ⟨by omega, ?_, ?_⟩
    · intro x hx
      rcases List.mem_cons.mp hx with rfl | hx'
      · omega
      · exact h2 x hx'
    · rcases h3 with h | h
      · by_cases hc : init ≥ a
        · left; rw [h]; omega
        · right; rw [h]; have : max init a = a := by omega
          rw [this]; simp
      · right; simp [h]


theorem commonLen_take (a b : Id) (n : Nat) : commonLen (a.take n) (b.take n) = min n (commonLen a b) := by
  induction n generalizing a b with
  | zero => simp [commonLen]
  | succ n ih =>
    cases a with
    | nil => simp [commonLen]
    | cons x xs =>
      cases b with
      | nil => simp [commonLen]
      | cons y ys =>
        simp only [List.take_succ_cons, commonLen]
        by_cases h : x = y
        · simp only [h, if_true, ih]; omega
        · simp [h]

theorem commonLen_short_le (a b : Id) : commonLen (shortKey a) (shortKey b) ≤ commonLen a b := by
  unfold shortKey; rw [commonLen_take]; omega

theorem commonLen_short_eq {a b : Id} (h : shortKey a ≠ shortKey b) (ha : 8 ≤ a.length) (hb : 8 ≤ b.length) :
    commonLen a b = commonLen (shortKey a) (shortKey b) := by
  have hla : (shortKey a).length = 8 := by unfold shortKey; rw [List.length_take]; exact Nat.min_eq_left ha
  have hlb : (shortKey b).length = 8 := by unfold shortKey; rw [List.length_take]; exact Nat.min_eq_left hb
  have hlt := commonLen_lt_length (a := shortKey a) (b := shortKey b) (by rw [hla, hlb]) h
  have := commonLen_take a b 8
  unfold shortKey at hlt hla ⊢
  rw [this] at hlt ⊢
  omega

theorem getLast_maxS {lo : List Id} (hs : SortedS lo) {l : Id} (hl : lo.getLast? = some l) :
    l ∈ lo ∧ ∀ x ∈ lo, idLt (shortKey l) (shortKey x) = false := by
  induction lo with
  | nil => simp at hl
  | cons x xs ih =>
    have hx := List.pairwise_cons.mp hs
    cases xs with
    | nil =>
      simp at hl; subst hl
      exact ⟨by simp, fun y hy => by simp at hy; subst hy; exact idLt_irrefl _⟩
    | cons z zs =>
      have hl' : (z :: zs).getLast? = some l := by simpa [List.getLast?_cons_cons] using hl
      obtain ⟨h1, h2⟩ := ih hx.2 hl'
      refine ⟨by simp [h1], fun y hy => ?_⟩
      rcases List.mem_cons.mp hy with rfl | hy'
      · exact hx.1 l h1
      · exact h2 y hy'

/-- the table around the chunk of a short key: entries below, the chunk, entries above -/
theorem chunk_split {I : List Id} (hs : SortedS I) (sk : Id) :
    ∃ lo chunk rest, I = lo ++ chunk ++ rest ∧ lo.length = partitionPoint I sk ∧
      chunk = (I.drop (partitionPoint I sk)).takeWhile (fun k => shortKey k = sk) ∧
      SortedS lo ∧ SortedS rest ∧
      (∀ x ∈ lo, idLt (shortKey x) sk = true) ∧ (∀ x ∈ chunk, shortKey x = sk) ∧
      (∀ x ∈ rest, idLt sk (shortKey x) = true) := by
  obtain ⟨lo, hi, he, hl, h1, h2⟩ := partitionPoint_split hs sk
  obtain ⟨hslo, hshi, _⟩ := sortedS_append (he ▸ hs)
  have hdrop : I.drop (partitionPoint I sk) = hi := by rw [← hl, he]; simp
  have htw := takeWhile_short_eq_filter hshi sk h2
  have hsplit : hi = hi.takeWhile (fun k => shortKey k = sk) ++ hi.dropWhile (fun k => shortKey k = sk) :=
    (List.takeWhile_append_dropWhile).symm
  have hchunk : ∀ x ∈ hi.takeWhile (fun k => shortKey k = sk), shortKey x = sk := by
    intro x hx
    rw [htw] at hx
    simpa using (List.mem_filter.mp hx).2
  -- nothing with that short key is left after the chunk
  have hrest_ne : ∀ x ∈ hi.dropWhile (fun k => shortKey k = sk), shortKey x ≠ sk := by
    have hf : hi.filter (fun k => shortKey k = sk) =
        (hi.takeWhile (fun k => shortKey k = sk)).filter (fun k => shortKey k = sk) ++
        (hi.dropWhile (fun k => shortKey k = sk)).filter (fun k => shortKey k = sk) := by
      rw [← List.filter_append, List.takeWhile_append_dropWhile]
    have hfc : (hi.takeWhile (fun k => shortKey k = sk)).filter (fun k => shortKey k = sk)
        = hi.takeWhile (fun k => shortKey k = sk) := by
      apply List.filter_eq_self.mpr
      intro x hx; simpa using hchunk x hx
    rw [hfc, ← htw] at hf
    have hnil : (hi.dropWhile (fun k => shortKey k = sk)).filter (fun k => shortKey k = sk) = [] := by
      have := congrArg List.length hf
      simp only [List.length_append] at this
      exact List.length_eq_zero_iff.mp (by omega)
    intro x hx he'
    have : x ∈ (hi.dropWhile (fun k => shortKey k = sk)).filter (fun k => shortKey k = sk) :=
      List.mem_filter.mpr ⟨hx, by simpa using he'⟩
    rw [hnil] at this; simp at this
  have hsrest : SortedS (hi.dropWhile (fun k => shortKey k = sk)) :=
    hshi.sublist (List.dropWhile_sublist _)
  refine ⟨lo, hi.takeWhile (fun k => shortKey k = sk), hi.dropWhile (fun k => shortKey k = sk), ?_, hl, ?_,
    hslo, hsrest, h1, hchunk, ?_⟩
  · rw [List.append_assoc, ← hsplit]; exact he
  · rw [hdrop]
  · intro x hx
    have hxhi : x ∈ hi := (List.dropWhile_sublist _).subset hx
    rcases idLe_of_not_lt (h2 x hxhi) with h | h
    · exact absurd h.symm (hrest_ne x hx)
    · exact h

theorem idIndexShortestT_spec {I keys : List Id} (hmem : ∀ x, x ∈ I ↔ x ∈ keys) (hs : SortedS I)
    (hlen : ∀ k ∈ keys, 8 ≤ k.length) (key : Id) (hk8 : 8 ≤ key.length) :
    idIndexShortestT I key = idIndexShortestSpec keys key := by
  obtain ⟨lo, chunk, rest, he, hl, hce, hslo, hsrest, hlo, hchunk, hrest⟩ := chunk_split hs (shortKey key)
  have hlenI : ∀ y ∈ I, 8 ≤ y.length := fun y hy => hlen y ((hmem y).mp hy)
  have hmemI : ∀ x, x ∈ I ↔ x ∈ lo ∨ x ∈ chunk ∨ x ∈ rest := by
    intro x; rw [he]; simp
  have hkey_chunk : key ∈ chunk ↔ key ∈ keys := by
    constructor
    · intro h; exact (hmem key).mp ((hmemI key).mpr (Or.inr (Or.inl h)))
    · intro h
      rcases (hmemI key).mp ((hmem key).mpr h) with h' | h' | h'
      · have := hlo key h'; rw [idLt_irrefl] at this; cases this
      · exact h'
      · have := hrest key h'; rw [idLt_irrefl] at this; cases this
  unfold idIndexShortestT idIndexShortestSpec
  simp only [← hce]
  by_cases hk : key ∈ keys
  · have hc1 : chunk.contains key = true := List.contains_iff_mem.mpr (hkey_chunk.mpr hk)
    have hc2 : keys.contains key = true := List.contains_iff_mem.mpr hk
    simp only [hc1, hc2, if_true, Option.some.injEq]
    rw [← hl]
    -- the two neighbours
    have hleft : (if lo.length = 0 then none else I[lo.length - 1]?) = lo.getLast? := by
      by_cases h0 : lo.length = 0
      · have : lo = [] := List.length_eq_zero_iff.mp h0
        subst this; simp
      · simp only [h0, if_false]
        rw [he, List.append_assoc, List.getElem?_append_left (by omega), List.getLast?_eq_getElem?]
    have hright : I[lo.length + chunk.length]? = rest[0]? := by
      rw [he, List.getElem?_append_right (by simp)]
      simp
    rw [hleft, hright]
    generalize hVT : ((lo.getLast?.toList ++ rest[0]?.toList).map (fun k => commonLen (shortKey k) (shortKey key) + 1) ++
      (chunk.filter (· != key)).map (fun k => commonLen k key + 1)).foldl max 1 = VT
    generalize hVS : ((keys.filter (· != key)).map (fun k => commonLen key k + 1)).foldl max 1 = VS
    obtain ⟨t1, t2, t3⟩ := foldl_max_spec ((lo.getLast?.toList ++ rest[0]?.toList).map (fun k => commonLen (shortKey k) (shortKey key) + 1) ++
      (chunk.filter (· != key)).map (fun k => commonLen k key + 1)) 1
    obtain ⟨s1, s2, s3⟩ := foldl_max_spec ((keys.filter (· != key)).map (fun k => commonLen key k + 1)) 1
    rw [hVT] at t1 t2 t3
    rw [hVS] at s1 s2 s3
    have key_ne_of_short : ∀ k, shortKey k ≠ shortKey key → k ≠ key := fun k h he' => h (by rw [he'])
    have hS : ∀ k ∈ keys, k ≠ key → commonLen key k + 1 ≤ VS := fun k hk' hne =>
      s2 _ (List.mem_map.mpr ⟨k, List.mem_filter.mpr ⟨hk', by simpa using hne⟩, rfl⟩)
    apply Nat.le_antisymm
    · -- VT ≤ VS
      rcases t3 with h | h
      · omega
      · rcases List.mem_append.mp h with hn | hcur
        · obtain ⟨k, hkn, hv⟩ := List.mem_map.mp hn
          have hkI : k ∈ I ∧ shortKey k ≠ shortKey key := by
            rcases List.mem_append.mp hkn with hk' | hk'
            · have hgl : lo.getLast? = some k := by simpa using hk'
              have hkl := (getLast_maxS hslo hgl).1
              refine ⟨(hmemI k).mpr (Or.inl hkl), fun h' => ?_⟩
              have := hlo k hkl; rw [h', idLt_irrefl] at this; cases this
            · have hr0 : rest[0]? = some k := by simpa using hk'
              have hkr := List.mem_of_getElem? hr0
              refine ⟨(hmemI k).mpr (Or.inr (Or.inr hkr)), fun h' => ?_⟩
              have := hrest k hkr; rw [h', idLt_irrefl] at this; cases this
          have h1 := commonLen_short_le k key
          have h2 := hS k ((hmem k).mp hkI.1) (key_ne_of_short k hkI.2)
          rw [commonLen_comm key k] at h2
          omega
        · obtain ⟨k, hkc, hv⟩ := List.mem_map.mp hcur
          obtain ⟨hkch, hne⟩ := List.mem_filter.mp hkc
          have h2 := hS k ((hmem k).mp ((hmemI k).mpr (Or.inr (Or.inl hkch)))) (by simpa using hne)
          rw [commonLen_comm key k] at h2
          omega
    · -- VS ≤ VT
      rcases s3 with h | h
      · omega
      · obtain ⟨k, hkf, hv⟩ := List.mem_map.mp h
        obtain ⟨hkk, hne⟩ := List.mem_filter.mp hkf
        have hne' : k ≠ key := by simpa using hne
        have hk8' := hlen k hkk
        rcases (hmemI k).mp ((hmem k).mpr hkk) with hk' | hk' | hk'
        · -- below the chunk: the left neighbour is at least as close
          cases hgl : lo.getLast? with
          | none => simp [List.getLast?_eq_none_iff] at hgl; subst hgl; simp at hk'
          | some l =>
            obtain ⟨hll, hmax⟩ := getLast_maxS hslo hgl
            have hskne : shortKey k ≠ shortKey key := fun h' => by
              have := hlo k hk'; rw [h', idLt_irrefl] at this; cases this
            have e1 := commonLen_short_eq (a := key) (b := k) (fun h' => hskne h'.symm) hk8 hk8'
            have e2 := commonLen_sandwich_left (a := shortKey k) (b := shortKey l) (c := shortKey key)
              (idLe_of_not_lt (hmax k hk')) (Or.inr (hlo l hll))
            have hin : commonLen (shortKey l) (shortKey key) + 1 ≤ VT := by
              apply t2
              apply List.mem_append.mpr; left
              exact List.mem_map.mpr ⟨l, by simp [hgl], rfl⟩
            rw [commonLen_comm (shortKey key) (shortKey k)] at e1
            omega
        · have hin : commonLen k key + 1 ≤ VT := by
            apply t2
            apply List.mem_append.mpr; right
            exact List.mem_map.mpr ⟨k, List.mem_filter.mpr ⟨hk', hne⟩, rfl⟩
          rw [commonLen_comm key k] at hv
          omega
        · -- above the chunk: the right neighbour is at least as close
          cases hr0 : rest[0]? with
          | none =>
            have : rest = [] := by
              cases rest with
              | nil => rfl
              | cons a b => simp at hr0
            subst this; simp at hk'
          | some r =>
            have hrr := List.mem_of_getElem? hr0
            have hmin : ∀ x ∈ rest, idLt (shortKey x) (shortKey r) = false := by
              intro x hx
              cases rest with
              | nil => simp at hx
              | cons a b =>
                simp at hr0; subst hr0
                rcases List.mem_cons.mp hx with rfl | hx'
                · exact idLt_irrefl _
                · exact (List.pairwise_cons.mp hsrest).1 x hx'
            have hskne : shortKey k ≠ shortKey key := fun h' => by
              have := hrest k hk'; rw [h', idLt_irrefl] at this; cases this
            have e1 := commonLen_short_eq (a := key) (b := k) (fun h' => hskne h'.symm) hk8 hk8'
            have e2 := commonLen_sandwich_right (a := shortKey key) (b := shortKey r) (c := shortKey k)
              (Or.inr (hrest r hrr)) (idLe_of_not_lt (hmin k hk'))
            have hin : commonLen (shortKey r) (shortKey key) + 1 ≤ VT := by
              apply t2
              apply List.mem_append.mpr; left
              exact List.mem_map.mpr ⟨r, by simp [hr0], rfl⟩
            rw [commonLen_comm (shortKey r) (shortKey key)] at hin
            omega
  · have hc1 : chunk.contains key = false := by
      cases h : chunk.contains key with
      | false => rfl
      | true => exact absurd (hkey_chunk.mp (List.contains_iff_mem.mp h)) hk
    have hc2 : keys.contains key = false := by
      cases h : keys.contains key with
      | false => rfl
      | true => exact absurd (List.contains_iff_mem.mp h) hk
    simp only [hc1, hc2, Bool.false_eq_true, if_false]

theorem idIndexShortest_eq_spec (keys : List Id) (hlen : ∀ k ∈ keys, 8 ≤ k.length) (key : Id) (hk8 : 8 ≤ key.length) :
    idIndexShortest keys key = idIndexShortestSpec keys key :=
  idIndexShortestT_spec (fun _ => mem_idIndexBuild) (idIndexBuild_sorted keys) hlen key hk8

end JjModel.IdPrefix
