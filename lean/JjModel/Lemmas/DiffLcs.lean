import JjModel.Model.Diff
/-!
  `find_lcs` (model `findLcs`): the returned pairs are `(input[r], r)` and strictly increase in both
  coordinates.
-/
namespace JjModel.Diff

/-- strictly increasing in both coordinates -/
def Inc (l : List (Nat × Nat)) : Prop := l.Pairwise (fun p q => p.1 < q.1 ∧ p.2 < q.2)

/-- every back pointer of the (forward) chain points to an earlier entry with a smaller left position -/
def ChainFwd (chain : List ChainEnt) : Prop :=
  ∀ (k : Nat) (e : ChainEnt), chain[k]? = some e → ∀ i, e.prev = some i →
    i < k ∧ ∃ e' : ChainEnt, chain[i]? = some e' ∧ e'.leftPos < e.leftPos

theorem chainFwd_nil : ChainFwd [] := by
  intro k e h; simp at h

theorem chainFwd_snoc (chain : List ChainEnt) (e : ChainEnt) (h : ChainFwd chain)
    (he : ∀ i, e.prev = some i → i < chain.length ∧ ∃ e', chain[i]? = some e' ∧ e'.leftPos < e.leftPos) :
    ChainFwd (chain ++ [e]) := by
  intro k x hk i hi
  by_cases hlt : k < chain.length
  · rw [List.getElem?_append_left hlt] at hk
    obtain ⟨h1, e', h2, h3⟩ := h k x hk i hi
    exact ⟨h1, e', by rw [List.getElem?_append_left (by omega)]; exact h2, h3⟩
  · have hk' : k = chain.length := by
      have : k < (chain ++ [e]).length := by
        rcases Nat.lt_or_ge k (chain ++ [e]).length with h | h
        · exact h
        · rw [List.getElem?_eq_none h] at hk; cases hk
      simp at this; omega
    subst hk'
    simp at hk
    subst hk
    obtain ⟨h1, e', h2, h3⟩ := he i hi
    exact ⟨h1, e', by rw [List.getElem?_append_left h1]; exact h2, h3⟩

/-- what `lcsInner` guarantees about the `previous_right_pos` it returns -/
def PrevOK (full : List ChainEnt) (lp : Nat) (pr : Option Nat) : Prop :=
  ∀ j, pr = some j → j < full.length ∧ ∃ e', full.reverse[j]? = some e' ∧ e'.leftPos < lp

theorem getElem?_reverse_suffix (pre older : List ChainEnt) (e : ChainEnt) :
    (pre ++ e :: older).reverse[older.length]? = some e := by
  simp [List.reverse_append]

theorem lcsInner_prev (lp rp : Nat) (rc pre : List ChainEnt) (i lfh : Nat) (pr : Option Nat) (gl glr : Nat)
    (hi : rc ≠ [] → i + 1 = rc.length) (hp : PrevOK (pre ++ rc) lp pr) :
    PrevOK (pre ++ rc) lp (lcsInner lp rp rc i lfh pr gl glr).2.1 := by
  induction rc generalizing pre i lfh pr gl glr with
  | nil => simpa [lcsInner] using hp
  | cons e older ih =>
    have hil : i = older.length := by have := hi (by simp); simp at this; omega
    have hrec : ∀ lfh' pr' gl' glr', PrevOK (pre ++ e :: older) lp pr' →
        PrevOK (pre ++ e :: older) lp (lcsInner lp rp older (i - 1) lfh' pr' gl' glr').2.1 := by
      intro lfh' pr' gl' glr' hp'
      have := ih (pre ++ [e]) (i - 1) lfh' pr' gl' glr'
        (by intro hne; cases older with
            | nil => exact absurd rfl hne
            | cons _ _ => simp at hil ⊢; omega)
        (by simpa using hp')
      simpa using this
    have hnew : PrevOK (pre ++ e :: older) lp (some i) → True := fun _ => trivial
    have hsome : e.leftPos < lp → PrevOK (pre ++ e :: older) lp (some i) := by
      intro hlt j hj
      cases hj
      refine ⟨by simp; omega, e, ?_, hlt⟩
      rw [hil]; exact getElem?_reverse_suffix pre older e
    rw [lcsInner]
    split
    · rename_i hlt
      dsimp only
      split
      · split
        · exact hsome hlt
        · exact hrec _ _ _ _ (hsome hlt)
      · exact hrec _ _ _ _ hp
    · exact hrec _ _ _ _ hp

theorem lcsOuter_inv (input : List Nat) (rp : Nat) (rc : List ChainEnt) (gl glr : Nat)
    (hlen : rc.length = rp) (hc : ChainFwd rc.reverse) :
    ChainFwd (lcsOuter input rp rc gl glr).1.reverse ∧
    (lcsOuter input rp rc gl glr).1.reverse.map (·.leftPos) = rc.reverse.map (·.leftPos) ++ input := by
  induction input generalizing rp rc gl glr with
  | nil => simp [lcsOuter, hc]
  | cons lp rest ih =>
    rw [lcsOuter]
    have hprev := lcsInner_prev lp rp rc [] (rp - 1) 1 none gl glr
      (by intro hne; cases rc with
          | nil => exact absurd rfl hne
          | cons _ _ => simp at hlen ⊢; omega)
      (by intro j hj; cases hj)
    simp only [List.nil_append] at hprev
    generalize lcsInner lp rp rc (rp - 1) 1 none gl glr = r at hprev
    have hc' : ChainFwd (({ len := r.1, leftPos := lp, prev := r.2.1 } : ChainEnt) :: rc).reverse := by
      rw [List.reverse_cons]
      apply chainFwd_snoc _ _ hc
      intro i hi
      obtain ⟨h1, e', h2, h3⟩ := hprev i hi
      exact ⟨by simpa using h1, e', h2, h3⟩
    obtain ⟨h1, h2⟩ := ih (rp + 1) (({ len := r.1, leftPos := lp, prev := r.2.1 } : ChainEnt) :: rc)
      r.2.2.1 r.2.2.2 (by simp [hlen]) hc'
    refine ⟨h1, ?_⟩
    rw [h2]; simp

theorem lcsBacktrack_ok (chain : List ChainEnt) (hc : ChainFwd chain) (fuel rp : Nat) (acc : List (Nat × Nat))
    (hacc : Inc acc)
    (hgt : ∀ e, chain[rp]? = some e → ∀ q ∈ acc, e.leftPos < q.1 ∧ rp < q.2)
    (hmem : ∀ q ∈ acc, ∃ e, chain[q.2]? = some e ∧ e.leftPos = q.1) :
    Inc (lcsBacktrack chain fuel rp acc) ∧
    ∀ q ∈ lcsBacktrack chain fuel rp acc, ∃ e, chain[q.2]? = some e ∧ e.leftPos = q.1 := by
  induction fuel generalizing rp acc with
  | zero => exact ⟨by simpa [lcsBacktrack] using hacc, by simpa [lcsBacktrack] using hmem⟩
  | succ f ih =>
    rw [lcsBacktrack]
    split
    · exact ⟨hacc, hmem⟩
    · rename_i e he
      have hacc' : Inc ((e.leftPos, rp) :: acc) := by
        unfold Inc at hacc ⊢
        rw [List.pairwise_cons]
        exact ⟨fun q hq => hgt e he q hq, hacc⟩
      have hmem' : ∀ q ∈ (e.leftPos, rp) :: acc, ∃ e, chain[q.2]? = some e ∧ e.leftPos = q.1 := by
        intro q hq
        simp only [List.mem_cons] at hq
        rcases hq with rfl | hq
        · exact ⟨e, he, rfl⟩
        · exact hmem q hq
      split
      · exact ⟨hacc', hmem'⟩
      · rename_i p hp
        obtain ⟨h1, e', h2, h3⟩ := hc rp e he p hp
        apply ih p _ hacc' _ hmem'
        intro e'' he'' q hq
        rw [h2] at he''
        cases he''
        simp only [List.mem_cons] at hq
        rcases hq with rfl | hq
        · exact ⟨h3, h1⟩
        · have := hgt e he q hq
          exact ⟨by omega, by omega⟩

/-- `find_lcs` returns pairs `(input[r], r)` that increase strictly in both coordinates. -/
theorem findLcs_ok (input : List Nat) :
    Inc (findLcs input) ∧ ∀ q ∈ findLcs input, input[q.2]? = some q.1 := by
  unfold findLcs
  split
  · exact ⟨List.Pairwise.nil, by simp⟩
  · dsimp only
    obtain ⟨h1, h2⟩ := lcsOuter_inv input 0 [] 0 0 rfl (by simpa using chainFwd_nil)
    simp only [List.reverse_nil, List.map_nil, List.nil_append] at h2
    generalize (lcsOuter input 0 [] 0 0) = r at h1 h2
    obtain ⟨h3, h4⟩ := lcsBacktrack_ok r.1.reverse h1 r.1.reverse.length r.2 [] List.Pairwise.nil
      (by intro e _ q hq; simp at hq) (by intro q hq; simp at hq)
    refine ⟨h3, fun q hq => ?_⟩
    obtain ⟨e, he1, he2⟩ := h4 q hq
    have := congrArg (fun l => l[q.2]?) h2
    simp only [List.getElem?_map, he1, Option.map_some] at this
    rw [← this, he2]

end JjModel.Diff
