import JjModel.Lemmas.RepoRewrite
/-!
  Correctness of the model of `dag_walk::topo_order_forward` (explicit stack with
  `(node, neighbors_visited)` entries, `visiting`/`emitted` sets), for neighbour functions that
  may carry state (`order_commits_for_rebase` updates a `visited` set inside its closure).
-/
namespace JjModel.Repo

/-- neighbour-function state, visiting, emitted, result -/
abbrev TSt (σ : Type) := σ × List Nat × List Nat × List Nat

/-- big-step semantics of `topo_order_forward` on a stack segment -/
inductive TRun {σ : Type} (nb : σ → Nat → List Nat × σ) :
    List (Nat × Bool) → TSt σ → TSt σ → Prop
  | nil (st) : TRun nb [] st st
  | skip {id d es sg vis em res st'} : id ∈ em → TRun nb es (sg, vis, em, res) st' →
      TRun nb ((id, d) :: es) (sg, vis, em, res) st'
  | expand {id es sg vis em res st1 st'} : id ∉ em → id ∉ vis →
      TRun nb ((nb sg id).1.reverse.map fun n => (n, false)) ((nb sg id).2, id :: vis, em, res) st1 →
      TRun nb ((id, true) :: es) st1 st' →
      TRun nb ((id, false) :: es) (sg, vis, em, res) st'
  | finish {id es sg vis em res st'} : id ∉ em →
      TRun nb es (sg, vis.erase id, id :: em, res ++ [id]) st' →
      TRun nb ((id, true) :: es) (sg, vis, em, res) st'

theorem topoLoop_run {σ : Type} {nb : σ → Nat → List Nat × σ} :
    ∀ (n : Nat) (es rest : List (Nat × Bool)) (sg : σ) (vis em res r : List Nat),
      topoLoop nb n (es ++ rest) sg vis em res = some r →
      ∃ st' n', n' ≤ n ∧ TRun nb es (sg, vis, em, res) st' ∧
        topoLoop nb n' rest st'.1 st'.2.1 st'.2.2.1 st'.2.2.2 = some r := by
  intro n
  induction n using Nat.strongRecOn with
  | ind n ih =>
    intro es rest sg vis em res r h
    match es with
    | [] => exact ⟨(sg, vis, em, res), n, Nat.le_refl _, TRun.nil _, h⟩
    | (id, d) :: es =>
      match n, h with
      | 0, h => simp [topoLoop] at h
      | n + 1, h =>
        simp only [List.cons_append] at h
        unfold topoLoop at h
        by_cases he : em.contains id = true
        · simp only [he, if_true] at h
          obtain ⟨st', n', hn, hr, hl⟩ := ih n (by omega) es rest sg vis em res r h
          exact ⟨st', n', by omega, TRun.skip (by simpa using he) hr, hl⟩
        · simp only [he] at h
          have he' : id ∉ em := by simpa using he
          cases d with
          | false =>
            simp only [Bool.not_false, if_true] at h
            by_cases hv' : id ∈ vis
            · simp [hv'] at h
            · have h' : topoLoop nb n (((nb sg id).1.reverse.map fun n => (n, false)) ++ ((id, true) :: es ++ rest))
                  (nb sg id).2 (id :: vis) em res = some r := by simpa [hv'] using h
              obtain ⟨st1, n1, hn1, hr1, hl1⟩ := ih n (by omega) _ _ _ _ _ _ r h'
              obtain ⟨st', n', hn, hr, hl⟩ := ih n1 (by omega) ((id, true) :: es) rest _ _ _ _ r hl1
              exact ⟨st', n', by omega, TRun.expand he' hv' hr1 hr, hl⟩
          | true =>
            simp only [Bool.not_true] at h
            have h' : topoLoop nb n (es ++ rest) sg (vis.erase id) (id :: em) (res ++ [id]) = some r := by
              simpa using h
            obtain ⟨st', n', hn, hr, hl⟩ := ih n (by omega) es rest _ _ _ _ r h'
            exact ⟨st', n', by omega, TRun.finish he' hr, hl⟩

/-- `l` read from the right is a topological order: every element comes after all its neighbours
    and occurs once (stated on the reversed list so that `snoc` becomes `cons`). -/
def TopoRev (g : Nat → List Nat) : List Nat → Prop
  | [] => True
  | k :: l => (∀ t ∈ g k, t ∈ l) ∧ k ∉ l ∧ TopoRev g l

def TInv {σ : Type} (g : Nat → List Nat) (st : TSt σ) : Prop :=
  (∀ x, x ∈ st.2.2.1 ↔ x ∈ st.2.2.2) ∧ TopoRev g st.2.2.2.reverse

/-- `g` under-approximates the neighbours reported by `nb`, whatever its state;
    `U` over-approximates them. -/
theorem trun_spec {σ : Type} {nb : σ → Nat → List Nat × σ} {g : Nat → List Nat} {U : List Nat}
    (hg : ∀ sg k, ∀ t ∈ g k, t ∈ (nb sg k).1) (hU : ∀ sg k, ∀ t ∈ (nb sg k).1, t ∈ U)
    {es : List (Nat × Bool)} {st st' : TSt σ} (hr : TRun nb es st st') :
    TInv g st → (∀ x, (x, true) ∈ es → ∀ t ∈ g x, t ∈ st.2.2.1) →
      TInv g st' ∧ (∀ y ∈ st.2.2.1, y ∈ st'.2.2.1) ∧ (∀ x d, (x, d) ∈ es → x ∈ st'.2.2.1) ∧
      (∀ y ∈ st'.2.2.1, y ∈ st.2.2.1 ∨ y ∈ U ∨ ∃ d, (y, d) ∈ es) := by
  induction hr with
  | nil st => intro hi _; exact ⟨hi, fun y hy => hy, by simp, fun y hy => Or.inl hy⟩
  | @skip id d es sg vis em res st' hid _ ih =>
    intro hi hpre
    obtain ⟨h1, h2, h3, h4⟩ := ih hi (fun x hx => hpre x (by simp [hx]))
    refine ⟨h1, h2, ?_, ?_⟩
    · intro x d' hx
      simp only [List.mem_cons, Prod.mk.injEq] at hx
      rcases hx with ⟨rfl, _⟩ | hx
      · exact h2 _ hid
      · exact h3 x d' hx
    · intro y hy
      rcases h4 y hy with h | h | ⟨d', h⟩
      · exact Or.inl h
      · exact Or.inr (Or.inl h)
      · exact Or.inr (Or.inr ⟨d', by simp [h]⟩)
  | @expand id es sg vis em res st1 st' _ _ _ _ ih1 ih2 =>
    intro hi hpre
    obtain ⟨h1, h2, h3, h4⟩ := ih1 hi (by
      intro x hx; simp only [List.mem_map, Prod.mk.injEq] at hx
      obtain ⟨_, _, _, hf⟩ := hx; cases hf)
    obtain ⟨g1, g2, g3, g4⟩ := ih2 h1 (by
      intro x hx t ht
      simp only [List.mem_cons, Prod.mk.injEq] at hx
      rcases hx with ⟨rfl, _⟩ | hx
      · exact h3 t false (by simp [hg sg x t ht])
      · exact h2 t (hpre x (by simp [hx]) t ht))
    refine ⟨g1, fun y hy => g2 y (h2 y hy), ?_, ?_⟩
    · intro x d hx
      simp only [List.mem_cons, Prod.mk.injEq] at hx
      rcases hx with ⟨rfl, _⟩ | hx
      · exact g3 x true (by simp)
      · exact g3 x d (by simp [hx])
    · intro y hy
      rcases g4 y hy with h | h | ⟨d', h⟩
      · rcases h4 y h with h | h | ⟨d'', h⟩
        · exact Or.inl h
        · exact Or.inr (Or.inl h)
        · simp only [List.mem_map, List.mem_reverse, Prod.mk.injEq] at h
          obtain ⟨a, ha, rfl, _⟩ := h
          exact Or.inr (Or.inl (hU sg id a ha))
      · exact Or.inr (Or.inl h)
      · simp only [List.mem_cons, Prod.mk.injEq] at h
        rcases h with ⟨rfl, _⟩ | h
        · exact Or.inr (Or.inr ⟨false, by simp⟩)
        · exact Or.inr (Or.inr ⟨d', by simp [h]⟩)
  | @finish id es sg vis em res st' hid _ ih =>
    intro hi hpre
    have hi' : TInv g (sg, vis.erase id, id :: em, res ++ [id]) := by
      obtain ⟨hm, ht⟩ := hi
      have hm' : ∀ x, x ∈ em ↔ x ∈ res := hm
      refine ⟨?_, ?_⟩
      · intro x
        show x ∈ id :: em ↔ x ∈ res ++ [id]
        simp only [List.mem_cons, List.mem_append, List.mem_nil_iff, or_false]
        rw [hm' x]; exact Or.comm
      · show TopoRev g (res ++ [id]).reverse
        simp only [List.reverse_append, List.reverse_cons, List.reverse_nil, List.nil_append,
          List.cons_append, TopoRev]
        refine ⟨?_, ?_, ht⟩
        · intro t ht'
          have := hpre id (by simp) t ht'
          simpa using (hm' t).mp this
        · intro h; exact hid ((hm' id).mpr (by simpa using h))
    obtain ⟨h1, h2, h3, h4⟩ := ih hi' (by
      intro x hx t ht
      have : t ∈ em := hpre x (by simp [hx]) t ht
      show t ∈ id :: em
      simp [this])
    refine ⟨h1, fun y hy => h2 y (by show y ∈ id :: em; simp [show y ∈ em from hy]), ?_, ?_⟩
    · intro x d hx
      simp only [List.mem_cons, Prod.mk.injEq] at hx
      rcases hx with ⟨rfl, _⟩ | hx
      · exact h2 x (by show x ∈ x :: em; simp)
      · exact h3 x d hx
    · intro y hy
      rcases h4 y hy with h | h | ⟨d', h⟩
      · have h : y ∈ id :: em := h
        simp only [List.mem_cons] at h
        rcases h with rfl | h
        · exact Or.inr (Or.inr ⟨true, by simp⟩)
        · exact Or.inl h
      · exact Or.inr (Or.inl h)
      · exact Or.inr (Or.inr ⟨d', by simp [h]⟩)

/-- **`topo_order_forward` is correct**: whenever it returns a list (i.e. the cycle callback is
    not invoked), the list is duplicate-free, contains every start node, contains nothing but
    start nodes and reported neighbours, and every node appears after all the neighbours `g`
    that the neighbour function is guaranteed to report for it. -/
theorem topoOrderForward_spec {σ : Type} {nb : σ → Nat → List Nat × σ} {g : Nat → List Nat}
    {U : List Nat} (hg : ∀ sg k, ∀ t ∈ g k, t ∈ (nb sg k).1) (hU : ∀ sg k, ∀ t ∈ (nb sg k).1, t ∈ U)
    {fuel : Nat} {start sorted : List Nat} {init : σ}
    (h : topoOrderForward fuel start nb init = some sorted) :
    TopoRev g sorted.reverse ∧ (∀ x ∈ start, x ∈ sorted) ∧ (∀ x ∈ sorted, x ∈ start ∨ x ∈ U) := by
  unfold topoOrderForward at h
  have h' : topoLoop nb fuel ((start.reverse.map fun n => (n, false)) ++ []) init [] [] [] = some sorted := by
    simpa using h
  obtain ⟨st', n', _, hr, hfin⟩ := topoLoop_run _ _ _ _ _ _ _ _ h'
  have hi0 : TInv g ((init, [], [], []) : TSt σ) := ⟨by simp, by simp [TopoRev]⟩
  obtain ⟨h1, _, h3, h4⟩ := trun_spec hg hU hr hi0 (by
    intro x hx; simp only [List.mem_map, Prod.mk.injEq] at hx
    obtain ⟨_, _, _, hf⟩ := hx; cases hf)
  have : st'.2.2.2 = sorted := by
    match n', hfin with
    | n' + 1, hfin => simpa [topoLoop] using hfin
  subst this
  refine ⟨h1.2, fun x hx => (h1.1 x).mp (h3 x false ?_), ?_⟩
  · simp [hx]
  · intro x hx
    rcases h4 x ((h1.1 x).mpr hx) with h | h | ⟨d, h⟩
    · simp at h
    · exact Or.inr h
    · simp only [List.mem_map, List.mem_reverse, Prod.mk.injEq] at h
      obtain ⟨a, ha, rfl, _⟩ := h
      exact Or.inl ha

end JjModel.Repo
