import JjModel.Model.RevsetSem
import JjModel.Lemmas.RevsetSet
/-!
  C19 lemmas, part 2: the ancestors walk `walkAnc` (`RevWalkImpl`).
-/
namespace JjModel.Revset

/-- edges go to strictly smaller positions (index order is a topological order) -/
def Topo (adj : Nat → List Nat) : Prop := ∀ p q, q ∈ adj p → q < p

theorem PathK.le {adj : Nat → List Nat} (ht : Topo adj) {k x y : Nat} (h : PathK adj k x y) :
    y + k ≤ x := by
  induction h with
  | zero x => omega
  | step hq _ ih => have := ht _ _ hq; omega

theorem Path.le {adj : Nat → List Nat} (ht : Topo adj) {x y : Nat} (h : Path adj x y) : y ≤ x := by
  obtain ⟨k, hk⟩ := h
  have := hk.le ht
  omega

theorem Path.refl (adj : Nat → List Nat) (x : Nat) : Path adj x x := ⟨0, .zero x⟩

theorem Path.head {adj : Nat → List Nat} {x q y : Nat} (hq : q ∈ adj x) (h : Path adj q y) :
    Path adj x y := by
  obtain ⟨k, hk⟩ := h
  exact ⟨k + 1, .step hq hk⟩

/-- a path to a different node starts with a step -/
theorem Path.cases_ne {adj : Nat → List Nat} {x y : Nat} (h : Path adj x y) (hne : x ≠ y) :
    ∃ q, q ∈ adj x ∧ Path adj q y := by
  obtain ⟨k, hk⟩ := h
  cases hk with
  | zero => exact absurd rfl hne
  | step hq hr => exact ⟨_, hq, _, hr⟩

theorem PathK.mono {adj adj' : Nat → List Nat} (hs : ∀ p q, q ∈ adj p → q ∈ adj' p) {k x y : Nat}
    (h : PathK adj k x y) : PathK adj' k x y := by
  induction h with
  | zero x => exact .zero x
  | step hq _ ih => exact .step (hs _ _ hq) ih

theorem Path.mono {adj adj' : Nat → List Nat} (hs : ∀ p q, q ∈ adj p → q ∈ adj' p) {x y : Nat}
    (h : Path adj x y) : Path adj' x y := by
  obtain ⟨k, hk⟩ := h
  exact ⟨k, hk.mono hs⟩

theorem PathK.trans {adj : Nat → List Nat} {j k x y z : Nat} (h1 : PathK adj j x y)
    (h2 : PathK adj k y z) : PathK adj (k + j) x z := by
  induction h1 with
  | zero x => simpa using h2
  | step hq _ ih => exact .step hq (ih h2)

theorem Path.trans {adj : Nat → List Nat} {x y z : Nat} (h1 : Path adj x y) (h2 : Path adj y z) :
    Path adj x z := by
  obtain ⟨j, hj⟩ := h1
  obtain ⟨k, hk⟩ := h2
  exact ⟨_, hj.trans hk⟩

theorem mem_filterPar {fp : Bool} {ps : List Nat} {q : Nat} (h : q ∈ filterPar fp ps) : q ∈ ps := by
  unfold filterPar at h
  split at h
  · exact List.mem_of_mem_take h
  · exact h

/-- the filtered adjacency used by the wanted queue -/
def adjF (adj : Nat → List Nat) (fp : Bool) : Nat → List Nat := fun x => filterPar fp (adj x)

theorem adjF_sub (adj : Nat → List Nat) (fp : Bool) : ∀ p q, q ∈ adjF adj fp p → q ∈ adj p :=
  fun _ _ h => mem_filterPar h

theorem Topo.adjF {adj : Nat → List Nat} (ht : Topo adj) (fp : Bool) : Topo (adjF adj fp) :=
  fun p q h => ht p q (mem_filterPar h)

/-- wanted: reachable from a pending wanted item below the scan bound -/
def WantedReach (adj : Nat → List Nat) (fp : Bool) (n : Nat) (w : List Nat) (p : Nat) : Prop :=
  ∃ h ∈ w, h < n ∧ Path (adjF adj fp) h p

/-- unwanted: reachable (through all parents) from a pending unwanted item below the bound -/
def UnwantedReach (adj : Nat → List Nat) (n : Nat) (u : List Nat) (p : Nat) : Prop :=
  ∃ r ∈ u, r < n ∧ Path adj r p

theorem unwantedReach_step {adj : Nat → List Nat} (ht : Topo adj) (k : Nat) (u : List Nat) (p : Nat)
    (hp : p < k) :
    UnwantedReach adj k (if u.contains k then adj k ++ u else u) p ↔ UnwantedReach adj (k + 1) u p := by
  constructor
  · rintro ⟨r, hr, hrk, hpath⟩
    split at hr
    · next hk =>
      simp only [List.mem_append] at hr
      rcases hr with hr | hr
      · exact ⟨k, by simpa using hk, by omega, Path.head hr hpath⟩
      · exact ⟨r, hr, by omega, hpath⟩
    · exact ⟨r, hr, by omega, hpath⟩
  · rintro ⟨r, hr, hrk, hpath⟩
    by_cases hrk' : r = k
    · subst hrk'
      obtain ⟨q, hq, hqp⟩ := hpath.cases_ne (by omega)
      have hc : u.contains r = true := by simpa using hr
      rw [if_pos hc]
      exact ⟨q, by simp [hq], ht _ _ hq, hqp⟩
    · refine ⟨r, ?_, by omega, hpath⟩
      split
      · simp [hr]
      · exact hr

/-- Specification of the scan `walkAnc` for an arbitrary queue state. -/
theorem mem_walkAnc {adj : Nat → List Nat} (ht : Topo adj) (fp : Bool) (m : Nat) :
    ∀ (n : Nat) (w u : List Nat) (p : Nat),
      p ∈ walkAnc adj fp m n w u ↔
        m ≤ p ∧ p < n ∧ WantedReach adj fp n w p ∧ ¬ UnwantedReach adj n u p := by
  intro n
  induction n with
  | zero => intro w u p; simp [walkAnc]
  | succ k ih =>
    intro w u p
    rw [walkAnc]
    by_cases hkm : k < m
    · simp only [hkm, if_true, List.not_mem_nil, false_iff]
      rintro ⟨h1, h2, -⟩; omega
    simp only [hkm, if_false]
    -- common facts
    have hU : ∀ p, p < k →
        (UnwantedReach adj k (if u.contains k then adj k ++ u else u) p ↔ UnwantedReach adj (k + 1) u p) :=
      fun p hp => unwantedReach_step ht k u p hp
    have hWsame : ∀ p, p < k → ¬ w.contains k → (WantedReach adj fp k w p ↔ WantedReach adj fp (k + 1) w p) := by
      intro p hp hk
      constructor
      · rintro ⟨h, hh, hhk, hpath⟩; exact ⟨h, hh, by omega, hpath⟩
      · rintro ⟨h, hh, hhk, hpath⟩
        refine ⟨h, hh, ?_, hpath⟩
        by_cases e : h = k
        · subst e; exact absurd (by simpa using hh) hk
        · omega
    by_cases hw : w.contains k
    · simp only [hw, if_true]
      by_cases hu : u.contains k
      · -- wanted but unwanted: skipped, not expanded
        simp only [hu, if_true]
        rw [ih]
        have hu' : (if u.contains k then adj k ++ u else u) = adj k ++ u := by rw [if_pos hu]
        constructor
        · rintro ⟨h1, h2, ⟨h, hh, hhk, hpath⟩, h4⟩
          refine ⟨h1, by omega, ⟨h, hh, by omega, hpath⟩, ?_⟩
          rw [← hU p h2, hu']; exact h4
        · rintro ⟨h1, h2, ⟨h, hh, hhk, hpath⟩, h4⟩
          have hpk : p ≠ k := by
            rintro rfl
            exact h4 ⟨p, by simpa using hu, by omega, Path.refl _ _⟩
          have hpk' : p < k := by omega
          refine ⟨h1, hpk', ?_, ?_⟩
          · refine ⟨h, hh, ?_, hpath⟩
            by_cases e : h = k
            · subst e
              exact absurd ⟨h, by simpa using hu, by omega, hpath.mono (adjF_sub adj fp)⟩ h4
            · omega
          · intro h
            rw [← hu'] at h
            exact h4 ((hU p hpk').1 h)
      · -- wanted: emitted, parents pushed
        simp only [hu, Bool.false_eq_true, if_false, List.mem_cons]
        rw [ih]
        constructor
        · rintro (rfl | ⟨h1, h2, ⟨h, hh, hhk, hpath⟩, h4⟩)
          · refine ⟨by omega, by omega, ⟨p, by simpa using hw, by omega, Path.refl _ _⟩, ?_⟩
            rintro ⟨r, hr, hrk, hpath⟩
            have := hpath.le ht
            have : r = p := by omega
            subst this
            exact hu (by simpa using hr)
          · refine ⟨h1, by omega, ?_, ?_⟩
            · simp only [List.mem_append] at hh
              rcases hh with hh | hh
              · exact ⟨k, by simpa using hw, by omega, Path.head hh hpath⟩
              · exact ⟨h, hh, by omega, hpath⟩
            · rintro ⟨r, hr, hrk, hp⟩
              apply h4
              refine ⟨r, hr, ?_, hp⟩
              by_cases e : r = k
              · subst e; exact absurd (by simpa using hr) hu
              · omega
        · rintro ⟨h1, h2, ⟨h, hh, hhk, hpath⟩, h4⟩
          by_cases hpk : p = k
          · exact Or.inl hpk
          · right
            have hpk' : p < k := by omega
            refine ⟨h1, hpk', ?_, ?_⟩
            · by_cases e : h = k
              · subst e
                obtain ⟨q, hq, hqp⟩ := hpath.cases_ne (by omega)
                exact ⟨q, by simp [show q ∈ filterPar fp (adj h) from hq], ht.adjF fp _ _ hq, hqp⟩
              · exact ⟨h, by simp [hh], by omega, hpath⟩
            · rintro ⟨r, hr, hrk, hp⟩
              exact h4 ⟨r, hr, by omega, hp⟩
    · -- not wanted
      simp only [hw, Bool.false_eq_true, if_false]
      rw [ih]
      constructor
      · rintro ⟨h1, h2, h3, h4⟩
        exact ⟨h1, by omega, (hWsame p h2 (by simpa using hw)).1 h3, fun h => h4 ((hU p h2).2 h)⟩
      · rintro ⟨h1, h2, h3, h4⟩
        have hpk : p ≠ k := by
          rintro rfl
          obtain ⟨h, hh, hhk, hpath⟩ := h3
          have := hpath.le (ht.adjF fp)
          have : h = p := by omega
          subst this
          exact hw (by simpa using hh)
        have hpk' : p < k := by omega
        exact ⟨h1, hpk', (hWsame p hpk' (by simpa using hw)).2 h3, fun h => h4 ((hU p hpk').1 h)⟩

theorem desc_walkAnc {adj : Nat → List Nat} (ht : Topo adj) (fp : Bool) (m : Nat) :
    ∀ (n : Nat) (w u : List Nat), Desc (walkAnc adj fp m n w u) := by
  intro n
  induction n with
  | zero => intro w u; simp [walkAnc, Desc]
  | succ k ih =>
    intro w u
    rw [walkAnc]
    split
    · simp [Desc]
    · simp only []
      split
      · split
        · exact ih _ _
        · rw [desc_cons]
          refine ⟨fun b hb => ?_, ih _ _⟩
          rw [mem_walkAnc ht] at hb
          exact hb.2.1
      · exact ih _ _

end JjModel.Revset
