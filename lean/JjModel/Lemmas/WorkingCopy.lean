import JjModel.Model.WorkingCopy
/-!
  Lemmas about the working-copy model (`Model/WorkingCopy.lean`): association lists, path sets,
  the snapshot fold.  Core Lean only.
-/
namespace JjModel.WorkingCopy

/-! ### association lists -/

section assoc
variable {α : Type}

theorem get_del_self (p : Path) (m : List (Path × α)) : get (del p m) p = none := by
  fun_induction del p m <;> grind [get]

theorem get_del_ne {p q : Path} (h : q ≠ p) (m : List (Path × α)) : get (del p m) q = get m q := by
  fun_induction del p m <;> grind [get]

theorem get_del (p q : Path) (m : List (Path × α)) :
    get (del p m) q = if q = p then none else get m q := by
  grind [get_del_self, get_del_ne]

theorem get_set (p q : Path) (v : α) (m : List (Path × α)) :
    get (set p v m) q = if q = p then some v else get m q := by
  grind [set, get, get_del_ne]

theorem get_set_self (p : Path) (v : α) (m : List (Path × α)) : get (set p v m) p = some v := by
  grind [get_set]

theorem get_set_ne {p q : Path} (h : q ≠ p) (v : α) (m : List (Path × α)) :
    get (set p v m) q = get m q := by
  grind [get_set]

/-- filtering on a predicate of the key -/
theorem get_filter_key (g : Path → Bool) (m : List (Path × α)) (q : Path) :
    get (m.filter (fun e => g e.1)) q = if g q then get m q else none := by
  induction m with
  | nil => simp [get]
  | cons a r ih => grind [get, List.filter]

theorem get_some_mem {m : List (Path × α)} {p : Path} {v : α} (h : get m p = some v) : (p, v) ∈ m := by
  fun_induction get m p <;> grind

theorem get_none_of_not_mem_keys {m : List (Path × α)} {p : Path} (h : p ∉ m.map (·.1)) : get m p = none := by
  fun_induction get m p <;> grind

end assoc

/-! ### path sets -/

theorem mem_sdel {p q : Path} {s : List Path} : q ∈ sdel p s ↔ q ∈ s ∧ q ≠ p := by
  fun_induction sdel p s <;> grind

theorem mem_sins {p q : Path} {s : List Path} : q ∈ sins p s ↔ q = p ∨ q ∈ s := by
  grind [sins, mem_sdel]

/-! ### prefixes -/

/-- `a` is a proper, non-root ancestor of `p` -/
def Ancestor (a p : Path) : Prop := a ≠ [] ∧ a ≠ p ∧ a <+: p

theorem isPrefixOf_iff {a p : Path} : a.isPrefixOf p = true ↔ a <+: p := List.isPrefixOf_iff_prefix

/-- every entry's ancestors are directories (what a real file system guarantees) -/
def WFDisk (disk : Disk) : Prop :=
  ∀ p e a, get disk p = some e → Ancestor a p → get disk a = some .dir

/-- decidable form of `WFDisk` (used for the concrete instances) -/
def wfDiskB (disk : Disk) : Bool :=
  disk.all fun e => (List.range e.1.length).all fun k => k = 0 || get disk (e.1.take k) = some .dir

theorem wfDisk_of_check {disk : Disk} (h : wfDiskB disk = true) : WFDisk disk := by
  intro p e a hd ⟨h1, h2, h3⟩
  have hm := get_some_mem hd
  simp only [wfDiskB, List.all_eq_true] at h
  have := h (p, e) hm
  simp only [List.mem_range] at this
  have hlen : a.length < p.length := by
    have := h3.length_le
    rcases Nat.lt_or_eq_of_le this with h | h
    · exact h
    · exact absurd (List.IsPrefix.eq_of_length h3 h) h2
  have h0 : a.length ≠ 0 := by
    intro e0; exact h1 (List.length_eq_zero_iff.mp e0)
  have := this a.length hlen
  simp only [Bool.or_eq_true, decide_eq_true_eq, h0, false_or] at this
  rw [← List.prefix_iff_eq_take.mp h3] at this
  exact this

theorem treeSet_get (p q : Path) (v : TreeValue) (t : Tree) :
    get (treeSet p v t) q = if q = p then some v else if q <+: p then none else get t q := by
  unfold treeSet
  by_cases h : q = p
  · subst h; simp [get]
  · have h' : ¬ p = q := fun e => h e.symm
    simp only [get, h', if_false, h]
    rw [get_filter_key (fun k => !(k.isPrefixOf p))]
    by_cases hp : q <+: p
    · have : q.isPrefixOf p = true := isPrefixOf_iff.mpr hp
      simp [this, hp]
    · have : q.isPrefixOf p = false := by
        cases hb : q.isPrefixOf p
        · rfl
        · exact absurd (isPrefixOf_iff.mp hb) hp
      simp [this, hp, get_del_ne h]

/-! ### the snapshot fold -/


/-- the effect of one decision on the tree at `q` -/
def decTree (d : Decision) (old : Option TreeValue) : Option TreeValue :=
  match d with | .keep => old | .delete => none | .record v => some v

theorem apply_tree_self (acc : Tree × List Path) (q : Path) (d : Decision) :
    get (applyDecision acc q d).1 q = decTree d (get acc.1 q) := by
  cases d <;> simp [applyDecision, decTree, get_del_self, treeSet_get]

theorem apply_tree_other (acc : Tree × List Path) {p q : Path} (d : Decision) (h : p ≠ q)
    (H : ∀ v, d = .record v → ¬ q <+: p) :
    get (applyDecision acc p d).1 q = get acc.1 q := by
  cases d with
  | keep => rfl
  | delete => simp [applyDecision, get_del_ne (Ne.symm h)]
  | record v =>
    have := H v rfl
    simp [applyDecision, treeSet_get, Ne.symm h, this]

theorem fold_tree_get (wc : WC) (disk : Disk) (ign : Path → Bool) (q : Path)
    (H : ∀ p v, decideAt wc disk ign p = .record v → p ≠ q → ¬ q <+: p) :
    ∀ ps acc, get (snapshotFold wc disk ign ps acc).1 q =
      if q ∈ ps then decTree (decideAt wc disk ign q) (get acc.1 q) else get acc.1 q := by
  intro ps
  induction ps with
  | nil => intro acc; simp [snapshotFold]
  | cons p ps ih =>
    intro acc
    simp only [snapshotFold]
    rw [ih]
    by_cases hpq : p = q
    · subst hpq
      rw [apply_tree_self]
      cases hd : decideAt wc disk ign p <;> simp [decTree]
    · rw [apply_tree_other acc _ hpq (fun v hv => H p v hv hpq)]
      have : ¬ q = p := fun e => hpq e.symm
      simp [this]




/-- a `delete` decision wins whatever is recorded below the path -/
theorem apply_tree_none (acc : Tree × List Path) (p q : Path) (d : Decision)
    (hq : p = q → d = .delete) (h : get acc.1 q = none) : get (applyDecision acc p d).1 q = none := by
  by_cases hpq : p = q
  · have := hq hpq; subst this; subst hpq; simp [applyDecision, get_del_self]
  · cases d with
    | keep => exact h
    | delete => simpa [applyDecision, get_del_ne (Ne.symm hpq)] using h
    | record v =>
      simp only [applyDecision, treeSet_get, Ne.symm hpq, if_false]
      split <;> simp [h]

theorem fold_tree_none_of_none (wc : WC) (disk : Disk) (ign : Path → Bool) (q : Path)
    (hd : decideAt wc disk ign q = .delete) :
    ∀ ps acc, get acc.1 q = none → get (snapshotFold wc disk ign ps acc).1 q = none := by
  intro ps
  induction ps with
  | nil => intro acc h; simpa [snapshotFold] using h
  | cons p ps ih =>
    intro acc h
    simp only [snapshotFold]
    exact ih _ (apply_tree_none acc p q _ (fun e => by subst e; exact hd) h)

/-- a path that is never recorded and absent from the tree stays absent -/
theorem fold_tree_none_norecord (wc : WC) (disk : Disk) (ign : Path → Bool) (q : Path)
    (hd : ∀ v, decideAt wc disk ign q ≠ .record v) :
    ∀ ps acc, get acc.1 q = none → get (snapshotFold wc disk ign ps acc).1 q = none := by
  intro ps
  induction ps with
  | nil => intro acc h; simpa [snapshotFold] using h
  | cons p ps ih =>
    intro acc h
    simp only [snapshotFold]
    apply ih
    by_cases hpq : p = q
    · subst hpq
      cases hdec : decideAt wc disk ign p with
      | keep => simpa [applyDecision] using h
      | delete => simp [applyDecision, get_del_self]
      | record v => exact absurd hdec (hd v)
    · cases hdec : decideAt wc disk ign p with
      | keep => simpa [applyDecision] using h
      | delete => simpa [applyDecision, get_del_ne (Ne.symm hpq)] using h
      | record v =>
        simp only [applyDecision, treeSet_get, Ne.symm hpq, if_false]
        split <;> simp [h]

theorem fold_tree_delete (wc : WC) (disk : Disk) (ign : Path → Bool) (q : Path)
    (hd : decideAt wc disk ign q = .delete) :
    ∀ ps acc, q ∈ ps → get (snapshotFold wc disk ign ps acc).1 q = none := by
  intro ps
  induction ps with
  | nil => intro acc h; simp at h
  | cons p ps ih =>
    intro acc h
    simp only [snapshotFold]
    by_cases hpq : p = q
    · subst hpq
      apply fold_tree_none_of_none wc disk ign p hd
      rw [hd]; simp [applyDecision, get_del_self]
    · have : q ∈ ps := by
        rcases List.mem_cons.mp h with h | h
        · exact absurd h.symm hpq
        · exact h
      exact ih _ this

/-- the effect of one decision on the file-state key set -/
def decState (d : Decision) (old : Prop) : Prop :=
  match d with | .keep => old | .delete => False | .record _ => True

theorem fold_states_mem (wc : WC) (disk : Disk) (ign : Path → Bool) (q : Path) :
    ∀ ps acc, q ∈ (snapshotFold wc disk ign ps acc).2 ↔
      if q ∈ ps then decState (decideAt wc disk ign q) (q ∈ acc.2) else q ∈ acc.2 := by
  intro ps
  induction ps with
  | nil => intro acc; simp [snapshotFold]
  | cons p ps ih =>
    intro acc
    simp only [snapshotFold]
    rw [ih]
    by_cases hpq : p = q
    · subst hpq
      cases hd : decideAt wc disk ign p <;> simp [decState, applyDecision, mem_sdel, mem_sins]
    · have h1 : ¬ q = p := fun e => hpq e.symm
      cases hd : decideAt wc disk ign p <;>
        simp [applyDecision, mem_sdel, mem_sins, h1]


/-! ### the directory walk (`descend`) -/


/-- `a` lies strictly between the directory `pre` and the path `pre ++ rest` -/
def Between (pre : Path) (rest : List String) (a : Path) : Prop :=
  pre <+: a ∧ a <+: pre ++ rest ∧ a ≠ pre ∧ a ≠ pre ++ rest

theorem between_first (pre : Path) (c c' : String) (rest : List String) :
    Between pre (c :: c' :: rest) (pre ++ [c]) := by
  refine ⟨List.prefix_append _ _, ⟨c' :: rest, by simp⟩, ?_, ?_⟩
  · intro h; have := congrArg List.length h; simp at this
  · intro h; have := congrArg List.length h; simp at this

theorem between_step {pre : Path} {c c' : String} {rest : List String} {a : Path}
    (h : Between (pre ++ [c]) (c' :: rest) a) : Between pre (c :: c' :: rest) a := by
  obtain ⟨h1, h2, h3, h4⟩ := h
  refine ⟨(List.prefix_append _ _).trans h1, by simpa using h2, ?_, by simpa using h4⟩
  intro e; subst e
  have := h1.length_le; simp at this; omega

theorem descend_not_blocked (disk : Disk) (ign : Path → Bool) (sparse : List Path) (pre : Path)
    (rest : List String) (h : ∀ a, Between pre rest a → get disk a = some .dir) :
    descend disk ign sparse pre rest ≠ .blocked := by
  fun_induction descend disk ign sparse pre rest with
  | case1 => simp
  | case2 => simp
  | case3 pre c c' rest hd hi => simp
  | case4 pre c c' rest hd hi hv ih => exact ih (fun a ha => h a (between_step ha))
  | case5 pre c c' rest hd hi hv => simp
  | case6 pre c c' rest hx => exact absurd (h _ (between_first pre c c' rest)) (by intro e; exact hx e)

theorem sparseVisit_of_match {sparse : List Path} {p a : Path} (hm : sparseMatch sparse p = true)
    (ha : a <+: p) : sparseVisit sparse a = true := by
  simp only [sparseMatch, sparseVisit, List.any_eq_true] at *
  obtain ⟨s, hs, hsp⟩ := hm
  refine ⟨s, hs, ?_⟩
  rcases List.prefix_or_prefix_of_prefix (isPrefixOf_iff.mp hsp) ha with h | h
  · simp [isPrefixOf_iff.mpr h]
  · simp [isPrefixOf_iff.mpr h]

theorem descend_not_hidden (disk : Disk) (ign : Path → Bool) (sparse : List Path) (pre : Path)
    (rest : List String) (h : sparseMatch sparse (pre ++ rest) = true) :
    descend disk ign sparse pre rest ≠ .hidden := by
  fun_induction descend disk ign sparse pre rest with
  | case1 => simp
  | case2 => simp
  | case3 pre c c' rest hd hi => simp
  | case4 pre c c' rest hd hi hv ih => exact ih (by simpa using h)
  | case5 pre c c' rest hd hi hv =>
    have : sparseVisit sparse (pre ++ [c]) = true :=
      sparseVisit_of_match h ⟨c' :: rest, by simp⟩
    exact absurd this hv
  | case6 pre c c' rest hx => simp

theorem descend_full (disk : Disk) (ign : Path → Bool) (sparse : List Path) (pre : Path)
    (rest : List String) (hd : ∀ a, Between pre rest a → get disk a = some .dir)
    (hi : ∀ a, Between pre rest a → ign a = false)
    (hs : sparseMatch sparse (pre ++ rest) = true) :
    descend disk ign sparse pre rest = .full := by
  fun_induction descend disk ign sparse pre rest with
  | case1 => rfl
  | case2 => rfl
  | case3 pre c c' rest hd' hi' => exact absurd (hi _ (between_first pre c c' rest)) (by simp [hi'])
  | case4 pre c c' rest hd' hi' hv ih =>
    exact ih (fun a ha => hd a (between_step ha)) (fun a ha => hi a (between_step ha)) (by simpa using hs)
  | case5 pre c c' rest hd' hi' hv =>
    have : sparseVisit sparse (pre ++ [c]) = true :=
      sparseVisit_of_match hs ⟨c' :: rest, by simp⟩
    exact absurd this hv
  | case6 pre c c' rest hx => exact absurd (hd _ (between_first pre c c' rest)) (by intro e; exact hx e)

/-- an ignored directory above the path: the walk never lists the path's parent in full mode -/
theorem descend_ne_full_of_ignored (disk : Disk) (ign : Path → Bool) (sparse : List Path) (pre : Path)
    (rest : List String) (a : Path) (ha : Between pre rest a) (hi : ign a = true) :
    descend disk ign sparse pre rest ≠ .full := by
  fun_induction descend disk ign sparse pre rest with
  | case1 pre =>
    obtain ⟨h1, h2, h3, h4⟩ := ha
    exfalso
    have l1 := h1.length_le
    have l2 := h2.length_le
    simp at l2
    exact h3 (List.IsPrefix.eq_of_length h1 (by omega)).symm
  | case2 pre c =>
    obtain ⟨h1, h2, h3, h4⟩ := ha
    exfalso
    have l1 := h1.length_le
    have l2 := h2.length_le
    simp at l2
    have : a.length = pre.length ∨ a.length = pre.length + 1 := by omega
    rcases this with e | e
    · exact h3 (List.IsPrefix.eq_of_length h1 e.symm).symm
    · exact h4 (List.IsPrefix.eq_of_length h2 (by simp [e]))
  | case3 pre c c' rest hd hi' => simp
  | case4 pre c c' rest hd hi' hv ih =>
    apply ih
    obtain ⟨h1, h2, h3, h4⟩ := ha
    -- `a` is not `pre ++ [c]` (that one is not ignored), so it lies below it
    have hne : a ≠ pre ++ [c] := by intro e; subst e; simp [hi] at hi'
    have hpre : pre ++ [c] <+: a := by
      rcases List.prefix_or_prefix_of_prefix (show pre ++ [c] <+: pre ++ c :: c' :: rest from ⟨c' :: rest, by simp⟩) h2 with h | h
      · exact h
      · exfalso
        have l1 := h1.length_le
        have l2 := h.length_le
        simp at l2
        have : a.length = pre.length ∨ a.length = pre.length + 1 := by omega
        rcases this with e | e
        · exact h3 (List.IsPrefix.eq_of_length h1 e.symm).symm
        · exact hne (List.IsPrefix.eq_of_length h (by simp [e]))
    exact ⟨hpre, by simpa using h2, hne, by simpa using h4⟩
  | case5 pre c c' rest hd hi' hv => simp
  | case6 pre c c' rest hx => simp


end JjModel.WorkingCopy
