import JjModel.Lemmas.DiffCollect
/-!
  (e) Determinism.  The only place where the order of the histogram's hash table can reach the
  result of `collect_unchanged_words_lcs` is the order in which the shared word occurrences
  (`pairs`) are enumerated — it fixes the `serial` numbers.  `lcs_step_order_irrelevant` shows that
  any permutation of `pairs` gives the same sorted position lists, the same
  `left_index_by_right_index`, hence the same LCS and the same output.
-/
namespace JjModel.Diff

/-- strictly sorted lists with the same elements are equal -/
theorem strict_sorted_ext (l1 l2 : List Nat) (h1 : l1.Pairwise (· < ·)) (h2 : l2.Pairwise (· < ·))
    (hm : ∀ x, x ∈ l1 ↔ x ∈ l2) : l1 = l2 := by
  induction l1 generalizing l2 with
  | nil =>
    cases l2 with
    | nil => rfl
    | cons y ys => have := (hm y).mpr (by simp); simp at this
  | cons x xs ih =>
    cases l2 with
    | nil => have := (hm x).mp (by simp); simp at this
    | cons y ys =>
      rw [List.pairwise_cons] at h1 h2
      have hxy : x = y := by
        have hx := (hm x).mp (by simp)
        have hy := (hm y).mpr (by simp)
        simp only [List.mem_cons] at hx hy
        rcases hx with hx | hx
        · exact hx
        · rcases hy with hy | hy
          · exact hy.symm
          · have := h1.1 y hy; have := h2.1 x hx; omega
      subst hxy
      congr 1
      apply ih _ h1.2 h2.2
      intro z
      constructor
      · intro hz
        have := (hm z).mp (by simp [hz])
        simp only [List.mem_cons] at this
        rcases this with rfl | h
        · have := h1.1 _ hz; omega
        · exact h
      · intro hz
        have := (hm z).mpr (by simp [hz])
        simp only [List.mem_cons] at this
        rcases this with rfl | h
        · have := h2.1 _ hz; omega
        · exact h

theorem sortedKeys_perm (l l' : List Nat) (hp : l.Perm l') (hn : l.Nodup) :
    (sortByFst (withSerialFrom 0 l)).map Prod.fst = (sortByFst (withSerialFrom 0 l')).map Prod.fst := by
  have hn' : l'.Nodup := (hp.nodup_iff).mp hn
  have s1 := sortByFst_strict (withSerialFrom 0 l) (by rw [map_fst_withSerialFrom]; exact hn)
  have s2 := sortByFst_strict (withSerialFrom 0 l') (by rw [map_fst_withSerialFrom]; exact hn')
  have mem : ∀ (m : List Nat) x, x ∈ (sortByFst (withSerialFrom 0 m)).map Prod.fst ↔ x ∈ m := by
    intro m x
    simp only [List.mem_map]
    constructor
    · rintro ⟨⟨a, s⟩, hmem, rfl⟩
      rw [mem_sortByFst, mem_withSerialFrom] at hmem
      obtain ⟨k, hk, _⟩ := hmem
      exact List.mem_of_getElem? hk
    · intro hx
      obtain ⟨k, hk⟩ := List.getElem?_of_mem hx
      exact ⟨(x, 0 + k), by rw [mem_sortByFst, mem_withSerialFrom]; exact ⟨k, hk, rfl⟩, rfl⟩
  apply strict_sorted_ext
  · unfold StrictFst at s1; rw [List.pairwise_map]; exact s1
  · unfold StrictFst at s2; rw [List.pairwise_map]; exact s2
  · intro x; rw [mem l x, mem l' x]; exact hp.mem_iff

/-- each entry of `left_index_by_right_index` links the two occurrences of one pair -/
theorem libri_key (pairs : List (Nat × Nat)) (ri li : Nat)
    (h : (leftIndexByRightIndex (sortByFst (withSerialFrom 0 (pairs.map Prod.fst)))
      (sortByFst (withSerialFrom 0 (pairs.map Prod.snd))))[ri]? = some li) :
    ∃ a b, ((sortByFst (withSerialFrom 0 (pairs.map Prod.fst))).map Prod.fst)[li]? = some a ∧
      ((sortByFst (withSerialFrom 0 (pairs.map Prod.snd))).map Prod.fst)[ri]? = some b ∧ (a, b) ∈ pairs := by
  generalize hLP : sortByFst (withSerialFrom 0 (pairs.map Prod.fst)) = LP at h
  generalize hRP : sortByFst (withSerialFrom 0 (pairs.map Prod.snd)) = RP at h
  simp only [leftIndexByRightIndex, List.getElem?_map] at h
  cases hr : RP[ri]? with
  | none => simp [hr] at h
  | some rpE =>
    obtain ⟨b, k⟩ := rpE
    simp only [hr, Option.map_some, Option.some.injEq] at h
    have hrmem : (b, k) ∈ RP := List.mem_of_getElem? hr
    rw [← hRP, mem_sortByFst, mem_withSerialFrom] at hrmem
    obtain ⟨k', hk', hkk⟩ := hrmem
    have hk0 : k = k' := by omega
    subst hk0
    simp only [List.getElem?_map] at hk'
    cases hp : pairs[k]? with
    | none => simp [hp] at hk'
    | some pe =>
      obtain ⟨a, b'⟩ := pe
      simp only [hp, Option.map_some, Option.some.injEq] at hk'
      subst hk'
      have hlmem : (a, k) ∈ LP := by
        rw [← hLP, mem_sortByFst, mem_withSerialFrom]
        exact ⟨k, by simp [hp], by omega⟩
      obtain ⟨p', hp'⟩ := idxOfSerial_spec k LP ⟨a, hlmem⟩
      rw [h] at hp'
      have hp'mem : (p', k) ∈ LP := List.mem_of_getElem? hp'
      rw [← hLP, mem_sortByFst, mem_withSerialFrom] at hp'mem
      obtain ⟨k'', hk'', hkk''⟩ := hp'mem
      have : k'' = k := by omega
      subst this
      simp only [List.getElem?_map, hp, Option.map_some, Option.some.injEq] at hk''
      subst hk''
      exact ⟨a, b', by simp [List.getElem?_map, hp'], by simp [List.getElem?_map, hr],
        List.mem_of_getElem? hp⟩

theorem nodup_getElem?_inj (l : List Nat) (h : l.Nodup) (i j : Nat) (a : Nat) (hi : l[i]? = some a)
    (hj : l[j]? = some a) : i = j := by
  obtain ⟨hi', ei⟩ := List.getElem?_eq_some_iff.mp hi
  obtain ⟨hj', ej⟩ := List.getElem?_eq_some_iff.mp hj
  exact (List.getElem_inj h).mp (by rw [ei, ej])

/-- `left_index_by_right_index` does not depend on the enumeration order of the shared occurrences. -/
theorem libri_perm (pairs pairs' : List (Nat × Nat)) (hp : pairs.Perm pairs')
    (h1 : (pairs.map Prod.fst).Nodup) (h2 : (pairs.map Prod.snd).Nodup) :
    leftIndexByRightIndex (sortByFst (withSerialFrom 0 (pairs.map Prod.fst)))
        (sortByFst (withSerialFrom 0 (pairs.map Prod.snd))) =
      leftIndexByRightIndex (sortByFst (withSerialFrom 0 (pairs'.map Prod.fst)))
        (sortByFst (withSerialFrom 0 (pairs'.map Prod.snd))) := by
  have eL := sortedKeys_perm _ _ (hp.map Prod.fst) h1
  have eR := sortedKeys_perm _ _ (hp.map Prod.snd) h2
  have hK : ((sortByFst (withSerialFrom 0 (pairs.map Prod.fst))).map Prod.fst).Nodup := by
    have s1 := sortByFst_strict (withSerialFrom 0 (pairs.map Prod.fst)) (by rw [map_fst_withSerialFrom]; exact h1)
    unfold StrictFst at s1
    exact List.nodup_iff_pairwise_ne.mpr ((List.pairwise_map.mpr s1).imp (fun h => Nat.ne_of_lt h))
  apply List.ext_getElem?
  intro ri
  have hlen : ∀ q : List (Nat × Nat), (leftIndexByRightIndex (sortByFst (withSerialFrom 0 (q.map Prod.fst)))
      (sortByFst (withSerialFrom 0 (q.map Prod.snd)))).length = q.length := by
    intro q; simp [leftIndexByRightIndex, length_sortByFst, length_withSerialFrom]
  cases hl : (leftIndexByRightIndex (sortByFst (withSerialFrom 0 (pairs.map Prod.fst)))
      (sortByFst (withSerialFrom 0 (pairs.map Prod.snd))))[ri]? with
  | none =>
    have h1' := List.getElem?_eq_none_iff.mp hl
    rw [hlen] at h1'
    symm
    rw [List.getElem?_eq_none_iff, hlen, ← hp.length_eq]; exact h1'
  | some li =>
    have hri : ri < pairs.length := by
      have := (List.getElem?_eq_some_iff.mp hl).1; rwa [hlen] at this
    cases hl' : (leftIndexByRightIndex (sortByFst (withSerialFrom 0 (pairs'.map Prod.fst)))
        (sortByFst (withSerialFrom 0 (pairs'.map Prod.snd))))[ri]? with
    | none =>
      have h1' := List.getElem?_eq_none_iff.mp hl'
      rw [hlen, ← hp.length_eq] at h1'; omega
    | some li' =>
      obtain ⟨a, b, ea, eb, hab⟩ := libri_key pairs ri li hl
      obtain ⟨a', b', ea', eb', hab'⟩ := libri_key pairs' ri li' hl'
      rw [← eL] at ea'
      rw [← eR, eb] at eb'
      simp only [Option.some.injEq] at eb'
      subst eb'
      have hab'' : (a', b) ∈ pairs := hp.mem_iff.mpr hab'
      -- same second component ⇒ same pair
      have haa : a = a' := by
        obtain ⟨i, hi⟩ := List.getElem?_of_mem hab
        obtain ⟨j, hj⟩ := List.getElem?_of_mem hab''
        have := nodup_getElem?_inj _ h2 i j b (by simp [List.getElem?_map, hi]) (by simp [List.getElem?_map, hj])
        subst this
        rw [hi] at hj
        simpa using congrArg (fun o => o.map Prod.fst) hj
      subst haa
      rw [nodup_getElem?_inj _ hK li li' a ea ea']

theorem lcsWalk_congr {α : Type} [DecidableEq α] (rec : List α → List α → Nat → Nat → List (Nat × Nat))
    (left right : List α) (lo ro : Nat) (LP RP LP' RP' : List (Nat × Nat))
    (hL : LP.map Prod.fst = LP'.map Prod.fst) (hR : RP.map Prod.fst = RP'.map Prod.fst)
    (lcs : List (Nat × Nat)) (pl pr : Nat) :
    lcsWalk rec left right lo ro LP RP lcs pl pr = lcsWalk rec left right lo ro LP' RP' lcs pl pr := by
  have hget : ∀ (A B : List (Nat × Nat)), A.map Prod.fst = B.map Prod.fst → ∀ i, (A.getD i (0, 0)).1 = (B.getD i (0, 0)).1 := by
    intro A B h i
    have := congrArg (fun l => l.getD i 0) h
    simp only [List.getD, List.getElem?_map] at this ⊢
    cases hA : A[i]? <;> cases hB : B[i]? <;> simp_all
  induction lcs generalizing pl pr with
  | nil => simp [lcsWalk]
  | cons q rest ih =>
    obtain ⟨li, ri⟩ := q
    simp only [lcsWalk]
    rw [hget LP LP' hL li, hget RP RP' hR ri, ih]

/-- **(e)** The LCS step of `collect_unchanged_words_lcs` gives the same result for every
enumeration order of the shared word occurrences, i.e. for every iteration order of the hash table
(`serial` numbers are only used to pair the two sorted position lists). -/
theorem lcs_step_order_irrelevant {α : Type} [DecidableEq α]
    (rec : List α → List α → Nat → Nat → List (Nat × Nat)) (left right : List α) (lo ro : Nat)
    (pairs pairs' : List (Nat × Nat)) (hp : pairs.Perm pairs')
    (h1 : (pairs.map Prod.fst).Nodup) (h2 : (pairs.map Prod.snd).Nodup) :
    lcsWalk rec left right lo ro (sortByFst (withSerialFrom 0 (pairs.map Prod.fst)))
        (sortByFst (withSerialFrom 0 (pairs.map Prod.snd)))
        (findLcs (leftIndexByRightIndex (sortByFst (withSerialFrom 0 (pairs.map Prod.fst)))
          (sortByFst (withSerialFrom 0 (pairs.map Prod.snd))))) 0 0 =
      lcsWalk rec left right lo ro (sortByFst (withSerialFrom 0 (pairs'.map Prod.fst)))
        (sortByFst (withSerialFrom 0 (pairs'.map Prod.snd)))
        (findLcs (leftIndexByRightIndex (sortByFst (withSerialFrom 0 (pairs'.map Prod.fst)))
          (sortByFst (withSerialFrom 0 (pairs'.map Prod.snd))))) 0 0 := by
  rw [libri_perm pairs pairs' hp h1 h2]
  exact lcsWalk_congr rec left right lo ro _ _ _ _ (sortedKeys_perm _ _ (hp.map Prod.fst) h1)
    (sortedKeys_perm _ _ (hp.map Prod.snd) h2) _ 0 0

end JjModel.Diff
