import JjModel.Lemmas.RevsetFork
import JjModel.Lemmas.RevsetHeadsRange
import JjModel.Lemmas.RevsetReach
import JjModel.Lemmas.RevsetMerge
import JjModel.Lemmas.RevsetLatest
/-!
  C19 lemmas, part 7: soundness of the engine model `eval` against the plan semantics
  `denoteR`, by structural recursion over the proved part of `ResolvedExpression`.
-/
namespace JjModel.Revset

mutual
/-- The part of `ResolvedExpression` for which every combinator has a proved specification,
with all commit literals inside the graph: all of the modelled `ResolvedExpression`. -/
def OkR (g : Graph) : RExpr → Prop
  | .commits l => ∀ x ∈ l, x < g.size
  | .ancestors h _ _ _ => OkR g h
  | .range r h _ _ _ => OkR g r ∧ OkR g h
  | .dagRange r h _ _ => OkR g r ∧ OkR g h
  | .heads x => OkR g x
  | .headsRange r h _ f =>
    OkR g r ∧ OkR g h ∧
      (match f with
       | none => True
       | some f => OkP g f)
  | .roots x => OkR g x
  | .coalesce a b => OkR g a ∧ OkR g b
  | .union a b => OkR g a ∧ OkR g b
  | .inter a b => OkR g a ∧ OkR g b
  | .diff a b => OkR g a ∧ OkR g b
  | .forkPoint x => OkR g x
  | .mergePoint r h => OkR g r ∧ OkR g h
  | .forks h => OkR g h
  | .latest x _ => OkR g x
  | .reachable s d => OkR g s ∧ OkR g d
def OkP (g : Graph) : PExpr → Prop
  | .set x => OkR g x
  | .notIn x => OkP g x
  | .union a b => OkP g a ∧ OkP g b
  | .inter a b => OkP g a ∧ OkP g b
end

/-- what is proved about one evaluated plan -/
structure EvalOk (g : Graph) (r : RExpr) : Prop where
  desc : Desc (eval g r)
  lt : ∀ p ∈ eval g r, p < g.size
  mem : ∀ p, p ∈ eval g r ↔ denoteR g r p

theorem ancAll_iff {g : Graph} {l : List Nat} {S : Nat → Prop} (h : ∀ x, x ∈ l ↔ S x) (p : Nat) :
    (∃ x ∈ l, Path g.par x p) ↔ AncAll g S p := by
  simp only [AncAll, h]

theorem ancOf_iff {g : Graph} {l : List Nat} {S : Nat → Prop} (h : ∀ x, x ∈ l ↔ S x)
    (fp : Bool) (lo : Nat) (hi : Option Nat) (p : Nat) :
    (∃ x ∈ l, ∃ k, inGen lo hi k ∧ PathK (g.adj fp) k x p) ↔ AncOf g fp lo hi S p := by
  simp only [AncOf, h]

theorem ancOf_lt {g : Graph} (hw : g.WF) {S : Nat → Prop} (hS : ∀ x, S x → x < g.size)
    {fp : Bool} {lo : Nat} {hi : Option Nat} {p : Nat} (h : AncOf g fp lo hi S p) : p < g.size := by
  obtain ⟨x, hx, k, _, hk⟩ := h
  have := hk.le (by rw [Graph.adj_eq]; exact (show Topo g.par from hw.topo).adjF fp)
  have := hS x hx
  omega

theorem ancAll_lt {g : Graph} (hw : g.WF) {S : Nat → Prop} (hS : ∀ x, S x → x < g.size)
    {p : Nat} (h : AncAll g S p) : p < g.size := by
  obtain ⟨x, hx, hp⟩ := h
  have := hp.le hw.topo
  have := hS x hx
  omega

mutual
theorem eval_spec (g : Graph) (hw : g.WF) : (r : RExpr) → OkR g r → EvalOk g r
  | .commits l, hok => by
    refine ⟨?_, ?_, ?_⟩
    · simp only [eval]; exact desc_sortDedupDesc l
    · intro p hp; simp only [eval, mem_sortDedupDesc] at hp; exact hok p hp
    · intro p; simp only [eval, mem_sortDedupDesc, denoteR]
  | .ancestors h lo hi fp, hok => by
    have ih := eval_spec g hw h hok
    have hm : ∀ p, p ∈ eval g (.ancestors h lo hi fp) ↔ denoteR g (.ancestors h lo hi fp) p := by
      intro p
      simp only [eval, denoteR]
      rw [mem_ancestorsWalk g hw fp lo hi _ [] ih.lt (by simp), ancOf_iff ih.mem]
      simp
    refine ⟨?_, ?_, hm⟩
    · simp only [eval]; exact desc_ancestorsWalk g hw fp lo hi _ _
    · intro p hp
      rw [hm] at hp
      simp only [denoteR] at hp
      exact ancOf_lt hw (fun x hx => ih.lt x ((ih.mem x).2 hx)) hp
  | .range r h lo hi fp, hok => by
    have ihr := eval_spec g hw r hok.1
    have ihh := eval_spec g hw h hok.2
    have hdl : ∀ x ∈ diffDesc (eval g h) (eval g r), x < g.size := by
      intro x hx
      rw [mem_diffDesc _ _ ihh.desc ihr.desc] at hx
      exact ihh.lt x hx.1
    have hm : ∀ p, p ∈ eval g (.range r h lo hi fp) ↔ denoteR g (.range r h lo hi fp) p := by
      intro p
      simp only [eval, denoteR]
      rw [mem_ancestorsWalk g hw fp lo hi _ _ hdl ihr.lt, ancAll_iff ihr.mem]
      constructor
      · rintro ⟨⟨x, hx, k, hk, hp⟩, h2⟩
        rw [mem_diffDesc _ _ ihh.desc ihr.desc] at hx
        exact ⟨⟨x, (ihh.mem x).1 hx.1, k, hk, hp⟩, h2⟩
      · rintro ⟨⟨x, hx, k, hk, hp⟩, h2⟩
        refine ⟨⟨x, ?_, k, hk, hp⟩, h2⟩
        rw [mem_diffDesc _ _ ihh.desc ihr.desc]
        refine ⟨(ihh.mem x).2 hx, fun hxr => h2 ⟨x, (ihr.mem x).1 hxr, ?_⟩⟩
        exact Path.mono (adjF_sub g.par fp) ⟨k, hp⟩
    refine ⟨?_, ?_, hm⟩
    · simp only [eval]; exact desc_ancestorsWalk g hw fp lo hi _ _
    · intro p hp
      rw [hm] at hp
      simp only [denoteR] at hp
      exact ancOf_lt hw (fun x hx => ihh.lt x ((ihh.mem x).2 hx)) hp.1
  | .dagRange r h lo hi, hok => by
    have ihr := eval_spec g hw r hok.1
    have ihh := eval_spec g hw h hok.2
    have hm : ∀ p, p ∈ eval g (.dagRange r h lo hi) ↔ denoteR g (.dagRange r h lo hi) p := by
      intro p
      simp only [eval, denoteR]
      split
      · next hc =>
        obtain ⟨rfl, rfl⟩ := hc
        rw [mem_childrenArm g hw _ _ ihh.lt, ancAll_iff ihh.mem]
        simp only [ihr.mem]
      · split
        · next hc =>
          obtain ⟨rfl, rfl⟩ := hc
          rw [mem_descendantsOf g hw _ _ ihh.lt, ancAll_iff ihh.mem]
          simp only [ihr.mem]
          constructor
          · rintro ⟨h1, y, hy, k, hk⟩; exact ⟨h1, y, hy, k, ⟨Nat.zero_le _, trivial⟩, hk⟩
          · rintro ⟨h1, y, hy, k, _, hk⟩; exact ⟨h1, y, hy, k, hk⟩
        · rw [mem_descendantsGen g hw _ _ ihh.lt, ancAll_iff ihh.mem]
          simp only [ihr.mem]
    refine ⟨?_, ?_, hm⟩
    · simp only [eval]
      split
      · exact (desc_ancestorsUntilRoots g hw _ _).sublist List.filter_sublist
      · split
        · exact desc_descendantsOf g hw _ _
        · exact desc_descendantsGen g hw _ _ ihh.lt lo hi
    · intro p hp
      rw [hm] at hp
      simp only [denoteR] at hp
      exact ancAll_lt hw (fun x hx => ihh.lt x ((ihh.mem x).2 hx)) hp.1
  | .heads x, hok => by
    have ih := eval_spec g hw x hok
    have hm : ∀ p, p ∈ eval g (.heads x) ↔ denoteR g (.heads x) p := by
      intro p
      simp only [eval, denoteR]
      rw [mem_headsPos g hw.topo _ ih.lt]
      simp only [HeadsOf, ih.mem]
    refine ⟨?_, ?_, hm⟩
    · simp only [eval]; exact desc_headsPos g hw.topo _ ih.desc
    · intro p hp
      rw [hm] at hp
      simp only [denoteR] at hp
      exact ih.lt p ((ih.mem p).2 hp.1)
  | .roots x, hok => by
    have ih := eval_spec g hw x hok
    have hm : ∀ p, p ∈ eval g (.roots x) ↔ denoteR g (.roots x) p := by
      intro p
      simp only [eval, denoteR]
      rw [mem_rootsOf g hw _ ih.lt]
      simp only [RootsOf, ih.mem]
    refine ⟨?_, ?_, hm⟩
    · simp only [eval]; exact desc_rootsOf g _ ih.desc
    · intro p hp
      rw [hm] at hp
      simp only [denoteR] at hp
      exact ih.lt p ((ih.mem p).2 hp.1)
  | .coalesce a b, hok => by
    have iha := eval_spec g hw a hok.1
    have ihb := eval_spec g hw b hok.2
    have hne : (∃ x, denoteR g a x) ↔ eval g a ≠ [] := by
      constructor
      · rintro ⟨x, hx⟩ he
        have := (iha.mem x).2 hx
        rw [he] at this; simp at this
      · intro hne
        cases hl : eval g a with
        | nil => exact absurd hl hne
        | cons y l => exact ⟨y, (iha.mem y).1 (by rw [hl]; simp)⟩
    by_cases hl : (eval g a).isEmpty
    · have hnone : ¬ ∃ x, denoteR g a x := by
        rw [hne]; simpa using hl
      refine ⟨?_, ?_, ?_⟩
      · simp only [eval, coalesceArm, hl, if_true]; exact ihb.desc
      · simp only [eval, coalesceArm, hl, if_true]; exact ihb.lt
      · intro p
        simp only [eval, coalesceArm, hl, if_true, denoteR, CoalesceOf]
        rw [ihb.mem]
        constructor
        · intro h; exact Or.inr ⟨hnone, h⟩
        · rintro (⟨h, _⟩ | ⟨_, h⟩)
          · exact absurd h hnone
          · exact h
    · have hsome : ∃ x, denoteR g a x := by
        rw [hne]; simpa using hl
      refine ⟨?_, ?_, ?_⟩
      · simp only [eval, coalesceArm, hl]; exact iha.desc
      · simp only [eval, coalesceArm, hl]; exact iha.lt
      · intro p
        simp only [eval, coalesceArm, hl, denoteR, CoalesceOf]
        simp only [Bool.false_eq_true, if_false]
        rw [iha.mem]
        constructor
        · intro h; exact Or.inl ⟨hsome, h⟩
        · rintro (⟨_, h⟩ | ⟨h, _⟩)
          · exact h
          · exact absurd hsome h
  | .union a b, hok => by
    have iha := eval_spec g hw a hok.1
    have ihb := eval_spec g hw b hok.2
    refine ⟨?_, ?_, ?_⟩
    · simp only [eval]; exact desc_unionDesc _ _ iha.desc ihb.desc
    · intro p hp
      simp only [eval, mem_unionDesc] at hp
      rcases hp with hp | hp
      · exact iha.lt p hp
      · exact ihb.lt p hp
    · intro p; simp only [eval, mem_unionDesc, denoteR, iha.mem, ihb.mem]
  | .inter a b, hok => by
    have iha := eval_spec g hw a hok.1
    have ihb := eval_spec g hw b hok.2
    refine ⟨?_, ?_, ?_⟩
    · simp only [eval]; exact desc_interDesc _ _ iha.desc ihb.desc
    · intro p hp
      simp only [eval] at hp
      rw [mem_interDesc _ _ iha.desc ihb.desc] at hp
      exact iha.lt p hp.1
    · intro p
      simp only [eval, denoteR]
      rw [mem_interDesc _ _ iha.desc ihb.desc, iha.mem, ihb.mem]
  | .diff a b, hok => by
    have iha := eval_spec g hw a hok.1
    have ihb := eval_spec g hw b hok.2
    refine ⟨?_, ?_, ?_⟩
    · simp only [eval]; exact desc_diffDesc _ _ iha.desc ihb.desc
    · intro p hp
      simp only [eval] at hp
      rw [mem_diffDesc _ _ iha.desc ihb.desc] at hp
      exact iha.lt p hp.1
    · intro p
      simp only [eval, denoteR]
      rw [mem_diffDesc _ _ iha.desc ihb.desc, iha.mem, ihb.mem]
  | .forkPoint x, hok => by
    have ih := eval_spec g hw x hok
    have hs := forkPoint_spec g hw (eval g x) ih.lt
    have hm : ∀ p, p ∈ eval g (.forkPoint x) ↔ denoteR g (.forkPoint x) p := by
      intro p
      simp only [eval, denoteR]
      rw [hs.2]
      simp only [ForkPointOf, HeadsOf, ih.mem]
    refine ⟨?_, ?_, hm⟩
    · simp only [eval]; exact hs.1
    · intro p hp
      rw [hm] at hp
      simp only [denoteR] at hp
      obtain ⟨⟨y, hy⟩, hh, _⟩ := hp
      have := (hh y hy).le hw.topo
      have := ih.lt y ((ih.mem y).2 hy)
      omega
  | .mergePoint r h, hok => by
    have ihr := eval_spec g hw r hok.1
    have ihh := eval_spec g hw h hok.2
    have hs := mergePoint_spec g hw (eval g h) (eval g r) ihh.lt
    have hV : AncAll g (fun x => x ∈ eval g h) = AncAll g (denoteR g h) := by
      have : (fun x => x ∈ eval g h) = denoteR g h := funext fun x => propext (ihh.mem x)
      rw [this]
    have hS : (fun x => x ∈ eval g r) = denoteR g r := funext fun x => propext (ihr.mem x)
    have hm : ∀ p, p ∈ eval g (.mergePoint r h) ↔ denoteR g (.mergePoint r h) p := by
      intro p
      simp only [eval, denoteR]
      rw [hs.2, hV, hS]
    refine ⟨?_, ?_, hm⟩
    · simp only [eval]; exact hs.1
    · intro p hp
      rw [hm] at hp
      simp only [denoteR] at hp
      exact ancAll_lt hw (fun x hx => ihh.lt x ((ihh.mem x).2 hx)) hp.2.1.1
  | .forks h, hok => by
    have ihh := eval_spec g hw h hok
    have hs := forks_spec g hw (eval g h) ihh.lt
    have hV : AncAll g (fun x => x ∈ eval g h) = AncAll g (denoteR g h) := by
      have : (fun x => x ∈ eval g h) = denoteR g h := funext fun x => propext (ihh.mem x)
      rw [this]
    have hm : ∀ p, p ∈ eval g (.forks h) ↔ denoteR g (.forks h) p := by
      intro p
      simp only [eval, denoteR]
      rw [hs.2, hV]
    refine ⟨?_, ?_, hm⟩
    · simp only [eval]; exact hs.1
    · intro p hp
      rw [hm] at hp
      simp only [denoteR] at hp
      exact ancAll_lt hw (fun x hx => ihh.lt x ((ihh.mem x).2 hx)) hp.1
  | .latest x n, hok => by
    have ih := eval_spec g hw x hok
    have hm : ∀ p, p ∈ eval g (.latest x n) ↔ denoteR g (.latest x n) p := by
      intro p
      simp only [eval, denoteR]
      rw [mem_takeLatest g _ (desc_nodup ih.desc)]
      simp only [LatestOf, ih.mem]
    refine ⟨?_, ?_, hm⟩
    · simp only [eval, takeLatest]
      split
      · simp [Desc]
      · exact desc_sortDedupDesc _
    · intro p hp
      rw [hm] at hp
      simp only [denoteR] at hp
      exact ih.lt p ((ih.mem p).2 hp.1)
  | .reachable s d, hok => by
    have ihs := eval_spec g hw s hok.1
    have ihd := eval_spec g hw d hok.2
    have hD : (fun x => x ∈ eval g d) = denoteR g d := funext fun x => propext (ihd.mem x)
    have hm : ∀ p, p ∈ eval g (.reachable s d) ↔ denoteR g (.reachable s d) p := by
      intro p
      simp only [eval, denoteR]
      rw [mem_reachableIn, hD]
      simp only [ihs.mem, ihd.mem]
    refine ⟨?_, ?_, hm⟩
    · simp only [eval]; exact ihd.desc.sublist (reachableIn_sublist g _ _)
    · intro p hp
      simp only [eval] at hp
      exact ihd.lt p ((reachableIn_sublist g _ _).subset hp)
  | .headsRange r h fp none, hok => by
    have ihr := eval_spec g hw r hok.1
    have ihh := eval_spec g hw h hok.2.1
    have hm : ∀ p, p ∈ eval g (.headsRange r h fp none) ↔ denoteR g (.headsRange r h fp none) p := by
      intro p
      simp only [eval, denoteR]
      rw [mem_headsRangeArm g hw fp _ _ _ ihh.lt ihr.lt ihh.desc ihr.desc]
      apply headsOf_congr
      intro c
      simp only [AncOf, AncAll, ihh.mem, ihr.mem, and_true]
      constructor
      · rintro ⟨⟨x, hx, k, hk⟩, h2⟩; exact ⟨⟨x, hx, k, ⟨Nat.zero_le _, trivial⟩, hk⟩, h2⟩
      · rintro ⟨⟨x, hx, k, _, hk⟩, h2⟩; exact ⟨⟨x, hx, k, hk⟩, h2⟩
    refine ⟨?_, ?_, hm⟩
    · simp only [eval]; exact desc_headsRangeArm g hw fp _ _ _
    · intro p hp
      rw [hm] at hp
      simp only [denoteR] at hp
      exact ancOf_lt hw (fun x hx => ihh.lt x ((ihh.mem x).2 hx)) hp.1.1
  | .headsRange r h fp (some f), hok => by
    have ihr := eval_spec g hw r hok.1
    have ihh := eval_spec g hw h hok.2.1
    have ihf := evalPred_spec g hw f hok.2.2
    have hm : ∀ p, p ∈ eval g (.headsRange r h fp (some f)) ↔
        denoteR g (.headsRange r h fp (some f)) p := by
      intro p
      simp only [eval, denoteR]
      rw [mem_headsRangeArm g hw fp _ _ _ ihh.lt ihr.lt ihh.desc ihr.desc]
      apply headsOf_congr
      intro c
      simp only [AncOf, AncAll, ihh.mem, ihr.mem, ihf]
      constructor
      · rintro ⟨⟨x, hx, k, hk⟩, h2⟩; exact ⟨⟨x, hx, k, ⟨Nat.zero_le _, trivial⟩, hk⟩, h2⟩
      · rintro ⟨⟨x, hx, k, _, hk⟩, h2⟩; exact ⟨⟨x, hx, k, hk⟩, h2⟩
    refine ⟨?_, ?_, hm⟩
    · simp only [eval]; exact desc_headsRangeArm g hw fp _ _ _
    · intro p hp
      rw [hm] at hp
      simp only [denoteR] at hp
      exact ancOf_lt hw (fun x hx => ihh.lt x ((ihh.mem x).2 hx)) hp.1.1
theorem evalPred_spec (g : Graph) (hw : g.WF) : (f : PExpr) → OkP g f →
    ∀ p, evalPred g f p = true ↔ denoteP g f p
  | .set x, hok => by
    have ih := eval_spec g hw x hok
    intro p
    simp only [evalPred, denoteP, List.contains_iff_mem]
    exact ih.mem p
  | .notIn x, hok => by
    have ih := evalPred_spec g hw x hok
    intro p
    simp only [evalPred, denoteP, Bool.not_eq_true', ← ih p]
    cases evalPred g x p <;> simp
  | .union a b, hok => by
    have iha := evalPred_spec g hw a hok.1
    have ihb := evalPred_spec g hw b hok.2
    intro p
    simp only [evalPred, denoteP, Bool.or_eq_true, iha p, ihb p]
  | .inter a b, hok => by
    have iha := evalPred_spec g hw a hok.1
    have ihb := evalPred_spec g hw b hok.2
    intro p
    simp only [evalPred, denoteP, Bool.and_eq_true, iha p, ihb p]
end

end JjModel.Revset
