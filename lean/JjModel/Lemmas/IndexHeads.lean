import JjModel.Lemmas.Index
/-!
  Loop invariants of `heads_pos` (`headsInner` / `headsOuter`).

  `H` = heads found so far, `h` = the `parents` heap.
  * `InvA`: everything in the heap is a proper ancestor of a found head.
  * `InvB b`: every position `y < b` whose generation is at least `minGen` and that is a proper
    ancestor of a found head is still an ancestor of something in the heap (nothing relevant was
    lost by the generation cut-off or by popping).
-/
namespace JjModel.Index

def InvA (idx : Index) (H h : List Nat) : Prop :=
  ∀ x ∈ h, ∃ d ∈ H, Reach idx x d ∧ x ≠ d

def InvB (idx : Index) (minGen : Nat) (H h : List Nat) (b : Nat) : Prop :=
  ∀ y, y < b → minGen ≤ genOf idx y → (∃ d ∈ H, Reach idx y d ∧ y ≠ d) → ∃ x ∈ h, Reach idx y x

theorem InvB.mono {idx : Index} {minGen : Nat} {H h : List Nat} {b b' : Nat}
    (hB : InvB idx minGen H h b) (hle : b' ≤ b) : InvB idx minGen H h b' :=
  fun y hy hg hd => hB y (by omega) hg hd

/-- one iteration of the inner loop: the maximum `parent` is dropped (generation cut-off) or
replaced by its parents -/
theorem heads_step {idx : Index} (hwf : IndexWF idx) {minGen : Nat} {H h : List Nat} {b parent : Nat}
    (hA : InvA idx H h) (hB : InvB idx minGen H h b) (hp : peek h = some parent) :
    let h' := if genOf idx parent ≤ minGen then removeAll parent h else shiftToParents idx h parent
    InvA idx H h' ∧ InvB idx minGen H h' (min b parent) ∧ ∀ x ∈ h', x < parent := by
  obtain ⟨hmem, hmax⟩ := peek_some hp
  intro h'
  refine ⟨?_, ?_, ?_⟩
  · intro x hx
    by_cases hg : genOf idx parent ≤ minGen
    · simp only [h', hg, if_true] at hx
      exact hA x (mem_removeAll.mp hx).1
    · simp only [h', hg, if_false] at hx
      rcases mem_shiftToParents.mp hx with hpar | ⟨hx', _⟩
      · obtain ⟨d, hd, hr, hne⟩ := hA parent hmem
        refine ⟨d, hd, Reach.trans (Reach.step hpar (Reach.refl _)) hr, ?_⟩
        have := parentsOf_lt hwf hpar
        have := reach_le hwf hr
        omega
      · exact hA x hx'
  · intro y hy hgy hd
    obtain ⟨x, hx, hr⟩ := hB y (by omega) hgy hd
    by_cases hxp : x = parent
    · subst hxp
      have hne : y ≠ x := by omega
      by_cases hg : genOf idx x ≤ minGen
      · rcases reach_gen hwf hr with rfl | hlt
        · exact absurd rfl hne
        · omega
      · rcases reach_cases hr with rfl | ⟨q, hq, hrq⟩
        · exact absurd rfl hne
        · refine ⟨q, ?_, hrq⟩
          simp only [h', hg, if_false]
          exact mem_shiftToParents.mpr (Or.inl hq)
    · refine ⟨x, ?_, hr⟩
      by_cases hg : genOf idx parent ≤ minGen
      · simp only [h', hg, if_true]; exact mem_removeAll.mpr ⟨hx, hxp⟩
      · simp only [h', hg, if_false]; exact mem_shiftToParents.mpr (Or.inr ⟨hx, hxp⟩)
  · intro x hx
    by_cases hg : genOf idx parent ≤ minGen
    · simp only [h', hg, if_true] at hx
      obtain ⟨hx', hne⟩ := mem_removeAll.mp hx
      have := hmax x hx'; omega
    · simp only [h', hg, if_false] at hx
      rcases mem_shiftToParents.mp hx with hpar | ⟨hx', hne⟩
      · exact parentsOf_lt hwf hpar
      · have := hmax x hx'; omega

/-- when the heap has nothing at or above the candidate, the candidate is not a proper ancestor
of a found head -/
theorem heads_exit {idx : Index} (hwf : IndexWF idx) {minGen : Nat} {H h : List Nat} {c : Nat}
    (hc : minGen ≤ genOf idx c) (hB : InvB idx minGen H h (c + 1)) (hlt : ∀ x ∈ h, x < c) :
    ¬ ∃ d ∈ H, Reach idx c d ∧ c ≠ d := by
  intro hd
  obtain ⟨x, hx, hr⟩ := hB c (by omega) hc hd
  have := reach_le hwf hr
  have := hlt x hx
  omega

theorem headsInner_spec {idx : Index} (hwf : IndexWF idx) (minGen c : Nat) (H : List Nat)
    (hc : minGen ≤ genOf idx c) :
    ∀ (fuel : Nat) (h : List Nat), InvA idx H h → InvB idx minGen H h (c + 1) →
      (∀ x ∈ h, x < c + fuel) →
      InvA idx H (headsInner idx minGen c fuel h).1 ∧
      InvB idx minGen H (headsInner idx minGen c fuel h).1 c ∧
      ((headsInner idx minGen c fuel h).2 = true ↔ ∃ d ∈ H, Reach idx c d ∧ c ≠ d) := by
  intro fuel
  induction fuel with
  | zero =>
    intro h hA hB hf
    simp only [headsInner]
    refine ⟨hA, hB.mono (by omega), ?_⟩
    have := heads_exit hwf hc hB (by simpa using hf)
    simp [this]
  | succ fuel ih =>
    intro h hA hB hf
    unfold headsInner
    split
    · next hn =>
      have hnil := peek_none.mp hn
      refine ⟨hA, hB.mono (by omega), ?_⟩
      have := heads_exit hwf hc hB (by simp [hnil])
      simp [this]
    · next parent hp =>
      obtain ⟨hmem, hmax⟩ := peek_some hp
      by_cases hlt : parent < c
      · simp only [hlt, if_true]
        refine ⟨hA, hB.mono (by omega), ?_⟩
        have := heads_exit hwf hc hB (fun x hx => by have := hmax x hx; omega)
        simp [this]
      · simp only [hlt, if_false]
        obtain ⟨hA', hB', hlt'⟩ := heads_step hwf hA hB hp
        by_cases heq : parent = c
        · simp only [heq, if_true]
          subst heq
          refine ⟨hA', hB'.mono (by omega), ?_⟩
          simp only [true_iff]
          exact hA parent hmem
        · simp only [heq, if_false]
          apply ih _ hA' (hB'.mono (by omega))
          intro x hx
          have := hlt' x hx
          have := hf parent hmem
          omega

/-- the candidates kept by the outer loop: `H` grows by the candidates that are not proper
ancestors of an earlier head -/
theorem headsOuter_spec {idx : Index} (hwf : IndexWF idx) (minGen : Nat) :
    ∀ (cs h hr : List Nat) (b : Nat),
      (∀ c ∈ cs, minGen ≤ genOf idx c) → cs.Pairwise (· > ·) → (∀ c ∈ cs, c < idx.length) →
      (∀ c ∈ cs, c < b) → (∀ d ∈ hr, b ≤ d) →
      InvA idx hr h → InvB idx minGen hr h b →
      ∀ z, z ∈ headsOuter idx minGen cs h hr ↔
        z ∈ hr ∨ (z ∈ cs ∧ ¬ ∃ d ∈ hr ++ cs, Reach idx z d ∧ z ≠ d) := by
  intro cs
  induction cs with
  | nil =>
    intro h hr b _ _ _ _ _ _ _ z
    simp [headsOuter]
  | cons c cs ih =>
    intro h hr b hmin hsorted hvalid hb hH hA hB z
    have hcb : c < b := hb c (by simp)
    have hcs_lt : ∀ c' ∈ cs, c' < c := fun c' hc' => (List.pairwise_cons.mp hsorted).1 c' hc'
    have hfuel : ∀ x ∈ h, x < c + (idx.length + 1) := by
      intro x hx
      obtain ⟨d, _, hr', hne⟩ := hA x hx
      have := (reach_ne_lt hwf hr' hne)
      omega
    obtain ⟨hA', hB', hskip⟩ := headsInner_spec hwf minGen c hr (hmin c (by simp)) (idx.length + 1) h hA
      (hB.mono (by omega)) hfuel
    unfold headsOuter
    generalize hres : headsInner idx minGen c (idx.length + 1) h = res at hA' hB' hskip
    obtain ⟨h', skipped⟩ := res
    simp only at hA' hB' hskip
    cases skipped with
    | true =>
      -- `c` is a proper ancestor of a found head: skipped
      simp only
      have hex : ∃ d ∈ hr, Reach idx c d ∧ c ≠ d := hskip.mp rfl
      rw [ih h' hr c (fun c' hc' => hmin c' (by simp [hc'])) (List.pairwise_cons.mp hsorted).2
        (fun c' hc' => hvalid c' (by simp [hc'])) hcs_lt (fun d hd => by have := hH d hd; omega) hA' hB' z]
      constructor
      · rintro (hz | ⟨hz, hno⟩)
        · exact Or.inl hz
        · refine Or.inr ⟨by simp [hz], ?_⟩
          rintro ⟨d, hd, hrd, hne⟩
          rcases List.mem_append.mp hd with hd' | hd'
          · exact hno ⟨d, by simp [hd'], hrd, hne⟩
          · rcases List.mem_cons.mp hd' with rfl | hd''
            · obtain ⟨d', hd'h, hr', hne'⟩ := hex
              refine hno ⟨d', by simp [hd'h], Reach.trans hrd hr', ?_⟩
              have := reach_le hwf hrd
              have := (reach_ne_lt hwf hr' hne').1
              omega
            · exact hno ⟨d, by simp [hd''], hrd, hne⟩
      · rintro (hz | ⟨hz, hno⟩)
        · exact Or.inl hz
        · rcases List.mem_cons.mp hz with rfl | hz'
          · obtain ⟨d', hd'h, hr', hne'⟩ := hex
            exact absurd ⟨d', by simp [hd'h], hr', hne'⟩ hno
          · refine Or.inr ⟨hz', ?_⟩
            rintro ⟨d, hd, hrd, hne⟩
            rcases List.mem_append.mp hd with hd' | hd'
            · exact hno ⟨d, by simp [hd'], hrd, hne⟩
            · exact hno ⟨d, by simp [hd'], hrd, hne⟩
    | false =>
      simp only
      have hnex : ¬ ∃ d ∈ hr, Reach idx c d ∧ c ≠ d := fun hex => by
        have := hskip.mpr hex; simp at this
      -- `c` becomes a head; its parents enter the heap
      have hA'' : InvA idx (c :: hr) (parentsOf idx c ++ h') := by
        intro x hx
        rcases List.mem_append.mp hx with hp | hx'
        · exact ⟨c, by simp, Reach.step hp (Reach.refl _), by have := parentsOf_lt hwf hp; omega⟩
        · obtain ⟨d, hd, hr', hne⟩ := hA' x hx'
          exact ⟨d, by simp [hd], hr', hne⟩
      have hB'' : InvB idx minGen (c :: hr) (parentsOf idx c ++ h') c := by
        intro y hy hg ⟨d, hd, hrd, hne⟩
        rcases List.mem_cons.mp hd with rfl | hd'
        · rcases reach_cases hrd with rfl | ⟨q, hq, hrq⟩
          · exact absurd rfl hne
          · exact ⟨q, by simp [hq], hrq⟩
        · obtain ⟨x, hx, hrx⟩ := hB' y hy hg ⟨d, hd', hrd, hne⟩
          exact ⟨x, by simp [hx], hrx⟩
      rw [ih (parentsOf idx c ++ h') (c :: hr) c (fun c' hc' => hmin c' (by simp [hc']))
        (List.pairwise_cons.mp hsorted).2 (fun c' hc' => hvalid c' (by simp [hc'])) hcs_lt
        (fun d hd => by
          rcases List.mem_cons.mp hd with rfl | hd'
          · exact Nat.le_refl _
          · have := hH d hd'; omega) hA'' hB'' z]
      constructor
      · rintro (hz | ⟨hz, hno⟩)
        · rcases List.mem_cons.mp hz with rfl | hz'
          · refine Or.inr ⟨by simp, ?_⟩
            rintro ⟨d, hd, hrd, hne⟩
            rcases List.mem_append.mp hd with hd' | hd'
            · exact hnex ⟨d, hd', hrd, hne⟩
            · rcases List.mem_cons.mp hd' with rfl | hd''
              · exact hne rfl
              · have := hcs_lt d hd''
                have := reach_le hwf hrd
                omega
          · exact Or.inl hz'
        · refine Or.inr ⟨by simp [hz], ?_⟩
          rintro ⟨d, hd, hrd, hne⟩
          apply hno
          refine ⟨d, ?_, hrd, hne⟩
          simp only [List.mem_append, List.mem_cons] at hd ⊢
          rcases hd with hd | rfl | hd
          · exact Or.inl (Or.inr hd)
          · exact Or.inl (Or.inl rfl)
          · exact Or.inr hd
      · rintro (hz | ⟨hz, hno⟩)
        · exact Or.inl (by simp [hz])
        · rcases List.mem_cons.mp hz with rfl | hz'
          · exact Or.inl (by simp)
          · refine Or.inr ⟨hz', ?_⟩
            rintro ⟨d, hd, hrd, hne⟩
            apply hno
            refine ⟨d, ?_, hrd, hne⟩
            simp only [List.mem_append, List.mem_cons] at hd ⊢
            rcases hd with (rfl | hd) | hd
            · exact Or.inr (Or.inl rfl)
            · exact Or.inl hd
            · exact Or.inr (Or.inr hd)

/-- the result is the reversed accumulator followed by a sublist of the candidates -/
theorem headsOuter_sublist (idx : Index) (minGen : Nat) :
    ∀ (cs h hr : List Nat), ∃ l, l.Sublist cs ∧ headsOuter idx minGen cs h hr = hr.reverse ++ l := by
  intro cs
  induction cs with
  | nil => intro h hr; exact ⟨[], List.Sublist.refl _, by simp [headsOuter]⟩
  | cons c cs ih =>
    intro h hr
    unfold headsOuter
    split
    · next h' _ =>
      obtain ⟨l, hl, he⟩ := ih h' hr
      exact ⟨l, List.Sublist.cons _ hl, he⟩
    · next h' _ =>
      obtain ⟨l, hl, he⟩ := ih (parentsOf idx c ++ h') (c :: hr)
      exact ⟨c :: l, List.Sublist.cons_cons _ hl, by simp [he]⟩

theorem minGenOf_le {idx : Index} {cs : List Nat} {m : Nat} (h : minGenOf idx cs = some m) :
    ∀ c ∈ cs, m ≤ genOf idx c := by
  induction cs generalizing m with
  | nil => simp
  | cons x xs ih =>
    simp only [minGenOf] at h
    intro c hc
    split at h
    · next hn =>
      have : xs = [] := by
        cases xs with
        | nil => rfl
        | cons y ys => simp only [minGenOf] at hn; split at hn <;> simp at hn
      subst this
      simp at h hc
      subst h hc
      exact Nat.le_refl _
    · next m' hm' =>
      simp at h
      rcases List.mem_cons.mp hc with rfl | hc'
      · omega
      · have := ih hm' c hc'; omega

theorem minGenOf_none {idx : Index} {cs : List Nat} (h : minGenOf idx cs = none) : cs = [] := by
  cases cs with
  | nil => rfl
  | cons y ys => simp only [minGenOf] at h; split at h <;> simp at h

/-! ### `sortDescDedup` -/

theorem mem_insertDesc {x y : Nat} {l : List Nat} : y ∈ insertDesc x l ↔ y = x ∨ y ∈ l := by
  induction l with
  | nil => simp [insertDesc]
  | cons z zs ih =>
    simp only [insertDesc]
    split
    · simp
    · split
      · next heq => subst heq; simp
      · simp [ih]; grind

theorem insertDesc_pairwise {x : Nat} {l : List Nat} (h : l.Pairwise (· > ·)) :
    (insertDesc x l).Pairwise (· > ·) := by
  induction l with
  | nil => simp [insertDesc]
  | cons z zs ih =>
    simp only [insertDesc]
    have hz := List.pairwise_cons.mp h
    split
    · next hgt =>
      refine List.pairwise_cons.mpr ⟨?_, h⟩
      intro a ha
      rcases List.mem_cons.mp ha with rfl | ha'
      · exact hgt
      · have := hz.1 a ha'; omega
    · split
      · exact h
      · next hngt hne =>
        refine List.pairwise_cons.mpr ⟨?_, ih hz.2⟩
        intro a ha
        rcases mem_insertDesc.mp ha with rfl | ha'
        · omega
        · exact hz.1 a ha'

theorem mem_sortDescDedup {y : Nat} {l : List Nat} : y ∈ sortDescDedup l ↔ y ∈ l := by
  induction l with
  | nil => simp [sortDescDedup]
  | cons x xs ih =>
    simp only [sortDescDedup, List.foldr_cons] at ih ⊢
    rw [mem_insertDesc, ih]; simp

theorem sortDescDedup_pairwise (l : List Nat) : (sortDescDedup l).Pairwise (· > ·) := by
  induction l with
  | nil => simp [sortDescDedup]
  | cons x xs ih =>
    simp only [sortDescDedup, List.foldr_cons] at ih ⊢
    exact insertDesc_pairwise ih

end JjModel.Index
