import JjModel.Model.Revset
/-!
  C19 lemmas, part 1: strictly descending lists and the sorted-stream set operators.
-/
namespace JjModel.Revset

/-- strictly descending = newest first, no duplicates -/
abbrev Desc (l : List Nat) : Prop := l.Pairwise (· > ·)

theorem desc_cons {a : Nat} {l : List Nat} : Desc (a :: l) ↔ (∀ b ∈ l, b < a) ∧ Desc l := by
  simp [Desc, List.pairwise_cons]

theorem desc_nodup {l : List Nat} (h : Desc l) : l.Nodup := by
  induction l with
  | nil => simp
  | cons a l ih =>
    rw [desc_cons] at h
    simp only [List.nodup_cons]
    refine ⟨fun hm => ?_, ih h.2⟩
    have := h.1 a hm
    omega

/-- two strictly descending lists with the same members are equal -/
theorem desc_ext : ∀ {l₁ l₂ : List Nat}, Desc l₁ → Desc l₂ → (∀ p, p ∈ l₁ ↔ p ∈ l₂) → l₁ = l₂
  | [], [], _, _, _ => rfl
  | [], b :: l₂, _, _, h => by have := (h b).2 (by simp); simp at this
  | a :: l₁, [], _, _, h => by have := (h a).1 (by simp); simp at this
  | a :: l₁, b :: l₂, h₁, h₂, h => by
    rw [desc_cons] at h₁ h₂
    have hab : a = b := by
      have ha := (h a).1 (by simp)
      have hb := (h b).2 (by simp)
      simp only [List.mem_cons] at ha hb
      rcases ha with ha | ha
      · exact ha
      · rcases hb with hb | hb
        · exact hb.symm
        · have := h₂.1 a ha; have := h₁.1 b hb; omega
    subst hab
    congr 1
    apply desc_ext h₁.2 h₂.2
    intro p
    have hp := h p
    simp only [List.mem_cons] at hp
    constructor
    · intro hm
      have := h₁.1 p hm
      rcases hp.1 (Or.inr hm) with e | e
      · omega
      · exact e
    · intro hm
      have := h₂.1 p hm
      rcases hp.2 (Or.inr hm) with e | e
      · omega
      · exact e

/-! ### union -/

theorem mem_unionDesc (xs ys : List Nat) (p : Nat) :
    p ∈ unionDesc xs ys ↔ p ∈ xs ∨ p ∈ ys := by
  fun_induction unionDesc xs ys <;> grind

theorem desc_unionDesc (xs ys : List Nat) (hx : Desc xs) (hy : Desc ys) :
    Desc (unionDesc xs ys) := by
  fun_induction unionDesc xs ys with
  | case1 ys => exact hy
  | case2 x xs => exact hx
  | case3 x xs y ys hlt ih =>
    rw [desc_cons] at hx ⊢
    refine ⟨?_, ih hx.2 hy⟩
    intro b hb
    rw [mem_unionDesc] at hb
    rw [desc_cons] at hy
    rcases hb with hb | hb
    · exact hx.1 b hb
    · simp only [List.mem_cons] at hb
      rcases hb with rfl | hb
      · exact hlt
      · have := hy.1 b hb; omega
  | case4 x xs ys hnlt ih =>
    rw [desc_cons] at hx hy ⊢
    refine ⟨?_, ih hx.2 hy.2⟩
    intro b hb
    rw [mem_unionDesc] at hb
    rcases hb with hb | hb
    · exact hx.1 b hb
    · exact hy.1 b hb
  | case5 x xs y ys hnlt hne ih =>
    rw [desc_cons] at hy ⊢
    refine ⟨?_, ih hx hy.2⟩
    intro b hb
    rw [mem_unionDesc] at hb
    rw [desc_cons] at hx
    rcases hb with hb | hb
    · simp only [List.mem_cons] at hb
      rcases hb with rfl | hb
      · omega
      · have := hx.1 b hb; omega
    · exact hy.1 b hb

/-! ### intersection -/

theorem mem_interDesc (xs ys : List Nat) (hx : Desc xs) (hy : Desc ys) (p : Nat) :
    p ∈ interDesc xs ys ↔ p ∈ xs ∧ p ∈ ys := by
  fun_induction interDesc xs ys with
  | case1 => simp
  | case2 => simp
  | case3 x xs y ys hlt ih =>
    rw [desc_cons] at hx
    have hy' := hy
    rw [desc_cons] at hy'
    rw [ih hx.2 hy]
    simp only [List.mem_cons]
    constructor
    · rintro ⟨h1, h2⟩; exact ⟨Or.inr h1, h2⟩
    · rintro ⟨h1 | h1, h2⟩
      · subst h1
        rcases h2 with h2 | h2
        · omega
        · have := hy'.1 p h2; omega
      · exact ⟨h1, h2⟩
  | case4 x xs ys hnlt ih =>
    rw [desc_cons] at hx hy
    simp only [List.mem_cons]
    rw [ih hx.2 hy.2]
    constructor
    · rintro (h | ⟨h1, h2⟩)
      · exact ⟨Or.inl h, Or.inl h⟩
      · exact ⟨Or.inr h1, Or.inr h2⟩
    · rintro ⟨h1 | h1, h2 | h2⟩
      · exact Or.inl h1
      · subst h1; have := hy.1 p h2; omega
      · subst h2; have := hx.1 p h1; omega
      · exact Or.inr ⟨h1, h2⟩
  | case5 x xs y ys hnlt hne ih =>
    have hx' := hx
    rw [desc_cons] at hx' hy
    rw [ih hx hy.2]
    simp only [List.mem_cons]
    constructor
    · rintro ⟨h1, h2⟩; exact ⟨h1, Or.inr h2⟩
    · rintro ⟨h1, h2 | h2⟩
      · subst h2
        rcases h1 with h1 | h1
        · omega
        · have := hx'.1 p h1; omega
      · exact ⟨h1, h2⟩

theorem desc_interDesc (xs ys : List Nat) (hx : Desc xs) (hy : Desc ys) :
    Desc (interDesc xs ys) := by
  fun_induction interDesc xs ys with
  | case1 => simp [Desc]
  | case2 => simp [Desc]
  | case3 x xs y ys hlt ih => rw [desc_cons] at hx; exact ih hx.2 hy
  | case4 x xs ys hnlt ih =>
    have hx' := hx
    have hy' := hy
    rw [desc_cons] at hx' hy' ⊢
    refine ⟨?_, ih hx'.2 hy'.2⟩
    intro b hb
    rw [mem_interDesc _ _ hx'.2 hy'.2] at hb
    exact hx'.1 b hb.1
  | case5 x xs y ys hnlt hne ih => rw [desc_cons] at hy; exact ih hx hy.2

/-! ### difference -/

theorem mem_diffDesc (xs ys : List Nat) (hx : Desc xs) (hy : Desc ys) (p : Nat) :
    p ∈ diffDesc xs ys ↔ p ∈ xs ∧ p ∉ ys := by
  fun_induction diffDesc xs ys with
  | case1 => simp
  | case2 => simp
  | case3 x xs y ys hlt ih =>
    have hy' := hy
    rw [desc_cons] at hx hy'
    simp only [List.mem_cons]
    rw [ih hx.2 hy]
    simp only [List.mem_cons]
    constructor
    · rintro (h | ⟨h1, h2⟩)
      · subst h
        refine ⟨Or.inl rfl, ?_⟩
        rintro (h | h)
        · omega
        · have := hy'.1 p h; omega
      · exact ⟨Or.inr h1, h2⟩
    · rintro ⟨h1 | h1, h2⟩
      · exact Or.inl h1
      · exact Or.inr ⟨h1, h2⟩
  | case4 x xs ys hnlt ih =>
    rw [desc_cons] at hx hy
    rw [ih hx.2 hy.2]
    simp only [List.mem_cons]
    constructor
    · rintro ⟨h1, h2⟩
      refine ⟨Or.inr h1, ?_⟩
      rintro (h | h)
      · subst h; have := hx.1 p h1; omega
      · exact h2 h
    · rintro ⟨h1 | h1, h2⟩
      · exact absurd (Or.inl h1) h2
      · exact ⟨h1, fun h => h2 (Or.inr h)⟩
  | case5 x xs y ys hnlt hne ih =>
    have hx' := hx
    rw [desc_cons] at hx' hy
    rw [ih hx hy.2]
    simp only [List.mem_cons]
    constructor
    · rintro ⟨h1, h2⟩
      refine ⟨h1, ?_⟩
      rintro (h | h)
      · subst h
        rcases h1 with h1 | h1
        · omega
        · have := hx'.1 p h1; omega
      · exact h2 h
    · rintro ⟨h1, h2⟩
      exact ⟨h1, fun h => h2 (Or.inr h)⟩

theorem desc_diffDesc (xs ys : List Nat) (hx : Desc xs) (hy : Desc ys) :
    Desc (diffDesc xs ys) := by
  fun_induction diffDesc xs ys with
  | case1 => simp [Desc]
  | case2 => exact hx
  | case3 x xs y ys hlt ih =>
    have hx' := hx
    rw [desc_cons] at hx' ⊢
    refine ⟨?_, ih hx'.2 hy⟩
    intro b hb
    rw [mem_diffDesc _ _ hx'.2 hy] at hb
    exact hx'.1 b hb.1
  | case4 x xs ys hnlt ih => rw [desc_cons] at hx hy; exact ih hx.2 hy.2
  | case5 x xs y ys hnlt hne ih => rw [desc_cons] at hy; exact ih hx hy.2

/-! ### `revset_for_commit_ids` -/

theorem mem_insertDesc (a : Nat) (l : List Nat) (p : Nat) :
    p ∈ insertDesc a l ↔ p = a ∨ p ∈ l := by
  fun_induction insertDesc a l <;> grind

theorem desc_insertDesc (a : Nat) (l : List Nat) (h : Desc l) : Desc (insertDesc a l) := by
  fun_induction insertDesc a l with
  | case1 => simp [Desc]
  | case2 b l hlt =>
    have h' := h
    rw [desc_cons] at h' ⊢
    refine ⟨?_, h⟩
    intro c hc
    simp only [List.mem_cons] at hc
    rcases hc with rfl | hc
    · exact hlt
    · have := h'.1 c hc; omega
  | case3 l hnlt => exact h
  | case4 b l hnlt hne ih =>
    rw [desc_cons] at h ⊢
    refine ⟨?_, ih h.2⟩
    intro c hc
    rw [mem_insertDesc] at hc
    rcases hc with rfl | hc
    · omega
    · exact h.1 c hc

theorem mem_sortDedupDesc (l : List Nat) (p : Nat) : p ∈ sortDedupDesc l ↔ p ∈ l := by
  induction l with
  | nil => simp [sortDedupDesc]
  | cons a l ih => simp [sortDedupDesc, mem_insertDesc, ih]

theorem desc_sortDedupDesc (l : List Nat) : Desc (sortDedupDesc l) := by
  induction l with
  | nil => simp [sortDedupDesc, Desc]
  | cons a l ih => exact desc_insertDesc a _ ih

end JjModel.Revset
