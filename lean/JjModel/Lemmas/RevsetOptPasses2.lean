import JjModel.Lemmas.RevsetOptPasses
/-!
  C19 lemmas, part 11: `flatten_intersections`, `sort_negations_and_ancestors`,
  `fold_ancestors_union`, `fold_generation`.
-/
namespace JjModel.Revset

section
variable {g : Graph} {vh : List Nat}

/-! ### `flatten_intersections` -/

theorem flattenInter_spec : ∀ (e2 e1 r : Expr), flattenInter e1 e2 = some r →
    RefsIn vh (.inter e1 e2) → RefsIn vh r ∧ denote g vh r = denote g vh (.inter e1 e2) := by
  intro e2
  induction e2 with
  | inter i1 i2 ih1 _ =>
    intro e1 r h hr
    simp only [flattenInter, Option.some.injEq] at h
    subst h
    have hr' := refsIn_append.1 hr
    have hr2 := refsIn_append.1 (show RefsIn vh (.inter i1 i2) from hr'.2)
    have hr1 : RefsIn vh (.inter e1 i1) := refsIn_append.2 ⟨hr'.1, hr2.1⟩
    have hsub : RefsIn vh ((flattenInter e1 i1).getD (.inter e1 i1)) ∧
        denote g vh ((flattenInter e1 i1).getD (.inter e1 i1)) = denote g vh (.inter e1 i1) := by
      cases hf : flattenInter e1 i1 with
      | none => exact ⟨hr1, rfl⟩
      | some r1 => simpa using ih1 e1 r1 hf hr1
    refine ⟨refsIn_append.2 ⟨hsub.1, hr2.2⟩, ?_⟩
    funext p
    apply propext
    simp only [denote] at hsub ⊢
    rw [hsub.2]
    exact and_assoc
  | _ => intro e1 r h; simp [flattenInter] at h

theorem flattenIntersections_local : Local g vh flattenIntersectionsF := by
  intro e e' hr h
  unfold flattenIntersectionsF at h
  split at h
  · exact flattenInter_spec _ _ _ h hr
  · simp at h

theorem flattenIntersections_sound : Sound g vh (bottomUp flattenIntersectionsF) :=
  bottomUp_sound flattenIntersections_local

/-! ### `sort_negations_and_ancestors` -/

theorem sortInterHelper_spec (expr : Expr) (k : Nat) : ∀ (base r : Expr),
    sortInterHelper expr k base = some r → RefsIn vh (.inter base expr) →
      RefsIn vh r ∧ denote g vh r = denote g vh (.inter base expr) := by
  intro base
  induction base with
  | inter i1 i2 ih1 _ =>
    intro r h hr
    simp only [sortInterHelper] at h
    split at h
    · simp only [Option.some.injEq] at h
      subst h
      have hr' := refsIn_append.1 hr
      have hr2 := refsIn_append.1 (show RefsIn vh (.inter i1 i2) from hr'.1)
      have hr1 : RefsIn vh (.inter i1 expr) := refsIn_append.2 ⟨hr2.1, hr'.2⟩
      have hsub : RefsIn vh ((sortInterHelper expr k i1).getD (.inter i1 expr)) ∧
          denote g vh ((sortInterHelper expr k i1).getD (.inter i1 expr)) =
            denote g vh (.inter i1 expr) := by
        cases hf : sortInterHelper expr k i1 with
        | none => exact ⟨hr1, rfl⟩
        | some r1 => simpa using ih1 r1 hf hr1
      refine ⟨refsIn_append.2 ⟨hsub.1, hr2.2⟩, ?_⟩
      funext p
      apply propext
      simp only [denote] at hsub ⊢
      rw [hsub.2]
      constructor
      · rintro ⟨⟨a, b⟩, c⟩; exact ⟨⟨a, c⟩, b⟩
      · rintro ⟨⟨a, c⟩, b⟩; exact ⟨⟨a, b⟩, c⟩
    · simp at h
  | _ =>
    intro r h hr
    simp only [sortInterHelper] at h
    split at h
    · simp only [Option.some.injEq] at h
      subst h
      have hr' := refsIn_append.1 hr
      refine ⟨refsIn_append.2 ⟨hr'.2, hr'.1⟩, ?_⟩
      funext p
      apply propext
      simp only [denote]
      exact and_comm
    · simp at h

theorem sortNegations_local : Local g vh sortNegationsF := by
  intro e e' hr h
  unfold sortNegationsF at h
  split at h
  · exact sortInterHelper_spec _ _ _ _ h hr
  · simp at h

theorem sortNegations_sound : Sound g vh (bottomUp sortNegationsF) :=
  bottomUp_sound sortNegations_local

/-! ### `fold_ancestors_union` -/

theorem ancAll_union (S T : Nat → Prop) :
    AncAll g (fun p => S p ∨ T p) = fun p => AncAll g S p ∨ AncAll g T p := by
  funext p
  apply propext
  simp only [AncAll]
  constructor
  · rintro ⟨x, hx | hx, hp⟩
    · exact Or.inl ⟨x, hx, hp⟩
    · exact Or.inr ⟨x, hx, hp⟩
  · rintro (⟨x, hx, hp⟩ | ⟨x, hx, hp⟩)
    · exact ⟨x, Or.inl hx, hp⟩
    · exact ⟨x, Or.inr hx, hp⟩

theorem unionAncestors_spec {e1 e2 r : Expr} (h : unionAncestors e1 e2 = some r)
    (hr1 : RefsIn vh e1) (hr2 : RefsIn vh e2) :
    RefsIn vh r ∧ denote g vh r = fun p => denote g vh e1 p ∨ denote g vh e2 p := by
  unfold unionAncestors at h
  split at h
  · next h1 h2 hh1 hh2 =>
    simp only [Option.some.injEq] at h
    subst h
    have s1 := ancestorsToHeads_spec (g := g) (vh := vh) hh1
    have s2 := ancestorsToHeads_spec (g := g) (vh := vh) hh2
    refine ⟨refsIn_append.2 ⟨s1.1 hr1, s2.1 hr2⟩, ?_⟩
    simp only [denote]
    rw [ancOf_full, ancAll_union, s1.2, s2.2]
  · simp at h

theorem foldAncestorsUnion_local : Local g vh foldAncestorsUnionF := by
  intro e e' hr h
  unfold foldAncestorsUnionF at h
  split at h
  · have hr' := refsIn_append.1 hr
    obtain ⟨a, b⟩ := unionAncestors_spec (g := g) h hr'.1 hr'.2
    exact ⟨a, by rw [b]; funext p; simp only [denote]⟩
  · next c1 c2 =>
    have hr' := refsIn_append.1 hr
    cases hu : unionAncestors c1 c2 with
    | none => simp [hu] at h
    | some r =>
      simp only [hu, Option.map_some, Option.some.injEq] at h
      subst h
      obtain ⟨a, b⟩ := unionAncestors_spec (g := g) hu (show RefsIn vh c1 from hr'.1)
        (show RefsIn vh c2 from hr'.2)
      refine ⟨a, ?_⟩
      funext p
      apply propext
      simp only [denote]
      rw [b]
      constructor
      · rintro ⟨h1, h2⟩; exact ⟨⟨h1, fun h => h2 (Or.inl h)⟩, h1, fun h => h2 (Or.inr h)⟩
      · rintro ⟨⟨h1, h2⟩, _, h3⟩
        exact ⟨h1, fun h => h.elim h2 h3⟩
  · simp at h

theorem foldAncestorsUnion_sound : Sound g vh (bottomUp foldAncestorsUnionF) :=
  bottomUp_sound foldAncestorsUnion_local

/-! ### `fold_generation` -/

theorem inGen_empty {lo : Nat} {hi : Option Nat} (h : genIsEmpty lo hi = true) (k : Nat) :
    ¬ inGen lo hi k := by
  unfold genIsEmpty at h
  unfold inGen
  cases hi with
  | none => simp at h
  | some e => simp only [decide_eq_true_eq] at h; simp only []; omega

/-- `add_generation` is the Minkowski sum of the two ranges -/
theorem inGen_add (lo1 : Nat) (hi1 : Option Nat) (lo2 : Nat) (hi2 : Option Nat) (k : Nat) :
    inGen (addGeneration lo1 hi1 lo2 hi2).1 (addGeneration lo1 hi1 lo2 hi2).2 k ↔
      ∃ k1 k2, inGen lo1 hi1 k1 ∧ inGen lo2 hi2 k2 ∧ k = k2 + k1 := by
  unfold addGeneration
  by_cases he : (genIsEmpty lo1 hi1 || genIsEmpty lo2 hi2) = true
  · rw [if_pos he]
    simp only [Bool.or_eq_true] at he
    constructor
    · intro h; simp [inGen] at h
    · rintro ⟨k1, k2, h1, h2, _⟩
      rcases he with he | he
      · exact absurd h1 (inGen_empty he k1)
      · exact absurd h2 (inGen_empty he k2)
  · rw [if_neg he]
    simp only [Bool.or_eq_true, not_or, Bool.not_eq_true] at he
    obtain ⟨he1, he2⟩ := he
    unfold genIsEmpty at he1 he2
    unfold inGen
    cases hi1 with
    | none =>
      cases hi2 with
      | none =>
        simp only []
        constructor
        · rintro ⟨h, _⟩; exact ⟨lo1, k - lo1, ⟨Nat.le_refl _, trivial⟩, ⟨by omega, trivial⟩, by omega⟩
        · rintro ⟨k1, k2, ⟨h1, _⟩, ⟨h2, _⟩, rfl⟩; exact ⟨by omega, trivial⟩
      | some e2 =>
        simp only [decide_eq_false_iff_not] at he2
        simp only []
        constructor
        · rintro ⟨h, _⟩; exact ⟨k - lo2, lo2, ⟨by omega, trivial⟩, ⟨Nat.le_refl _, by omega⟩, by omega⟩
        · rintro ⟨k1, k2, ⟨h1, _⟩, ⟨h2, _⟩, rfl⟩; exact ⟨by omega, trivial⟩
    | some e1 =>
      simp only [decide_eq_false_iff_not] at he1
      cases hi2 with
      | none =>
        simp only []
        constructor
        · rintro ⟨h, _⟩; exact ⟨lo1, k - lo1, ⟨Nat.le_refl _, by omega⟩, ⟨by omega, trivial⟩, by omega⟩
        · rintro ⟨k1, k2, ⟨h1, _⟩, ⟨h2, _⟩, rfl⟩; exact ⟨by omega, trivial⟩
      | some e2 =>
        simp only [decide_eq_false_iff_not] at he2
        simp only []
        constructor
        · rintro ⟨h, h'⟩
          by_cases hc : k - lo1 ≤ e2 - 1
          · exact ⟨lo1, k - lo1, ⟨Nat.le_refl _, by omega⟩, ⟨by omega, by omega⟩, by omega⟩
          · exact ⟨k - (e2 - 1), e2 - 1, ⟨by omega, by omega⟩, ⟨by omega, by omega⟩, by omega⟩
        · rintro ⟨k1, k2, ⟨h1, h1'⟩, ⟨h2, h2'⟩, rfl⟩; exact ⟨by omega, by omega⟩

theorem ancOf_comp (fp : Bool) (lo1 : Nat) (hi1 : Option Nat) (lo2 : Nat) (hi2 : Option Nat)
    (S : Nat → Prop) :
    AncOf g fp lo1 hi1 (AncOf g fp lo2 hi2 S) =
      AncOf g fp (addGeneration lo1 hi1 lo2 hi2).1 (addGeneration lo1 hi1 lo2 hi2).2 S := by
  funext p
  apply propext
  simp only [AncOf]
  constructor
  · rintro ⟨y, ⟨x, hx, k2, hk2, hp2⟩, k1, hk1, hp1⟩
    exact ⟨x, hx, k1 + k2, (inGen_add ..).2 ⟨k1, k2, hk1, hk2, by omega⟩, hp2.trans hp1⟩
  · rintro ⟨x, hx, k, hk, hp⟩
    obtain ⟨k1, k2, hk1, hk2, rfl⟩ := (inGen_add ..).1 hk
    obtain ⟨y, h1, h2⟩ := hp.split
    exact ⟨y, ⟨x, hx, k2, hk2, h1⟩, k1, hk1, h2⟩

theorem foldGeneration_local : Local g vh foldGenerationF := by
  intro e e' hr h
  unfold foldGenerationF at h
  split at h
  · next hd lo2 hi2 fp2 lo1 hi1 fp1 =>
    split at h
    · next hfp =>
      subst hfp
      simp only [Option.some.injEq] at h
      subst h
      exact ⟨hr, by simp only [denote]; exact (ancOf_comp ..).symm⟩
    · simp at h
  · next r lo2 hi2 lo1 hi1 =>
    simp only [Option.some.injEq] at h
    subst h
    refine ⟨hr, ?_⟩
    funext p
    apply propext
    simp only [denote]
    constructor
    · rintro ⟨hall, x, hx, k, hk, hp⟩
      obtain ⟨k1, k2, hk1, hk2, rfl⟩ := (inGen_add ..).1 hk
      rw [Nat.add_comm] at hp
      obtain ⟨y, h1, h2⟩ := hp.split
      exact ⟨hall, y, ⟨all_trans hall ⟨k1, h1⟩, x, hx, k2, hk2, h2⟩, k1, hk1, h1⟩
    · rintro ⟨hall, y, ⟨_, x, hx, k2, hk2, h2⟩, k1, hk1, h1⟩
      exact ⟨hall, x, hx, k2 + k1, (inGen_add ..).2 ⟨k1, k2, hk1, hk2, rfl⟩, h1.trans h2⟩
  · simp at h

theorem foldGeneration_sound : Sound g vh (bottomUp foldGenerationF) :=
  bottomUp_sound foldGeneration_local

end

end JjModel.Revset
