import JjModel.Model.GitSync
/-! Lemmas about the push part of `Model/GitSync.lean` (C45): the per-ref effect of the
`pushOne` fold, and what `exportRefsToGit` / `setRemote` leave alone. -/
namespace JjModel.GitSync

theorem setAt_same {κ α : Type} [DecidableEq κ] (m : κ → α) (k : κ) (v : α) : setAt m k v k = v := by
  simp [setAt]

theorem setAt_other {κ α : Type} [DecidableEq κ] (m : κ → α) (k k' : κ) (v : α) (h : k' ≠ k) :
    setAt m k v k' = m k' := by
  simp [setAt, h]

/-! ### targets -/

theorem ofOpt_asNormal (t : Target) (h : hasConflict t = false) : ofOpt (asNormal t) = t := by
  match t, h with
  | [none], _ => rfl
  | [some c], _ => rfl
  | [], h => simp [hasConflict] at h
  | _ :: _ :: _, h => simp [hasConflict] at h

/-! ### view updates: what they leave alone -/

@[simp] theorem setRemote_locals (v : View) (k : Key) (r : RemoteRef) : (v.setRemote k r).locals = v.locals := by
  unfold View.setRemote; split <;> rfl

@[simp] theorem setRemote_gitRefs (v : View) (k : Key) (r : RemoteRef) : (v.setRemote k r).gitRefs = v.gitRefs := by
  unfold View.setRemote; split <;> rfl

theorem setRemote_remotes_other (v : View) (k k' : Key) (r : RemoteRef) (h : k' ≠ k) :
    (v.setRemote k r).remotes k' = v.remotes k' := by
  unfold View.setRemote; split <;> simp [setAt, h]

theorem setRemote_remotes_same (v : View) (k : Key) (r : RemoteRef) :
    (v.setRemote k r).remotes k =
      if isPresent r.target || (r.tracked && isPresent (v.locals k.1)) then r else RemoteRef.absentRef := by
  unfold View.setRemote; split <;> simp [setAt]

/-- the recorded target after `set_remote_bookmark` is the new target in every case (an absent
record that is dropped reads as absent) -/
theorem setRemote_target_same (v : View) (k : Key) (r : RemoteRef) :
    ((v.setRemote k r).remotes k).target = r.target := by
  rw [setRemote_remotes_same]
  split
  · rfl
  · next h =>
    have : isPresent r.target = false := by
      cases hp : isPresent r.target <;> simp_all
    simp only [isPresent, bne_eq_false_iff_eq] at this
    simp [RemoteRef.absentRef, this]

@[simp] theorem setGitRef_locals (v : View) (k : Key) (t : Target) : (v.setGitRef k t).locals = v.locals := rfl
@[simp] theorem setGitRef_remotes (v : View) (k : Key) (t : Target) : (v.setGitRef k t).remotes = v.remotes := rfl

theorem setGitRef_gitRefs_other (v : View) (k k' : Key) (t : Target) (h : k' ≠ k) :
    (v.setGitRef k t).gitRefs k' = v.gitRefs k' := by
  simp [View.setGitRef, setAt, h]

theorem setGitRef_gitRefs_same (v : View) (k : Key) (t : Target) : (v.setGitRef k t).gitRefs k = t := by
  simp only [View.setGitRef, setAt, if_true]
  split
  · rfl
  · next h =>
    simp only [isPresent, bne_iff_ne, ne_eq, Decidable.not_not] at h
    exact h.symm

/-! ### `exportRefsToGit` never touches local bookmarks or remote bookmark records -/

theorem stepDelete_view (s : ExportState) (e : Key × Nat) :
    (stepDelete s e).view.locals = s.view.locals ∧ (stepDelete s e).view.remotes = s.view.remotes := by
  unfold stepDelete; split <;> simp

theorem stepUpdate_view (s : ExportState) (e : Key × (Option Nat × Nat)) :
    (stepUpdate s e).view.locals = s.view.locals ∧ (stepUpdate s e).view.remotes = s.view.remotes := by
  unfold stepUpdate; split <;> simp

theorem foldl_stepDelete_view (l : List (Key × Nat)) (s : ExportState) :
    (l.foldl stepDelete s).view.locals = s.view.locals ∧ (l.foldl stepDelete s).view.remotes = s.view.remotes := by
  induction l generalizing s with
  | nil => simp
  | cons e l ih =>
    simp only [List.foldl_cons]
    have := ih (stepDelete s e); have := stepDelete_view s e
    grind

theorem foldl_stepUpdate_view (l : List (Key × (Option Nat × Nat))) (s : ExportState) :
    (l.foldl stepUpdate s).view.locals = s.view.locals ∧ (l.foldl stepUpdate s).view.remotes = s.view.remotes := by
  induction l generalizing s with
  | nil => simp
  | cons e l ih =>
    simp only [List.foldl_cons]
    have := ih (stepUpdate s e); have := stepUpdate_view s e
    grind

theorem exportRefsToGit_view (v : View) (git : Git) (r : RefsToExport) :
    (exportRefsToGit v git r).view.locals = v.locals ∧ (exportRefsToGit v git r).view.remotes = v.remotes := by
  unfold exportRefsToGit
  simp only
  have h1 := foldl_stepDelete_view r.toDelete ⟨v, git, r.failed⟩
  have h2 := foldl_stepUpdate_view r.toUpdate (r.toDelete.foldl stepDelete ⟨v, git, r.failed⟩)
  grind

/-! ### the `pushOne` fold, ref by ref -/

theorem pushOne_remoteRefs_other (remote : Nat) (s : PushRun) (u : PushUpdate) (n : Nat) (h : u.name ≠ n) :
    (pushOne remote s u).remoteRefs n = s.remoteRefs n := by
  unfold pushOne
  split <;> simp [setAt, Ne.symm h]

theorem pushOne_remoteRefs_same (remote : Nat) (s : PushRun) (u : PushUpdate) :
    (pushOne remote s u).remoteRefs u.name = (remoteCas (s.remoteRefs u.name) u.before u.after).2 := by
  unfold pushOne lease
  generalize hc : remoteCas (s.remoteRefs u.name) u.before u.after = c
  obtain ⟨st, pos⟩ := c
  cases st
  · simp [setAt]
  · -- rejected: the position component is the unchanged current value
    simp only
    unfold remoteCas at hc
    split at hc
    · simp at hc
    · split at hc
      · simp at hc
      · simp only [Prod.mk.injEq, true_and] at hc; exact hc

theorem foldl_pushOne_remoteRefs_other (remote : Nat) (ups : List PushUpdate) (s : PushRun) (n : Nat)
    (h : ∀ u ∈ ups, u.name ≠ n) : (ups.foldl (pushOne remote) s).remoteRefs n = s.remoteRefs n := by
  induction ups generalizing s with
  | nil => rfl
  | cons u ups ih =>
    simp only [List.foldl_cons]
    rw [ih _ (fun u' hu' => h u' (List.mem_cons_of_mem _ hu'))]
    exact pushOne_remoteRefs_other remote s u n (h u List.mem_cons_self)

theorem foldl_pushOne_remoteRefs_mem (remote : Nat) (ups : List PushUpdate) (s : PushRun)
    (hnd : (ups.map (·.name)).Nodup) (u : PushUpdate) (hu : u ∈ ups) :
    (ups.foldl (pushOne remote) s).remoteRefs u.name = (remoteCas (s.remoteRefs u.name) u.before u.after).2 := by
  induction ups generalizing s with
  | nil => cases hu
  | cons w ups ih =>
    simp only [List.map_cons, List.nodup_cons, List.mem_map, not_exists, not_and] at hnd
    simp only [List.foldl_cons]
    rcases List.mem_cons.mp hu with rfl | hu'
    · rw [foldl_pushOne_remoteRefs_other remote ups _ u.name (fun u' hu' heq => hnd.1 u' hu' heq)]
      exact pushOne_remoteRefs_same remote s u
    · rw [ih _ hnd.2 hu']
      have hne : w.name ≠ u.name := fun heq => hnd.1 u hu' heq.symm
      rw [pushOne_remoteRefs_other remote s w u.name hne]

theorem pushOne_pushed (remote : Nat) (s : PushRun) (u : PushUpdate) (n : Nat) :
    n ∈ (pushOne remote s u).pushed ↔
      n ∈ s.pushed ∨ (n = u.name ∧ (remoteCas (s.remoteRefs u.name) u.before u.after).1 = .pushed) := by
  unfold pushOne lease
  generalize remoteCas (s.remoteRefs u.name) u.before u.after = c
  obtain ⟨st, pos⟩ := c
  cases st <;> simp

theorem pushOne_rejected (remote : Nat) (s : PushRun) (u : PushUpdate) (n : Nat) :
    n ∈ (pushOne remote s u).rejected ↔
      n ∈ s.rejected ∨ (n = u.name ∧ (remoteCas (s.remoteRefs u.name) u.before u.after).1 = .rejected) := by
  unfold pushOne lease
  generalize remoteCas (s.remoteRefs u.name) u.before u.after = c
  obtain ⟨st, pos⟩ := c
  cases st <;> simp

/-- who ends up in `pushed` / `rejected`: exactly the updates whose compare-and-swap, evaluated on
the remote's position *before the push*, succeeded / failed -/
theorem foldl_pushOne_status (remote : Nat) (ups : List PushUpdate) (s : PushRun)
    (hnd : (ups.map (·.name)).Nodup) (n : Nat) :
    (n ∈ (ups.foldl (pushOne remote) s).pushed ↔
      n ∈ s.pushed ∨ ∃ u ∈ ups, u.name = n ∧ (remoteCas (s.remoteRefs n) u.before u.after).1 = .pushed) ∧
    (n ∈ (ups.foldl (pushOne remote) s).rejected ↔
      n ∈ s.rejected ∨ ∃ u ∈ ups, u.name = n ∧ (remoteCas (s.remoteRefs n) u.before u.after).1 = .rejected) := by
  induction ups generalizing s with
  | nil => simp
  | cons w ups ih =>
    simp only [List.map_cons, List.nodup_cons, List.mem_map, not_exists, not_and] at hnd
    simp only [List.foldl_cons]
    have ih' := ih (pushOne remote s w) hnd.2
    rw [ih'.1, ih'.2, pushOne_pushed, pushOne_rejected]
    have key : ∀ u ∈ ups, u.name = n → (pushOne remote s w).remoteRefs n = s.remoteRefs n := by
      intro u hu hun
      exact pushOne_remoteRefs_other remote s w n (fun heq => hnd.1 u hu (by rw [hun, heq]))
    constructor
    · constructor
      · rintro ((h | ⟨rfl, h⟩) | ⟨u, hu, hun, h⟩)
        · exact Or.inl h
        · exact Or.inr ⟨w, List.mem_cons_self, rfl, h⟩
        · rw [key u hu hun] at h; exact Or.inr ⟨u, List.mem_cons_of_mem _ hu, hun, h⟩
      · rintro (h | ⟨u, hu, hun, h⟩)
        · exact Or.inl (Or.inl h)
        · rcases List.mem_cons.mp hu with rfl | hu'
          · subst hun; exact Or.inl (Or.inr ⟨rfl, h⟩)
          · rw [← key u hu' hun] at h; exact Or.inr ⟨u, hu', hun, h⟩
    · constructor
      · rintro ((h | ⟨rfl, h⟩) | ⟨u, hu, hun, h⟩)
        · exact Or.inl h
        · exact Or.inr ⟨w, List.mem_cons_self, rfl, h⟩
        · rw [key u hu hun] at h; exact Or.inr ⟨u, List.mem_cons_of_mem _ hu, hun, h⟩
      · rintro (h | ⟨u, hu, hun, h⟩)
        · exact Or.inl (Or.inl h)
        · rcases List.mem_cons.mp hu with rfl | hu'
          · subst hun; exact Or.inl (Or.inr ⟨rfl, h⟩)
          · rw [← key u hu' hun] at h; exact Or.inr ⟨u, hu', hun, h⟩

end JjModel.GitSync
