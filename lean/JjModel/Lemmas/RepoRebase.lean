import JjModel.Lemmas.RepoResolve
/-!
  The rebase loop of `transform_commits` / `rebase_descendants_with_options`: processing order,
  what one iteration does, identity of the rebased commits.
-/
set_option linter.unusedSimpArgs false
namespace JjModel.Repo

/-! ### order_commits_for_rebase -/

/-- the parents of `c` that are themselves scheduled for rebasing -/
def visitParents (s : Store) (toVisit : List Nat) (c : Nat) : List Nat :=
  (parentsOf s c).filter toVisit.contains

/-- **`order_is_topological`**: when `order_commits_for_rebase` returns (its `panic!("graph has
    cycle")` is not reached), the result is a duplicate-free arrangement of exactly the commits to
    visit in which every commit stands *before* its to-be-visited parents — `transform_commits`
    pops from the end, so parents are rebased first. -/
theorem orderCommitsForRebase_spec {r : Repo} {toVisit order : List Nat}
    (h : r.orderCommitsForRebase toVisit = some order) :
    TopoRev (visitParents r.store toVisit) order ∧ (∀ x, x ∈ order ↔ x ∈ toVisit) := by
  unfold Repo.orderCommitsForRebase at h
  simp only [Option.map_eq_some_iff] at h
  obtain ⟨sorted, hs, rfl⟩ := h
  have hspec := topoOrderForward_spec (g := visitParents r.store toVisit) (U := toVisit) ?_ ?_ hs
  · refine ⟨hspec.1, fun x => ?_⟩
    rw [List.mem_reverse]
    constructor
    · intro hx; rcases hspec.2.2 x hx with h | h <;> exact h
    · exact hspec.2.1 x
  · intro sg k t ht
    unfold visitParents at ht
    obtain ⟨hp, hc⟩ := List.mem_filter.mp ht
    simp only [List.mem_flatMap, List.mem_append]
    have ht' : t ∈ toVisit := by simpa using hc
    exact ⟨t, hp, Or.inr (by simp [ht'])⟩
  · intro sg k t ht
    simp only [List.mem_flatMap, List.mem_append] at ht
    obtain ⟨p, _, h1 | h1⟩ := ht
    · cases hm : r.mapping.get p with
      | none => simp [hm] at h1
      | some rw =>
        simp only [hm] at h1
        have := (List.mem_filter.mp h1).2
        simp only [Bool.and_eq_true] at this
        simpa using this.1
    · by_cases hc : p ∈ toVisit
      · simp [hc] at h1; subst h1; exact hc
      · simp [hc] at h1

/-! ### identity of rebased commits -/

/-- commit `n` of store `s` is a rebased copy of `old`: same change id, same description,
    `old` as its only predecessor -/
def IsRebaseOf (s : Store) (n old : Nat) : Prop :=
  ∃ c co, s[n]? = some c ∧ s[old]? = some co ∧ old < n ∧
    c.change = co.change ∧ c.desc = co.desc ∧ c.preds = [old]

theorem IsRebaseOf.append {s : Store} {n old : Nat} (h : IsRebaseOf s n old) (t : Store) :
    IsRebaseOf (s ++ t) n old := by
  obtain ⟨c, co, h1, h2, h3, h4⟩ := h
  refine ⟨c, co, ?_, ?_, h3, h4⟩
  · rw [List.getElem?_append_left]; exact h1
    exact (List.getElem?_eq_some_iff.mp h1).1
  · rw [List.getElem?_append_left]; exact h2
    exact (List.getElem?_eq_some_iff.mp h2).1

/-- one call of `rebase_commit_with_options`: either the old commit is recorded as abandoned and
    nothing is written, or exactly one commit is appended which keeps change id and description,
    has `old` as its predecessor, and `old` is recorded as rewritten to it. -/
theorem rebaseCommit_spec (r : Repo) (old : Nat) (nps : List Nat) (opts : Options)
    (hold : old < r.store.length) :
    let res := r.rebaseCommit old nps opts
    (∃ p, res.2 = .abandoned old p ∧ res.1.store = r.store ∧
        ∃ ps, res.1.mapping = r.mapping.insert old (.abandoned ps)) ∨
    (res.2 = .rewritten old r.store.length ∧ (∃ c, res.1.store = r.store ++ [c]) ∧
        IsRebaseOf res.1.store r.store.length old ∧
        parentsOf res.1.store r.store.length = simplifyParents r.store opts nps ∧
        res.1.mapping = r.mapping.insert old (.rewritten r.store.length)) := by
  intro res
  have hres : res = r.rebaseCommit old nps opts := rfl
  unfold Repo.rebaseCommit at hres
  simp only at hres
  cases hab : abandonOnto r.store opts (simplifyParents r.store opts nps)
      (rebaseTree r.store old (simplifyParents r.store opts nps)).1
      (rebaseTree r.store old (simplifyParents r.store opts nps)).2 with
  | some p =>
    left
    rw [hab] at hres
    exact ⟨p, by rw [hres], by rw [hres], _, by rw [hres]⟩
  | none =>
    right
    rw [hab] at hres
    obtain ⟨co, hco⟩ : ∃ co, r.store[old]? = some co := ⟨r.store[old], by simp [hold]⟩
    rw [hres]
    unfold Repo.writeRewrite
    refine ⟨rfl, ⟨_, rfl⟩, ?_, by simp [parentsOf], rfl⟩
    refine ⟨{ parents := simplifyParents r.store opts nps, change := changeOf r.store old,
              desc := descOf r.store old,
              tree := (rebaseTree r.store old (simplifyParents r.store opts nps)).2, preds := [old] },
            co, by simp, ?_, hold, ?_, ?_, rfl⟩
    · show (r.store ++ _)[old]? = some co
      rw [List.getElem?_append_left hold]; exact hco
    · simp [changeOf, hco]
    · simp [descOf, hco]

theorem rebaseCommit_view (r : Repo) (old : Nat) (nps : List Nat) (opts : Options) :
    (r.rebaseCommit old nps opts).1.view.bookmarks = r.view.bookmarks ∧
    (r.rebaseCommit old nps opts).1.view.wc = r.view.wc := by
  unfold Repo.rebaseCommit
  simp only
  split
  · exact ⟨rfl, rfl⟩
  · unfold Repo.writeRewrite View.addHead; exact ⟨rfl, rfl⟩

theorem simplifyParents_subset {s : Store} {opts : Options} {nps : List Nat} {p : Nat}
    (h : p ∈ simplifyParents s opts nps) : p ∈ nps := by
  unfold simplifyParents at h
  by_cases hs : opts.simplify = true
  · simp only [hs, if_true] at h; exact (List.mem_filter.mp h).1
  · simp only [hs] at h; exact h

/-- the ids returned by the `rewritten_ids_with` loop are unmapped (no acyclicity needed) -/
theorem run_out_unmapped {m : Mapping} {pred : Rewrite → Bool} {xs : List Nat}
    {st st' : List Nat × List Nat} (hr : Run m pred xs st st') :
    (∀ y ∈ st.2, m.getIf pred y = none) → ∀ y ∈ st'.2, m.getIf pred y = none := by
  induction hr with
  | nil st => exact fun h => h
  | visited _ _ ih => exact ih
  | @leaf x xs v o st' _ hg _ ih =>
    intro h; apply ih
    intro y hy
    simp only [List.mem_append, List.mem_singleton] at hy
    rcases hy with hy | rfl
    · exact h y hy
    · exact hg
  | key _ _ _ _ ih1 ih2 => exact fun h => ih2 (ih1 h)

/-- **new parents are never rewritten/abandoned commits**: whatever `new_parents` returns
    contains no key of the mapping other than divergent ones. -/
theorem newParents_unmapped {m : Mapping} {olds ids : List Nat} (h : newParents m olds = some ids) :
    ∀ y ∈ ids, m.getIf (fun r => !r.isDivergent) y = none := by
  unfold newParents rewrittenIdsWith at h
  by_cases he : olds.isEmpty = true
  · simp [he] at h
  · simp only [he] at h
    have hl : rwLoop m (fun r => !r.isDivergent) (olds.length + mappingSize m + 1) (olds ++ []) [] [] = some ids := by
      rw [List.append_nil]
      generalize rwLoop m _ (olds.length + mappingSize m + 1) olds [] [] = res at h
      match res, h with
      | some [], h => simp at h
      | some (a :: l), h => simpa using h
    obtain ⟨st', n', _, hr, hfin⟩ := rwLoop_run _ olds [] [] [] ids hl
    have : st'.2 = ids := by
      match n', hfin with
      | n' + 1, hfin => simpa [rwLoop] using hfin
    subst this
    exact run_out_unmapped hr (by simp)

/-- what one iteration of the rebase loop does to a commit (`no_orphans`, step-local form):
    either the commit is left in place and then none of its parents is rewritten/abandoned, or it
    is abandoned onto its single new parent, or a copy is written whose parents are all
    un-rewritten at that moment, which keeps change id and description and has the old commit as
    its predecessor. -/
theorem transformStep_spec {opts : Options} {r r' : Repo} {old : Nat} {st : Option Step}
    (hold : old < r.store.length) (h : r.transformStep opts old = some (r', st)) :
    r'.view.bookmarks = r.view.bookmarks ∧ r'.view.wc = r.view.wc ∧
    ((st = none ∧ r' = r ∧
        ∀ p ∈ parentsOf r.store old, r.mapping.getIf (fun r => !r.isDivergent) p = none) ∨
     (∃ p, st = some (.abandoned old p) ∧ r'.store = r.store) ∨
     (st = some (.rewritten old r.store.length) ∧ (∃ c, r'.store = r.store ++ [c]) ∧
        IsRebaseOf r'.store r.store.length old ∧
        r'.mapping = r.mapping.insert old (.rewritten r.store.length) ∧
        ∀ p ∈ parentsOf r'.store r.store.length,
          r.mapping.getIf (fun r => !r.isDivergent) p = none)) := by
  unfold Repo.transformStep at h
  cases hnp : newParents r.mapping (parentsOf r.store old) with
  | none => simp [hnp] at h
  | some nps =>
    simp only [hnp] at h
    have hun := newParents_unmapped hnp
    by_cases hc : (nps != parentsOf r.store old) = true
    · simp only [hc, if_true, Option.some.injEq, Prod.mk.injEq] at h
      obtain ⟨h1, h2⟩ := h
      have hv := rebaseCommit_view r old nps opts
      rw [h1] at hv
      refine ⟨hv.1, hv.2, Or.inr ?_⟩
      have hs := rebaseCommit_spec r old nps opts hold
      simp only at hs
      rw [h1] at hs
      rcases hs with ⟨p, hp, hst, _⟩ | ⟨hp, hc', hi, hpar, hm⟩
      · left; exact ⟨p, by rw [← h2, hp], hst⟩
      · right
        refine ⟨by rw [← h2, hp], hc', hi, hm, ?_⟩
        intro p hp'
        rw [hpar] at hp'
        exact hun p (simplifyParents_subset hp')
    · have hc' : nps = parentsOf r.store old := by simpa using hc
      simp only [hc, Bool.false_eq_true, if_false, Option.some.injEq, Prod.mk.injEq] at h
      obtain ⟨h1, h2⟩ := h
      refine ⟨by rw [← h1], by rw [← h1], Or.inl ⟨h2.symm, h1.symm, ?_⟩⟩
      rw [← hc']; exact hun

/-- **`rebased_keeps_identity`** for the whole rebase loop: the store only grows, bookmarks and
    working copies are untouched by the loop, and every commit the loop reports as rewritten is a
    new commit with the old commit's change id and description and `predecessors = [old]`. -/
theorem transformLoop_spec {opts : Options} :
    ∀ (order : List Nat) (r : Repo) (steps : List Step) {r' : Repo} {steps' : List Step},
      (∀ o ∈ order, o < r.store.length) →
      Repo.transformLoop opts order r steps = some (r', steps') →
      (∃ t, r'.store = r.store ++ t) ∧ r'.view.bookmarks = r.view.bookmarks ∧
      r'.view.wc = r.view.wc ∧
      ∃ news, steps' = steps ++ news ∧ ∀ st ∈ news,
        (∀ o n, st = .rewritten o n → IsRebaseOf r'.store n o ∧ r.store.length ≤ n ∧ o ∈ order) ∧
        (∀ o p, st = .abandoned o p → o ∈ order) := by
  intro order
  induction order with
  | nil =>
    intro r steps r' steps' _ h
    simp only [Repo.transformLoop, Option.some.injEq, Prod.mk.injEq] at h
    obtain ⟨rfl, rfl⟩ := h
    exact ⟨⟨[], by simp⟩, rfl, rfl, [], by simp, by simp⟩
  | cons old rest ih =>
    intro r steps r' steps' hlt h
    unfold Repo.transformLoop at h
    have hold : old < r.store.length := hlt old (by simp)
    cases hts : r.transformStep opts old with
    | none => simp [hts] at h
    | some res =>
      obtain ⟨r1, st⟩ := res
      have hsp := transformStep_spec hold hts
      obtain ⟨hb, hw, hcase⟩ := hsp
      have hstore : ∃ t1, r1.store = r.store ++ t1 := by
        rcases hcase with ⟨_, h1, _⟩ | ⟨p, _, h1⟩ | ⟨_, ⟨c, h1⟩, _⟩
        · exact ⟨[], by rw [h1]; simp⟩
        · exact ⟨[], by rw [h1]; simp⟩
        · exact ⟨[c], h1⟩
      obtain ⟨t1, ht1⟩ := hstore
      have hlt1 : ∀ o ∈ rest, o < r1.store.length := by
        intro o ho; have := hlt o (by simp [ho]); rw [ht1]; simp; omega
      cases st with
      | none =>
        simp only [hts] at h
        obtain ⟨⟨t, ht⟩, g2, g3, news, g4, g5⟩ := ih r1 steps hlt1 h
        refine ⟨⟨t1 ++ t, by rw [ht, ht1]; simp⟩, by rw [g2, hb], by rw [g3, hw], news, g4, ?_⟩
        intro s hs
        obtain ⟨a1, a2⟩ := g5 s hs
        refine ⟨fun o n e => ?_, fun o p e => (by simp [a2 o p e])⟩
        obtain ⟨b1, b2, b3⟩ := a1 o n e
        exact ⟨b1, by rw [ht1] at b2; simp at b2; omega, by simp [b3]⟩
      | some s0 =>
        simp only [hts] at h
        obtain ⟨⟨t, ht⟩, g2, g3, news, g4, g5⟩ := ih r1 (steps ++ [s0]) hlt1 h
        refine ⟨⟨t1 ++ t, by rw [ht, ht1]; simp⟩, by rw [g2, hb], by rw [g3, hw], s0 :: news,
          by rw [g4]; simp, ?_⟩
        intro s hs
        simp only [List.mem_cons] at hs
        rcases hs with rfl | hs
        · rcases hcase with ⟨h0, _⟩ | ⟨p, h0, _⟩ | ⟨h0, _, hi, _⟩
          · cases h0
          · injection h0 with h0; subst h0
            exact ⟨fun o n e => (by cases e), fun o p' e => (by injection e with e1 _; simp [e1])⟩
          · injection h0 with h0; subst h0
            refine ⟨fun o n e => ?_, fun o p' e => (by cases e)⟩
            injection e with e1 e2; subst e1; subst e2
            exact ⟨by rw [ht]; exact hi.append t, Nat.le_refl _, by simp⟩
        · obtain ⟨a1, a2⟩ := g5 s hs
          refine ⟨fun o n e => ?_, fun o p e => (by simp [a2 o p e])⟩
          obtain ⟨b1, b2, b3⟩ := a1 o n e
          exact ⟨b1, by rw [ht1] at b2; simp at b2; omega, by simp [b3]⟩

end JjModel.Repo
