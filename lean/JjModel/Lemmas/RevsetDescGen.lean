import JjModel.Lemmas.RevsetDesc
/-!
  C19 lemmas, part 5: `descendants_filtered_by_generation` (the generation walk on the mirrored
  children index) and the `children` special case of the `DagRange` arm.
-/
namespace JjModel.Revset

theorem PathK.snoc {adj : Nat → List Nat} {k a b c : Nat} (h : PathK adj k a b) (hc : c ∈ adj b) :
    PathK adj (k + 1) a c := by
  have := h.trans (PathK.step hc (PathK.zero c))
  simpa [Nat.add_comm] using this

/-- candidates of the descendants walks are closed under "parent that still reaches a root" -/
theorem aur_closed (g : Graph) (hw : g.WF) (heads roots : List Nat) (hh : ∀ h ∈ heads, h < g.size)
    {c q r : Nat} (hc : c ∈ ancestorsUntilRoots g heads roots) (hq : q ∈ g.par c) (hr : r ∈ roots)
    (hp : Path g.par q r) : q ∈ ancestorsUntilRoots g heads roots := by
  rw [mem_ancestorsUntilRoots g hw heads roots hh] at hc ⊢
  obtain ⟨⟨m, hm, _⟩, h, hh', hpc⟩ := hc
  have := (minList_some hm).2 r hr
  have := hp.le hw.topo
  exact ⟨⟨m, hm, by omega⟩, h, hh', hpc.trans (Path.head hq (Path.refl _ _))⟩

theorem aur_lt (g : Graph) (hw : g.WF) (heads roots : List Nat) (hh : ∀ h ∈ heads, h < g.size)
    {c : Nat} (hc : c ∈ ancestorsUntilRoots g heads roots) : c < g.size := by
  rw [mem_ancestorsUntilRoots g hw heads roots hh] at hc
  obtain ⟨_, h, hh', hp⟩ := hc
  have := hp.le hw.topo
  have := hh h hh'
  omega

theorem mem_childrenIn (g : Graph) (cands : List Nat) (p c : Nat) :
    c ∈ childrenIn g cands p ↔ c ∈ cands ∧ p ∈ g.par c := by
  simp [childrenIn]

/-- the adjacency of `RevWalkDescendantsIndex`, on mirrored positions -/
def mirAdj (g : Graph) (cands : List Nat) : Nat → List Nat :=
  fun p' => (childrenIn g cands (g.size - 1 - p')).map fun p => g.size - 1 - p

theorem descendantsGen_eq (g : Graph) (lo : Nat) (hi : Option Nat) (heads roots : List Nat) :
    descendantsGen g lo hi heads roots =
      ((walkGen (mirAdj g (ancestorsUntilRoots g heads roots)) false (genEnd hi) g.size
          (((roots.filter (ancestorsUntilRoots g heads roots).contains).map fun r =>
            (g.size - 1 - r, fromFilterRange lo (genEnd hi)))) []).map
        fun p => g.size - 1 - p).reverse := rfl

theorem mem_mirAdj (g : Graph) (cands : List Nat) (p' q' : Nat) :
    q' ∈ mirAdj g cands p' ↔ ∃ c, c ∈ cands ∧ g.size - 1 - p' ∈ g.par c ∧ q' = g.size - 1 - c := by
  simp only [mirAdj, List.mem_map, mem_childrenIn]
  constructor
  · rintro ⟨c, ⟨h1, h2⟩, rfl⟩; exact ⟨c, h1, h2, rfl⟩
  · rintro ⟨c, h1, h2, rfl⟩; exact ⟨c, ⟨h1, h2⟩, rfl⟩

theorem topo_mirAdj (g : Graph) (hw : g.WF) (cands : List Nat) (hc : ∀ c ∈ cands, c < g.size) :
    Topo (mirAdj g cands) := by
  intro p' q' h
  rw [mem_mirAdj] at h
  obtain ⟨c, hcc, hpar, rfl⟩ := h
  have := hw.topo _ _ hpar
  have := hc c hcc
  omega

section
variable (g : Graph) (hw : g.WF) (heads roots : List Nat) (hh : ∀ h ∈ heads, h < g.size)
include hw hh

theorem mirPath_fwd :
    ∀ {k a b : Nat}, PathK (mirAdj g (ancestorsUntilRoots g heads roots)) k a b →
      ∀ r, r ∈ ancestorsUntilRoots g heads roots → a = g.size - 1 - r →
        ∃ x, x ∈ ancestorsUntilRoots g heads roots ∧ b = g.size - 1 - x ∧ PathK g.par k x r := by
  intro k a b h
  induction h with
  | zero a => intro r hr ha; exact ⟨r, hr, ha, .zero r⟩
  | @step k a q' b hq _ ih =>
    intro r hr ha
    rw [mem_mirAdj] at hq
    obtain ⟨c, hcc, hpar, rfl⟩ := hq
    have hrlt := aur_lt g hw heads roots hh hr
    have hra : g.size - 1 - a = r := by omega
    rw [hra] at hpar
    obtain ⟨x, hx, hb, hp⟩ := ih c hcc rfl
    exact ⟨x, hx, hb, hp.snoc hpar⟩

theorem mirPath_bwd :
    ∀ {k x r : Nat}, PathK g.par k x r → x ∈ ancestorsUntilRoots g heads roots → r ∈ roots →
      PathK (mirAdj g (ancestorsUntilRoots g heads roots)) k (g.size - 1 - r) (g.size - 1 - x) := by
  intro k x r h
  induction h with
  | zero x => intro _ _; exact .zero _
  | @step k x q r hq hp ih =>
    intro hx hr
    have hqC := aur_closed g hw heads roots hh hx hq hr ⟨k, hp⟩
    have h1 := ih hqC hr
    refine h1.snoc ?_
    rw [mem_mirAdj]
    have hqlt := aur_lt g hw heads roots hh hqC
    exact ⟨x, hx, by rw [show g.size - 1 - (g.size - 1 - q) = q by omega]; exact hq, rfl⟩

/-- `descendants_filtered_by_generation`: visible-from-`heads` descendants of the roots at a
generation (distance from a root) inside the range. -/
theorem mem_descendantsGen (lo : Nat) (hi : Option Nat) (p : Nat) :
    p ∈ descendantsGen g lo hi heads roots ↔
      (∃ h ∈ heads, Path g.par h p) ∧ ∃ r ∈ roots, ∃ k, inGen lo hi k ∧ PathK g.par k p r := by
  rw [descendantsGen_eq, List.mem_reverse, List.mem_map]
  have hCl : ∀ c ∈ ancestorsUntilRoots g heads roots, c < g.size :=
    fun c hc => aur_lt g hw heads roots hh hc
  have ht := topo_mirAdj g hw _ hCl
  constructor
  · rintro ⟨p', hp', rfl⟩
    rw [mem_walkGen ht false (genEnd_le hi)] at hp'
    obtain ⟨_, ⟨⟨a, I⟩, hit, _, k, hk, hT⟩, _⟩ := hp'
    simp only [List.mem_map, List.mem_filter, List.contains_iff_mem, Prod.mk.injEq] at hit
    obtain ⟨r, ⟨hr, hrC⟩, rfl, rfl⟩ := hit
    simp only [adjF_false] at hk hT
    obtain ⟨x, hx, rfl, hp⟩ := mirPath_fwd g hw heads roots hh hk r hrC rfl
    have hxlt := hCl x hx
    rw [show g.size - 1 - (g.size - 1 - x) = x by omega]
    have hle := hp.le hw.topo
    have hkl : k < U32MAX := by have := hw.size_le; omega
    refine ⟨?_, r, hr, k, (T_fromFilterRange lo hi hkl).1 hT, hp⟩
    exact ((mem_ancestorsUntilRoots g hw heads roots hh x).1 hx).2
  · rintro ⟨⟨h, hh', hph⟩, r, hr, k, hg, hp⟩
    have hle := hp.le hw.topo
    have hm : ∃ m, minList roots = some m ∧ m ≤ r := by
      cases hm : minList roots with
      | none => have := minList_none hm; subst this; simp at hr
      | some m => exact ⟨m, rfl, (minList_some hm).2 r hr⟩
    obtain ⟨m, hm, hmr⟩ := hm
    have hpC : p ∈ ancestorsUntilRoots g heads roots :=
      (mem_ancestorsUntilRoots g hw heads roots hh p).2 ⟨⟨m, hm, by omega⟩, h, hh', hph⟩
    have hrC : r ∈ ancestorsUntilRoots g heads roots :=
      (mem_ancestorsUntilRoots g hw heads roots hh r).2 ⟨⟨m, hm, hmr⟩, h, hh', hph.trans ⟨k, hp⟩⟩
    have hplt := hCl p hpC
    have hkl : k < U32MAX := by have := hw.size_le; omega
    refine ⟨g.size - 1 - p, ?_, by omega⟩
    rw [mem_walkGen ht false (genEnd_le hi)]
    refine ⟨by omega, ⟨(g.size - 1 - r, fromFilterRange lo (genEnd hi)), ?_, by simp only; omega, k, ?_,
      (T_fromFilterRange lo hi hkl).2 hg⟩, ?_⟩
    · simp only [List.mem_map, List.mem_filter, List.contains_iff_mem]
      exact ⟨r, ⟨hr, hrC⟩, rfl⟩
    · simp only [adjF_false]
      exact mirPath_bwd g hw heads roots hh hp hpC hr
    · rintro ⟨_, hx, _⟩; simp at hx

theorem desc_descendantsGen (lo : Nat) (hi : Option Nat) :
    Desc (descendantsGen g lo hi heads roots) := by
  rw [descendantsGen_eq, desc_reverse_asc]
  have hCl : ∀ c ∈ ancestorsUntilRoots g heads roots, c < g.size :=
    fun c hc => aur_lt g hw heads roots hh hc
  have ht := topo_mirAdj g hw _ hCl
  generalize hl : walkGen _ _ _ _ _ _ = l
  have hd : Desc l := by rw [← hl]; exact desc_walkGen ht false (genEnd_le hi) _ _ _
  have hlt : ∀ x ∈ l, x < g.size := by
    intro x hx; rw [← hl, mem_walkGen ht false (genEnd_le hi)] at hx; exact hx.1
  clear hl
  induction l with
  | nil => simp
  | cons a l ih =>
    rw [desc_cons] at hd
    simp only [List.map_cons, List.pairwise_cons, List.mem_map]
    refine ⟨?_, ih hd.2 (fun x hx => hlt x (by simp [hx]))⟩
    rintro _ ⟨b, hb, rfl⟩
    have := hd.1 b hb
    have := hlt a (by simp)
    omega

/-- the `generation_from_roots == 1..2` arm (children) -/
theorem mem_childrenArm (p : Nat) :
    p ∈ (ancestorsUntilRoots g heads roots).filter (fun p => (g.par p).any roots.contains) ↔
      (∃ h ∈ heads, Path g.par h p) ∧ ∃ r ∈ roots, ∃ k, inGen 1 (some 2) k ∧ PathK g.par k p r := by
  simp only [List.mem_filter, List.any_eq_true, List.contains_iff_mem]
  rw [mem_ancestorsUntilRoots g hw heads roots hh]
  constructor
  · rintro ⟨⟨_, h2⟩, r, hrp, hr⟩
    exact ⟨h2, r, hr, 1, ⟨Nat.le_refl _, by simp⟩, .step hrp (.zero r)⟩
  · rintro ⟨h2, r, hr, k, ⟨hk1, hk2⟩, hp⟩
    simp only at hk2
    have : k = 1 := by omega
    subst this
    cases hp with
    | step hq hz =>
      cases hz
      refine ⟨⟨?_, h2⟩, r, hq, hr⟩
      cases hm : minList roots with
      | none => have := minList_none hm; subst this; simp at hr
      | some m =>
        have := (minList_some hm).2 r hr
        have := hw.topo _ _ hq
        exact ⟨m, rfl, by omega⟩

end

end JjModel.Revset
