import JjModel.Lemmas.HeadsWF
/-! The transaction invariant `Pre` and the property `Inv` of C10, and their preservation by the view-level operations of `Model/Heads.lean`. -/
namespace JjModel.Heads

theorem WF.congr {r r' : Repo} (h1 : r'.parents = r.parents) (h2 : r'.ancs = r.ancs) (w : WF r) : WF r' := by
  obtain ⟨a, b, c, d, e, f, g, h, i, j⟩ := w
  constructor <;> simp only [Repo.size, Repo.parentsOf, h1, h2] at * <;> assumption

theorem isAnc_congr {r r' : Repo} (h2 : r'.ancs = r.ancs) : r'.isAnc = r.isAnc := by
  funext a b; simp [Repo.isAnc, h2]

/-- every add-term of every local bookmark and every working-copy commit is visible -/
def Covered (r : Repo) : Prop :=
  (∀ e ∈ r.bookmarks, ∀ x ∈ addedIds e.2, r.isVisible x = true) ∧
  (∀ e ∈ r.wcs, r.isVisible e.2 = true)

/-- invariant that holds *during* a transaction -/
structure Pre (r : Repo) : Prop where
  wf : WF r
  nodup : r.heads.Nodup
  range : ∀ h ∈ r.heads, h < r.size
  flag : r.normalized = true → Normal r.isAnc 0 r.heads
  cov : Covered r

/-- **the property**: what must hold of every committed view -/
structure Inv (r : Repo) : Prop where
  normal : Normal r.isAnc 0 r.heads
  cov : Covered r

theorem isVisible_iff (r : Repo) (x : Nat) : r.isVisible x = true ↔ ∃ h ∈ r.heads, r.isAnc x h = true := by
  simp [Repo.isVisible]

/-- visibility only depends on the tables and the head set -/
theorem covered_mono (r r' : Repo) (hb : r'.bookmarks = r.bookmarks) (hw : r'.wcs = r.wcs)
    (hv : ∀ x, r.isVisible x = true → r'.isVisible x = true) (h : Covered r) : Covered r' := by
  refine ⟨fun e he x hx => hv x (h.1 e (hb ▸ he) x hx), fun e he => hv _ (h.2 e (hw ▸ he))⟩

/-! ### `normalize_heads` -/

theorem pre_normalizeHeads (r : Repo) (p : Pre r) : Pre (normalizeHeads r) := by
  unfold normalizeHeads
  split
  · exact p
  · have hroot : ∀ x ∈ r.heads, r.isAnc 0 x = true := fun x hx => p.wf.root_anc x (p.range x hx)
    have hn := normal_normalizeHeadIds r.isAnc p.wf.po 0 r.heads hroot p.nodup
    refine ⟨WF.congr (r := r) rfl rfl p.wf, hn.nodup, ?_, fun _ => hn, ?_⟩
    · intro h hh
      by_cases hne : r.heads = []
      · simp only [hne, normalizeHeadIds_nil, List.mem_singleton] at hh
        subst hh; exact p.wf.size_pos
      · exact p.range h (normalizeHeadIds_subset r.isAnc 0 r.heads hne h hh)
    · refine covered_mono r _ rfl rfl ?_ p.cov
      intro x hx
      obtain ⟨h, hh, hxh⟩ := (isVisible_iff r x).mp hx
      obtain ⟨h', hh', hhh'⟩ := normalizeHeadIds_covers r.isAnc p.wf.po 0 r.heads hroot p.nodup h hh
      exact (isVisible_iff _ x).mpr ⟨h', hh', p.wf.po.trans _ _ _ hxh hhh'⟩

theorem normalized_normalizeHeads (r : Repo) : (normalizeHeads r).normalized = true := by
  unfold normalizeHeads; split <;> simp_all

/-- **commit**: a transaction whose intermediate invariant holds commits a view satisfying `Inv` -/
theorem inv_commit (r r' : Repo) (p : Pre r) (h : commitTx r = some r') : Inv r' ∧ Pre r' := by
  unfold commitTx at h
  split at h
  · simp at h; subst h
    have p' := pre_normalizeHeads r p
    exact ⟨⟨p'.flag (normalized_normalizeHeads r), p'.cov⟩, p'⟩
  · cases h

/-! ### `View::add_head`, `replace_heads`, `MutableRepo::add_head` -/

theorem pre_viewAddHead (r : Repo) (p : Pre r) (c : Nat) (hc : c < r.size) : Pre (viewAddHead r c) := by
  refine ⟨WF.congr (r := r) rfl rfl p.wf, nodup_setInsert c _ p.nodup, ?_, by simp [viewAddHead], ?_⟩
  · intro h hh
    rcases (mem_setInsert c h r.heads).mp hh with rfl | hh
    · exact hc
    · exact p.range h hh
  · refine covered_mono r (viewAddHead r c) rfl rfl ?_ p.cov
    intro x hx
    obtain ⟨h, hh, hxh⟩ := (isVisible_iff r x).mp hx
    exact (isVisible_iff _ x).mpr ⟨h, (mem_setInsert c h r.heads).mpr (Or.inr hh), hxh⟩

theorem viewAddHead_visible (r : Repo) (c : Nat) : (viewAddHead r c).isVisible c = true :=
  (isVisible_iff _ c).mpr ⟨c, (mem_setInsert c c r.heads).mpr (Or.inl rfl), by simp [Repo.isAnc]⟩

/-- `add_head` of *any* indexed commit — the root included — keeps the transaction invariant: the
incremental path is only taken for a commit with a parent (the guard in `add_heads`), which is all
`normal_fastHeads` needs. -/
theorem pre_addHead (r : Repo) (p : Pre r) (c : Nat) (hc : c < r.size) : Pre (addHead r c) := by
  unfold addHead
  dsimp only
  split
  · rename_i hguard
    have hguard' := Bool.and_eq_true_iff.mp hguard
    have hall := hguard'.2
    have hpne : r.parentsOf c ≠ [] := by
      intro he; have h1 := hguard'.1; rw [he] at h1; simp at h1
    have hsub : ∀ q ∈ r.parentsOf c, q ∈ r.heads := by
      intro q hq; have := List.all_eq_true.mp hall q hq; simpa using this
    have hheads : (replaceHeads r c (r.parentsOf c)).heads = fastHeads r.heads c (r.parentsOf c) := rfl
    refine ⟨WF.congr (r := r) rfl rfl p.wf, ?_, ?_, ?_, ?_⟩
    · rw [hheads]; exact nodup_foldl_setRemove _ _ (nodup_setInsert c _ p.nodup)
    · intro h hh
      rw [hheads, fastHeads, mem_foldl_setRemove, mem_setInsert] at hh
      rcases hh.1 with rfl | hh
      · exact hc
      · exact p.range h hh
    · intro hflag
      rw [hheads]
      have hn := p.flag hflag
      refine normal_fastHeads r.isAnc p.wf.po 0 r.heads c ?_ hn _ hpne hsub
        (p.wf.anc_parents c hc) (p.wf.parent_strict c hc)
      intro x hx
      rcases (mem_setInsert c x r.heads).mp hx with rfl | hx
      · exact p.wf.root_anc x hc
      · exact p.wf.root_anc x (p.range x hx)
    · refine covered_mono r (replaceHeads r c (r.parentsOf c)) rfl rfl ?_ p.cov
      intro x hx
      obtain ⟨h, hh, hxh⟩ := (isVisible_iff r x).mp hx
      rw [isVisible_iff, hheads]
      by_cases hps : h ∈ r.parentsOf c
      · refine ⟨c, ?_, ?_⟩
        · rw [fastHeads, mem_foldl_setRemove, mem_setInsert]
          exact ⟨Or.inl rfl, fun hcp => (p.wf.par_range c c hcp).2 rfl⟩
        · exact p.wf.po.trans _ _ _ hxh ((p.wf.anc_parents c hc h).mpr (Or.inr ⟨h, hps, p.wf.po.refl h⟩))
      · refine ⟨h, ?_, hxh⟩
        rw [fastHeads, mem_foldl_setRemove, mem_setInsert]
        exact ⟨Or.inr hh, hps⟩
  · exact pre_viewAddHead r p c hc

theorem addHead_visible (r : Repo) (p : Pre r) (c : Nat) (hc : c < r.size) : (addHead r c).isVisible c = true := by
  unfold addHead
  dsimp only
  split
  · rw [isVisible_iff]
    refine ⟨c, ?_, by simp [Repo.isAnc]⟩
    show c ∈ fastHeads r.heads c (r.parentsOf c)
    rw [fastHeads, mem_foldl_setRemove, mem_setInsert]
    exact ⟨Or.inl rfl, fun hcp => (p.wf.par_range c c hcp).2 rfl⟩
  · exact viewAddHead_visible r c


/-! ### new commits -/

theorem pushCommit_isAnc_old (r : Repo) (w : WF r) (ps : List Nat) (d : Bool) (a b : Nat) (hb : b < r.size) :
    (pushCommit r ps d).1.isAnc a b = r.isAnc a b := by
  simp only [Repo.isAnc, pushCommit_row r w ps d b, if_pos hb]

theorem pre_pushCommit (r : Repo) (p : Pre r) (ps : List Nat) (d : Bool) (hps : ps ≠ [])
    (hrange : ∀ q ∈ ps, q < r.size) : Pre (pushCommit r ps d).1 := by
  have hanc := pushCommit_isAnc_old r p.wf ps d
  have hvis : ∀ x, r.isVisible x = true → (pushCommit r ps d).1.isVisible x = true := by
    intro x hx
    obtain ⟨h, hh, hxh⟩ := (isVisible_iff r x).mp hx
    exact (isVisible_iff _ x).mpr ⟨h, hh, by rw [hanc x h (p.range h hh)]; exact hxh⟩
  refine ⟨pushCommit_wf r p.wf ps d hps hrange, p.nodup, ?_, ?_, covered_mono r _ rfl rfl hvis p.cov⟩
  · intro h hh; have := p.range h hh; rw [pushCommit_size]; omega
  · intro hflag
    have hn := p.flag hflag
    exact ⟨hn.nonempty, hn.nodup,
      fun x hx y hy hxy => hn.antichain x hx y hy (by rw [← hanc x y (p.range y hy)]; exact hxy),
      hn.rootAlone⟩

theorem pre_newCommit (r : Repo) (p : Pre r) (ps : List Nat) (d : Bool) (hps : ps ≠ [])
    (hrange : ∀ q ∈ ps, q < r.size) : Pre (newCommit r ps d).1 := by
  have p1 := pre_pushCommit r p ps d hps hrange
  have hsz := pushCommit_size r ps d
  exact pre_addHead _ p1 r.size (by rw [hsz]; omega)

theorem newCommit_size (r : Repo) (ps : List Nat) (d : Bool) : (newCommit r ps d).1.size = r.size + 1 := by
  have : (newCommit r ps d).1.parents = (pushCommit r ps d).1.parents := by
    simp only [newCommit, addHead]; split <;> rfl
  simp only [Repo.size, this]; exact pushCommit_size r ps d

theorem newCommit_snd (r : Repo) (ps : List Nat) (d : Bool) : (newCommit r ps d).2 = r.size := rfl

/-! ### mapping-only updates -/

theorem pre_recordRewrite (r : Repo) (p : Pre r) (old : Nat) (rw : Rewrite) : Pre (recordRewrite r old rw) :=
  ⟨WF.congr (r := r) rfl rfl p.wf, p.nodup, p.range, p.flag, p.cov⟩

theorem pre_abandonCommit (r : Repo) (p : Pre r) (c : Nat) : Pre (abandonCommit r c) :=
  pre_recordRewrite r p c _

theorem pre_rewriteCommit (r : Repo) (p : Pre r) (c : Nat) (hc0 : 0 < c) (hc : c < r.size) :
    Pre (rewriteCommit r c) := by
  unfold rewriteCommit
  exact pre_recordRewrite _ (pre_newCommit r p (r.parentsOf c) false (p.wf.par_nonempty c hc0 hc)
    (fun q hq => (p.wf.par_range c q hq).1)) c _

/-! ### bookmarks -/

theorem mem_mapInsert {β : Type} (k : Nat) (v : β) (m : List (Nat × β)) (e : Nat × β)
    (h : e ∈ mapInsert k v m) : e = (k, v) ∨ e ∈ m := by
  fun_induction mapInsert k v m <;> grind

theorem mem_mapErase {β : Type} (k : Nat) (m : List (Nat × β)) (e : Nat × β) (h : e ∈ mapErase k m) : e ∈ m :=
  (List.mem_filter.mp h).1

theorem foldl_viewAddHead_spec (ids : List Nat) (r : Repo) :
    ((ids.foldl viewAddHead r).parents = r.parents ∧ (ids.foldl viewAddHead r).ancs = r.ancs ∧
     (ids.foldl viewAddHead r).bookmarks = r.bookmarks ∧ (ids.foldl viewAddHead r).wcs = r.wcs) ∧
    (∀ x, x ∈ (ids.foldl viewAddHead r).heads ↔ x ∈ r.heads ∨ x ∈ ids) := by
  induction ids generalizing r with
  | nil => simp
  | cons a ids ih =>
    obtain ⟨⟨h1, h2, h3, h4⟩, h5⟩ := ih (viewAddHead r a)
    refine ⟨⟨h1, h2, h3, h4⟩, fun x => ?_⟩
    rw [List.foldl_cons, h5]
    simp only [viewAddHead, mem_setInsert, List.mem_cons]
    grind

theorem pre_foldl_viewAddHead (ids : List Nat) (r : Repo) (p : Pre r) (hr : ∀ x ∈ ids, x < r.size) :
    Pre (ids.foldl viewAddHead r) := by
  induction ids generalizing r with
  | nil => exact p
  | cons a ids ih =>
    exact ih _ (pre_viewAddHead r p a (hr a (by simp))) (fun x hx => hr x (by simp [hx]))

theorem pre_setLocalBookmark (r : Repo) (p : Pre r) (name : Nat) (t : Refs.Target)
    (ht : ∀ x ∈ addedIds t, x < r.size) : Pre (setLocalBookmark r name t) := by
  have p1 := pre_foldl_viewAddHead (addedIds t) r p ht
  obtain ⟨⟨e1, e2, e3, e4⟩, hheads⟩ := foldl_viewAddHead_spec (addedIds t) r
  have hvis : ∀ x ∈ addedIds t, ((addedIds t).foldl viewAddHead r).isVisible x = true := fun x hx =>
    (isVisible_iff _ x).mpr ⟨x, (hheads x).mpr (Or.inr hx), by simp [Repo.isAnc]⟩
  unfold setLocalBookmark
  dsimp only
  split
  · refine ⟨WF.congr (r := (addedIds t).foldl viewAddHead r) rfl rfl p1.wf, p1.nodup, p1.range, p1.flag, ?_, p1.cov.2⟩
    intro e he x hx
    exact p1.cov.1 e (mem_mapErase _ _ _ he) x hx
  · refine ⟨WF.congr (r := (addedIds t).foldl viewAddHead r) rfl rfl p1.wf, p1.nodup, p1.range, p1.flag, ?_, p1.cov.2⟩
    intro e he x hx
    rcases mem_mapInsert _ _ _ _ he with rfl | he
    · exact hvis x hx
    · exact p1.cov.1 e he x hx

/-! ### working copies -/

theorem pre_setWcCommit (r : Repo) (p : Pre r) (ws c : Nat) (hc : c = 0 ∨ r.isVisible c = true) :
    Pre (setWcCommit r ws c).1 := by
  unfold setWcCommit
  split
  · exact p
  · rename_i hc0
    refine ⟨WF.congr (r := r) rfl rfl p.wf, p.nodup, p.range, p.flag, p.cov.1, ?_⟩
    intro e he
    rcases mem_mapInsert _ _ _ _ he with rfl | he
    · rcases hc with h | h
      · exact absurd h hc0
      · exact h
    · exact p.cov.2 e he

theorem pre_maybeAbandonWc (r : Repo) (p : Pre r) (ws : Nat) : Pre (maybeAbandonWc r ws) := by
  unfold maybeAbandonWc
  split
  · exact p
  · dsimp only
    split
    · exact pre_abandonCommit _ (pre_normalizeHeads r p) _
    · exact pre_normalizeHeads r p

theorem maybeAbandonWc_size (r : Repo) (ws : Nat) : (maybeAbandonWc r ws).size = r.size := by
  unfold maybeAbandonWc
  split
  · rfl
  · dsimp only
    split <;> (simp only [abandonCommit, recordRewrite, normalizeHeads, Repo.size]; split <;> rfl)

/-- `edit` of any indexed commit; for the root commit `set_wc_commit` returns `Err` *after* the
`add_head`, and the state it leaves behind still satisfies the invariant. -/
theorem pre_edit (r : Repo) (p : Pre r) (ws c : Nat) (hc : c < r.size) : Pre (edit r ws c).1 := by
  unfold edit
  dsimp only
  have p1 := pre_maybeAbandonWc r p ws
  have hc1 : c < (maybeAbandonWc r ws).size := by rw [maybeAbandonWc_size]; exact hc
  have p2 := pre_addHead _ p1 c hc1
  exact pre_setWcCommit _ p2 ws c (Or.inr (addHead_visible _ p1 c hc1))

theorem pre_checkOut (r : Repo) (p : Pre r) (ws c : Nat) (hc : c < r.size) : Pre (checkOut r ws c).1 := by
  unfold checkOut
  have p1 := pre_newCommit r p [c] true (by simp) (by simpa using hc)
  have hsz := newCommit_size r [c] true
  exact pre_edit _ p1 ws r.size (by rw [hsz]; omega)

theorem pre_removeWorkspace (r : Repo) (p : Pre r) (ws : Nat) : Pre (removeWorkspace r ws) := by
  unfold removeWorkspace
  have p1 := pre_maybeAbandonWc r p ws
  exact ⟨WF.congr (r := maybeAbandonWc r ws) rfl rfl p1.wf, p1.nodup, p1.range, p1.flag, p1.cov.1,
    fun e he => p1.cov.2 e (mem_mapErase _ _ _ he)⟩

/-! ### `update_heads` -/

theorem nodup_setUnion (s t : List Nat) (h : s.Nodup) : (setUnion s t).Nodup := by
  unfold setUnion
  induction t generalizing s with
  | nil => exact h
  | cons a t ih => exact ih _ (nodup_setInsert a s h)

/-- number of ancestors: strictly decreases from a commit to each of its parents -/
def rowMeasure (r : Repo) (k : Nat) : Nat :=
  ((List.range r.size).filter fun a => (r.ancs.getD k []).contains a).length

theorem rowMeasure_parent_lt (r : Repo) (w : WF r) (c : Nat) (hc : c < r.size) (p : Nat)
    (hp : p ∈ r.parentsOf c) : rowMeasure r p < rowMeasure r c := by
  unfold rowMeasure
  apply length_filter_lt
  · intro a _ ha
    simp only [List.contains_iff_mem] at ha ⊢
    exact (w.row_spec c hc a).mpr (Or.inr ⟨p, hp, ha⟩)
  · refine ⟨c, by simpa using hc, by simpa using w.self_mem c hc, ?_⟩
    cases h : (r.ancs.getD p []).contains c
    · rfl
    · simp only [List.contains_iff_mem] at h
      have hpc : p ∈ r.ancs.getD c [] :=
        (w.row_spec c hc p).mpr (Or.inr ⟨p, hp, w.self_mem p (w.par_range c p hp).1⟩)
      exact absurd (w.row_antisymm c p h hpc).symm (w.par_range c p hp).2

/-- head candidates assembled by `update_heads` before normalisation -/
def updatedHeadIds (r : Repo) : List Nat :=
  let old := r.keys.filter r.isVisible
  let toAdd := (old.flatMap r.parentsOf).filter fun p => !old.contains p
  setUnion (r.keys.foldl (fun hs k => setRemove k hs) r.heads) toAdd

theorem updateHeads_eq (r : Repo) :
    updateHeads r = normalizeHeads { r with heads := updatedHeadIds r, normalized := false } := rfl

theorem mem_updatedHeadIds (r : Repo) (y : Nat) :
    y ∈ updatedHeadIds r ↔ (y ∈ r.heads ∧ y ∉ r.keys) ∨
      ((∃ k ∈ r.keys, r.isVisible k = true ∧ y ∈ r.parentsOf k) ∧ ¬ (y ∈ r.keys ∧ r.isVisible y = true)) := by
  simp only [updatedHeadIds, mem_setUnion, mem_foldl_setRemove, List.mem_filter, List.mem_flatMap,
    Bool.not_eq_eq_eq_not, Bool.not_true, List.contains_eq_mem, decide_eq_false_iff_not]
  constructor
  · rintro (h | ⟨⟨k, ⟨hk, hv⟩, hy⟩, hn⟩)
    · exact Or.inl h
    · exact Or.inr ⟨⟨k, hk, hv, hy⟩, hn⟩
  · rintro (h | ⟨⟨k, hk, hv, hy⟩, hn⟩)
    · exact Or.inl h
    · exact Or.inr ⟨⟨k, ⟨hk, hv⟩, hy⟩, hn⟩

/-- **`update_heads` keeps every visible commit that was not rewritten visible** -/
theorem updateHeads_covers (r : Repo) (w : WF r) (hrange : ∀ h ∈ r.heads, h < r.size)
    (x : Nat) (hx : r.isVisible x = true) (hxk : x ∉ r.keys) :
    ∃ h ∈ updatedHeadIds r, r.isAnc x h = true := by
  have key : ∀ n k, rowMeasure r k = n → r.isVisible k = true → k ∈ r.keys → r.isAnc x k = true →
      ∃ h ∈ updatedHeadIds r, r.isAnc x h = true := by
    intro n
    induction n using Nat.strongRecOn with
    | _ n ih =>
      intro k hn hkv hkk hxk'
      obtain ⟨h, hh, hkh⟩ := (isVisible_iff r k).mp hkv
      have hksz : k < r.size := w.anc_range k h hkh (hrange h hh)
      rcases (w.anc_parents k hksz x).mp hxk' with rfl | ⟨p, hp, hxp⟩
      · exact absurd hkk hxk
      · have hpv : r.isVisible p = true := (isVisible_iff r p).mpr ⟨h, hh,
          w.po.trans _ _ _ ((w.anc_parents k hksz p).mpr (Or.inr ⟨p, hp, w.po.refl p⟩)) hkh⟩
        by_cases hpk : p ∈ r.keys
        · exact ih _ (by rw [← hn]; exact rowMeasure_parent_lt r w k hksz p hp) p rfl hpv hpk hxp
        · exact ⟨p, (mem_updatedHeadIds r p).mpr (Or.inr ⟨⟨k, hkk, hkv, hp⟩, fun hc => hpk hc.1⟩), hxp⟩
  obtain ⟨h, hh, hxh⟩ := (isVisible_iff r x).mp hx
  by_cases hhk : h ∈ r.keys
  · exact key _ h rfl ((isVisible_iff r h).mpr ⟨h, hh, w.po.refl h⟩) hhk hxh
  · exact ⟨h, (mem_updatedHeadIds r h).mpr (Or.inl ⟨hh, hhk⟩), hxh⟩

/-- no bookmark add-term and no working-copy commit is a rewritten/abandoned commit -/
def RefsAvoidKeys (r : Repo) : Prop :=
  (∀ e ∈ r.bookmarks, ∀ x ∈ addedIds e.2, x ∉ r.keys) ∧ (∀ e ∈ r.wcs, e.2 ∉ r.keys)

/-- **`update_heads` re-establishes the invariant**, provided the reference-update phase left a
well-formed index, visible references, and no reference on a rewritten commit. -/
theorem pre_updateHeads (r : Repo) (w : WF r) (hnd : r.heads.Nodup) (hrange : ∀ h ∈ r.heads, h < r.size)
    (hcov : Covered r) (havoid : RefsAvoidKeys r) : Pre (updateHeads r) ∧ (updateHeads r).normalized = true := by
  rw [updateHeads_eq]
  refine ⟨pre_normalizeHeads _ ⟨WF.congr (r := r) rfl rfl w, ?_, ?_, by simp, ?_⟩, normalized_normalizeHeads _⟩
  · exact nodup_setUnion _ _ (nodup_foldl_setRemove _ _ hnd)
  · intro y hy
    rcases (mem_updatedHeadIds r y).mp hy with ⟨hy, _⟩ | ⟨⟨k, _, hkv, hyk⟩, _⟩
    · exact hrange y hy
    · exact (w.par_range k y hyk).1
  · have hv : ∀ x, r.isVisible x = true → x ∉ r.keys →
        ({ r with heads := updatedHeadIds r, normalized := false } : Repo).isVisible x = true := by
      intro x hx hxk
      obtain ⟨h, hh, hxh⟩ := updateHeads_covers r w hrange x hx hxk
      exact (isVisible_iff _ x).mpr ⟨h, hh, hxh⟩
    exact ⟨fun e he x hx => hv x (hcov.1 e he x hx) (havoid.1 e he x hx),
      fun e he => hv _ (hcov.2 e he) (havoid.2 e he)⟩



/-! ### soundness of the executable monitor (`checkRebaseRefsOk`) -/

theorem checkNodup_sound (l : List Nat) (h : checkNodup l = true) : l.Nodup := by
  induction l with
  | nil => simp
  | cons x xs ih =>
    simp only [checkNodup, Bool.and_eq_true, Bool.not_eq_eq_eq_not, Bool.not_true, List.contains_eq_mem,
      decide_eq_false_iff_not] at h
    exact List.nodup_cons.mpr ⟨h.1, ih h.2⟩

theorem checkCovered_sound (r : Repo) (h : checkCovered r = true) : Covered r := by
  simp only [checkCovered, Bool.and_eq_true, List.all_eq_true] at h
  exact ⟨fun e he x hx => h.1 e he x hx, fun e he => h.2 e he⟩

theorem checkRefsAvoidKeys_sound (r : Repo) (h : checkRefsAvoidKeys r = true) : RefsAvoidKeys r := by
  simp only [checkRefsAvoidKeys, Bool.and_eq_true, List.all_eq_true, Bool.not_eq_eq_eq_not, Bool.not_true,
    List.contains_eq_mem, decide_eq_false_iff_not] at h
  exact ⟨fun e he x hx => h.1 e he x hx, fun e he => h.2 e he⟩

theorem checkWF_sound (r : Repo) (h : checkWF r = true) : WF r := by
  simp only [checkWF, Bool.and_eq_true, decide_eq_true_eq, List.all_eq_true, List.mem_range,
    List.contains_eq_mem, bne_iff_ne, ne_eq, Bool.or_eq_true, beq_iff_eq, Bool.not_eq_eq_eq_not, Bool.not_true,
    List.isEmpty_eq_false_iff, decide_eq_false_iff_not] at h
  obtain ⟨⟨hpos, hsz⟩, hall⟩ := h
  have hrowge : ∀ c, r.size ≤ c → r.ancs.getD c [] = [] := fun c hc =>
    getD_nil_of_le _ _ _ (by rw [hsz]; exact hc)
  have hparge : ∀ c, r.size ≤ c → r.parentsOf c = [] := fun c hc => getD_nil_of_le _ _ _ hc
  have hrange : ∀ c a, a ∈ r.ancs.getD c [] → a < r.size := by
    intro c a ha
    by_cases hc : c < r.size
    · exact (hall c hc).1.1.1.1.1.1.2 a ha
    · rw [hrowge c (by omega)] at ha; cases ha
  have hparrange : ∀ c p, p ∈ r.parentsOf c → p < r.size ∧ p ≠ c := by
    intro c p hp
    by_cases hc : c < r.size
    · exact (hall c hc).1.1.1.1.2 p hp
    · rw [hparge c (by omega)] at hp; cases hp
  refine ⟨hpos, hsz, fun c hc => (hall c hc).1.1.1.1.1.1.1, hrange, fun c hc => (hall c hc).1.1.1.1.1.2,
    hparrange, ?_, ?_, ?_, ?_⟩
  · intro c h0 hc
    rcases (hall c hc).1.1.1.2 with h | h
    · omega
    · exact h
  · intro c hc x
    by_cases hx : x < r.size
    · have := (hall c hc).1.1.2 x hx
      constructor
      · intro hm
        have h1 : decide (x ∈ r.ancs.getD c []) = true := by simpa using hm
        rw [this] at h1
        simp only [Bool.or_eq_true, beq_iff_eq, List.any_eq_true, decide_eq_true_eq] at h1
        exact h1
      · intro hm
        have h1 : (x == c || (r.parentsOf c).any fun p => decide (x ∈ r.ancs.getD p [])) = true := by
          simp only [Bool.or_eq_true, beq_iff_eq, List.any_eq_true, decide_eq_true_eq]; exact hm
        rw [← this] at h1; simpa using h1
    · constructor
      · intro hm; exact absurd (hrange c x hm) hx
      · rintro (rfl | ⟨p, _, hxp⟩)
        · exact absurd hc hx
        · exact absurd (hrange p x hxp) hx
  · intro a b c hab hbc
    have hc : c < r.size := by
      by_cases hc : c < r.size
      · exact hc
      · rw [hrowge c (by omega)] at hbc; cases hbc
    exact (hall c hc).1.2 b hbc a hab
  · intro a b hab hba
    have hb : b < r.size := by
      by_cases hb : b < r.size
      · exact hb
      · rw [hrowge b (by omega)] at hab; cases hab
    rcases (hall b hb).2 a hab with h | h
    · exact absurd hba h
    · exact h

theorem checkRebaseRefsOk_sound (r : Repo) (h : checkRebaseRefsOk r = true) :
    WF (rebaseRefs r) ∧ (rebaseRefs r).heads.Nodup ∧ (∀ h ∈ (rebaseRefs r).heads, h < (rebaseRefs r).size) ∧
      Covered (rebaseRefs r) ∧ RefsAvoidKeys (rebaseRefs r) := by
  simp only [checkRebaseRefsOk, Bool.and_eq_true, List.all_eq_true, decide_eq_true_eq] at h
  obtain ⟨⟨⟨⟨h1, h2⟩, h3⟩, h4⟩, h5⟩ := h
  exact ⟨checkWF_sound _ h1, checkNodup_sound _ h2, h3, checkCovered_sound _ h4, checkRefsAvoidKeys_sound _ h5⟩

end JjModel.Heads
