import JjModel.Lemmas.ConflictLines
namespace JjModel.Conflicts
open JjModel.Generated

/-- the two EOL strings `detect_eol` can return -/
def IsEol (eol : Bytes) : Prop := eol = eolLF ∨ eol = eolCRLF

def NoCR (s : Bytes) : Prop := ∀ b ∈ s, b ≠ CR

theorem eol_cases {eol : Bytes} (h : IsEol eol) : ∃ e, eol = e ++ [LF] ∧ NoLF e ∧
    (∀ b ∈ (e ++ [LF]).head?, isAsciiWhitespace b = true) := by
  rcases h with rfl | rfl
  · exact ⟨[], rfl, NoLF_nil, by decide⟩
  · exact ⟨[CR], rfl, by decide, by decide⟩

theorem writeMarker_eq (k : MarkerKind) (n : Nat) (suffix : Bytes) :
    ∃ tail, writeMarker k n suffix = List.replicate n k.toByte ++ tail ∧
      (tail = [] ∨ tail = SP :: suffix) := by
  unfold writeMarker; split
  · exact ⟨[], by simp, Or.inl rfl⟩
  · exact ⟨SP :: suffix, rfl, Or.inr rfl⟩

theorem markerLine_Line (k : MarkerKind) (n : Nat) (suffix eol : Bytes) (hs : NoLF suffix)
    (he : IsEol eol) : Line (writeMarker k n suffix ++ eol) := by
  obtain ⟨e, rfl, hne, _⟩ := eol_cases he
  refine ⟨writeMarker k n suffix ++ e, by simp, NoLF_append ?_ hne⟩
  obtain ⟨tail, h, ht⟩ := writeMarker_eq k n suffix
  rw [h]; refine NoLF_append (NoLF_replicate (toByte_ne_LF k)) ?_
  rcases ht with rfl | rfl
  · exact NoLF_nil
  · exact NoLF_cons (by decide) hs

theorem parseMarker_markerLine (k : MarkerKind) (n : Nat) (hn : 1 ≤ n) (suffix eol : Bytes)
    (he : IsEol eol) : parseMarker (writeMarker k n suffix ++ eol) n = some k := by
  obtain ⟨e, rfl, _, hws⟩ := eol_cases he
  obtain ⟨tail, h, ht⟩ := writeMarker_eq k n suffix
  unfold parseMarker
  rw [h, List.append_assoc, parseMarkerAnyLen_run k n hn]
  · simp
  · rcases ht with rfl | rfl
    · simpa using hws
    · intro b hb; simp at hb; subst hb; decide

theorem parseMarker_marker_noeol (k : MarkerKind) (n : Nat) (hn : 1 ≤ n) (suffix : Bytes) :
    parseMarker (writeMarker k n suffix) n = some k := by
  obtain ⟨tail, h, ht⟩ := writeMarker_eq k n suffix
  unfold parseMarker
  rw [h, parseMarkerAnyLen_run k n hn]
  · simp
  · rcases ht with rfl | rfl
    · simp
    · intro b hb; simp at hb; subst hb; decide

theorem tw_dw_append (p : UInt8 → Bool) (l e : Bytes) (he : ∀ b ∈ e.head?, p b = false) :
    (l ++ e).takeWhile p = l.takeWhile p ∧ (l ++ e).dropWhile p = l.dropWhile p ++ e := by
  induction l with
  | nil =>
    cases e with
    | nil => simp
    | cons b e => simp [he b (by simp)]
  | cons a l ih =>
    by_cases h : p a
    · simp [h, ih]
    · simp [h]

theorem parseMarkerAnyLen_append_ws (l e : Bytes) (hl : l ≠ []) (hne : e ≠ [])
    (he : ∀ b ∈ e.head?, isAsciiWhitespace b = true) :
    parseMarkerAnyLen (l ++ e) = parseMarkerAnyLen l := by
  cases l with
  | nil => exact absurd rfl hl
  | cons first l' =>
    unfold parseMarkerAnyLen
    simp only [List.cons_append]
    cases hk : parseByte first with
    | none => rfl
    | some kind =>
      have hws := parseByte_not_ws hk
      have hp : ∀ b ∈ e.head?, (decide (b = first)) = false := by
        intro b hb; simp only [decide_eq_false_iff_not]; intro h
        have := he b hb; rw [h, hws] at this; cases this
      obtain ⟨h1, h2⟩ := tw_dw_append (fun b => decide (b = first)) (first :: l') e hp
      simp only [List.cons_append] at h1 h2
      simp only [h1, h2]
      cases hd : List.dropWhile (fun b => decide (b = first)) (first :: l') with
      | nil =>
        cases e with
        | nil => exact absurd rfl hne
        | cons b e => simp [he b (by simp)]
      | cons x xs => simp

theorem parseMarker_eol (len : Nat) {eol : Bytes} (he : IsEol eol) : parseMarker eol len = none := by
  rcases he with rfl | rfl
  · have : parseMarkerAnyLen eolLF = none := by decide
    simp [parseMarker, this]
  · have : parseMarkerAnyLen eolCRLF = none := by decide
    simp [parseMarker, this]

theorem EndsLF_append_eol (c : Bytes) {eol : Bytes} (he : IsEol eol) : EndsLF (c ++ eol) := by
  obtain ⟨e, rfl, _, _⟩ := eol_cases he
  rw [← List.append_assoc]; exact lacksEol_append_LF _

theorem ContentOK_pad {len : Nat} {c eol : Bytes} (h : ContentOK len c) (he : IsEol eol) :
    ContentOK len (c ++ eol) := by
  obtain ⟨ls, last, rfl, hls, hlast⟩ := lines_decomp c
  unfold ContentOK at h ⊢
  rw [linesWT_decomp ls last hls hlast] at h
  obtain ⟨e, rfl, hne, hws⟩ := eol_cases he
  have hline : Line (last ++ (e ++ [LF])) := ⟨last ++ e, by simp, NoLF_append hlast hne⟩
  have : linesWT (ls.flatten ++ last ++ (e ++ [LF])) = ls ++ [last ++ (e ++ [LF])] := by
    rw [List.append_assoc, linesWT_flatten_lines ls _ hls]
    have := linesWT_line (last ++ (e ++ [LF])) [] hline
    simp only [List.append_nil] at this
    rw [this]; simp [linesWT]
  rw [this]
  intro l hl
  rcases List.mem_append.mp hl with h1 | h1
  · exact h l (List.mem_append_left _ h1)
  · simp only [List.mem_singleton] at h1; subst h1
    by_cases hl0 : last = []
    · subst hl0; simpa using parseMarker_eol len he
    · unfold parseMarker
      rw [parseMarkerAnyLen_append_ws last (e ++ [LF]) hl0 (by simp) hws]
      have := h last (by simp [hl0])
      unfold parseMarker at this; exact this

/-- lines of a section: marker line, then the lines of the (EOL-terminated) contents -/
theorem linesWT_section (k : MarkerKind) (len : Nat) (label eol c rest : Bytes)
    (hl : NoLF label) (he : IsEol eol) (hc : EndsLF c) :
    linesWT (writeMarker k len label ++ eol ++ c ++ rest) =
      (writeMarker k len label ++ eol) :: (linesWT c ++ linesWT rest) := by
  rw [List.append_assoc, linesWT_line _ _ (markerLine_Line k len label eol hl he),
    linesWT_append_of_EndsLF hc]

theorem jj_content_add (len : Nat) (ls : List Bytes) (h : ∀ l ∈ ls, parseMarker l len = none)
    (rs as : List Bytes) (a : Bytes) (more : List Bytes) :
    parseJJLoop len .add rs (a :: as) (ls ++ more) =
      parseJJLoop len .add rs ((a ++ ls.flatten) :: as) more := by
  induction ls generalizing a with
  | nil => simp
  | cons l ls ih =>
    have hl := h l (by simp)
    have hls : ∀ l ∈ ls, parseMarker l len = none := fun x hx => h x (List.mem_cons_of_mem _ hx)
    simp only [List.cons_append, parseJJLoop, hl, extendLast, ih hls, List.flatten_cons,
      List.append_assoc]

theorem jj_content_remove (len : Nat) (ls : List Bytes) (h : ∀ l ∈ ls, parseMarker l len = none)
    (rs as : List Bytes) (a : Bytes) (more : List Bytes) :
    parseJJLoop len .remove (a :: rs) as (ls ++ more) =
      parseJJLoop len .remove ((a ++ ls.flatten) :: rs) as more := by
  induction ls generalizing a with
  | nil => simp
  | cons l ls ih =>
    have hl := h l (by simp)
    have hls : ∀ l ∈ ls, parseMarker l len = none := fun x hx => h x (List.mem_cons_of_mem _ hx)
    simp only [List.cons_append, parseJJLoop, hl, extendLast, ih hls, List.flatten_cons,
      List.append_assoc]

/-- what the theorems need to know about one term -/
structure TermOK (len : Nat) (t : Term) : Prop where
  label : NoLF t.label
  ends : EndsLF t.contents
  content : ContentOK len t.contents

theorem jj_sec_add (len : Nat) (hn : 1 ≤ len) (eol : Bytes) (he : IsEol eol) (t : Term)
    (ht : TermOK len t) (st : JJState) (rs as : List Bytes) (rest : Bytes) :
    parseJJLoop len st rs as (linesWT (writeSide len eol t ++ rest)) =
      parseJJLoop len .add rs (t.contents :: as) (linesWT rest) := by
  unfold writeSide
  rw [linesWT_section _ _ _ _ _ _ ht.label he ht.ends]
  simp only [parseJJLoop, parseMarker_markerLine _ len hn _ _ he]
  rw [jj_content_add len _ ht.content, linesWT_flatten]; simp

theorem jj_sec_remove (len : Nat) (hn : 1 ≤ len) (eol : Bytes) (he : IsEol eol) (t : Term)
    (ht : TermOK len t) (st : JJState) (rs as : List Bytes) (rest : Bytes) :
    parseJJLoop len st rs as (linesWT (writeBase len eol t ++ rest)) =
      parseJJLoop len .remove (t.contents :: rs) as (linesWT rest) := by
  unfold writeBase
  rw [linesWT_section _ _ _ _ _ _ ht.label he ht.ends]
  simp only [parseJJLoop, parseMarker_markerLine _ len hn _ _ he]
  rw [jj_content_remove len _ ht.content, linesWT_flatten]; simp

/-- the base/side sections written by the loop of `materialize_jj_style_conflict` for the
non-diff styles -/
def zipSecs (len : Nat) (eol : Bytes) : List Term → List Term → Bytes
  | r :: R, a :: A => writeBase len eol r ++ (writeSide len eol a ++ zipSecs len eol R A)
  | _, _ => []

theorem jj_zipSecs (len : Nat) (hn : 1 ≤ len) (eol : Bytes) (he : IsEol eol) (R A : List Term)
    (hR : ∀ t ∈ R, TermOK len t) (hA : ∀ t ∈ A, TermOK len t) (hlen : R.length = A.length)
    (rs as : List Bytes) (rest : Bytes) :
    parseJJLoop len .add rs as (linesWT (zipSecs len eol R A ++ rest)) =
      parseJJLoop len .add ((R.map (·.contents)).reverse ++ rs) ((A.map (·.contents)).reverse ++ as)
        (linesWT rest) := by
  induction R generalizing A rs as with
  | nil =>
    cases A with
    | nil => simp [zipSecs]
    | cons a A => simp at hlen
  | cons r R ih =>
    cases A with
    | nil => simp at hlen
    | cons a A =>
      have hr := hR r (by simp)
      have ha := hA a (by simp)
      simp only [zipSecs, List.append_assoc]
      rw [jj_sec_remove len hn eol he r hr, jj_sec_add len hn eol he a ha,
        ih A (fun t h => hR t (List.mem_cons_of_mem _ h)) (fun t h => hA t (List.mem_cons_of_mem _ h))
          (by simpa using hlen)]
      simp

theorem jjLoop_nodiff (diffFn : DiffFn) (style : Style) (len : Nat) (eol : Bytes)
    (hs : style.allowsDiff = false) (addTerms : List Term) (R : List Term) :
    ∀ (pre A : List Term) (i : Nat), addTerms = pre ++ A → pre.length = i + 1 → R.length = A.length →
    jjLoop diffFn style len eol addTerms R i true = (zipSecs len eol R A, true) := by
  induction R with
  | nil => intro pre A i _ _ h3; cases A <;> simp_all [jjLoop, zipSecs]
  | cons r R ih =>
    intro pre A i h1 h2 h3
    cases A with
    | nil => simp at h3
    | cons a A =>
      have hget : addTerms.getD (i + 1) default = a := by
        subst h1; simp [List.getD, ← h2]
      have := ih (pre ++ [a]) A (i + 1) (by simp [h1]) (by simp [h2]) (by simpa using h3)
      simp only [jjLoop, hs, if_true, Bool.not_false, hget, this, zipSecs]

theorem EndsLF_append {a b : Bytes} (ha : EndsLF a) (hb : EndsLF b) : EndsLF (a ++ b) := by
  rcases EndsLF_cases hb with rfl | ⟨b', rfl⟩
  · simpa using ha
  · rw [← List.append_assoc]; exact lacksEol_append_LF _

/-- no line is a conflict-start or conflict-end marker (of length ≥ `len`) -/
def NoStartEnd (len : Nat) (b : Bytes) : Prop :=
  ∀ l ∈ linesWT b, parseMarker l len ≠ some .conflictStart ∧ parseMarker l len ≠ some .conflictEnd

/-- what the outer loop of `parse_conflict` needs to know about a conflict body -/
structure BodyOK (len : Nat) (b : Bytes) : Prop where
  ends : EndsLF b
  inner : NoStartEnd len b

theorem BodyOK_nil (len : Nat) : BodyOK len [] := ⟨EndsLF_nil, by simp [NoStartEnd, linesWT]⟩

theorem BodyOK_append {len : Nat} {a b : Bytes} (ha : BodyOK len a) (hb : BodyOK len b) :
    BodyOK len (a ++ b) := by
  refine ⟨EndsLF_append ha.ends hb.ends, ?_⟩
  unfold NoStartEnd
  rw [linesWT_append_of_EndsLF ha.ends]
  intro l hl; rcases List.mem_append.mp hl with h | h
  · exact ha.inner l h
  · exact hb.inner l h

theorem BodyOK_content {len : Nat} {c : Bytes} (h1 : EndsLF c) (h2 : ContentOK len c) : BodyOK len c :=
  ⟨h1, fun l hl => by simp [h2 l hl]⟩

theorem BodyOK_markerLine (k : MarkerKind) (len : Nat) (hn : 1 ≤ len) (label eol : Bytes)
    (hl : NoLF label) (he : IsEol eol) (hk : k ≠ .conflictStart ∧ k ≠ .conflictEnd) :
    BodyOK len (writeMarker k len label ++ eol) := by
  have hline := markerLine_Line k len label eol hl he
  refine ⟨?_, ?_⟩
  · obtain ⟨body, h, _⟩ := hline; rw [h]; exact lacksEol_append_LF _
  · unfold NoStartEnd
    have := linesWT_line _ [] hline
    simp only [List.append_nil] at this
    rw [this]; simp only [linesWT, List.mem_singleton]
    intro l h; subst h
    rw [parseMarker_markerLine k len hn label eol he]
    simp only [ne_eq, Option.some.injEq]; exact hk

theorem BodyOK_writeSide {len : Nat} (hn : 1 ≤ len) {eol : Bytes} (he : IsEol eol) {t : Term}
    (ht : TermOK len t) : BodyOK len (writeSide len eol t) :=
  BodyOK_append (BodyOK_markerLine .add len hn _ _ ht.label he (by decide))
    (BodyOK_content ht.ends ht.content)

theorem BodyOK_writeBase {len : Nat} (hn : 1 ≤ len) {eol : Bytes} (he : IsEol eol) {t : Term}
    (ht : TermOK len t) : BodyOK len (writeBase len eol t) :=
  BodyOK_append (BodyOK_markerLine .remove len hn _ _ ht.label he (by decide))
    (BodyOK_content ht.ends ht.content)

theorem BodyOK_zipSecs {len : Nat} (hn : 1 ≤ len) {eol : Bytes} (he : IsEol eol) (R A : List Term)
    (hR : ∀ t ∈ R, TermOK len t) (hA : ∀ t ∈ A, TermOK len t) : BodyOK len (zipSecs len eol R A) := by
  induction R generalizing A with
  | nil => simpa [zipSecs] using BodyOK_nil len
  | cons r R ih =>
    cases A with
    | nil => simpa [zipSecs] using BodyOK_nil len
    | cons a A =>
      simp only [zipSecs]
      exact BodyOK_append (BodyOK_writeBase hn he (hR r (by simp)))
        (BodyOK_append (BodyOK_writeSide hn he (hA a (by simp)))
          (ih A (fun t h => hR t (List.mem_cons_of_mem _ h)) (fun t h => hA t (List.mem_cons_of_mem _ h))))

/-- the snapshot-style body parses back to its terms -/
theorem parseJJ_snapshot (len : Nat) (hn : 1 ≤ len) (eol : Bytes) (he : IsEol eol) (a0 : Term)
    (R A : List Term) (h0 : TermOK len a0) (hR : ∀ t ∈ R, TermOK len t) (hA : ∀ t ∈ A, TermOK len t)
    (hlen : R.length = A.length) :
    parseJJ (writeSide len eol a0 ++ zipSecs len eol R A) len =
      interleave (a0.contents :: A.map (·.contents)) (R.map (·.contents)) := by
  unfold parseJJ
  rw [jj_sec_add len hn eol he a0 h0]
  have := jj_zipSecs len hn eol he R A hR hA hlen [] [a0.contents] []
  simp only [List.append_nil] at this
  rw [this]
  simp [parseJJLoop, linesWT, hlen]

theorem parseConflictHunk_jj_add (len : Nat) (hn : 1 ≤ len) (eol : Bytes) (he : IsEol eol) (t : Term)
    (ht : TermOK len t) (rest : Bytes) :
    parseConflictHunk (writeSide len eol t ++ rest) len = parseJJ (writeSide len eol t ++ rest) len := by
  unfold parseConflictHunk
  have : linesWT (writeSide len eol t ++ rest) =
      (writeMarker .add len t.label ++ eol) :: (linesWT t.contents ++ linesWT rest) := by
    unfold writeSide; exact linesWT_section _ _ _ _ _ _ ht.label he ht.ends
  rw [this]
  simp [parseMarker_markerLine _ len hn _ _ he]

theorem parseLoop_append (n len : Nat) (st : PState) (l1 l2 : List Bytes) :
    parseLoop n len st (l1 ++ l2) = parseLoop n len (parseLoop n len st l1) l2 := by
  induction l1 generalizing st with
  | nil => rfl
  | cons l l1 ih => simp [parseLoop, ih]

/-- lines without markers outside a conflict just extend the resolved slice -/
theorem parseLoop_plain (n len : Nat) (ls : List Bytes) (h : ∀ l ∈ ls, parseMarker l len = none)
    (hunks : List (List Bytes)) (pre : Bytes) :
    parseLoop n len { hunks, pre, cs := none } ls = { hunks, pre := pre ++ ls.flatten, cs := none } := by
  induction ls generalizing pre with
  | nil => simp [parseLoop]
  | cons l ls ih =>
    have hl := h l (by simp)
    simp only [parseLoop, parseStep, hl]
    rw [ih (fun x hx => h x (List.mem_cons_of_mem _ hx))]; simp

/-- lines that are no start/end markers inside an open conflict extend its body -/
theorem parseLoop_body (n len : Nat) (ls : List Bytes)
    (h : ∀ l ∈ ls, parseMarker l len ≠ some .conflictStart ∧ parseMarker l len ≠ some .conflictEnd)
    (hunks : List (List Bytes)) (pre sl body : Bytes) :
    parseLoop n len { hunks, pre, cs := some (sl, body) } ls =
      { hunks, pre, cs := some (sl, body ++ ls.flatten) } := by
  induction ls generalizing body with
  | nil => simp [parseLoop]
  | cons l ls ih =>
    have hl := h l (by simp)
    have : parseStep n len { hunks, pre, cs := some (sl, body) } l =
        { hunks, pre, cs := some (sl, body ++ l) } := by
      unfold parseStep
      cases hk : parseMarker l len with
      | none => rfl
      | some k => cases k <;> simp_all
    simp only [parseLoop, this]
    rw [ih (fun x hx => h x (List.mem_cons_of_mem _ hx))]; simp

theorem endsWith_LF_of_Line {l : Bytes} (h : Line l) : endsWith l [LF] = true := by
  obtain ⟨body, rfl, _⟩ := h
  simp [endsWith]

theorem endsWith_LF_of_NoLF {l : Bytes} (h : NoLF l) : endsWith l [LF] = false := by
  rcases List.eq_nil_or_concat l with rfl | ⟨l', b, rfl⟩
  · simp [endsWith]
  · have hb : b ≠ LF := h b (by simp)
    rw [Bool.eq_false_iff]; intro hs
    simp only [endsWith, List.concat_eq_append, List.isSuffixOf_iff_suffix] at hs
    obtain ⟨t, ht⟩ := hs
    have := congrArg List.getLast? ht
    simp at this; exact hb this.symm

/-- one complete conflict whose end-marker line is terminated -/
theorem parseLoop_conflict (n len : Nat) (hunks : List (List Bytes)) (pre sl B el rest : Bytes)
    (hsl : Line sl) (hslm : parseMarker sl len = some .conflictStart) (hB : BodyOK len B)
    (hel : Line el) (helm : parseMarker el len = some .conflictEnd)
    (hn : numSides (parseConflictHunk B len) = n) :
    parseLoop n len { hunks, pre, cs := none } (linesWT (sl ++ (B ++ (el ++ rest)))) =
      parseLoop n len
        { hunks := (if pre.isEmpty then hunks else hunks ++ [[pre]]) ++ [parseConflictHunk B len],
          pre := [], cs := none } (linesWT rest) := by
  rw [linesWT_line _ _ hsl, linesWT_append_of_EndsLF hB.ends, linesWT_line _ _ hel]
  simp only [parseLoop]
  have h1 : parseStep n len { hunks, pre, cs := none } sl = { hunks, pre, cs := some (sl, []) } := by
    simp [parseStep, hslm]
  rw [h1, parseLoop_append, parseLoop_body n len _ hB.inner, linesWT_flatten]
  simp only [parseLoop, List.nil_append]
  congr 1
  simp [parseStep, helm, hn, endsWith_LF_of_Line hel]

/-- the final conflict when its end-marker line has no EOL (EOL "spread" to the sides) -/
theorem parseLoop_conflict_noeol (n len : Nat) (hunks : List (List Bytes)) (pre sl B el : Bytes)
    (hsl : Line sl) (hslm : parseMarker sl len = some .conflictStart) (hB : BodyOK len B)
    (hel : NoLF el) (hel0 : el ≠ []) (helm : parseMarker el len = some .conflictEnd)
    (hn : numSides (parseConflictHunk B len) = n) :
    parseLoop n len { hunks, pre, cs := none } (linesWT (sl ++ (B ++ el))) =
        { hunks := (if pre.isEmpty then hunks else hunks ++ [[pre]]) ++
            [(parseConflictHunk B len).map (popSeparator (endsWith sl [CR, LF]))],
          pre := [], cs := none } := by
  rw [linesWT_line _ _ hsl, linesWT_append_of_EndsLF hB.ends, linesWT_noLF _ hel hel0]
  simp only [parseLoop]
  have h1 : parseStep n len { hunks, pre, cs := none } sl = { hunks, pre, cs := some (sl, []) } := by
    simp [parseStep, hslm]
  rw [h1, parseLoop_append, parseLoop_body n len _ hB.inner, linesWT_flatten]
  simp [parseLoop, parseStep, helm, hn, endsWith_LF_of_NoLF hel]

/-! ### interleaved lists -/

theorem adds_removes_cons {α : Type} (a : α) (l : List α) :
    adds (a :: l) = a :: removes l ∧ removes (a :: l) = adds l := by
  induction l generalizing a with
  | nil => simp [adds, removes]
  | cons b l ih => simp [adds, removes, (ih b).1, (ih b).2]

theorem adds_removes_length {α : Type} (l : List α) :
    (adds l).length = (l.length + 1) / 2 ∧ (removes l).length = l.length / 2 := by
  induction l with
  | nil => simp [adds, removes]
  | cons a l ih =>
    rw [(adds_removes_cons a l).1, (adds_removes_cons a l).2]
    simp only [List.length_cons, ih.1, ih.2, and_true]; clear ih; generalize l.length = n; omega

theorem adds_removes_map {α β : Type} (f : α → β) (l : List α) :
    adds (l.map f) = (adds l).map f ∧ removes (l.map f) = (removes l).map f := by
  induction l with
  | nil => simp [adds, removes]
  | cons a l ih =>
    simp only [List.map_cons]
    rw [(adds_removes_cons (f a) _).1, (adds_removes_cons (f a) _).2, (adds_removes_cons a l).1,
      (adds_removes_cons a l).2, ih.1, ih.2]; simp

theorem interleave_even : ∀ (l : List Bytes), l.length % 2 = 0 → ∀ x : Bytes,
    interleave (x :: removes l) (adds l) = x :: l
  | [], _, x => by simp [adds, removes, interleave]
  | [_], h, _ => by simp at h
  | r :: a :: l, h, x => by
    have := interleave_even l (by simp at h; omega) a
    simp [adds, removes, interleave, this]

/-! ### bytes without line terminators -/

/-- neither `\n` nor `\r` -/
def Clean (s : Bytes) : Prop := ∀ b ∈ s, b ≠ LF ∧ b ≠ CR

instance (s : Bytes) : Decidable (Clean s) := by unfold Clean; infer_instance

theorem Clean.noLF {s : Bytes} (h : Clean s) : NoLF s := fun b hb => (h b hb).1

theorem Clean_nil : Clean [] := by simp [Clean]

theorem Clean_append {a b : Bytes} (ha : Clean a) (hb : Clean b) : Clean (a ++ b) := by
  intro x hx; rcases List.mem_append.mp hx with h | h
  · exact ha x h
  · exact hb x h

theorem Clean_cons {a : UInt8} {b : Bytes} (ha : a ≠ LF ∧ a ≠ CR) (hb : Clean b) : Clean (a :: b) := by
  intro x hx; rcases List.mem_cons.mp hx with h | h
  · exact h ▸ ha
  · exact hb x h

theorem digitByte_clean (d : Nat) : digitByte d ≠ LF ∧ digitByte d ≠ CR := by
  unfold digitByte; split <;> decide

theorem Clean_decAux (fuel n : Nat) (acc : Bytes) (h : Clean acc) : Clean (decAux fuel n acc) := by
  induction fuel generalizing n acc with
  | zero => simpa [decAux] using h
  | succ fuel ih =>
    simp only [decAux]
    split
    · exact Clean_cons (digitByte_clean _) h
    · exact ih _ _ (Clean_cons (digitByte_clean _) h)

theorem Clean_dec (n : Nat) : Clean (dec n) := Clean_decAux _ _ _ Clean_nil

/-! ### `build_hunk_sides` -/

def LabelsOK (labels : List Bytes) : Prop := ∀ l ∈ labels, Clean l

instance (labels : List Bytes) : Decidable (LabelsOK labels) := by unfold LabelsOK; infer_instance

theorem LabelsOK_fromVec {labels : List Bytes} (h : LabelsOK labels) : LabelsOK (labelsFromVec labels) := by
  unfold labelsFromVec; split
  · intro l hl; simp at hl; subst hl; exact Clean_nil
  · exact h

theorem Clean_getD_label {labels : List Bytes} (h : LabelsOK labels) (i : Nat) (d : Bytes) (hd : Clean d) :
    Clean ((nonEmpty? labels[i]?).getD d) := by
  cases hi : labels[i]? with
  | none => simpa [nonEmpty?] using hd
  | some l =>
    have hl : Clean l := h l (List.mem_of_getElem? hi)
    simp only [nonEmpty?]; split <;> simp [hd, hl]

theorem Clean_defaultLabel {labels : List Bytes} (h : LabelsOK labels) (nb p : Nat) :
    Clean (defaultLabel labels nb p) := by
  unfold defaultLabel getAddLabel getRemoveLabel
  split
  · exact Clean_getD_label h _ _ (Clean_append (by decide) (Clean_dec _))
  · refine Clean_getD_label h _ _ ?_
    split
    · decide
    · exact Clean_append (by decide) (Clean_dec _)

theorem mkTerm_label_clean {labels : List Bytes} (h : LabelsOK labels) (nb p : Nat) (c : Bytes) :
    Clean (mkTerm labels nb p c).label := by
  unfold mkTerm; simp only
  split
  · exact Clean_append (Clean_defaultLabel h nb p) (by decide)
  · exact Clean_defaultLabel h nb p

theorem buildSidesFrom_spec {labels : List Bytes} (h : LabelsOK labels) (nb : Nat) (p : Nat) (hunk : List Bytes) :
    (buildSidesFrom labels nb p hunk).map (·.contents) = hunk ∧
    ∀ t ∈ buildSidesFrom labels nb p hunk, Clean t.label := by
  induction hunk generalizing p with
  | nil => simp [buildSidesFrom]
  | cons c hunk ih =>
    simp only [buildSidesFrom, List.map_cons, List.mem_cons, forall_eq_or_imp]
    exact ⟨by simp [(ih (p + 1)).1, mkTerm], mkTerm_label_clean h nb p c, (ih (p + 1)).2⟩

theorem buildHunkSides_spec {labels : List Bytes} (h : LabelsOK labels) (hunk : List Bytes) :
    (buildHunkSides hunk labels).map (·.contents) = hunk ∧
    ∀ t ∈ buildHunkSides hunk labels, Clean t.label :=
  buildSidesFrom_spec h _ _ _

/-! ### removing the separator EOL again -/

theorem popSeparator_crlf (t : Bytes) : popSeparator true (t ++ eolCRLF) = t := by
  have : t ++ eolCRLF = (t ++ [CR]) ++ [LF] := by simp [eolCRLF]
  rw [this]; simp [popSeparator, popIf]

theorem popSeparator_lf (t : Bytes) : popSeparator false (t ++ eolLF) = t := by
  simp [popSeparator, popIf, eolLF]

theorem toByte_clean (k : MarkerKind) : k.toByte ≠ LF ∧ k.toByte ≠ CR := by
  cases k <;> decide

theorem Clean_writeMarker (k : MarkerKind) (len : Nat) {s : Bytes} (hs : Clean s) :
    Clean (writeMarker k len s) := by
  have hrep : Clean (List.replicate len k.toByte) := by
    intro b hb; rw [List.mem_replicate] at hb; exact hb.2 ▸ toByte_clean k
  unfold writeMarker; split
  · exact hrep
  · exact Clean_append hrep (Clean_cons (by decide) hs)

theorem writeMarker_ne_nil (k : MarkerKind) (len : Nat) (hn : 1 ≤ len) (s : Bytes) :
    writeMarker k len s ≠ [] := by
  obtain ⟨m, rfl⟩ : ∃ m, len = m + 1 := ⟨len - 1, by omega⟩
  unfold writeMarker; split <;> simp [List.replicate_succ]

theorem endsWith_crlf_lf {w : Bytes} (hw : Clean w) : endsWith (w ++ eolLF) [CR, LF] = false := by
  rw [Bool.eq_false_iff]; intro hs
  simp only [endsWith, eolLF, List.isSuffixOf_iff_suffix] at hs
  obtain ⟨t, ht⟩ := hs
  have h2 : (t ++ [CR]) ++ [LF] = w ++ [LF] := by simpa using ht
  have h3 := List.append_cancel_right h2
  exact (hw CR (by rw [← h3]; simp)).2 rfl

theorem endsWith_crlf_crlf (w : Bytes) : endsWith (w ++ eolCRLF) [CR, LF] = true := by
  simp [endsWith, eolCRLF]

theorem map_popSeparator {w eol : Bytes} (hw : Clean w) (he : IsEol eol) (h : List Bytes) :
    (h.map (· ++ eol)).map (popSeparator (endsWith (w ++ eol) [CR, LF])) = h := by
  rcases he with rfl | rfl
  · rw [endsWith_crlf_lf hw, List.map_map]
    have : (popSeparator false ∘ fun x => x ++ eolLF) = id := by funext x; simp [popSeparator_lf]
    rw [this]; simp
  · rw [endsWith_crlf_crlf, List.map_map]
    have : (popSeparator true ∘ fun x => x ++ eolCRLF) = id := by funext x; simp [popSeparator_crlf]
    rw [this]; simp

/-- a rendered conflict whose end marker is followed by the EOL parses back to its terms -/
theorem conflict_roundtrip_eol (n len : Nat) (hn : 1 ≤ len) (eol : Bytes) (he : IsEol eol)
    (s1 s2 B rest : Bytes) (h : List Bytes) (hs1 : Clean s1) (hs2 : Clean s2) (hB : BodyOK len B)
    (hp : parseConflictHunk B len = h) (hnum : numSides h = n)
    (hunks : List (List Bytes)) (pre : Bytes) :
    parseLoop n len { hunks, pre, cs := none }
        (linesWT (writeMarker .conflictStart len s1 ++ eol ++
          (B ++ (writeMarker .conflictEnd len s2 ++ eol ++ rest)))) =
      parseLoop n len
        { hunks := (if pre.isEmpty then hunks else hunks ++ [[pre]]) ++ [h], pre := [], cs := none }
        (linesWT rest) := by
  rw [parseLoop_conflict n len hunks pre _ B _ rest
    (markerLine_Line _ len s1 eol hs1.noLF he) (parseMarker_markerLine _ len hn s1 eol he) hB
    (markerLine_Line _ len s2 eol hs2.noLF he) (parseMarker_markerLine _ len hn s2 eol he)
    (by rw [hp]; exact hnum), hp]

/-- the last conflict, rendered with the EOL spread to the sides and no EOL after the end marker -/
theorem conflict_roundtrip_noeol (n len : Nat) (hn : 1 ≤ len) (eol : Bytes) (he : IsEol eol)
    (s1 s2 B : Bytes) (h : List Bytes) (hs1 : Clean s1) (hs2 : Clean s2) (hB : BodyOK len B)
    (hp : parseConflictHunk B len = h.map (· ++ eol)) (hnum : numSides h = n)
    (hunks : List (List Bytes)) (pre : Bytes) :
    parseLoop n len { hunks, pre, cs := none }
        (linesWT (writeMarker .conflictStart len s1 ++ eol ++
          (B ++ writeMarker .conflictEnd len s2))) =
        { hunks := (if pre.isEmpty then hunks else hunks ++ [[pre]]) ++ [h], pre := [], cs := none } := by
  rw [parseLoop_conflict_noeol n len hunks pre _ B _
    (markerLine_Line _ len s1 eol hs1.noLF he) (parseMarker_markerLine _ len hn s1 eol he) hB
    (Clean_writeMarker _ len hs2).noLF (writeMarker_ne_nil _ len hn s2)
    (parseMarker_marker_noeol _ len hn s2)
    (by rw [hp]; simpa [numSides] using hnum), hp,
    map_popSeparator (Clean_writeMarker _ len hs1) he]

theorem adds_removes_subset {α : Type} (l : List α) :
    (∀ t ∈ adds l, t ∈ l) ∧ (∀ t ∈ removes l, t ∈ l) := by
  induction l with
  | nil => simp [adds, removes]
  | cons a l ih =>
    rw [(adds_removes_cons a l).1, (adds_removes_cons a l).2]
    constructor
    · intro t ht; rcases List.mem_cons.mp ht with h | h
      · simp [h]
      · exact List.mem_cons_of_mem _ (ih.2 t h)
    · intro t ht; exact List.mem_cons_of_mem _ (ih.1 t ht)

/-- `materialize_jj_style_conflict` for the styles without diffs (snapshot, and git for arity ≠ 3):
the text is start marker, a body, end marker; the body parses back to the terms. -/
theorem jj_nodiff_conflict (diffFn : DiffFn) (style : Style) (hs : style.allowsDiff = false)
    (len : Nat) (hn : 1 ≤ len) (eol : Bytes) (he : IsEol eol) (info : Bytes)
    (sides : List Term) (hodd : sides.length % 2 = 1) (hok : ∀ t ∈ sides, TermOK len t) :
    ∃ B, materializeJJ diffFn sides info style len eol =
        writeMarker .conflictStart len info ++ eol ++
          (B ++ writeMarker .conflictEnd len (info ++ ascii " ends")) ∧
      BodyOK len B ∧ parseConflictHunk B len = sides.map (·.contents) := by
  cases sides with
  | nil => simp at hodd
  | cons a0 rest =>
    have heven : rest.length % 2 = 0 := by simp at hodd; omega
    have hlen : (adds rest).length = (removes rest).length := by
      rw [(adds_removes_length rest).1, (adds_removes_length rest).2]; omega
    have h0 : TermOK len a0 := hok a0 (by simp)
    have hR : ∀ t ∈ adds rest, TermOK len t := fun t ht =>
      hok t (List.mem_cons_of_mem _ ((adds_removes_subset rest).1 t ht))
    have hA : ∀ t ∈ removes rest, TermOK len t := fun t ht =>
      hok t (List.mem_cons_of_mem _ ((adds_removes_subset rest).2 t ht))
    have hsw : (style != Style.diff) = true := by cases style <;> simp_all [Style.allowsDiff]
    refine ⟨writeSide len eol a0 ++ zipSecs len eol (adds rest) (removes rest), ?_, ?_, ?_⟩
    · unfold materializeJJ
      simp only [hsw, (adds_removes_cons a0 rest).1, (adds_removes_cons a0 rest).2]
      rw [jjLoop_nodiff diffFn style len eol hs (a0 :: removes rest) (adds rest) [a0] (removes rest) 0 rfl rfl hlen]
      simp
    · exact BodyOK_append (BodyOK_writeSide hn he h0) (BodyOK_zipSecs hn he _ _ hR hA)
    · rw [parseConflictHunk_jj_add len hn eol he a0 h0,
        parseJJ_snapshot len hn eol he a0 _ _ h0 hR hA hlen]
      rw [← (adds_removes_map (·.contents) rest).1, ← (adds_removes_map (·.contents) rest).2]
      rw [interleave_even _ (by simpa using heven)]
      simp

/-- `format!("conflict {conflict_index} of {num_conflicts}")` -/
def infoText (ci nc : Nat) : Bytes := ascii "conflict " ++ dec ci ++ ascii " of " ++ dec nc

theorem Clean_infoText (ci nc : Nat) : Clean (infoText ci nc) :=
  Clean_append (Clean_append (Clean_append (by decide) (Clean_dec _)) (by decide)) (Clean_dec _)

theorem Clean_infoEnds (ci nc : Nat) : Clean (infoText ci nc ++ ascii " ends") :=
  Clean_append (Clean_infoText ci nc) (by decide)

theorem mem_contents_of_map {sides : List Term} {h : List Bytes} (hm : sides.map (·.contents) = h)
    {t : Term} (ht : t ∈ sides) : t.contents ∈ h := by
  rw [← hm]; exact List.mem_map_of_mem ht

/-- the sides of a hunk whose terms all end with `\n` (or are empty) -/
theorem sides_ok_eol {len : Nat} {labels : List Bytes} (hl : LabelsOK labels) {h : List Bytes}
    (hc : ∀ c ∈ h, ContentOK len c) (hall : allSidesHaveEol h = true) :
    ∀ t ∈ buildHunkSides h labels, TermOK len t := by
  obtain ⟨hm, hlab⟩ := buildHunkSides_spec hl h
  intro t ht
  have hmem := mem_contents_of_map hm ht
  refine ⟨(hlab t ht).noLF, ?_, hc _ hmem⟩
  unfold allSidesHaveEol at hall
  have := List.all_eq_true.mp hall _ hmem
  simpa [EndsLF] using this

/-- the sides after the EOL has been appended to every term -/
theorem sides_ok_pad {len : Nat} {labels : List Bytes} (hl : LabelsOK labels) {h : List Bytes}
    (hc : ∀ c ∈ h, ContentOK len c) {eol : Bytes} (he : IsEol eol) :
    ∀ t ∈ (buildHunkSides h labels).map (fun t => { t with contents := t.contents ++ eol }),
      TermOK len t := by
  obtain ⟨hm, hlab⟩ := buildHunkSides_spec hl h
  intro t ht
  obtain ⟨t0, ht0, rfl⟩ := List.mem_map.mp ht
  exact ⟨(hlab t0 ht0).noLF, EndsLF_append_eol _ he, ContentOK_pad (hc _ (mem_contents_of_map hm ht0)) he⟩

theorem sides_pad_contents {labels : List Bytes} (hl : LabelsOK labels) (h : List Bytes) (eol : Bytes) :
    ((buildHunkSides h labels).map (fun t => { t with contents := t.contents ++ eol })).map (·.contents)
      = h.map (· ++ eol) := by
  have hm := (buildHunkSides_spec hl h).1
  calc _ = ((buildHunkSides h labels).map (·.contents)).map (· ++ eol) := by
        simp [List.map_map, Function.comp_def]
    _ = _ := by rw [hm]

/-- `text` is a conflict block (terminated end marker) whose body parses to `h` -/
def RendersEol (len : Nat) (eol : Bytes) (h : List Bytes) (text : Bytes) : Prop :=
  ∃ s1 s2 B, Clean s1 ∧ Clean s2 ∧ BodyOK len B ∧ parseConflictHunk B len = h ∧
    text = writeMarker .conflictStart len s1 ++ eol ++ (B ++ (writeMarker .conflictEnd len s2 ++ eol))

/-- `text` is a conflict block with unterminated end marker whose body parses to the padded `h` -/
def RendersNoEol (len : Nat) (eol : Bytes) (h : List Bytes) (text : Bytes) : Prop :=
  ∃ s1 s2 B, Clean s1 ∧ Clean s2 ∧ BodyOK len B ∧ parseConflictHunk B len = h.map (· ++ eol) ∧
    text = writeMarker .conflictStart len s1 ++ eol ++ (B ++ writeMarker .conflictEnd len s2)

theorem rendersEol_parse (n len : Nat) (hn : 1 ≤ len) (eol : Bytes) (he : IsEol eol) (h : List Bytes)
    (text : Bytes) (hr : RendersEol len eol h text) (hnum : numSides h = n) (rest : Bytes)
    (hunks : List (List Bytes)) (pre : Bytes) :
    parseLoop n len { hunks, pre, cs := none } (linesWT (text ++ rest)) =
      parseLoop n len
        { hunks := (if pre.isEmpty then hunks else hunks ++ [[pre]]) ++ [h], pre := [], cs := none }
        (linesWT rest) := by
  obtain ⟨s1, s2, B, hs1, hs2, hB, hp, rfl⟩ := hr
  have hre : (writeMarker .conflictStart len s1 ++ eol ++ (B ++ (writeMarker .conflictEnd len s2 ++ eol))) ++ rest =
      writeMarker .conflictStart len s1 ++ eol ++ (B ++ (writeMarker .conflictEnd len s2 ++ eol ++ rest)) := by
    simp [List.append_assoc]
  rw [hre]
  exact conflict_roundtrip_eol n len hn eol he _ _ B rest h hs1 hs2 hB hp hnum hunks pre

theorem rendersNoEol_parse (n len : Nat) (hn : 1 ≤ len) (eol : Bytes) (he : IsEol eol) (h : List Bytes)
    (text : Bytes) (hr : RendersNoEol len eol h text) (hnum : numSides h = n)
    (hunks : List (List Bytes)) (pre : Bytes) :
    parseLoop n len { hunks, pre, cs := none } (linesWT text) =
        { hunks := (if pre.isEmpty then hunks else hunks ++ [[pre]]) ++ [h], pre := [], cs := none } := by
  obtain ⟨s1, s2, B, hs1, hs2, hB, hp, rfl⟩ := hr
  exact conflict_roundtrip_noeol n len hn eol he _ _ B h hs1 hs2 hB hp hnum hunks pre

theorem match_git_jj {β : Type} (style : Style) (sides : List Term) (A : Term → Term → Term → β) (J : β) :
    (style = .git → sides.length ≠ 3) →
    (match style, sides with
      | .git, [left, base, right] => A left base right
      | _, _ => J) = J := by
  intro hnot
  split
  · exact absurd rfl (hnot rfl)
  · rfl

/-- for every style/arity combination except Git with 3 terms the jj-style writer is used -/
theorem materializeConflict_jj (diffFn : DiffFn) (style : Style) (len : Nat) (labels : List Bytes)
    (eol : Bytes) (h : List Bytes) (ci nc : Nat) (hnot : style = .git → h.length ≠ 3)
    (hl : LabelsOK labels) :
    materializeConflict diffFn style len labels eol h ci nc =
      if allSidesHaveEol h then
        materializeJJ diffFn (buildHunkSides h labels) (infoText ci nc) style len eol ++ eol
      else
        materializeJJ diffFn ((buildHunkSides h labels).map
          (fun t => { t with contents := t.contents ++ eol })) (infoText ci nc) style len eol := by
  have hm := (buildHunkSides_spec hl h).1
  have hlen : (buildHunkSides h labels).length = h.length := by
    rw [← List.length_map (f := (·.contents)), hm]
  unfold materializeConflict
  by_cases hall : allSidesHaveEol h = true
  · simp only [hall, if_true]
    exact congrArg (· ++ eol) (match_git_jj style (buildHunkSides h labels)
      (fun l b r => materializeGit l b r len eol) _ (by rw [hlen]; exact hnot))
  · simp only [hall, Bool.false_eq_true, if_false]
    exact match_git_jj style _ (fun l b r => materializeGit l b r len eol) _
      (by rw [List.length_map, hlen]; exact hnot)

theorem nodiff_renders_eol (diffFn : DiffFn) (style : Style) (hs : style.allowsDiff = false)
    (len : Nat) (hn : 1 ≤ len) (eol : Bytes)
    (he : IsEol eol) (labels : List Bytes) (hl : LabelsOK labels) (h : List Bytes)
    (hnot : style = .git → h.length ≠ 3)
    (hodd : h.length % 2 = 1) (hc : ∀ c ∈ h, ContentOK len c)
    (hall : allSidesHaveEol h = true) (ci nc : Nat) :
    RendersEol len eol h (materializeConflict diffFn style len labels eol h ci nc) := by
  have hm := (buildHunkSides_spec hl h).1
  have hlen : (buildHunkSides h labels).length % 2 = 1 := by
    rw [← List.length_map (f := (·.contents)), hm]; exact hodd
  obtain ⟨B, hmat, hB, hp⟩ := jj_nodiff_conflict diffFn style hs len hn eol he (infoText ci nc)
    (buildHunkSides h labels) hlen (sides_ok_eol hl hc hall)
  refine ⟨_, _, B, Clean_infoText ci nc, Clean_infoEnds ci nc, hB, hp.trans hm, ?_⟩
  rw [materializeConflict_jj diffFn style len labels eol h ci nc hnot hl]
  simp only [hall, if_true, hmat]
  simp [List.append_assoc]

theorem nodiff_renders_noeol (diffFn : DiffFn) (style : Style) (hs : style.allowsDiff = false)
    (len : Nat) (hn : 1 ≤ len) (eol : Bytes)
    (he : IsEol eol) (labels : List Bytes) (hl : LabelsOK labels) (h : List Bytes)
    (hnot : style = .git → h.length ≠ 3)
    (hodd : h.length % 2 = 1) (hc : ∀ c ∈ h, ContentOK len c)
    (hall : allSidesHaveEol h = false) (ci nc : Nat) :
    RendersNoEol len eol h (materializeConflict diffFn style len labels eol h ci nc) := by
  have hm := sides_pad_contents hl h eol
  have hlen : ((buildHunkSides h labels).map
      (fun t => { t with contents := t.contents ++ eol })).length % 2 = 1 := by
    rw [← List.length_map (f := (·.contents)), hm]; simpa using hodd
  obtain ⟨B, hmat, hB, hp⟩ := jj_nodiff_conflict diffFn style hs len hn eol he (infoText ci nc)
    _ hlen (sides_ok_pad hl hc he)
  refine ⟨_, _, B, Clean_infoText ci nc, Clean_infoEnds ci nc, hB, hp.trans hm, ?_⟩
  rw [materializeConflict_jj diffFn style len labels eol h ci nc hnot hl]
  simp only [hall, Bool.false_eq_true, if_false, hmat]

/-- every unresolved hunk renders as a well-formed conflict block (style specific) -/
def AllRender (diffFn : DiffFn) (style : Style) (len : Nat) (labels : List Bytes) (eol : Bytes)
    (hs : List (List Bytes)) : Prop :=
  ∀ h ∈ hs, h.length ≠ 1 → ∀ ci nc,
    (allSidesHaveEol h = true →
      RendersEol len eol h (materializeConflict diffFn style len labels eol h ci nc)) ∧
    (allSidesHaveEol h = false →
      RendersNoEol len eol h (materializeConflict diffFn style len labels eol h ci nc))

/-- what `parse_conflict` collects from a hunk list: resolved neighbours are merged -/
def collect : Bytes → List (List Bytes) → List (List Bytes) × Bytes
  | pre, [] => ([], pre)
  | pre, h :: rest =>
    match h with
    | [c] => collect (pre ++ c) rest
    | _ =>
      let r := collect [] rest
      ((if pre.isEmpty then [] else [[pre]]) ++ h :: r.1, r.2)

theorem hunksFrom_parse (diffFn : DiffFn) (style : Style) (n len : Nat) (hn : 1 ≤ len)
    (labels : List Bytes) (eol : Bytes) (he : IsEol eol) (nc : Nat) (hs : List (List Bytes))
    (hr : AllRender diffFn style len labels eol hs) (hwf : HunksWFAux n len hs) :
    ∀ (ci : Nat) (hunks : List (List Bytes)) (pre : Bytes),
    parseLoop n len { hunks, pre, cs := none }
        (linesWT (hunksFrom diffFn style len labels eol nc hs ci)) =
      { hunks := hunks ++ (collect pre hs).1, pre := (collect pre hs).2, cs := none } := by
  induction hs with
  | nil => intro ci hunks pre; simp [hunksFrom, linesWT, parseLoop, collect]
  | cons h rest ih =>
    intro ci hunks pre
    have hr' : AllRender diffFn style len labels eol rest :=
      fun x hx => hr x (List.mem_cons_of_mem _ hx)
    unfold HunksWFAux at hwf
    obtain ⟨hh, hrest⟩ := hwf
    have ih := ih hr' hrest
    by_cases hres : ∃ c, h = [c]
    · obtain ⟨c, rfl⟩ := hres
      simp only at hh
      obtain ⟨_, hc, hnext⟩ := hh
      simp only [hunksFrom, collect]
      by_cases hrest0 : rest = []
      · subst hrest0
        simp only [hunksFrom, List.append_nil, collect]
        rw [parseLoop_plain n len _ hc, linesWT_flatten]
      · rw [linesWT_append_of_EndsLF (hnext hrest0).1, parseLoop_append,
          parseLoop_plain n len _ hc, linesWT_flatten, ih]
    · have hne : h.length ≠ 1 := by
        intro hl; apply hres
        match h, hl with
        | [c], _ => exact ⟨c, rfl⟩
      have hh' : h.length % 2 = 1 ∧ numSides h = n ∧ (∀ c ∈ h, ContentOK len c) ∧
          (rest ≠ [] → allSidesHaveEol h = true) := by
        split at hh
        · exact absurd ⟨_, rfl⟩ hres
        · exact hh
      obtain ⟨_, hnum, _, hall⟩ := hh'
      have hmat : hunksFrom diffFn style len labels eol nc (h :: rest) ci =
          materializeConflict diffFn style len labels eol h (ci + 1) nc ++
            hunksFrom diffFn style len labels eol nc rest (ci + 1) := by
        rw [hunksFrom]; exact fun c hc => hres ⟨c, hc⟩
      have hcol : collect pre (h :: rest) =
          ((if pre.isEmpty then [] else [[pre]]) ++ h :: (collect [] rest).1, (collect [] rest).2) := by
        rw [collect]; exact fun c hc => hres ⟨c, hc⟩
      rw [hmat, hcol]
      obtain ⟨hre, hrn⟩ := hr h (by simp) hne (ci + 1) nc
      by_cases hall' : allSidesHaveEol h = true
      · rw [rendersEol_parse n len hn eol he h _ (hre hall') hnum, ih]
        by_cases hp : pre.isEmpty <;> simp [hp]
      · have hall' : allSidesHaveEol h = false := by simpa using hall'
        have hrest0 : rest = [] := by
          by_cases h0 : rest = []
          · exact h0
          · rw [hall h0] at hall'; cases hall'
        subst hrest0
        simp only [hunksFrom, List.append_nil, collect]
        rw [rendersNoEol_parse n len hn eol he h _ (hrn hall') hnum]
        by_cases hp : pre.isEmpty <;> simp [hp]

/-- the hunk list `parse_conflict` returns for the collected pieces -/
def collected (pre : Bytes) (hs : List (List Bytes)) : List (List Bytes) :=
  (collect pre hs).1 ++ (if (collect pre hs).2.isEmpty then [] else [[(collect pre hs).2]])

theorem collected_wf (n len : Nat) (hs : List (List Bytes)) (hwf : HunksWFAux n len hs) :
    ∀ pre : Bytes, (pre = [] ∨ startsResolved hs = false) →
      collected pre hs = (if pre.isEmpty then [] else [[pre]]) ++ hs := by
  induction hs with
  | nil => intro pre _; simp [collected, collect]
  | cons h rest ih =>
    intro pre hpre
    unfold HunksWFAux at hwf
    obtain ⟨hh, hrest⟩ := hwf
    by_cases hres : ∃ c, h = [c]
    · obtain ⟨c, rfl⟩ := hres
      simp only at hh
      obtain ⟨hc0, _, hnext⟩ := hh
      have hpre0 : pre = [] := by
        rcases hpre with h0 | h0
        · exact h0
        · simp [startsResolved] at h0
      subst hpre0
      have : collected [] ([c] :: rest) = collected c rest := by simp [collected, collect]
      rw [this, ih hrest c]
      · simp [hc0]
      · by_cases hr0 : rest = []
        · subst hr0; right; rfl
        · right; exact (hnext hr0).2
    · have hcol : collect pre (h :: rest) =
          ((if pre.isEmpty then [] else [[pre]]) ++ h :: (collect [] rest).1, (collect [] rest).2) := by
        rw [collect]; exact fun c hc => hres ⟨c, hc⟩
      have := ih hrest [] (Or.inl rfl)
      simp only [collected, List.isEmpty_nil, if_true, List.nil_append] at this
      simp only [collected, hcol, List.append_assoc, List.cons_append, this]

theorem collect_has_conflict (pre : Bytes) (hs : List (List Bytes)) (h : hs.any (·.length ≠ 1) = true) :
    (collect pre hs).1 ≠ [] := by
  induction hs generalizing pre with
  | nil => simp at h
  | cons x rest ih =>
    by_cases hres : ∃ c, x = [c]
    · obtain ⟨c, rfl⟩ := hres
      simp only [collect]
      apply ih; simpa using h
    · have hcol : collect pre (x :: rest) =
          ((if pre.isEmpty then [] else [[pre]]) ++ x :: (collect [] rest).1, (collect [] rest).2) := by
        rw [collect]; exact fun c hc => hres ⟨c, hc⟩
      rw [hcol]; simp

/-- Round trip for any style whose unresolved hunks render as well-formed conflict blocks. -/
theorem parse_materialize_of_render (diffFn : DiffFn) (style : Style) (n len : Nat) (hn : 1 ≤ len)
    (labels : List Bytes) (eol : Bytes) (he : IsEol eol) (hs : List (List Bytes))
    (hr : AllRender diffFn style len labels eol hs) (hwf : HunksWFAux n len hs)
    (hany : hs.any (·.length ≠ 1) = true) :
    parseConflict (materializeHunks diffFn hs style len labels eol) n len = some hs := by
  have hloop := hunksFrom_parse diffFn style n len hn labels eol he
    ((hs.filter (fun h => !isResolved h)).length) hs hr hwf 0 [] []
  have hne := collect_has_conflict [] hs hany
  have hcol := collected_wf n len hs hwf [] (Or.inl rfl)
  unfold parseConflict materializeHunks
  by_cases hempty : (hunksFrom diffFn style len labels eol
      ((hs.filter (fun h => !isResolved h)).length) hs 0).isEmpty
  · exfalso
    have h0 : hunksFrom diffFn style len labels eol
        ((hs.filter (fun h => !isResolved h)).length) hs 0 = [] := by simpa using hempty
    rw [h0] at hloop
    simp only [linesWT, parseLoop, List.nil_append] at hloop
    have := congrArg PState.hunks hloop
    exact hne this.symm
  · simp only [hempty, Bool.false_eq_true, if_false, hloop, List.nil_append, PState.tail]
    have h1 : (collect [] hs).1.isEmpty = false := by
      cases hc : (collect [] hs).1 with
      | nil => exact absurd hc hne
      | cons _ _ => rfl
    simp only [h1, Bool.false_eq_true, if_false]
    simp only [collected, List.isEmpty_nil, if_true, List.nil_append] at hcol
    split
    · rename_i h2; simp only [h2, if_true, List.append_nil] at hcol; rw [hcol]
    · rename_i h2; simp only [h2, Bool.false_eq_true, if_false] at hcol; rw [hcol]

theorem git_content (len : Nat) (ls : List Bytes) (h : ∀ l ∈ ls, parseMarker l len = none)
    (st : GitState) (l b r : Bytes) (more : List Bytes) :
    parseGitLoop len st l b r (ls ++ more) =
      match st with
      | .left => parseGitLoop len st (l ++ ls.flatten) b r more
      | .base => parseGitLoop len st l (b ++ ls.flatten) r more
      | .right => parseGitLoop len st l b (r ++ ls.flatten) more := by
  induction ls generalizing l b r with
  | nil => cases st <;> simp
  | cons x ls ih =>
    have hx := h x (by simp)
    have hls : ∀ l ∈ ls, parseMarker l len = none := fun y hy => h y (List.mem_cons_of_mem _ hy)
    cases st <;> simp only [List.cons_append, parseGitLoop, hx, ih hls, List.flatten_cons, List.append_assoc]

/-- body of a Git-style conflict -/
def gitBody (len : Nat) (eol : Bytes) (left base right : Term) : Bytes :=
  left.contents ++ (writeMarker .gitAncestor len base.label ++ eol ++ base.contents ++
    (writeMarker .gitSeparator len [] ++ eol ++ right.contents))

theorem parseGit_gitBody (len : Nat) (hn : 1 ≤ len) (eol : Bytes) (he : IsEol eol)
    (left base right : Term) (hl : TermOK len left) (hb : TermOK len base) (hr : TermOK len right) :
    parseGit (gitBody len eol left base right) len = [left.contents, base.contents, right.contents] := by
  unfold parseGit gitBody
  rw [linesWT_append_of_EndsLF hl.ends, linesWT_section _ _ _ _ _ _ hb.label he hb.ends]
  have h3 := linesWT_section .gitSeparator len [] eol right.contents [] NoLF_nil he hr.ends
  simp only [List.append_nil] at h3
  rw [h3, git_content len _ hl.content]
  simp only [parseGitLoop, parseMarker_markerLine _ len hn _ _ he, if_true]
  rw [git_content len _ hb.content]
  simp only [parseGitLoop, parseMarker_markerLine _ len hn _ _ he, if_true]
  rw [git_content len _ hr.content]
  simp [parseGitLoop, linesWT_flatten, linesWT]

theorem parseConflictHunk_gitBody (len : Nat) (hn : 1 ≤ len) (eol : Bytes) (he : IsEol eol)
    (left base right : Term) (hl : TermOK len left) (hb : TermOK len base) (hr : TermOK len right) :
    parseConflictHunk (gitBody len eol left base right) len =
      [left.contents, base.contents, right.contents] := by
  rw [← parseGit_gitBody len hn eol he left base right hl hb hr]
  unfold parseConflictHunk
  have hlines : linesWT (gitBody len eol left base right) = linesWT left.contents ++
      ((writeMarker .gitAncestor len base.label ++ eol) ::
        (linesWT base.contents ++ linesWT (writeMarker .gitSeparator len [] ++ eol ++ right.contents))) := by
    unfold gitBody
    rw [linesWT_append_of_EndsLF hl.ends, linesWT_section _ _ _ _ _ _ hb.label he hb.ends]
  rw [hlines]
  cases hc : linesWT left.contents with
  | nil => simp [parseMarker_markerLine _ len hn _ _ he]
  | cons x xs =>
    have : parseMarker x len = none := hl.content x (by simp [hc])
    simp [this]

theorem BodyOK_gitBody (len : Nat) (hn : 1 ≤ len) (eol : Bytes) (he : IsEol eol)
    (left base right : Term) (hl : TermOK len left) (hb : TermOK len base) (hr : TermOK len right) :
    BodyOK len (gitBody len eol left base right) := by
  unfold gitBody
  exact BodyOK_append (BodyOK_content hl.ends hl.content)
    (BodyOK_append (BodyOK_append (BodyOK_markerLine .gitAncestor len hn _ _ hb.label he (by decide))
      (BodyOK_content hb.ends hb.content))
    (BodyOK_append (BodyOK_markerLine .gitSeparator len hn _ _ NoLF_nil he (by decide))
      (BodyOK_content hr.ends hr.content)))

theorem materializeGit_eq (len : Nat) (eol : Bytes) (left base right : Term) :
    materializeGit left base right len eol =
      writeMarker .conflictStart len left.label ++ eol ++
        (gitBody len eol left base right ++ writeMarker .conflictEnd len right.label) := by
  simp [materializeGit, gitBody, List.append_assoc]

theorem length_three {α : Type} {l : List α} (h : l.length = 3) : ∃ a b c, l = [a, b, c] := by
  match l, h with
  | [a, b, c], _ => exact ⟨a, b, c, rfl⟩

/-- the materialization of one unresolved hunk, with the sides made explicit -/
theorem materializeConflict_git3 (diffFn : DiffFn) (len : Nat) (labels : List Bytes) (eol : Bytes)
    (h : List Bytes) (ci nc : Nat) (l b r : Term)
    (hs : (if allSidesHaveEol h then buildHunkSides h labels
      else (buildHunkSides h labels).map (fun t => { t with contents := t.contents ++ eol })) = [l, b, r]) :
    materializeConflict diffFn .git len labels eol h ci nc =
      if allSidesHaveEol h then materializeGit l b r len eol ++ eol else materializeGit l b r len eol := by
  unfold materializeConflict
  simp only [hs]

theorem git_renders_eol3 (diffFn : DiffFn) (len : Nat) (hn : 1 ≤ len) (eol : Bytes)
    (he : IsEol eol) (labels : List Bytes) (hl : LabelsOK labels) (h : List Bytes)
    (h3 : h.length = 3) (hc : ∀ c ∈ h, ContentOK len c)
    (hall : allSidesHaveEol h = true) (ci nc : Nat) :
    RendersEol len eol h (materializeConflict diffFn .git len labels eol h ci nc) := by
  obtain ⟨hm, hlab⟩ := buildHunkSides_spec hl h
  have hlen : (buildHunkSides h labels).length = 3 := by
    rw [← List.length_map (f := (·.contents)), hm]; exact h3
  obtain ⟨l, b, r, hsides⟩ := length_three hlen
  have hok := sides_ok_eol hl hc hall
  rw [hsides] at hok hlab hm
  have hL := hok l (by simp)
  have hB := hok b (by simp)
  have hR := hok r (by simp)
  refine ⟨l.label, r.label, gitBody len eol l b r, hlab l (by simp), hlab r (by simp),
    BodyOK_gitBody len hn eol he l b r hL hB hR, ?_, ?_⟩
  · rw [parseConflictHunk_gitBody len hn eol he l b r hL hB hR, ← hm]; rfl
  · rw [materializeConflict_git3 diffFn len labels eol h ci nc l b r (by simp [hall, hsides])]
    simp [hall, materializeGit_eq, List.append_assoc]

theorem git_renders_noeol3 (diffFn : DiffFn) (len : Nat) (hn : 1 ≤ len) (eol : Bytes)
    (he : IsEol eol) (labels : List Bytes) (hl : LabelsOK labels) (h : List Bytes)
    (h3 : h.length = 3) (hc : ∀ c ∈ h, ContentOK len c)
    (hall : allSidesHaveEol h = false) (ci nc : Nat) :
    RendersNoEol len eol h (materializeConflict diffFn .git len labels eol h ci nc) := by
  have hlab0 := (buildHunkSides_spec hl h).2
  have hm := sides_pad_contents hl h eol
  have hlen : ((buildHunkSides h labels).map
      (fun t => { t with contents := t.contents ++ eol })).length = 3 := by
    rw [← List.length_map (f := (·.contents)), hm]; simpa using h3
  obtain ⟨l, b, r, hsides⟩ := length_three hlen
  have hok := sides_ok_pad (len := len) hl hc he
  have hlab : ∀ t ∈ (buildHunkSides h labels).map
      (fun t => { t with contents := t.contents ++ eol }), Clean t.label := by
    intro t ht; obtain ⟨t0, ht0, rfl⟩ := List.mem_map.mp ht; exact hlab0 t0 ht0
  rw [hsides] at hok hlab hm
  have hL := hok l (by simp)
  have hB := hok b (by simp)
  have hR := hok r (by simp)
  refine ⟨l.label, r.label, gitBody len eol l b r, hlab l (by simp), hlab r (by simp),
    BodyOK_gitBody len hn eol he l b r hL hB hR, ?_, ?_⟩
  · rw [parseConflictHunk_gitBody len hn eol he l b r hL hB hR, ← hm]; rfl
  · rw [materializeConflict_git3 diffFn len labels eol h ci nc l b r (by simp [hall, hsides])]
    simp [hall, materializeGit_eq]

/-! ### marker length choice -/

theorem le_maxList {l : List Nat} {x : Nat} (h : x ∈ l) : x ≤ maxList l := by
  induction l with
  | nil => simp at h
  | cons a l ih =>
    simp only [maxList]
    rcases List.mem_cons.mp h with rfl | h'
    · exact Nat.le_max_left _ _
    · exact Nat.le_trans (ih h') (Nat.le_max_right _ _)

/-- every marker-like line of the files is shorter than or equal to the recorded maximum -/
theorem markerLen_le_max {files : List Bytes} {f l : Bytes} (hf : f ∈ files) (hl : l ∈ linesWT f)
    {k : MarkerKind} {m : Nat} (hm : parseMarkerAnyLen l = some (k, m)) :
    m ≤ maxList (markerLens files) := by
  apply le_maxList
  unfold markerLens
  simp only [List.mem_map, List.mem_filterMap, List.mem_flatMap]
  exact ⟨(k, m), ⟨l, ⟨f, hf, hl⟩, hm⟩, rfl⟩

/-- the source constants: the chosen length is strictly above every existing marker run … -/
theorem increment_pos : 1 ≤ CONFLICT_MARKER_LEN_INCREMENT := by decide
/-- … by at least two, so one extra diff-prefix byte cannot complete a marker … -/
theorem increment_ge_two : 2 ≤ CONFLICT_MARKER_LEN_INCREMENT := by decide
/-- … and even a lone prefix byte (a "marker" of length 1) is too short. -/
theorem min_len_ge_two : 2 ≤ MIN_CONFLICT_MARKER_LEN := by decide

theorem chooseMarkerLen_gt (files : List Bytes) :
    maxList (markerLens files) + CONFLICT_MARKER_LEN_INCREMENT ≤ chooseMarkerLen files ∧
    MIN_CONFLICT_MARKER_LEN ≤ chooseMarkerLen files := by
  unfold chooseMarkerLen; exact ⟨Nat.le_max_left _ _, Nat.le_max_right _ _⟩

theorem chooseMarkerLen_pos (files : List Bytes) : 1 ≤ chooseMarkerLen files := by
  have := (chooseMarkerLen_gt files).2; have := min_len_ge_two; omega

/-- **(c)** no line of any file is a marker of the chosen length -/
theorem chooseMarkerLen_safe (files : List Bytes) (f : Bytes) (hf : f ∈ files) :
    ContentOK (chooseMarkerLen files) f := by
  intro l hl
  unfold parseMarker
  cases hm : parseMarkerAnyLen l with
  | none => rfl
  | some km =>
    obtain ⟨k, m⟩ := km
    have h1 := markerLen_le_max hf hl hm
    have h2 := (chooseMarkerLen_gt files).1
    have h3 := increment_pos
    simp only [ge_iff_le]
    rw [if_neg (by omega)]

/-- the decision `parse_conflict_marker_any_len` takes once kind and run length are known -/
def markerTail (kind : MarkerKind) (n : Nat) (dw : Bytes) : Option (MarkerKind × Nat) :=
  match dw with
  | [] => some (kind, n)
  | next :: _ => if isAsciiWhitespace next then some (kind, n) else none

theorem parseMarkerAnyLen_cons_eq (p : UInt8) (l : Bytes) :
    parseMarkerAnyLen (p :: l) =
      match parseByte p with
      | none => none
      | some kind => markerTail kind ((l.takeWhile (· = p)).length + 1) (l.dropWhile (· = p)) := by
  unfold parseMarkerAnyLen markerTail
  cases hk : parseByte p
  · simp [hk]
  · simp only [hk, List.takeWhile_cons_of_pos, decide_true, List.dropWhile_cons_of_pos,
      List.length_cons]
    cases List.dropWhile (fun x => decide (x = p)) l <;> rfl

theorem markerTail_succ {kind k : MarkerKind} {n m : Nat} {dw : Bytes}
    (h : markerTail kind (n + 1) dw = some (k, m)) : markerTail kind n dw = some (k, n) ∧ m = n + 1 := by
  unfold markerTail at h ⊢
  split at h
  · simp at h; simp [h.1, h.2.symm]
  · split at h
    · rename_i hws; simp at h; simp [hws, h.1, h.2.symm]
    · cases h

theorem markerTail_len {kind k : MarkerKind} {n m : Nat} {dw : Bytes}
    (h : markerTail kind n dw = some (k, m)) : m = n := by
  unfold markerTail at h
  split at h
  · simp at h; exact h.2.symm
  · split at h
    · simp at h; exact h.2.symm
    · cases h

/-- a marker found after prepending one byte is either of length 1 or extends a marker of the
original line by one -/
theorem parseMarkerAnyLen_cons {p : UInt8} {l : Bytes} {k : MarkerKind} {m : Nat}
    (h : parseMarkerAnyLen (p :: l) = some (k, m)) :
    m = 1 ∨ ∃ m', parseMarkerAnyLen l = some (k, m') ∧ m = m' + 1 := by
  rw [parseMarkerAnyLen_cons_eq] at h
  cases hk : parseByte p with
  | none => simp [hk] at h
  | some kind =>
    simp only [hk] at h
    cases l with
    | nil => left; simpa using markerTail_len h
    | cons q l' =>
      by_cases hq : q = p
      · right
        subst hq
        simp only [List.takeWhile_cons_of_pos, decide_true, List.dropWhile_cons_of_pos,
          List.length_cons] at h
        obtain ⟨h1, h2⟩ := markerTail_succ h
        refine ⟨_, ?_, h2⟩
        rw [parseMarkerAnyLen_cons_eq, hk]; exact h1
      · left
        have hq' : ¬ (decide (q = p) = true) := by simpa using hq
        simp only [List.takeWhile_cons, List.dropWhile_cons, hq'] at h
        simpa using markerTail_len h

theorem chooseMarkerLen_prefixed (files : List Bytes) (f : Bytes) (hf : f ∈ files) (l : Bytes)
    (hl : l ∈ linesWT f) (p : UInt8) : parseMarker (p :: l) (chooseMarkerLen files) = none := by
  unfold parseMarker
  cases hm : parseMarkerAnyLen (p :: l) with
  | none => rfl
  | some km =>
    obtain ⟨k, m⟩ := km
    have h2 := (chooseMarkerLen_gt files)
    have h3 := increment_ge_two
    have h4 := min_len_ge_two
    simp only [ge_iff_le]
    rcases parseMarkerAnyLen_cons hm with h1 | ⟨m', hm', h1⟩
    · rw [if_neg (by omega)]
    · have := markerLen_le_max hf hl hm'
      rw [if_neg (by omega)]

/-- **(c′)** with the source's increment (≥ 2) the chosen length also protects diff-prefixed lines -/
theorem chooseMarkerLen_diffSafe (files : List Bytes) (f : Bytes) (hf : f ∈ files) :
    DiffSafe (chooseMarkerLen files) f :=
  fun l hl => ⟨chooseMarkerLen_prefixed files f hf l hl _, chooseMarkerLen_prefixed files f hf l hl _,
    chooseMarkerLen_prefixed files f hf l hl _⟩

/-! ### the diff styles -/

theorem linesWT_prefixLines (p : UInt8) (hp : p ≠ LF) (c : Bytes) (hc : EndsLF c) (rest : Bytes) :
    linesWT (prefixLines p c ++ rest) = (linesWT c).map (p :: ·) ++ linesWT rest := by
  have : prefixLines p c = ((linesWT c).map (p :: ·)).flatten := by
    simp [prefixLines, List.flatMap_def]
  rw [this, linesWT_flatten_lines]
  intro l hl
  obtain ⟨l0, hl0, rfl⟩ := List.mem_map.mp hl
  exact Line_cons hp (EndsLF_lines hc l0 hl0)

theorem EndsLF_prefixLines (p : UInt8) (hp : p ≠ LF) (c : Bytes) (hc : EndsLF c) :
    EndsLF (prefixLines p c) := by
  have : prefixLines p c = ((linesWT c).map (p :: ·)).flatten := by
    simp [prefixLines, List.flatMap_def]
  rw [this]
  apply EndsLF_flatten_lines
  intro l hl
  obtain ⟨l0, hl0, rfl⟩ := List.mem_map.mp hl
  exact Line_cons hp (EndsLF_lines hc l0 hl0)

theorem BodyOK_prefixLines {len : Nat} (p : UInt8) (hp : p ≠ LF) (c : Bytes) (hc : EndsLF c)
    (hs : ∀ l ∈ linesWT c, parseMarker (p :: l) len = none) : BodyOK len (prefixLines p c) := by
  refine ⟨EndsLF_prefixLines p hp c hc, ?_⟩
  unfold NoStartEnd
  have := linesWT_prefixLines p hp c hc []
  simp only [List.append_nil, linesWT] at this
  rw [this]
  intro l hl
  obtain ⟨l0, hl0, rfl⟩ := List.mem_map.mp hl
  simp [hs l0 hl0]

theorem jj_diff_minus (len : Nat) (ls : List Bytes) (h : ∀ l ∈ ls, parseMarker (45 :: l) len = none)
    (rs as : List Bytes) (a : Bytes) (more : List Bytes) :
    parseJJLoop len .diff (a :: rs) as (ls.map (45 :: ·) ++ more) =
      parseJJLoop len .diff ((a ++ ls.flatten) :: rs) as more := by
  induction ls generalizing a with
  | nil => simp
  | cons l ls ih =>
    have hl := h l (by simp)
    have hls : ∀ l ∈ ls, parseMarker (45 :: l) len = none := fun x hx => h x (List.mem_cons_of_mem _ hx)
    simp only [List.map_cons, List.cons_append, parseJJLoop, hl, extendLast, ih hls, List.flatten_cons,
      List.append_assoc]

theorem jj_diff_plus (len : Nat) (ls : List Bytes) (h : ∀ l ∈ ls, parseMarker (43 :: l) len = none)
    (rs as : List Bytes) (b : Bytes) (more : List Bytes) :
    parseJJLoop len .diff rs (b :: as) (ls.map (43 :: ·) ++ more) =
      parseJJLoop len .diff rs ((b ++ ls.flatten) :: as) more := by
  induction ls generalizing b with
  | nil => simp
  | cons l ls ih =>
    have hl := h l (by simp)
    have hls : ∀ l ∈ ls, parseMarker (43 :: l) len = none := fun x hx => h x (List.mem_cons_of_mem _ hx)
    simp only [List.map_cons, List.cons_append, parseJJLoop, hl, extendLast, ih hls, List.flatten_cons,
      List.append_assoc]

theorem jj_diff_space (len : Nat) (ls : List Bytes) (h : ∀ l ∈ ls, parseMarker (32 :: l) len = none)
    (rs as : List Bytes) (a b : Bytes) (more : List Bytes) :
    parseJJLoop len .diff (a :: rs) (b :: as) (ls.map (32 :: ·) ++ more) =
      parseJJLoop len .diff ((a ++ ls.flatten) :: rs) ((b ++ ls.flatten) :: as) more := by
  induction ls generalizing a b with
  | nil => simp
  | cons l ls ih =>
    have hl := h l (by simp)
    have hls : ∀ l ∈ ls, parseMarker (32 :: l) len = none := fun x hx => h x (List.mem_cons_of_mem _ hx)
    simp only [List.map_cons, List.cons_append, parseJJLoop, hl, extendLast, ih hls, List.flatten_cons,
      List.append_assoc]

/-- what the parser reads back for the positive side of a diff: matching groups are printed once,
from their left content -/
def rightCat (d : List DiffGroup) : Bytes :=
  (d.map (fun g => if g.matching then g.left else g.right)).flatten

def leftCat (d : List DiffGroup) : Bytes := (d.map (·.left)).flatten

/-- per-group requirements: whole lines, and no line becomes a marker when prefixed -/
def GroupOK (len : Nat) (g : DiffGroup) : Prop :=
  EndsLF g.left ∧ EndsLF g.right ∧ DiffSafe len g.left ∧ DiffSafe len g.right

theorem jj_diff_groups (len : Nat) (d : List DiffGroup) (hd : ∀ g ∈ d, GroupOK len g)
    (rs as : List Bytes) (a b rest : Bytes) :
    parseJJLoop len .diff (a :: rs) (b :: as) (linesWT (writeDiffHunks d ++ rest)) =
      parseJJLoop len .diff ((a ++ leftCat d) :: rs) ((b ++ rightCat d) :: as) (linesWT rest) := by
  induction d generalizing a b with
  | nil => simp [writeDiffHunks, leftCat, rightCat]
  | cons g d ih =>
    obtain ⟨hl, hr, hsl, hsr⟩ := hd g (by simp)
    have ih := ih (fun x hx => hd x (List.mem_cons_of_mem _ hx))
    simp only [writeDiffHunks]
    by_cases hm : g.matching = true
    · simp only [hm, if_true, List.append_assoc]
      rw [linesWT_prefixLines 32 (by decide) _ hl, jj_diff_space len _ (fun l h => (hsl l h).1), ih,
        linesWT_flatten]
      simp [leftCat, rightCat, hm]
    · have hm' : g.matching = false := by simpa using hm
      simp only [hm', Bool.false_eq_true, if_false, List.append_assoc]
      rw [linesWT_prefixLines 45 (by decide) _ hl, jj_diff_minus len _ (fun l h => (hsl l h).2.1),
        linesWT_prefixLines 43 (by decide) _ hr, jj_diff_plus len _ (fun l h => (hsr l h).2.2), ih,
        linesWT_flatten, linesWT_flatten]
      simp [leftCat, rightCat, hm']

theorem BodyOK_writeDiffHunks (len : Nat) (d : List DiffGroup) (hd : ∀ g ∈ d, GroupOK len g) :
    BodyOK len (writeDiffHunks d) := by
  induction d with
  | nil => simpa [writeDiffHunks] using BodyOK_nil len
  | cons g d ih =>
    obtain ⟨hl, hr, hsl, hsr⟩ := hd g (by simp)
    have ih := ih (fun x hx => hd x (List.mem_cons_of_mem _ hx))
    simp only [writeDiffHunks]
    refine BodyOK_append ?_ ih
    split
    · exact BodyOK_prefixLines 32 (by decide) _ hl (fun l h => (hsl l h).1)
    · exact BodyOK_append (BodyOK_prefixLines 45 (by decide) _ hl (fun l h => (hsl l h).2.1))
        (BodyOK_prefixLines 43 (by decide) _ hr (fun l h => (hsr l h).2.2))

theorem linesWT_flatten_EndsLF (cs : List Bytes) (h : ∀ c ∈ cs, EndsLF c) :
    linesWT cs.flatten = cs.flatMap linesWT := by
  induction cs with
  | nil => simp [linesWT]
  | cons c cs ih =>
    simp only [List.flatten_cons, List.flatMap_cons]
    rw [linesWT_append_of_EndsLF (h c (by simp)), ih (fun x hx => h x (List.mem_cons_of_mem _ hx))]

theorem DiffSafe_of_piece {len : Nat} {cs : List Bytes} (h : ∀ c ∈ cs, EndsLF c)
    (hs : DiffSafe len cs.flatten) {c : Bytes} (hc : c ∈ cs) : DiffSafe len c := by
  intro l hl
  apply hs
  rw [linesWT_flatten_EndsLF cs h]
  exact List.mem_flatMap.mpr ⟨c, hc, hl⟩

theorem rightCat_eq {d : List DiffGroup} (h : ∀ g ∈ d, g.matching = true → g.left = g.right) :
    rightCat d = (d.map (·.right)).flatten := by
  unfold rightCat
  congr 1
  apply List.map_congr_left
  intro g hg
  by_cases hm : g.matching = true
  · simp [hm, h g hg hm]
  · simp [hm]

theorem GroupOK_of_DiffOK {len : Nat} {d : List DiffGroup} {l r : Bytes} (hd : DiffOK d l r)
    (hl : DiffSafe len l) (hr : DiffSafe len r) : ∀ g ∈ d, GroupOK len g := by
  intro g hg
  have hal := hd.aligned
  refine ⟨(hal g hg).1, (hal g hg).2, ?_, ?_⟩
  · refine DiffSafe_of_piece (cs := d.map (·.left)) ?_ (hd.left ▸ hl) (List.mem_map_of_mem hg)
    intro c hc; obtain ⟨g', hg', rfl⟩ := List.mem_map.mp hc; exact (hal g' hg').1
  · refine DiffSafe_of_piece (cs := d.map (·.right)) ?_ (hd.right ▸ hr) (List.mem_map_of_mem hg)
    intro c hc; obtain ⟨g', hg', rfl⟩ := List.mem_map.mp hc; exact (hal g' hg').2

/-- a term of a diff-style conflict: as `TermOK`, and additionally safe under diff prefixes -/
structure DTermOK (len : Nat) (t : Term) : Prop extends TermOK len t where
  safe : DiffSafe len t.contents
  clean : Clean t.label

theorem jj_sec_diff (len : Nat) (hn : 1 ≤ len) (eol : Bytes) (he : IsEol eol) (base add : Term)
    (hb : DTermOK len base) (ha : DTermOK len add) (d : List DiffGroup)
    (hd : DiffOK d base.contents add.contents) (st : JJState) (rs as : List Bytes) (rest : Bytes) :
    parseJJLoop len st rs as (linesWT (writeDiff len eol base add d ++ rest)) =
      parseJJLoop len .diff (base.contents :: rs) (add.contents :: as) (linesWT rest) := by
  have hg := GroupOK_of_DiffOK hd hb.safe ha.safe
  have h1 : NoLF (ascii "diff from: " ++ base.label) := (Clean_append (by decide) hb.clean).noLF
  have h2 : NoLF (ascii "       to: " ++ add.label) := (Clean_append (by decide) ha.clean).noLF
  unfold writeDiff
  simp only [List.append_assoc]
  rw [← List.append_assoc, linesWT_line _ _ (markerLine_Line _ len _ eol h1 he),
    ← List.append_assoc, linesWT_line _ _ (markerLine_Line _ len _ eol h2 he)]
  simp only [parseJJLoop, parseMarker_markerLine _ len hn _ _ he]
  rw [jj_diff_groups len d hg]
  simp only [List.nil_append]
  rw [show leftCat d = base.contents from hd.left, rightCat_eq hd.matching, hd.right]

theorem BodyOK_writeDiff (len : Nat) (hn : 1 ≤ len) (eol : Bytes) (he : IsEol eol) (base add : Term)
    (hb : DTermOK len base) (ha : DTermOK len add) (d : List DiffGroup)
    (hd : DiffOK d base.contents add.contents) : BodyOK len (writeDiff len eol base add d) := by
  have hg := GroupOK_of_DiffOK hd hb.safe ha.safe
  have h1 : NoLF (ascii "diff from: " ++ base.label) := (Clean_append (by decide) hb.clean).noLF
  have h2 : NoLF (ascii "       to: " ++ add.label) := (Clean_append (by decide) ha.clean).noLF
  unfold writeDiff
  exact BodyOK_append (BodyOK_markerLine .diff len hn _ _ h1 he (by decide))
    (BodyOK_append (BodyOK_markerLine .note len hn _ _ h2 he (by decide))
      (BodyOK_writeDiffHunks len d hg))

theorem parseConflictHunk_jj_diff (len : Nat) (hn : 1 ≤ len) (eol : Bytes) (he : IsEol eol)
    (base add : Term) (hb : DTermOK len base) (d : List DiffGroup) (rest : Bytes) :
    parseConflictHunk (writeDiff len eol base add d ++ rest) len =
      parseJJ (writeDiff len eol base add d ++ rest) len := by
  have h1 : NoLF (ascii "diff from: " ++ base.label) := (Clean_append (by decide) hb.clean).noLF
  unfold parseConflictHunk writeDiff
  simp only [List.append_assoc]
  rw [← List.append_assoc, linesWT_line _ _ (markerLine_Line _ len _ eol h1 he)]
  simp [parseMarker_markerLine _ len hn _ _ he]

/-- the diff function reconstructs both (EOL-terminated) inputs, line aligned -/
def DiffFnOK (diffFn : DiffFn) : Prop := ∀ l r, EndsLF l → EndsLF r → DiffOK (diffFn l r) l r

/-- what the loop of `materialize_jj_style_conflict` and the trailing snapshot write together -/
def jjTail (diffFn : DiffFn) (style : Style) (len : Nat) (eol : Bytes) (addTerms : List Term)
    (R : List Term) (i : Nat) (sw : Bool) : Bytes :=
  (jjLoop diffFn style len eol addTerms R i sw).1 ++
    (if (jjLoop diffFn style len eol addTerms R i sw).2 then []
     else writeSide len eol (addTerms.getD (addTerms.length - 1) default))

theorem jjTail_nil (diffFn : DiffFn) (style : Style) (len : Nat) (eol : Bytes) (addTerms : List Term)
    (i : Nat) (sw : Bool) :
    jjTail diffFn style len eol addTerms [] i sw =
      if sw then [] else writeSide len eol (addTerms.getD (addTerms.length - 1) default) := by
  simp [jjTail, jjLoop]

theorem jjTail_cons (diffFn : DiffFn) (style : Style) (hs : style.allowsDiff = true) (len : Nat)
    (eol : Bytes) (addTerms : List Term) (left : Term) (R : List Term) (i : Nat) (sw : Bool) :
    jjTail diffFn style len eol addTerms (left :: R) i sw =
      let addIndex := if sw then i + 1 else i
      let right1 := addTerms.getD addIndex default
      let right2 := addTerms.getD (addIndex + 1) default
      let d1 := diffFn left.contents right1.contents
      let d2 := diffFn left.contents right2.contents
      if !sw && diffSize d2 < diffSize d1 then
        writeSide len eol right1 ++ (writeDiff len eol left right2 d2 ++
          jjTail diffFn style len eol addTerms R (i + 1) true)
      else
        writeDiff len eol left right1 d1 ++ jjTail diffFn style len eol addTerms R (i + 1) sw := by
  cases sw with
  | true => simp [jjTail, jjLoop, hs, List.append_assoc]
  | false =>
    simp only [jjTail, jjLoop, hs, Bool.not_true, Bool.false_eq_true, if_false, Bool.not_false,
      Bool.true_and]
    split <;> simp [List.append_assoc]

theorem getD_append_at {α : Type} (pre : List α) (a : α) (A : List α) (d : α) (k : Nat)
    (hk : pre.length = k) : (pre ++ a :: A).getD k d = a := by
  subst hk; simp [List.getD]

theorem jjTail_diff (diffFn : DiffFn) (hdf : DiffFnOK diffFn) (style : Style)
    (hs : style.allowsDiff = true) (len : Nat) (hn : 1 ≤ len) (eol : Bytes) (he : IsEol eol)
    (addTerms : List Term) (R : List Term) :
    ∀ (A pre : List Term) (i : Nat) (sw : Bool),
      addTerms = pre ++ A → pre.length = (if sw then i + 1 else i) →
      A.length = R.length + (if sw then 0 else 1) →
      (∀ t ∈ R, DTermOK len t) → (∀ t ∈ A, DTermOK len t) →
      BodyOK len (jjTail diffFn style len eol addTerms R i sw) ∧
      (∀ st rs as rest, ∃ st',
        parseJJLoop len st rs as (linesWT (jjTail diffFn style len eol addTerms R i sw ++ rest)) =
          parseJJLoop len st' ((R.map (·.contents)).reverse ++ rs) ((A.map (·.contents)).reverse ++ as)
            (linesWT rest)) ∧
      ((R ≠ [] ∨ sw = false) → ∀ rest,
        parseConflictHunk (jjTail diffFn style len eol addTerms R i sw ++ rest) len =
          parseJJ (jjTail diffFn style len eol addTerms R i sw ++ rest) len) := by
  induction R with
  | nil =>
    intro A pre i sw h1 h2 h3 _ hA
    rw [jjTail_nil]
    cases sw with
    | true =>
      have : A = [] := by simpa using h3
      subst this
      refine ⟨by simpa using BodyOK_nil len, ?_, ?_⟩
      · intro st rs as rest; exact ⟨st, by simp⟩
      · intro h; simp at h
    | false =>
      obtain ⟨a, rfl⟩ : ∃ a, A = [a] := by
        match A, h3 with
        | [a], _ => exact ⟨a, rfl⟩
      have ha := hA a (by simp)
      have hlast : addTerms.getD (addTerms.length - 1) default = a := by
        subst h1; simp [List.getD]
      simp only [Bool.false_eq_true, if_false, hlast]
      refine ⟨BodyOK_writeSide hn he ha.toTermOK, ?_, ?_⟩
      · intro st rs as rest
        exact ⟨.add, by rw [jj_sec_add len hn eol he a ha.toTermOK]; simp⟩
      · intro _ rest; exact parseConflictHunk_jj_add len hn eol he a ha.toTermOK rest
  | cons left R ih =>
    intro A pre i sw h1 h2 h3 hR hA
    have hleft := hR left (by simp)
    have hR' : ∀ t ∈ R, DTermOK len t := fun t ht => hR t (List.mem_cons_of_mem _ ht)
    rw [jjTail_cons diffFn style hs]
    cases A with
    | nil => exfalso; simp only [List.length_nil, List.length_cons] at h3; split at h3 <;> omega
    | cons a A =>
      have ha := hA a (by simp)
      have hA' : ∀ t ∈ A, DTermOK len t := fun t ht => hA t (List.mem_cons_of_mem _ ht)
      have hr1 : addTerms.getD (if sw then i + 1 else i) default = a := by
        rw [h1]; exact getD_append_at pre a A default _ h2
      simp only [hr1]
      have hd1 := hdf left.contents a.contents hleft.ends ha.ends
      cases sw with
      | true =>
        simp only [Bool.not_true, Bool.false_and, Bool.false_eq_true, if_false]
        obtain ⟨ihB, ihP, _⟩ := ih A (pre ++ [a]) (i + 1) true (by simp [h1]) (by simpa using h2)
          (by simpa using h3) hR' hA'
        refine ⟨BodyOK_append (BodyOK_writeDiff len hn eol he left a hleft ha _ hd1) ihB, ?_, ?_⟩
        · intro st rs as rest
          obtain ⟨st', hst'⟩ := ihP .diff (left.contents :: rs) (a.contents :: as) rest
          refine ⟨st', ?_⟩
          rw [List.append_assoc, jj_sec_diff len hn eol he left a hleft ha _ hd1, hst']
          simp
        · intro _ rest
          rw [List.append_assoc]
          exact parseConflictHunk_jj_diff len hn eol he left a hleft _ _
      | false =>
        cases A with
        | nil => exfalso; simp only [List.length_nil, List.length_cons] at h3; simp at h3
        | cons a2 A =>
          have ha2 := hA' a2 (by simp)
          have hA'' : ∀ t ∈ A, DTermOK len t := fun t ht => hA' t (List.mem_cons_of_mem _ ht)
          have hr2 : addTerms.getD (i + 1) default = a2 := by
            rw [h1]
            have := getD_append_at (pre ++ [a]) a2 A default (i + 1) (by simpa using h2)
            simpa using this
          simp only [Bool.false_eq_true, if_false, hr2, Bool.not_false, Bool.true_and]
          have hd2 := hdf left.contents a2.contents hleft.ends ha2.ends
          by_cases hlt : diffSize (diffFn left.contents a2.contents) <
              diffSize (diffFn left.contents a.contents)
          · simp only [hlt, decide_true, if_true]
            obtain ⟨ihB, ihP, _⟩ := ih A (pre ++ [a, a2]) (i + 1) true (by simp [h1])
              (by simp at h2 ⊢; omega) (by simpa using h3) hR' hA''
            refine ⟨BodyOK_append (BodyOK_writeSide hn he ha.toTermOK)
              (BodyOK_append (BodyOK_writeDiff len hn eol he left a2 hleft ha2 _ hd2) ihB), ?_, ?_⟩
            · intro st rs as rest
              obtain ⟨st', hst'⟩ := ihP .diff (left.contents :: rs) (a2.contents :: a.contents :: as) rest
              refine ⟨st', ?_⟩
              rw [List.append_assoc, jj_sec_add len hn eol he a ha.toTermOK, List.append_assoc,
                jj_sec_diff len hn eol he left a2 hleft ha2 _ hd2, hst']
              simp
            · intro _ rest
              rw [List.append_assoc]
              exact parseConflictHunk_jj_add len hn eol he a ha.toTermOK _
          · simp only [hlt, decide_false, Bool.false_eq_true, if_false]
            obtain ⟨ihB, ihP, _⟩ := ih (a2 :: A) (pre ++ [a]) (i + 1) false (by simp [h1])
              (by simpa using h2) (by simpa using h3) hR' hA'
            refine ⟨BodyOK_append (BodyOK_writeDiff len hn eol he left a hleft ha _ hd1) ihB, ?_, ?_⟩
            · intro st rs as rest
              obtain ⟨st', hst'⟩ := ihP .diff (left.contents :: rs) (a.contents :: as) rest
              refine ⟨st', ?_⟩
              rw [List.append_assoc, jj_sec_diff len hn eol he left a hleft ha _ hd1, hst']
              simp
            · intro _ rest
              rw [List.append_assoc]
              exact parseConflictHunk_jj_diff len hn eol he left a hleft _ _

theorem parseMarker_single (p : UInt8) (len : Nat) (h2 : 2 ≤ len) : parseMarker [p] len = none := by
  unfold parseMarker
  cases hm : parseMarkerAnyLen [p] with
  | none => rfl
  | some km =>
    obtain ⟨k, m⟩ := km
    rcases parseMarkerAnyLen_cons hm with h1 | ⟨m', hm', _⟩
    · simp only [ge_iff_le]; rw [if_neg (by omega)]
    · simp [parseMarkerAnyLen] at hm'

theorem DiffSafe_pad {len : Nat} (h2 : 2 ≤ len) {c eol : Bytes} (h : DiffSafe len c) (he : IsEol eol) :
    DiffSafe len (c ++ eol) := by
  obtain ⟨ls, last, rfl, hls, hlast⟩ := lines_decomp c
  unfold DiffSafe at h ⊢
  rw [linesWT_decomp ls last hls hlast] at h
  obtain ⟨e, rfl, hne, hws⟩ := eol_cases he
  have hline : Line (last ++ (e ++ [LF])) := ⟨last ++ e, by simp, NoLF_append hlast hne⟩
  have : linesWT (ls.flatten ++ last ++ (e ++ [LF])) = ls ++ [last ++ (e ++ [LF])] := by
    rw [List.append_assoc, linesWT_flatten_lines ls _ hls]
    have := linesWT_line (last ++ (e ++ [LF])) [] hline
    simp only [List.append_nil] at this
    rw [this]; simp [linesWT]
  rw [this]
  intro l hl
  rcases List.mem_append.mp hl with h1 | h1
  · exact h l (List.mem_append_left _ h1)
  · simp only [List.mem_singleton] at h1; subst h1
    have key : ∀ p : UInt8, (last ≠ [] → parseMarker (p :: last) len = none) →
        parseMarker (p :: (last ++ (e ++ [LF]))) len = none := by
      intro p hp
      have := parseMarkerAnyLen_append_ws (p :: last) (e ++ [LF]) (by simp) (by simp) hws
      simp only [List.cons_append] at this
      unfold parseMarker; rw [this]
      by_cases hl0 : last = []
      · subst hl0; exact parseMarker_single p len h2
      · exact hp hl0
    refine ⟨key _ ?_, key _ ?_, key _ ?_⟩ <;> intro hl0
    · exact (h last (by simp [hl0])).1
    · exact (h last (by simp [hl0])).2.1
    · exact (h last (by simp [hl0])).2.2

/-- `materialize_jj_style_conflict` for the two diff styles, relative to `DiffFnOK` -/
theorem jj_diff_conflict (diffFn : DiffFn) (hdf : DiffFnOK diffFn) (style : Style)
    (hs : style.allowsDiff = true) (len : Nat) (hn : 1 ≤ len) (eol : Bytes) (he : IsEol eol)
    (info : Bytes) (sides : List Term) (hodd : sides.length % 2 = 1)
    (hok : ∀ t ∈ sides, DTermOK len t) :
    ∃ B, materializeJJ diffFn sides info style len eol =
        writeMarker .conflictStart len info ++ eol ++
          (B ++ writeMarker .conflictEnd len (info ++ ascii " ends")) ∧
      BodyOK len B ∧ parseConflictHunk B len = sides.map (·.contents) := by
  cases sides with
  | nil => simp at hodd
  | cons a0 rest =>
    have heven : rest.length % 2 = 0 := by simp at hodd; omega
    have hlen : (adds rest).length = (removes rest).length := by
      rw [(adds_removes_length rest).1, (adds_removes_length rest).2]; omega
    have h0 : DTermOK len a0 := hok a0 (by simp)
    have hR : ∀ t ∈ adds rest, DTermOK len t := fun t ht =>
      hok t (List.mem_cons_of_mem _ ((adds_removes_subset rest).1 t ht))
    have hA : ∀ t ∈ removes rest, DTermOK len t := fun t ht =>
      hok t (List.mem_cons_of_mem _ ((adds_removes_subset rest).2 t ht))
    have hfinal : interleave (a0.contents :: (removes rest).map (·.contents)) ((adds rest).map (·.contents))
        = (a0 :: rest).map (·.contents) := by
      rw [← (adds_removes_map (·.contents) rest).1, ← (adds_removes_map (·.contents) rest).2,
        interleave_even _ (by simpa using heven)]; simp
    have hmat : materializeJJ diffFn (a0 :: rest) info style len eol =
        writeMarker .conflictStart len info ++ eol ++
          (((if (style != Style.diff) = true then writeSide len eol a0 else []) ++
            jjTail diffFn style len eol (a0 :: removes rest) (adds rest) 0 (style != Style.diff)) ++
          writeMarker .conflictEnd len (info ++ ascii " ends")) := by
      unfold materializeJJ jjTail
      simp only [(adds_removes_cons a0 rest).1, (adds_removes_cons a0 rest).2, List.headD_cons]
      simp [List.append_assoc]
    refine ⟨_, hmat, ?_⟩
    cases hsw : (style != Style.diff) with
    | true =>
      obtain ⟨hB, hP, _⟩ := jjTail_diff diffFn hdf style hs len hn eol he (a0 :: removes rest)
        (adds rest) (removes rest) [a0] 0 true rfl rfl (by simpa using hlen.symm) hR hA
      simp only [if_true]
      refine ⟨BodyOK_append (BodyOK_writeSide hn he h0.toTermOK) hB, ?_⟩
      rw [parseConflictHunk_jj_add len hn eol he a0 h0.toTermOK]
      unfold parseJJ
      rw [jj_sec_add len hn eol he a0 h0.toTermOK]
      obtain ⟨st', hst'⟩ := hP .add [] [a0.contents] []
      simp only [List.append_nil] at hst'
      rw [hst']
      simp only [linesWT, parseJJLoop]
      simp [hlen, hfinal]
    | false =>
      obtain ⟨hB, hP, hH⟩ := jjTail_diff diffFn hdf style hs len hn eol he (a0 :: removes rest)
        (adds rest) (a0 :: removes rest) [] 0 false rfl rfl (by simpa using hlen.symm) hR
        (by intro t ht; rcases List.mem_cons.mp ht with rfl | h
            · exact h0
            · exact hA t h)
      simp only [Bool.false_eq_true, if_false, List.nil_append]
      refine ⟨hB, ?_⟩
      have h1 := hH (Or.inr rfl) []
      simp only [List.append_nil] at h1
      rw [h1]
      unfold parseJJ
      obtain ⟨st', hst'⟩ := hP .unknown [] [] []
      simp only [List.append_nil] at hst'
      rw [hst']
      simp only [linesWT, parseJJLoop]
      simp [hlen, hfinal]

theorem dsides_ok_eol {len : Nat} {labels : List Bytes} (hl : LabelsOK labels) {h : List Bytes}
    (hc : ∀ c ∈ h, ContentOK len c) (hd : ∀ c ∈ h, DiffSafe len c) (hall : allSidesHaveEol h = true) :
    ∀ t ∈ buildHunkSides h labels, DTermOK len t := by
  obtain ⟨hm, hlab⟩ := buildHunkSides_spec hl h
  intro t ht
  exact ⟨sides_ok_eol hl hc hall t ht, hd _ (mem_contents_of_map hm ht), hlab t ht⟩

theorem dsides_ok_pad {len : Nat} (h2 : 2 ≤ len) {labels : List Bytes} (hl : LabelsOK labels)
    {h : List Bytes} (hc : ∀ c ∈ h, ContentOK len c) (hd : ∀ c ∈ h, DiffSafe len c) {eol : Bytes}
    (he : IsEol eol) :
    ∀ t ∈ (buildHunkSides h labels).map (fun t => { t with contents := t.contents ++ eol }),
      DTermOK len t := by
  obtain ⟨hm, hlab⟩ := buildHunkSides_spec hl h
  intro t ht
  have hok := sides_ok_pad hl hc he t ht
  obtain ⟨t0, ht0, rfl⟩ := List.mem_map.mp ht
  exact ⟨hok, DiffSafe_pad h2 (hd _ (mem_contents_of_map hm ht0)) he, hlab t0 ht0⟩

theorem diff_renders_eol (diffFn : DiffFn) (hdf : DiffFnOK diffFn) (style : Style)
    (hs : style.allowsDiff = true) (len : Nat) (hn : 1 ≤ len) (eol : Bytes)
    (he : IsEol eol) (labels : List Bytes) (hl : LabelsOK labels) (h : List Bytes)
    (hodd : h.length % 2 = 1) (hc : ∀ c ∈ h, ContentOK len c) (hd : ∀ c ∈ h, DiffSafe len c)
    (hall : allSidesHaveEol h = true) (ci nc : Nat) :
    RendersEol len eol h (materializeConflict diffFn style len labels eol h ci nc) := by
  have hm := (buildHunkSides_spec hl h).1
  have hlen : (buildHunkSides h labels).length % 2 = 1 := by
    rw [← List.length_map (f := (·.contents)), hm]; exact hodd
  obtain ⟨B, hmat, hB, hp⟩ := jj_diff_conflict diffFn hdf style hs len hn eol he (infoText ci nc)
    (buildHunkSides h labels) hlen (dsides_ok_eol hl hc hd hall)
  refine ⟨_, _, B, Clean_infoText ci nc, Clean_infoEnds ci nc, hB, hp.trans hm, ?_⟩
  rw [materializeConflict_jj diffFn style len labels eol h ci nc
    (by intro hg; subst hg; simp [Style.allowsDiff] at hs) hl]
  simp only [hall, if_true, hmat]
  simp [List.append_assoc]

theorem diff_renders_noeol (diffFn : DiffFn) (hdf : DiffFnOK diffFn) (style : Style)
    (hs : style.allowsDiff = true) (len : Nat) (h2 : 2 ≤ len) (eol : Bytes)
    (he : IsEol eol) (labels : List Bytes) (hl : LabelsOK labels) (h : List Bytes)
    (hodd : h.length % 2 = 1) (hc : ∀ c ∈ h, ContentOK len c) (hd : ∀ c ∈ h, DiffSafe len c)
    (hall : allSidesHaveEol h = false) (ci nc : Nat) :
    RendersNoEol len eol h (materializeConflict diffFn style len labels eol h ci nc) := by
  have hm := sides_pad_contents hl h eol
  have hlen : ((buildHunkSides h labels).map
      (fun t => { t with contents := t.contents ++ eol })).length % 2 = 1 := by
    rw [← List.length_map (f := (·.contents)), hm]; simpa using hodd
  obtain ⟨B, hmat, hB, hp⟩ := jj_diff_conflict diffFn hdf style hs len (by omega) eol he
    (infoText ci nc) _ hlen (dsides_ok_pad h2 hl hc hd he)
  refine ⟨_, _, B, Clean_infoText ci nc, Clean_infoEnds ci nc, hB, hp.trans hm, ?_⟩
  rw [materializeConflict_jj diffFn style len labels eol h ci nc
    (by intro hg; subst hg; simp [Style.allowsDiff] at hs) hl]
  simp only [hall, Bool.false_eq_true, if_false, hmat]
end JjModel.Conflicts
