import JjModel.Lemmas.RevsetEval
/-!
  C19 lemmas, part 8: `resolve_visibility` — the plan produced for an expression denotes what
  the expression denotes (with `all()` = ancestors of the visible heads and referenced commits).
-/
namespace JjModel.Revset

/-- The expression grammar covered by `eval_sound` (every commit literal inside the graph).
Not covered: `heads_range` (optimizer-internal; see `OkEH`). -/
def OkE (g : Graph) : Expr → Prop
  | .none => True
  | .all => True
  | .visibleHeads => True
  | .visibleHeadsOrReferenced => True
  | .root => True
  | .commits l => ∀ x ∈ l, x < g.size
  | .ancestors h _ _ _ => OkE g h
  | .descendants r _ _ => OkE g r
  | .range r h _ _ _ => OkE g r ∧ OkE g h
  | .dagRange r h => OkE g r ∧ OkE g h
  | .heads x => OkE g x
  | .roots x => OkE g x
  | .coalesce a b => OkE g a ∧ OkE g b
  | .notIn x => OkE g x
  | .union a b => OkE g a ∧ OkE g b
  | .inter a b => OkE g a ∧ OkE g b
  | .diff a b => OkE g a ∧ OkE g b
  | .forkPoint x => OkE g x
  | .mergePoint x => OkE g x
  | .forks => True
  | .latest x _ => OkE g x
  | .reachable s d => OkE g s ∧ OkE g d
  | .headsRange _ _ _ _ => False

theorem refsOf_lt (g : Graph) : ∀ (e : Expr), OkE g e → ∀ x ∈ refsOf e, x < g.size := by
  intro e
  induction e with
  | commits l => intro h x hx; exact h x hx
  | ancestors h lo hi fp ih => intro hok; exact ih hok
  | descendants r lo hi ih => intro hok; exact ih hok
  | range r h lo hi fp ihr ihh =>
    intro hok x hx
    simp only [refsOf, List.mem_append] at hx
    rcases hx with hx | hx
    · exact ihr hok.1 x hx
    · exact ihh hok.2 x hx
  | dagRange r h ihr ihh =>
    intro hok x hx
    simp only [refsOf, List.mem_append] at hx
    rcases hx with hx | hx
    · exact ihr hok.1 x hx
    · exact ihh hok.2 x hx
  | heads x ih => intro hok; exact ih hok
  | roots x ih => intro hok; exact ih hok
  | coalesce a b iha ihb =>
    intro hok x hx
    simp only [refsOf, List.mem_append] at hx
    rcases hx with hx | hx
    · exact iha hok.1 x hx
    · exact ihb hok.2 x hx
  | notIn x ih => intro hok; exact ih hok
  | union a b iha ihb =>
    intro hok x hx
    simp only [refsOf, List.mem_append] at hx
    rcases hx with hx | hx
    · exact iha hok.1 x hx
    · exact ihb hok.2 x hx
  | inter a b iha ihb =>
    intro hok x hx
    simp only [refsOf, List.mem_append] at hx
    rcases hx with hx | hx
    · exact iha hok.1 x hx
    · exact ihb hok.2 x hx
  | diff a b iha ihb =>
    intro hok x hx
    simp only [refsOf, List.mem_append] at hx
    rcases hx with hx | hx
    · exact iha hok.1 x hx
    · exact ihb hok.2 x hx
  | none => intro _ x hx; simp [refsOf] at hx
  | all => intro _ x hx; simp [refsOf] at hx
  | visibleHeads => intro _ x hx; simp [refsOf] at hx
  | visibleHeadsOrReferenced => intro _ x hx; simp [refsOf] at hx
  | root => intro _ x hx; simp [refsOf] at hx
  | reachable s d ihs ihd =>
    intro hok x hx
    simp only [refsOf, List.mem_append] at hx
    rcases hx with hx | hx
    · exact ihs hok.1 x hx
    · exact ihd hok.2 x hx
  | headsRange r h fp f _ _ _ => intro hok; exact absurd hok (by simp [OkE])
  | forkPoint x ih => intro hok; exact ih hok
  | mergePoint x ih => intro hok; exact ih hok
  | forks => intro _ x hx; simp [refsOf] at hx
  | latest x n ih => intro hok; exact ih hok

section
variable (g : Graph) (hw : g.WF) (refs : List Nat) (hrefs : ∀ x ∈ refs, x < g.size)
include hw hrefs

theorem okR_vhor : OkR g (rVhor g refs) := by
  intro x hx
  simp only [List.mem_append] at hx
  rcases hx with hx | hx
  · exact hrefs x hx
  · exact hw.heads_lt x hx

theorem resolve_ok : ∀ (e : Expr), OkE g e → OkR g (resolve g refs e) := by
  intro e
  induction e with
  | none => intro _; simp [resolve, OkR]
  | all => intro _; simp only [resolve, rAll, OkR]; exact okR_vhor g hw refs hrefs
  | visibleHeads => intro _; simp only [resolve, OkR]; exact hw.heads_lt
  | visibleHeadsOrReferenced => intro _; simp only [resolve]; exact okR_vhor g hw refs hrefs
  | root => intro _; simp only [resolve, OkR]; intro x hx; simp at hx; subst hx; exact hw.size_pos
  | commits l => intro h; simp only [resolve, OkR]; exact h
  | ancestors h lo hi fp ih => intro hok; simp only [resolve, OkR]; exact ih hok
  | descendants r lo hi ih =>
    intro hok; simp only [resolve, OkR]; exact ⟨ih hok, okR_vhor g hw refs hrefs⟩
  | range r h lo hi fp ihr ihh => intro hok; simp only [resolve, OkR]; exact ⟨ihr hok.1, ihh hok.2⟩
  | dagRange r h ihr ihh => intro hok; simp only [resolve, OkR]; exact ⟨ihr hok.1, ihh hok.2⟩
  | heads x ih => intro hok; simp only [resolve, OkR]; exact ih hok
  | roots x ih => intro hok; simp only [resolve, OkR]; exact ih hok
  | coalesce a b iha ihb => intro hok; simp only [resolve, OkR]; exact ⟨iha hok.1, ihb hok.2⟩
  | notIn x ih =>
    intro hok; simp only [resolve, rAll, OkR]; exact ⟨okR_vhor g hw refs hrefs, ih hok⟩
  | union a b iha ihb => intro hok; simp only [resolve, OkR]; exact ⟨iha hok.1, ihb hok.2⟩
  | inter a b iha ihb => intro hok; simp only [resolve, OkR]; exact ⟨iha hok.1, ihb hok.2⟩
  | diff a b iha ihb => intro hok; simp only [resolve, OkR]; exact ⟨iha hok.1, ihb hok.2⟩
  | reachable s d ihs ihd => intro hok; simp only [resolve, OkR]; exact ⟨ihs hok.1, ihd hok.2⟩
  | headsRange r h fp f _ _ _ => intro hok; exact absurd hok (by simp [OkE])
  | forkPoint x ih => intro hok; simp only [resolve, OkR]; exact ih hok
  | mergePoint x ih =>
    intro hok; simp only [resolve, OkR]; exact ⟨ih hok, okR_vhor g hw refs hrefs⟩
  | forks => intro _; simp only [resolve, OkR]; exact okR_vhor g hw refs hrefs
  | latest x n ih => intro hok; simp only [resolve, OkR]; exact ih hok

end

theorem ancAll_vhor (g : Graph) (refs : List Nat) (p : Nat) :
    AncOf g false 0 none (fun p => p ∈ refs ++ g.heads) p ↔ AncAll g (· ∈ refs ++ g.heads) p := by
  simp only [AncOf, AncAll, Graph.adj_false]
  constructor
  · rintro ⟨x, hx, k, _, hk⟩; exact ⟨x, hx, k, hk⟩
  · rintro ⟨x, hx, k, hk⟩; exact ⟨x, hx, k, ⟨Nat.zero_le _, trivial⟩, hk⟩

/-- `resolve_visibility` preserves the meaning. -/
theorem resolve_spec (g : Graph) (refs : List Nat) :
    ∀ (e : Expr), OkE g e → ∀ p, denoteR g (resolve g refs e) p ↔ denote g (refs ++ g.heads) e p := by
  intro e
  induction e with
  | none => intro _ p; simp [resolve, denoteR, denote]
  | all => intro _ p; simp only [resolve, rAll, rVhor, denoteR, denote]; exact ancAll_vhor g refs p
  | visibleHeads => intro _ p; simp [resolve, denoteR, denote]
  | visibleHeadsOrReferenced => intro _ p; simp [resolve, rVhor, denoteR, denote]
  | root => intro _ p; simp [resolve, denoteR, denote]
  | commits l => intro _ p; simp [resolve, denoteR, denote]
  | ancestors h lo hi fp ih =>
    intro hok p
    simp only [resolve, denoteR, denote, AncOf, ih hok]
  | descendants r lo hi ih =>
    intro hok p
    simp only [resolve, rVhor, denoteR, denote, ih hok]
  | range r h lo hi fp ihr ihh =>
    intro hok p
    simp only [resolve, denoteR, denote, AncOf, AncAll, ihr hok.1, ihh hok.2]
  | dagRange r h ihr ihh =>
    intro hok p
    simp only [resolve, denoteR, denote, AncAll, ihr hok.1, ihh hok.2, Path]
    constructor
    · rintro ⟨h1, y, hy, k, _, hk⟩; exact ⟨h1, y, hy, k, hk⟩
    · rintro ⟨h1, y, hy, k, hk⟩; exact ⟨h1, y, hy, k, ⟨Nat.zero_le _, trivial⟩, hk⟩
  | heads x ih => intro hok p; simp only [resolve, denoteR, denote, HeadsOf, ih hok]
  | roots x ih => intro hok p; simp only [resolve, denoteR, denote, RootsOf, ih hok]
  | coalesce a b iha ihb =>
    intro hok p; simp only [resolve, denoteR, denote, CoalesceOf, iha hok.1, ihb hok.2]
  | notIn x ih =>
    intro hok p
    simp only [resolve, rAll, rVhor, denoteR, denote, ih hok]
    rw [ancAll_vhor]
  | union a b iha ihb => intro hok p; simp only [resolve, denoteR, denote, iha hok.1, ihb hok.2]
  | inter a b iha ihb => intro hok p; simp only [resolve, denoteR, denote, iha hok.1, ihb hok.2]
  | diff a b iha ihb => intro hok p; simp only [resolve, denoteR, denote, iha hok.1, ihb hok.2]
  | reachable s d ihs ihd =>
    intro hok p
    have hD : denoteR g (resolve g refs d) = denote g (refs ++ g.heads) d :=
      funext fun x => propext (ihd hok.2 x)
    simp only [resolve, denoteR, denote, hD, ihs hok.1]
  | headsRange r h fp f _ _ _ => intro hok; exact absurd hok (by simp [OkE])
  | forkPoint x ih =>
    intro hok p; simp only [resolve, denoteR, denote, ForkPointOf, HeadsOf, ih hok]
  | mergePoint x ih =>
    intro hok p
    have hS : denoteR g (resolve g refs x) = denote g (refs ++ g.heads) x :=
      funext fun y => propext (ih hok y)
    simp only [resolve, rVhor, denoteR, denote, hS]
  | forks => intro _ p; simp only [resolve, rVhor, denoteR, denote]
  | latest x n ih => intro hok p; simp only [resolve, denoteR, denote, LatestOf, ih hok]

end JjModel.Revset
