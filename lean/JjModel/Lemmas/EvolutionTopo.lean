import JjModel.Lemmas.EvolutionBasic
/-!
  `topoLoop` (the explicit-stack depth-first search of `dag_walk::topo_order_forward_ok`):
  * when it returns `ok res`: `res` is duplicate free, contains the start nodes, is closed under
    edges, lists every node after all of its neighbours, and contains only reachable nodes;
  * when the edges are acyclic it never returns the cycle error.
-/
namespace JjModel.Evolution

/-- for every expanded entry `(n, true)` of the stack: each neighbour of `n` is already emitted or
sits above it on the stack (`above` = nodes of the entries above) -/
def StackOk (m : PMap) (result : List Nat) : List Nat → List (Nat × Bool) → Prop
  | _, [] => True
  | above, (n, f) :: s =>
    (f = true → ∀ p, Edge m n p → p ∈ result ∨ p ∈ above) ∧ StackOk m result (n :: above) s

theorem StackOk.mono {m : PMap} {result result' : List Nat} {s : List (Nat × Bool)} :
    ∀ {above above' : List Nat}, StackOk m result above s →
    (∀ p, p ∈ result ∨ p ∈ above → p ∈ result' ∨ p ∈ above') → StackOk m result' above' s := by
  induction s with
  | nil => intros; trivial
  | cons e s ih =>
    obtain ⟨n, f⟩ := e
    intro above above' h hsub
    refine ⟨fun hf p hp => hsub p (h.1 hf p hp), ih h.2 ?_⟩
    intro p hp
    rcases hp with hp | hp
    · rcases hsub p (Or.inl hp) with h1 | h1
      · exact Or.inl h1
      · exact Or.inr (List.mem_cons_of_mem _ h1)
    · rcases List.mem_cons.mp hp with h1 | h1
      · exact Or.inr (by simp [h1])
      · rcases hsub p (Or.inr h1) with h2 | h2
        · exact Or.inl h2
        · exact Or.inr (List.mem_cons_of_mem _ h2)

theorem StackOk.falses {m : PMap} {result : List Nat} {t : List (Nat × Bool)} (l : List Nat) :
    ∀ {above : List Nat}, StackOk m result (l.reverse ++ above) t →
    StackOk m result above (l.map (·, false) ++ t) := by
  induction l with
  | nil => intro above h; simpa using h
  | cons a l ih =>
    intro above h
    refine ⟨by simp, ih ?_⟩
    simpa [List.reverse_cons, List.append_assoc] using h

structure TopoInv (m : PMap) (start : List Nat) (stack : List (Nat × Bool)) (result : List Nat) :
    Prop where
  nodup : result.Nodup
  order : ∀ n, n ∈ result → ∀ p, Edge m n p → Later result.reverse n p
  stack_ok : StackOk m result [] stack
  cover : ∀ s, s ∈ start → s ∈ result ∨ ∃ f, (s, f) ∈ stack
  sound : ∀ x, (x ∈ result ∨ ∃ f, (x, f) ∈ stack) → Reach m start x

theorem topoLoop_spec (m : PMap) (start : List Nat) (stack : List (Nat × Bool))
    (visiting result : List Nat) (h : TopoInv m start stack result) :
    ∀ res, topoLoop m stack visiting result = .ok res → TopoInv m start [] res := by
  fun_induction topoLoop m stack visiting result with
  | case1 visiting result =>
    intro res hres
    simp at hres
    subst hres
    exact h
  | case2 visiting result n expanded s hr ih =>
    apply ih
    refine ⟨h.nodup, h.order, ?_, ?_, ?_⟩
    · refine StackOk.mono h.stack_ok.2 ?_
      intro p hp
      rcases hp with hp | hp
      · exact Or.inl hp
      · simp at hp; subst hp; exact Or.inl hr
    · intro s0 hs0
      rcases h.cover s0 hs0 with h1 | ⟨f, h1⟩
      · exact Or.inl h1
      · rcases List.mem_cons.mp h1 with h2 | h2
        · have : s0 = n := by simpa using congrArg Prod.fst h2
          subst this; exact Or.inl hr
        · exact Or.inr ⟨f, h2⟩
    · intro x hx
      apply h.sound
      rcases hx with hx | ⟨f, hx⟩
      · exact Or.inl hx
      · exact Or.inr ⟨f, List.mem_cons_of_mem _ hx⟩
  | case3 visiting result n s hr ih =>
    apply ih
    refine ⟨?_, ?_, ?_, ?_, ?_⟩
    · exact List.nodup_append.mpr ⟨h.nodup, by simp, by
        intro a ha b hb; simp at hb; subst hb; intro hab; subst hab; exact hr ha⟩
    · intro n' hn' p hp
      rw [List.reverse_append]
      simp only [List.reverse_cons, List.reverse_nil, List.nil_append, List.singleton_append]
      rcases List.mem_append.mp hn' with h1 | h1
      · exact (h.order n' h1 p hp).cons
      · simp at h1; subst h1
        rcases h.stack_ok.1 rfl p hp with h2 | h2
        · exact Later.cons_self (by simpa using h2)
        · simp at h2
    · refine StackOk.mono h.stack_ok.2 ?_
      intro p hp
      rcases hp with hp | hp
      · exact Or.inl (by simp [hp])
      · simp at hp; subst hp; exact Or.inl (by simp)
    · intro s0 hs0
      rcases h.cover s0 hs0 with h1 | ⟨f, h1⟩
      · exact Or.inl (by simp [h1])
      · rcases List.mem_cons.mp h1 with h2 | h2
        · have : s0 = n := by simpa using congrArg Prod.fst h2
          subst this; exact Or.inl (by simp)
        · exact Or.inr ⟨f, h2⟩
    · intro x hx
      apply h.sound
      rcases hx with hx | ⟨f, hx⟩
      · rcases List.mem_append.mp hx with h1 | h1
        · exact Or.inl h1
        · simp at h1; subst h1; exact Or.inr ⟨true, by simp⟩
      · exact Or.inr ⟨f, List.mem_cons_of_mem _ hx⟩
  | case4 visiting result n expanded s hr hne hv =>
    intro res hres
    simp at hres
  | case5 visiting result n expanded s hr hne hv ih =>
    have hf : expanded = false := by simpa using hne
    subst hf
    apply ih
    refine ⟨h.nodup, h.order, ?_, ?_, ?_⟩
    · apply StackOk.falses
      refine ⟨?_, ?_⟩
      · intro _ p hp
        exact Or.inr (by simpa [Edge] using hp)
      · refine StackOk.mono h.stack_ok.2 ?_
        intro p hp
        rcases hp with hp | hp
        · exact Or.inl hp
        · simp at hp; subst hp; exact Or.inr (by simp)
    · intro s0 hs0
      rcases h.cover s0 hs0 with h1 | ⟨f, h1⟩
      · exact Or.inl h1
      · rcases List.mem_cons.mp h1 with h2 | h2
        · have : s0 = n := by simpa using congrArg Prod.fst h2
          subst this; exact Or.inr ⟨true, by simp⟩
        · exact Or.inr ⟨f, by simp [h2]⟩
    · intro x hx
      rcases hx with hx | ⟨f, hx⟩
      · exact h.sound x (Or.inl hx)
      · rcases List.mem_append.mp hx with h1 | h1
        · have hn : Reach m start n := h.sound n (Or.inr ⟨false, by simp⟩)
          have : x ∈ m.nbrs n := by
            simp only [List.mem_map, List.mem_reverse] at h1
            obtain ⟨a, ha, hax⟩ := h1
            have : a = x := by simpa using congrArg Prod.fst hax
            subst this; exact ha
          exact .step hn this
        · rcases List.mem_cons.mp h1 with h2 | h2
          · have : x = n := by simpa using congrArg Prod.fst h2
            subst this; exact h.sound x (Or.inr ⟨false, by simp⟩)
          · exact h.sound x (Or.inr ⟨f, List.mem_cons_of_mem _ h2⟩)

/-! ### no cycle error on an acyclic map -/

/-- nodes of the expanded entries, top first: the `visiting` set -/
def trueNodes : List (Nat × Bool) → List Nat
  | [] => []
  | (n, true) :: s => n :: trueNodes s
  | (_, false) :: s => trueNodes s

theorem trueNodes_falses (l : List Nat) (t : List (Nat × Bool)) :
    trueNodes (l.map (·, false) ++ t) = trueNodes t := by
  induction l with
  | nil => rfl
  | cons a l ih => simpa [trueNodes] using ih

theorem mem_trueNodes {s : List (Nat × Bool)} {n : Nat} (h : n ∈ trueNodes s) : (n, true) ∈ s := by
  induction s with
  | nil => simp [trueNodes] at h
  | cons e s ih =>
    obtain ⟨a, f⟩ := e
    cases f with
    | false => simp only [trueNodes] at h; exact List.mem_cons_of_mem _ (ih h)
    | true =>
      simp only [trueNodes, List.mem_cons] at h
      rcases h with h | h
      · subst h; simp
      · exact List.mem_cons_of_mem _ (ih h)

/-- every entry above an expanded entry `(n, true)` is reachable from `n` by at least one edge -/
def PathOk (m : PMap) : List Nat → List (Nat × Bool) → Prop
  | _, [] => True
  | above, (n, f) :: s => (f = true → ∀ x, x ∈ above → Plus m n x) ∧ PathOk m (n :: above) s

theorem PathOk.mono {m : PMap} {s : List (Nat × Bool)} :
    ∀ {A A' : List Nat}, PathOk m A s → (∀ z, z ∈ A' → z ∈ A ∨ ∃ x, x ∈ A ∧ Plus m x z) →
    PathOk m A' s := by
  induction s with
  | nil => intros; trivial
  | cons e s ih =>
    obtain ⟨n, f⟩ := e
    intro A A' h hsub
    refine ⟨?_, ih h.2 ?_⟩
    · intro hf z hz
      rcases hsub z hz with h1 | ⟨x, hx, hxz⟩
      · exact h.1 hf z h1
      · exact (h.1 hf x hx).trans hxz
    · intro z hz
      rcases List.mem_cons.mp hz with h1 | h1
      · exact Or.inl (by simp [h1])
      · rcases hsub z h1 with h2 | ⟨x, hx, hxz⟩
        · exact Or.inl (List.mem_cons_of_mem _ h2)
        · exact Or.inr ⟨x, List.mem_cons_of_mem _ hx, hxz⟩

theorem PathOk.falses {m : PMap} {t : List (Nat × Bool)} (l : List Nat) :
    ∀ {above : List Nat}, PathOk m (l.reverse ++ above) t → PathOk m above (l.map (·, false) ++ t) := by
  induction l with
  | nil => intro above h; simpa using h
  | cons a l ih =>
    intro above h
    refine ⟨by simp, ih ?_⟩
    simpa [List.reverse_cons, List.append_assoc] using h

theorem PathOk.mem {m : PMap} {s : List (Nat × Bool)} {n : Nat} :
    ∀ {above : List Nat}, PathOk m above s → (n, true) ∈ s → ∀ y, y ∈ above → Plus m n y := by
  induction s with
  | nil => intro _ _ h; simp at h
  | cons e s ih =>
    obtain ⟨a, f⟩ := e
    intro above h hmem y hy
    rcases List.mem_cons.mp hmem with h1 | h1
    · have h2 : n = a ∧ true = f := by simpa using h1
      obtain ⟨rfl, rfl⟩ := h2
      exact h.1 rfl y hy
    · exact ih h.2 h1 y (List.mem_cons_of_mem _ hy)

structure PathInv (m : PMap) (stack : List (Nat × Bool)) (visiting result : List Nat) : Prop where
  vis : visiting = trueNodes stack
  fresh : ∀ n, n ∈ visiting → n ∉ result
  path : PathOk m [] stack

theorem topoLoop_no_error (m : PMap) (hac : WithinAcyclic m) (stack : List (Nat × Bool))
    (visiting result : List Nat) (h : PathInv m stack visiting result) :
    ∀ c, topoLoop m stack visiting result ≠ .error c := by
  fun_induction topoLoop m stack visiting result with
  | case1 visiting result => intro c hc; simp at hc
  | case2 visiting result n expanded s hr ih =>
    apply ih
    have hf : expanded = false := by
      cases expanded with
      | false => rfl
      | true =>
        exfalso
        have : n ∈ visiting := by rw [h.vis]; simp [trueNodes]
        exact h.fresh n this hr
    subst hf
    refine ⟨by simpa [trueNodes] using h.vis, h.fresh, ?_⟩
    exact PathOk.mono h.path.2 (fun z hz => by simp at hz)
  | case3 visiting result n s hr ih =>
    apply ih
    have hv : visiting = n :: trueNodes s := by simpa [trueNodes] using h.vis
    refine ⟨?_, ?_, ?_⟩
    · rw [hv]; simp
    · intro x hx
      have hx' : x ∈ trueNodes s := by
        have := List.mem_of_mem_erase hx
        rw [hv] at hx
        simpa using hx
      intro hxr
      rcases List.mem_append.mp hxr with h1 | h1
      · exact h.fresh x (by rw [hv]; exact List.mem_cons_of_mem _ hx') h1
      · simp at h1; subst h1
        exact hac.no_loop x (PathOk.mem h.path.2 (mem_trueNodes hx') x (by simp))
    · exact PathOk.mono h.path.2 (fun z hz => by simp at hz)
  | case4 visiting result n expanded s hr hne hv =>
    have hf : expanded = false := by simpa using hne
    subst hf
    exfalso
    have hv' : n ∈ trueNodes s := by
      have := h.vis; simp only [trueNodes] at this; rw [this] at hv; exact hv
    exact hac.no_loop n (PathOk.mem h.path.2 (mem_trueNodes hv') n (by simp))
  | case5 visiting result n expanded s hr hne hv ih =>
    have hf : expanded = false := by simpa using hne
    subst hf
    apply ih
    refine ⟨?_, ?_, ?_⟩
    · rw [trueNodes_falses]
      have := h.vis; simp only [trueNodes] at this
      simp [trueNodes, this]
    · intro x hx
      rcases List.mem_cons.mp hx with h1 | h1
      · subst h1; exact hr
      · exact h.fresh x h1
    · apply PathOk.falses
      refine ⟨?_, ?_⟩
      · intro _ x hx
        exact .single (by simpa [Edge] using hx)
      · refine PathOk.mono h.path.2 ?_
        intro z hz
        rcases List.mem_cons.mp hz with h1 | h1
        · exact Or.inl (by simp [h1])
        · refine Or.inr ⟨n, by simp, .single ?_⟩
          simpa [Edge] using h1

end JjModel.Evolution
