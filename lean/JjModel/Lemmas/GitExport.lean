import JjModel.Lemmas.GitSync
/-! Lemmas about `exportRefs` (C34): the effect of `export_refs_to_git` ref by ref, who is reported
failed, and what `copy_exportable_local_bookmarks_to_remote_view` records. -/
namespace JjModel.GitSync

/-- `delete_git_ref` as a function of the ref's current value: (failure?, value afterwards) -/
def delRes (cur : Option Nat) (o : Nat) : Option FailReason × Option Nat :=
  match cur with
  | none => (none, none)
  | some c => if c = o then (none, none) else (some .deletedInJjModifiedInGit, some c)

/-- `update_git_ref` as a function of the ref's current value: (failure?, value afterwards) -/
def updRes (cur old : Option Nat) (new : Nat) : Option FailReason × Option Nat :=
  match old with
  | none =>
    (match cur with
     | none => (none, some new)
     | some c => if c = new then (none, some c) else (some .addedInJjAddedInGit, some c))
  | some o =>
    (match cur with
     | some c =>
       if c = o then (none, some new)
       else if c = new then (none, some c)
       else (some .failedToSet, some c)
     | none => (some .modifiedInJjDeletedInGit, none))

/-! ### one step -/

theorem stepDelete_git_other (s : ExportState) (e : Key × Nat) (k : Key) (h : k ≠ e.1) :
    (stepDelete s e).git k = s.git k ∧ (stepDelete s e).view.gitRefs k = s.view.gitRefs k := by
  unfold stepDelete deleteGitRef
  cases hc : s.git e.1 with
  | none => simp [View.setGitRef, setAt, h]
  | some c =>
    by_cases hco : c = e.2 <;> simp [hco, View.setGitRef, setAt, h]

theorem stepDelete_same (s : ExportState) (e : Key × Nat) :
    (stepDelete s e).git e.1 = (delRes (s.git e.1) e.2).2 ∧
    (stepDelete s e).view.gitRefs e.1 =
      (match (delRes (s.git e.1) e.2).1 with | none => absent | some _ => s.view.gitRefs e.1) ∧
    (stepDelete s e).failed = s.failed ++
      (match (delRes (s.git e.1) e.2).1 with | none => [] | some r => [(e.1, r)]) := by
  unfold stepDelete deleteGitRef delRes
  cases hc : s.git e.1 with
  | none => simp [View.setGitRef, setAt, hc]
  | some c =>
    by_cases hco : c = e.2 <;> simp [hco, View.setGitRef, setAt, hc]

theorem stepUpdate_git_other (s : ExportState) (e : Key × (Option Nat × Nat)) (k : Key) (h : k ≠ e.1) :
    (stepUpdate s e).git k = s.git k ∧ (stepUpdate s e).view.gitRefs k = s.view.gitRefs k := by
  unfold stepUpdate updateGitRef
  cases ho : e.2.1 with
  | none =>
    cases hc : s.git e.1 with
    | none => simp [View.setGitRef, setAt, h]
    | some c => by_cases hcn : c = e.2.2 <;> simp [hcn, View.setGitRef, setAt, h]
  | some o =>
    cases hc : s.git e.1 with
    | none => simp
    | some c =>
      by_cases hco : c = o
      · simp [hco, View.setGitRef, setAt, h]
      · by_cases hcn : c = e.2.2
        · have hco' : ¬ e.2.2 = o := by rw [← hcn]; exact hco
          simp [hco', hcn, View.setGitRef, setAt, h]
        · simp [hco, hcn]

theorem stepUpdate_same (s : ExportState) (e : Key × (Option Nat × Nat)) :
    (stepUpdate s e).git e.1 = (updRes (s.git e.1) e.2.1 e.2.2).2 ∧
    (stepUpdate s e).view.gitRefs e.1 =
      (match (updRes (s.git e.1) e.2.1 e.2.2).1 with | none => normal e.2.2 | some _ => s.view.gitRefs e.1) ∧
    (stepUpdate s e).failed = s.failed ++
      (match (updRes (s.git e.1) e.2.1 e.2.2).1 with | none => [] | some r => [(e.1, r)]) := by
  unfold stepUpdate updateGitRef updRes
  cases ho : e.2.1 with
  | none =>
    cases hc : s.git e.1 with
    | none => simp [View.setGitRef, setAt]
    | some c => by_cases hcn : c = e.2.2 <;> simp [hcn, View.setGitRef, setAt, hc]
  | some o =>
    cases hc : s.git e.1 with
    | none => simp [hc]
    | some c =>
      by_cases hco : c = o
      · simp [hco, View.setGitRef, setAt]
      · by_cases hcn : c = e.2.2
        · have hco' : ¬ e.2.2 = o := by rw [← hcn]; exact hco
          simp [hco', hcn, hc, View.setGitRef, setAt]
        · simp [hco, hcn, hc]

/-! ### the folds -/

/-- what is observed of an export in progress at one ref: the Git ref and jj's record of it -/
def obs (s : ExportState) (k : Key) : Option Nat × Target := (s.git k, s.view.gitRefs k)

def fDel (e : Key × Nat) (x : Option Nat × Target) : Option Nat × Target :=
  ((delRes x.1 e.2).2, match (delRes x.1 e.2).1 with | none => absent | some _ => x.2)

def fUpd (e : Key × (Option Nat × Nat)) (x : Option Nat × Target) : Option Nat × Target :=
  ((updRes x.1 e.2.1 e.2.2).2, match (updRes x.1 e.2.1 e.2.2).1 with | none => normal e.2.2 | some _ => x.2)

theorem foldl_stepDelete_obs_other (l : List (Key × Nat)) (s : ExportState) (k : Key)
    (h : ∀ e ∈ l, e.1 ≠ k) : obs (l.foldl stepDelete s) k = obs s k :=
  foldl_pointwise_other stepDelete (·.1) obs
    (fun s e k hk => by
      have := stepDelete_git_other s e k hk
      simp [obs, this.1, this.2]) l s k h

theorem foldl_stepDelete_obs_mem (l : List (Key × Nat)) (s : ExportState) (hnd : (l.map (·.1)).Nodup)
    (e : Key × Nat) (he : e ∈ l) : obs (l.foldl stepDelete s) e.1 = fDel e (obs s e.1) :=
  foldl_pointwise_mem stepDelete (·.1) obs fDel
    (fun s e k hk => by
      have := stepDelete_git_other s e k hk
      simp [obs, this.1, this.2])
    (fun s e => by
      have := stepDelete_same s e
      simp [obs, fDel, this.1, this.2.1]) l s hnd e he

theorem foldl_stepUpdate_obs_other (l : List (Key × (Option Nat × Nat))) (s : ExportState) (k : Key)
    (h : ∀ e ∈ l, e.1 ≠ k) : obs (l.foldl stepUpdate s) k = obs s k :=
  foldl_pointwise_other stepUpdate (·.1) obs
    (fun s e k hk => by
      have := stepUpdate_git_other s e k hk
      simp [obs, this.1, this.2]) l s k h

theorem foldl_stepUpdate_obs_mem (l : List (Key × (Option Nat × Nat))) (s : ExportState)
    (hnd : (l.map (·.1)).Nodup) (e : Key × (Option Nat × Nat)) (he : e ∈ l) :
    obs (l.foldl stepUpdate s) e.1 = fUpd e (obs s e.1) :=
  foldl_pointwise_mem stepUpdate (·.1) obs fUpd
    (fun s e k hk => by
      have := stepUpdate_git_other s e k hk
      simp [obs, this.1, this.2])
    (fun s e => by
      have := stepUpdate_same s e
      simp [obs, fUpd, this.1, this.2.1]) l s hnd e he

/-- a reported failure of the delete loop is an old failure or a failed compare-and-swap, judged on
the ref's value before the loop -/
theorem mem_foldl_stepDelete_failed (l : List (Key × Nat)) (s : ExportState) (hnd : (l.map (·.1)).Nodup)
    (x : Key × FailReason) (hx : x ∈ (l.foldl stepDelete s).failed) :
    x ∈ s.failed ∨ ∃ e ∈ l, x.1 = e.1 ∧ (delRes (s.git e.1) e.2).1 = some x.2 := by
  induction l generalizing s with
  | nil => exact Or.inl hx
  | cons e l ih =>
    simp only [List.map_cons, List.nodup_cons, List.mem_map, not_exists, not_and] at hnd
    simp only [List.foldl_cons] at hx
    rcases ih (stepDelete s e) hnd.2 hx with h | ⟨e', he', h1, h2⟩
    · rw [(stepDelete_same s e).2.2] at h
      rcases List.mem_append.mp h with h | h
      · exact Or.inl h
      · right
        refine ⟨e, List.mem_cons_self, ?_⟩
        cases hr : (delRes (s.git e.1) e.2).1 with
        | none => simp [hr] at h
        | some r => simp [hr] at h; simp [h]
    · right
      refine ⟨e', List.mem_cons_of_mem _ he', h1, ?_⟩
      have hne : e'.1 ≠ e.1 := fun heq => hnd.1 e' he' heq
      rw [(stepDelete_git_other s e e'.1 hne).1] at h2
      exact h2

theorem mem_foldl_stepUpdate_failed (l : List (Key × (Option Nat × Nat))) (s : ExportState)
    (hnd : (l.map (·.1)).Nodup) (x : Key × FailReason) (hx : x ∈ (l.foldl stepUpdate s).failed) :
    x ∈ s.failed ∨ ∃ e ∈ l, x.1 = e.1 ∧ (updRes (s.git e.1) e.2.1 e.2.2).1 = some x.2 := by
  induction l generalizing s with
  | nil => exact Or.inl hx
  | cons e l ih =>
    simp only [List.map_cons, List.nodup_cons, List.mem_map, not_exists, not_and] at hnd
    simp only [List.foldl_cons] at hx
    rcases ih (stepUpdate s e) hnd.2 hx with h | ⟨e', he', h1, h2⟩
    · rw [(stepUpdate_same s e).2.2] at h
      rcases List.mem_append.mp h with h | h
      · exact Or.inl h
      · right
        refine ⟨e, List.mem_cons_self, ?_⟩
        cases hr : (updRes (s.git e.1) e.2.1 e.2.2).1 with
        | none => simp [hr] at h
        | some r => simp [hr] at h; simp [h]
    · right
      refine ⟨e', List.mem_cons_of_mem _ he', h1, ?_⟩
      have hne : e'.1 ≠ e.1 := fun heq => hnd.1 e' he' heq
      rw [(stepUpdate_git_other s e e'.1 hne).1] at h2
      exact h2

theorem failed_mono_stepDelete (l : List (Key × Nat)) (s : ExportState) (x : Key × FailReason)
    (hx : x ∈ s.failed) : x ∈ (l.foldl stepDelete s).failed := by
  induction l generalizing s with
  | nil => exact hx
  | cons e l ih =>
    simp only [List.foldl_cons]
    apply ih
    rw [(stepDelete_same s e).2.2]
    exact List.mem_append_left _ hx

theorem failed_mono_stepUpdate (l : List (Key × (Option Nat × Nat))) (s : ExportState) (x : Key × FailReason)
    (hx : x ∈ s.failed) : x ∈ (l.foldl stepUpdate s).failed := by
  induction l generalizing s with
  | nil => exact hx
  | cons e l ih =>
    simp only [List.foldl_cons]
    apply ih
    rw [(stepUpdate_same s e).2.2]
    exact List.mem_append_left _ hx

theorem mem_insertFailed (x y : Key × FailReason) (l : List (Key × FailReason)) :
    y ∈ insertFailed x l ↔ y = x ∨ y ∈ l := by
  induction l with
  | nil => simp [insertFailed]
  | cons z zs ih =>
    unfold insertFailed
    split
    · simp
    · simp only [List.mem_cons, ih]
      constructor
      · rintro (h | h | h)
        · exact Or.inr (Or.inl h)
        · exact Or.inl h
        · exact Or.inr (Or.inr h)
      · rintro (h | h | h)
        · exact Or.inr (Or.inl h)
        · exact Or.inl h
        · exact Or.inr (Or.inr h)

theorem mem_sortFailed (y : Key × FailReason) (l : List (Key × FailReason)) : y ∈ sortFailed l ↔ y ∈ l := by
  induction l with
  | nil => simp [sortFailed]
  | cons x xs ih =>
    have : sortFailed (x :: xs) = insertFailed x (sortFailed xs) := rfl
    rw [this, mem_insertFailed, ih]
    simp

theorem isFailed_false_iff (failed : List (Key × FailReason)) (k : Key) :
    isFailed failed k = false ↔ ∀ x ∈ failed, x.1 ≠ k := by
  simp [isFailed]

theorem isFailed_true_iff (failed : List (Key × FailReason)) (k : Key) :
    isFailed failed k = true ↔ ∃ x ∈ failed, x.1 = k := by
  simp [isFailed]

/-! ### the export diff lists -/

theorem toUpdate_mem (root : Nat) (keys : List Key) (v : View) (e : Key × (Option Nat × Nat)) :
    e ∈ (diffRefsToExport root keys v).toUpdate ↔ e.1 ∈ keys ∧ exportItem root v e.1 = .update e.2.1 e.2.2 := by
  unfold diffRefsToExport
  simp only [List.mem_filterMap]
  constructor
  · rintro ⟨k, hk, h⟩
    cases hi : exportItem root v k <;> simp [hi] at h
    subst h
    exact ⟨hk, hi⟩
  · rintro ⟨hk, hi⟩
    exact ⟨e.1, hk, by simp [hi]⟩

theorem toDelete_mem (root : Nat) (keys : List Key) (v : View) (e : Key × Nat) :
    e ∈ (diffRefsToExport root keys v).toDelete ↔ e.1 ∈ keys ∧ exportItem root v e.1 = .delete e.2 := by
  unfold diffRefsToExport
  simp only [List.mem_filterMap]
  constructor
  · rintro ⟨k, hk, h⟩
    cases hi : exportItem root v k <;> simp [hi] at h
    subst h
    exact ⟨hk, hi⟩
  · rintro ⟨hk, hi⟩
    exact ⟨e.1, hk, by simp [hi]⟩

theorem failed0_mem (root : Nat) (keys : List Key) (v : View) (e : Key × FailReason) :
    e ∈ (diffRefsToExport root keys v).failed ↔ e.1 ∈ keys ∧ exportItem root v e.1 = .fail e.2 := by
  unfold diffRefsToExport
  simp only [List.mem_filterMap]
  constructor
  · rintro ⟨k, hk, h⟩
    cases hi : exportItem root v k <;> simp [hi] at h
    subst h
    exact ⟨hk, hi⟩
  · rintro ⟨hk, hi⟩
    exact ⟨e.1, hk, by simp [hi]⟩

theorem toUpdate_nodup (root : Nat) (keys : List Key) (hnd : keys.Nodup) (v : View) :
    ((diffRefsToExport root keys v).toUpdate.map (·.1)).Nodup := by
  unfold diffRefsToExport
  apply (map_key_filterMap_sublist keys _ _ _).nodup hnd
  intro k i h
  cases hi : exportItem root v k <;> simp [hi] at h
  simp [← h]

theorem toDelete_nodup (root : Nat) (keys : List Key) (hnd : keys.Nodup) (v : View) :
    ((diffRefsToExport root keys v).toDelete.map (·.1)).Nodup := by
  unfold diffRefsToExport
  apply (map_key_filterMap_sublist keys _ _ _).nodup hnd
  intro k i h
  cases hi : exportItem root v k <;> simp [hi] at h
  simp [← h]

/-! ### `export_refs_to_git`, ref by ref -/

/-- the Git ref and jj's `git_refs` record of `k` after `export_refs_to_git`, by what the diff
decided for `k` -/
theorem exportRefsToGit_obs (root : Nat) (keys : List Key) (hnd : keys.Nodup) (v : View) (git : Git) (k : Key) :
    obs (exportRefsToGit v git (diffRefsToExport root keys v)) k =
      if k ∈ keys then
        (match exportItem root v k with
         | .delete o => fDel (k, o) (git k, v.gitRefs k)
         | .update old c => fUpd (k, (old, c)) (git k, v.gitRefs k)
         | _ => (git k, v.gitRefs k))
      else (git k, v.gitRefs k) := by
  have hobs : ∀ s : ExportState, ∀ f, obs { s with failed := f } k = obs s k := fun _ _ => rfl
  unfold exportRefsToGit
  simp only
  rw [hobs]
  by_cases hk : k ∈ keys
  · rw [if_pos hk]
    cases hi : exportItem root v k with
    | delete o =>
      have hmem : (k, o) ∈ (diffRefsToExport root keys v).toDelete := (toDelete_mem root keys v (k, o)).mpr ⟨hk, hi⟩
      rw [foldl_stepUpdate_obs_other _ _ k (fun e he heq => by
        have := ((toUpdate_mem root keys v e).mp he).2
        rw [heq, hi] at this; cases this)]
      exact foldl_stepDelete_obs_mem _ _ (toDelete_nodup root keys hnd v) (k, o) hmem
    | update old c =>
      have hmem : (k, (old, c)) ∈ (diffRefsToExport root keys v).toUpdate :=
        (toUpdate_mem root keys v (k, (old, c))).mpr ⟨hk, hi⟩
      have h1 := foldl_stepUpdate_obs_mem _
        (List.foldl stepDelete ⟨v, git, (diffRefsToExport root keys v).failed⟩ (diffRefsToExport root keys v).toDelete)
        (toUpdate_nodup root keys hnd v) (k, (old, c)) hmem
      simp only at h1
      rw [h1, foldl_stepDelete_obs_other _ _ k (fun e he heq => by
        have := ((toDelete_mem root keys v e).mp he).2
        rw [heq, hi] at this; cases this)]
      rfl
    | skip =>
      rw [foldl_stepUpdate_obs_other _ _ k (fun e he heq => by
        have := ((toUpdate_mem root keys v e).mp he).2
        rw [heq, hi] at this; cases this)]
      rw [foldl_stepDelete_obs_other _ _ k (fun e he heq => by
        have := ((toDelete_mem root keys v e).mp he).2
        rw [heq, hi] at this; cases this)]
      rfl
    | fail r =>
      rw [foldl_stepUpdate_obs_other _ _ k (fun e he heq => by
        have := ((toUpdate_mem root keys v e).mp he).2
        rw [heq, hi] at this; cases this)]
      rw [foldl_stepDelete_obs_other _ _ k (fun e he heq => by
        have := ((toDelete_mem root keys v e).mp he).2
        rw [heq, hi] at this; cases this)]
      rfl
  · rw [if_neg hk]
    rw [foldl_stepUpdate_obs_other _ _ k (fun e he heq => hk (heq ▸ ((toUpdate_mem root keys v e).mp he).1))]
    rw [foldl_stepDelete_obs_other _ _ k (fun e he heq => hk (heq ▸ ((toDelete_mem root keys v e).mp he).1))]
    rfl

/-- a ref reported failed by `export_refs_to_git`: the diff refused it, or its compare-and-swap
(against the Git value before the export) failed -/
theorem exportRefsToGit_failed (root : Nat) (keys : List Key) (hnd : keys.Nodup) (v : View) (git : Git)
    (x : Key × FailReason) (hx : x ∈ (exportRefsToGit v git (diffRefsToExport root keys v)).failed) :
    x.1 ∈ keys ∧
    (exportItem root v x.1 = .fail x.2 ∨
     (∃ o, exportItem root v x.1 = .delete o ∧ (delRes (git x.1) o).1 = some x.2) ∨
     (∃ old c, exportItem root v x.1 = .update old c ∧ (updRes (git x.1) old c).1 = some x.2)) := by
  unfold exportRefsToGit at hx
  simp only at hx
  rw [mem_sortFailed] at hx
  rcases mem_foldl_stepUpdate_failed _ _ (toUpdate_nodup root keys hnd v) x hx with h | ⟨e, he, h1, h2⟩
  · rcases mem_foldl_stepDelete_failed _ _ (toDelete_nodup root keys hnd v) x h with h | ⟨e, he, h1, h2⟩
    · have := (failed0_mem root keys v x).mp h
      exact ⟨this.1, Or.inl this.2⟩
    · have := (toDelete_mem root keys v e).mp he
      rw [h1]
      exact ⟨this.1, Or.inr (Or.inl ⟨e.2, this.2, by simpa using h2⟩)⟩
  · have := (toUpdate_mem root keys v e).mp he
    rw [h1]
    refine ⟨this.1, Or.inr (Or.inr ⟨e.2.1, e.2.2, this.2, ?_⟩)⟩
    -- the delete loop did not touch this ref
    have hoth := foldl_stepDelete_obs_other (diffRefsToExport root keys v).toDelete
      ⟨v, git, (diffRefsToExport root keys v).failed⟩ e.1 (fun e' he' heq => by
        have h' := ((toDelete_mem root keys v e').mp he').2
        rw [heq, this.2] at h'; cases h')
    have hg : (List.foldl stepDelete ⟨v, git, (diffRefsToExport root keys v).failed⟩
        (diffRefsToExport root keys v).toDelete).git e.1 = git e.1 := congrArg Prod.fst hoth
    rw [hg] at h2
    exact h2

/-- a ref the diff refused is reported failed -/
theorem exportRefsToGit_failed_of_item (root : Nat) (keys : List Key) (v : View) (git : Git) (k : Key)
    (r : FailReason) (hk : k ∈ keys) (hi : exportItem root v k = .fail r) :
    (k, r) ∈ (exportRefsToGit v git (diffRefsToExport root keys v)).failed := by
  unfold exportRefsToGit
  simp only
  rw [mem_sortFailed]
  apply failed_mono_stepUpdate
  apply failed_mono_stepDelete
  exact (failed0_mem root keys v (k, r)).mpr ⟨hk, hi⟩

/-! ### what the diff decided, read backwards -/

theorem classifyExport_update (root : Nat) (old new : Target) (o : Option Nat) (c : Nat)
    (h : classifyExport root old new = .update o c) : old = ofOpt o ∧ new = normal c ∧ new ≠ old := by
  unfold classifyExport at h
  split at h
  · cases h
  · next hne =>
    split at h
    · cases h
    · split at h
      · split at h
        · simp only [ExportItem.update.injEq] at h; obtain ⟨rfl, rfl⟩ := h; exact ⟨rfl, rfl, hne⟩
        · cases h
        · cases h
      · split at h
        · simp only [ExportItem.update.injEq] at h; obtain ⟨rfl, rfl⟩ := h; exact ⟨rfl, rfl, hne⟩
        · cases h
      · cases h

theorem classifyExport_delete (root : Nat) (old new : Target) (o : Nat)
    (h : classifyExport root old new = .delete o) : old = normal o ∧ new = absent := by
  unfold classifyExport at h
  split at h
  · cases h
  · split at h
    · cases h
    · split at h
      · split at h
        · cases h
        · simp only [ExportItem.delete.injEq] at h; subst h; exact ⟨rfl, rfl⟩
        · cases h
      · split at h
        · cases h
        · cases h
      · cases h

theorem classifyExport_fail (root : Nat) (old new : Target) (r : FailReason)
    (h : classifyExport root old new = .fail r) :
    new ≠ old ∧ (new = normal root ∨ hasConflict old = true) := by
  unfold classifyExport at h
  split at h
  · cases h
  · next hne =>
    split at h
    · next hr => exact ⟨hne, Or.inl hr⟩
    · split at h
      · split at h <;> cases h
      · split at h <;> cases h
      · next h1 h2 =>
        refine ⟨hne, Or.inr ?_⟩
        match old, h1, h2 with
        | [], _, _ => simp [hasConflict]
        | [some o], h1, _ => exact absurd rfl (h1 o)
        | [none], _, h2 => exact absurd rfl h2
        | _ :: _ :: _, _, _ => simp [hasConflict]

/-- a resolved new value `x` against a record that agrees with Git's value `g`: the diff never
refuses, and whatever write it asks for succeeds and leaves Git and the record at `x` -/
theorem resolved_export_outcome (root : Nat) (k : Key) (g x : Option Nat) (hroot : ofOpt x ≠ normal root) :
    (∀ r, classifyExport root (ofOpt g) (ofOpt x) ≠ .fail r) ∧
    (∀ o, classifyExport root (ofOpt g) (ofOpt x) = .delete o →
      (delRes g o).1 = none ∧ fDel (k, o) (g, ofOpt g) = (x, ofOpt x)) ∧
    (∀ old c, classifyExport root (ofOpt g) (ofOpt x) = .update old c →
      (updRes g old c).1 = none ∧ fUpd (k, (old, c)) (g, ofOpt g) = (x, ofOpt x)) ∧
    (classifyExport root (ofOpt g) (ofOpt x) = .skip → x = g) := by
  cases g with
  | none =>
    cases x with
    | none => simp [classifyExport, ofOpt]
    | some c =>
      have hr : ¬ c = root := fun h => hroot (by simp [ofOpt, normal, h])
      simp [classifyExport, ofOpt, normal, hr, updRes, fUpd]
  | some o =>
    cases x with
    | none => simp [classifyExport, ofOpt, normal, delRes, fDel, absent]
    | some c =>
      have hr : ¬ c = root := fun h => hroot (by simp [ofOpt, normal, h])
      by_cases hco : c = o
      · simp [classifyExport, ofOpt, hco]
      · simp [classifyExport, ofOpt, normal, hr, hco, updRes, fUpd]

/-- a conflicted new value is never written -/
theorem classifyExport_conflicted (root : Nat) (g : Option Nat) (new : Target) (h : hasConflict new = true) :
    classifyExport root (ofOpt g) new = .skip := by
  unfold classifyExport
  split
  · rfl
  · have hr : new ≠ normal root := fun h' => by simp [h', hasConflict, normal] at h
    rw [if_neg hr]
    match new, h with
    | [], _ => cases g <;> simp [ofOpt]
    | [a], h => simp [hasConflict] at h
    | _ :: _ :: _, _ => cases g <;> simp [ofOpt]

/-! ### `copy_exportable_local_bookmarks_to_remote_view` -/

/-- is the local bookmark `n` copied to its `@git` record? -/
def copyCond (failed : List (Key × FailReason)) (v : View) (n : Nat) : Bool :=
  !hasConflict (v.locals n) && (v.remotes (n, 0)).target != v.locals n && !isFailed failed (n, 0)

theorem copyExportable_fold_locals (l : List (Nat × Target)) (v : View) :
    (l.foldl (fun v e => v.setRemote (e.1, 0) ⟨e.2, true⟩) v).locals = v.locals ∧
    (l.foldl (fun v e => v.setRemote (e.1, 0) ⟨e.2, true⟩) v).gitRefs = v.gitRefs := by
  induction l generalizing v with
  | nil => exact ⟨rfl, rfl⟩
  | cons e l ih => simp only [List.foldl_cons]; rw [(ih _).1, (ih _).2]; simp

theorem copyExportable_locals (names : List Nat) (failed : List (Key × FailReason)) (v : View) :
    (copyExportable names failed v).locals = v.locals ∧ (copyExportable names failed v).gitRefs = v.gitRefs := by
  unfold copyExportable
  exact copyExportable_fold_locals _ v

theorem copyExportable_remotes_other (names : List Nat) (failed : List (Key × FailReason)) (v : View) (k : Key)
    (h : k.2 ≠ 0) : (copyExportable names failed v).remotes k = v.remotes k := by
  unfold copyExportable
  simp only
  apply foldl_pointwise_other (fun (v : View) (e : Nat × Target) => v.setRemote (e.1, 0) ⟨e.2, true⟩)
    (fun e => ((e.1, 0) : Key)) (fun s k => s.remotes k)
  · intro s e k hk; exact setRemote_remotes_other s _ k _ hk
  · intro e _ heq; apply h; rw [← heq]

theorem copyExportable_target (names : List Nat) (hnd : names.Nodup) (failed : List (Key × FailReason)) (v : View)
    (n : Nat) (hn : n ∈ names) :
    ((copyExportable names failed v).remotes (n, 0)).target =
      if copyCond failed v n then v.locals n else (v.remotes (n, 0)).target := by
  unfold copyExportable
  simp only
  have hother : ∀ (s : View) (e : Nat × Target) (m : Nat), m ≠ e.1 →
      ((s.setRemote (e.1, 0) ⟨e.2, true⟩).remotes (m, 0)).target = (s.remotes (m, 0)).target := by
    intro s e m hm
    rw [setRemote_remotes_other s _ (m, 0) _ (by simpa using hm)]
  have hsub : ((names.filterMap (fun n =>
      if !hasConflict (v.locals n) && (v.remotes (n, 0)).target != v.locals n && !isFailed failed (n, 0)
      then some (n, v.locals n) else none)).map (·.1)).Nodup := by
    apply (map_key_filterMap_sublist names _ _ _).nodup hnd
    intro m i h
    split at h
    · simp only [Option.some.injEq] at h; simp [← h]
    · cases h
  by_cases hc : copyCond failed v n = true
  · rw [if_pos hc]
    have hmem : (n, v.locals n) ∈ names.filterMap (fun n =>
        if !hasConflict (v.locals n) && (v.remotes (n, 0)).target != v.locals n && !isFailed failed (n, 0)
        then some (n, v.locals n) else none) := by
      apply List.mem_filterMap.mpr
      refine ⟨n, hn, ?_⟩
      unfold copyCond at hc
      simp [hc]
    exact foldl_pointwise_mem (fun (v : View) (e : Nat × Target) => v.setRemote (e.1, 0) ⟨e.2, true⟩)
      (fun e => e.1) (fun s m => (s.remotes (m, 0)).target) (fun e _ => e.2) hother
      (fun s e => setRemote_target_same s (e.1, 0) ⟨e.2, true⟩) _ v hsub (n, v.locals n) hmem
  · rw [if_neg hc]
    apply foldl_pointwise_other (fun (v : View) (e : Nat × Target) => v.setRemote (e.1, 0) ⟨e.2, true⟩)
      (fun e => e.1) (fun s m => (s.remotes (m, 0)).target) hother
    intro e he heq
    obtain ⟨m, _, hf⟩ := List.mem_filterMap.mp he
    split at hf
    · next hcm =>
      simp only [Option.some.injEq] at hf
      subst hf
      simp only at heq
      subst heq
      exact hc (by unfold copyCond; exact hcm)
    · cases hf

theorem gitNames_mem (keys : List Key) (n : Nat) : n ∈ gitNames keys ↔ (n, 0) ∈ keys := by
  unfold gitNames
  simp only [List.mem_map, List.mem_filter, beq_iff_eq]
  constructor
  · rintro ⟨k, ⟨hk, h0⟩, rfl⟩
    have : k = (k.1, 0) := by rw [← h0]
    rw [← this]; exact hk
  · intro h; exact ⟨(n, 0), ⟨h, rfl⟩, rfl⟩

theorem gitNames_nodup (keys : List Key) (hnd : keys.Nodup) : (gitNames keys).Nodup := by
  unfold gitNames
  induction keys with
  | nil => simp
  | cons k ks ih =>
    simp only [List.nodup_cons] at hnd
    simp only [List.filter_cons]
    split
    · next h0 =>
      simp only [List.map_cons, List.nodup_cons]
      refine ⟨?_, ih hnd.2⟩
      intro hmem
      have := (gitNames_mem ks k.1).mp hmem
      have hk : k = (k.1, 0) := by simp only [beq_iff_eq] at h0; rw [← h0]
      rw [← hk] at this
      exact hnd.1 this
    · exact ih hnd.2

/-! ### `exportRefs`, ref by ref -/

theorem exportRefs_spec (root : Nat) (keys : List Key) (hnd : keys.Nodup) (v : View) (git : Git) :
    (exportRefs root keys v git).view.locals = v.locals ∧
    (∀ k, ((exportRefs root keys v git).git k, (exportRefs root keys v git).view.gitRefs k) =
      obs (exportRefsToGit v git (diffRefsToExport root keys v)) k) ∧
    (exportRefs root keys v git).failed = (exportRefsToGit v git (diffRefsToExport root keys v)).failed ∧
    (∀ k, k.2 ≠ 0 → (exportRefs root keys v git).view.remotes k = v.remotes k) ∧
    (∀ n, (n, 0) ∈ keys → ((exportRefs root keys v git).view.remotes (n, 0)).target =
      if copyCond (exportRefsToGit v git (diffRefsToExport root keys v)).failed v n then v.locals n
      else (v.remotes (n, 0)).target) := by
  have hv := exportRefsToGit_view v git (diffRefsToExport root keys v)
  unfold exportRefs
  simp only
  refine ⟨?_, ?_, trivial, ?_, ?_⟩
  · rw [(copyExportable_locals _ _ _).1, hv.1]
  · intro k
    rw [(copyExportable_locals _ _ _).2]
    rfl
  · intro k hk
    rw [copyExportable_remotes_other _ _ _ k hk, hv.2]
  · intro n hn
    rw [copyExportable_target _ (gitNames_nodup keys hnd) _ _ n ((gitNames_mem keys n).mpr hn)]
    unfold copyCond
    rw [hv.1, hv.2]

end JjModel.GitSync
