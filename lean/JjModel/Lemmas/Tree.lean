import JjModel.Model.Tree
import JjModel.Lemmas.MergeMap
/-!
  Lemmas about the tree model: entry-list view, lookups, the sorted union of names, heights,
  fuel irrelevance of `mergeTreesF`.
-/
namespace JjModel.Trees
open JjModel.Merge
set_option linter.unusedSimpArgs false

/-! ### entry-list view -/

theorem entries_cons (n : Nat) (v : Value) (r : Tree) : (Tree.cons n v r).entries = (n, v) :: r.entries := by
  cases v <;> rfl

theorem entries_ofEntries (es : List (Nat × Value)) : (Tree.ofEntries es).entries = es := by
  induction es with
  | nil => rfl
  | cons e es ih => obtain ⟨n, v⟩ := e; simp [Tree.ofEntries, entries_cons, ih]

theorem ofEntries_entries (t : Tree) : Tree.ofEntries t.entries = t := by
  induction t with
  | nil => rfl
  | file n id x r ih => simp [Tree.entries, Tree.ofEntries, Tree.cons, ih]
  | symlink n id r ih => simp [Tree.entries, Tree.ofEntries, Tree.cons, ih]
  | dir n s r _ ih => simp [Tree.entries, Tree.ofEntries, Tree.cons, ih]

theorem entries_injective {a b : Tree} (h : a.entries = b.entries) : a = b := by
  rw [← ofEntries_entries a, ← ofEntries_entries b, h]

theorem entries_eq_nil {t : Tree} : t.entries = [] ↔ t = .nil := by
  constructor
  · intro h; exact entries_injective (by simpa [Tree.entries] using h)
  · rintro rfl; rfl

/-! ### lookups -/

theorem lookupE_eq_none {es : List (Nat × Value)} {k : Nat} : lookupE es k = none ↔ k ∉ es.map Prod.fst := by
  induction es with
  | nil => simp [lookupE]
  | cons e es ih =>
    obtain ⟨n, v⟩ := e
    by_cases h : n = k <;> simp [lookupE, h, ih, Ne.symm]

theorem mem_of_lookupE {es : List (Nat × Value)} {k : Nat} {v : Value} (h : lookupE es k = some v) : (k, v) ∈ es := by
  induction es with
  | nil => simp [lookupE] at h
  | cons e es ih =>
    obtain ⟨n, w⟩ := e
    by_cases hn : n = k
    · simp [lookupE, hn] at h; simp [hn, h]
    · simp [lookupE, hn] at h; simp [ih h]

@[simp] theorem lookup_nil (k : Nat) : Tree.nil.lookup k = none := rfl

@[simp] theorem getFrom_none (p : List Nat) : getFrom none p = none := by
  induction p with
  | nil => rfl
  | cons n p ih => simpa [getFrom, descend] using ih

theorem getFrom_cons (v : Option Value) (n : Nat) (p : List Nat) : getFrom v (n :: p) = getFrom (descend v n) p := rfl

theorem get_cons (t : Tree) (n : Nat) (p : List Nat) : t.get (n :: p) = getFrom (t.lookup n) p := rfl

theorem getFrom_append (v : Option Value) (p q : List Nat) : getFrom v (p ++ q) = getFrom (getFrom v p) q := by
  simp [getFrom, List.foldl_append]

/-- for tree-or-absent values, following a non-empty path is following it in the (possibly empty) tree -/
theorem get_treeOrEmpty (v : Option Value) (hv : isTreeOrNone v = true) (n : Nat) (p : List Nat) :
    (treeOrEmpty v).get (n :: p) = getFrom v (n :: p) := by
  match v, hv with
  | none, _ => simp [treeOrEmpty, get_cons, getFrom_cons, descend]
  | some (.tree t), _ => rfl

theorem descend_treeToVal (t : Tree) (n : Nat) : descend (treeToVal t) n = t.lookup n := by
  unfold treeToVal; split
  · next h => subst h; rfl
  · rfl

theorem treeOrEmpty_treeToVal (t : Tree) : treeOrEmpty (treeToVal t) = t := by
  unfold treeToVal; split
  · next h => subst h; rfl
  · rfl

theorem isTreeOrNone_treeToVal (t : Tree) : isTreeOrNone (treeToVal t) = true := by
  unfold treeToVal; split <;> rfl

/-! ### heights -/

theorem height_of_mem {t : Tree} {n : Nat} {s : Tree} (h : (n, Value.tree s) ∈ t.entries) : s.height + 1 ≤ t.height := by
  induction t with
  | nil => simp [Tree.entries] at h
  | file m id x r ih => simp [Tree.entries] at h; have := ih h; simp [Tree.height]; omega
  | symlink m id r ih => simp [Tree.entries] at h; have := ih h; simp [Tree.height]; omega
  | dir m s' r _ ih =>
    simp [Tree.entries] at h
    rcases h with ⟨_, rfl⟩ | h
    · simp [Tree.height]; omega
    · have := ih h; simp [Tree.height]; omega

theorem height_pos_of_mem {t : Tree} {e : Nat × Value} (h : e ∈ t.entries) : 1 ≤ t.height := by
  cases t <;> simp [Tree.entries, Tree.height] at * <;> omega

theorem height_lookup (t : Tree) (n : Nat) : (treeOrEmpty (t.lookup n)).height + 1 ≤ max 1 t.height := by
  cases h : t.lookup n with
  | none => simp [treeOrEmpty, Tree.height]; omega
  | some v =>
    cases v with
    | tree s => have := height_of_mem (mem_of_lookupE h); simp [treeOrEmpty]; omega
    | file _ _ => simp [treeOrEmpty, Tree.height]; omega
    | symlink _ => simp [treeOrEmpty, Tree.height]; omega

theorem le_maxHeight {ts : List Tree} {t : Tree} (h : t ∈ ts) : t.height ≤ maxHeight ts := by
  induction ts with
  | nil => simp at h
  | cons a ts ih =>
    simp only [maxHeight, List.map_cons, List.foldr_cons]
    rcases List.mem_cons.mp h with rfl | h
    · omega
    · have := ih h; simp only [maxHeight] at this; omega

theorem maxHeight_le {ts : List Tree} {k : Nat} (h : ∀ t ∈ ts, t.height ≤ k) : maxHeight ts ≤ k := by
  induction ts with
  | nil => simp [maxHeight]
  | cons a ts ih =>
    simp only [maxHeight, List.map_cons, List.foldr_cons]
    have := ih (fun t ht => h t (by simp [ht])); simp only [maxHeight] at this
    have := h a (by simp); omega

/-- the subtrees read for one basename are strictly lower than the trees they come from -/
theorem maxHeight_subtrees (ts : List Tree) (n : Nat) :
    maxHeight ((ts.map (·.lookup n)).map treeOrEmpty) + 1 ≤ max 1 (maxHeight ts) := by
  have : maxHeight ((ts.map (·.lookup n)).map treeOrEmpty) ≤ max 1 (maxHeight ts) - 1 := by
    apply maxHeight_le
    intro t ht
    simp only [List.map_map, List.mem_map, Function.comp] at ht
    obtain ⟨a, ha, rfl⟩ := ht
    have h1 := height_lookup a n
    have h2 := le_maxHeight ha
    omega
  omega

/-! ### the sorted union of names -/

theorem mem_insertName (n k : Nat) (l : List Nat) : k ∈ insertName n l ↔ k = n ∨ k ∈ l := by
  induction l with
  | nil => simp [insertName]
  | cons m ms ih =>
    simp only [insertName]
    split
    · simp
    · split
      · next h => subst h; simp
      · simp [ih]; grind

theorem pairwise_insertName (n : Nat) (l : List Nat) (h : l.Pairwise (· < ·)) : (insertName n l).Pairwise (· < ·) := by
  induction l with
  | nil => simp [insertName]
  | cons m ms ih =>
    simp only [insertName]
    rw [List.pairwise_cons] at h
    split
    · next hlt =>
      rw [List.pairwise_cons]
      refine ⟨fun a ha => ?_, List.pairwise_cons.mpr h⟩
      rcases List.mem_cons.mp ha with rfl | ha
      · exact hlt
      · exact Nat.lt_trans hlt (h.1 a ha)
    · split
      · exact List.pairwise_cons.mpr h
      · next h1 h2 =>
        rw [List.pairwise_cons]
        refine ⟨fun a ha => ?_, ih h.2⟩
        rcases (mem_insertName n a ms).mp ha with rfl | ha
        · omega
        · exact h.1 a ha

theorem mem_allNames (ts : List Tree) (k : Nat) : k ∈ allNames ts ↔ ∃ t ∈ ts, k ∈ t.entries.map Prod.fst := by
  unfold allNames
  have : ∀ l : List Nat, k ∈ l.foldr insertName [] ↔ k ∈ l := by
    intro l; induction l with
    | nil => simp
    | cons a l ih => simp [mem_insertName, ih]
  rw [this]; simp only [List.mem_flatMap]

theorem pairwise_allNames (ts : List Tree) : (allNames ts).Pairwise (· < ·) := by
  unfold allNames
  generalize ts.flatMap (fun t => t.entries.map Prod.fst) = l
  induction l with
  | nil => simp
  | cons a l ih => exact pairwise_insertName a _ ih

theorem nodup_allNames (ts : List Tree) : (allNames ts).Nodup :=
  (pairwise_allNames ts).imp (fun h => Nat.ne_of_lt h)

theorem lookup_none_of_not_mem_allNames {ts : List Tree} {k : Nat} (h : k ∉ allNames ts) {t : Tree} (ht : t ∈ ts) :
    t.lookup k = none := by
  rw [Tree.lookup, lookupE_eq_none]
  intro hk; exact h ((mem_allNames ts k).mpr ⟨t, ht, hk⟩)

theorem one_le_maxHeight_of_mem_allNames {ts : List Tree} {k : Nat} (h : k ∈ allNames ts) : 1 ≤ maxHeight ts := by
  obtain ⟨t, ht, hk⟩ := (mem_allNames ts k).mp h
  obtain ⟨e, he, _⟩ := List.mem_map.mp hk
  exact Nat.le_trans (height_pos_of_mem he) (le_maxHeight ht)

/-! ### sortedness -/

/-- names strictly ascending at the top level -/
def Tree.NamesSorted (t : Tree) : Prop := (t.entries.map Prod.fst).Pairwise (· < ·)

theorem namesSorted_of_sorted {t : Tree} (h : t.sorted = true) : t.NamesSorted := by
  unfold Tree.NamesSorted
  induction t with
  | nil => simp [Tree.entries]
  | file n id x r ih =>
    simp only [Tree.sorted, Bool.and_eq_true, List.all_eq_true, decide_eq_true_eq] at h
    simp only [Tree.entries, List.map_cons, List.pairwise_cons, List.mem_map]
    exact ⟨by rintro a ⟨e, he, rfl⟩; exact h.1 e he, ih h.2⟩
  | symlink n id r ih =>
    simp only [Tree.sorted, Bool.and_eq_true, List.all_eq_true, decide_eq_true_eq] at h
    simp only [Tree.entries, List.map_cons, List.pairwise_cons, List.mem_map]
    exact ⟨by rintro a ⟨e, he, rfl⟩; exact h.1 e he, ih h.2⟩
  | dir n s r _ ih =>
    simp only [Tree.sorted, Bool.and_eq_true, List.all_eq_true, decide_eq_true_eq] at h
    simp only [Tree.entries, List.map_cons, List.pairwise_cons, List.mem_map]
    exact ⟨by rintro a ⟨e, he, rfl⟩; exact h.1.2 e he, ih h.2⟩

theorem filterMap_congr_mem {α β : Type} (l : List α) (f g : α → Option β) (h : ∀ x ∈ l, f x = g x) :
    l.filterMap f = l.filterMap g := by
  induction l with
  | nil => rfl
  | cons a l ih =>
    rw [List.filterMap_cons, List.filterMap_cons, h a (by simp), ih (fun x hx => h x (by simp [hx]))]

/-- Reading a name-sorted entry list back through any sorted list of names that covers it gives the
entry list itself (`into_backend_trees` rebuilds a trivially resolved tree unchanged). -/
theorem filterMap_lookupE (es : List (Nat × Value)) (hs : (es.map Prod.fst).Pairwise (· < ·))
    (names : List Nat) (hn : names.Pairwise (· < ·)) (hcov : ∀ k ∈ es.map Prod.fst, k ∈ names) :
    names.filterMap (fun k => (lookupE es k).map (fun v => (k, v))) = es := by
  induction names generalizing es with
  | nil =>
    cases es with
    | nil => rfl
    | cons e es => exact absurd (hcov e.1 (by simp)) (by simp)
  | cons n names ih =>
    rw [List.pairwise_cons] at hn
    cases es with
    | nil =>
      rw [List.filterMap_cons]; simp only [lookupE, Option.map_none]
      exact ih [] (by simp) hn.2 (by simp)
    | cons e es =>
      obtain ⟨m, v⟩ := e
      simp only [List.map_cons, List.pairwise_cons] at hs
      have hm : m ∈ n :: names := hcov m (by simp)
      by_cases hnm : n = m
      · subst hnm
        rw [List.filterMap_cons]; simp only [lookupE, if_true, Option.map_some]
        congr 1
        have hcov' : ∀ k ∈ es.map Prod.fst, k ∈ names := by
          intro k hk
          have := hcov k (by simp [hk])
          rcases List.mem_cons.mp this with rfl | h
          · exact absurd (hs.1 k hk) (Nat.lt_irrefl _)
          · exact h
        refine Eq.trans ?_ (ih es hs.2 hn.2 hcov')
        apply filterMap_congr_mem
        intro k hk
        have : n ≠ k := Nat.ne_of_lt (hn.1 k hk)
        simp [lookupE, this]
      · -- `n` is below every name of the entry list
        have hlt : n < m := by
          rcases List.mem_cons.mp hm with h | h
          · exact absurd h.symm hnm
          · exact hn.1 m h
        have hnone : lookupE ((m, v) :: es) n = none := by
          rw [lookupE_eq_none]; simp only [List.map_cons, List.mem_cons, not_or]
          refine ⟨hnm, fun hk => ?_⟩
          have := hs.1 n hk; omega
        rw [List.filterMap_cons, hnone]; simp only [Option.map_none]
        apply ih ((m, v) :: es) (by simp only [List.map_cons, List.pairwise_cons]; exact hs) hn.2
        intro k hk
        have := hcov k hk
        rcases List.mem_cons.mp this with rfl | h
        · simp only [List.map_cons, List.mem_cons] at hk
          rcases hk with rfl | hk
          · exact absurd rfl hnm
          · have := hs.1 k hk; omega
        · exact h

/-! ### fuel -/

theorem mergeEntry_congr (sc : SameChange) (cm : ContentMerge) (r1 r2 : List Tree → List Tree) (vals : MVal)
    (h : r1 (vals.map treeOrEmpty) = r2 (vals.map treeOrEmpty)) :
    mergeEntry sc cm r1 vals = mergeEntry sc cm r2 vals := by
  unfold mergeEntry; rw [h]

theorem allNames_eq_nil_of_maxHeight {ts : List Tree} (h : maxHeight ts = 0) : allNames ts = [] := by
  apply List.eq_nil_iff_forall_not_mem.mpr
  intro k hk
  have := one_le_maxHeight_of_mem_allNames hk
  omega

theorem mergeTreesF_of_maxHeight_zero (sc : SameChange) (cm : ContentMerge) (f : Nat) (ts : List Tree)
    (h : maxHeight ts = 0) : mergeTreesF sc cm f ts = [.nil] := by
  cases f with
  | zero => rfl
  | succ f => simp [mergeTreesF, allNames_eq_nil_of_maxHeight h, assemble, buildTree, Tree.ofEntries]

/-- any fuel from the height of the inputs upwards gives the same merge -/
theorem mergeTreesF_fuel (sc : SameChange) (cm : ContentMerge) (f1 f2 : Nat) (ts : List Tree)
    (h1 : maxHeight ts ≤ f1) (h2 : maxHeight ts ≤ f2) : mergeTreesF sc cm f1 ts = mergeTreesF sc cm f2 ts := by
  induction f1 generalizing f2 ts with
  | zero =>
    rw [mergeTreesF_of_maxHeight_zero sc cm 0 ts (by omega), mergeTreesF_of_maxHeight_zero sc cm f2 ts (by omega)]
  | succ a ih =>
    cases f2 with
    | zero =>
      rw [mergeTreesF_of_maxHeight_zero sc cm _ ts (by omega), mergeTreesF_of_maxHeight_zero sc cm 0 ts (by omega)]
    | succ b =>
      simp only [mergeTreesF]
      congr 1
      apply List.map_congr_left
      intro n hn
      congr 1
      apply mergeEntry_congr
      have := maxHeight_subtrees ts n
      exact ih b _ (by omega) (by omega)

theorem mergeTrees_eq (sc : SameChange) (cm : ContentMerge) (ts : List Tree) (h : 1 < ts.length) :
    mergeTrees sc cm ts = mergeTreesF sc cm (maxHeight ts) ts := by
  match ts, h with
  | [], h => simp at h
  | [_], h => simp at h
  | _ :: _ :: _, _ => rfl

end JjModel.Trees
