import JjModel.Lemmas.RepoRefs
/-! Ancestor sets are parent-closed; `update_heads` leaves no key among the heads; the store only grows. -/
set_option linter.unusedSimpArgs false
namespace JjModel.Repo

/-! ### ancestry: the computed ancestor set is closed under parents -/

/-- well-formed store: parents are older than their children (append-only store) -/
def WF (s : Store) : Prop := ∀ i, ∀ p ∈ parentsOf s i, p < i

theorem ancGo_mono (s : Store) : ∀ (n : Nat) (acc : List Nat) (x : Nat), x ∈ acc → x ∈ ancGo s n acc := by
  intro n
  induction n with
  | zero => intro acc x h; exact h
  | succ i ih =>
    intro acc x h
    unfold ancGo
    apply ih
    by_cases hc : acc.contains i = true
    · simp only [hc, if_true]; exact mem_union.mpr (Or.inl h)
    · simp only [hc]; exact h

theorem ancGo_closed (s : Store) (hwf : WF s) :
    ∀ (n : Nat) (acc : List Nat),
      (∀ x ∈ acc, n ≤ x → ∀ p ∈ parentsOf s x, p ∈ acc) →
      ∀ x ∈ ancGo s n acc, ∀ p ∈ parentsOf s x, p ∈ ancGo s n acc := by
  intro n
  induction n with
  | zero => intro acc h x hx p hp; exact h x hx (Nat.zero_le _) p hp
  | succ i ih =>
    intro acc h
    unfold ancGo
    apply ih
    intro x hx hix p hp
    by_cases hc : acc.contains i = true
    · simp only [hc, if_true] at hx ⊢
      have hi : i ∈ acc := by simpa using hc
      rcases mem_union.mp hx with hx | hx
      · by_cases hxi : x = i
        · subst hxi; exact mem_union.mpr (Or.inr hp)
        · exact mem_union.mpr (Or.inl (h x hx (by omega) p hp))
      · have := hwf i x hx; omega
    · simp only [hc] at hx ⊢
      have hi : i ∉ acc := by simpa using hc
      by_cases hxi : x = i
      · subst hxi; exact absurd hx hi
      · exact h x hx (by omega) p hp

theorem parentsOf_out (s : Store) (x : Nat) (h : s.length ≤ x) : parentsOf s x = [] := by
  unfold parentsOf
  rw [List.getElem?_eq_none h]

/-- the visible set is closed under taking parents -/
theorem ancestors_closed {s : Store} (hwf : WF s) {hs : List Nat} {x p : Nat}
    (hx : x ∈ ancestors s hs) (hp : p ∈ parentsOf s x) : p ∈ ancestors s hs := by
  unfold ancestors at *
  apply ancGo_closed s hwf s.length hs ?_ x hx p hp
  intro y _ hy q hq
  rw [parentsOf_out s y hy] at hq; cases hq

theorem ancestors_self {s : Store} {hs : List Nat} {x : Nat} (hx : x ∈ hs) : x ∈ ancestors s hs :=
  ancGo_mono s _ _ _ hx

/-! ### `update_heads` -/

/-- **no head is a rewritten/abandoned commit** after `update_heads` (the root is never a key:
    `set_rewritten_commit` & co. assert it). -/
theorem updateHeads_no_key_head {r : Repo} (hwf : WF r.store) (h0 : 0 ∉ r.mapping.keys) :
    ∀ h ∈ r.updateHeads.view.heads, h ∉ r.mapping.keys := by
  intro h hh
  unfold Repo.updateHeads at hh
  simp only at hh
  rcases normalizeHeads_subset hh with hh | ⟨_, rfl⟩
  · rcases mem_union.mp hh with hh | hh
    · have := (List.mem_filter.mp hh).2
      simpa using this
    · obtain ⟨hp, hnot⟩ := List.mem_filter.mp hh
      simp only [List.mem_flatMap] at hp
      obtain ⟨k, hk, hpk⟩ := hp
      obtain ⟨hkk, hkv⟩ := List.mem_filter.mp hk
      intro hkey
      have hvis : h ∈ ancestors r.store r.view.heads :=
        ancestors_closed hwf (by simpa using hkv) hpk
      have : h ∈ r.mapping.keys.filter (ancestors r.store r.view.heads).contains :=
        List.mem_filter.mpr ⟨hkey, by simpa using hvis⟩
      simp [this] at hnot
  · exact h0

theorem updateHeads_frame (r : Repo) :
    r.updateHeads.store = r.store ∧ r.updateHeads.mapping = r.mapping ∧
    r.updateHeads.view.bookmarks = r.view.bookmarks ∧ r.updateHeads.view.wc = r.view.wc :=
  ⟨rfl, rfl, rfl, rfl⟩

/-! ### the store only grows -/

theorem edit_store {r r' : Repo} {ws c : Nat} (h : r.edit ws c = some r') : r'.store = r.store := by
  unfold Repo.edit at h
  simp only at h
  by_cases hc : c = 0
  · simp [hc] at h
  · simp only [hc, if_false, Option.some.injEq] at h
    rw [← h]
    unfold Repo.maybeAbandonWc
    cases assocGet r.view.wc ws with
    | none => rfl
    | some w =>
      simp only
      split
      · rfl
      · rfl

theorem wcStep_store {r r' : Repo} {rec rec' : List (Nat × Nat)} {e : Nat × Nat × List Nat}
    (h : Repo.wcStep (some (r, rec)) e = some (r', rec')) : ∃ t, r'.store = r.store ++ t := by
  unfold Repo.wcStep at h
  simp only at h
  by_cases ha : isAbandonedKey r.mapping e.2.1 = true
  · simp only [ha, Bool.not_true, Bool.false_eq_true, if_false] at h
    cases hl : rec.lookup e.2.1 with
    | some c =>
      simp only [hl, Option.map_eq_some_iff, Prod.mk.injEq] at h
      obtain ⟨r1, h1, rfl, _⟩ := h
      exact ⟨[], by rw [edit_store h1]; simp⟩
    | none =>
      simp only [hl, Option.map_eq_some_iff, Prod.mk.injEq] at h
      obtain ⟨r1, h1, rfl, _⟩ := h
      exact ⟨_, by rw [edit_store h1]; rfl⟩
  · simp only [ha, Bool.not_false, if_true] at h
    cases hn : e.2.2 with
    | nil => simp [hn] at h
    | cons n _ =>
      simp only [hn, Option.map_eq_some_iff, Prod.mk.injEq] at h
      obtain ⟨r1, h1, rfl, _⟩ := h
      exact ⟨[], by rw [edit_store h1]; simp⟩

theorem wcFold_store (l : List (Nat × Nat × List Nat)) :
    ∀ (r : Repo) (rec : List (Nat × Nat)) {r' : Repo} {rec' : List (Nat × Nat)},
      l.foldl Repo.wcStep (some (r, rec)) = some (r', rec') → ∃ t, r'.store = r.store ++ t := by
  induction l with
  | nil =>
    intro r rec r' rec' h
    simp only [List.foldl_nil, Option.some.injEq, Prod.mk.injEq] at h
    exact ⟨[], by rw [← h.1]; simp⟩
  | cons e l ih =>
    intro r rec r' rec' h
    simp only [List.foldl_cons] at h
    cases hs : Repo.wcStep (some (r, rec)) e with
    | none =>
      rw [hs] at h
      have : ∀ l : List (Nat × Nat × List Nat), l.foldl Repo.wcStep none = none := by
        intro l; induction l with
        | nil => rfl
        | cons _ _ ih => simpa [List.foldl_cons, Repo.wcStep] using ih
      rw [this] at h; cases h
    | some p =>
      obtain ⟨r1, rec1⟩ := p
      rw [hs] at h
      obtain ⟨t1, ht1⟩ := wcStep_store hs
      obtain ⟨t, ht⟩ := ih r1 rec1 h
      exact ⟨t1 ++ t, by rw [ht, ht1]; simp⟩

theorem updateRewrittenReferences_store {r r' : Repo} {opts : Options}
    (h : r.updateRewrittenReferences opts = .ok r') : ∃ t, r'.store = r.store ++ t := by
  unfold Repo.updateRewrittenReferences at h
  cases hrm : resolveRewriteMappingWith r.mapping (fun _ => true) with
  | error e => simp [hrm] at h
  | ok rm =>
    simp only [hrm] at h
    cases hw : (r.updateLocalBookmarks rm opts).updateWcCommits rm with
    | none => simp [hw] at h
    | some r2 =>
      simp only [hw] at h
      injection h with h
      unfold Repo.updateWcCommits at hw
      simp only [Option.map_eq_some_iff] at hw
      obtain ⟨⟨r3, rec3⟩, hf, rfl⟩ := hw
      obtain ⟨t, ht⟩ := wcFold_store _ _ _ hf
      refine ⟨t, ?_⟩
      rw [← h, (updateHeads_frame _).1, ht]
      unfold Repo.updateLocalBookmarks
      rw [(bookmarkFold_frame opts _ r).1]

end JjModel.Repo
