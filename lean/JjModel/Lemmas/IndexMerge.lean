import JjModel.Model.IndexMerge
import JjModel.Lemmas.Index
/-!
  Lemmas for C18, growth of the index: `add_commit_data`, `add_commits_from` / `merge_in`, the
  squash rule.
-/
namespace JjModel.Index

/-! ### the squash rule -/

/-- child first: every parent file has more than twice the commits of its child -/
def Halving : List Nat → Prop
  | [] => True
  | [_] => True
  | c :: p :: rest => 2 * c < p ∧ Halving (p :: rest)

theorem Halving.tail {c : Nat} {l : List Nat} (h : Halving (c :: l)) : Halving l := by
  cases l with
  | nil => trivial
  | cons p rest => exact h.2

theorem squashLoop_spec (n : Nat) (levels : List Nat) (hh : Halving levels) :
    (squashLoop n levels).1 + (squashLoop n levels).2.sum = n + levels.sum ∧
    Halving ((squashLoop n levels).1 :: (squashLoop n levels).2) ∧
    n ≤ (squashLoop n levels).1 ∧
    (∀ x ∈ (squashLoop n levels).2, x ∈ levels) := by
  induction levels generalizing n with
  | nil => simp [squashLoop, Halving]
  | cons p rest ih =>
    simp only [squashLoop]
    split
    · next hlt => exact ⟨rfl, ⟨hlt, hh⟩, Nat.le_refl _, fun x hx => hx⟩
    · obtain ⟨h1, h2, h3, h4⟩ := ih (n + p) hh.tail
      refine ⟨by simp only [List.sum_cons]; omega, h2, by omega, fun x hx => by simp [h4 x hx]⟩

/-! ### ids and positions -/

def ids (idx : IdIndex) : List Nat := idx.map (·.id)

/-- ids are unique and the underlying graph index is well-formed -/
def IdWF (idx : IdIndex) : Prop := (ids idx).Nodup ∧ IndexWF (toIndex idx)

theorem posOfId_some {idx : IdIndex} {id q : Nat} (h : posOfId idx id = some q) :
    q < idx.length ∧ idAt idx q = some id := by
  induction idx generalizing q with
  | nil => simp [posOfId] at h
  | cons e rest ih =>
    simp only [posOfId] at h
    split at h
    · next he => cases h; simp [idAt, he]
    · cases hr : posOfId rest id with
      | none => simp [hr] at h
      | some q' =>
        simp [hr] at h
        subst h
        obtain ⟨h1, h2⟩ := ih hr
        exact ⟨by simp; omega, by simpa [idAt] using h2⟩

theorem posOfId_isSome {idx : IdIndex} {id : Nat} : (posOfId idx id).isSome = true ↔ id ∈ ids idx := by
  induction idx with
  | nil => simp [posOfId, ids]
  | cons e rest ih =>
    simp only [posOfId, ids, List.map_cons, List.mem_cons]
    split
    · next he => simp [he]
    · next hne =>
      have : ¬ id = e.id := fun h => hne h.symm
      simp only [Option.isSome_map, this, false_or]
      exact ih

theorem posOfId_of_mem {idx : IdIndex} {id : Nat} (h : id ∈ ids idx) : ∃ q, posOfId idx id = some q := by
  have := posOfId_isSome.mpr h
  cases hp : posOfId idx id with
  | none => rw [hp] at this; cases this
  | some q => exact ⟨q, rfl⟩

theorem idAt_mem {idx : IdIndex} {q i : Nat} (h : idAt idx q = some i) : i ∈ ids idx := by
  unfold idAt at h
  cases he : idx[q]? with
  | none => simp [he] at h
  | some e =>
    simp [he] at h
    subst h
    exact List.mem_map.mpr ⟨e, List.mem_of_getElem? he, rfl⟩

theorem idAt_append_left (idx ext : IdIndex) {q : Nat} (h : q < idx.length) : idAt (idx ++ ext) q = idAt idx q := by
  unfold idAt; rw [List.getElem?_append_left h]

theorem toIndex_append (a b : IdIndex) : toIndex (a ++ b) = toIndex a ++ toIndex b := by
  simp [toIndex]

theorem toIndex_length (a : IdIndex) : (toIndex a).length = a.length := by simp [toIndex]

theorem filterMap_congr_mem {α β : Type} {f g : α → Option β} {l : List α} (h : ∀ x ∈ l, f x = g x) :
    l.filterMap f = l.filterMap g := by
  induction l with
  | nil => rfl
  | cons a l ih =>
    simp only [List.filterMap_cons, h a (by simp)]
    rw [ih (fun x hx => h x (by simp [hx]))]

theorem entry_unique {idx : IdIndex} (hnd : (ids idx).Nodup) {e1 e2 : IdEntry} (h1 : e1 ∈ idx) (h2 : e2 ∈ idx)
    (hid : e1.id = e2.id) : e1 = e2 := by
  induction idx with
  | nil => simp at h1
  | cons a rest ih =>
    simp only [ids, List.map_cons] at hnd
    have hn := List.nodup_cons.mp hnd
    rcases List.mem_cons.mp h1 with rfl | h1'
    · rcases List.mem_cons.mp h2 with rfl | h2'
      · rfl
      · exact absurd (List.mem_map.mpr ⟨e2, h2', hid.symm⟩) hn.1
    · rcases List.mem_cons.mp h2 with rfl | h2'
      · exact absurd (List.mem_map.mpr ⟨e1, h1', hid⟩) hn.1
      · exact ih hn.2 h1' h2'

/-! ### `add_commit_data` -/

theorem addCommitData_cases (idx : IdIndex) (id : Nat) (parentIds : List Nat) :
    (id ∈ ids idx ∧ addCommitData idx id parentIds = idx) ∨
    (¬ id ∈ ids idx ∧ addCommitData idx id parentIds =
      idx ++ [{ id := id, parents := parentIds.filterMap (posOfId idx),
                gen := newGen (toIndex idx) (parentIds.filterMap (posOfId idx)) }]) := by
  unfold addCommitData
  by_cases h : (posOfId idx id).isSome = true
  · exact Or.inl ⟨posOfId_isSome.mp h, by simp [h]⟩
  · exact Or.inr ⟨fun hm => h (posOfId_isSome.mpr hm), by simp [h]⟩

theorem addCommitData_wf {idx : IdIndex} (hwf : IdWF idx) (id : Nat) (parentIds : List Nat) :
    IdWF (addCommitData idx id parentIds) := by
  rcases addCommitData_cases idx id parentIds with ⟨_, he⟩ | ⟨hnew, he⟩
  · rw [he]; exact hwf
  · rw [he]
    constructor
    · simp only [ids, List.map_append, List.map_cons, List.map_nil]
      apply List.nodup_append.mpr
      refine ⟨hwf.1, by simp, ?_⟩
      intro a ha b hb
      simp at hb; subst hb
      intro hab; subst hab; exact hnew ha
    · rw [toIndex_append]
      have := addCommit_wf hwf.2 (parentIds.filterMap (posOfId idx)) (by
        intro q hq
        obtain ⟨pid, _, hp⟩ := List.mem_filterMap.mp hq
        rw [toIndex_length]
        exact (posOfId_some hp).1)
      simpa [addCommit, toIndex] using this

theorem addCommitData_ids (idx : IdIndex) (id : Nat) (parentIds : List Nat) (x : Nat) :
    x ∈ ids (addCommitData idx id parentIds) ↔ x ∈ ids idx ∨ x = id := by
  rcases addCommitData_cases idx id parentIds with ⟨hin, he⟩ | ⟨_, he⟩
  · rw [he]
    constructor
    · exact Or.inl
    · rintro (h | rfl)
      · exact h
      · exact hin
  · rw [he]; simp [ids]

theorem addCommitData_prefix (idx : IdIndex) (id : Nat) (parentIds : List Nat) :
    ∃ ext, addCommitData idx id parentIds = idx ++ ext := by
  rcases addCommitData_cases idx id parentIds with ⟨_, he⟩ | ⟨_, he⟩
  · exact ⟨[], by simp [he]⟩
  · exact ⟨_, he⟩

/-! ### the commit graph an index describes (on ids) -/

/-- `p` is a parent of `c` according to `idx` -/
def IdEdge (idx : IdIndex) (c p : Nat) : Prop := ∃ e ∈ idx, e.id = c ∧ p ∈ parentIdsAt idx e

theorem parentIdsAt_append {idx ext : IdIndex} (hwf : IdWF idx) {e : IdEntry} (he : e ∈ idx) :
    parentIdsAt (idx ++ ext) e = parentIdsAt idx e := by
  unfold parentIdsAt
  apply filterMap_congr_mem
  intro q hq
  apply idAt_append_left
  -- parents of an entry of a well-formed index are valid positions
  obtain ⟨i, hi, hget⟩ := List.mem_iff_getElem.mp he
  have hti : (toIndex idx)[i]? = some { parents := e.parents, gen := e.gen } := by
    simp [toIndex, List.getElem?_eq_getElem hi, hget]
  have := (hwf.2 i _ hti).1 q hq
  omega

/-- the parents recorded for a new commit are exactly the given parent ids, when they are all
indexed already -/
theorem parentIdsAt_new {idx : IdIndex} (parentIds : List Nat) (hall : ∀ pid ∈ parentIds, pid ∈ ids idx)
    (ext : IdIndex) (g : Nat) (id : Nat) :
    parentIdsAt (idx ++ ext) { id := id, parents := parentIds.filterMap (posOfId idx), gen := g } = parentIds := by
  unfold parentIdsAt
  simp only
  induction parentIds with
  | nil => rfl
  | cons pid rest ih =>
    obtain ⟨q, hq⟩ := posOfId_of_mem (hall pid (by simp))
    obtain ⟨hlt, hid⟩ := posOfId_some hq
    simp only [List.filterMap_cons, hq]
    rw [idAt_append_left idx ext hlt, hid]
    simp only [List.cons.injEq, true_and]
    exact ih (fun p hp => hall p (by simp [hp]))

/-! ### `add_commits_from` / `merge_in` -/

/-- what one `add_commit_data` step contributes, given that the parents are already there -/
theorem addCommitData_edges {idx : IdIndex} (hwf : IdWF idx) (id : Nat) (parentIds : List Nat)
    (hall : ∀ pid ∈ parentIds, pid ∈ ids idx) (c p : Nat) :
    IdEdge (addCommitData idx id parentIds) c p ↔
      IdEdge idx c p ∨ (¬ id ∈ ids idx ∧ c = id ∧ p ∈ parentIds) := by
  rcases addCommitData_cases idx id parentIds with ⟨hin, he⟩ | ⟨hnew, he⟩
  · rw [he]
    constructor
    · exact Or.inl
    · rintro (h | ⟨hn, _⟩)
      · exact h
      · exact absurd hin hn
  · rw [he]
    constructor
    · rintro ⟨e, hmem, hid, hp⟩
      rcases List.mem_append.mp hmem with hold | hnewe
      · left
        rw [parentIdsAt_append hwf hold] at hp
        exact ⟨e, hold, hid, hp⟩
      · right
        simp at hnewe
        subst hnewe
        rw [parentIdsAt_new parentIds hall] at hp
        exact ⟨hnew, hid.symm, hp⟩
    · rintro (⟨e, hmem, hid, hp⟩ | ⟨_, rfl, hp⟩)
      · refine ⟨e, by simp [hmem], hid, ?_⟩
        rw [parentIdsAt_append hwf hmem]; exact hp
      · refine ⟨{ id := c, parents := parentIds.filterMap (posOfId idx),
                  gen := newGen (toIndex idx) (parentIds.filterMap (posOfId idx)) }, by simp, rfl, ?_⟩
        rw [parentIdsAt_new parentIds hall]; exact hp

/-- the parent ids `add_commits_from` hands to `add_commit_data` are ids of earlier entries -/
theorem parentIdsAt_earlier {other : IdIndex} (hwf : IdWF other) {j : Nat} {e : IdEntry}
    (he : other[j]? = some e) {pid : Nat} (hp : pid ∈ parentIdsAt other e) :
    ∃ q, q < j ∧ idAt other q = some pid := by
  unfold parentIdsAt at hp
  obtain ⟨q, hq, hid⟩ := List.mem_filterMap.mp hp
  have hti : (toIndex other)[j]? = some { parents := e.parents, gen := e.gen } := by
    simp [toIndex, he]
  exact ⟨q, (hwf.2 j _ hti).1 q hq, hid⟩

structure MergeOut (self other r : IdIndex) (k : Nat) : Prop where
  wf : IdWF r
  pref : ∃ ext, r = self ++ ext
  ids_iff : ∀ x, x ∈ ids r ↔ x ∈ ids self ∨ x ∈ ids (other.drop k)
  edges : ∀ c p, IdEdge r c p ↔ IdEdge self c p ∨ (¬ c ∈ ids self ∧ c ∈ ids (other.drop k) ∧ IdEdge other c p)

theorem addCommitsFrom_spec {self other : IdIndex} (hself : IdWF self) (hother : IdWF other) (k : Nat)
    (hbase : ∀ q, q < k → ∀ i, idAt other q = some i → i ∈ ids self) :
    MergeOut self other (addCommitsFrom self other k) k := by
  unfold addCommitsFrom
  -- generalise: `done` entries of `other.drop k` processed, `todo` left
  have gen : ∀ (todo done : List IdEntry) (acc : IdIndex), other.drop k = done ++ todo →
      IdWF acc → (∃ ext, acc = self ++ ext) →
      (∀ x, x ∈ ids acc ↔ x ∈ ids self ∨ x ∈ ids done) →
      (∀ c p, IdEdge acc c p ↔ IdEdge self c p ∨ (¬ c ∈ ids self ∧ c ∈ ids done ∧ IdEdge other c p)) →
      MergeOut self other (todo.foldl (fun acc e => addCommitData acc e.id (parentIdsAt other e)) acc) k := by
    intro todo
    induction todo with
    | nil =>
      intro done acc hsplit hwf hpre hids hedges
      simp only [List.append_nil] at hsplit
      simp only [List.foldl_nil]
      exact ⟨hwf, hpre, by rw [hsplit]; exact hids, by rw [hsplit]; exact hedges⟩
    | cons e todo ih =>
      intro done acc hsplit hwf hpre hids hedges
      simp only [List.foldl_cons]
      -- position of `e` in `other`
      have hk : k ≤ other.length := by
        by_cases h : k ≤ other.length
        · exact h
        · have : other.drop k = [] := List.drop_eq_nil_of_le (by omega)
          rw [this] at hsplit
          have := congrArg List.length hsplit
          simp at this
      have hsplit2 : other = other.take k ++ done ++ e :: todo := by
        rw [List.append_assoc, ← hsplit, List.take_append_drop]
      have hj : other[k + done.length]? = some e := by
        rw [hsplit2]
        rw [List.getElem?_append_right (by simp [List.length_take]; omega)]
        simp [List.length_take, Nat.min_eq_left hk]
      have hemem : e ∈ other := List.mem_of_getElem? hj
      -- every parent id of `e` is indexed in `acc`
      have hall : ∀ pid ∈ parentIdsAt other e, pid ∈ ids acc := by
        intro pid hp
        obtain ⟨q, hq, hid⟩ := parentIdsAt_earlier hother hj hp
        by_cases hqk : q < k
        · exact (hids pid).mpr (Or.inl (hbase q hqk pid hid))
        · refine (hids pid).mpr (Or.inr ?_)
          -- `q` lies in the processed part
          have hget : other[q]? = done[q - k]? := by
            rw [hsplit2, List.append_assoc, List.getElem?_append_right (by simp [List.length_take]; omega)]
            simp only [List.length_take, Nat.min_eq_left hk]
            rw [List.getElem?_append_left (by omega)]
          unfold idAt at hid
          rw [hget] at hid
          cases hd : done[q - k]? with
          | none => simp [hd] at hid
          | some d =>
            simp [hd] at hid
            exact List.mem_map.mpr ⟨d, List.mem_of_getElem? hd, hid⟩
      apply ih (done ++ [e]) (addCommitData acc e.id (parentIdsAt other e))
      · rw [hsplit]; simp
      · exact addCommitData_wf hwf _ _
      · obtain ⟨ext, he⟩ := hpre
        obtain ⟨ext2, he2⟩ := addCommitData_prefix acc e.id (parentIdsAt other e)
        exact ⟨ext ++ ext2, by rw [he2, he, List.append_assoc]⟩
      · intro x
        rw [addCommitData_ids, hids]
        simp only [ids, List.map_append, List.map_cons, List.map_nil, List.mem_append, List.mem_singleton]
        constructor
        · rintro ((h | h) | h)
          · exact Or.inl h
          · exact Or.inr (Or.inl h)
          · exact Or.inr (Or.inr h)
        · rintro (h | h | h)
          · exact Or.inl (Or.inl h)
          · exact Or.inl (Or.inr h)
          · exact Or.inr h
      · intro c p
        rw [addCommitData_edges hwf _ _ hall, hedges]
        have hedge_e : ∀ p, p ∈ parentIdsAt other e ↔ IdEdge other e.id p := by
          intro p
          constructor
          · intro hp; exact ⟨e, hemem, rfl, hp⟩
          · rintro ⟨e', he', hid', hp'⟩
            -- ids are unique in `other`
            have : e' = e := entry_unique hother.1 he' hemem hid'
            subst this; exact hp'
        simp only [ids, List.map_append, List.map_cons, List.map_nil, List.mem_append, List.mem_singleton]
        constructor
        · rintro ((h | ⟨h1, h2, h3⟩) | ⟨hn, rfl, hp⟩)
          · exact Or.inl h
          · exact Or.inr ⟨h1, Or.inl h2, h3⟩
          · have hns : ¬ e.id ∈ ids self := fun h => hn ((hids _).mpr (Or.inl h))
            exact Or.inr ⟨hns, Or.inr rfl, (hedge_e p).mp hp⟩
        · rintro (h | ⟨h1, h2 | h2, h3⟩)
          · exact Or.inl (Or.inl h)
          · exact Or.inl (Or.inr ⟨h1, h2, h3⟩)
          · subst h2
            by_cases hin : e.id ∈ ids acc
            · -- already added by an earlier entry with the same id: impossible, ids of `other` are unique …
              rcases (hids _).mp hin with hs | hd
              · exact absurd hs h1
              · exact Or.inl (Or.inr ⟨h1, hd, h3⟩)
            · exact Or.inr ⟨hin, rfl, (hedge_e p).mpr h3⟩
  have := gen (other.drop k) [] self (by simp) hself ⟨[], by simp⟩ (by simp [ids]) (by simp [ids])
  exact this

end JjModel.Index
